(* C10 — proofs about the section table: ordered insertion by (order, id), ids, lookup by name, reachable holders. *)
From Coq Require Import ZArith List Bool Lia Sorted Permutation.
From Verif Require Import Sections.SectionModel Sections.SectionProofs.
Import ListNotations.
Local Open Scope Z_scope.

(* ------------------------------------------------------------------ the key order *)
Definition key_ltP (a b : section) : Prop := sorder a < sorder b \/ (sorder a = sorder b /\ sid a < sid b).

Lemma key_lt_spec a b : key_lt a b = true <-> key_ltP a b.
Proof.
  unfold key_lt, key_ltP. rewrite orb_true_iff, andb_true_iff, !Z.ltb_lt, Z.eqb_eq. tauto.
Qed.

Lemma key_lt_false a b : key_lt a b = false -> sid a <> sid b -> key_ltP b a.
Proof.
  intros H Hn. unfold key_ltP. destruct (key_lt a b) eqn:E; [discriminate|].
  assert (~ key_ltP a b) by (rewrite <- key_lt_spec; congruence). unfold key_ltP in *. lia.
Qed.

Lemma key_ltP_trans a b c : key_ltP a b -> key_ltP b c -> key_ltP a c.
Proof. unfold key_ltP. lia. Qed.

Definition sorted (l : list section) : Prop := StronglySorted key_ltP l.

Lemma insert_sorted_in s l x : In x (insert_sorted s l) <-> x = s \/ In x l.
Proof.
  induction l as [|a t IH]; cbn [insert_sorted].
  - cbn. intuition.
  - destruct (key_lt a s); cbn [In]; [rewrite IH|]; intuition.
Qed.

Lemma insert_sorted_sorted s l : sorted l -> (forall x, In x l -> sid x <> sid s) -> sorted (insert_sorted s l).
Proof.
  intros Hs Hid. induction Hs as [|a t Hst IH Hall]; cbn [insert_sorted].
  - constructor; constructor.
  - destruct (key_lt a s) eqn:E.
    + constructor.
      * apply IH. intros x Hx. apply Hid. right. assumption.
      * rewrite Forall_forall. intros x Hx. apply insert_sorted_in in Hx. destruct Hx as [-> | Hx].
        -- apply key_lt_spec. assumption.
        -- rewrite Forall_forall in Hall. auto.
    + assert (Hsa : key_ltP s a) by (apply key_lt_false; [assumption|apply Hid; left; reflexivity]).
      constructor; [constructor; assumption|].
      constructor; [assumption|]. rewrite Forall_forall in *. intros x Hx. eapply key_ltP_trans; eauto.
Qed.

Lemma insert_sorted_perm s l : Permutation (s :: l) (insert_sorted s l).
Proof.
  induction l as [|a t IH]; cbn [insert_sorted]; [apply Permutation_refl|].
  destruct (key_lt a s); [|apply Permutation_refl].
  eapply Permutation_trans; [apply perm_swap|]. apply perm_skip. assumption.
Qed.

(* lower_bound: everything in front of the new section has a smaller key, everything behind a larger one *)
Lemma insert_sorted_position s l : sorted l -> (forall x, In x l -> sid x <> sid s) ->
  exists l1 l2, insert_sorted s l = l1 ++ s :: l2 /\ l = l1 ++ l2 /\
                Forall (fun x => key_ltP x s) l1 /\ Forall (fun x => key_ltP s x) l2.
Proof.
  intros Hs Hid. induction Hs as [|a t Hst IH Hall]; cbn [insert_sorted].
  - exists [], []. repeat split; constructor.
  - destruct (key_lt a s) eqn:E.
    + destruct IH as [l1 [l2 [E1 [E2 [F1 F2]]]]]; [intros x Hx; apply Hid; right; assumption|].
      exists (a :: l1), l2. rewrite E1, E2. repeat split; try assumption.
      constructor; [apply key_lt_spec; assumption|assumption].
    + assert (Hsa : key_ltP s a) by (apply key_lt_false; [assumption|apply Hid; left; reflexivity]).
      exists [], (a :: t). repeat split; [constructor|].
      constructor; [assumption|]. rewrite Forall_forall in *. intros x Hx. eapply key_ltP_trans; eauto.
Qed.

(* ------------------------------------------------------------------ ids *)
Definition ids_upto (n : nat) : list Z := map Z.of_nat (seq 0 n).

Definition ids_complete (h : holder) : Prop := Permutation (map sid h) (ids_upto (length h)).

Lemma ids_upto_S n : ids_upto (S n) = ids_upto n ++ [Z.of_nat n].
Proof. unfold ids_upto. rewrite seq_S, map_app. reflexivity. Qed.

Lemma in_ids_upto k n : In k (ids_upto n) <-> 0 <= k < Z.of_nat n.
Proof.
  unfold ids_upto. rewrite in_map_iff. split.
  - intros [x [<- Hx]]. apply in_seq in Hx. lia.
  - intros H. exists (Z.to_nat k). split; [lia|]. apply in_seq. lia.
Qed.

Lemma insert_sorted_length s l : length (insert_sorted s l) = S (length l).
Proof. rewrite <- (Permutation_length (insert_sorted_perm s l)). reflexivity. Qed.

Lemma by_id_some h k : In k (map sid h) -> exists s, by_id h k = Some s /\ sid s = k /\ In s h.
Proof.
  induction h as [|a t IH]; cbn [map In by_id]; [contradiction|].
  destruct (Z.eqb_spec (sid a) k) as [E|N].
  - intros _. exists a. auto.
  - intros [E | Hin]; [contradiction|]. destruct (IH Hin) as [s [? [? ?]]]. exists s. auto.
Qed.

Lemma by_id_in h k s : by_id h k = Some s -> sid s = k /\ In s h.
Proof.
  induction h as [|a t IH]; cbn [by_id In]; [discriminate|].
  destruct (Z.eqb_spec (sid a) k) as [E|N].
  - intros H. inversion H; subst. auto.
  - intros H. destruct (IH H). auto.
Qed.

(* ------------------------------------------------------------------ update_id keeps the shape *)
Definition shape_kept (f : section -> section) : Prop :=
  forall s, sid (f s) = sid s /\ sorder (f s) = sorder s /\ salign (f s) = salign s /\ sname (f s) = sname s /\
            0 <= svsize (f s) < W64 /\ 0 <= sbsize (f s) < W64.

Definition same_keys (s s' : section) : Prop := sid s' = sid s /\ sorder s' = sorder s /\ salign s' = salign s /\ sname s' = sname s.

Lemma same_keys_refl l : Forall2 same_keys l l.
Proof. induction l; constructor; [repeat split|assumption]. Qed.

Lemma update_id_keys h id f : shape_kept f -> Forall2 same_keys h (update_id h id f).
Proof.
  intros Hf. induction h as [|a t IH]; cbn [update_id]; [constructor|].
  destruct (sid a =? id).
  - constructor; [|apply same_keys_refl]. destruct (Hf a) as [? [? [? [? _]]]]. repeat split; assumption.
  - constructor; [repeat split|assumption].
Qed.

Lemma same_keys_sorted l l' : Forall2 same_keys l l' -> sorted l -> sorted l'.
Proof.
  intros H. induction H as [|a b la lb Hab Hl IH]; intros Hs; [constructor|].
  inversion Hs as [|? ? Hst Hall]; subst. constructor; [apply IH; assumption|].
  clear IH Hs Hst. induction Hl as [|c d lc ld Hcd Hl IH]; [constructor|].
  inversion Hall; subst. constructor; [|apply IH; assumption].
  destruct Hab as [? [? _]]. destruct Hcd as [? [? _]]. unfold key_ltP in *. lia.
Qed.

Lemma same_keys_ids l l' : Forall2 same_keys l l' -> map sid l' = map sid l /\ length l' = length l.
Proof.
  intros H. induction H as [|a b la lb [Hab _] _ [IH1 IH2]]; cbn [map length]; [auto|]. rewrite Hab, IH1, IH2. auto.
Qed.

(* ------------------------------------------------------------------ holders reachable through the API *)
Inductive reachable : holder -> Prop :=
| r_init : reachable init_holder
| r_new h name al ord h' : reachable h -> 0 <= al < 4294967296 -> INT_MIN <= ord <= INT_MAX ->
    new_section h name al ord = (EOk, h') -> reachable h'
| r_update h id f : reachable h -> shape_kept f -> reachable (update_id h id f)     (* emitters / set_virtual_size / relocation *)
| r_flatten h h' : reachable h -> flatten h = (EOk, h') -> reachable h'.

Definition holder_inv (h : holder) : Prop := sorted h /\ ids_complete h /\ wf_holder h.

Lemma is_zero_or_pow2_ok a : 0 <= a < 4294967296 -> is_zero_or_pow2 a = true -> align_ok (if a =? 0 then 1 else a).
Proof.
  intros Ha H. unfold is_zero_or_pow2, is_pow2 in H. destruct (Z.eqb_spec a 0) as [->|Hn].
  - right. exists 0. split; [lia|reflexivity].
  - cbn [orb] in H. apply andb_true_iff in H. destruct H as [Hp He]. apply Z.ltb_lt in Hp. apply Z.eqb_eq in He.
    right. exists (Z.log2 a). split; [|assumption]. split; [apply Z.log2_nonneg|].
    assert (Z.log2 a < 32); [|lia]. apply Z.log2_lt_pow2; [assumption|]. change (2 ^ 32) with 4294967296. lia.
Qed.

Lemma flat_rel_keys l l' : Forall2 flat_rel l l' -> Forall2 same_keys l l'.
Proof.
  intros H. induction H as [|a b la lb [C _] _ IH]; constructor; [|assumption].
  unfold core in C. inversion C. repeat split; congruence.
Qed.

Lemma update_id_wf h id f : shape_kept f -> Forall wf_sec h -> Forall wf_sec (update_id h id f).
Proof.
  intros Hf Hw. induction Hw as [|a t Ha Ht IHw]; cbn [update_id]; [constructor|].
  destruct (sid a =? id).
  - constructor; [|assumption].
    destruct (Hf a) as [_ [_ [Eal [_ [Hv Hb]]]]]. destruct Ha as [_ [_ Hok]]. unfold wf_sec. rewrite Eal.
    exact (conj Hv (conj Hb Hok)).
  - constructor; assumption.
Qed.

Lemma reachable_inv h : reachable h -> holder_inv h.
Proof.
  intros R. induction R as [|h name al ord h' R IH Hal Hord E|h id f R IH Hf|h h' R IH E].
  - split; [|split].
    + constructor; constructor.
    + apply Permutation_refl.
    + constructor; [|constructor]. pose proof W64_pos. unfold wf_sec. cbn. repeat split; try lia. left. reflexivity.
  - destruct IH as [Hs [Hi Hw]]. unfold new_section in E.
    destruct (is_zero_or_pow2 al) eqn:Ez; cbn [negb] in E; [|discriminate].
    destruct (MAX_NAME <? Z.of_nat (length name)); [discriminate|]. inversion E; subst h'; clear E.
    set (s := mkSection _ _ _ _ _ _ _ _).
    assert (Hfresh : forall x, In x h -> sid x <> sid s).
    { intros x Hx. assert (In (sid x) (ids_upto (length h))).
      { eapply Permutation_in; [exact Hi|]. apply in_map. assumption. }
      apply in_ids_upto in H. cbn [sid s]. lia. }
    split; [|split].
    + apply insert_sorted_sorted; assumption.
    + unfold ids_complete. rewrite insert_sorted_length, ids_upto_S.
      eapply Permutation_trans; [apply Permutation_map; apply Permutation_sym; apply insert_sorted_perm|].
      cbn [map]. eapply Permutation_trans; [apply perm_skip; exact Hi|]. apply Permutation_cons_append.
    + unfold wf_holder. rewrite Forall_forall. intros x Hx. apply insert_sorted_in in Hx. destruct Hx as [-> | Hx].
      * pose proof W64_pos. unfold wf_sec. cbn [svsize sbsize salign s]. split; [lia|]. split; [lia|].
        apply is_zero_or_pow2_ok; assumption.
      * unfold wf_holder in Hw. rewrite Forall_forall in Hw. auto.
  - destruct IH as [Hs [Hi Hw]]. pose proof (update_id_keys h id f Hf) as Hk.
    destruct (same_keys_ids _ _ Hk) as [Em El].
    split; [eapply same_keys_sorted; eassumption|]. split.
    + unfold ids_complete. rewrite Em, El. assumption.
    + apply update_id_wf; assumption.
  - destruct IH as [Hs [Hi Hw]]. destruct (flatten_final_rel h h' Hw E) as [Hwf' Hrel].
    pose proof (flat_rel_keys _ _ Hrel) as Hk. destruct (same_keys_ids _ _ Hk) as [Em El].
    split; [eapply same_keys_sorted; eassumption|]. split; [|assumption].
    unfold ids_complete. rewrite Em, El. assumption.
Qed.

(* ------------------------------------------------------------------ lookup by name *)
Lemma list_eqb_refl l : list_eqb l l = true.
Proof. induction l as [|a t IH]; cbn [list_eqb]; [reflexivity|]. rewrite Z.eqb_refl. assumption. Qed.

Lemma pad_name_matches name s : sname s = pad_name name -> name_matches s name = true.
Proof.
  intros E. unfold name_matches, pad_name in *. rewrite E.
  rewrite firstn_app, Nat.sub_diag, firstn_all, firstn_O, app_nil_r, list_eqb_refl. cbn [andb].
  rewrite app_nth2 by lia. rewrite Nat.sub_diag. 
  destruct (NAME_CELLS - length name)%nat; reflexivity.
Qed.

Lemma by_name_from_finds h key : forall fuel id0 idn s,
  (forall k, id0 <= k <= idn -> In k (map sid h)) -> by_id h idn = Some s -> name_matches s key = true ->
  id0 <= idn -> idn - id0 < Z.of_nat fuel ->
  exists j sj, by_name_from h key id0 fuel = Some j /\ id0 <= j <= idn /\ by_id h j = Some sj /\ name_matches sj key = true /\
               (forall k sk, id0 <= k < j -> by_id h k = Some sk -> name_matches sk key = false).
Proof.
  induction fuel as [|f IH]; intros id0 idn s Hall Hs Hm Hle Hf; [lia|].
  cbn [by_name_from]. destruct (by_id_some h id0 (Hall id0 ltac:(lia))) as [s0 [E0 _]]. rewrite E0.
  destruct (name_matches s0 key) eqn:M0.
  - exists id0, s0. repeat split; try assumption; try lia.
  - destruct (Z.eq_dec id0 idn) as [->|Hn]; [congruence|].
    destruct (IH (id0 + 1) idn s) as [j [sj [Ej [Hj [Bj [Mj Hfirst]]]]]]; try assumption; try lia.
    { intros k Hk. apply Hall. lia. }
    exists j, sj. repeat split; try assumption; try lia.
    intros k sk Hk Bk. destruct (Z.eq_dec k id0) as [->|Hk']; [congruence|]. apply (Hfirst k sk); [lia|assumption].
Qed.

(* a section that was just created is found under its name (the first section carrying that name is answered) *)
Lemma new_section_findable h name al ord h' : reachable h -> 0 <= al < 4294967296 -> INT_MIN <= ord <= INT_MAX ->
  new_section h name al ord = (EOk, h') ->
  exists j sj, section_by_name h' name = Some j /\ 0 <= j <= Z.of_nat (length h) /\ by_id h' j = Some sj /\
               name_matches sj name = true /\
               (forall k sk, 0 <= k < j -> by_id h' k = Some sk -> name_matches sk name = false).
Proof.
  intros R Hal Hord E. pose proof (reachable_inv h' (r_new h name al ord h' R Hal Hord E)) as [_ [Hi' _]].
  pose proof (reachable_inv h R) as [_ [Hi _]].
  unfold new_section in E. destruct (is_zero_or_pow2 al); cbn [negb] in E; [|discriminate].
  unfold section_by_name. destruct (Z.ltb_spec MAX_NAME (Z.of_nat (length name))); [discriminate|].
  inversion E; subst h'; clear E. set (s := mkSection _ _ _ _ _ _ _ _) in *.
  assert (Hall : forall k, 0 <= k <= Z.of_nat (length h) -> In k (map sid (insert_sorted s h))).
  { intros k Hk. eapply Permutation_in; [apply Permutation_sym; exact Hi'|]. apply in_ids_upto.
    rewrite insert_sorted_length. lia. }
  destruct (by_id_some _ _ (Hall (Z.of_nat (length h)) ltac:(lia))) as [s1 [B1 [S1 In1]]].
  assert (s1 = s).
  { apply insert_sorted_in in In1. destruct In1 as [-> | In1]; [reflexivity|].
    assert (In (sid s1) (ids_upto (length h))) by (eapply Permutation_in; [exact Hi|apply in_map; assumption]).
    apply in_ids_upto in H0. lia. }
  subst s1.
  destruct (by_name_from_finds (insert_sorted s h) name (length (insert_sorted s h)) 0 (Z.of_nat (length h)) s)
    as [j [sj [Ej [Hj [Bj [Mj Hfirst]]]]]]; try assumption; try lia.
  - apply pad_name_matches. reflexivity.
  - rewrite insert_sorted_length. lia.
  - exists j, sj. repeat split; try assumption; lia.
Qed.

(* ------------------------------------------------------------------ names are irrelevant to the layout *)
Definition rename (g : list Z -> list Z) (s : section) : section :=
  mkSection (sid s) (sorder s) (salign s) (soff s) (svsize s) (sbsize s) (sdata s) (g (sname s)).

Lemma pass1_rename g l : forall off, pass1 off (map (rename g) l) = pass1 off l.
Proof. induction l as [|s t IH]; intros off; cbn [map pass1]; [reflexivity|]. change (real_size (rename g s)) with (real_size s).
  change (salign (rename g s)) with (salign s). rewrite !IH. reflexivity. Qed.

Lemma assign_rename g l : forall off, assign off (map (rename g) l) = map (rename g) (assign off l).
Proof. induction l as [|s t IH]; intros off; cbn [map assign]; [reflexivity|]. change (real_size (rename g s)) with (real_size s).
  change (salign (rename g s)) with (salign s). rewrite IH. reflexivity. Qed.

Lemma extend_rename g l : extend (map (rename g) l) = (map (rename g) (fst (extend l)), snd (extend l)).
Proof.
  induction l as [|s t IH]; cbn [map extend]; [reflexivity|]. rewrite IH. destruct (extend t) as [t' tgt]. cbn [fst snd].
  change (real_size (rename g s)) with (real_size s). destruct (real_size s =? 0); reflexivity.
Qed.

Lemma cs_walk_rename g c l : forall off ovf, cs_walk c off ovf (map (rename g) l) = cs_walk c off ovf l.
Proof. induction l as [|s t IH]; intros off ovf; cbn [map cs_walk]; [reflexivity|]. change (real_size (rename g s)) with (real_size s).
  change (salign (rename g s)) with (salign s). rewrite !IH. reflexivity. Qed.

Lemma run_end_rename g l : forall off, run_end off (map (rename g) l) = run_end off l.
Proof. induction l as [|s t IH]; intros off; cbn [map run_end]; [reflexivity|]. apply IH. Qed.

Lemma settle_rename g l e : settle (map (rename g) l) e = (map (rename g) (fst (settle l e)), snd (settle l e)).
Proof.
  induction l as [|s t IH]; cbn [map settle]; [reflexivity|]. rewrite IH. destruct (settle t e) as [t' nxt]. cbn [fst snd].
  change (real_size (rename g s)) with (real_size s). destruct (real_size s =? 0); reflexivity.
Qed.

Lemma layout_independent_of_names g h :
  flatten (map (rename g) h) = (fst (flatten h), map (rename g) (snd (flatten h))) /\
  code_size (map (rename g) h) = code_size h.
Proof.
  split.
  - unfold flatten. rewrite pass1_rename. destruct (pass1 0 h); cbn [fst snd]; [|reflexivity].
    rewrite assign_rename, extend_rename, run_end_rename. cbn [fst]. rewrite settle_rename. reflexivity.
  - unfold code_size. rewrite cs_walk_rename. reflexivity.
Qed.
(* ------------------------------------------------------------------ validation order of new_section, C strings *)
Lemma new_section_validation h name al ord :
  (fst (new_section h name al ord) = EInvalidArgument <-> is_zero_or_pow2 al = false) /\
  (fst (new_section h name al ord) = EInvalidSectionName <-> is_zero_or_pow2 al = true /\ MAX_NAME < Z.of_nat (length name)) /\
  (fst (new_section h name al ord) = EOk <-> is_zero_or_pow2 al = true /\ Z.of_nat (length name) <= MAX_NAME) /\
  (fst (new_section h name al ord) <> EOk -> snd (new_section h name al ord) = h).
Proof.
  unfold new_section. destruct (is_zero_or_pow2 al); cbn [negb]; [|cbn [fst snd]; repeat split; intros; try discriminate; try reflexivity; destruct H; discriminate].
  destruct (Z.ltb_spec MAX_NAME (Z.of_nat (length name))); cbn [fst snd].
  - repeat split; intros; try discriminate; try reflexivity; try lia; destruct H0; lia.
  - repeat split; intros; try discriminate; try reflexivity; try lia; try (destruct H0; lia). contradiction.
Qed.

Lemma cstr_no_nul buf : Forall (fun c => c <> 0) (cstr buf).
Proof. induction buf as [|c t IH]; cbn [cstr]; [constructor|]. destruct (Z.eqb_spec c 0); constructor; assumption. Qed.

Lemma cstr_prefix buf : exists rest, buf = cstr buf ++ rest /\ (rest = [] \/ exists r, rest = 0 :: r).
Proof.
  induction buf as [|c t [rest [E Hr]]]; cbn [cstr]; [exists []; auto|].
  destruct (Z.eqb_spec c 0) as [->|N].
  - exists (0 :: t). split; [reflexivity|right; eauto].
  - exists rest. split; [cbn [app]; congruence|assumption].
Qed.

Lemma cstr_id l : Forall (fun c => c <> 0) l -> cstr l = l.
Proof. intros H. induction H as [|c t Hc _ IH]; cbn [cstr]; [reflexivity|]. destruct (Z.eqb_spec c 0); [contradiction|congruence]. Qed.

(* new_section(name, SIZE_MAX) then section_by_name(name, SIZE_MAX) with the same C string finds a section of that name *)
Lemma new_section_cstr_findable h buf al ord h' : reachable h -> 0 <= al < 4294967296 -> INT_MIN <= ord <= INT_MAX ->
  new_section_cstr h buf al ord = (EOk, h') ->
  exists j sj, section_by_name_cstr h' buf = Some j /\ 0 <= j <= Z.of_nat (length h) /\ by_id h' j = Some sj /\
               name_matches sj (cstr buf) = true.
Proof.
  intros R Hal Hord E. destruct (new_section_findable h (cstr buf) al ord h' R Hal Hord E) as [j [sj [H1 [H2 [H3 [H4 _]]]]]].
  exists j, sj. auto.
Qed.

(* ids of a reachable holder are unique and non-negative *)
Lemma reachable_ids_unique h : reachable h -> NoDup (map sid h) /\ (forall s, In s h -> 0 <= sid s).
Proof.
  intros R. destruct (reachable_inv h R) as [_ [Hi _]]. unfold ids_complete in Hi. split.
  - apply (Permutation_NoDup (Permutation_sym Hi)). unfold ids_upto.
    apply FinFun.Injective_map_NoDup; [intros a b; apply Nat2Z.inj|apply seq_NoDup].
  - intros s Hs. assert (In (sid s) (ids_upto (length h))) by (eapply Permutation_in; [exact Hi|apply in_map; assumption]).
    apply in_ids_upto in H. lia.
Qed.

(* alignment 0 is stored as 1 and a new section has no offset yet *)
Lemma new_section_zero_align h nm ord : Z.of_nat (length nm) <= MAX_NAME ->
  exists s, In s (snd (new_section h nm 0 ord)) /\ salign s = 1 /\ soff s = NO_OFFSET.
Proof.
  intros H. unfold new_section. cbn [is_zero_or_pow2 Z.eqb orb negb].
  destruct (Z.ltb_spec MAX_NAME (Z.of_nat (length nm))); [lia|]. cbn [snd].
  eexists. split; [apply insert_sorted_in; left; reflexivity|]. split; reflexivity.
Qed.

(* ------------------------------------------------------------------ section_by_name: sound and complete for every lookup *)
Lemma by_name_from_spec h key : forall fuel id0,
  (forall k, id0 <= k < id0 + Z.of_nat fuel -> In k (map sid h)) ->
  match by_name_from h key id0 fuel with
  | Some j => id0 <= j < id0 + Z.of_nat fuel /\
              exists sj, by_id h j = Some sj /\ name_matches sj key = true /\
                         forall k sk, id0 <= k < j -> by_id h k = Some sk -> name_matches sk key = false
  | None => forall k sk, id0 <= k < id0 + Z.of_nat fuel -> by_id h k = Some sk -> name_matches sk key = false
  end.
Proof.
  induction fuel as [|f IH]; intros id0 Hall; cbn [by_name_from]; [intros; lia|].
  destruct (by_id_some h id0 (Hall id0 ltac:(lia))) as [s0 [E0 _]]. rewrite E0.
  destruct (name_matches s0 key) eqn:M0.
  - split; [lia|]. exists s0. split; [assumption|]. split; [assumption|]. intros; lia.
  - specialize (IH (id0 + 1) ltac:(intros k Hk; apply Hall; lia)).
    destruct (by_name_from h key (id0 + 1) f) as [j|].
    + destruct IH as [Hj [sj [Bj [Mj Hf]]]]. split; [lia|]. exists sj. split; [assumption|]. split; [assumption|].
      intros k sk Hk Bk. destruct (Z.eq_dec k id0) as [->|Hn]; [congruence|]. apply (Hf k sk); [lia|assumption].
    + intros k sk Hk Bk. destruct (Z.eq_dec k id0) as [->|Hn]; [congruence|]. apply (IH k sk); [lia|assumption].
Qed.

Lemma by_id_unique_t h s : NoDup (map sid h) -> In s h -> by_id h (sid s) = Some s.
Proof.
  induction h as [|a t IH]; intros Hn Hin; [contradiction|]. cbn [map] in Hn. inversion Hn as [|? ? Hnot Hn']; subst.
  cbn [by_id]. destruct Hin as [->|Hin]; [rewrite Z.eqb_refl; reflexivity|].
  destruct (Z.eqb_spec (sid a) (sid s)) as [E|N]; [|apply IH; assumption].
  exfalso. apply Hnot. rewrite E. apply in_map. assumption.
Qed.

(* for every holder the API can produce and every key: the answer is the FIRST section (lowest id) whose name matches, and
   "not found" means that no section matches (or the key is longer than any name can be) *)
Theorem section_by_name_complete h key : reachable h ->
  match section_by_name h key with
  | Some j => Z.of_nat (length key) <= MAX_NAME /\
              exists sj, In sj h /\ sid sj = j /\ name_matches sj key = true /\
                         forall s, In s h -> sid s < j -> name_matches s key = false
  | None => MAX_NAME < Z.of_nat (length key) \/ forall s, In s h -> name_matches s key = false
  end.
Proof.
  intros R. destruct (reachable_inv h R) as [_ [Hi _]]. destruct (reachable_ids_unique h R) as [Hnd Hpos].
  assert (Hrange : forall x, In x h -> 0 <= sid x < Z.of_nat (length h)).
  { intros x Hx. assert (In (sid x) (ids_upto (length h))) by (eapply Permutation_in; [exact Hi|apply in_map; assumption]).
    apply in_ids_upto in H. assumption. }
  unfold section_by_name. destruct (Z.ltb_spec MAX_NAME (Z.of_nat (length key))) as [Hlong|Hok]; [left; assumption|].
  pose proof (by_name_from_spec h key (length h) 0) as Hs.
  assert (Hall : forall k, 0 <= k < 0 + Z.of_nat (length h) -> In k (map sid h)).
  { intros k Hk. eapply Permutation_in; [apply Permutation_sym; exact Hi|]. apply in_ids_upto. lia. }
  specialize (Hs Hall). destruct (by_name_from h key 0 (length h)) as [j|].
  - destruct Hs as [Hj [sj [Bj [Mj Hf]]]]. split; [assumption|]. destruct (by_id_in h j sj Bj) as [Es Hin].
    exists sj. split; [assumption|]. split; [assumption|]. split; [assumption|].
    intros s Hs0 Hlt. destruct (Hrange s Hs0). apply (Hf (sid s) s); [lia|]. apply by_id_unique_t; assumption.
  - right. intros s Hs0. destruct (Hrange s Hs0). apply (Hs (sid s) s); [lia|]. apply by_id_unique_t; assumption.
Qed.

(* C10 — the final flatten (forward loop + backward `settle` step, fixes/C10-flatten-empty-section-offset): an empty section
   sits where the next non-empty section starts (or at the end of the code), every statement about the layout holds for ALL
   sections, and flatten is idempotent in full: flatten (flatten h) = flatten h. *)
From Coq Require Import ZArith List Bool Lia.
From Verif Require Import Sections.SectionModel Sections.SectionProofs Sections.CopyProofs Sections.ShrinkProofs
  Sections.StableProofs Sections.CoverProofs.
Import ListNotations.
Local Open Scope Z_scope.

(* where the next non-empty section starts; e (the end of the code) if there is none *)
Definition nxt_off (l : list section) (e : Z) : Z := match fne_off l with Some o => o | None => e end.

Fixpoint settled (e : Z) (l : list section) : Prop :=
  match l with
  | [] => True
  | s :: t => (real_size s = 0 -> soff s = nxt_off t e) /\ settled e t
  end.

Lemma fne_off_cons_empty s t : real_size s = 0 -> fne_off (s :: t) = fne_off t.
Proof. intros E. cbn [fne_off]. rewrite E. reflexivity. Qed.

Lemma fne_off_cons_ne s t : real_size s <> 0 -> fne_off (s :: t) = Some (soff s).
Proof. intros N. cbn [fne_off]. destruct (Z.eqb_spec (real_size s) 0); [contradiction|reflexivity]. Qed.

Lemma settle_spec l e :
  snd (settle l e) = nxt_off l e /\ settled e (fst (settle l e)) /\ Forall2 same_ne l (fst (settle l e)) /\
  fne_off (fst (settle l e)) = fne_off l.
Proof.
  induction l as [|s t IH]; cbn [settle]; [unfold nxt_off; cbn; repeat split; constructor|].
  destruct (settle t e) as [t' nxt]. cbn [fst snd] in IH. destruct IH as [I1 [I2 [I3 I4]]].
  destruct (Z.eqb_spec (real_size s) 0) as [E0|Hne]; cbn [fst snd].
  - assert (Er : real_size (set_off s nxt) = 0) by (rewrite real_size_set_off; assumption).
    split; [unfold nxt_off; rewrite (fne_off_cons_empty s t E0); exact I1|].
    split; [cbn [settled]; split; [intros _; cbn [soff set_off]; unfold nxt_off; rewrite I4; exact I1|assumption]|].
    split; [constructor; [split; [intros; contradiction|intros _; eexists; reflexivity]|assumption]|].
    rewrite (fne_off_cons_empty _ t' Er), (fne_off_cons_empty s t E0). assumption.
  - split; [unfold nxt_off; rewrite (fne_off_cons_ne s t Hne); reflexivity|].
    split; [cbn [settled]; split; [intros; contradiction|assumption]|].
    split; [constructor; [split; [reflexivity|intros; contradiction]|assumption]|].
    rewrite !fne_off_cons_ne by assumption. reflexivity.
Qed.

Lemma set_off_set_off s a b : set_off (set_off s a) b = set_off s b.
Proof. destruct s; reflexivity. Qed.

(* settle only looks at the non-empty sections *)
Lemma settle_same_ne l l2 e : Forall2 same_ne l l2 -> settle l2 e = settle l e.
Proof.
  intros H. induction H as [|a b la lb Hab _ IH]; cbn [settle]; [reflexivity|]. rewrite IH.
  destruct (settle la e) as [t' nxt]. rewrite (same_ne_rs a b Hab). destruct Hab as [H1 H2].
  destruct (Z.eqb_spec (real_size a) 0) as [E0|Hne].
  - destruct (H2 E0) as [o ->]. rewrite set_off_set_off. reflexivity.
  - rewrite (H1 Hne). reflexivity.
Qed.

Lemma settle_id l e : settled e l -> fst (settle l e) = l.
Proof.
  induction l as [|s t IH]; intros Hs; cbn [settle]; [reflexivity|]. destruct Hs as [Hs Ht].
  pose proof (settle_spec t e) as [S1 _]. specialize (IH Ht). destruct (settle t e) as [t' nxt]. cbn [fst snd] in *. subst t' nxt.
  destruct (Z.eqb_spec (real_size s) 0) as [E0|Hne]; cbn [fst]; [|reflexivity].
  rewrite <- (Hs E0). rewrite set_off_same. reflexivity.
Qed.

Lemma same_ne_laid_ne l l2 : Forall2 same_ne l l2 -> forall off, laid_ne off l -> laid_ne off l2 /\ lend_ne off l2 = lend_ne off l.
Proof.
  intros H. induction H as [|a b la lb Hab _ IH]; intros off Hl; cbn [laid_ne lend_ne] in *; [split; [exact I|reflexivity]|].
  rewrite (same_ne_rs a b Hab). destruct (Z.eqb_spec (real_size a) 0) as [E0|Hne]; [apply IH; assumption|].
  destruct Hab as [H1 _]. rewrite (H1 Hne). destruct Hl as [A [B [C D]]]. destruct (IH _ D) as [I1 I2].
  split; [repeat split; assumption|assumption].
Qed.

Lemma same_ne_in_ne l l2 s : Forall2 same_ne l l2 -> real_size s <> 0 -> (In s l2 <-> In s l).
Proof.
  intros H Hne. induction H as [|a b la lb Hab _ IH]; [tauto|]. cbn [In]. rewrite IH.
  destruct Hab as [H1 H2]. split; intros [E|Hin]; auto; left.
  - subst s. destruct (Z.eq_dec (real_size a) 0) as [E0|N]; [|symmetry; apply H1; assumption].
    destruct (H2 E0) as [o Eo]. rewrite Eo, real_size_set_off in Hne. contradiction.
  - subst s. apply H1. assumption.
Qed.

Lemma same_ne_sizes l l2 : Forall2 same_ne l l2 -> Forall2 (fun a b => real_size b = real_size a /\ salign b = salign a) l l2.
Proof.
  intros H. induction H as [|a b la lb Hab _ IH]; constructor; [|assumption]. split; [apply same_ne_rs; assumption|].
  destruct Hab as [H1 H2]. destruct (Z.eq_dec (real_size a) 0) as [E0|N]; [destruct (H2 E0) as [o ->]; reflexivity|rewrite (H1 N); reflexivity].
Qed.

Lemma run_end_lend l : forall off, run_end off l = lend off l.
Proof. induction l as [|s t IH]; intros off; cbn [run_end lend]; [reflexivity|apply IH]. Qed.

(* ------------------------------------------------------------------ everything known about a flattened holder *)
Record final (h h' : holder) : Prop := mkFinal {
  fi_wf : Forall wf_sec h';
  fi_laid_ne : laid_ne 0 h';
  fi_end : lend_ne 0 h' = code_size h';
  fi_tight : tight h';
  fi_vfull : vfull h';
  fi_settled : settled (code_size h') h';
  fi_cs : code_size h' = code_size h;
  fi_lt : code_size h' < W64;
  fi_mid : exists m, flatten_mid h = (EOk, m) /\ Forall2 same_ne m h' /\ code_size m = code_size h'
}.

Lemma flatten_final h h' : wf_holder h -> flatten h = (EOk, h') -> final h h'.
Proof.
  intros Hwf E. destruct (flatten_final_inv h h' E) as [m [Em Eh]]. pose proof W64_pos.
  destruct (flatten_flattened h m Hwf Em) as [Hp Eqm Hwm Hl Hlne Hend _ _].
  pose proof (flatten_mid_tight h m Hwf Em) as Htm.
  pose proof (extend_vfull (assign 0 h) 0 (assign_wf h 0 Hwf) ltac:(lia) Hl) as Hvm. rewrite <- Eqm in Hvm.
  rewrite run_end_lend in Eh. set (e := lend 0 (assign 0 h)) in *.
  destruct (settle_spec m e) as [_ [Hset [Hsn _]]]. rewrite <- Eh in Hset, Hsn.
  destruct (same_ne_laid_ne m h' Hsn 0 Hlne) as [Hlne' Hend'].
  pose proof (same_ne_wf m h' Hsn Hwm) as Hwf'.
  assert (Hcm : code_size m = e) by (apply (code_size_after h m Hwf Em)).
  assert (Hcs : code_size h' = code_size m).
  { unfold code_size. rewrite (cs_walk_same_sizes true m h' (same_ne_sizes m h' Hsn)). reflexivity. }
  constructor; try assumption.
  - rewrite Hend', Hend, Hcs, Hcm. reflexivity.
  - apply (same_ne_tight m h' Hsn Htm).
  - apply (same_ne_vfull m h' Hsn Hvm).
  - rewrite Hcs, Hcm. assumption.
  - rewrite Hcs. apply (code_size_stable h m Hwf Em).
  - rewrite Hcs, Hcm. apply lend_lt; [lia|assumption].
  - exists m. auto.
Qed.

(* ------------------------------------------------------------------ positions of all sections *)
Lemma fne_off_in l o : fne_off l = Some o -> exists n, In n l /\ real_size n <> 0 /\ soff n = o.
Proof.
  induction l as [|s t IH]; cbn [fne_off]; [discriminate|]. destruct (Z.eqb_spec (real_size s) 0) as [E0|Hne].
  - intros H. destruct (IH H) as [n [Hin Hr]]. exists n. split; [right; assumption|assumption].
  - intros H. inversion H. exists s. split; [left; reflexivity|auto].
Qed.

(* every section of a settled suffix lies between the running offset and the end *)
Lemma settled_bounds e l : forall off, Forall wf_sec l -> laid_ne off l -> settled e l -> lend_ne off l <= e ->
  forall s, In s l -> off <= soff s /\ soff s + real_size s <= e.
Proof.
  induction l as [|a t IH]; intros off Hwf Hl Hs He s Hin; [contradiction|].
  inversion Hwf as [|? ? Hwa Hwt]; subst. pose proof (real_size_range a Hwa) as Hra.
  cbn [laid_ne lend_ne settled] in *. destruct Hs as [Ha Ht].
  destruct (Z.eqb_spec (real_size a) 0) as [E0|Hne].
  - destruct Hin as [<-|Hin]; [|apply (IH off); assumption].
    rewrite (Ha E0), E0. unfold nxt_off. destruct (fne_off t) as [o|] eqn:Ef.
    + destruct (fne_off_in t o Ef) as [n [Hn [_ <-]]]. destruct (IH off Hwt Hl Ht He n Hn).
      assert (0 <= real_size n) by (rewrite Forall_forall in Hwt; apply real_size_range; auto). lia.
    + pose proof (lend_ne_ge off t Hwt Hl). lia.
  - destruct Hl as [_ [Hle [_ Hl]]]. pose proof (lend_ne_ge _ t Hwt Hl).
    destruct Hin as [<-|Hin]; [lia|]. destruct (IH _ Hwt Hl Ht He s Hin). lia.
Qed.

(* nothing in a settled suffix lies in front of its first non-empty section *)
Lemma settled_after_next e l : forall off, Forall wf_sec l -> laid_ne off l -> settled e l -> lend_ne off l <= e ->
  forall b, In b l -> nxt_off l e <= soff b.
Proof.
  induction l as [|a t IH]; intros off Hwf Hl Hs He b Hin; [contradiction|].
  inversion Hwf as [|? ? Hwa Hwt]; subst. pose proof (real_size_range a Hwa) as Hra.
  unfold nxt_off in *. cbn [laid_ne lend_ne settled fne_off] in *. destruct Hs as [Ha Ht].
  destruct (Z.eqb_spec (real_size a) 0) as [E0|Hne].
  - destruct Hin as [<-|Hin]; [rewrite (Ha E0); unfold nxt_off; lia|apply (IH off); assumption].
  - destruct Hl as [_ [_ [_ Hl]]]. destruct Hin as [<-|Hin]; [lia|].
    destruct (settled_bounds e t _ Hwt Hl Ht He b Hin). lia.
Qed.

Lemma settled_app e l1 l2 : settled e (l1 ++ l2) -> settled e l2.
Proof. induction l1 as [|a t IH]; cbn [app settled]; [auto|]. intros [_ H]. auto. Qed.

Lemma settled_at e l1 s l2 : settled e (l1 ++ s :: l2) -> real_size s = 0 -> soff s = nxt_off l2 e.
Proof. intros H. apply settled_app in H. destruct H as [H _]. exact H. Qed.

(* ------------------------------------------------------------------ the statements of Properties_C10 on the final flatten *)
Lemma final_ne_in_mid (h h' m : holder) s : Forall2 same_ne m h' -> In s h' -> real_size s <> 0 -> In s m.
Proof. intros Hsn Hin Hne. apply (same_ne_in_ne m h' s Hsn Hne). assumption. Qed.

Theorem final_offsets_aligned h h' : wf_holder h -> flatten h = (EOk, h') ->
  forall s, In s h' -> real_size s <> 0 -> aligned (soff s) (salign s).
Proof.
  intros Hwf E s Hin Hne. destruct (flatten_final h h' Hwf E) as [_ _ _ _ _ _ _ _ [m [Em [Hsn _]]]].
  apply (flatten_offsets_aligned h m Hwf Em s); [apply (final_ne_in_mid h h' m s Hsn Hin Hne)|assumption].
Qed.

(* an EMPTY section sits where the next non-empty section starts, or at the end of the code *)
Theorem final_empty_placed h h' : wf_holder h -> flatten h = (EOk, h') ->
  forall l1 s l2, h' = l1 ++ s :: l2 -> real_size s = 0 -> soff s = nxt_off l2 (code_size h').
Proof.
  intros Hwf E l1 s l2 El Hz. destruct (flatten_final h h' Hwf E) as [_ _ _ _ _ Hset _ _ _].
  rewrite El in Hset at 2. apply (settled_at _ l1 s l2); assumption.
Qed.

(* non-empty sections keep the offsets pass 2 assigned *)
Theorem final_keeps_assigned_offsets h h' : wf_holder h -> flatten h = (EOk, h') ->
  Forall2 (fun a s => real_size s <> 0 -> soff s = soff a) (assign 0 h) h'.
Proof.
  intros Hwf E. destruct (flatten_final h h' Hwf E) as [_ _ _ _ _ _ _ _ [m [Em [Hsn _]]]].
  destruct (flatten_flattened h m Hwf Em) as [_ _ _ _ _ _ Hext _].
  eapply (Forall2_trans_rel ext_rel same_ne); [|exact Hext|exact Hsn].
  intros a b c [_ [O _]] Hbc Hne. rewrite (same_ne_rs b c Hbc) in Hne. destruct Hbc as [H1 _]. rewrite (H1 Hne). assumption.
Qed.

Theorem final_no_overlap h h' : wf_holder h -> flatten h = (EOk, h') ->
  forall l1 a l2 b, h' = l1 ++ a :: l2 -> In b l2 ->
  soff a <= soff b /\ soff a + sbsize a <= soff b /\ (real_size a <> 0 -> soff a + real_size a <= soff b).
Proof.
  intros Hwf E l1 a l2 b El Hin. destruct (flatten_final h h' Hwf E) as [Hwf' Hlne Hend _ _ Hset _ _ _].
  set (e := code_size h') in *. rewrite El in Hwf', Hlne, Hend, Hset.
  apply Forall_app in Hwf'. destruct Hwf' as [Hw1 Hw2]. inversion Hw2 as [|? ? Hwa Hwl2]; subst.
  pose proof (real_size_range a Hwa) as Hra. destruct Hwa as [Hva [Hba _]].
  apply laid_ne_app in Hlne. destruct Hlne as [_ Hl]. rewrite lend_ne_app in Hend. apply settled_app in Hset.
  cbn [laid_ne lend_ne settled] in *. destruct Hset as [Ha Hs2].
  destruct (Z.eqb_spec (real_size a) 0) as [E0|Hne].
  - assert (sbsize a = 0) by (unfold real_size in E0; lia).
    pose proof (settled_after_next e l2 _ Hwl2 Hl Hs2 ltac:(lia) b Hin). rewrite (Ha E0). split; [lia|]. split; [lia|]. intros; contradiction.
  - destruct Hl as [_ [_ [_ Hl]]]. destruct (settled_bounds e l2 _ Hwl2 Hl Hs2 ltac:(lia) b Hin).
    unfold real_size in *. split; [lia|]. split; lia.
Qed.

Theorem final_code_size_is_end h h' : wf_holder h -> flatten h = (EOk, h') ->
  (forall l1 s, h' = l1 ++ [s] -> code_size h' = soff s + real_size s) /\
  (forall s, In s h' -> 0 <= soff s /\ soff s + real_size s <= code_size h' /\ code_size h' < W64) /\
  code_size h' = code_size h.
Proof.
  intros Hwf E. destruct (flatten_final h h' Hwf E) as [Hwf' Hlne Hend _ _ Hset Hcs Hlt _].
  split; [|split; [|assumption]].
  - intros l1 s El. rewrite <- Hend. rewrite El. rewrite lend_ne_app. cbn [lend_ne].
    destruct (Z.eqb_spec (real_size s) 0) as [E0|Hne]; [|reflexivity].
    rewrite El in Hset at 2. rewrite (settled_at _ l1 s [] Hset E0). unfold nxt_off. cbn [fne_off].
    rewrite E0, Z.add_0_r. rewrite <- Hend, El, lend_ne_app. cbn [lend_ne]. rewrite E0. cbn [Z.eqb]. reflexivity.
  - intros s Hin. destruct (settled_bounds (code_size h') h' 0 Hwf' Hlne Hset ltac:(lia) s Hin). lia.
Qed.

Theorem final_padding_owned h h' : wf_holder h -> flatten h = (EOk, h') ->
  forall l1 s l2, h' = l1 ++ s :: l2 -> real_size s <> 0 -> lend_ne 0 l1 = soff s.
Proof.
  intros Hwf E l1 s l2 El Hne. destruct (flatten_final h h' Hwf E) as [Hwf' Hlne _ Ht _ _ _ _ _]. subst h'.
  apply (prefix_end_generic l1 s l2); assumption.
Qed.

(* idempotence in full *)
Theorem flatten_idempotent h h' : wf_holder h -> flatten h = (EOk, h') -> flatten h' = (EOk, h').
Proof.
  intros Hwf E. destruct (flatten_final h h' Hwf E) as [Hwf' Hlne Hend Ht Hv Hset _ Hlt _]. pose proof W64_pos.
  pose proof (pass1_laid_ne h' 0 Hlne) as Hp. pose proof (assign_same_ne h' 0 Hlne) as Hsn.
  set (a2 := assign 0 h') in *.
  pose proof (assign_laid h' 0 Hwf' ltac:(lia) Hp) as Hl2. fold a2 in Hl2.
  pose proof (same_ne_wf _ _ Hsn Hwf') as Hw2.
  pose proof (extend_fix a2 0 Hw2 ltac:(lia) Hl2 (same_ne_tight _ _ Hsn Ht) (same_ne_vfull _ _ Hsn Hv)) as Hfix.
  unfold flatten. rewrite Hp. fold a2. rewrite Hfix, run_end_lend.
  destruct (laid_laid_ne 0 a2 Hl2) as [_ El]. rewrite <- El.
  destruct (same_ne_laid_ne h' a2 Hsn 0 Hlne) as [_ El2]. rewrite El2, Hend.
  rewrite (settle_same_ne h' a2 _ Hsn). rewrite (settle_id h' _ Hset). reflexivity.
Qed.

(* ------------------------------------------------------------------ copying a flattened holder *)
Theorem final_copy_ready h h' : wf_holder h -> data_len_ok h -> flatten h = (EOk, h') ->
  Forall data_ok h' /\ disjoint_layout h'.
Proof.
  intros Hwf Hdl E. destruct (flatten_final_rel h h' Hwf E) as [Hwf' Hrel]. split.
  - rewrite Forall_forall. intros s' Hin.
    destruct (Forall2_in_r _ _ _ _ Hrel Hin) as [s [Hs [C _]]].
    unfold data_len_ok in Hdl. rewrite Forall_forall in Hdl. pose proof (Hdl s Hs) as Hl.
    assert (Eb : sbsize s' = sbsize s) by (unfold core in C; inversion C; reflexivity).
    assert (Ed : sdata s' = sdata s) by (unfold core in C; inversion C; reflexivity).
    destruct (final_code_size_is_end h h' Hwf E) as [_ [Hb _]]. destruct (Hb s' Hin) as [Ho _].
    rewrite Forall_forall in Hwf'. destruct (Hwf' s' Hin) as [Hv _].
    unfold data_ok. rewrite Eb, Ed. repeat split; try assumption; lia.
  - apply pairs_to_fop. intros l1 a l2 b El Hb.
    destruct (final_no_overlap h h' Hwf E l1 a l2 b El Hb) as [Hmono [_ Hne]].
    unfold apart. destruct (Z.eq_dec (real_size b) 0) as [|Hnb]; [left; assumption|right].
    destruct (Z.eq_dec (real_size a) 0) as [Ea|Hna]; [rewrite Ea; lia|]. apply Hne; assumption.
Qed.

Theorem final_copy_accepts_code_size h h' dst : wf_holder h -> flatten h = (EOk, h') -> code_size h' <= dst ->
  existsb (too_small dst) h' = false.
Proof.
  intros Hwf E Hd. destruct (existsb (too_small dst) h') eqn:Ex; [|reflexivity].
  apply existsb_exists in Ex. destruct Ex as [s [Hin T]].
  destruct (final_code_size_is_end h h' Hwf E) as [_ [Hb _]]. destruct (Hb s Hin) as [H0 [H1 _]].
  destruct (flatten_final h h' Hwf E) as [Hwf' _ _ _ _ _ _ _ _]. rewrite Forall_forall in Hwf'. destruct (Hwf' s Hin) as [_ [Hbs _]].
  unfold too_small in T. apply orb_true_iff in T. unfold real_size in H1. destruct T as [T|T]; apply Z.ltb_lt in T; lia.
Qed.

Theorem final_copy_exact h h' mem dst ps pt mem' :
  wf_holder h -> data_len_ok h -> flatten h = (EOk, h') -> 0 <= dst <= Z.of_nat (length mem) ->
  copy_flat h' mem dst ps pt = (EOk, mem') ->
  length mem' = length mem /\
  (forall c, dst <= c -> cell mem' c = cell mem c) /\
  (forall s, In s h' -> forall k, 0 <= k < sbsize s -> cell mem' (soff s + k) = cell (sdata s) k) /\
  (forall s, In s h' -> forall c, soff s + sbsize s <= c < wend ps dst s -> cell mem' c = 0) /\
  (pt = true -> forall c, ends ps dst h' 0 <= c < dst -> cell mem' c = 0) /\
  (forall c, 0 <= c -> (forall s, In s h' -> ~ (soff s <= c < wend ps dst s)) -> (pt = false \/ c < ends ps dst h' 0) ->
             cell mem' c = cell mem c).
Proof.
  intros Hwf Hdl E Hdst Ec. destruct (final_copy_ready h h' Hwf Hdl E) as [Hd Hdis]. apply copy_flat_exact; assumption.
Qed.

Theorem final_image_total h h' dst : wf_holder h -> flatten h = (EOk, h') -> code_size h' <= dst ->
  forall c, 0 <= c < code_size h' -> exists s, In s h' /\ soff s <= c < wend true dst s /\ wend true dst s = soff s + real_size s.
Proof.
  intros Hwf E. destruct (flatten_final h h' Hwf E) as [Hwf' Hlne _ Ht _ _ _ _ _]. apply image_total_generic; assumption.
Qed.

Theorem final_estimate_monotone h h' l1 t used : wf_holder h -> flatten h = (EOk, h') -> h' = l1 ++ [t] ->
  (forall x, In x l1 -> sid x <> sid t) -> 0 <= used -> sbsize t <= used <= svsize t ->
  exists h'' r, shrink_last h' (sid t) used = (h'', r) /\ r = svsize t - used /\ 0 <= r /\
                code_size h'' = code_size h' - r /\ code_size h'' <= code_size h'.
Proof.
  intros Hwf E El. destruct (flatten_final h h' Hwf E) as [Hwf' Hlne _ Ht _ _ _ _ _]. subst h'. apply estimate_generic; assumption.
Qed.

(* JitRuntime::_add (model jit_add): the installed image is completely determined by the sections — every cell below the
   final size is a section's byte or a zero of its virtual tail, whatever the memory held before *)
Lemma jit_image_determined h fill e n img h1 : wf_holder h -> data_len_ok h -> jit_add h fill = (e, n, img, h1) ->
  (e = EOk \/ e = ENoCodeGenerated \/ e = ETooLarge) /\
  (e = ETooLarge <-> pass1 0 h = false) /\
  (e = ENoCodeGenerated -> flatten h = (EOk, h1) /\ code_size h1 = 0) /\
  (e = EOk -> flatten h = (EOk, h1) /\ n = code_size h1 /\ 0 < n /\ Z.of_nat (length img) = n /\
     forall c, 0 <= c < n -> exists s, In s h1 /\
       ((soff s <= c < soff s + sbsize s /\ cell img c = cell (sdata s) (c - soff s)) \/
        (soff s + sbsize s <= c < soff s + real_size s /\ cell img c = 0))).
Proof.
  intros Hwf Hdl E. unfold jit_add in E. destruct (flatten h) as [er hf] eqn:Ef.
  assert (Hp : pass1 0 h = true <-> er = EOk).
  { unfold flatten in Ef. destruct (pass1 0 h); inversion Ef; split; intros; try reflexivity; discriminate. }
  destruct er.
  - destruct (Z.eqb_spec (code_size hf) 0) as [Z0|Zn].
    + inversion E; subst. split; [auto|]. split; [split; [intros; discriminate|intros Hf; destruct Hp as [_ Hp]; rewrite (Hp eq_refl) in Hf; discriminate]|].
      split; [intros _; split; [reflexivity|assumption]|]. intros; discriminate.
    + inversion E; subst e n img h1; clear E. split; [auto|].
      split; [split; [intros; discriminate|intros Hf; destruct Hp as [_ Hp]; rewrite (Hp eq_refl) in Hf; discriminate]|]. split; [intros; discriminate|].
      intros _. split; [reflexivity|]. split; [reflexivity|].
      destruct (flatten_final h hf Hwf Ef) as [Hwf' Hlne Hend _ _ _ _ _ _]. pose proof W64_pos.
      assert (Hcs0 : 0 <= code_size hf) by (rewrite <- Hend; apply lend_ne_ge; assumption).
      split; [lia|].
      set (n := code_size hf) in *. set (mem := repeat fill (Z.to_nat n)).
      assert (Hlen : Z.of_nat (length mem) = n) by (unfold mem; rewrite repeat_length; lia).
      pose proof (copy_flat_err hf mem n true false) as Herr.
      rewrite (final_copy_accepts_code_size h hf n Hwf Ef ltac:(lia)) in Herr.
      destruct (copy_flat hf mem n true false) as [er img] eqn:Ec. cbn [fst snd] in *. subst er.
      destruct (final_copy_exact h hf mem n true false img Hwf Hdl Ef ltac:(lia) Ec) as [HL [_ [HD [HZ _]]]].
      split; [lia|]. intros c Hc.
      destruct (final_image_total h hf n Hwf Ef ltac:(lia) c Hc) as [s [Hin [Hr Ew]]].
      exists s. split; [assumption|]. rewrite Ew in Hr.
      destruct (Z_lt_le_dec c (soff s + sbsize s)) as [Hd|Hz].
      * left. split; [lia|]. replace c with (soff s + (c - soff s)) at 1 by ring. apply HD; [assumption|lia].
      * right. split; [lia|]. apply (HZ s Hin). rewrite Ew. lia.
  - unfold flatten in Ef. destruct (pass1 0 h); discriminate.
  - unfold flatten in Ef. destruct (pass1 0 h); discriminate.
  - unfold flatten in Ef. destruct (pass1 0 h) eqn:Hq; [discriminate|]. inversion Ef; subst hf. inversion E; subst.
    split; [auto|]. split; [split; reflexivity|]. split; intros; discriminate.
  - unfold flatten in Ef. destruct (pass1 0 h); discriminate.
  - unfold flatten in Ef. destruct (pass1 0 h); discriminate.
Qed.

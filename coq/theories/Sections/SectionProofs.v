(* C10 — proofs about the section layout model: alignment arithmetic, flatten_mid, code_size. *)
From Coq Require Import ZArith List Bool Lia.
From Verif Require Import Sections.SectionModel.
Import ListNotations.
Local Open Scope Z_scope.

(* ------------------------------------------------------------------ alignment arithmetic *)
(* what new_section lets through (uint32_t alignment): zero (only the built-in .text) or 2^k, k <= 31 *)
Definition align_ok (a : Z) : Prop := a = 0 \/ exists k, 0 <= k <= 31 /\ a = 2 ^ k.

Definition aligned (o a : Z) : Prop := (a = 0 /\ o = 0) \/ (0 < a /\ o mod a = 0).

Lemma W64_eq : W64 = 2 ^ 64. Proof. reflexivity. Qed.

Lemma align_ok_pos_divides a : align_ok a -> a <> 0 -> 0 < a /\ a <= 2147483648 /\ exists m, 0 < m /\ W64 = a * m.
Proof.
  intros [E | [k [Hk E]]] Hn; [congruence|]. subst a.
  assert (0 < 2 ^ k) by (apply Z.pow_pos_nonneg; lia).
  split; [assumption|]. split.
  - change 2147483648 with (2 ^ 31). apply Z.pow_le_mono_r; lia.
  - exists (2 ^ (64 - k)). split; [apply Z.pow_pos_nonneg; lia|].
    rewrite W64_eq, <- Z.pow_add_r by lia. f_equal; lia.
Qed.

Lemma align_up_zero x : align_up x 0 = 0.
Proof. reflexivity. Qed.

Lemma align_up_nowrap x a : 0 < a -> 0 <= x -> x + (a - 1) < W64 -> align_up x a = (x + (a - 1)) / a * a.
Proof.
  intros Ha Hx Hw. unfold align_up. destruct (Z.eqb_spec a 0); [lia|].
  rewrite Z.mod_small by lia. reflexivity.
Qed.

Lemma align_up_wrap x a : 0 < a -> 0 <= x < W64 -> a <= 2147483648 -> W64 <= x + (a - 1) -> align_up x a < x.
Proof.
  intros Ha Hx Hb Hw. unfold align_up. destruct (Z.eqb_spec a 0); [lia|].
  assert (E : (x + (a - 1)) mod W64 = x + (a - 1) - W64).
  { symmetry. apply (Z.mod_unique (x + (a - 1)) W64 1 (x + (a - 1) - W64)); unfold W64 in *; lia. }
  rewrite E.
  assert ((x + (a - 1) - W64) / a * a <= x + (a - 1) - W64).
  { pose proof (Z.mul_div_le (x + (a - 1) - W64) a Ha). lia. }
  unfold W64 in *. lia.
Qed.

Lemma align_up_range x a : align_ok a -> 0 <= x < W64 -> 0 <= align_up x a < W64.
Proof.
  intros Hok Hx. unfold align_up. destruct (Z.eqb_spec a 0); [unfold W64; lia|].
  destruct (align_ok_pos_divides a Hok n) as [Ha _].
  pose proof (Z.mod_pos_bound (x + (a - 1)) W64 ltac:(unfold W64; lia)) as Hm.
  pose proof (Z.mul_div_le ((x + (a - 1)) mod W64) a Ha).
  assert (0 <= (x + (a - 1)) mod W64 / a) by (apply Z.div_pos; lia).
  nia.
Qed.

(* the specification of a successful align_up (one that did not wrap): the least multiple of a not below x *)
Lemma align_up_spec x a : align_ok a -> 0 <= x < W64 -> x <= align_up x a ->
  aligned (align_up x a) a /\ align_up x a < x + Z.max 1 a /\ (a <> 0 -> align_up x a = (x + (a - 1)) / a * a).
Proof.
  intros Hok Hx Hle. destruct (Z.eq_dec a 0) as [-> | Hn].
  - rewrite align_up_zero in *. split; [left; lia|]. split; [lia|congruence].
  - destruct (align_ok_pos_divides a Hok Hn) as [Ha [Hb _]].
    destruct (Z_lt_le_dec (x + (a - 1)) W64) as [Hnw | Hw].
    + rewrite align_up_nowrap by lia. split; [|split].
      * right. split; [assumption|]. apply Z.mod_mul. lia.
      * pose proof (Z.mul_div_le (x + (a - 1)) a Ha). lia.
      * reflexivity.
    + pose proof (align_up_wrap x a Ha Hx Hb Hw). lia.
Qed.

(* aligning anything between x and its aligned value gives the same result *)
Lemma align_up_between x y a : align_ok a -> 0 <= x < W64 -> x <= y -> y <= align_up x a -> align_up y a = align_up x a.
Proof.
  intros Hok Hx Hxy Hy. destruct (Z.eq_dec a 0) as [-> | Hn]; [reflexivity|].
  destruct (align_ok_pos_divides a Hok Hn) as [Ha [Hb [m [Hm HW]]]].
  pose proof (align_up_range x a Hok Hx) as HR.
  destruct (align_up_spec x a Hok Hx ltac:(lia)) as [[[? ?]|[_ Hal]] [Hlt HE]]; [lia|].
  specialize (HE Hn).
  (* the aligned value is a multiple of a below W64 = a*m, hence <= W64 - a *)
  assert (Hroom : align_up x a + a <= W64).
  { rewrite HE in *. set (q := (x + (a - 1)) / a) in *. assert (q < m) by nia. nia. }
  rewrite (align_up_nowrap y a) by lia. rewrite HE.
  assert (Hq : (x + (a - 1)) / a * a <= x + (a - 1)) by (pose proof (Z.mul_div_le (x + (a - 1)) a Ha); lia).
  rewrite HE in Hy.
  f_equal. set (q := (x + (a - 1)) / a) in *.
  symmetry. apply (Z.div_unique (y + (a - 1)) a q (y + (a - 1) - a * q)). 2: ring.
  left. nia.
Qed.

Lemma align_up_fix o a : align_ok a -> 0 <= o < W64 -> aligned o a -> (a = 0 \/ o + a <= W64) -> align_up o a = o.
Proof.
  intros Hok Ho [[-> ->] | [Ha Hm]] Hroom; [reflexivity|].
  destruct Hroom as [-> | Hroom]; [lia|].
  rewrite align_up_nowrap by lia.
  rewrite (Z.div_mod o a) at 1 by lia. rewrite Hm.
  replace (a * (o / a) + 0 + (a - 1)) with ((a - 1) + (o / a) * a) by ring.
  rewrite Z.div_add by lia. rewrite Z.div_small by lia.
  rewrite (Z.div_mod o a) at 2 by lia. rewrite Hm. ring.
Qed.

Lemma W64_pos : 0 < W64. Proof. reflexivity. Qed.
Global Opaque W64.

(* ------------------------------------------------------------------ well-formed sections *)
Definition wf_sec (s : section) : Prop :=
  0 <= svsize s < W64 /\ 0 <= sbsize s < W64 /\ align_ok (salign s).

Lemma real_size_range s : wf_sec s -> 0 <= real_size s < W64.
Proof. unfold wf_sec, real_size. lia. Qed.

Lemma real_size_set_off s o : real_size (set_off s o) = real_size s.
Proof. reflexivity. Qed.

(* ------------------------------------------------------------------ what a layout is *)
(* `laid off l`: l is laid out from running offset off exactly as flatten_mid's pass 2 does it: an empty section sits at the
   running offset, a non-empty one at the running offset aligned up (without wrapping), nothing leaves 64 bits *)
Fixpoint laid (off : Z) (l : list section) : Prop :=
  match l with
  | [] => True
  | s :: t =>
    (if real_size s =? 0 then soff s = off else soff s = align_up off (salign s) /\ off <= soff s) /\
    soff s + real_size s < W64 /\ laid (soff s + real_size s) t
  end.

Fixpoint lend (off : Z) (l : list section) : Z :=
  match l with [] => off | s :: t => lend (soff s + real_size s) t end.

(* the same, constraining only the non-empty sections (the state after the predecessors were extended) *)
Fixpoint laid_ne (off : Z) (l : list section) : Prop :=
  match l with
  | [] => True
  | s :: t =>
    if real_size s =? 0 then laid_ne off t
    else soff s = align_up off (salign s) /\ off <= soff s /\ soff s + real_size s < W64 /\ laid_ne (soff s + real_size s) t
  end.

Fixpoint lend_ne (off : Z) (l : list section) : Z :=
  match l with
  | [] => off
  | s :: t => if real_size s =? 0 then lend_ne off t else lend_ne (soff s + real_size s) t
  end.

Lemma laid_app off l1 l2 : laid off (l1 ++ l2) <-> laid off l1 /\ laid (lend off l1) l2.
Proof.
  revert off. induction l1 as [|s t IH]; intros off; cbn [app laid lend].
  - tauto.
  - rewrite IH. tauto.
Qed.

Lemma lend_app off l1 l2 : lend off (l1 ++ l2) = lend (lend off l1) l2.
Proof. revert off. induction l1 as [|s t IH]; intros off; cbn [app lend]; [reflexivity|apply IH]. Qed.

Lemma laid_head_ge off s t : Forall wf_sec (s :: t) -> 0 <= off -> laid off (s :: t) -> off <= soff s /\ off <= soff s + real_size s.
Proof.
  intros Hwf Hoff [Hs _]. inversion Hwf as [|? ? Hw _]; subst.
  pose proof (real_size_range s Hw). destruct (real_size s =? 0); lia.
Qed.

Lemma lend_ge off l : Forall wf_sec l -> 0 <= off -> laid off l -> off <= lend off l.
Proof.
  revert off. induction l as [|s t IH]; intros off Hwf Hoff Hl; cbn [lend]; [lia|].
  destruct (laid_head_ge off s t Hwf Hoff Hl). destruct Hl as [_ [_ Hl]].
  inversion Hwf; subst. specialize (IH (soff s + real_size s) ltac:(assumption) ltac:(lia) Hl). lia.
Qed.

Lemma lend_lt off l : off < W64 -> laid off l -> lend off l < W64.
Proof.
  revert off. induction l as [|s t IH]; intros off Hoff Hl; cbn [lend]; [lia|].
  destruct Hl as [_ [Hb Hl]]. apply IH; assumption.
Qed.

Lemma laid_in_ge off l s : Forall wf_sec l -> 0 <= off -> laid off l -> In s l -> off <= soff s /\ soff s + real_size s <= lend off l.
Proof.
  revert off. induction l as [|a t IH]; intros off Hwf Hoff Hl Hin; [contradiction|].
  destruct (laid_head_ge off a t Hwf Hoff Hl) as [G1 G2]. pose proof Hl as [_ [_ Hl']].
  inversion Hwf as [|? ? Hwa Hwt]; subst. cbn [lend].
  destruct Hin as [-> | Hin].
  - split; [assumption|]. apply lend_ge; [assumption|lia|assumption].
  - destruct (IH (soff a + real_size a) Hwt ltac:(lia) Hl' Hin). lia.
Qed.

(* any two sections, in by-order sequence: the first one ends before the second one starts *)
Lemma laid_pairwise off l1 a l2 b : Forall wf_sec (l1 ++ a :: l2) -> 0 <= off -> laid off (l1 ++ a :: l2) -> In b l2 ->
  soff a + real_size a <= soff b.
Proof.
  intros Hwf Hoff Hl Hin. apply laid_app in Hl. destruct Hl as [Hl1 Hl2].
  apply Forall_app in Hwf. destruct Hwf as [Hw1 Hw2].
  pose proof (lend_ge off l1 Hw1 Hoff Hl1).
  destruct (laid_head_ge (lend off l1) a l2 Hw2 ltac:(lia) Hl2). destruct Hl2 as [_ [_ Hl2]].
  inversion Hw2; subst.
  destruct (laid_in_ge (soff a + real_size a) l2 b ltac:(assumption) ltac:(lia) Hl2 Hin). lia.
Qed.

(* a non-empty section is aligned, and the padding before it is smaller than its alignment *)
Lemma laid_aligned off l1 s l2 : Forall wf_sec (l1 ++ s :: l2) -> 0 <= off < W64 -> laid off (l1 ++ s :: l2) -> real_size s <> 0 ->
  aligned (soff s) (salign s) /\ lend off l1 <= soff s < lend off l1 + Z.max 1 (salign s).
Proof.
  intros Hwf Hoff Hl Hne. apply laid_app in Hl. destruct Hl as [Hl1 Hl2].
  apply Forall_app in Hwf. destruct Hwf as [Hw1 Hw2].
  pose proof (lend_ge off l1 Hw1 ltac:(lia) Hl1). pose proof (lend_lt off l1 ltac:(lia) Hl1).
  destruct Hl2 as [Hs _]. destruct (Z.eqb_spec (real_size s) 0); [contradiction|].
  destruct Hs as [E Hle]. inversion Hw2 as [|? ? [_ [_ Hok]] _]; subst.
  destruct (align_up_spec (lend off l1) (salign s) Hok ltac:(lia) ltac:(lia)) as [Hal [Hlt _]].
  rewrite E. split; [assumption|lia].
Qed.

(* ------------------------------------------------------------------ pass 1 + offset assignment produce a layout *)
Lemma assign_laid l : forall off, Forall wf_sec l -> 0 <= off < W64 -> pass1 off l = true -> laid off (assign off l).
Proof.
  induction l as [|s t IH]; intros off Hwf Hoff Hp; cbn [assign laid]; [exact I|].
  inversion Hwf as [|? ? Hws Hwt]; subst. pose proof (real_size_range s Hws) as Hrs.
  cbn [pass1] in Hp. rewrite real_size_set_off. cbn [soff set_off].
  destruct (Z.eqb_spec (real_size s) 0) as [E0 | Hne].
  - rewrite E0, Z.add_0_r. split; [reflexivity|]. split; [lia|]. apply IH; assumption.
  - destruct (Z.ltb_spec (align_up off (salign s)) off); [discriminate|].
    destruct (Z.leb_spec W64 (align_up off (salign s) + real_size s)); [discriminate|].
    destruct Hws as [_ [_ Hok]]. pose proof (align_up_range off (salign s) Hok Hoff).
    split; [split; [reflexivity|assumption]|]. split; [assumption|]. apply IH; [assumption|lia|assumption].
Qed.

Lemma laid_laid_ne off l : laid off l -> laid_ne off l /\ lend_ne off l = lend off l.
Proof.
  revert off. induction l as [|s t IH]; intros off Hl; cbn [laid_ne lend_ne lend]; [split; [exact I|reflexivity]|].
  destruct Hl as [Hs [Hb Hl]]. destruct (IH _ Hl) as [I1 I2].
  destruct (Z.eqb_spec (real_size s) 0) as [E0 | Hne].
  - rewrite Hs, E0, Z.add_0_r in *. split; assumption.
  - destruct Hs. split; [repeat split; assumption|assumption].
Qed.

(* ------------------------------------------------------------------ code_size walks the same layout *)
Lemma cs_sticky c l : forall off, snd (cs_walk c off true l) = true.
Proof.
  induction l as [|s t IH]; intros off; cbn [cs_walk]; [reflexivity|].
  destruct (real_size s =? 0); [apply IH|]. cbn [orb]. apply IH.
Qed.

Lemma cs_walk_laid_ne l : forall off, Forall wf_sec l -> 0 <= off -> laid_ne off l -> cs_walk true off false l = (lend_ne off l, false).
Proof.
  induction l as [|s t IH]; intros off Hwf Hoff Hl; cbn [cs_walk lend_ne]; [reflexivity|].
  inversion Hwf as [|? ? Hws Hwt]; subst. pose proof (real_size_range s Hws) as Hrs.
  cbn [laid_ne] in Hl. destruct (Z.eqb_spec (real_size s) 0) as [E0 | Hne]; [apply IH; assumption|].
  destruct Hl as [E [Hle [Hb Hl]]]. rewrite <- E.
  destruct (Z.ltb_spec (soff s) off); [lia|].
  destruct (Z.leb_spec W64 (soff s + real_size s)); [lia|].
  rewrite Z.mod_small by lia. cbn [orb andb]. apply IH; [assumption|lia|assumption].
Qed.

(* before flatten_mid: code_size walks exactly what pass 1 checks and pass 2 assigns *)
Lemma cs_walk_pass1_ok l : forall off, Forall wf_sec l -> 0 <= off < W64 -> pass1 off l = true ->
  cs_walk true off false l = (lend off (assign off l), false).
Proof.
  induction l as [|s t IH]; intros off Hwf Hoff Hp; cbn [cs_walk assign lend]; [reflexivity|].
  inversion Hwf as [|? ? Hws Hwt]; subst. pose proof (real_size_range s Hws) as Hrs.
  cbn [pass1] in Hp. rewrite real_size_set_off. cbn [soff set_off].
  destruct (Z.eqb_spec (real_size s) 0) as [E0 | Hne].
  - rewrite E0, Z.add_0_r. apply IH; assumption.
  - destruct (Z.ltb_spec (align_up off (salign s)) off); [discriminate|].
    destruct (Z.leb_spec W64 (align_up off (salign s) + real_size s)); [discriminate|].
    destruct Hws as [_ [_ Hok]]. pose proof (align_up_range off (salign s) Hok Hoff).
    rewrite Z.mod_small by lia. cbn [orb andb]. apply IH; [assumption|lia|assumption].
Qed.

Lemma cs_walk_pass1_fail l : forall off, Forall wf_sec l -> 0 <= off < W64 -> pass1 off l = false ->
  snd (cs_walk true off false l) = true.
Proof.
  induction l as [|s t IH]; intros off Hwf Hoff Hp; cbn [cs_walk]; [discriminate|].
  inversion Hwf as [|? ? Hws Hwt]; subst. pose proof (real_size_range s Hws) as Hrs.
  cbn [pass1] in Hp.
  destruct (Z.eqb_spec (real_size s) 0) as [E0 | Hne]; [apply IH; assumption|].
  destruct (Z.ltb_spec (align_up off (salign s)) off); [cbn [orb andb]; apply cs_sticky|].
  destruct (Z.leb_spec W64 (align_up off (salign s) + real_size s)); [cbn [orb andb]; apply cs_sticky|].
  destruct Hws as [_ [_ Hok]]. pose proof (align_up_range off (salign s) Hok Hoff).
  rewrite Z.mod_small by lia. cbn [orb andb]. apply IH; [assumption|lia|assumption].
Qed.

(* ------------------------------------------------------------------ pass 2b: extending the predecessors *)
Definition core (s : section) := (sid s, sorder s, salign s, sbsize s, sdata s, sname s).

(* how flatten_mid's extension step may change a section: nothing but the virtual size, which only grows, and only for
   non-empty sections *)
Definition ext_rel (s s' : section) : Prop :=
  core s' = core s /\ soff s' = soff s /\ (real_size s = 0 -> s' = s) /\ svsize s <= svsize s' /\
  real_size s <= real_size s'.

Lemma set_vsize_same s : set_vsize s (svsize s) = s.
Proof. destruct s; reflexivity. Qed.

Lemma extend_main l : forall off, Forall wf_sec l -> 0 <= off < W64 -> laid off l ->
  Forall2 ext_rel l (fst (extend l)) /\ Forall wf_sec (fst (extend l)) /\
  laid_ne off (fst (extend l)) /\ lend_ne off (fst (extend l)) = lend off l /\
  match snd (extend l) with
  | None => l = []
  | Some x => off <= x <= lend off l /\ laid_ne x (fst (extend l)) /\ lend_ne x (fst (extend l)) = lend off l
  end.
Proof.
  induction l as [|s t IH]; intros off Hwf Hoff Hl.
  - cbn. repeat split; constructor.
  - inversion Hwf as [|? ? Hws Hwt]; subst. pose proof (real_size_range s Hws) as Hrs.
    pose proof Hl as [Hs [Hb Hlt]].
    assert (He : 0 <= soff s + real_size s < W64).
    { destruct (laid_head_ge off s t Hwf ltac:(lia) Hl). lia. }
    specialize (IH (soff s + real_size s) Hwt He Hlt).
    pose proof (lend_ge (soff s + real_size s) t Hwt ltac:(lia) Hlt) as Hge. pose proof (lend_lt (soff s + real_size s) t ltac:(lia) Hlt) as Hlt64.
    cbn [extend]. destruct (extend t) as [t' tgt] eqn:Et. cbn [fst snd] in IH.
    destruct IH as [IHrel [IHwf [IHne [IHend IHtgt]]]].
    cbn [lend]. destruct (Z.eqb_spec (real_size s) 0) as [E0 | Hne]; cbn [fst snd].
    + (* an empty section: untouched; the target is handed through *)
      rewrite E0, Z.add_0_r in *. subst off.
      assert (Hrel : ext_rel s s).
      { unfold ext_rel. repeat split; try reflexivity; try lia. }
      split; [constructor; assumption|]. split; [constructor; assumption|].
      cbn [laid_ne lend_ne]. rewrite E0. cbn [Z.eqb].
      split; [assumption|]. split; [assumption|].
      destruct tgt as [o|].
      * destruct IHtgt as [Ho [Hn He']]. split; [lia|]. split; assumption.
      * subst t. inversion IHrel; subst. cbn [laid_ne lend_ne lend]. repeat split; lia.
    + destruct Hs as [Eoff Hle]. destruct Hws as [Hv [Hbz Hok]].
      assert (Hbetween : forall y, off <= y -> y <= soff s -> align_up y (salign s) = soff s).
      { intros y H1 H2. rewrite Eoff. apply align_up_between; [assumption|lia|assumption|lia]. }
      destruct tgt as [o|].
      * destruct IHtgt as [Ho [Hn He']].
        set (s' := set_vsize s (o - soff s)).
        assert (Hrs' : real_size s' = o - soff s).
        { unfold s', real_size, set_vsize in *. cbn [svsize sbsize]. unfold real_size in *. lia. }
        assert (Hoff' : soff s' = soff s) by reflexivity.
        assert (Hal' : salign s' = salign s) by reflexivity.
        assert (Hrel : ext_rel s s').
        { unfold ext_rel. split; [reflexivity|]. split; [reflexivity|]. split; [intros; contradiction|].
          split; [unfold s'; cbn [svsize set_vsize]; unfold real_size in *; lia|].
          rewrite Hrs'; lia. }
        assert (Hwf' : wf_sec s').
        { unfold wf_sec, s'. cbn [svsize sbsize salign set_vsize]. repeat split; try assumption; try lia. }
        split; [constructor; assumption|]. split; [constructor; assumption|].
        cbn [laid_ne lend_ne]. rewrite Hrs', Hoff', Hal'.
        destruct (Z.eqb_spec (o - soff s) 0); [lia|].
        replace (soff s + (o - soff s)) with o by ring.
        split; [repeat split; try assumption; lia|]. split; [assumption|].
        split; [lia|]. split; [|assumption].
        repeat split; try assumption; try lia. symmetry. apply Hbetween; lia.
      * subst t. inversion IHrel; subst. rewrite set_vsize_same.
        assert (Hrel : ext_rel s s).
        { unfold ext_rel. repeat split; try reflexivity; try lia. }
        split; [constructor; [assumption|constructor]|]. split; [constructor; [exact (conj Hv (conj Hbz Hok))|constructor]|].
        cbn [laid_ne lend_ne lend]. destruct (Z.eqb_spec (real_size s) 0); [contradiction|].
        split; [repeat split; try assumption; lia|]. split; [reflexivity|].
        split; [lia|]. split; [|reflexivity].
        repeat split; try assumption; try lia. symmetry. apply Hbetween; lia.
Qed.

(* ------------------------------------------------------------------ laid_ne: the same facts for the extended list *)
Lemma laid_ne_app off l1 l2 : laid_ne off (l1 ++ l2) <-> laid_ne off l1 /\ laid_ne (lend_ne off l1) l2.
Proof.
  revert off. induction l1 as [|s t IH]; intros off; cbn [app laid_ne lend_ne]; [tauto|].
  destruct (real_size s =? 0); [apply IH|]. rewrite IH. tauto.
Qed.

Lemma lend_ne_app off l1 l2 : lend_ne off (l1 ++ l2) = lend_ne (lend_ne off l1) l2.
Proof.
  revert off. induction l1 as [|s t IH]; intros off; cbn [app lend_ne]; [reflexivity|].
  destruct (real_size s =? 0); apply IH.
Qed.

Lemma lend_ne_ge off l : Forall wf_sec l -> laid_ne off l -> off <= lend_ne off l.
Proof.
  revert off. induction l as [|s t IH]; intros off Hwf Hl; cbn [lend_ne]; [lia|].
  inversion Hwf as [|? ? Hws Hwt]; subst. pose proof (real_size_range s Hws). cbn [laid_ne] in Hl.
  destruct (real_size s =? 0); [apply IH; assumption|].
  destruct Hl as [_ [Hle [_ Hl]]]. specialize (IH _ Hwt Hl). lia.
Qed.

Lemma laid_ne_in_ge off l s : Forall wf_sec l -> laid_ne off l -> In s l -> real_size s <> 0 ->
  off <= soff s /\ soff s + real_size s <= lend_ne off l.
Proof.
  revert off. induction l as [|a t IH]; intros off Hwf Hl Hin Hne; [contradiction|].
  inversion Hwf as [|? ? Hwa Hwt]; subst. pose proof (real_size_range a Hwa). cbn [laid_ne lend_ne] in *.
  destruct (Z.eqb_spec (real_size a) 0) as [E0|Hn].
  - destruct Hin as [-> | Hin]; [contradiction|]. apply IH; assumption.
  - destruct Hl as [_ [Hle [_ Hl]]]. destruct Hin as [-> | Hin].
    + split; [assumption|]. apply lend_ne_ge; assumption.
    + destruct (IH _ Hwt Hl Hin Hne). lia.
Qed.

Lemma laid_ne_pairwise off l1 a l2 b : Forall wf_sec (l1 ++ a :: l2) -> laid_ne off (l1 ++ a :: l2) ->
  real_size a <> 0 -> In b l2 -> real_size b <> 0 -> soff a + real_size a <= soff b.
Proof.
  intros Hwf Hl Ha Hin Hb. apply laid_ne_app in Hl. destruct Hl as [_ Hl].
  apply Forall_app in Hwf. destruct Hwf as [_ Hw2]. inversion Hw2; subst.
  cbn [laid_ne] in Hl. destruct (Z.eqb_spec (real_size a) 0); [contradiction|].
  destruct Hl as [_ [_ [_ Hl]]].
  destruct (laid_ne_in_ge _ l2 b ltac:(assumption) Hl Hin Hb). lia.
Qed.

(* the last section is never extended *)
Lemma extend_last l : forall s, exists l', fst (extend (l ++ [s])) = l' ++ [s].
Proof.
  induction l as [|a t IH]; intros s.
  - exists []. cbn. destruct (real_size s =? 0); cbn [fst]; [reflexivity|]. rewrite set_vsize_same. reflexivity.
  - destruct (IH s) as [l' E]. cbn [app extend]. destruct (extend (t ++ [s])) as [t' tgt]. cbn [fst] in E. subst t'.
    destruct (real_size a =? 0); cbn [fst]; eexists; rewrite app_comm_cons; reflexivity.
Qed.

(* ------------------------------------------------------------------ flatten_mid *)
Definition wf_holder (h : holder) : Prop := Forall wf_sec h.

(* what flatten_mid may change in a section: offset and virtual size (which never shrinks, and stays for empty sections) *)
Definition flat_rel (s s' : section) : Prop :=
  core s' = core s /\ svsize s <= svsize s' /\ (real_size s = 0 -> svsize s' = svsize s) /\ real_size s <= real_size s'.

Definition asg_rel (s s' : section) : Prop := core s' = core s /\ svsize s' = svsize s.

Lemma assign_rel l : forall off, Forall2 asg_rel l (assign off l).
Proof. induction l as [|s t IH]; intros off; cbn [assign]; constructor; [split; reflexivity|apply IH]. Qed.

Lemma assign_wf l : forall off, Forall wf_sec l -> Forall wf_sec (assign off l).
Proof. induction l as [|s t IH]; intros off H; cbn [assign]; inversion H; subst; constructor; [assumption|apply IH; assumption]. Qed.

Lemma Forall2_trans_rel {A} (P Q R : A -> A -> Prop) l1 : (forall a b c, P a b -> Q b c -> R a c) ->
  forall l2 l3, Forall2 P l1 l2 -> Forall2 Q l2 l3 -> Forall2 R l1 l3.
Proof.
  intros H. induction l1 as [|a t IH]; intros l2 l3 H1 H2; inversion H1; subst; inversion H2; subst; constructor; eauto.
Qed.

Lemma flatten_ok_inv h h' : flatten_mid h = (EOk, h') -> pass1 0 h = true /\ h' = fst (extend (assign 0 h)).
Proof. unfold flatten_mid. destruct (pass1 0 h); intros E; inversion E; auto. Qed.

Lemma flatten_fail_iff h : pass1 0 h = false <-> flatten_mid h = (ETooLarge, h).
Proof. unfold flatten_mid. destruct (pass1 0 h); split; intros E; try reflexivity; try discriminate. Qed.

Record flattened (h h' : holder) : Prop := mkFlattened {
  fl_pass : pass1 0 h = true;
  fl_eq : h' = fst (extend (assign 0 h));
  fl_wf : Forall wf_sec h';
  fl_laid : laid 0 (assign 0 h);
  fl_laid_ne : laid_ne 0 h';
  fl_end : lend_ne 0 h' = lend 0 (assign 0 h);
  fl_ext : Forall2 ext_rel (assign 0 h) h';
  fl_rel : Forall2 flat_rel h h'
}.

Lemma flatten_flattened h h' : wf_holder h -> flatten_mid h = (EOk, h') -> flattened h h'.
Proof.
  intros Hwf E. destruct (flatten_ok_inv h h' E) as [Hp ->].
  pose proof W64_pos. pose proof (assign_laid h 0 Hwf ltac:(lia) Hp) as Hl.
  destruct (extend_main (assign 0 h) 0 (assign_wf h 0 Hwf) ltac:(lia) Hl) as [Hrel [Hwf' [Hne [Hend _]]]].
  constructor; try assumption; try reflexivity.
  eapply (Forall2_trans_rel asg_rel ext_rel flat_rel); [|apply assign_rel|exact Hrel].
  intros a b c [C1 V1] [C2 [_ [Z2 [V2 R2]]]]. unfold flat_rel.
  assert (real_size b = real_size a).
  { unfold real_size. rewrite V1. unfold core in C1. inversion C1. congruence. }
  split; [congruence|]. split; [lia|]. split; [|lia].
  intros Hz. rewrite (Z2 ltac:(lia)). assumption.
Qed.

Lemma in_app_split {A} (x : A) l : In x l -> exists l1 l2, l = l1 ++ x :: l2.
Proof. apply in_split. Qed.

(* --- the statements used by Properties_C10 --- *)
Lemma Forall2_split_r {A} (R : A -> A -> Prop) l l1' x' l2' : Forall2 R l (l1' ++ x' :: l2') ->
  exists l1 x l2, l = l1 ++ x :: l2 /\ Forall2 R l1 l1' /\ R x x' /\ Forall2 R l2 l2'.
Proof.
  intros H. apply Forall2_app_inv_r in H. destruct H as [l1 [l2 [H1 [H2 ->]]]].
  inversion H2; subst. eauto 8.
Qed.

Lemma Forall2_in_r {A} (R : A -> A -> Prop) l l' x' : Forall2 R l l' -> In x' l' -> exists x, In x l /\ R x x'.
Proof.
  intros H. induction H; intros Hin; [contradiction|]. destruct Hin as [-> | Hin]; [eexists; split; [left; reflexivity|assumption]|].
  destruct (IHForall2 Hin) as [z [? ?]]. exists z. split; [right; assumption|assumption].
Qed.

Lemma ext_rel_salign s s' : ext_rel s s' -> salign s' = salign s /\ sbsize s' = sbsize s.
Proof. intros [C _]. unfold core in C. inversion C. auto. Qed.

Lemma ext_rel_nonempty s s' : wf_sec s -> ext_rel s s' -> real_size s' <> 0 -> real_size s <> 0.
Proof. intros Hw [_ [_ [Hz _]]] Hne E. rewrite (Hz E) in Hne. contradiction. Qed.

(* every non-empty section is aligned *)
Lemma flatten_offsets_aligned h h' : wf_holder h -> flatten_mid h = (EOk, h') ->
  forall s, In s h' -> real_size s <> 0 -> aligned (soff s) (salign s).
Proof.
  intros Hwf E s' Hin Hne. destruct (flatten_flattened h h' Hwf E) as [Hp _ Hwf' Hl _ _ Hext _].
  destruct (in_split s' h' Hin) as [l1' [l2' ->]].
  destruct (Forall2_split_r _ _ _ _ _ Hext) as [l1 [s [l2 [Ea [_ [Hr _]]]]]].
  pose proof (assign_wf h 0 Hwf) as Hwa. rewrite Ea in Hl, Hwa.
  assert (Hws : wf_sec s) by (apply Forall_app in Hwa; destruct Hwa as [_ Hw2]; inversion Hw2; assumption).
  pose proof W64_pos.
  destruct (laid_aligned 0 l1 s l2 Hwa ltac:(lia) Hl (ext_rel_nonempty s s' Hws Hr Hne)) as [Hal _].
  destruct Hr as [C [O _]]. unfold core in C. inversion C. rewrite O. congruence.
Qed.

(* offsets as assigned by pass 2: aligned, and the padding in front of a section is smaller than its alignment
   (l1 = its predecessors in by-order sequence, lend 0 l1 = where they end) *)
Lemma assign_aligned_minimal h : wf_holder h -> pass1 0 h = true ->
  forall l1 s l2, assign 0 h = l1 ++ s :: l2 -> real_size s <> 0 ->
  aligned (soff s) (salign s) /\ lend 0 l1 <= soff s < lend 0 l1 + Z.max 1 (salign s).
Proof.
  intros Hwf Hp l1 s l2 E Hne. pose proof W64_pos.
  pose proof (assign_laid h 0 Hwf ltac:(lia) Hp) as Hl. pose proof (assign_wf h 0 Hwf) as Hwa.
  rewrite E in *. apply laid_aligned with (l2 := l2); try assumption. lia.
Qed.

Lemma ext_rel_offsets l l' : Forall2 ext_rel l l' -> map soff l' = map soff l.
Proof.
  intros H. induction H as [|a b la lb Hab _ IH]; cbn [map]; [reflexivity|].
  destruct Hab as [_ [O _]]. rewrite O, IH. reflexivity.
Qed.

Lemma flatten_keeps_assigned_offsets h h' : wf_holder h -> flatten_mid h = (EOk, h') ->
  map soff h' = map soff (assign 0 h).
Proof.
  intros Hwf E. destruct (flatten_flattened h h' Hwf E) as [_ _ _ _ _ _ Hext _]. apply ext_rel_offsets. assumption.
Qed.

(* order and disjointness, any two sections a before b in by-order sequence *)
Lemma flatten_no_overlap h h' : wf_holder h -> flatten_mid h = (EOk, h') ->
  forall l1 a l2 b, h' = l1 ++ a :: l2 -> In b l2 ->
  soff a <= soff b /\ soff a + sbsize a <= soff b /\ (real_size a <> 0 -> real_size b <> 0 -> soff a + real_size a <= soff b).
Proof.
  intros Hwf E l1' a' l2' b' -> Hin. destruct (flatten_flattened h _ Hwf E) as [Hp _ Hwf' Hl Hlne _ Hext _].
  split; [|split].
  - destruct (Forall2_split_r _ _ _ _ _ Hext) as [l1 [a [l2 [Ea [_ [Hra Hr2]]]]]].
    destruct (Forall2_in_r _ _ _ _ Hr2 Hin) as [b [Hinb Hrb]].
    pose proof (assign_wf h 0 Hwf) as Hwa. rewrite Ea in Hl, Hwa.
    pose proof (laid_pairwise 0 l1 a l2 b Hwa ltac:(lia) Hl Hinb).
    assert (Hws : wf_sec a) by (apply Forall_app in Hwa; destruct Hwa as [_ Hw2]; inversion Hw2; assumption).
    pose proof (real_size_range a Hws).
    destruct Hra as [_ [Oa _]]. destruct Hrb as [_ [Ob _]]. lia.
  - destruct (Forall2_split_r _ _ _ _ _ Hext) as [l1 [a [l2 [Ea [_ [Hra Hr2]]]]]].
    destruct (Forall2_in_r _ _ _ _ Hr2 Hin) as [b [Hinb Hrb]].
    pose proof (assign_wf h 0 Hwf) as Hwa. rewrite Ea in Hl, Hwa.
    pose proof (laid_pairwise 0 l1 a l2 b Hwa ltac:(lia) Hl Hinb).
    destruct (ext_rel_salign _ _ Hra) as [_ Eb].
    destruct Hra as [_ [Oa _]]. destruct Hrb as [_ [Ob _]]. unfold real_size in *. lia.
  - intros Ha Hb. apply (laid_ne_pairwise 0 l1' a' l2' b'); assumption.
Qed.

(* ------------------------------------------------------------------ code_size *)
Lemma code_size_before h : wf_holder h -> pass1 0 h = true -> code_size h = lend 0 (assign 0 h).
Proof.
  intros Hwf Hp. pose proof W64_pos. unfold code_size. rewrite (cs_walk_pass1_ok h 0 Hwf ltac:(lia) Hp). reflexivity.
Qed.

Lemma code_size_overflow h : wf_holder h -> pass1 0 h = false -> code_size h = SIZE_MAX.
Proof.
  intros Hwf Hp. pose proof W64_pos. unfold code_size.
  pose proof (cs_walk_pass1_fail h 0 Hwf ltac:(lia) Hp) as Hs. destruct (cs_walk true 0 false h) as [o f].
  cbn [snd] in Hs. subst f. reflexivity.
Qed.

Lemma code_size_after h h' : wf_holder h -> flatten_mid h = (EOk, h') -> code_size h' = lend 0 (assign 0 h).
Proof.
  intros Hwf E. destruct (flatten_flattened h h' Hwf E) as [_ _ Hwf' _ Hlne Hend _ _].
  unfold code_size. rewrite (cs_walk_laid_ne h' 0 Hwf' ltac:(lia) Hlne). congruence.
Qed.

(* the estimate taken before flatten_mid is the size reported after it *)
Lemma code_size_stable h h' : wf_holder h -> flatten_mid h = (EOk, h') -> code_size h' = code_size h.
Proof.
  intros Hwf E. rewrite (code_size_after h h' Hwf E). destruct (flatten_ok_inv h h' E) as [Hp _].
  symmetry. apply code_size_before; assumption.
Qed.

Lemma code_size_is_end h h' : wf_holder h -> flatten_mid h = (EOk, h') ->
  forall l1 s, h' = l1 ++ [s] -> code_size h' = soff s + real_size s.
Proof.
  intros Hwf E l1 s Eh. rewrite (code_size_after h h' Hwf E).
  destruct (flatten_ok_inv h h' E) as [_ E'].
  destruct (assign 0 h) as [|x xs] eqn:Ea.
  - cbn in E'. subst h'. destruct l1; discriminate.
  - destruct (@exists_last _ (x :: xs) ltac:(discriminate)) as [m [s0 Em]]. rewrite Em in *.
    destruct (extend_last m s0) as [l' El]. rewrite El in E'. rewrite E' in Eh.
    apply app_inj_tail in Eh. destruct Eh as [_ <-].
    rewrite lend_app. reflexivity.
Qed.

Lemma code_size_bounds_all h h' : wf_holder h -> flatten_mid h = (EOk, h') ->
  forall s, In s h' -> 0 <= soff s /\ soff s + real_size s <= code_size h' /\ code_size h' < W64.
Proof.
  intros Hwf E s' Hin. rewrite (code_size_after h h' Hwf E).
  destruct (flatten_flattened h h' Hwf E) as [_ _ Hwf' Hl Hlne Hend Hext _].
  pose proof W64_pos. pose proof (assign_wf h 0 Hwf) as Hwa.
  destruct (Forall2_in_r _ _ _ _ Hext Hin) as [s [Hins Hr]].
  destruct (laid_in_ge 0 _ s Hwa ltac:(lia) Hl Hins) as [G1 G2].
  pose proof (lend_lt 0 _ ltac:(lia) Hl).
  assert (Hws : wf_sec s) by (rewrite Forall_forall in Hwa; auto).
  pose proof (real_size_range s Hws).
  destruct (Z.eq_dec (real_size s') 0) as [E0|Hne].
  - destruct Hr as [_ [O _]]. lia.
  - destruct (laid_ne_in_ge 0 h' s' Hwf' Hlne Hin Hne). destruct Hr as [_ [O _]]. lia.
Qed.

(* ------------------------------------------------------------------ the backward step (settle) and the final flatten *)
Definition off_only (a b : section) : Prop := b = set_off a (soff b).

Lemma settle_off_only l e : Forall2 off_only l (fst (settle l e)).
Proof.
  induction l as [|s t IH]; cbn [settle]; [constructor|]. destruct (settle t e) as [t' nxt]. cbn [fst] in IH.
  destruct (real_size s =? 0); cbn [fst]; constructor; try assumption; unfold off_only; [reflexivity|destruct s; reflexivity].
Qed.

Lemma flatten_final_inv h h' : flatten h = (EOk, h') ->
  exists m, flatten_mid h = (EOk, m) /\ h' = fst (settle m (run_end 0 (assign 0 h))).
Proof.
  unfold flatten, flatten_mid. destruct (pass1 0 h); intros E; inversion E. eexists. split; reflexivity.
Qed.

Lemma flatten_final_fail h : flatten h = (ETooLarge, h) <-> pass1 0 h = false.
Proof. unfold flatten. destruct (pass1 0 h); split; intros E; try reflexivity; discriminate. Qed.

Lemma off_only_wf l l' : Forall2 off_only l l' -> Forall wf_sec l -> Forall wf_sec l'.
Proof.
  intros H. induction H as [|a b la lb Hab _ IH]; intros Hw; [constructor|]. inversion Hw; subst.
  constructor; [|apply IH; assumption]. rewrite Hab. assumption.
Qed.

Lemma off_only_flat_rel l l' : Forall2 off_only l l' -> Forall2 (fun a b => flat_rel a b /\ real_size b = real_size a) l l'.
Proof.
  intros H. induction H as [|a b la lb Hab _ IH]; constructor; [|assumption]. rewrite Hab.
  split; [|reflexivity]. unfold flat_rel. split; [reflexivity|]. split; [cbn; lia|]. split; [intros; reflexivity|].
  rewrite real_size_set_off. lia.
Qed.

(* flatten's effect on the fields other than the offset *)
Lemma flatten_final_rel h h' : wf_holder h -> flatten h = (EOk, h') -> Forall wf_sec h' /\ Forall2 flat_rel h h'.
Proof.
  intros Hwf E. destruct (flatten_final_inv h h' E) as [m [Em ->]].
  destruct (flatten_flattened h m Hwf Em) as [_ _ Hwm _ _ _ _ Hrel].
  pose proof (settle_off_only m (run_end 0 (assign 0 h))) as Ho.
  split; [eapply off_only_wf; eassumption|].
  eapply (Forall2_trans_rel flat_rel (fun a b => flat_rel a b /\ real_size b = real_size a) flat_rel); [|exact Hrel|apply off_only_flat_rel; exact Ho].
  intros a b c [C1 [V1 [Z1 R1]]] [[C2 [V2 [Z2 R2]]] Er]. unfold flat_rel. split; [congruence|]. split; [lia|]. split; [|lia].
  intros Hz. rewrite <- (Z1 Hz). apply Z2. unfold real_size in *. rewrite (Z1 Hz). unfold core in C1. inversion C1. lia.
Qed.

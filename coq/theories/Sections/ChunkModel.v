(* C10 — run-length ("chunked") memory: the same copy functions as in SectionModel.v, computed on a list of chunks so that
   the cost does not depend on the image size.  ChunkProofs.v proves `flat (…_c …) = … (flat …)`; the model driver runs
   these versions.  No proofs in this file. *)
From Coq Require Import ZArith List Bool.
From Verif Require Import Sections.SectionModel.
Import ListNotations.
Local Open Scope Z_scope.

Inductive chunk := Fill (v n : Z) | Bytes (l : list Z).
Definition cmem := list chunk.

Definition clen (c : chunk) : Z := match c with Fill _ n => Z.max 0 n | Bytes l => Z.of_nat (length l) end.
Definition flat1 (c : chunk) : list Z := match c with Fill v n => repeat v (Z.to_nat n) | Bytes l => l end.
Fixpoint flat (m : cmem) : list Z := match m with [] => [] | c :: t => flat1 c ++ flat t end.

(* the first n cells *)
Fixpoint ctake (n : Z) (m : cmem) : cmem :=
  match m with
  | [] => []
  | c :: t =>
    if n <=? 0 then []
    else if clen c <=? n then c :: ctake (n - clen c) t
    else [match c with Fill v _ => Fill v n | Bytes l => Bytes (firstn (Z.to_nat n) l) end]
  end.

(* everything but the first n cells *)
Fixpoint cdrop (n : Z) (m : cmem) : cmem :=
  match m with
  | [] => []
  | c :: t =>
    if n <=? 0 then m
    else if clen c <=? n then cdrop (n - clen c) t
    else (match c with Fill v k => Fill v (k - n) | Bytes l => Bytes (skipn (Z.to_nat n) l) end) :: t
  end.

Definition cwrite (m : cmem) (off : Z) (c : chunk) : cmem := ctake off m ++ c :: cdrop (off + clen c) m.

Fixpoint copy_loop_c (l : list section) (m : cmem) (dst_size : Z) (pad_section : bool) (e : Z) : err * cmem * Z :=
  match l with
  | [] => (EOk, m, e)
  | s :: t =>
    if dst_size <? soff s then (EInvalidArgument, m, e)
    else if dst_size - soff s <? sbsize s then (EInvalidArgument, m, e)
    else
      let m1 := cwrite m (soff s) (Bytes (sdata s)) in
      let pad := if pad_section && (sbsize s <? svsize s)
                 then Z.min (dst_size - soff s) (svsize s) - sbsize s else 0 in
      let m2 := cwrite m1 (soff s + sbsize s) (Fill 0 pad) in
      copy_loop_c t m2 dst_size pad_section (Z.max e (soff s + sbsize s + pad))
  end.

Definition copy_flat_c (h : holder) (m : cmem) (dst_size : Z) (pad_section pad_target : bool) : err * cmem :=
  match copy_loop_c h m dst_size pad_section 0 with
  | (EOk, m1, e) =>
    if (e <? dst_size) && pad_target then (EOk, cwrite m1 e (Fill 0 (dst_size - e))) else (EOk, m1)
  | (er, m1, _) => (er, m1)
  end.

Definition copy_section_c (h : holder) (m : cmem) (dst_size id : Z) (pad_section : bool) : err * cmem :=
  match by_id h id with
  | None => (EInvalidSection, m)
  | Some s =>
    if dst_size <? sbsize s then (EInvalidArgument, m)
    else
      let m1 := cwrite m 0 (Bytes (sdata s)) in
      if (sbsize s <? dst_size) && pad_section
      then (EOk, cwrite m1 (sbsize s) (Fill 0 (dst_size - sbsize s)))
      else (EOk, m1)
  end.

Definition jit_add_c (h : holder) (fill : Z) : err * Z * cmem * holder :=
  match flatten h with
  | (EOk, h1) =>
    let est := code_size h1 in
    if est =? 0 then (ENoCodeGenerated, 0, [], h1)
    else (EOk, est, snd (copy_flat_c h1 [Fill fill est] est true false), h1)
  | (e, h1) => (e, 0, [], h1)
  end.

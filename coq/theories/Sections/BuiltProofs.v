(* C10 — holders built through the API with well-sized buffers: `built` (init, new_section, setting a section's contents with a
   buffer whose length is its size, flatten).  Every built holder is reachable and has well-sized buffers, so the premises
   `reachable h0` / `data_len_ok h0` of the copy / JitRuntime / relocation theorems are discharged for them. *)
From Coq Require Import ZArith List Bool Lia.
From Verif Require Import Sections.SectionModel Sections.SectionProofs Sections.SectionTable Sections.CopyProofs Sections.SettleProofs Sections.SectionExamples.
Import ListNotations.
Local Open Scope Z_scope.

Inductive built : holder -> Prop :=
| b_init : built init_holder
| b_new h name al ord h' : built h -> 0 <= al < 4294967296 -> INT_MIN <= ord <= INT_MAX ->
    new_section h name al ord = (EOk, h') -> built h'
| b_set h id d v : built h -> Z.of_nat (length d) < W64 -> 0 <= v < W64 ->
    built (update_id h id (fun s => set_sizes s (Z.of_nat (length d)) v d))       (* emitters append bytes; users set virtual sizes *)
| b_flatten h h' : built h -> flatten h = (EOk, h') -> built h'.

Lemma update_id_data_len h id f : data_len_ok h -> (forall s, Z.of_nat (length (sdata (f s))) = sbsize (f s)) -> data_len_ok (update_id h id f).
Proof.
  intros H Hf. unfold data_len_ok in *. induction H as [|a t Ha Ht IH]; cbn [update_id]; [constructor|].
  destruct (sid a =? id); constructor; auto.
Qed.

Lemma insert_sorted_data_len s l : data_len_ok l -> Z.of_nat (length (sdata s)) = sbsize s -> data_len_ok (insert_sorted s l).
Proof.
  intros H Hs. unfold data_len_ok in *. rewrite Forall_forall in *. intros x Hx. apply insert_sorted_in in Hx.
  destruct Hx as [->|Hx]; auto.
Qed.

Theorem built_ok h : built h -> reachable h /\ data_len_ok h.
Proof.
  intros B. induction B as [|h name al ord h' B [IR ID] Hal Hord E|h id d v B [IR ID] Hd Hv|h h' B [IR ID] E].
  - split; [apply r_init|]. unfold data_len_ok. repeat constructor.
  - split; [eapply r_new; eassumption|]. unfold new_section in E.
    destruct (is_zero_or_pow2 al); cbn [negb] in E; [|discriminate].
    destruct (MAX_NAME <? Z.of_nat (length name)); [discriminate|]. inversion E; subst h'. apply insert_sorted_data_len; [assumption|reflexivity].
  - split.
    + apply r_update; [assumption|]. intros s. cbn. repeat split; try lia.
    + apply update_id_data_len; [assumption|]. intros s. reflexivity.
  - split; [eapply r_flatten; eassumption|].
    destruct (reachable_inv h IR) as [_ [_ Hwf]]. destruct (flatten_final_rel h h' Hwf E) as [_ Hrel].
    unfold data_len_ok in *. rewrite Forall_forall in *. intros s' Hin.
    destruct (Forall2_in_r _ _ _ _ Hrel Hin) as [s [Hs [C _]]]. specialize (ID s Hs).
    unfold core in C. inversion C. congruence.
Qed.

(* the flagship statements with every premise discharged for built holders *)
Theorem built_jit_image h fill n img h1 : built h -> jit_add h fill = (EOk, n, img, h1) ->
  flatten h = (EOk, h1) /\ n = code_size h1 /\ 0 < n /\ Z.of_nat (length img) = n /\
  forall c, 0 <= c < n -> exists s, In s h1 /\
    ((soff s <= c < soff s + sbsize s /\ cell img c = cell (sdata s) (c - soff s)) \/
     (soff s + sbsize s <= c < soff s + real_size s /\ cell img c = 0)).
Proof.
  intros B E. destruct (built_ok h B) as [R Hdl]. destruct (reachable_inv h R) as [_ [_ Hwf]].
  destruct (jit_image_determined h fill EOk n img h1 Hwf Hdl E) as [_ [_ [_ H]]]. apply H. reflexivity.
Qed.

Theorem built_copy_exact h h' mem dst ps pt mem' : built h -> flatten h = (EOk, h') -> 0 <= dst <= Z.of_nat (length mem) ->
  copy_flat h' mem dst ps pt = (EOk, mem') ->
  length mem' = length mem /\
  (forall c, dst <= c -> cell mem' c = cell mem c) /\
  (forall s, In s h' -> forall k, 0 <= k < sbsize s -> cell mem' (soff s + k) = cell (sdata s) k) /\
  (forall s, In s h' -> forall c, soff s + sbsize s <= c < wend ps dst s -> cell mem' c = 0) /\
  (pt = true -> forall c, ends ps dst h' 0 <= c < dst -> cell mem' c = 0) /\
  (forall c, 0 <= c -> (forall s, In s h' -> ~ (soff s <= c < wend ps dst s)) -> (pt = false \/ c < ends ps dst h' 0) ->
             cell mem' c = cell mem c).
Proof.
  intros B E. destruct (built_ok h B) as [R Hdl]. destruct (reachable_inv h R) as [_ [_ Hwf]]. apply (final_copy_exact h); assumption.
Qed.

Example built_example : built SectionExamples.ex_h3.
Proof.
  unfold SectionExamples.ex_h3.
  change (fun s : section => set_sizes s 3 40 [1; 2; 3]) with (fun s : section => set_sizes s (Z.of_nat (length [1; 2; 3])) 40 [1; 2; 3]).
  apply b_set; [|vm_compute; reflexivity|vm_compute; split; [discriminate|reflexivity]].
  change (fun s : section => set_sizes s 10 0 (repeat 7 10)) with (fun s : section => set_sizes s (Z.of_nat (length (repeat 7 10))) 0 (repeat 7 10)).
  apply b_set; [|vm_compute; reflexivity|vm_compute; split; [discriminate|reflexivity]].
  apply (b_new SectionExamples.ex_h1 [46; 98] 16 (-5)); [|lia|unfold INT_MIN, INT_MAX; lia|vm_compute; reflexivity].
  apply (b_new init_holder [46; 100] 64 0); [apply b_init|lia|unfold INT_MIN, INT_MAX; lia|vm_compute; reflexivity].
Qed.

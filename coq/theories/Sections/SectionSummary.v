(* C10 — combined statements (conjunctions of lemmas proved elsewhere) in the form Properties_C10.v states them. *)
From Coq Require Import ZArith List Bool Lia.
From Verif Require Import Sections.SectionModel Sections.SectionProofs Sections.SectionTable Sections.CopyProofs Sections.ShrinkProofs
  Sections.StableProofs Sections.CoverProofs Sections.SettleProofs.
Import ListNotations.
Local Open Scope Z_scope.

Lemma code_size_overflow_all h : wf_holder h ->
  (pass1 0 h = false <-> flatten h = (ETooLarge, h)) /\ (pass1 0 h = false -> code_size h = SIZE_MAX) /\
  (pass1 0 h = true -> exists h', flatten h = (EOk, h') /\ code_size h < W64).
Proof.
  intros Hwf. split; [split; [intros Hp; apply flatten_final_fail; assumption|intros Hf; apply flatten_final_fail; assumption]|]. split; [exact (code_size_overflow h Hwf)|].
  intros Hp. unfold flatten. rewrite Hp. eexists. split; [reflexivity|].
  rewrite (code_size_before h Hwf Hp). pose proof W64_pos. apply lend_lt; [lia|]. apply assign_laid; [assumption|lia|assumption].
Qed.

(* refusal: copy_flattened_data answers kInvalidArgument exactly when some section's buffer does not fit, and kOk
   otherwise; a destination of code_size() bytes is always accepted *)
Lemma copy_refuses_small_all :
  (forall l mem dst ps pt, fst (copy_flat l mem dst ps pt) = if existsb (too_small dst) l then EInvalidArgument else EOk) /\
  (forall h h' dst, wf_holder h -> flatten h = (EOk, h') -> code_size h' <= dst -> existsb (too_small dst) h' = false).
Proof. split; [exact copy_flat_err|exact final_copy_accepts_code_size]. Qed.

(* C10 — executable model of CodeHolder's section table and layout (asmjit/core/codeholder.cpp):
     new_section (validation + ordered insertion by (order, id)), section_by_name, flatten (two passes), code_size,
     copy_section_data, copy_flattened_data (CopySectionFlags), the address-table shrink at the end of relocate_to_base.
   All machine arithmetic is on Z with the 64-bit wrap made explicit.  NO proofs in this file (it must extract even
   when a proof breaks).

   The model is the behaviour AFTER the repairs fixes/C10-*.patch (round 3 adds C10-flatten-empty-section-offset: `settle`):
     - flatten pass 2 never extends an EMPTY section (DESIGN 7.26)          [flatten-empty-prev]
     - new_section zero-fills the name field (DESIGN 7.18)                  [section-name-zero]
     - code_size reports SIZE_MAX also when aligning wraps around 2^64      [code-size-align-overflow]
   The behaviour of the pinned tree is kept next to it (`*_pinned`) so that the defects stay recorded as theorems
   (`..._pinned_refuted`) and the check can recognise an unpatched tree. *)
From Coq Require Import ZArith List Bool.
Import ListNotations.
Local Open Scope Z_scope.

Definition W64 : Z := 18446744073709551616.          (* 2^64: uint64_t / size_t on the 64-bit target *)
Definition SIZE_MAX : Z := W64 - 1.
Definition NO_OFFSET : Z := W64 - 1.                 (* Globals::kNoSectionOffset *)
Definition INT_MIN : Z := -2147483648.
Definition INT_MAX : Z := 2147483647.
Definition MAX_NAME : Z := 35.                       (* Globals::kMaxSectionNameSize *)
Definition NAME_CELLS : nat := 36.                   (* sizeof(FixedString<36>::str) *)

Inductive err := EOk | EInvalidArgument | EInvalidSectionName | ETooLarge | EInvalidSection | ENoCodeGenerated.

Record section := mkSection {
  sid : Z;            (* Section::_section_id *)
  sorder : Z;         (* Section::_order (int32) *)
  salign : Z;         (* Section::_alignment (0 only for the built-in .text) *)
  soff : Z;           (* Section::_offset *)
  svsize : Z;         (* Section::_virtual_size *)
  sbsize : Z;         (* CodeBuffer::_size *)
  sdata : list Z;     (* the first _size bytes of CodeBuffer::_data *)
  sname : list Z      (* Section::_name.str, all NAME_CELLS cells *)
}.

Definition set_off (s : section) (o : Z) : section :=
  mkSection (sid s) (sorder s) (salign s) o (svsize s) (sbsize s) (sdata s) (sname s).
Definition set_vsize (s : section) (v : Z) : section :=
  mkSection (sid s) (sorder s) (salign s) (soff s) v (sbsize s) (sdata s) (sname s).
Definition set_sizes (s : section) (b v : Z) (d : list Z) : section :=
  mkSection (sid s) (sorder s) (salign s) (soff s) v b d (sname s).

(* the holder: CodeHolder::_sections_by_order; CodeHolder::_sections is the same set looked up by id *)
Definition holder := list section.

Definition real_size (s : section) : Z := Z.max (svsize s) (sbsize s).

(* ---------------------------------------------------------------- new_section *)
Definition is_pow2 (a : Z) : bool := (0 <? a) && (a =? 2 ^ Z.log2 a).
Definition is_zero_or_pow2 (a : Z) : bool := (a =? 0) || is_pow2 a.

Definition pad_name (n : list Z) : list Z := n ++ repeat 0 (NAME_CELLS - length n).

(* std::make_tuple(a->order(), a->section_id()) < std::make_tuple(b->order(), b->section_id()) *)
Definition key_lt (a b : section) : bool :=
  (sorder a <? sorder b) || ((sorder a =? sorder b) && (sid a <? sid b)).

(* std::lower_bound on the (sorted) by-order vector + insert: the first position whose element is not < s *)
Fixpoint insert_sorted (s : section) (l : list section) : list section :=
  match l with
  | [] => [s]
  | x :: t => if key_lt x s then x :: insert_sorted s t else s :: x :: t
  end.

Definition text_section : section :=
  mkSection 0 INT_MIN 0 0 0 0 [] (pad_name [46; 116; 101; 120; 116]).       (* ".text" *)

Definition init_holder : holder := [text_section].

(* alignment is a uint32_t, order an int32_t, name any byte string of the given length *)
Definition new_section (h : holder) (name : list Z) (align order : Z) : err * holder :=
  if negb (is_zero_or_pow2 align) then (EInvalidArgument, h)
  else if MAX_NAME <? Z.of_nat (length name) then (EInvalidSectionName, h)
  else
    let id := Z.of_nat (length h) in
    let s := mkSection id order (if align =? 0 then 1 else align) NO_OFFSET 0 0 [] (pad_name name) in
    (EOk, insert_sorted s h).

(* ---------------------------------------------------------------- lookups *)
Fixpoint by_id (h : holder) (id : Z) : option section :=
  match h with
  | [] => None
  | s :: t => if sid s =? id then Some s else by_id t id
  end.

Fixpoint list_eqb (a b : list Z) : bool :=
  match a, b with
  | [], [] => true
  | x :: a', y :: b' => (x =? y) && list_eqb a' b'
  | _, _ => false
  end.

(* memcmp(section->_name.str, name, name_size) == 0 && section->_name.str[name_size] == '\0' *)
Definition name_matches (s : section) (key : list Z) : bool :=
  list_eqb (firstn (length key) (sname s)) key && (nth (length key) (sname s) 0 =? 0).

(* section_by_name iterates _sections, i.e. ids 0, 1, 2, ...; answers the id *)
Fixpoint by_name_from (h : holder) (key : list Z) (id : Z) (fuel : nat) : option Z :=
  match fuel with
  | O => None
  | S f => match by_id h id with
           | Some s => if name_matches s key then Some id else by_name_from h key (id + 1) f
           | None => None
           end
  end.
Definition section_by_name (h : holder) (key : list Z) : option Z :=
  if MAX_NAME <? Z.of_nat (length key) then None else by_name_from h key 0 (length h).

(* fabricating section contents (emitters append to the buffer, users set virtual sizes) *)
Fixpoint update_id (h : holder) (id : Z) (f : section -> section) : holder :=
  match h with
  | [] => []
  | s :: t => if sid s =? id then f s :: t else s :: update_id t id f
  end.

(* ---------------------------------------------------------------- flatten *)
(* Support::align_up(uint64_t x, uint32_t a) = (x + (a-1)) & ~(a-1) in 64-bit arithmetic; a is zero or a power of two *)
Definition align_up (x a : Z) : Z := if a =? 0 then 0 else ((x + (a - 1)) mod W64) / a * a.

(* pass 1: can every offset be assigned without leaving 64 bits? *)
Fixpoint pass1 (off : Z) (l : list section) : bool :=
  match l with
  | [] => true
  | s :: t =>
    let rs := real_size s in
    if rs =? 0 then pass1 off t
    else
      let ao := align_up off (salign s) in
      if ao <? off then false
      else if W64 <=? ao + rs then false
      else pass1 (ao + rs) t
  end.

(* pass 2a: offsets; only non-empty sections are aligned *)
Fixpoint assign (off : Z) (l : list section) : list section :=
  match l with
  | [] => []
  | s :: t =>
    let rs := real_size s in
    let o := if rs =? 0 then off else align_up off (salign s) in
    set_off s o :: assign (o + rs) t
  end.

(* pass 2b (repaired): `prev->_virtual_size = offset - prev->_offset` where prev is the last NON-EMPTY section before the
   current one; its final value is taken at the next non-empty section, or at the last section if none follows.
   Computed right to left: the second component is the offset the nearest non-empty section to the left extends to. *)
Fixpoint extend (l : list section) : list section * option Z :=
  match l with
  | [] => ([], None)
  | s :: t =>
    let (t', tgt) := extend t in
    if real_size s =? 0
    then (s :: t', Some (match tgt with Some o => o | None => soff s end))
    else (set_vsize s (match tgt with Some o => o - soff s | None => svsize s end) :: t', Some (soff s))
  end.

(* pass 2b as in the pinned tree: prev is simply the preceding section, empty or not (DESIGN 7.26) *)
Fixpoint extend_pinned (l : list section) : list section :=
  match l with
  | [] => []
  | s :: t =>
    match t with
    | [] => [s]
    | n :: _ => set_vsize s ((soff n - soff s) mod W64) :: extend_pinned t
    end
  end.

(* the state after the forward loop of pass 2 *)
Definition flatten_mid (h : holder) : err * holder :=
  if pass1 0 h then (EOk, fst (extend (assign 0 h))) else (ETooLarge, h).

(* the running offset at the end of the forward loop *)
Fixpoint run_end (off : Z) (l : list section) : Z :=
  match l with [] => off | s :: t => run_end (soff s + real_size s) t end.

(* pass 2c (fixes/C10-flatten-empty-section-offset): walking backwards, an EMPTY section is placed where the next non-empty
   section starts, or at the end of the code if none follows — the place another flatten() would move it to.
   Second component: the offset handed to the empty sections on the left. *)
Fixpoint settle (l : list section) (e : Z) : list section * Z :=
  match l with
  | [] => ([], e)
  | s :: t =>
    let (t', nxt) := settle t e in
    if real_size s =? 0 then (set_off s nxt :: t', nxt) else (s :: t', soff s)
  end.

Definition flatten (h : holder) : err * holder :=
  if pass1 0 h
  then let a := assign 0 h in (EOk, fst (settle (fst (extend a)) (run_end 0 a)))
  else (ETooLarge, h).

Definition flatten_pinned (h : holder) : err * holder :=
  if pass1 0 h then (EOk, extend_pinned (assign 0 h)) else (ETooLarge, h).

(* ---------------------------------------------------------------- code_size *)
(* the walk of code_size: running offset (wrapping) and the sticky overflow flag *)
Fixpoint cs_walk (align_checked : bool) (off : Z) (ovf : bool) (l : list section) : Z * bool :=
  match l with
  | [] => (off, ovf)
  | s :: t =>
    let rs := real_size s in
    if rs =? 0 then cs_walk align_checked off ovf t
    else
      let ao := align_up off (salign s) in
      let sum := ao + rs in
      cs_walk align_checked (sum mod W64) (ovf || (align_checked && (ao <? off)) || (W64 <=? sum)) t
  end.

Definition code_size (h : holder) : Z :=
  let (off, ovf) := cs_walk true 0 false h in if ovf then SIZE_MAX else off.

(* pinned tree: the wrap of align_up is only asserted, not reported *)
Definition code_size_pinned (h : holder) : Z :=
  let (off, ovf) := cs_walk false 0 false h in if ovf then SIZE_MAX else off.

(* ---------------------------------------------------------------- copying *)
(* memory is a list of cells; the destination starts at cell 0; cells beyond dst_size are the guard band *)
Definition write_at (mem : list Z) (off : Z) (data : list Z) : list Z :=
  firstn (Z.to_nat off) mem ++ data ++ skipn (Z.to_nat off + length data) mem.

Definition zeros (n : Z) : list Z := repeat 0 (Z.to_nat n).

(* copy_section_data(dst, dst_size, section_id, flags) *)
Definition copy_section (h : holder) (mem : list Z) (dst_size id : Z) (pad_section : bool) : err * list Z :=
  match by_id h id with
  | None => (EInvalidSection, mem)
  | Some s =>
    if dst_size <? sbsize s then (EInvalidArgument, mem)
    else
      let mem1 := write_at mem 0 (sdata s) in
      if (sbsize s <? dst_size) && pad_section
      then (EOk, write_at mem1 (sbsize s) (zeros (dst_size - sbsize s)))
      else (EOk, mem1)
  end.

(* the loop of copy_flattened_data; `e` is the running `end` *)
Fixpoint copy_loop (l : list section) (mem : list Z) (dst_size : Z) (pad_section : bool) (e : Z) : err * list Z * Z :=
  match l with
  | [] => (EOk, mem, e)
  | s :: t =>
    if dst_size <? soff s then (EInvalidArgument, mem, e)
    else if dst_size - soff s <? sbsize s then (EInvalidArgument, mem, e)
    else
      let mem1 := write_at mem (soff s) (sdata s) in
      let pad := if pad_section && (sbsize s <? svsize s)
                 then Z.min (dst_size - soff s) (svsize s) - sbsize s else 0 in
      let mem2 := write_at mem1 (soff s + sbsize s) (zeros pad) in
      copy_loop t mem2 dst_size pad_section (Z.max e (soff s + sbsize s + pad))
  end.

Definition copy_flat (h : holder) (mem : list Z) (dst_size : Z) (pad_section pad_target : bool) : err * list Z :=
  match copy_loop h mem dst_size pad_section 0 with
  | (EOk, mem1, e) =>
    if (e <? dst_size) && pad_target then (EOk, write_at mem1 e (zeros (dst_size - e))) else (EOk, mem1)
  | (er, mem1, _) => (er, mem1)
  end.

(* ---------------------------------------------------------------- relocate_to_base tail *)
(* the address table's buffer becomes used*address_size bytes wherever it sits (its slots are data now); if it is the
   LAST section in order its virtual size shrinks to the same value and the difference is reported as
   RelocationSummary::code_size_reduction; otherwise the virtual size (the reservation) stays and nothing is reported *)
Fixpoint shrink_last (l : list section) (tab_id : Z) (used_bytes : Z) : list section * Z :=
  match l with
  | [] => ([], 0)
  | [s] => if sid s =? tab_id
           then ([set_sizes s used_bytes used_bytes (firstn (Z.to_nat used_bytes) (sdata s))], svsize s - used_bytes)
           else ([s], 0)
  | s :: t => let (t', r) := shrink_last t tab_id used_bytes in
              ((if sid s =? tab_id then set_sizes s used_bytes (svsize s) (firstn (Z.to_nat used_bytes) (sdata s)) else s) :: t', r)
  end.

(* ---------------------------------------------------------------- C strings: name_size == SIZE_MAX means strlen(name) *)
Fixpoint cstr (buf : list Z) : list Z :=
  match buf with
  | [] => []
  | c :: t => if c =? 0 then [] else c :: cstr t
  end.

Definition new_section_cstr (h : holder) (buf : list Z) (align order : Z) : err * holder := new_section h (cstr buf) align order.
Definition section_by_name_cstr (h : holder) (buf : list Z) : option Z := section_by_name h (cstr buf).

(* ---------------------------------------------------------------- address table (ensure_address_table_section,
   add_address_to_address_table) and the emitter-side size changes used by the correspondence scenarios *)
Record jstate := mkJ { jh : holder; jtab : option Z; jaddrs : list Z }.

Definition addrtab_name : list Z := [46; 97; 100; 100; 114; 116; 97; 98].     (* ".addrtab" *)
Definition REG_SIZE : Z := 8.                                                  (* x86-64 environment *)

Definition ensure_table (st : jstate) : jstate * Z :=
  match jtab st with
  | Some t => (st, t)
  | None =>
    let id := Z.of_nat (length (jh st)) in
    let (_, h') := new_section (jh st) addrtab_name REG_SIZE INT_MAX in
    (mkJ h' (Some id) (jaddrs st), id)
  end.

Definition add_address (st : jstate) (a : Z) : jstate :=
  if existsb (Z.eqb a) (jaddrs st) then st
  else
    let (st1, t) := ensure_table st in
    mkJ (update_id (jh st1) t (fun s => set_vsize s (svsize s + REG_SIZE))) (jtab st1) (a :: jaddrs st1).

(* `call <abs>` appended to .text: len bytes of code (contents are C04's business, sizes are ours) *)
Definition emit_call (st : jstate) (a len : Z) : jstate :=
  let st1 := add_address st a in
  mkJ (update_id (jh st1) 0 (fun s => set_sizes s (sbsize s + len) (svsize s) (sdata s ++ zeros len))) (jtab st1) (jaddrs st1).

Definition relocate_tail (st : jstate) (used_slots : Z) : jstate * Z :=
  match jtab st with
  | None => (st, 0)
  | Some t => let (h', r) := shrink_last (jh st) t (used_slots * REG_SIZE) in (mkJ h' (jtab st) (jaddrs st), r)
  end.

(* ---------------------------------------------------------------- JitRuntime::_add (no relocations): flatten, estimate,
   then every section's buffer is copied and the rest up to its virtual size zero-filled, into memory whose previous
   content is `fill`.  The per-section writes are those of copy_flattened_data with kPadSectionBuffer and
   dst_size = code_size (nothing is clipped then). Answers: error, final size, image, flattened holder. *)
Definition jit_add (h : holder) (fill : Z) : err * Z * list Z * holder :=
  match flatten h with
  | (EOk, h1) =>
    let est := code_size h1 in
    if est =? 0 then (ENoCodeGenerated, 0, [], h1)
    else (EOk, est, snd (copy_flat h1 (repeat fill (Z.to_nat est)) est true false), h1)
  | (e, h1) => (e, 0, [], h1)
  end.

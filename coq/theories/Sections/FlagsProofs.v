(* C10 (adjacent) — clear_flags removes exactly the given flags; the unrepaired version sets every other flag. *)
From Coq Require Import ZArith Bool Lia.
From Verif Require Import Sections.FlagsModel.
Local Open Scope Z_scope.

Lemma u16_bit x i : 0 <= i < 16 -> Z.testbit (u16 x) i = Z.testbit x i.
Proof. intros H. unfold u16. change 65536 with (2 ^ 16). apply Z.mod_pow2_bits_low. lia. Qed.

Lemma u16_bit_high x i : 16 <= i -> Z.testbit (u16 x) i = false.
Proof. intros H. unfold u16. change 65536 with (2 ^ 16). apply Z.mod_pow2_bits_high. lia. Qed.

Lemma u16_range x : 0 <= u16 x < 65536.
Proof. unfold u16. apply Z.mod_pos_bound. lia. Qed.

(* bit by bit: a cleared flag is gone, every other bit of the 16-bit word is what it was *)
Theorem clear_flags_bits f x i : 0 <= i < 16 ->
  Z.testbit (clear_flags f x) i = Z.testbit f i && negb (Z.testbit x i).
Proof.
  intros H. unfold clear_flags. rewrite u16_bit by assumption. rewrite Z.land_spec, Z.lnot_spec by lia. reflexivity.
Qed.

Theorem add_flags_bits f x i : 0 <= i < 16 -> Z.testbit (add_flags f x) i = Z.testbit f i || Z.testbit x i.
Proof. intros H. unfold add_flags. rewrite u16_bit by assumption. apply Z.lor_spec. Qed.

Theorem clear_flags_clears f x : 0 <= x < 65536 -> has_flag (clear_flags f x) x = false.
Proof.
  intros Hx. unfold has_flag. apply negb_false_iff. apply Z.eqb_eq. apply Z.bits_inj'. intros i Hi.
  rewrite Z.land_spec, Z.bits_0. destruct (Z_lt_le_dec i 16) as [Hlt|Hge].
  - rewrite clear_flags_bits by lia. destruct (Z.testbit f i), (Z.testbit x i); reflexivity.
  - unfold clear_flags. rewrite u16_bit_high by assumption. reflexivity.
Qed.

Theorem clear_flags_keeps f x y : 0 <= f < 65536 -> Z.land x y = 0 -> has_flag (clear_flags f x) y = has_flag f y.
Proof.
  intros Hf Hd. unfold has_flag. f_equal. f_equal. apply Z.bits_inj'. intros i Hi.
  rewrite !Z.land_spec. assert (Hxy : Z.testbit x i && Z.testbit y i = false).
  { rewrite <- Z.land_spec, Hd. apply Z.bits_0. }
  destruct (Z_lt_le_dec i 16) as [Hlt|Hge].
  - rewrite clear_flags_bits by lia. destruct (Z.testbit f i), (Z.testbit x i), (Z.testbit y i); try reflexivity; discriminate.
  - unfold clear_flags. rewrite u16_bit_high by assumption.
    assert (Z.testbit f i = false); [|rewrite H; reflexivity].
    destruct (Z.eq_dec f 0) as [->|Hn]; [apply Z.bits_0|]. apply Z.bits_above_log2; [lia|].
    assert (Z.log2 f < 16); [|lia]. apply Z.log2_lt_pow2; [lia|]. change (2 ^ 16) with 65536. lia.
Qed.

(* the unrepaired clear_flags: clearing kReadOnly (2) from an executable section (1) sets every other flag *)
Theorem clear_flags_pinned_refuted : clear_flags_pinned 1 2 = 65533 /\ has_flag (clear_flags_pinned 1 2) 4 = true /\ clear_flags 3 2 = 1.
Proof. repeat split; vm_compute; reflexivity. Qed.

(* C10 — for every holder the API can produce: flatten fails exactly when the sections do not fit 2^64 bytes (unbounded-integer
   layout), and otherwise code_size is that mathematical end.  The only alignment-0 section of a reachable holder is the built-in
   .text, which is always first. *)
From Coq Require Import ZArith List Bool Lia Sorted Permutation.
From Verif Require Import Sections.SectionModel Sections.SectionProofs Sections.SectionTable Sections.IdealProofs.
Import ListNotations.
Local Open Scope Z_scope.

Definition rinv2 (h : holder) : Prop :=
  Forall (fun s => (sid s = 0 /\ sorder s = INT_MIN) \/ (sid s <> 0 /\ 0 < salign s /\ INT_MIN <= sorder s)) h /\
  (exists t0, In t0 h /\ sid t0 = 0).

Lemma same_keys_rinv2 l l' : Forall2 same_keys l l' -> rinv2 l -> rinv2 l'.
Proof.
  intros HF [Ha [t0 [Hin E0]]]. split.
  - clear t0 Hin E0. induction HF as [|a b la lb [Ei [Eo [Eal _]]] _ IH]; [constructor|]. inversion Ha; subst.
    constructor; [rewrite Ei, Eo, Eal; assumption|apply IH; assumption].
  - clear Ha. induction HF as [|a b la lb [Ei _] _ IH]; [contradiction|]. destruct Hin as [->|Hin].
    + exists b. split; [left; reflexivity|congruence].
    + destruct (IH Hin) as [x [Hx Ex]]. exists x. split; [right; assumption|assumption].
Qed.

Lemma reachable_rinv2 h : reachable h -> rinv2 h.
Proof.
  intros R. induction R as [|h name al ord h' R IH Hal Hord E|h id f R IH Hf|h h' R IH E].
  - split; [repeat constructor; left; split; reflexivity|]. exists text_section. split; [left; reflexivity|reflexivity].
  - unfold new_section in E. destruct (is_zero_or_pow2 al) eqn:Ez; cbn [negb] in E; [|discriminate].
    destruct (MAX_NAME <? Z.of_nat (length name)); [discriminate|]. inversion E; subst h'; clear E.
    destruct IH as [Ha [t0 [Hin E0]]].
    assert (Hlen : 0 < Z.of_nat (length h)) by (destruct h; [contradiction|cbn [length]; lia]).
    split.
    + rewrite Forall_forall in *. intros x Hx. apply insert_sorted_in in Hx. destruct Hx as [->|Hx]; [|auto].
      right. cbn [sid salign sorder]. split; [lia|]. split; [|lia].
      destruct (is_zero_or_pow2_ok al Hal Ez) as [E1|[k [Hk ->]]]; [destruct (Z.eqb_spec al 0); lia|apply Z.pow_pos_nonneg; lia].
    + exists t0. split; [apply insert_sorted_in; right; assumption|assumption].
  - apply (same_keys_rinv2 h); [apply update_id_keys; assumption|assumption].
  - destruct (reachable_inv h R) as [_ [_ Hw]]. destruct (flatten_final_rel h h' Hw E) as [_ Hrel].
    apply (same_keys_rinv2 h); [apply flat_rel_keys; assumption|assumption].
Qed.

(* the built-in .text (id 0, order INT_MIN) is the first section in order; every other section has a positive alignment *)
Lemma reachable_tail_aligns h : reachable h -> Forall (fun s => 0 < salign s) (tl h).
Proof.
  intros R. destruct (reachable_rinv2 h R) as [Ha [t0 [Hin E0]]]. destruct (reachable_inv h R) as [Hs _].
  destruct (reachable_ids_unique h R) as [Hnd Hpos].
  destruct h as [|a t]; [constructor|]. cbn [tl].
  (* the head is the section with id 0 *)
  assert (Hhead : sid a = 0).
  { destruct Hin as [->|Hin]; [assumption|].
    unfold sorted in Hs. inversion Hs as [|? ? _ Hall]; subst. rewrite Forall_forall in Hall. specialize (Hall t0 Hin).
    rewrite Forall_forall in Ha. destruct (Ha t0 (or_intror Hin)) as [[_ Eo]|[N _]]; [|contradiction].
    destruct (Ha a (or_introl eq_refl)) as [[Ea _]|[_ [_ Hoa]]]; [assumption|].
    specialize (Hpos a (or_introl eq_refl)). unfold key_ltP in Hall. lia. }
  cbn [map] in Hnd. inversion Hnd as [|? ? Hnot _]; subst.
  rewrite Forall_forall in *. intros x Hx. destruct (Ha x (or_intror Hx)) as [[Ex _]|[_ [Hal _]]]; [|assumption].
  exfalso. apply Hnot. rewrite Hhead, <- Ex. apply in_map. assumption.
Qed.

Theorem reachable_flatten_fails_iff_too_large h : reachable h ->
  (flatten h = (ETooLarge, h) <-> W64 <= ideal_end 0 h) /\
  ((exists h', flatten h = (EOk, h')) <-> ideal_end 0 h < W64) /\
  (ideal_end 0 h < W64 -> code_size h = ideal_end 0 h) /\ (W64 <= ideal_end 0 h -> code_size h = SIZE_MAX).
Proof.
  intros R. destruct (reachable_inv h R) as [_ [_ Hwf]]. pose proof (reachable_tail_aligns h R) as Hal.
  destruct (flatten_succeeds_iff_fits h Hwf Hal) as [Hiff Hcs].
  assert (Hdec : pass1 0 h = true \/ pass1 0 h = false) by (destruct (pass1 0 h); auto).
  split; [|split; [|split]].
  - rewrite flatten_final_fail. split; [intros Hp; destruct (Z_lt_le_dec (ideal_end 0 h) W64) as [Hlt|]; [apply Hiff in Hlt; congruence|assumption]|].
    intros Hge. destruct Hdec as [Hp|Hp]; [apply Hiff in Hp; lia|assumption].
  - split.
    + intros [h' E]. apply Hiff. unfold flatten in E. destruct (pass1 0 h); [reflexivity|discriminate].
    + intros Hlt. apply Hiff in Hlt. unfold flatten. rewrite Hlt. eexists. reflexivity.
  - intros Hlt. apply Hcs. apply Hiff. assumption.
  - intros Hge. apply code_size_overflow; [assumption|]. destruct Hdec as [Hp|Hp]; [apply Hiff in Hp; lia|assumption].
Qed.

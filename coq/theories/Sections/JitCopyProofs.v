(* C10 — JitRuntime::_add's copy loop installs the same image as copy_flattened_data(kPadSectionBuffer). *)
From Coq Require Import ZArith List Bool Lia Permutation.
From Verif Require Import Sections.SectionModel Sections.SectionProofs Sections.SectionTable Sections.CopyProofs Sections.SettleProofs
  Sections.JitCopyModel Sections.SectionExamples.
Import ListNotations.
Local Open Scope Z_scope.

(* two sections do not collide, whichever comes first *)
Definition apart_sym (a b : section) : Prop :=
  real_size a = 0 \/ real_size b = 0 \/ soff a + real_size a <= soff b \/ soff b + real_size b <= soff a.

(* unique ids, and sections with different ids do not collide: a property of the SET of sections, so every walk order has it *)
Definition separated (l : list section) : Prop :=
  NoDup (map sid l) /\ forall a b, In a l -> In b l -> sid a <> sid b -> apart_sym a b.

Definition fits (n : Z) (s : section) : Prop := soff s + real_size s <= n.

Lemma separated_tail a t : separated (a :: t) -> separated t /\ forall y, In y t -> apart_sym a y.
Proof.
  intros [Hn Hs]. cbn [map] in Hn. inversion Hn as [|? ? Hnot Hn']; subst. split; [split; [assumption|]|].
  - intros x y Hx Hy. apply Hs; right; assumption.
  - intros y Hy. apply Hs; [left; reflexivity|right; assumption|]. intros E. apply Hnot. rewrite E. apply in_map. assumption.
Qed.

(* the loop, cell by cell *)
Lemma jit_copy_cells l : forall mem, Forall data_ok l -> Forall (fits (Z.of_nat (length mem))) l -> separated l ->
  length (jit_copy_loop l mem) = length mem /\
  (forall c, 0 <= c -> (forall s, In s l -> ~ (soff s <= c < soff s + real_size s)) -> cell (jit_copy_loop l mem) c = cell mem c) /\
  (forall s, In s l ->
     (forall k, 0 <= k < sbsize s -> cell (jit_copy_loop l mem) (soff s + k) = cell (sdata s) k) /\
     (forall c, soff s + sbsize s <= c < soff s + real_size s -> cell (jit_copy_loop l mem) c = 0)).
Proof.
  induction l as [|s t IH]; intros mem Hd Hf Hsep; cbn [jit_copy_loop].
  - split; [reflexivity|]. split; [intros; reflexivity|intros s []].
  - inversion Hd as [|? ? [Hlen [Hoff Hv]] Hdt]; subst. inversion Hf as [|? ? Hfs Hft]; subst.
    destruct (separated_tail s t Hsep) as [Hsept Hap]. unfold fits in Hfs.
    assert (Hb : 0 <= sbsize s) by lia.
    set (mem1 := write_at mem (soff s) (sdata s)) in *.
    assert (L1 : length mem1 = length mem) by (apply write_at_length; unfold real_size in Hfs; lia).
    assert (C1 : forall c, 0 <= c -> cell mem1 c = if (soff s <=? c) && (c <? soff s + sbsize s) then cell (sdata s) (c - soff s) else cell mem c).
    { intros c Hc. unfold mem1. rewrite write_at_cell; [|lia|unfold real_size in Hfs; lia|assumption]. rewrite Hlen. reflexivity. }
    set (mem2 := if sbsize s <? svsize s then write_at mem1 (soff s + sbsize s) (zeros (svsize s - sbsize s)) else mem1) in *.
    assert (L2 : length mem2 = length mem).
    { unfold mem2. destruct (Z.ltb_spec (sbsize s) (svsize s)); [|assumption].
      rewrite write_at_length; [assumption|lia|]. rewrite zeros_length by lia. unfold real_size in Hfs. lia. }
    assert (C2 : forall c, 0 <= c -> cell mem2 c = if (soff s + sbsize s <=? c) && (c <? soff s + real_size s) then 0 else cell mem1 c).
    { intros c Hc. unfold mem2. destruct (Z.ltb_spec (sbsize s) (svsize s)) as [Hlt|Hge].
      - rewrite write_at_cell; [|lia|rewrite zeros_length by lia; unfold real_size in Hfs; lia|assumption].
        rewrite zeros_length by lia. rewrite zeros_cell. unfold real_size.
        replace (soff s + sbsize s + (svsize s - sbsize s)) with (soff s + Z.max (svsize s) (sbsize s)) by lia. reflexivity.
      - unfold real_size. destruct (Z.leb_spec (soff s + sbsize s) c); destruct (Z.ltb_spec c (soff s + Z.max (svsize s) (sbsize s))); cbn [andb]; try reflexivity; lia. }
    rewrite <- L2 in Hft.
    destruct (IH mem2 Hdt Hft Hsept) as [IL [IU ID]].
    assert (Hlater : forall c, soff s <= c < soff s + real_size s -> forall y, In y t -> ~ (soff y <= c < soff y + real_size y)).
    { intros c Hc y Hy. destruct (Hap y Hy) as [Z0|[Z0|[F|F]]]; lia. }
    split; [lia|]. split.
    + intros c Hc Hout. rewrite IU; [|assumption|intros x Hx; apply Hout; right; assumption].
      pose proof (Hout s (or_introl eq_refl)) as Hs. rewrite C2, C1 by assumption. unfold real_size in *.
      destruct (Z.leb_spec (soff s + sbsize s) c); destruct (Z.ltb_spec c (soff s + Z.max (svsize s) (sbsize s)));
        destruct (Z.leb_spec (soff s) c); destruct (Z.ltb_spec c (soff s + sbsize s)); cbn [andb]; try reflexivity; lia.
    + intros x [<-|Hx]; [|apply ID; assumption]. split.
      * intros k Hk. rewrite IU; [|lia|apply Hlater; unfold real_size; lia]. rewrite C2, C1 by lia.
        destruct (Z.leb_spec (soff s + sbsize s) (soff s + k)); cbn [andb]; [lia|].
        destruct (Z.leb_spec (soff s) (soff s + k)); [|lia]. destruct (Z.ltb_spec (soff s + k) (soff s + sbsize s)); [|lia].
        cbn [andb]. f_equal. lia.
      * intros c Hc. rewrite IU; [|lia|apply Hlater; lia]. rewrite C2 by lia.
        destruct (Z.leb_spec (soff s + sbsize s) c); [|lia]. destruct (Z.ltb_spec c (soff s + real_size s)); [reflexivity|lia].
Qed.

(* ------------------------------------------------------------------ code->_sections as a walk over the same set *)
Lemma by_id_unique' h s : NoDup (map sid h) -> In s h -> by_id h (sid s) = Some s.
Proof.
  induction h as [|a t IH]; intros Hn Hin; [contradiction|]. cbn [map] in Hn. inversion Hn as [|? ? Hnot Hn']; subst.
  cbn [by_id]. destruct Hin as [->|Hin]; [rewrite Z.eqb_refl; reflexivity|].
  destruct (Z.eqb_spec (sid a) (sid s)) as [E|N]; [|apply IH; assumption].
  exfalso. apply Hnot. rewrite E. apply in_map. assumption.
Qed.

Lemma by_id_list_spec h : forall n start,
  (forall s, In s (flat_map (fun i => match by_id h (Z.of_nat i) with Some s => [s] | None => [] end) (seq start n)) ->
             In s h /\ Z.of_nat start <= sid s < Z.of_nat (start + n)) /\
  NoDup (map sid (flat_map (fun i => match by_id h (Z.of_nat i) with Some s => [s] | None => [] end) (seq start n))).
Proof.
  induction n as [|n IH]; intros start; cbn [seq flat_map]; [split; [intros s []|constructor]|].
  destruct (IH (S start)) as [I1 I2]. split.
  - intros s Hin. apply in_app_or in Hin. destruct Hin as [Hin|Hin].
    + destruct (by_id h (Z.of_nat start)) as [s0|] eqn:E; [|contradiction]. destruct Hin as [<-|[]].
      destruct (by_id_in h _ _ E). split; [assumption|lia].
    + destruct (I1 s Hin). split; [assumption|lia].
  - rewrite map_app. destruct (by_id h (Z.of_nat start)) as [s0|] eqn:E; cbn [map app]; [|assumption].
    constructor; [|assumption]. intros Hin. apply in_map_iff in Hin. destruct Hin as [x [Ex Hx]].
    destruct (I1 x Hx) as [_ Hr]. destruct (by_id_in h _ _ E) as [Es0 _]. lia.
Qed.

Lemma sections_by_id_in h s : NoDup (map sid h) -> (forall x, In x h -> 0 <= sid x < Z.of_nat (length h)) ->
  (In s (sections_by_id h) <-> In s h).
Proof.
  intros Hnd Hr. unfold sections_by_id. split.
  - intros H. apply (by_id_list_spec h (length h) 0). assumption.
  - intros H. apply in_flat_map. exists (Z.to_nat (sid s)). destruct (Hr s H). split; [apply in_seq; lia|].
    rewrite Z2Nat.id by lia. rewrite (by_id_unique' h s Hnd H). left. reflexivity.
Qed.

(* JitRuntime::_add's loop and copy_flattened_data(kPadSectionBuffer) install the same bytes: any holder with unique ids in range,
   proper buffers, a collision-free layout, everything inside the span *)
Theorem jit_copy_agrees_generic h mem m1 :
  NoDup (map sid h) -> (forall x, In x h -> 0 <= sid x < Z.of_nat (length h)) -> Forall data_ok h -> disjoint_layout h ->
  (forall s, In s h -> soff s + real_size s <= Z.of_nat (length mem)) ->
  copy_flat h mem (Z.of_nat (length mem)) true false = (EOk, m1) ->
  length (jit_copy h mem) = length m1 /\ forall c, 0 <= c -> cell (jit_copy h mem) c = cell m1 c.
Proof.
  intros Hnd Hrange Hd Hdis Hb Ec. set (est := Z.of_nat (length mem)) in *.
  pose proof (sections_by_id_in h) as Hin.
  assert (Hd2 : Forall data_ok (sections_by_id h)).
  { rewrite Forall_forall in *. intros s Hs. apply Hd. apply Hin; assumption. }
  assert (Hf2 : Forall (fits (Z.of_nat (length mem))) (sections_by_id h)).
  { rewrite Forall_forall. intros s Hs. apply Hin in Hs; [|assumption|assumption]. unfold fits. apply Hb. assumption. }
  assert (Hsep : separated (sections_by_id h)).
  { split; [apply (by_id_list_spec h (length h) 0)|]. intros a b Ha Hb' Hne.
    apply Hin in Ha; [|assumption|assumption]. apply Hin in Hb'; [|assumption|assumption].
    destruct (ForallOrdPairs_In Hdis a b Ha Hb') as [E|[[Z0|F]|[Z0|F]]]; unfold apart_sym; [subst; contradiction|auto|auto|auto|auto]. }
  destruct (jit_copy_cells (sections_by_id h) mem Hd2 Hf2 Hsep) as [JL [JU JD]]. fold (jit_copy h mem) in JL, JU, JD.
  destruct (copy_flat_exact h mem est true false m1 Hd Hdis ltac:(unfold est; lia) Ec) as [CL [_ [CD [CZ [_ CU]]]]].
  split; [congruence|]. intros c Hc.
  assert (Hw : forall s, In s h -> wend true est s = soff s + real_size s).
  { intros s Hs. pose proof (Hb s Hs) as H1. fold est in H1. rewrite Forall_forall in Hd. destruct (Hd s Hs) as [Hl [Ho Hv]].
    unfold wend, pad_len, real_size in *. cbn [andb]. destruct (Z.ltb_spec (sbsize s) (svsize s)); lia. }
  destruct (existsb (fun s => (soff s <=? c) && (c <? soff s + real_size s)) h) eqn:Ex.
  - apply existsb_exists in Ex. destruct Ex as [s [Hs Hr]]. apply andb_true_iff in Hr. destruct Hr as [H1 H2].
    apply Z.leb_le in H1. apply Z.ltb_lt in H2.
    assert (Hs2 : In s (sections_by_id h)) by (apply Hin; assumption).
    destruct (JD s Hs2) as [JD1 JD2]. destruct (Z_lt_le_dec c (soff s + sbsize s)) as [Hd1|Hz].
    + replace c with (soff s + (c - soff s)) by ring. rewrite JD1 by lia. symmetry. apply CD; [assumption|lia].
    + rewrite JD2 by lia. symmetry. apply (CZ s Hs). rewrite (Hw s Hs). lia.
  - assert (Hnone : forall s, In s h -> ~ (soff s <= c < soff s + real_size s)).
    { intros s Hs Hr. assert (existsb (fun s => (soff s <=? c) && (c <? soff s + real_size s)) h = true); [|congruence].
      apply existsb_exists. exists s. split; [assumption|]. apply andb_true_iff. split; [apply Z.leb_le|apply Z.ltb_lt]; lia. }
    rewrite JU; [|assumption|intros s Hs; apply Hnone; apply Hin; assumption].
    symmetry. apply CU; [assumption| |left; reflexivity]. intros s Hs. rewrite (Hw s Hs). apply Hnone. assumption.
Qed.

Theorem jit_copy_agrees h0 h mem m1 : reachable h0 -> data_len_ok h0 -> flatten h0 = (EOk, h) ->
  code_size h <= Z.of_nat (length mem) ->
  copy_flat h mem (Z.of_nat (length mem)) true false = (EOk, m1) ->
  length (jit_copy h mem) = length m1 /\ forall c, 0 <= c -> cell (jit_copy h mem) c = cell m1 c.
Proof.
  intros R Hdl Ef Hest Ec.
  pose proof (r_flatten h0 h R Ef) as Rh. destruct (reachable_inv h0 R) as [_ [_ Hwf]].
  destruct (reachable_ids_unique h Rh) as [Hnd Hpos].
  assert (Hrange : forall x, In x h -> 0 <= sid x < Z.of_nat (length h)).
  { intros x Hx. destruct (reachable_inv h Rh) as [_ [Hi _]].
    assert (In (sid x) (ids_upto (length h))) by (eapply Permutation_in; [exact Hi|apply in_map; assumption]).
    apply in_ids_upto in H. assumption. }
  destruct (final_copy_ready h0 h Hwf Hdl Ef) as [Hd Hdis].
  destruct (final_code_size_is_end h0 h Hwf Ef) as [_ [Hb _]].
  apply jit_copy_agrees_generic; try assumption. intros s Hs. destruct (Hb s Hs) as [_ [H1 _]]. lia.
Qed.

(* non-vacuity: the example holder, a 104-cell span *)
Example jit_copy_example : exists h m1, flatten SectionExamples.ex_h3 = (EOk, h) /\
  copy_flat h (repeat 205 104) 104 true false = (EOk, m1) /\ jit_copy h (repeat 205 104) = m1.
Proof. eexists. eexists. split; [vm_compute; reflexivity|]. split; vm_compute; reflexivity. Qed.

(* code->_sections (the by-id walk) visits every section of the holder exactly once *)
Theorem sections_by_id_permutation h : reachable h -> Permutation (sections_by_id h) h.
Proof.
  intros R. destruct (reachable_ids_unique h R) as [Hnd Hpos]. destruct (reachable_inv h R) as [_ [Hi _]].
  assert (Hrange : forall x, In x h -> 0 <= sid x < Z.of_nat (length h)).
  { intros x Hx. assert (In (sid x) (ids_upto (length h))) by (eapply Permutation_in; [exact Hi|apply in_map; assumption]).
    apply in_ids_upto in H. assumption. }
  apply NoDup_Permutation.
  - apply (NoDup_map_inv sid). apply (by_id_list_spec h (length h) 0).
  - apply (NoDup_map_inv sid). assumption.
  - intros x. apply sections_by_id_in; assumption.
Qed.

(* C10 — the size_t-typed parts of the section functions for a target whose size_t has `sz` bits (32 or 64).
   Offsets and virtual sizes are uint64_t on every target (flatten / pass 1 / the layout do not depend on size_t);
   size_t appears in code_size()'s result, in buffer sizes / dst_size, and in two casts of copy_flattened_data:
     size_t(section->offset())        after `offset() > dst_size` was refused, so nothing is lost;
     size_t(section->virtual_size())  inside the padding computation, which is done in size_t arithmetic.
   SectionModel.v is the instance sz = 64.  No proofs in this file. *)
From Coq Require Import ZArith List Bool.
From Verif Require Import Sections.SectionModel.
Import ListNotations.
Local Open Scope Z_scope.

Definition smax (sz : Z) : Z := 2 ^ sz - 1.                         (* SIZE_MAX *)

(* if ((sizeof(uint64_t) > sizeof(size_t) && offset > uint64_t(SIZE_MAX)) || of) return SIZE_MAX; return size_t(offset); *)
Definition code_size_w (sz : Z) (h : holder) : Z :=
  let (off, ovf) := cs_walk true 0 false h in
  if ovf || (smax sz <? off) then smax sz else off.

(* padding_size = min<size_t>(dst_size - offset, size_t(section->virtual_size())) - buffer_size, in size_t arithmetic *)
Definition pad_w (sz : Z) (ps : bool) (dst : Z) (s : section) : Z :=
  if ps && (sbsize s <? svsize s)
  then (Z.min (dst - soff s) (svsize s mod 2 ^ sz) - sbsize s) mod 2 ^ sz else 0.

Fixpoint copy_loop_w (sz : Z) (l : list section) (mem : list Z) (dst_size : Z) (pad_section : bool) (e : Z) : err * list Z * Z :=
  match l with
  | [] => (EOk, mem, e)
  | s :: t =>
    if dst_size <? soff s then (EInvalidArgument, mem, e)
    else if dst_size - soff s <? sbsize s then (EInvalidArgument, mem, e)
    else
      let mem1 := write_at mem (soff s) (sdata s) in
      let pad := pad_w sz pad_section dst_size s in
      let mem2 := write_at mem1 (soff s + sbsize s) (zeros pad) in
      copy_loop_w sz t mem2 dst_size pad_section (Z.max e (soff s + sbsize s + pad))
  end.

Definition copy_flat_w (sz : Z) (h : holder) (mem : list Z) (dst_size : Z) (pad_section pad_target : bool) : err * list Z :=
  match copy_loop_w sz h mem dst_size pad_section 0 with
  | (EOk, mem1, e) =>
    if (e <? dst_size) && pad_target then (EOk, write_at mem1 e (zeros (dst_size - e))) else (EOk, mem1)
  | (er, mem1, _) => (er, mem1)
  end.

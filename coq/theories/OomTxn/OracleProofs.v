(* C15 - proofs about the oracle-threaded models of OracleModel.v.  Every statement inside a Section is quantified over the
   allocation oracle  ok : nat -> bool  (a Section variable, never an assumption): it holds for every failure position and for
   every multi-failure pattern. *)
From Coq Require Import ZArith List Bool Lia Permutation Arith.
From Verif Require Import OomTxn.OracleModel.
Import ListNotations.
Local Open Scope Z_scope.

(* ---------------------------------------------------------------- size arithmetic *)
Lemma bitlen_gt x : 0 < x -> x < 2 ^ bitlen x.
Proof. intros H. unfold bitlen. pose proof (Z.log2_spec x H). replace (Z.log2 x + 1) with (Z.succ (Z.log2 x)) by lia. lia. Qed.

Lemma bitlen_pos x : 0 < x -> 1 <= bitlen x.
Proof. intros H. unfold bitlen. pose proof (Z.log2_nonneg x). lia. Qed.

Lemma grow_rule_ge l : 1 <= l -> l <= grow_rule l.
Proof.
  intros H. unfold grow_rule.
  destruct (l <? 1) eqn:E1; [apply Z.ltb_lt in E1; lia|].
  destruct (l <? 2) eqn:E2; [apply Z.ltb_lt in E2; lia|].
  destruct (l <? 4) eqn:E3; [apply Z.ltb_lt in E3; lia|].
  destruct (l <? 6) eqn:E4; [apply Z.ltb_lt in E4; lia|].
  destruct (l <? 8) eqn:E5; [apply Z.ltb_lt in E5; lia|]. lia.
Qed.

Lemma expand_bytes_ge bs : 0 < bs -> bs <= expand_bytes bs.
Proof.
  intros H. unfold expand_bytes, grow_threshold.
  destruct (bs <=? 16777216) eqn:E.
  - set (x := Z.max (bs - 1) 1). assert (Hx : 0 < x) by (unfold x; lia).
    pose proof (bitlen_gt x Hx) as G. pose proof (bitlen_pos x Hx) as P.
    pose proof (grow_rule_ge (bitlen x) P) as R.
    assert (2 ^ bitlen x <= 2 ^ grow_rule (bitlen x)) by (apply Z.pow_le_mono_r; lia).
    unfold x in *. lia.
  - apply Z.leb_gt in E.
    pose proof (Z.div_mod (bs + 1 + 16777216 - 1) 16777216 ltac:(lia)).
    pose proof (Z.mod_pos_bound (bs + 1 + 16777216 - 1) 16777216 ltac:(lia)). lia.
Qed.

Lemma slot_size_ge s : 0 < s -> s <= slot_size s.
Proof.
  intros H. unfold slot_size. destruct (s <=? 2048); [|lia].
  set (x := Z.max (s - 1) 15). assert (Hx : 0 < x) by (unfold x; lia).
  pose proof (bitlen_gt x Hx). unfold x in *. lia.
Qed.

(* multiply-shift division: exact for every h < 2^n under the row criterion *)
Lemma mulshift_div_exact p r s n h :
  0 < p -> 0 <= n -> 0 <= s ->
  0 <= r * p - 2 ^ s ->
  (r * p - 2 ^ s) * 2 ^ n <= 2 * 2 ^ s ->
  ((2 ^ n / p) * p - 1) * (r * p - 2 ^ s) < 2 ^ s ->
  0 <= h < 2 ^ n ->
  (h * r) / 2 ^ s = h / p.
Proof.
  intros Hp Hn Hs He0 He1 He2 Hh.
  set (e := r * p - 2 ^ s) in *.
  assert (P2s : 0 < 2 ^ s) by (apply Z.pow_pos_nonneg; lia).
  assert (P2n : 0 < 2 ^ n) by (apply Z.pow_pos_nonneg; lia).
  pose proof (Z.div_mod h p ltac:(lia)) as DM. pose proof (Z.mod_pos_bound h p Hp) as MB.
  set (q := h / p) in *. set (t := h mod p) in *.
  assert (RP : r * p = 2 ^ s + e) by (unfold e; lia).
  symmetry. apply Z.div_unique with (r := h * r - q * 2 ^ s); [|ring].
  left. split.
  - (* q * 2^s <= h * r  <=  q * 2^s * p <= h * r * p *)
    assert (q * 2 ^ s * p <= h * r * p).
    { replace (h * r * p) with (h * (r * p)) by ring. rewrite RP. nia. }
    nia.
  - (* h * r - q * 2^s < 2^s  <=  h*r*p < (q+1) * 2^s * p *)
    assert (HE : h * e < (p - t) * 2 ^ s).
    { destruct (Z_le_gt_dec 2 (p - t)) as [G|G].
      - assert (A1 : 2 * 2 ^ s <= (p - t) * 2 ^ s) by (apply Z.mul_le_mono_nonneg_r; lia).
        destruct (Z.eq_dec e 0) as [E0|E0].
        + rewrite E0, Z.mul_0_r. nia.
        + assert (A2 : h * e < 2 ^ n * e) by (apply Z.mul_lt_mono_pos_r; lia). lia.
      - assert (t = p - 1) by lia.
        assert (Q : (q + 1) * p <= 2 ^ n) by nia.
        assert (q + 1 <= 2 ^ n / p) by (apply Z.div_le_lower_bound; lia).
        assert (h <= (2 ^ n / p) * p - 1) by nia.
        assert (h * e <= ((2 ^ n / p) * p - 1) * e) by nia.
        nia. }
    assert (h * r * p < (q + 1) * 2 ^ s * p).
    { replace (h * r * p) with (h * (r * p)) by ring. rewrite RP. nia. }
    nia.
Qed.

Lemma calc_mod32_correct p r s h :
  rcp_row_exact (p, r, s) = true -> 0 <= h < 2 ^ 32 -> calc_mod32 p r s h = h mod p.
Proof.
  intros C Hh. unfold rcp_row_exact in C.
  repeat (apply andb_prop in C; destruct C as [C ?]).
  repeat match goal with
         | H : (_ <? _) = true |- _ => apply Z.ltb_lt in H
         | H : (_ <=? _) = true |- _ => apply Z.leb_le in H
         end.
  assert (D : (h * r) / 2 ^ s = h / p) by (apply (mulshift_div_exact p r s 32 h); auto; lia).
  unfold calc_mod32.
  assert (P32 : 2 ^ 32 * 2 ^ 32 = 2 ^ 64) by reflexivity.
  rewrite (Z.mod_small (h * r) (2 ^ 64)) by nia.
  rewrite D.
  pose proof (Z.div_mod h p ltac:(lia)) as DM. pose proof (Z.mod_pos_bound h p ltac:(lia)) as MB.
  assert (0 <= h / p <= h) by (split; [apply Z.div_pos; lia | apply Z.div_le_upper_bound; nia]).
  rewrite (Z.mod_small (h / p) (2 ^ 32)) by lia.
  replace (h - h / p * p) with (h mod p) by lia.
  apply Z.mod_small. lia.
Qed.

(* ---------------------------------------------------------------- ArenaVector *)
Section VecProofs.
Variable ok : nat -> bool.

Definition vec_inv (v : vec) : Prop := vsize v <= v_cap v.

Definition reserve_post (v : vec) (need : Z) (k : nat) (r : result) (v' : vec) (k' : nat) : Prop :=
  (k <= k' <= S k)%nat /\
  ((r = Ok /\ v_items v' = v_items v /\ need <= v_cap v' /\ vec_inv v') \/ (r = Oom /\ v' = v)).

Lemma vsize_nonneg v : 0 <= vsize v.
Proof. unfold vsize. lia. Qed.

Lemma reserve_bytes_post isz v need bs k r v' k' :
  0 < isz -> vec_inv v -> vsize v <= need -> 0 < need -> need * isz <= bs ->
  vec_reserve_bytes ok isz v bs k = (r, v', k') -> reserve_post v need k r v' k'.
Proof.
  intros Hi Hv Hs Hn Hb E. unfold vec_reserve_bytes, request in E.
  destruct (ok k); inversion E; subst; clear E; split; try lia.
  - left. cbn. repeat split; trivial.
    + apply Z.div_le_lower_bound; [lia|]. pose proof (slot_size_ge bs ltac:(nia)). nia.
    + unfold vec_inv, vsize in *. cbn. 
      assert (need <= slot_size bs / isz).
      { apply Z.div_le_lower_bound; [lia|]. pose proof (slot_size_ge bs ltac:(nia)). nia. }
      lia.
  - right. auto.
Qed.

Lemma reserve_grow_post isz v n k r v' k' :
  0 < isz -> vec_inv v -> vsize v <= n ->
  vec_reserve_grow ok isz v n k = (r, v', k') -> reserve_post v n k r v' k'.
Proof.
  intros Hi Hv Hs E. unfold vec_reserve_grow in E.
  destruct (n <=? v_cap v) eqn:C.
  - apply Z.leb_le in C. inversion E; subst. split; [lia|]. left. auto.
  - apply Z.leb_gt in C. destruct (max_items <=? n).
    + inversion E; subst. split; [lia|]. right; auto.
    + pose proof (vsize_nonneg v). unfold vec_inv in Hv.
      eapply reserve_bytes_post; eauto; try lia. apply expand_bytes_ge. nia.
Qed.

Lemma reserve_fit_post isz v n k r v' k' :
  0 < isz -> vec_inv v -> vsize v <= n ->
  vec_reserve_fit ok isz v n k = (r, v', k') -> reserve_post v n k r v' k'.
Proof.
  intros Hi Hv Hs E. unfold vec_reserve_fit in E.
  destruct (n <=? v_cap v) eqn:C.
  - apply Z.leb_le in C. inversion E; subst. split; [lia|]. left. auto.
  - apply Z.leb_gt in C. destruct (max_items <=? n).
    + inversion E; subst. split; [lia|]. right; auto.
    + pose proof (vsize_nonneg v). unfold vec_inv in Hv.
      eapply reserve_bytes_post; eauto; lia.
Qed.

Lemma reserve_one_post isz v k r v' k' :
  0 < isz -> vec_inv v ->
  vec_reserve_one ok isz v k = (r, v', k') -> reserve_post v (vsize v + 1) k r v' k'.
Proof.
  intros Hi Hv E. unfold vec_reserve_one in E. destruct (vsize v =? v_cap v) eqn:C.
  - eapply reserve_grow_post; eauto. lia.
  - apply Z.eqb_neq in C. inversion E; subst. split; [lia|]. left. unfold vec_inv in *. repeat split; auto; lia.
Qed.

Lemma reserve_additional_post isz v n k r v' k' :
  0 < isz -> vec_inv v -> 0 <= n ->
  vec_reserve_additional ok isz v n k = (r, v', k') -> reserve_post v (vsize v + n) k r v' k'.
Proof.
  intros Hi Hv Hn E. unfold vec_reserve_additional in E. destruct (n <=? v_cap v - vsize v) eqn:C.
  - apply Z.leb_le in C. inversion E; subst. split; [lia|]. left. repeat split; auto; lia.
  - eapply reserve_grow_post; eauto. lia.
Qed.

Lemma insert_at_length {A} n (x : A) l : length (insert_at n x l) = S (length l).
Proof. revert n; induction l; intros [|n]; cbn; auto. Qed.

Lemma zeros_length n : length (zeros n) = Z.to_nat n.
Proof. apply repeat_length. Qed.

Lemma removelast_length_le {A} (l : list A) : (length (removelast l) <= length l)%nat.
Proof. induction l as [|a [|b t]]; cbn in *; lia. Qed.

Definition vop_wf (op : vop) : Prop :=
  match op with VReserveAdd n => 0 <= n | _ => True end.

(* length of the abstract result *)
Lemma vec_spec_length op l :
  Z.of_nat (length (vec_spec op l)) <=
  match op with
  | VAppend _ | VPrepend _ | VInsert _ _ => Z.of_nat (length l) + 1
  | VResizeGrow n | VResizeFit n => Z.max n 0
  | _ => Z.of_nat (length l)
  end.
Proof.
  destruct op; cbn [vec_spec]; try lia.
  - rewrite app_length. cbn. lia.
  - cbn. lia.
  - rewrite insert_at_length. lia.
  - destruct (n <=? Z.of_nat (length l)) eqn:C.
    + apply Z.leb_le in C. rewrite firstn_length. lia.
    + apply Z.leb_gt in C. rewrite app_length, zeros_length. lia.
  - destruct (n <=? Z.of_nat (length l)) eqn:C.
    + apply Z.leb_le in C. rewrite firstn_length. lia.
    + apply Z.leb_gt in C. rewrite app_length, zeros_length. lia.
  - cbn. lia.
  - pose proof (removelast_length_le l). lia.
Qed.

Ltac fin SL :=
  unfold vec_inv, vsize in *;
  match type of SL with context [length (vec_spec ?o ?l)] => generalize dependent (length (vec_spec o l)); intros end; lia.

Theorem vec_step_atomic isz op v k r v' k' :
  0 < isz -> vop_wf op -> vec_inv v ->
  vec_step ok isz op v k = (r, v', k') ->
  (k <= k' <= S k)%nat /\ r <> Invalid /\ vec_inv v' /\
  (r = Oom -> v' = v) /\
  (r = Ok -> v_items v' = vec_spec op (v_items v)).
Proof.
  intros Hi Hw Hv E.
  assert (GEN : forall need r1 v1 k1 (P : reserve_post v need k r1 v1 k1),
             (match r1 with Ok => (Ok, with_items v1 (vec_spec op (v_items v1)), k1) | _ => (r1, v, k1) end) = (r, v', k') ->
             Z.of_nat (length (vec_spec op (v_items v))) <= Z.max need (vsize v) ->
             (k <= k' <= S k)%nat /\ r <> Invalid /\ vec_inv v' /\ (r = Oom -> v' = v) /\ (r = Ok -> v_items v' = vec_spec op (v_items v))).
  { intros need r1 v1 k1 [Hk [[-> [Hit [Hc Hinv]]] | [-> ->]]] Q L; inversion Q; subst; clear Q.
    - split; [lia|]. split; [discriminate|]. unfold vec_inv, vsize, with_items in *. cbn [v_items v_cap]. rewrite Hit in *.
      repeat split; auto; try lia. discriminate.
    - split; [lia|]. split; [discriminate|]. repeat split; auto. discriminate. }
  pose proof (vec_spec_length op (v_items v)) as SL.
  destruct op; cbn [vec_step] in E; cbv beta iota in SL.
  - destruct (vec_reserve_one ok isz v k) as [[r1 v1] k1] eqn:R. eapply GEN; [eapply reserve_one_post; eauto | exact E | fin SL].
  - destruct (vec_reserve_one ok isz v k) as [[r1 v1] k1] eqn:R. eapply GEN; [eapply reserve_one_post; eauto | exact E | fin SL].
  - destruct (vec_reserve_one ok isz v k) as [[r1 v1] k1] eqn:R. eapply GEN; [eapply reserve_one_post; eauto | exact E | fin SL].
  - destruct (v_cap v <? n) eqn:C.
    + apply Z.ltb_lt in C. destruct (vec_reserve_grow ok isz v n k) as [[r1 v1] k1] eqn:R.
      eapply (GEN n); [eapply reserve_grow_post; eauto; unfold vec_inv in Hv; lia | exact E | fin SL].
    + apply Z.ltb_ge in C. eapply (GEN (v_cap v) Ok v k); [ split; [lia|]; left; repeat split; auto; lia | exact E | fin SL].
  - destruct (v_cap v <? n) eqn:C.
    + apply Z.ltb_lt in C. destruct (vec_reserve_fit ok isz v n k) as [[r1 v1] k1] eqn:R.
      eapply (GEN n); [eapply reserve_fit_post; eauto; unfold vec_inv in Hv; lia | exact E | fin SL].
    + apply Z.ltb_ge in C. eapply (GEN (v_cap v) Ok v k); [ split; [lia|]; left; repeat split; auto; lia | exact E | fin SL].
  - pose proof (reserve_additional_post isz v n k r v' k' Hi Hv Hw E) as [Hk [[-> [Hit [Hc Hinv]]] | [-> ->]]].
    + split; [lia|]. split; [discriminate|]. repeat split; auto; try discriminate.
    + split; [lia|]. split; [discriminate|]. repeat split; auto; try discriminate.
  - destruct (Z_le_gt_dec (vsize v) n).
    + pose proof (reserve_fit_post isz v n k r v' k' Hi Hv l E) as [Hk [[-> [Hit [Hc Hinv]]] | [-> ->]]].
      * split; [lia|]. split; [discriminate|]. repeat split; auto; try discriminate.
      * split; [lia|]. split; [discriminate|]. repeat split; auto; try discriminate.
    + unfold vec_reserve_fit in E. unfold vec_inv in Hv. replace (n <=? v_cap v) with true in E by (symmetry; apply Z.leb_le; lia).
      inversion E; subst. split; [lia|]. split; [discriminate|]. repeat split; auto; try discriminate.
  - destruct (Z_le_gt_dec (vsize v) n).
    + pose proof (reserve_grow_post isz v n k r v' k' Hi Hv l E) as [Hk [[-> [Hit [Hc Hinv]]] | [-> ->]]].
      * split; [lia|]. split; [discriminate|]. repeat split; auto; try discriminate.
      * split; [lia|]. split; [discriminate|]. repeat split; auto; try discriminate.
    + unfold vec_reserve_grow in E. unfold vec_inv in Hv. replace (n <=? v_cap v) with true in E by (symmetry; apply Z.leb_le; lia).
      inversion E; subst. split; [lia|]. split; [discriminate|]. repeat split; auto; try discriminate.
  - inversion E; subst. split; [lia|]. split; [discriminate|]. repeat split; auto.
    + unfold vec_inv, vsize, with_items in *. cbn. lia.
    + discriminate.
  - inversion E; subst. split; [lia|]. split; [discriminate|]. repeat split; auto.
    + unfold vec_inv, vsize, with_items in *. cbn [v_items v_cap vec_spec]. pose proof (removelast_length_le (v_items v)). lia.
    + discriminate.
Qed.

Lemma vec_step_ok_failure_free isz op v k v' k' :
  vec_step ok isz op v k = (Ok, v', k') -> vec_step all_ok isz op v k = (Ok, v', k').
Proof.
  destruct op; cbn [vec_step]; unfold vec_reserve_one, vec_reserve_additional, vec_reserve_grow, vec_reserve_fit, vec_reserve_bytes, request, all_ok;
    repeat match goal with |- context [if ?c then _ else _] => destruct c end; intros E; try discriminate; auto.
Qed.

Fixpoint vec_replay (ops : list vop) (rs : list result) (l : list Z) : list Z :=
  match ops, rs with
  | op :: ops', r :: rs' => vec_replay ops' rs' (match r with Ok => vec_spec op l | _ => l end)
  | _, _ => l
  end.

Theorem vec_run_failed_ops_vanish isz ops : forall v k rs v' k',
  0 < isz -> Forall vop_wf ops -> vec_inv v ->
  vec_run ok isz ops v k = (rs, v', k') ->
  v_items v' = vec_replay ops rs (v_items v) /\ vec_inv v' /\ length rs = length ops /\ ~ In Invalid rs /\ (k <= k' <= k + length ops)%nat.
Proof.
  induction ops as [|op t IH]; intros v k rs v' k' Hi Hw Hv E; cbn [vec_run] in E.
  - inversion E; subst. cbn. repeat split; auto; lia.
  - destruct (vec_step ok isz op v k) as [[r v1] k1] eqn:S1.
    destruct (vec_run ok isz t v1 k1) as [[rs2 v2] k2] eqn:S2.
    inversion E; subst; clear E. inversion Hw; subst.
    destruct (vec_step_atomic isz op v k r v1 k1 Hi H1 Hv S1) as [Hk [Hni [Hv1 [Hoom Hok]]]].
    destruct (IH v1 k1 rs2 v' k' Hi H2 Hv1 S2) as [A [B [C [D K]]]].
    cbn [vec_replay length]. repeat split; auto; try lia.
    + rewrite A. destruct r; [rewrite Hok by auto; auto | rewrite Hoom by auto; auto | congruence].
    + intros [F|F]; [congruence | auto].
Qed.

End VecProofs.

(* ---------------------------------------------------------------- ArenaHash *)
Lemma upd_nth_length {A} n (f : A -> A) l : length (upd_nth n f l) = length l.
Proof. revert n; induction l; intros [|n]; cbn; auto. Qed.

Lemma nth_upd_nth_same {A} n (f : A -> A) l d : (n < length l)%nat -> nth n (upd_nth n f l) d = f (nth n l d).
Proof. revert n; induction l; intros [|n] H; cbn in *; try lia; auto. apply IHl. lia. Qed.

Lemma nth_upd_nth_other {A} n m (f : A -> A) l d : n <> m -> nth m (upd_nth n f l) d = nth m l d.
Proof. revert n m; induction l; intros [|n] [|m] H; cbn; auto; try congruence. Qed.

Lemma concat_upd_cons n (x : Z) bs : (n < length bs)%nat -> Permutation (concat (upd_nth n (cons x) bs)) (x :: concat bs).
Proof.
  revert n; induction bs as [|b t IH]; intros [|n] H; cbn in *; try lia.
  - apply Permutation_refl.
  - eapply Permutation_trans; [apply Permutation_app_head; apply IH; lia|].
    apply Permutation_sym. apply Permutation_middle.
Qed.

Lemma remove_first_perm x l : In x l -> Permutation (x :: remove_first x l) l.
Proof.
  induction l as [|a t IH]; intros H; cbn in *; [tauto|].
  destruct (a =? x) eqn:E.
  - apply Z.eqb_eq in E. subst. apply Permutation_refl.
  - apply Z.eqb_neq in E. destruct H as [H|H]; [congruence|].
    eapply Permutation_trans; [apply perm_swap|]. apply perm_skip. auto.
Qed.

Lemma remove_first_In x y l : In y (remove_first x l) -> In y l.
Proof.
  induction l as [|a t IH]; cbn; [tauto|]. destruct (a =? x); cbn; intros H; [auto|]. destruct H; auto.
Qed.

Lemma concat_upd_remove n x bs : In x (nth n bs []) -> Permutation (x :: concat (upd_nth n (remove_first x) bs)) (concat bs).
Proof.
  revert n; induction bs as [|b t IH]; intros [|n] H; cbn in *; try tauto.
  - change (x :: remove_first x b ++ concat t) with ((x :: remove_first x b) ++ concat t).
    apply Permutation_app_tail. apply remove_first_perm; auto.
  - eapply Permutation_trans; [apply Permutation_middle|]. apply Permutation_app_head. apply IH; auto.
Qed.

Lemma in_concat_nth (x : Z) bs : In x (concat bs) <-> exists i, In x (nth i bs []).
Proof.
  induction bs as [|b t IH]; cbn.
  - split; [tauto|]. intros [i H]. destruct i; auto.
  - rewrite in_app_iff, IH. split.
    + intros [H|[i H]]; [exists 0%nat; auto | exists (S i); auto].
    + intros [[|i] H]; [left; auto | right; exists i; auto].
Qed.

Lemma existsb_eqb_In key l : existsb (Z.eqb key) l = true <-> In key l.
Proof.
  rewrite existsb_exists. split.
  - intros [x [H E]]. apply Z.eqb_eq in E. subst; auto.
  - intros H. exists key. split; auto. apply Z.eqb_refl.
Qed.

(* --- redistribution is a permutation --- *)
Lemma concat_mark (F : nat -> list Z) i0 x (is : list nat) :
  NoDup is ->
  (In i0 is -> Permutation (concat (map (fun i => if (i0 =? i)%nat then x :: F i else F i) is)) (x :: concat (map F is))) /\
  (~ In i0 is -> concat (map (fun i => if (i0 =? i)%nat then x :: F i else F i) is) = concat (map F is)).
Proof.
  induction is as [|a t IH]; intros ND; cbn.
  - split; [tauto | auto].
  - inversion ND as [|? ? Hn ND']; subst. destruct (IH ND') as [IH1 IH2]. split.
    + intros [->|H].
      * rewrite Nat.eqb_refl. rewrite IH2 by auto. apply Permutation_refl.
      * destruct (i0 =? a)%nat eqn:E; [apply Nat.eqb_eq in E; subst; tauto|].
        eapply Permutation_trans; [apply Permutation_app_head; apply IH1; auto|].
        apply Permutation_sym. apply Permutation_middle.
    + intros H. destruct (i0 =? a)%nat eqn:E; [apply Nat.eqb_eq in E; subst; tauto|].
      rewrite IH2; auto.
Qed.

Lemma concat_map_filter_perm (f : Z -> nat) n keys :
  (forall k, In k keys -> (f k < n)%nat) ->
  Permutation (concat (map (fun i => filter (fun k => (f k =? i)%nat) keys) (seq 0 n))) keys.
Proof.
  induction keys as [|k0 t IH]; intros H.
  - cbn [filter]. induction (seq 0 n); cbn; auto.
  - assert (E : map (fun i => filter (fun k => (f k =? i)%nat) (k0 :: t)) (seq 0 n) =
                map (fun i => if (f k0 =? i)%nat then k0 :: filter (fun k => (f k =? i)%nat) t else filter (fun k => (f k =? i)%nat) t) (seq 0 n)).
    { apply map_ext. intros i. cbn. reflexivity. }
    rewrite E.
    destruct (concat_mark (fun i => filter (fun k => (f k =? i)%nat) t) (f k0) k0 (seq 0 n) (seq_NoDup n 0)) as [P _].
    eapply Permutation_trans; [apply P; apply in_seq; pose proof (H k0 (or_introl eq_refl)); lia|].
    apply perm_skip. apply IH. intros k Hk. apply H. right; auto.
Qed.

Lemma untag_filter n zi keys :
  map snd (filter (fun p : Z * Z => fst p =? zi) (map (fun key => (key mod n, key)) keys)) = filter (fun key => key mod n =? zi) keys.
Proof. induction keys as [|a t IH]; cbn; auto. destruct (a mod n =? zi); cbn; rewrite IH; auto. Qed.

Lemma redistribute_alt n keys : 0 < n ->
  redistribute n keys = map (fun i => filter (fun key => (Z.to_nat (key mod n) =? i)%nat) keys) (seq 0 (Z.to_nat n)).
Proof.
  intros H. unfold redistribute. rewrite map_map. apply map_ext. intros i.
  rewrite (untag_filter n (Z.of_nat i) keys). apply filter_ext. intros key.
  pose proof (Z.mod_pos_bound key n H).
  destruct (key mod n =? Z.of_nat i) eqn:E1; destruct (Z.to_nat (key mod n) =? i)%nat eqn:E2; auto.
  - apply Z.eqb_eq in E1. apply Nat.eqb_neq in E2. lia.
  - apply Z.eqb_neq in E1. apply Nat.eqb_eq in E2. lia.
Qed.

Lemma redistribute_length n keys : length (redistribute n keys) = Z.to_nat n.
Proof. unfold redistribute. cbv zeta. rewrite !map_length, seq_length. reflexivity. Qed.

Lemma redistribute_nth n keys i : 0 < n -> (i < Z.to_nat n)%nat ->
  nth i (redistribute n keys) [] = filter (fun key => (Z.to_nat (key mod n) =? i)%nat) keys.
Proof.
  intros Hn H. rewrite redistribute_alt by auto.
  set (g := fun i : nat => filter (fun key => (Z.to_nat (key mod n) =? i)%nat) keys).
  rewrite (nth_indep (map g (seq 0 (Z.to_nat n))) [] (g 0%nat)) by (rewrite map_length, seq_length; auto).
  rewrite (map_nth g). rewrite seq_nth by auto. reflexivity.
Qed.

Lemma redistribute_perm n keys : 0 < n -> Permutation (concat (redistribute n keys)) keys.
Proof.
  intros H. rewrite redistribute_alt by auto. apply (concat_map_filter_perm (fun key => Z.to_nat (key mod n)) (Z.to_nat n) keys).
  intros k _. pose proof (Z.mod_pos_bound k n H). lia.
Qed.

Lemma nth_Forall {A} (P : A -> Prop) l d i : Forall P l -> P d -> P (nth i l d).
Proof. intros F D. revert i; induction F; intros [|i]; cbn; auto. Qed.

Section HashProofs.
Variable ok : nat -> bool.
Variable primes : list Z.
Hypothesis primes_pos : Forall (fun p => 0 < p) primes.

Definition hash_inv (h : hash) : Prop :=
  (0 < length (h_buckets h))%nat /\
  forall i key, In key (nth i (h_buckets h) []) -> bucket_of (nbuckets h) key = i.

Lemma hash_empty_inv : hash_inv hash_empty.
Proof. split; cbn; [lia|]. intros [|[|i]] key; cbn; tauto. Qed.

Lemma bucket_of_lt h key : hash_inv h -> (bucket_of (nbuckets h) key < length (h_buckets h))%nat.
Proof.
  intros [L _]. unfold bucket_of, nbuckets.
  pose proof (Z.mod_pos_bound key (Z.of_nat (length (h_buckets h))) ltac:(lia)). lia.
Qed.

Lemma hash_get_correct h key : hash_inv h -> (hash_get h key = true <-> In key (hash_keys h)).
Proof.
  intros Hi. unfold hash_get, hash_keys. rewrite existsb_eqb_In, in_concat_nth. split.
  - intros H. eexists; eauto.
  - intros [i H]. destruct Hi as [_ B]. rewrite (B i key H). auto.
Qed.

Lemma hash_rehash_spec h pidx k h' k' :
  hash_inv h -> hash_rehash ok primes h pidx k = (h', k') ->
  hash_inv h' /\ Permutation (hash_keys h') (hash_keys h) /\ k' = S k /\ h_size h' = h_size h /\
  (ok k = false -> h' = h).
Proof.
  intros Hi E. unfold hash_rehash, request in E.
  assert (Hn : 0 < nth pidx primes 1) by (apply nth_Forall; auto; lia).
  set (n' := nth pidx primes 1) in *.
  destruct (ok k); inversion E; subst; clear E.
  - split; [|split; [|split; [|split]]]; auto; try discriminate.
    + split; cbn [h_buckets].
      * rewrite redistribute_length. lia.
      * intros i key H. unfold nbuckets. cbn [h_buckets]. rewrite redistribute_length.
        destruct (lt_dec i (Z.to_nat n')) as [L|L].
        -- rewrite redistribute_nth in H by auto. apply filter_In in H. destruct H as [_ H]. apply Nat.eqb_eq in H.
           unfold bucket_of. rewrite Z2Nat.id by lia. auto.
        -- rewrite nth_overflow in H by (rewrite redistribute_length; lia). destruct H.
    + unfold hash_keys at 1. cbn [h_buckets]. apply redistribute_perm. auto.
  - repeat split; auto; apply Hi.
Qed.

Lemma hash_insert_node_spec h key k h' k' :
  hash_inv h -> hash_insert_node ok primes h key k = (h', k') ->
  hash_inv h' /\ Permutation (hash_keys h') (key :: hash_keys h) /\ (k <= k' <= S k)%nat /\ h_size h' = h_size h + 1.
Proof.
  intros Hi E. unfold hash_insert_node in E.
  set (h1 := mkhash (upd_nth (bucket_of (nbuckets h) key) (cons key) (h_buckets h)) (h_size h + 1) (h_grow h) (h_pidx h)) in *.
  pose proof (bucket_of_lt h key Hi) as BL.
  assert (I1 : hash_inv h1).
  { assert (NB : nbuckets h1 = nbuckets h) by (unfold nbuckets, h1; cbn [h_buckets]; rewrite upd_nth_length; auto).
    destruct Hi as [L B]. split; [unfold h1; cbn [h_buckets]; rewrite upd_nth_length; auto|].
    intros i k0 H. rewrite NB. unfold h1 in H. cbn [h_buckets] in H.
    destruct (Nat.eq_dec (bucket_of (nbuckets h) key) i) as [EQ|N].
    - subst i. rewrite nth_upd_nth_same in H by auto. destruct H as [<-|H]; auto.
    - rewrite nth_upd_nth_other in H by auto. auto. }
  assert (P1 : Permutation (hash_keys h1) (key :: hash_keys h)).
  { unfold hash_keys, h1. cbn [h_buckets]. apply concat_upd_cons. auto. }
  assert (S1 : h_size h1 = h_size h + 1) by reflexivity.
  destruct (h_grow h1 <? h_size h1).
  - destruct (h_pidx h1 <? Nat.min (h_pidx h1 + 2) (length primes - 1))%nat.
    + destruct (hash_rehash_spec h1 _ k h' k' I1 E) as [A [B [C [D _]]]].
      repeat split; try apply A; try lia. eapply Permutation_trans; eauto.
    + inversion E; subst. repeat split; try apply I1; auto.
  - inversion E; subst. repeat split; try apply I1; auto.
Qed.

Theorem hash_step_atomic op h k r h' k' :
  hash_inv h -> hash_step ok primes op h k = (r, h', k') ->
  hash_inv h' /\ (k <= k' <= S (S k))%nat /\
  (r <> Ok -> h' = h) /\
  (r = Ok -> match op with
             | HInsert key => Permutation (hash_keys h') (key :: hash_keys h) /\ h_size h' = h_size h + 1
             | HRemove key => Permutation (key :: hash_keys h') (hash_keys h) /\ h_size h' = h_size h - 1
             end).
Proof.
  intros Hi E. destruct op as [key|key]; cbn [hash_step] in E.
  - unfold request in E. destruct (ok k).
    + destruct (hash_insert_node ok primes h key (S k)) as [h1 k2] eqn:I. inversion E; subst; clear E.
      destruct (hash_insert_node_spec h key (S k) h' k' Hi I) as [A [B [C D]]].
      repeat split; try apply A; auto; try lia. congruence.
    + inversion E; subst. repeat split; try apply Hi; auto; try lia; discriminate.
  - destruct (hash_get h key) eqn:G.
    + inversion E; subst; clear E. pose proof (bucket_of_lt h key Hi) as BL.
      assert (GI : In key (nth (bucket_of (nbuckets h) key) (h_buckets h) [])).
      { unfold hash_get in G. apply existsb_eqb_In in G. auto. }
      split; [|split; [lia|split; [congruence|]]].
      * destruct Hi as [L B]. split; cbn [h_buckets]; [rewrite upd_nth_length; auto|].
        intros i k0 H.
        replace (nbuckets _) with (nbuckets h) by (unfold nbuckets; cbn [h_buckets]; rewrite upd_nth_length; auto).
        destruct (Nat.eq_dec (bucket_of (nbuckets h) key) i) as [EQ|N].
        -- subst i. rewrite nth_upd_nth_same in H by auto. apply remove_first_In in H. auto.
        -- rewrite nth_upd_nth_other in H by auto. auto.
      * intros _. split; [|reflexivity]. unfold hash_keys. cbn [h_buckets]. apply concat_upd_remove. auto.
    + inversion E; subst. repeat split; try apply Hi; auto; try lia; discriminate.
Qed.

Theorem hash_run_inv ops : forall h k rs h' k',
  hash_inv h -> hash_run ok primes ops h k = (rs, h', k') -> hash_inv h' /\ length rs = length ops.
Proof.
  induction ops as [|op t IH]; intros h k rs h' k' Hi E; cbn [hash_run] in E.
  - inversion E; subst. auto.
  - destruct (hash_step ok primes op h k) as [[r h1] k1] eqn:S1.
    destruct (hash_run ok primes t h1 k1) as [[rs2 h2] k2] eqn:S2. inversion E; subst; clear E.
    destruct (hash_step_atomic op h k r h1 k1 Hi S1) as [A _].
    destruct (IH h1 k1 rs2 h' k' A S2) as [B C]. split; auto. cbn. lia.
Qed.

(* a failed rehash (or any pattern of failed rehashes and failed node allocations) leaves look-ups exact *)
Theorem hash_rehash_benign ops rs h' k' key :
  hash_run ok primes ops hash_empty 0 = (rs, h', k') ->
  (hash_get h' key = true <-> In key (hash_keys h')).
Proof.
  intros E. apply hash_get_correct. eapply hash_run_inv; eauto. apply hash_empty_inv.
Qed.

End HashProofs.

(* ---- hash: run level ---- *)

Lemma remove_first_perm_compat x l l' : Permutation l l' -> Permutation (remove_first x l) (remove_first x l').
Proof.
  induction 1 as [|a l l' P IH|a b l|l l' l'' P1 IH1 P2 IH2]; cbn; auto.
  - destruct (a =? x); auto.
  - destruct (b =? x) eqn:Eb, (a =? x) eqn:Ea; auto.
    + apply Z.eqb_eq in Eb, Ea. subst. auto.
    + apply perm_swap.
  - eapply Permutation_trans; eauto.
Qed.

Fixpoint hash_replay (ops : list hop) (rs : list result) (l : list Z) : list Z :=
  match ops, rs with
  | op :: ops', r :: rs' =>
      hash_replay ops' rs' (match r, op with
                            | Ok, HInsert key => key :: l
                            | Ok, HRemove key => remove_first key l
                            | _, _ => l
                            end)
  | _, _ => l
  end.

Lemma hash_replay_perm ops : forall rs l l', Permutation l l' -> Permutation (hash_replay ops rs l) (hash_replay ops rs l').
Proof.
  induction ops as [|op t IH]; intros [|r rs] l l' P; cbn; auto.
  apply IH. destruct r; auto. destruct op; [apply perm_skip; auto | apply remove_first_perm_compat; auto].
Qed.

Section HashRun.
Variable ok : nat -> bool.
Variable primes : list Z.
Hypothesis primes_pos : Forall (fun p => 0 < p) primes.

(* whole scripts under any oracle: the keys in the table are, as a multiset, exactly what the operations that reported success
   build - failed node allocations leave no trace and failed rehashes change nothing observable *)
Theorem hash_run_keys ops : forall h k rs h' k',
  hash_inv h -> hash_run ok primes ops h k = (rs, h', k') ->
  Permutation (hash_keys h') (hash_replay ops rs (hash_keys h)).
Proof.
  induction ops as [|op t IH]; intros h k rs h' k' Hi E; cbn [hash_run] in E.
  - inversion E; subst. cbn. apply Permutation_refl.
  - destruct (hash_step ok primes op h k) as [[r h1] k1] eqn:S1.
    destruct (hash_run ok primes t h1 k1) as [[rs2 h2] k2] eqn:S2. inversion E; subst; clear E.
    destruct (hash_step_atomic ok primes primes_pos op h k r h1 k1 Hi S1) as [I1 [_ [NE OK]]].
    pose proof (IH h1 k1 rs2 h' k' I1 S2) as P. cbn [hash_replay].
    eapply Permutation_trans; [exact P|]. apply hash_replay_perm.
    destruct r.
    + destruct op as [key|key]; destruct (OK eq_refl) as [Q _]; [exact Q|].
      replace (hash_keys h1) with (remove_first key (key :: hash_keys h1)) by (cbn; rewrite Z.eqb_refl; auto).
      apply remove_first_perm_compat. exact Q.
    + rewrite (NE ltac:(discriminate)). apply Permutation_refl.
    + rewrite (NE ltac:(discriminate)). apply Permutation_refl.
Qed.
End HashRun.

(* ---------------------------------------------------------------- ConstPool *)
Definition tree_ext (t t' : list cnode) : Prop := exists s, t' = t ++ s.
Definition trees_ext (ts ts' : list (list cnode)) : Prop :=
  length ts' = length ts /\ forall i, tree_ext (nth i ts []) (nth i ts' []).

Lemma trees_ext_refl ts : trees_ext ts ts.
Proof. split; auto. intros i. exists []. rewrite app_nil_r. auto. Qed.

Lemma trees_ext_trans a b c : trees_ext a b -> trees_ext b c -> trees_ext a c.
Proof.
  intros [L1 E1] [L2 E2]. split; [congruence|]. intros i. destruct (E1 i) as [s1 H1]. destruct (E2 i) as [s2 H2].
  exists (s1 ++ s2). rewrite H2, H1, app_assoc. auto.
Qed.

Lemma trees_ext_upd n c ts : trees_ext ts (upd_nth n (fun t => t ++ [c]) ts).
Proof.
  split; [apply upd_nth_length|]. intros i.
  destruct (Nat.eq_dec n i) as [->|N].
  - destruct (lt_dec i (length ts)).
    + rewrite nth_upd_nth_same by auto. exists [c]. auto.
    + rewrite !nth_overflow by (try rewrite upd_nth_length; lia). exists []. auto.
  - rewrite nth_upd_nth_other by auto. exists []. rewrite app_nil_r. auto.
Qed.

Lemma list_eqb_refl d : list_eqb d d = true.
Proof. induction d; cbn; auto. rewrite Z.eqb_refl. auto. Qed.

Lemma list_eqb_eq a : forall b, list_eqb a b = true -> a = b.
Proof.
  induction a as [|x s IH]; intros [|y t]; cbn; intros H; try discriminate; auto.
  apply andb_prop in H. destruct H as [H1 H2]. apply Z.eqb_eq in H1. f_equal; auto.
Qed.

Lemma tree_get_ext t t' d c : tree_get t d = Some c -> tree_ext t t' -> tree_get t' d = Some c.
Proof.
  intros H [s ->]. unfold tree_get in *. induction t as [|a t IH]; cbn in *; [discriminate|].
  destruct (list_eqb (c_data a) d); auto.
Qed.

Lemma tree_get_app_new t d c : tree_get t d = None -> c_data c = d -> tree_get (t ++ [c]) d = Some c.
Proof.
  intros H E. unfold tree_get in *. induction t as [|a t IH]; cbn in *.
  - rewrite E, list_eqb_refl. auto.
  - destruct (list_eqb (c_data a) d); [discriminate|auto].
Qed.

Lemma pool_lookup_ext p p' d o : pool_lookup p d = Some o -> trees_ext (p_trees p) (p_trees p') -> pool_lookup p' d = Some o.
Proof.
  unfold pool_lookup. intros H [_ E].
  destruct (tree_get (nth (Z.to_nat (Z.log2 (Z.of_nat (length d)))) (p_trees p) []) d) eqn:G; [|discriminate].
  rewrite (tree_get_ext _ _ _ _ G (E _)). auto.
Qed.

Section PoolProofs.
Variable ok : nat -> bool.

Lemma add_gap_trees fuel : forall p off sz k, p_trees (fst (add_gap ok fuel p off sz k)) = p_trees p.
Proof.
  induction fuel as [|f IH]; intros p off sz k; cbn [add_gap]; auto.
  destruct (sz <=? 0); auto. destruct (gap_class off sz) as [gi gs].
  destruct (p_gap_pool p) as [|m].
  - unfold request. destruct (ok k); cbn [fst]; auto. rewrite IH. auto.
  - rewrite IH. auto.
Qed.

Lemma take_gaps_trees iters : forall ti size p off k, p_trees (fst (fst (take_gaps ok iters ti size p off k))) = p_trees p.
Proof.
  induction iters as [|it IH]; intros ti size p off k; cbn [take_gaps]; auto.
  destruct (nth ti (p_gaps p) []) as [|[goff gsz] rest]; [apply IH|].
  destruct (0 <? gsz - size).
  - destruct (add_gap ok (Z.to_nat (gsz - size)) _ goff (gsz - size) k) as [p2 k1] eqn:G.
    rewrite IH. pose proof (add_gap_trees (Z.to_nat (gsz - size)) (mkpool (p_trees p) (upd_nth ti (fun _ => rest) (p_gaps p)) (S (p_gap_pool p)) (p_size p) (p_align p) (p_min p)) goff (gsz - size) k) as T.
    rewrite G in T. cbn [fst] in T. rewrite T. auto.
  - rewrite IH. auto.
Qed.

Lemma add_shared_level_ext pieces : forall ti d sm off p k b p' k',
  add_shared_level ok pieces ti d sm off p k = (b, p', k') -> trees_ext (p_trees p) (p_trees p').
Proof.
  induction pieces as [|i rest IH]; intros ti d sm off p k b p' k' E; cbn [add_shared_level] in E.
  - inversion E; subst. apply trees_ext_refl.
  - destruct (tree_get (nth ti (p_trees p) []) (slice d (i * sm) sm)); [eapply IH; eauto|].
    unfold request in E. destruct (ok k).
    + eapply trees_ext_trans; [|eapply IH; eauto]. cbn [p_trees]. apply trees_ext_upd.
    + inversion E; subst. apply trees_ext_refl.
Qed.

Lemma add_shared_ext levels : forall ti d sm pc off p k p' k',
  add_shared ok levels ti d sm pc off p k = (p', k') -> trees_ext (p_trees p) (p_trees p').
Proof.
  induction levels as [|lv IH]; intros ti d sm pc off p k p' k' E; cbn [add_shared] in E.
  - inversion E; subst. apply trees_ext_refl.
  - destruct (4 <? sm)%nat; [|inversion E; subst; apply trees_ext_refl].
    destruct (add_shared_level ok (seq 0 (pc * 2)) (ti - 1) d (sm / 2) off p k) as [[cont p1] k1] eqn:L.
    pose proof (add_shared_level_ext _ _ _ _ _ _ _ _ _ _ L) as X.
    destruct cont.
    + eapply trees_ext_trans; eauto.
    + inversion E; subst. auto.
Qed.

(* an add that does not report kOk leaves every constant (and every shared sub-constant) exactly where it was *)
Theorem pool_add_failure_keeps_constants d p k r o p' k' :
  pool_add ok d p k = (r, o, p', k') -> r <> Ok -> p_trees p' = p_trees p.
Proof.
  intros E N. unfold pool_add in E.
  destruct ((Z.of_nat (length d) =? 0) || (64 <? Z.of_nat (length d)) || negb (is_pow2 (Z.of_nat (length d)))).
  - inversion E; subst; auto.
  - destruct (tree_get _ d); [inversion E; subst; congruence|].
    set (ti := Z.to_nat (Z.log2 (Z.of_nat (length d)))) in *.
    destruct (take_gaps ok (index_count - 1 - ti) ti (Z.of_nat (length d)) p None k) as [[p1 goff] k1] eqn:TG.
    pose proof (take_gaps_trees (index_count - 1 - ti) ti (Z.of_nat (length d)) p None k) as T1. rewrite TG in T1. cbn [fst] in T1.
    destruct goff as [o1|].
    + unfold request in E. destruct (ok k1).
      * destruct (add_shared ok 4 ti d (length d) 1 o1 _ (S k1)) as [p4 k4]. inversion E; subst. congruence.
      * inversion E; subst. auto.
    + destruct ((Z.of_nat (length d) - p_size p1 mod Z.of_nat (length d)) mod Z.of_nat (length d) =? 0).
      * unfold request in E. destruct (ok k1).
        -- destruct (add_shared ok 4 ti d (length d) 1 _ _ (S k1)) as [p4 k4]. inversion E; subst. congruence.
        -- inversion E; subst. cbn [p_trees]. auto.
      * destruct (add_gap ok _ p1 (p_size p1) _ k1) as [q kq] eqn:AG.
        pose proof (add_gap_trees (Z.to_nat ((Z.of_nat (length d) - p_size p1 mod Z.of_nat (length d)) mod Z.of_nat (length d))) p1 (p_size p1)
                      ((Z.of_nat (length d) - p_size p1 mod Z.of_nat (length d)) mod Z.of_nat (length d)) k1) as T2.
        rewrite AG in T2. cbn [fst] in T2.
        unfold request in E. destruct (ok kq).
        -- destruct (add_shared ok 4 ti d (length d) 1 _ _ (S kq)) as [p4 k4]. inversion E; subst. congruence.
        -- inversion E; subst. cbn [p_trees]. congruence.
Qed.

Lemma new_node_found ti d off (ts : list (list cnode)) al mn gp gl sz p4 k3 k4 :
  (ti < length ts)%nat -> ti = Z.to_nat (Z.log2 (Z.of_nat (length d))) -> tree_get (nth ti ts []) d = None ->
  add_shared ok 4 ti d (length d) 1 off (mkpool (upd_nth ti (fun t => t ++ [mkcnode d off false]) ts) gl gp sz al mn) k3 = (p4, k4) ->
  pool_lookup p4 d = Some off /\ trees_ext ts (p_trees p4).
Proof.
  intros L T G AS. pose proof (add_shared_ext _ _ _ _ _ _ _ _ _ _ AS) as X0. pose proof X0 as X. cbn [p_trees] in X. split.
  - eapply pool_lookup_ext; [|exact X0]. unfold pool_lookup. cbn [p_trees]. rewrite <- T.
    rewrite nth_upd_nth_same by auto. rewrite (tree_get_app_new _ d (mkcnode d off false) G eq_refl). reflexivity.
  - eapply trees_ext_trans; [apply trees_ext_upd | exact X].
Qed.

(* a successful add: the constant is found at the returned offset, and everything that was in the pool stays where it was *)
Theorem pool_add_ok d p k o p' k' :
  length (p_trees p) = index_count ->
  pool_add ok d p k = (Ok, o, p', k') ->
  exists off, o = Some off /\ pool_lookup p' d = Some off /\ trees_ext (p_trees p) (p_trees p').
Proof.
  intros LEN E. unfold pool_add in E.
  destruct ((Z.of_nat (length d) =? 0) || (64 <? Z.of_nat (length d)) || negb (is_pow2 (Z.of_nat (length d)))) eqn:GUARD.
  - inversion E.
  - apply orb_false_iff in GUARD. destruct GUARD as [GUARD _]. apply orb_false_iff in GUARD. destruct GUARD as [G0 G64].
    apply Z.eqb_neq in G0. apply Z.ltb_ge in G64.
    set (ti := Z.to_nat (Z.log2 (Z.of_nat (length d)))) in *.
    assert (TI : (ti < length (p_trees p))%nat).
    { rewrite LEN. unfold index_count, ti. pose proof (Z.log2_le_mono (Z.of_nat (length d)) 64 G64) as M. change (Z.log2 64) with 6 in M.
      pose proof (Z.log2_nonneg (Z.of_nat (length d))). lia. }
    destruct (tree_get (nth ti (p_trees p) []) d) as [c|] eqn:G.
    + inversion E; subst. exists (c_off c). repeat split; auto; [|apply trees_ext_refl].
      unfold pool_lookup. fold ti. rewrite G. auto.
    + destruct (take_gaps ok (index_count - 1 - ti) ti (Z.of_nat (length d)) p None k) as [[p1 goff] k1] eqn:TG.
      pose proof (take_gaps_trees (index_count - 1 - ti) ti (Z.of_nat (length d)) p None k) as T1. rewrite TG in T1. cbn [fst] in T1.
      destruct goff as [o1|].
      * unfold request in E. destruct (ok k1); [|inversion E].
        destruct (add_shared ok 4 ti d (length d) 1 o1 _ (S k1)) as [p4 k4] eqn:AS. inversion E; subst. exists o1. split; auto.
        rewrite T1 in AS. eapply new_node_found; eauto.
      * destruct ((Z.of_nat (length d) - p_size p1 mod Z.of_nat (length d)) mod Z.of_nat (length d) =? 0).
        -- unfold request in E. destruct (ok k1); [|inversion E].
           destruct (add_shared ok 4 ti d (length d) 1 _ _ (S k1)) as [p4 k4] eqn:AS. inversion E; subst. eexists. split; [reflexivity|].
           cbn [p_trees p_gaps p_gap_pool p_size p_align p_min] in AS. rewrite T1 in AS. eapply new_node_found; eauto.
        -- destruct (add_gap ok _ p1 (p_size p1) _ k1) as [q kq] eqn:AG.
           pose proof (add_gap_trees (Z.to_nat ((Z.of_nat (length d) - p_size p1 mod Z.of_nat (length d)) mod Z.of_nat (length d))) p1 (p_size p1)
                         ((Z.of_nat (length d) - p_size p1 mod Z.of_nat (length d)) mod Z.of_nat (length d)) k1) as T2.
           rewrite AG in T2. cbn [fst] in T2.
           unfold request in E. destruct (ok kq); [|inversion E].
           destruct (add_shared ok 4 ti d (length d) 1 _ _ (S kq)) as [p4 k4] eqn:AS. inversion E; subst. eexists. split; [reflexivity|].
           cbn [p_trees p_gaps p_gap_pool p_size p_align p_min] in AS. rewrite T2, T1 in AS. eapply new_node_found; eauto.
Qed.

Theorem pool_add_keeps_tree_count d p k r o p' k' :
  pool_add ok d p k = (r, o, p', k') -> length (p_trees p') = length (p_trees p).
Proof.
  intros E. destruct r.
  - destruct (Nat.eq_dec (length (p_trees p)) index_count) as [L|L].
    + destruct (pool_add_ok d p k o p' k' L E) as [off [_ [_ [X _]]]]. auto.
    + (* without the 7 trees the model still only appends *) 
      unfold pool_add in E.
      destruct ((Z.of_nat (length d) =? 0) || (64 <? Z.of_nat (length d)) || negb (is_pow2 (Z.of_nat (length d)))); [inversion E|].
      set (ti := Z.to_nat (Z.log2 (Z.of_nat (length d)))) in *.
      destruct (tree_get (nth ti (p_trees p) []) d); [inversion E; subst; auto|].
      destruct (take_gaps ok (index_count - 1 - ti) ti (Z.of_nat (length d)) p None k) as [[p1 goff] k1] eqn:TG.
      pose proof (take_gaps_trees (index_count - 1 - ti) ti (Z.of_nat (length d)) p None k) as T1. rewrite TG in T1. cbn [fst] in T1.
      destruct goff as [o1|].
      * unfold request in E. destruct (ok k1); [|inversion E].
        destruct (add_shared ok 4 ti d (length d) 1 o1 _ (S k1)) as [p4 k4] eqn:AS. inversion E; subst.
        destruct (add_shared_ext _ _ _ _ _ _ _ _ _ _ AS) as [X _]. cbn [p_trees] in X. rewrite upd_nth_length in X. congruence.
      * destruct ((Z.of_nat (length d) - p_size p1 mod Z.of_nat (length d)) mod Z.of_nat (length d) =? 0).
        -- unfold request in E. destruct (ok k1); [|inversion E].
           destruct (add_shared ok 4 ti d (length d) 1 _ _ (S k1)) as [p4 k4] eqn:AS. inversion E; subst.
           destruct (add_shared_ext _ _ _ _ _ _ _ _ _ _ AS) as [X _]. cbn [p_trees] in X. rewrite upd_nth_length in X. congruence.
        -- destruct (add_gap ok _ p1 (p_size p1) _ k1) as [q kq] eqn:AG.
           pose proof (add_gap_trees (Z.to_nat ((Z.of_nat (length d) - p_size p1 mod Z.of_nat (length d)) mod Z.of_nat (length d))) p1 (p_size p1)
                         ((Z.of_nat (length d) - p_size p1 mod Z.of_nat (length d)) mod Z.of_nat (length d)) k1) as T2.
           rewrite AG in T2. cbn [fst] in T2.
           unfold request in E. destruct (ok kq); [|inversion E].
           destruct (add_shared ok 4 ti d (length d) 1 _ _ (S kq)) as [p4 k4] eqn:AS. inversion E; subst.
           destruct (add_shared_ext _ _ _ _ _ _ _ _ _ _ AS) as [X _]. cbn [p_trees] in X. rewrite upd_nth_length in X. congruence.
  - rewrite (pool_add_failure_keeps_constants d p k Oom o p' k' E); auto. discriminate.
  - rewrite (pool_add_failure_keeps_constants d p k Invalid o p' k' E); auto. discriminate.
Qed.

End PoolProofs.


Section PoolRunProofs.
Variable ok : nat -> bool.

Lemma pool_lookup_trees p p1 d : p_trees p1 = p_trees p -> pool_lookup p1 d = pool_lookup p d.
Proof. intros E. unfold pool_lookup. rewrite E. reflexivity. Qed.

(* whole scripts under any oracle: every constant whose add() reported success is found at the offset it was given, at the end
   of the run, and whatever was in the pool before keeps its offset *)
Theorem pool_run_offsets_stable ds : forall p k rs p' k',
  length (p_trees p) = index_count ->
  pool_run ok ds p k = (rs, p', k') ->
  length (p_trees p') = index_count /\
  (forall d0 o0, pool_lookup p d0 = Some o0 -> pool_lookup p' d0 = Some o0) /\
  (forall i d off, nth_error ds i = Some d -> nth_error rs i = Some (Ok, Some off) -> pool_lookup p' d = Some off).
Proof.
  induction ds as [|d t IH]; intros p k rs p' k' L E; cbn [pool_run] in E.
  - inversion E; subst. repeat split; auto. intros [|i] d off H; discriminate.
  - destruct (pool_add ok d p k) as [[[r o] p1] k1] eqn:A.
    destruct (pool_run ok t p1 k1) as [[rs2 p2] k2] eqn:R. inversion E; subst; clear E.
    assert (L1 : length (p_trees p1) = index_count) by (rewrite (pool_add_keeps_tree_count ok d p k r o p1 k1 A); auto).
    destruct (IH p1 k1 rs2 p' k' L1 R) as [LF [ST FN]].
    assert (EXT : forall d0 o0, pool_lookup p d0 = Some o0 -> pool_lookup p1 d0 = Some o0).
    { destruct r.
      - destruct (pool_add_ok ok d p k o p1 k1 L A) as [off [_ [_ X]]]. intros d0 o0 H. eapply pool_lookup_ext; eauto.
      - intros d0 o0 H. rewrite (pool_lookup_trees p p1); auto. eapply pool_add_failure_keeps_constants; eauto. discriminate.
      - intros d0 o0 H. rewrite (pool_lookup_trees p p1); auto. eapply pool_add_failure_keeps_constants; eauto. discriminate. }
    split; [auto|]. split; [intros; auto|].
    intros [|i] d0 off Hd Hr; cbn in Hd, Hr.
    + inversion Hd; inversion Hr; subst.
      destruct (pool_add_ok ok d0 p k (Some off) p1 k1 L A) as [off' [EQ [LK _]]]. inversion EQ; subst. apply ST. auto.
    + eapply FN; eauto.
Qed.
End PoolRunProofs.

(* ---------------------------------------------------------------- CodeHolder *)
Definition content : Type := (list label * list Z * Z)%type.
Definition lbl_bound (ls : list label) (li : nat) : bool := l_bound (nth li ls (mklabel false [])).

(* oracle-free specification of the holder operations on the abstract content *)
Definition holder_spec (op : cop) (c : content) : option content :=
  let '(ls, rs, un) := c in
  match op with
  | CNewLabel => Some (ls ++ [mklabel false []], rs, un)
  | CNewReloc => Some (ls, rs ++ [3], un)
  | CNewFixup li =>
      if (li <? length ls)%nat && negb (lbl_bound ls li)
      then Some (upd_nth li (fun l => mklabel (l_bound l) (-1 :: l_fixups l)) ls, rs, un + 1) else None
  | CEmbedLabel li =>
      if (li <? length ls)%nat then
        if lbl_bound ls li then Some (ls, rs ++ [4], un)
        else Some (upd_nth li (fun l => mklabel (l_bound l) (Z.of_nat (length rs) :: l_fixups l)) ls, rs ++ [4], un + 1)
      else None
  | CEmbedDelta =>
      match ls with
      | [] => None
      | l0 :: _ => if l_bound l0 then Some c else Some (ls, rs ++ [1], un)
      end
  | CBind li =>
      if (li <? length ls)%nat then
        if lbl_bound ls li then None
        else Some (upd_nth li (fun _ => mklabel true []) ls, rs, un - Z.of_nat (length (l_fixups (nth li ls (mklabel false [])))))
      else None
  end.

Section HolderProofs.
Variable ok : nat -> bool.

Lemma reserve_one_cases isz v k :
  let '(r, v1, k1) := vec_reserve_one ok isz v k in
  (r = Ok /\ v_items v1 = v_items v) \/ (r = Oom /\ v1 = v).
Proof.
  unfold vec_reserve_one, vec_reserve_grow, vec_reserve_bytes, request.
  repeat match goal with |- context [if ?c then _ else _] => destruct c end; cbn; auto.
Qed.

Lemma new_label_refines h k r h' k' :
  new_label ok h k = (r, h', k') ->
  (r = Ok /\ holder_content h' = (ho_labels h ++ [mklabel false []], ho_relocs h, ho_unresolved h)) \/
  (r = Oom /\ holder_content h' = holder_content h).
Proof.
  unfold new_label. pose proof (reserve_one_cases 16 (labels_vec h) k) as C.
  destruct (vec_reserve_one ok 16 (labels_vec h) k) as [[r1 v1] k1].
  destruct C as [[-> _] | [-> _]]; intros E; inversion E; subst; auto.
Qed.

Lemma new_reloc_refines ty h k r h' k' :
  new_reloc ok ty h k = (r, h', k') ->
  (r = Ok /\ holder_content h' = (ho_labels h, ho_relocs h ++ [ty], ho_unresolved h) /\ ho_fixup_pool h' = ho_fixup_pool h) \/
  (r = Oom /\ holder_content h' = holder_content h /\ ho_fixup_pool h' = ho_fixup_pool h).
Proof.
  unfold new_reloc. pose proof (reserve_one_cases 8 (relocs_vec h) k) as C.
  destruct (vec_reserve_one ok 8 (relocs_vec h) k) as [[r1 v1] k1].
  destruct C as [[-> _] | [-> _]]; intros E.
  - unfold request in E. destruct (ok k1); inversion E; subst; auto.
  - inversion E; subst; auto.
Qed.

Lemma new_fixup_refines li tag h k r h' k' :
  new_fixup ok li tag h k = (r, h', k') ->
  (r = Ok /\ holder_content h' = (upd_nth li (fun l => mklabel (l_bound l) (tag :: l_fixups l)) (ho_labels h), ho_relocs h, ho_unresolved h + 1)) \/
  (r = Oom /\ h' = h).
Proof.
  unfold new_fixup, request. destruct (ho_fixup_pool h); [destruct (ok k)|]; intros E; inversion E; subst; auto.
Qed.

Lemma removelast_snoc {A} (l : list A) x : removelast (l ++ [x]) = l.
Proof. apply removelast_last. Qed.

Theorem holder_step_refines op h k r h' k' :
  holder_step ok true op h k = (r, h', k') ->
  match r with
  | Ok => holder_spec op (holder_content h) = Some (holder_content h')
  | Oom => holder_content h' = holder_content h
  | Invalid => holder_content h' = holder_content h /\ holder_spec op (holder_content h) = None
  end.
Proof.
  destruct op as [| |li|li| |li]; cbn [holder_step]; intros E.
  - destruct (new_label_refines h k r h' k' E) as [[-> C] | [-> C]]; [rewrite C|]; auto.
  - destruct (new_reloc_refines 3 h k r h' k' E) as [[-> [C _]] | [-> [C _]]]; [rewrite C|]; auto.
  - change (holder_content h) with (ho_labels h, ho_relocs h, ho_unresolved h). cbn [holder_spec]. unfold label_bound in E. fold (lbl_bound (ho_labels h) li) in *.
    destruct ((li <? length (ho_labels h))%nat && negb (lbl_bound (ho_labels h) li)).
    + destruct (new_fixup_refines li (-1) h k r h' k' E) as [[-> C] | [-> ->]]; [rewrite C|]; auto.
    + inversion E; subst. auto.
  - unfold embed_label in E. change (holder_content h) with (ho_labels h, ho_relocs h, ho_unresolved h). cbn [holder_spec].
    destruct (li <? length (ho_labels h))%nat eqn:LT; [|inversion E; subst; auto].
    destruct (new_reloc ok 4 h k) as [[r1 h1] k1] eqn:NR.
    destruct (new_reloc_refines 4 h k r1 h1 k1 NR) as [[-> [C P]] | [-> [C P]]].
    + unfold holder_content in C. injection C as CL CR CU.
      unfold label_bound in E. rewrite CL in E. fold (lbl_bound (ho_labels h) li) in E.
      destruct (lbl_bound (ho_labels h) li).
      * inversion E; subst. unfold holder_content. rewrite CL, CR, CU. auto.
      * destruct (new_fixup ok li (Z.of_nat (length (ho_relocs h))) h1 k1) as [[r2 h2] k2] eqn:NF.
        destruct (new_fixup_refines _ _ _ _ _ _ _ NF) as [[-> C2] | [-> ->]].
        -- inversion E; subst. rewrite C2. rewrite CL, CR, CU. auto.
        -- inversion E; subst. unfold holder_content, pop_reloc. cbn [ho_labels ho_relocs ho_unresolved]. rewrite CL, CR, CU, removelast_snoc. auto.
    + inversion E; subst. auto.
  - unfold embed_delta in E. change (holder_content h) with (ho_labels h, ho_relocs h, ho_unresolved h). cbn [holder_spec].
    destruct (ho_labels h) as [|l0 t] eqn:HL; [inversion E; subst; unfold holder_content; rewrite HL; auto|].
    destruct (l_bound l0); [inversion E; subst; unfold holder_content; rewrite HL; auto|].
    destruct (new_reloc ok 1 h k) as [[r1 h1] k1] eqn:NR.
    destruct (new_reloc_refines 1 h k r1 h1 k1 NR) as [[-> [C P]] | [-> [C P]]].
    + unfold request in E. destruct (ok k1); inversion E; subst.
      * rewrite C, HL. auto.
      * unfold holder_content in *. unfold pop_reloc. cbn [ho_labels ho_relocs ho_unresolved]. injection C as CL CR CU. rewrite CR, removelast_snoc, CL, CU, HL. auto.
    + inversion E; subst. rewrite C. unfold holder_content. rewrite HL. auto.
  - unfold bind_label in E. change (holder_content h) with (ho_labels h, ho_relocs h, ho_unresolved h). cbn [holder_spec]. unfold label_bound in E. fold (lbl_bound (ho_labels h) li) in *.
    destruct (li <? length (ho_labels h))%nat; [|inversion E; subst; auto].
    destruct (lbl_bound (ho_labels h) li); inversion E; subst; auto.
Qed.

(* an operation that succeeds under any oracle is the very step the failure-free run makes *)
Theorem holder_step_ok_failure_free op h k h' k' :
  holder_step ok true op h k = (Ok, h', k') -> holder_step all_ok true op h k = (Ok, h', k').
Proof.
  destruct op; cbn [holder_step]; unfold new_label, new_reloc, new_fixup, embed_label, embed_delta, bind_label, new_reloc, new_fixup,
    vec_reserve_one, vec_reserve_grow, vec_reserve_bytes, request, all_ok;
  repeat match goal with
         | |- context [if ?c then _ else _] => destruct c
         | |- context [match ho_fixup_pool ?h with _ => _ end] => destruct (ho_fixup_pool h)
         | |- context [match ho_labels ?h with _ => _ end] => destruct (ho_labels h)
         end; intros E; try discriminate; auto.
Qed.

Fixpoint holder_replay (ops : list cop) (rs : list result) (c : content) : option content :=
  match ops, rs with
  | op :: ops', r :: rs' =>
      match r with
      | Ok => match holder_spec op c with Some c' => holder_replay ops' rs' c' | None => None end
      | _ => holder_replay ops' rs' c
      end
  | _, _ => Some c
  end.

(* run level: the final content is what the oracle-free specification gives for exactly the operations that reported success *)
Theorem holder_run_failed_ops_vanish ops : forall h k rs h' k',
  holder_run ok true ops h k = (rs, h', k') ->
  holder_replay ops rs (holder_content h) = Some (holder_content h') /\ length rs = length ops.
Proof.
  induction ops as [|op t IH]; intros h k rs h' k' E; cbn [holder_run] in E.
  - inversion E; subst. auto.
  - destruct (holder_step ok true op h k) as [[r h1] k1] eqn:S1.
    destruct (holder_run ok true t h1 k1) as [[rs2 h2] k2] eqn:S2. inversion E; subst; clear E.
    pose proof (holder_step_refines op h k r h1 k1 S1) as R. destruct (IH h1 k1 rs2 h' k' S2) as [A B].
    split; [|cbn; lia]. cbn [holder_replay]. destruct r.
    + rewrite R. auto.
    + rewrite <- R. auto.
    + destruct R as [R _]. rewrite <- R. auto.
Qed.

End HolderProofs.

(* the pinned behaviour (before fixes/C15-stale-reloc.patch): a failed embed_label / embed_label_delta leaves a relocation behind *)
Definition two_then_fail : nat -> bool := fun k => (k <? 2)%nat.
Definition one_label : holder := mkholder [mklabel false []] 4 [] 0 0 0.

Theorem embed_label_pinned_refuted :
  exists ok h, let '(r, h', _) := holder_step ok false (CEmbedLabel 0) h 0 in r = Oom /\ holder_content h' <> holder_content h.
Proof. exists two_then_fail, one_label. vm_compute. split; [reflexivity | discriminate]. Qed.

Theorem embed_delta_pinned_refuted :
  exists ok h, let '(r, h', _) := holder_step ok false CEmbedDelta h 0 in r = Oom /\ holder_content h' <> holder_content h.
Proof. exists two_then_fail, one_label. vm_compute. split; [reflexivity | discriminate]. Qed.

(* ConstPool::add is NOT atomic in the pool size: a failed add has already advanced _size *)
Theorem pool_add_size_atomic_refuted :
  exists ok d p, let '(r, _, p', _) := pool_add ok d p 0 in r = Oom /\ p_size p' <> p_size p.
Proof. exists (fun _ => false), [1], pool_empty. vm_compute. split; [reflexivity | discriminate]. Qed.

(* ... and a successful add may differ from the failure-free one (a gap record or a shared sub-constant was given up) *)
Theorem pool_add_ok_not_failure_free_refuted :
  exists ok d p, let '(r, _, p', _) := pool_add ok d p 0 in let '(r0, _, p0, _) := pool_add all_ok d p 0 in
                 r = Ok /\ r0 = Ok /\ p_trees p' <> p_trees p0.
Proof. exists (fun k => (k <? 1)%nat), [1; 2; 3; 4; 5; 6; 7; 8], pool_empty. vm_compute. repeat split; discriminate. Qed.

(* ---------------------------------------------------------------- CodeHolder: sections, address table, call imm *)

Definition scontent : Type := (list Z * list nat * option nat * list Z)%type.

Definition new_section_spec (order : Z) (c : scontent) : scontent :=
  let '(os, bo, at_, es) := c in (os ++ [order], insert_by_order os order (length os) bo, at_, es).

(* the address-table section is created on first use *)
Definition lazy_addrtab (c : scontent) : scontent :=
  let '(os, bo, at_, es) := c in
  match at_ with
  | Some _ => c
  | None => (os ++ [addrtab_order], insert_by_order os addrtab_order (length os) bo, Some (length os), es)
  end.

Definition add_address_spec (addr : Z) (c : scontent) : scontent :=
  let '(os, bo, at_, es) := c in
  if existsb (Z.eqb addr) es then c
  else let '(os', bo', at', es') := lazy_addrtab c in (os', bo', at', es' ++ [addr]).

Definition content2 : Type := (content * scontent)%type.
Definition holder2_content (h : holder2) : content2 := (holder_content (h2_base h), sects_content (h2_sects h)).

Definition holder2_spec (op : cop2) (c : content2) : option content2 :=
  match op with
  | CBase o => match holder_spec o (fst c) with Some b => Some (b, snd c) | None => None end
  | CNewSection order => Some (fst c, new_section_spec order (snd c))
  | CAddAddress a => Some (fst c, add_address_spec a (snd c))
  | CCallAbs a => let '(ls, rs, un) := fst c in Some ((ls, rs ++ [6], un), add_address_spec a (snd c))
  end.

Section Holder2Proofs.
Variable ok : nat -> bool.

Lemma new_section_refines order s k r s' k' :
  new_section ok order s k = (r, s', k') ->
  (r = Ok /\ sects_content s' = new_section_spec order (sects_content s)) \/ (r = Oom /\ sects_content s' = sects_content s).
Proof.
  unfold new_section. pose proof (reserve_one_cases ok 8 (mkvec (ss_orders s) (ss_cap s)) k) as C1.
  destruct (vec_reserve_one ok 8 (mkvec (ss_orders s) (ss_cap s)) k) as [[r1 v1] k1].
  destruct C1 as [[-> _] | [-> _]]; [|intros E; inversion E; subst; auto].
  cbn [ss_orders ss_cap ss_by_order ss_by_cap ss_addrtab ss_entries].
  pose proof (reserve_one_cases ok 8 (mkvec (map Z.of_nat (ss_by_order s)) (ss_by_cap s)) k1) as C2.
  destruct (vec_reserve_one ok 8 (mkvec (map Z.of_nat (ss_by_order s)) (ss_by_cap s)) k1) as [[r2 v2] k2].
  destruct C2 as [[-> _] | [-> _]]; [|intros E; inversion E; subst; auto].
  unfold request. destruct (ok k2); intros E; inversion E; subst; auto.
Qed.

Lemma add_address_refines addr s k r s' k' :
  add_address ok addr s k = (r, s', k') ->
  (r = Ok /\ sects_content s' = add_address_spec addr (sects_content s)) \/
  (r = Oom /\ (sects_content s' = sects_content s \/ sects_content s' = lazy_addrtab (sects_content s))).
Proof.
  unfold add_address. unfold sects_content at 2 4 5. cbn [add_address_spec lazy_addrtab].
  destruct (existsb (Z.eqb addr) (ss_entries s)) eqn:EX; [intros E; inversion E; subst; auto|].
  destruct (ss_addrtab s) as [a|] eqn:AT.
  - cbv beta iota zeta. unfold request. destruct (ok k); intros E; injection E as <- <- <-.
    + left. unfold sects_content. cbn [ss_orders ss_by_order ss_addrtab ss_entries]. rewrite AT. auto.
    + right. split; auto. left. unfold sects_content. rewrite AT. auto.
  - destruct (new_section ok addrtab_order s k) as [[r1 s1] k1] eqn:NS.
    destruct (new_section_refines _ _ _ _ _ _ NS) as [[-> C] | [-> C]].
    + unfold sects_content in C. cbn [new_section_spec] in C. injection C as C1 C2 C3 C4.
      cbv beta iota zeta. unfold request. destruct (ok k1); intros E; injection E as <- <- <-.
      * left. unfold sects_content. cbn [ss_orders ss_by_order ss_addrtab ss_entries]. rewrite C1, C2, C4. auto.
      * right. split; auto. right. unfold sects_content. cbn [ss_orders ss_by_order ss_addrtab ss_entries]. rewrite C1, C2, C4. unfold lazy_addrtab. rewrite AT. auto.
    + cbv beta iota zeta. intros E; injection E as <- <- <-. right. split; auto. left. rewrite C. unfold sects_content. rewrite AT. auto.
Qed.

Lemma removelast_snoc2 {A} (l : list A) x y : removelast (l ++ [x]) ++ [y] = l ++ [y].
Proof. rewrite removelast_last. reflexivity. Qed.

Theorem holder2_step_refines op h k r h' k' :
  holder2_step ok true op h k = (r, h', k') ->
  match r with
  | Ok => holder2_spec op (holder2_content h) = Some (holder2_content h')
  | Oom => fst (holder2_content h') = fst (holder2_content h) /\
           (snd (holder2_content h') = snd (holder2_content h) \/ snd (holder2_content h') = lazy_addrtab (snd (holder2_content h)))
  | Invalid => holder2_content h' = holder2_content h /\ holder2_spec op (holder2_content h) = None
  end.
Proof.
  destruct op as [o|order|addr|addr]; cbn [holder2_step]; intros E.
  - destruct (holder_step ok true o (h2_base h) k) as [[r1 b] k1] eqn:S. inversion E; subst; clear E.
    pose proof (holder_step_refines ok o (h2_base h) k _ _ _ S) as R. unfold holder2_content. cbn [h2_base h2_sects holder2_spec fst snd].
    destruct r.
    + rewrite R. auto.
    + rewrite R. auto.
    + destruct R as [R1 R2]. rewrite R1, R2. auto.
  - destruct (new_section ok order (h2_sects h) k) as [[r1 s] k1] eqn:S. inversion E; subst; clear E.
    unfold holder2_content. cbn [h2_base h2_sects holder2_spec fst snd].
    destruct (new_section_refines _ _ _ _ _ _ S) as [[-> C] | [-> C]]; rewrite C; auto.
  - destruct (add_address ok addr (h2_sects h) k) as [[r1 s] k1] eqn:S. inversion E; subst; clear E.
    unfold holder2_content. cbn [h2_base h2_sects holder2_spec fst snd].
    destruct (add_address_refines _ _ _ _ _ _ S) as [[-> C] | [-> [C|C]]]; rewrite C; auto.
  - unfold call_abs in E.
    destruct (new_reloc ok 5 (h2_base h) k) as [[r1 b1] k1] eqn:NR.
    destruct (new_reloc_refines ok 5 (h2_base h) k r1 b1 k1 NR) as [[-> [C P]] | [-> [C P]]].
    + destruct (add_address ok addr (h2_sects h) k1) as [[r2 s2] k2] eqn:AA.
      unfold holder_content in C. injection C as CL CR CU.
      destruct (add_address_refines _ _ _ _ _ _ AA) as [[-> CA] | [-> CA]]; inversion E; subst; clear E;
        unfold holder2_content; cbn [h2_base h2_sects holder2_spec fst snd].
      * unfold holder_content at 1. cbn [holder2_spec]. rewrite CA. unfold holder_content, set_last_reloc. cbn [ho_labels ho_relocs ho_unresolved].
        rewrite CR, removelast_snoc2, CL, CU. auto.
      * split.
        -- unfold holder_content, pop_reloc. cbn [ho_labels ho_relocs ho_unresolved]. rewrite CR, removelast_last, CL, CU. auto.
        -- destruct CA as [CA|CA]; rewrite CA; auto.
    + inversion E; subst; clear E. unfold holder2_content. cbn [h2_base h2_sects fst snd]. auto.
Qed.

Fixpoint holder2_replay (ops : list cop2) (rs : list result) (c : content2) : list content2 :=
  match ops, rs with
  | op :: ops', r :: rs' =>
      match r with
      | Ok => match holder2_spec op c with Some c' => holder2_replay ops' rs' c' | None => [] end
      | Oom => holder2_replay ops' rs' c ++ holder2_replay ops' rs' (fst c, lazy_addrtab (snd c))
      | Invalid => holder2_replay ops' rs' c
      end
  | _, _ => [c]
  end.

(* run level: the final content is one of the results of replaying exactly the successful operations with the oracle-free
   specification, where a failed operation may at most have created the (empty) address-table section early *)
Theorem holder2_run_failed_ops_vanish ops : forall h k rs h' k',
  holder2_run ok true ops h k = (rs, h', k') ->
  In (holder2_content h') (holder2_replay ops rs (holder2_content h)) /\ length rs = length ops.
Proof.
  induction ops as [|op t IH]; intros h k rs h' k' E; cbn [holder2_run] in E.
  - inversion E; subst. cbn. auto.
  - destruct (holder2_step ok true op h k) as [[r h1] k1] eqn:S1.
    destruct (holder2_run ok true t h1 k1) as [[rs2 h2] k2] eqn:S2. inversion E; subst; clear E.
    pose proof (holder2_step_refines op h k r h1 k1 S1) as R. destruct (IH h1 k1 rs2 h' k' S2) as [A B].
    split; [|cbn; lia]. cbn [holder2_replay]. destruct r.
    + rewrite R. auto.
    + destruct R as [R1 [R2|R2]]; apply in_or_app; [left|right].
      * replace (holder2_content h) with (holder2_content h1); auto. destruct (holder2_content h1), (holder2_content h). cbn in *. congruence.
      * replace (fst (holder2_content h), lazy_addrtab (snd (holder2_content h))) with (holder2_content h1); auto.
        destruct (holder2_content h1). cbn in *. congruence.
    + destruct R as [R _]. rewrite <- R. auto.
Qed.

End Holder2Proofs.

(* pinned behaviour of x86 jmp/call imm (before C15-stale-reloc): the relocation stays when the address table fails *)
Theorem call_abs_pinned_refuted :
  exists ok h, let '(r, h', _) := holder2_step ok false (CCallAbs 4096) h 0 in
               r = Oom /\ fst (holder2_content h') <> fst (holder2_content h).
Proof. exists (fun k => (k <? 2)%nat), holder2_init. vm_compute. split; [reflexivity | discriminate]. Qed.

(* a failed add_address_to_address_table may leave the (empty) .addrtab section behind: not atomic in the section list *)
Theorem add_address_lazy_section_refuted :
  exists ok h, let '(r, h', _) := holder2_step ok true (CAddAddress 4096) h 0 in
               r = Oom /\ snd (holder2_content h') <> snd (holder2_content h) /\ snd (holder2_content h') = lazy_addrtab (snd (holder2_content h)).
Proof. exists (fun k => (k <? 1)%nat), holder2_init. vm_compute. repeat split; discriminate. Qed.

(* ---------------------------------------------------------------- BaseBuilder node creation *)
Definition blist : Type := (list bnode * nat * list nat)%type.

Definition simple_node_of (op : bop) : option bnode :=
  match op with
  | BInst => Some NInst | BAlign => Some NAlign | BEmbed => Some NEmbed | BEmbedLabel li => Some (NEmbedLabel li) | BComment => Some NComment
  | _ => None
  end.

(* oracle-free effect of a successful Builder operation on (node list, cursor, bound labels) *)
Definition bld_spec (op : bop) (c : blist) : blist :=
  let '(nodes, cur, act) := c in
  match op with
  | BNewLabel => c
  | BBind li => (insert_at (S cur) (NLabel li) nodes, S cur, li :: act)
  | BSection sid => if existsb (is_section_of sid) nodes then (nodes, section_end sid nodes, act) else (nodes ++ [NSection sid], length nodes, act)
  | BCursor i => (nodes, (i mod length nodes)%nat, act)
  | BConstPool li =>
      (insert_at (S (S (S cur))) NEmbed (insert_at (S (S cur)) (NLabel li) (insert_at (S cur) NAlign nodes)), S (S (S cur)), li :: act)
  | BInst => (insert_at (S cur) NInst nodes, S cur, act)
  | BAlign => (insert_at (S cur) NAlign nodes, S cur, act)
  | BEmbed => (insert_at (S cur) NEmbed nodes, S cur, act)
  | BEmbedLabel li => (insert_at (S cur) (NEmbedLabel li) nodes, S cur, act)
  | BComment => (insert_at (S cur) NComment nodes, S cur, act)
  end.

Definition is_const_pool (op : bop) : bool := match op with BConstPool _ => true | _ => false end.

Lemma nth_pad_to n l i : nth i (pad_to n l) false = nth i l false.
Proof.
  unfold pad_to. destruct (lt_dec i (length l)).
  - rewrite app_nth1; auto.
  - rewrite app_nth2 by lia. rewrite (nth_overflow l) by lia. apply nth_repeat.
Qed.

Section BuilderProofs.
Variable ok : nat -> bool.

Lemma reserve_grow_cases isz v n k :
  let '(r, v1, k1) := vec_reserve_grow ok isz v n k in (r = Ok /\ v_items v1 = v_items v) \/ (r = Oom /\ v1 = v).
Proof.
  unfold vec_reserve_grow, vec_reserve_bytes, request.
  repeat match goal with |- context [if ?c then _ else _] => destruct c end; cbn; auto.
Qed.

Lemma reserve_additional_cases isz v n k :
  let '(r, v1, k1) := vec_reserve_additional ok isz v n k in (r = Ok /\ v_items v1 = v_items v) \/ (r = Oom /\ v1 = v).
Proof.
  unfold vec_reserve_additional. destruct (n <=? v_cap v - vsize v); [cbn; auto|]. apply reserve_grow_cases.
Qed.

Definition same_nodes (l l' : list bool) : Prop := forall i, nth i l' false = nth i l false.

Ltac split_ifs H :=
  repeat match type of H with
         | context [if ?c then _ else _] => destruct c eqn:?
         end.

Ltac fin_nodes :=
  unfold same_nodes, bld_list, set_nth_true, activate, add_node, label_active in *;
  cbn [b_nodes b_cursor b_active b_lnodes b_snodes b_lcap b_scap bld_spec] in *;
  repeat split; auto; intros; try congruence; rewrite ?nth_pad_to; auto;
  repeat match goal with H : existsb _ _ = _ |- _ => rewrite H end; auto.

Ltac three := split; [intros; try congruence; fin_nodes | split; [intros; try congruence; fin_nodes | intros; try congruence; fin_nodes]].

(* Every Builder operation (embed_const_pool as repaired by C15-embed-const-pool-atomic), under every oracle: a step that does not report success
   leaves the node list, the cursor and the bound labels untouched (kOutOfMemory: every label / section keeps its node); the
   holder is untouched except for the orphan label of a failed new_label; a successful step has the effect bld_spec. *)
Theorem builder_step_atomic op h b k r h' b' k' :
  builder_step ok op h b k = (r, h', b', k') ->
  (r <> Ok ->
     bld_list b' = bld_list b /\ h2_sects h' = h2_sects h /\
     (holder_content (h2_base h') = holder_content (h2_base h) \/
      (op = BNewLabel /\ holder_content (h2_base h') = (ho_labels (h2_base h) ++ [mklabel false []], ho_relocs (h2_base h), ho_unresolved (h2_base h))))) /\
  (r = Oom -> is_const_pool op = false -> same_nodes (b_lnodes b) (b_lnodes b') /\ same_nodes (b_snodes b) (b_snodes b')) /\
  (r = Ok ->
     bld_list b' = bld_spec op (bld_list b) /\ h2_sects h' = h2_sects h /\
     match op with
     | BNewLabel => holder_content (h2_base h') = (ho_labels (h2_base h) ++ [mklabel false []], ho_relocs (h2_base h), ho_unresolved (h2_base h))
     | _ => h' = h
     end).
Proof.
  unfold builder_step. destruct op as [|li|sid| | | |li| |i|li]; cbn [builder_step_gen is_const_pool]; intros E.
  - unfold b_new_label in E.
    destruct (new_label ok (h2_base h) k) as [[r1 base1] k1] eqn:NL.
    destruct (new_label_refines ok (h2_base h) k r1 base1 k1 NL) as [[-> C] | [-> C]].
    + set (grow_by := (length (ho_labels (h2_base h)) - length (b_lnodes b) + 1)%nat) in *.
      pose proof (reserve_additional_cases 8 (bools_vec (b_lnodes b) (b_lcap b)) (Z.of_nat grow_by) k1) as RC.
      destruct (vec_reserve_additional ok 8 (bools_vec (b_lnodes b) (b_lcap b)) (Z.of_nat grow_by) k1) as [[r2 v2] k2].
      destruct RC as [[-> _] | [-> _]].
      * unfold request in E. destruct (ok k2); inversion E; subst; clear E; cbn [h2_base h2_sects]; three.
      * inversion E; subst; clear E. cbn [h2_base h2_sects]. three.
    + inversion E; subst; clear E. cbn [h2_base h2_sects]. three.
  - destruct (b_bind ok li h b k) as [[r1 b1] k1] eqn:BB. inversion E; subst; clear E.
    unfold b_bind, b_label_node, vec_reserve_grow, vec_reserve_bytes, request in BB.
    split_ifs BB; inversion BB; subst; clear BB; three.
  - destruct (b_section ok sid h b k) as [[r1 b1] k1] eqn:BB. inversion E; subst; clear E.
    unfold b_section, vec_reserve_grow, vec_reserve_bytes, request in BB.
    split_ifs BB; inversion BB; subst; clear BB; three.
  - destruct (b_simple_node ok 1 NInst b k) as [[r1 b1] k1] eqn:BI. inversion E; subst; clear E.
    cbn [b_simple_node] in BI. unfold request in BI. split_ifs BI; inversion BI; subst; three.
  - destruct (b_simple_node ok 1 NAlign b k) as [[r1 b1] k1] eqn:BI. inversion E; subst; clear E.
    cbn [b_simple_node] in BI. unfold request in BI. split_ifs BI; inversion BI; subst; three.
  - destruct (b_simple_node ok 1 NEmbed b k) as [[r1 b1] k1] eqn:BI. inversion E; subst; clear E.
    cbn [b_simple_node] in BI. unfold request in BI. split_ifs BI; inversion BI; subst; three.
  - destruct (b_simple_node ok 1 (NEmbedLabel li) b k) as [[r1 b1] k1] eqn:BI. inversion E; subst; clear E.
    cbn [b_simple_node] in BI. unfold request in BI. split_ifs BI; inversion BI; subst; three.
  - destruct (b_simple_node ok 2 NComment b k) as [[r1 b1] k1] eqn:BI. inversion E; subst; clear E.
    cbn [b_simple_node] in BI. unfold request in BI. split_ifs BI; inversion BI; subst; three.
  - inversion E; subst; clear E. three.
  - destruct (b_const_pool ok true li h b k) as [[r1 b1] k1] eqn:BB. inversion E; subst; clear E.
    unfold b_const_pool, b_label_node, vec_reserve_grow, vec_reserve_bytes, request in BB.
    split_ifs BB; inversion BB; subst; clear BB; three.
Qed.

End BuilderProofs.

(* embed_const_pool before the repair linked the align node and bound the label before allocating the data node: when that
   allocation failed both stayed in the list *)
Theorem const_pool_partial_refuted :
  exists ok h b, let '(r, _, b', _) := builder_step_gen ok false (BConstPool 0) h b 0 in r = Oom /\ bld_list b' <> bld_list b.
Proof.
  exists (fun k => (k <? 3)%nat), (mkh2 (mkholder [mklabel false []] 4 [] 0 0 0) sects_init), bld_init. vm_compute. split; [reflexivity | discriminate].
Qed.

(* ---------------------------------------------------------------- String *)

Lemma align_up_z_ge x a : 0 < a -> x <= align_up_z x a.
Proof.
  intros H. unfold align_up_z. pose proof (Z.div_mod (x + a - 1) a ltac:(lia)). pose proof (Z.mod_pos_bound (x + a - 1) a H). nia.
Qed.

Lemma pow2_ceil_ge x : x <= pow2_ceil x.
Proof.
  unfold pow2_ceil. destruct (x <=? 1) eqn:E; [apply Z.leb_le in E; lia|]. apply Z.leb_gt in E.
  pose proof (Z.log2_spec (x - 1) ltac:(lia)) as [_ H]. replace (Z.succ (Z.log2 (x - 1))) with (Z.log2 (x - 1) + 1) in H by lia. lia.
Qed.

Lemma str_grow_capacity_ge bs mn : 0 <= mn -> mn <= str_grow_capacity bs mn.
Proof.
  intros H. unfold str_grow_capacity, grow_threshold.
  set (b := if bs <? 128 then 128 else if bs <? 512 then 512 else bs).
  destruct (b <? mn) eqn:E.
  - destruct (16777216 <? pow2_ceil mn).
    + pose proof (Z.mod_pos_bound mn 16777216 ltac:(lia)). lia.
    + apply pow2_ceil_ge.
  - apply Z.ltb_ge in E. lia.
Qed.

Section StrProofs.
Variable okh : nat -> bool.

Definition str_inv (s : str) : Prop := slen s <= st_cap s /\ (st_large s = false -> st_cap s = sso_capacity).
Definition sop_wf (op : sop) : Prop := match op with SAppendChars n | SAssignChars n | STruncate n => 0 <= n | _ => True end.

Lemma zchars_length n : Z.of_nat (length (zchars n)) = Z.max n 0.
Proof. unfold zchars. rewrite repeat_length. lia. Qed.

(* Every String operation under every heap oracle: never "invalid"; kOutOfMemory leaves characters, capacity and storage kind
   exactly as they were; a success has the oracle-free effect str_spec; size <= capacity is kept; at most one malloc. *)
Theorem str_step_atomic op s k r s' k' :
  sop_wf op -> str_inv s -> str_step okh op s k = (r, s', k') ->
  (k <= k' <= S k)%nat /\ r <> Invalid /\ str_inv s' /\ (r = Oom -> s' = s) /\ (r = Ok -> st_chars s' = str_spec op (st_chars s)).
Proof.
  intros W [I I2] E. unfold str_inv, slen in *.
  destruct op as [d|d|n|n| | |n]; cbn [str_step sop_wf] in *.
  - destruct (Z.of_nat (length d) =? 0) eqn:Z0.
    + apply Z.eqb_eq in Z0. assert (d = []) by (destruct d; cbn in Z0; [auto|lia]). subst. inversion E; subst.
      repeat split; auto; try lia; try discriminate; try (cbn [st_large st_cap]; intros; auto; congruence). intros _. cbn. rewrite app_nil_r. auto.
    + unfold str_prepare_append, slen in E. destruct (st_cap s <? Z.of_nat (length d) + Z.of_nat (length (st_chars s))) eqn:C.
      * destruct (okh k); inversion E; subst; clear E; cbn [st_chars st_cap str_spec]; repeat split; auto; try lia; try discriminate; try (cbn [st_large st_cap]; intros; auto; congruence).
        rewrite app_length. pose proof (str_grow_capacity_ge (Z.of_nat (length d) + 1) (Z.of_nat (length d) + Z.of_nat (length (st_chars s)) + 1) ltac:(lia)). lia.
      * apply Z.ltb_ge in C. inversion E; subst; clear E; cbn [st_chars st_cap str_spec]; repeat split; auto; try lia; try discriminate; try (cbn [st_large st_cap]; intros; auto; congruence).
        rewrite app_length. lia.
  - unfold str_assign_storage in E. destruct (st_large s) eqn:LG.
    + destruct (Z.of_nat (length d) <=? st_cap s) eqn:C.
      * apply Z.leb_le in C. inversion E; subst; clear E; cbn [st_chars st_cap str_spec]; repeat split; auto; try lia; try discriminate; try (cbn [st_large st_cap]; intros; auto; congruence).
      * destruct (okh k); inversion E; subst; clear E; cbn [st_chars st_cap str_spec]; repeat split; auto; try lia; try discriminate; try (cbn [st_large st_cap]; intros; auto; congruence).
        pose proof (align_up_z_ge (Z.of_nat (length d) + 1) 32 ltac:(lia)). lia.
    + destruct (Z.of_nat (length d) <=? sso_capacity) eqn:C.
      * apply Z.leb_le in C. inversion E; subst; clear E; cbn [st_chars st_cap str_spec]; repeat split; auto; try lia; try discriminate; try (cbn [st_large st_cap]; intros; auto; congruence).
        all: try (rewrite I2 by auto; lia).
      * destruct (okh k); inversion E; subst; clear E; cbn [st_chars st_cap str_spec]; repeat split; auto; try lia; try discriminate; try (cbn [st_large st_cap]; intros; auto; congruence).
  - destruct (n <=? 0) eqn:Z0.
    + apply Z.leb_le in Z0. inversion E; subst. repeat split; auto; try lia; try discriminate; try (cbn [st_large st_cap]; intros; auto; congruence). intros _. cbn. unfold zchars.
      replace (Z.to_nat n) with 0%nat by lia. cbn. rewrite app_nil_r. auto.
    + apply Z.leb_gt in Z0. unfold str_prepare_append, slen in E. destruct (st_cap s <? n + Z.of_nat (length (st_chars s))) eqn:C.
      * destruct (okh k); inversion E; subst; clear E; cbn [st_chars st_cap str_spec]; repeat split; auto; try lia; try discriminate; try (cbn [st_large st_cap]; intros; auto; congruence).
        rewrite app_length, Nat2Z.inj_add, zchars_length. pose proof (str_grow_capacity_ge (n + 1) (n + Z.of_nat (length (st_chars s)) + 1) ltac:(lia)). lia.
      * apply Z.ltb_ge in C. inversion E; subst; clear E; cbn [st_chars st_cap str_spec]; repeat split; auto; try lia; try discriminate; try (cbn [st_large st_cap]; intros; auto; congruence).
        rewrite app_length, Nat2Z.inj_add, zchars_length. lia.
  - destruct (n <=? 0) eqn:Z0.
    + apply Z.leb_le in Z0. inversion E; subst. cbn [st_chars st_cap]. repeat split; auto; try lia; try discriminate; try (cbn [st_large st_cap]; intros; auto; congruence).
      * cbn. lia.
      * intros _. cbn. unfold zchars. replace (Z.to_nat n) with 0%nat by lia. auto.
    + apply Z.leb_gt in Z0. unfold str_prepare_assign in E. destruct (st_cap s <? n) eqn:C.
      * destruct (okh k); inversion E; subst; clear E; cbn [st_chars st_cap str_spec]; repeat split; auto; try lia; try discriminate; try (cbn [st_large st_cap]; intros; auto; congruence).
        rewrite zchars_length. pose proof (align_up_z_ge (n + 1) 128 ltac:(lia)). lia.
      * apply Z.ltb_ge in C. inversion E; subst; clear E; cbn [st_chars st_cap str_spec]; repeat split; auto; try lia; try discriminate; try (cbn [st_large st_cap]; intros; auto; congruence).
        rewrite zchars_length. lia.
  - inversion E; subst. cbn. repeat split; auto; try lia; try discriminate; try (cbn [st_large st_cap]; intros; auto; congruence).
  - inversion E; subst. cbn. repeat split; auto; try lia; try discriminate; try (cbn [st_large st_cap]; intros; auto; congruence); try (unfold sso_capacity; lia).
  - inversion E; subst; clear E. cbn [st_chars st_cap str_spec]. repeat split; auto; try lia; try discriminate; try (cbn [st_large st_cap]; intros; auto; congruence).
    all: try (destruct (n <? Z.of_nat (length (st_chars s))); [rewrite firstn_length; lia | lia]).
Qed.
End StrProofs.

(* ---------------------------------------------------------------- VirtMem views and JitAllocator blocks *)
Local Close Scope Z_scope.

(* ---- register allocator home slots (nat scope as well) ---- *)

Section RaProofs.
Variable ok : nat -> bool.

(* a register has a home slot iff it owns exactly one entry of the slot list *)
Lemma NoDup_snoc {A} (l : list A) x : NoDup l -> ~ In x l -> NoDup (l ++ [x]).
Proof.
  intros ND NI. induction ND as [|a t Ha ND IH]; cbn; [constructor; auto; constructor|].
  constructor.
  - intros H. apply in_app_or in H. destruct H as [H|[H|[]]]; [auto | subst; apply NI; left; auto].
  - apply IH. intros H. apply NI. right; auto.
Qed.

Definition ra_inv (s : rastack) : Prop :=
  NoDup (ra_slots s) /\ (forall w, has_home s w = true <-> In w (ra_slots s)) /\ (forall w, In w (ra_slots s) -> w < length (ra_home s)).

Lemma ra_new_slot_spec w s k r s' k' :
  ra_inv s -> has_home s w = false -> w < length (ra_home s) ->
  ra_new_slot ok w s k = (r, s', k') ->
  ra_inv s' /\ ra_refs s' = ra_refs s /\ length (ra_home s') = length (ra_home s) /\
  ((r = Ok /\ ra_slots s' = ra_slots s ++ [w] /\ has_home s' w = true) \/
   (r = Oom /\ ra_slots s' = ra_slots s /\ ra_home s' = ra_home s)).
Proof.
  intros [ND [HM BD]] HF WL E. unfold ra_new_slot in E.
  pose proof (reserve_one_cases ok 8 (mkvec (map Z.of_nat (ra_slots s)) (ra_cap s)) k) as C.
  destruct (vec_reserve_one ok 8 (mkvec (map Z.of_nat (ra_slots s)) (ra_cap s)) k) as [[r1 v] k1].
  destruct C as [[-> _] | [-> _]].
  - unfold request in E. destruct (ok k1); inversion E; subst; clear E; cbn [ra_slots ra_home ra_refs ra_cap].
    + assert (NI : ~ In w (ra_slots s)) by (intros X; apply HM in X; congruence).
      split; [|split; [auto|split; [apply upd_nth_length|left; repeat split; auto]]].
      * split; [|split].
        -- apply NoDup_snoc; auto.
        -- intros x. unfold has_home. cbn [ra_home ra_slots]. rewrite in_app_iff. destruct (Nat.eq_dec w x) as [<-|NE].
           ++ rewrite nth_upd_nth_same by auto. split; auto. intros _. right. left. auto.
           ++ rewrite nth_upd_nth_other by auto. fold (has_home s x). rewrite HM. split; [auto|]. intros [H|[H|[]]]; [auto|congruence].
        -- intros x Hx. cbn [ra_home ra_slots] in *. rewrite upd_nth_length. apply in_app_or in Hx. destruct Hx as [Hx|[<-|[]]]; auto.
      * unfold has_home. cbn [ra_home]. rewrite nth_upd_nth_same by auto. reflexivity.
    + split; [repeat split; auto; apply HM|]. repeat split; auto.
  - inversion E; subst. split; [repeat split; auto; apply HM|]. repeat split; auto.
Qed.

(* Every step under every oracle: the invariant is kept (each register owns at most one slot, "has a home" = "owns a slot"); a
   tested creation (RGet) that fails leaves slots and homes untouched, one that succeeds leaves the register with a home;
   work_reg_as_mem never reports anything and may leave the register WITHOUT a home - which is why the rewrite must test. *)
Theorem ra_step_spec op s k r s' k' :
  ra_inv s -> (match op with RGet w | RAsMem w => w < length (ra_home s) end) ->
  ra_step ok op s k = (r, s', k') ->
  ra_inv s' /\ length (ra_home s') = length (ra_home s) /\
  match op with
  | RGet w => ra_refs s' = ra_refs s /\
              ((r = Ok /\ has_home s' w = true) \/ (r = Oom /\ ra_slots s' = ra_slots s /\ ra_home s' = ra_home s))
  | RAsMem w => r = Ok /\ ra_refs s' = w :: ra_refs s
  end.
Proof.
  intros I WL E. destruct op as [w|w]; cbn [ra_step] in E.
  - destruct (has_home s w) eqn:H.
    + inversion E; subst. repeat split; try apply I; auto.
    + destruct (ra_new_slot_spec w s k r s' k' I H WL E) as [I' [RF [LN [[-> [SL HH]] | [-> [SL HH]]]]]]; repeat split; try apply I'; auto.
  - destruct (has_home s w) eqn:H.
    + inversion E; subst. cbn [ra_home ra_refs]. repeat split; try apply I; auto.
    + destruct (ra_new_slot ok w s k) as [[r1 s1] k1] eqn:NS.
      destruct (ra_new_slot_spec w s k r1 s1 k1 I H WL NS) as [[I1 [I2 I3]] [RF [LN _]]].
      inversion E; subst; clear E. cbn [ra_home ra_refs ra_slots]. rewrite RF. repeat split; auto; apply I2.
Qed.

(* the rewrite of f186c27 succeeds only when every referenced register has its home: no null slot is ever dereferenced *)
Theorem ra_rewrite_safe s : ra_rewrite s = Ok -> forall w, In w (ra_refs s) -> has_home s w = true.
Proof.
  unfold ra_rewrite. intros E w Hw. destruct (forallb (has_home s) (ra_refs s)) eqn:F; [|discriminate].
  rewrite forallb_forall in F. auto.
Qed.

(* ---- whole runs of the RA stack allocator (round 5) ---- *)
Definition raop_reg (op : raop) : nat := match op with RGet w | RAsMem w => w end.

Lemma ra_step_mono op s k r s' k' :
  ra_inv s -> raop_reg op < length (ra_home s) ->
  ra_step ok op s k = (r, s', k') -> forall w, In w (ra_slots s) -> In w (ra_slots s').
Proof.
  intros I WL E w Hw. destruct op as [x|x]; cbn [ra_step raop_reg] in *.
  - destruct (has_home s x) eqn:H.
    + inversion E; subst; auto.
    + destruct (ra_new_slot_spec x s k r s' k' I H WL E) as [_ [_ [_ [[_ [SL _]] | [_ [SL _]]]]]]; rewrite SL; auto.
      apply in_or_app; auto.
  - destruct (has_home s x) eqn:H.
    + inversion E; subst; auto.
    + destruct (ra_new_slot ok x s k) as [[r1 s1] k1] eqn:NS.
      destruct (ra_new_slot_spec x s k r1 s1 k1 I H WL NS) as [_ [_ [_ [[_ [SL _]] | [_ [SL _]]]]]];
        inversion E; subst; clear E; cbn [ra_slots]; rewrite SL; auto.
      apply in_or_app; auto.
Qed.

(* Any script of tested creations (RGet) and work_reg_as_mem calls (RAsMem), any oracle: the invariant holds at the end, no register
   ever loses its home, the referenced registers are exactly the old ones plus those named by RAsMem, one result per operation. *)
Theorem ra_run_spec ops : forall n s k rs s' k',
  ra_inv s -> length (ra_home s) = n -> Forall (fun op => raop_reg op < n) ops ->
  ra_run ok ops s k = (rs, s', k') ->
  ra_inv s' /\ length (ra_home s') = n /\ (forall w, has_home s w = true -> has_home s' w = true) /\
  (forall w, In w (ra_refs s') <-> In w (ra_refs s) \/ In (RAsMem w) ops) /\ length rs = length ops.
Proof.
  induction ops as [|op t IH]; intros n s k rs s' k' I LN W E; cbn [ra_run] in E.
  - inversion E; subst. split; [exact I|]. split; [reflexivity|]. split; [auto|]. split; [|reflexivity].
    intros w; split; [auto|intros [X|[]]; exact X].
  - destruct (ra_step ok op s k) as [[r s1] k1] eqn:S1. destruct (ra_run ok t s1 k1) as [[rs2 s2] k2] eqn:S2.
    inversion E; subst; clear E. inversion W as [|? ? W1 W2]; subst.
    assert (WL : match op with RGet w | RAsMem w => w < length (ra_home s) end) by (destruct op; exact W1).
    destruct (ra_step_spec op s k r s1 k1 I WL S1) as [I1 [L1 SP]].
    pose proof (ra_step_mono op s k r s1 k1 I W1 S1) as MO.
    destruct (IH (length (ra_home s)) s1 k1 rs2 s' k' I1 L1 W2 S2) as [I2 [L2 [HM [RF LR]]]].
    split; [exact I2|]. split; [exact L2|]. split; [|split].
    + intros w Hw. apply HM. destruct I as [_ [A _]]. destruct I1 as [_ [B _]]. apply B. apply MO. apply A. exact Hw.
    + intros w. rewrite RF. destruct op as [x|x].
      * destruct SP as [R _]. rewrite R. cbn [In]. split; [intros [X|X]; auto|intros [X|[X|X]]; auto; discriminate].
      * destruct SP as [_ R]. rewrite R. cbn [In]. split.
        -- intros [[X|X]|X]; subst; auto.
        -- intros [X|[X|X]]; auto; inversion X; auto.
    + cbn [length]. rewrite LR. reflexivity.
Qed.

(* ... hence: whatever failed during the run, when the rewrite reports success every register named by work_reg_as_mem owns a
   stack slot (no null slot is dereferenced), and when it reports an error some named register has none *)
Theorem ra_run_rewrite_safe ops n s k rs s' k' :
  ra_inv s -> length (ra_home s) = n -> Forall (fun op => raop_reg op < n) ops ->
  ra_run ok ops s k = (rs, s', k') ->
  (ra_rewrite s' = Ok -> forall w, In (RAsMem w) ops -> has_home s' w = true /\ In w (ra_slots s')) /\
  (ra_rewrite s' <> Ok -> exists w, (In w (ra_refs s) \/ In (RAsMem w) ops) /\ has_home s' w = false).
Proof.
  intros I LN W E. destruct (ra_run_spec ops n s k rs s' k' I LN W E) as [I2 [_ [_ [RF _]]]]. split.
  - intros R w Hw. assert (H : has_home s' w = true) by (apply (ra_rewrite_safe s' R); apply RF; auto).
    split; [exact H|]. destruct I2 as [_ [A _]]. apply A. exact H.
  - intros R. unfold ra_rewrite in R. destruct (forallb (has_home s') (ra_refs s')) eqn:F; [congruence|].
    assert (X : exists w, In w (ra_refs s') /\ has_home s' w = false).
    { clear -F. induction (ra_refs s') as [|a l IHl]; cbn in F; [discriminate|].
      destruct (has_home s' a) eqn:HA; cbn in F.
      - destruct (IHl F) as [w [A B]]. exists w. split; [right; exact A|exact B].
      - exists a. split; [left; reflexivity|exact HA]. }
    destruct X as [w [A B]]. exists w. split; [apply RF; exact A|exact B].
Qed.

End RaProofs.


Lemma nodupb_NoDup l : nodupb l = true -> NoDup l.
Proof.
  induction l as [|x t IH]; cbn; intros H; [constructor|].
  apply andb_prop in H. destruct H as [H1 H2]. constructor; auto.
  intros HI. apply negb_true_iff in H1. assert (existsb (Nat.eqb x) t = true) by (apply existsb_exists; exists x; split; auto; apply Nat.eqb_refl). congruence.
Qed.

(* the executable validator is sound for the invariant of the home-slot model: a dumped state it accepts satisfies ra_inv *)
Theorem ra_check_sound s : ra_check s = true -> ra_inv s.
Proof.
  unfold ra_check. intros H. apply andb_prop in H. destruct H as [H H3]. apply andb_prop in H. destruct H as [H1 H2].
  rewrite forallb_forall in H2, H3. split; [apply nodupb_NoDup; auto|]. split.
  - intros w. split.
    + intros HH. destruct (lt_dec w (length (ra_home s))) as [L|L].
      * specialize (H3 w). rewrite in_seq in H3. specialize (H3 ltac:(lia)). rewrite HH in H3. cbn in H3.
        apply existsb_exists in H3. destruct H3 as [y [Hy E]]. apply Nat.eqb_eq in E. subst. auto.
      * unfold has_home in HH. rewrite nth_overflow in HH by lia. discriminate.
    + intros HI. specialize (H2 w HI). apply andb_prop in H2. tauto.
  - intros w HI. specialize (H2 w HI). apply andb_prop in H2. destruct H2 as [L _]. apply Nat.ltb_lt in L. auto.
Qed.

Lemma NoDup_nodupb l : NoDup l -> nodupb l = true.
Proof.
  induction 1 as [|x t NI ND IH]; cbn; [reflexivity|]. rewrite IH, andb_true_r. apply negb_true_iff.
  destruct (existsb (Nat.eqb x) t) eqn:E; [|reflexivity]. apply existsb_exists in E. destruct E as [y [Hy E]].
  apply Nat.eqb_eq in E. subst. contradiction.
Qed.

(* ... and complete: the validator rejects ONLY states that violate the invariant (so a rejected dump of a real pass run is a real
   violation, and ra_check decides ra_inv) *)
Theorem ra_check_complete s : ra_inv s -> ra_check s = true.
Proof.
  intros [ND [HM BD]]. unfold ra_check. rewrite (NoDup_nodupb _ ND). cbn [andb]. apply andb_true_intro. split.
  - apply forallb_forall. intros w HI. apply andb_true_intro. split; [apply Nat.ltb_lt; auto | apply HM; auto].
  - apply forallb_forall. intros w _. destruct (has_home s w) eqn:HH; cbn [implb]; [|reflexivity].
    apply existsb_exists. exists w. split; [apply HM; auto | apply Nat.eqb_refl].
Qed.

Lemma ras_init_inv n : ra_inv (ras_init n).
Proof.
  split; [constructor|]. split; [|intros w []]. intros w; unfold has_home, ras_init; cbn [ra_home ra_slots]. split; [|intros []].
  intros H. destruct (le_lt_dec n w); [rewrite nth_overflow in H by (rewrite repeat_length; lia); discriminate |].
  rewrite nth_repeat in H. discriminate.
Qed.

(* every state the model can reach from the initial one, under any oracle, is accepted by the validator that is applied to the
   dumps of real pass runs: a rejected dump is a state the model cannot reach *)
Theorem ra_reachable_checked ok ops n k rs s' k' :
  Forall (fun op => raop_reg op < n) ops -> ra_run ok ops (ras_init n) k = (rs, s', k') -> ra_check s' = true.
Proof.
  intros W E. apply ra_check_complete.
  refine (proj1 (ra_run_spec ok ops n (ras_init n) k rs s' k' (ras_init_inv n) _ W E)).
  unfold ras_init; cbn [ra_home]. apply repeat_length.
Qed.

(* ---- the failure-free run never reports an error (round 5) ---- *)
Lemma ra_slots_bounded s : ra_inv s -> length (ra_slots s) <= length (ra_home s).
Proof.
  intros [ND [_ BD]]. rewrite <- (seq_length (length (ra_home s)) 0). apply NoDup_incl_length; [exact ND|].
  intros w Hw. apply in_seq. specialize (BD w Hw). lia.
Qed.

Lemma ra_new_slot_all_ok w s k r s' k' :
  ra_inv s -> (Z.of_nat (length (ra_home s)) + 1 < max_items)%Z ->
  ra_new_slot all_ok w s k = (r, s', k') -> r = Ok.
Proof.
  intros I B E. pose proof (ra_slots_bounded s I) as LB.
  unfold ra_new_slot, vec_reserve_one, vec_reserve_grow, vec_reserve_bytes, request, all_ok, vsize in E. cbn [v_items v_cap] in E.
  rewrite map_length in E.
  destruct (Z.of_nat (length (ra_slots s)) =? ra_cap s)%Z.
  - destruct (Z.of_nat (length (ra_slots s)) + 1 <=? ra_cap s)%Z; [inversion E; reflexivity|].
    destruct (max_items <=? Z.of_nat (length (ra_slots s)) + 1)%Z eqn:M; [apply Z.leb_le in M; lia|].
    inversion E; reflexivity.
  - inversion E; reflexivity.
Qed.

Lemma ra_step_all_ok op s k r s' k' :
  ra_inv s -> raop_reg op < length (ra_home s) -> (Z.of_nat (length (ra_home s)) + 1 < max_items)%Z ->
  ra_step all_ok op s k = (r, s', k') -> r = Ok /\ has_home s' (raop_reg op) = true.
Proof.
  intros I WL B E. destruct op as [w|w]; cbn [ra_step raop_reg] in *.
  - destruct (has_home s w) eqn:H; [inversion E; subst; auto|].
    pose proof (ra_new_slot_all_ok w s k r s' k' I B E) as RO.
    destruct (ra_new_slot_spec all_ok w s k r s' k' I H WL E) as [_ [_ [_ [[_ [_ HH]] | [X _]]]]]; [auto|congruence].
  - destruct (has_home s w) eqn:H; [inversion E; subst; auto|].
    destruct (ra_new_slot all_ok w s k) as [[r1 s1] k1] eqn:NS.
    pose proof (ra_new_slot_all_ok w s k r1 s1 k1 I B NS) as RO.
    destruct (ra_new_slot_spec all_ok w s k r1 s1 k1 I H WL NS) as [_ [_ [_ [[_ [_ HH]] | [X _]]]]]; [|congruence].
    inversion E; subst. split; [reflexivity|]. exact HH.
Qed.

(* When no request fails (and the register count is below the 32-bit size limit of the slot vector), every operation reports
   success and the rewrite succeeds: errors of the home-slot machinery are never spurious. *)
Theorem ra_run_failure_free ops : forall n s k rs s' k',
  ra_inv s -> length (ra_home s) = n -> (Z.of_nat n + 1 < max_items)%Z -> Forall (fun op => raop_reg op < n) ops ->
  (forall w, In w (ra_refs s) -> has_home s w = true) ->
  ra_run all_ok ops s k = (rs, s', k') ->
  Forall (fun r => r = Ok) rs /\ ra_rewrite s' = Ok.
Proof.
  induction ops as [|op t IH]; intros n s k rs s' k' I LN B W RH E; cbn [ra_run] in E.
  - inversion E; subst. split; [constructor|]. unfold ra_rewrite.
    replace (forallb (has_home s') (ra_refs s')) with true; [reflexivity|]. symmetry. apply forallb_forall. exact RH.
  - destruct (ra_step all_ok op s k) as [[r s1] k1] eqn:S1. destruct (ra_run all_ok t s1 k1) as [[rs2 s2] k2] eqn:S2.
    inversion E; subst; clear E. inversion W as [|? ? W1 W2]; subst.
    assert (WL : match op with RGet w | RAsMem w => w < length (ra_home s) end) by (destruct op; exact W1).
    destruct (ra_step_spec all_ok op s k r s1 k1 I WL S1) as [I1 [L1 SP]].
    pose proof (ra_step_mono all_ok op s k r s1 k1 I W1 S1) as MO.
    destruct (ra_step_all_ok op s k r s1 k1 I W1 B S1) as [RO HH].
    assert (RH1 : forall w, In w (ra_refs s1) -> has_home s1 w = true).
    { assert (KEEP : forall w, has_home s w = true -> has_home s1 w = true).
      { intros w Hw. destruct I as [_ [A _]]. destruct I1 as [_ [A1 _]]. apply A1. apply MO. apply A. exact Hw. }
      intros w Hw. destruct op as [x|x]; cbn [raop_reg] in HH.
      - destruct SP as [R _]. rewrite R in Hw. auto.
      - destruct SP as [_ R]. rewrite R in Hw. destruct Hw as [<-|Hw]; auto. }
    rewrite <- L1 in B, W2.
    destruct (IH (length (ra_home s1)) s1 k1 rs2 s' k' I1 eq_refl B W2 RH1 S2) as [A C].
    split; [constructor; [exact RO|exact A]|exact C].
Qed.

(* without the test (the code before f186c27): two failed creations leave a referenced register without a home *)
Theorem ra_as_mem_unchecked_refuted :
  exists ok ops, let '(_, s, _) := ra_run ok ops (ras_init 2) 0 in exists w, In w (ra_refs s) /\ has_home s w = false.
Proof. exists (fun _ => false), [RAsMem 1; RAsMem 1]. vm_compute. exists 1. split; [left|]; reflexivity. Qed.


Section VmProofs.
Variable okv : nat -> bool.
Variable okh : nat -> bool.

Lemma remove_ids_app_fresh ids l : (forall x, In x ids -> ~ In x l) -> remove_ids ids (l ++ ids) = l.
Proof.
  intros F. unfold remove_ids. rewrite filter_app.
  assert (A : filter (fun x => negb (existsb (Nat.eqb x) ids)) l = l).
  { induction l as [|a t IH]; cbn; auto.
    assert (E : existsb (Nat.eqb a) ids = false).
    { destruct (existsb (Nat.eqb a) ids) eqn:X; auto. apply existsb_exists in X. destruct X as [y [Hy Ey]].
      apply Nat.eqb_eq in Ey. subst. exfalso. apply (F y Hy). left; auto. }
    rewrite E. cbn. f_equal. apply IH. intros x Hx Hin. apply (F x Hx). right; auto. }
  assert (B : filter (fun x => negb (existsb (Nat.eqb x) ids)) ids = []).
  { clear A F. assert (G : forall m, (forall x, In x m -> In x ids) -> filter (fun x => negb (existsb (Nat.eqb x) ids)) m = []).
    { induction m as [|a t IH]; intros H; cbn; auto.
      assert (E : existsb (Nat.eqb a) ids = true) by (apply existsb_exists; exists a; split; [apply H; left; auto | apply Nat.eqb_refl]).
      rewrite E. cbn. apply IH. intros x Hx. apply H. right; auto. }
    apply G. auto. }
  rewrite A, B, app_nil_r. reflexivity.
Qed.

(* ids below vs_next are the only ones in use: fresh ids never collide *)
Definition vms_inv (s : vms) : Prop := forall x, In x (vs_views s) -> x < vs_next s.

Lemma vm_map_spec s kv a s' k' :
  vms_inv s -> vm_map okv s kv = (a, s', k') ->
  k' = S kv /\ vs_heap s' = vs_heap s /\ vs_handles s' = vs_handles s /\ vms_inv s' /\ vs_next s <= vs_next s' /\
  match a with
  | Some i => i = vs_next s /\ vs_views s' = vs_views s ++ [i] /\ vs_next s' = S i
  | None => s' = s
  end.
Proof.
  intros I E. unfold vm_map in E. destruct (okv kv); inversion E; subst; cbn; repeat split; auto; try lia.
  intros x Hx. cbn in Hx |- *. apply in_app_or in Hx. destruct Hx as [Hx|[<-|[]]]; [apply I in Hx; lia | lia].
Qed.

Lemma vm_dual_spec s kv a s' k' :
  vms_inv s -> vm_dual okv s kv = (a, s', k') ->
  vs_heap s' = vs_heap s /\ vs_handles s' = vs_handles s /\ vms_inv s' /\
  match a with
  | Some ids => vs_views s' = vs_views s ++ ids /\ length ids = 2 /\ (forall x, In x ids -> ~ In x (vs_views s))
  | None => vs_views s' = vs_views s
  end.
Proof.
  intros I E. unfold vm_dual in E.
  destruct (vm_map okv s kv) as [[a1 s1] k1] eqn:M1.
  destruct (vm_map_spec s kv a1 s1 k1 I M1) as [_ [H1 [HH1 [I1 [N1 P1]]]]].
  destruct a1 as [ia|]; [|inversion E; subst; repeat split; auto; congruence].
  destruct P1 as [-> [V1 NX1]].
  destruct (vm_map okv s1 k1) as [[a2 s2] k2] eqn:M2.
  destruct (vm_map_spec s1 k1 a2 s2 k2 I1 M2) as [_ [H2 [HH2 [I2 [N2 P2]]]]].
  destruct a2 as [ib|].
  - destruct P2 as [-> [V2 NX2]]. inversion E; subst. repeat split; try congruence; auto.
    + rewrite V2, V1, <- app_assoc. reflexivity.
    + intros x [<-|[<-|[]]] Hin; apply I in Hin; lia.
  - subst s2. inversion E; subst; clear E. cbn [vs_heap vs_handles vs_views vs_next]. repeat split; auto.
    + intros x Hx. unfold remove_ids in Hx. apply filter_In in Hx. destruct Hx as [Hx _]. apply I1. auto.
    + rewrite V1. apply remove_ids_app_fresh. intros x [<-|[]] Hin. apply I in Hin. lia.
Qed.

(* Every operation under every pair of oracles: one that does not report success leaves the set of live mappings and the
   number of live block records exactly as they were (nothing leaks, nothing is lost); a successful allocation adds exactly
   its own fresh views. *)
Theorem vm_step_no_leak op s kv kh r s' kv' kh' :
  vms_inv s -> vm_step okv okh op s kv kh = (r, s', kv', kh') ->
  vms_inv s' /\
  (r <> Ok -> vs_views s' = vs_views s /\ vs_heap s' = vs_heap s) /\
  (r = Ok -> match op with
             | VMap => exists i, vs_views s' = vs_views s ++ [i] /\ vs_heap s' = vs_heap s
             | VDual => exists ids, vs_views s' = vs_views s ++ ids /\ length ids = 2 /\ vs_heap s' = vs_heap s
             | VBlock dual => exists ids, vs_views s' = vs_views s ++ ids /\ length ids = (if dual then 2 else 1) /\ vs_heap s' = S (vs_heap s)
             | VRel i => exists ids, nth i (vs_handles s) None = Some ids /\ vs_views s' = remove_ids ids (vs_views s) /\ vs_heap s' = vs_heap s
             | VDel i => exists ids, nth i (vs_handles s) None = Some ids /\ vs_views s' = remove_ids ids (vs_views s) /\ vs_heap s' = pred (vs_heap s)
             end).
Proof.
  intros I E. destruct op as [| |i|dual|i]; cbn [vm_step] in E.
  - destruct (vm_map okv s kv) as [[a s1] k1] eqn:M. destruct (vm_map_spec s kv a s1 k1 I M) as [_ [H1 [HH1 [I1 [N1 P1]]]]].
    destruct a as [i|]; inversion E; subst; clear E; cbn [push_handle vs_views vs_heap].
    + destruct P1 as [-> [V1 _]]. split; [exact I1|]. split; [congruence|]. intros _. eauto.
    + split; [exact I|]. split; [auto|congruence].
  - destruct (vm_dual okv s kv) as [[a s1] k1] eqn:M. destruct (vm_dual_spec s kv a s1 k1 I M) as [H1 [HH1 [I1 P1]]].
    destruct a as [ids|]; inversion E; subst; clear E; cbn [push_handle vs_views vs_heap].
    + destruct P1 as [V1 [L1 _]]. split; [exact I1|]. split; [congruence|]. intros _. eauto.
    + split; [exact I1|]. split; [auto|congruence].
  - destruct (nth i (vs_handles s) None) as [ids|] eqn:H; inversion E; subst; clear E; cbn [vs_views vs_heap].
    + split; [|split; [congruence|intros _; eauto]].
      intros x Hx. cbn in Hx. unfold remove_ids in Hx. apply filter_In in Hx. destruct Hx as [Hx _]. apply I in Hx. exact Hx.
    + split; [exact I|]. split; [auto|congruence].
  - assert (PRE : exists a s1 k1,
              (if dual then vm_dual okv s kv else (let '(x, s', k') := vm_map okv s kv in (match x with Some i => Some [i] | None => None end, s', k'))) = (a, s1, k1) /\
              vs_heap s1 = vs_heap s /\ vms_inv s1 /\
              match a with
              | Some ids => vs_views s1 = vs_views s ++ ids /\ length ids = (if dual then 2 else 1) /\ (forall x, In x ids -> ~ In x (vs_views s))
              | None => vs_views s1 = vs_views s
              end).
    { destruct dual.
      - destruct (vm_dual okv s kv) as [[a s1] k1] eqn:M. destruct (vm_dual_spec s kv a s1 k1 I M) as [H1 [HH1 [I1 P1]]].
        exists a, s1, k1. repeat split; auto.
      - destruct (vm_map okv s kv) as [[a s1] k1] eqn:M. destruct (vm_map_spec s kv a s1 k1 I M) as [_ [H1 [HH1 [I1 [N1 P1]]]]].
        destruct a as [i|].
        + destruct P1 as [-> [V1 _]]. exists (Some [vs_next s]), s1, k1. repeat split; auto.
          intros x [<-|[]] Hin. apply I in Hin. lia.
        + subst s1. exists None, s, k1. repeat split; auto. }
    destruct PRE as [a [s1 [k1 [EQ [H1 [I1 P1]]]]]]. rewrite EQ in E.
    destruct a as [ids|].
    + destruct P1 as [V1 [L1 F1]]. destruct (okh kh); inversion E; subst; clear E; cbn [push_handle vs_views vs_heap vs_next].
      * split; [exact I1|]. split; [congruence|]. intros _. exists ids. repeat split; auto; congruence.
      * split; [|split; [|congruence]].
        -- intros x Hx. cbn in Hx. unfold remove_ids in Hx. apply filter_In in Hx. destruct Hx as [Hx _]. apply I1. exact Hx.
        -- intros _. rewrite V1. split; [apply remove_ids_app_fresh; auto | auto].
    + inversion E; subst; clear E. cbn [push_handle vs_views vs_heap]. split; [exact I1|]. split; [auto|congruence].
  - destruct (nth i (vs_handles s) None) as [ids|] eqn:H; inversion E; subst; clear E; cbn [vs_views vs_heap].
    + split; [|split; [congruence|intros _; eauto]].
      intros x Hx. cbn in Hx. unfold remove_ids in Hx. apply filter_In in Hx. destruct Hx as [Hx _]. apply I in Hx. exact Hx.
    + split; [exact I|]. split; [auto|congruence].
Qed.

Lemma vms_init_inv : vms_inv vms_init.
Proof. intros x []. Qed.

End VmProofs.

(* the seeded change C15-3 in model form: unmapping the wrong (not yet mapped) view leaks the first one *)
Definition vm_dual_leaky (okv : nat -> bool) (s : vms) (kv : nat) : option (list nat) * vms * nat :=
  let '(a, s1, k1) := vm_map okv s kv in
  match a with
  | None => (None, s1, k1)
  | Some ia => let '(b, s2, k2) := vm_map okv s1 k1 in
               match b with Some ib => (Some [ia; ib], s2, k2) | None => (None, s2, k2) end
  end.

Theorem vm_dual_leaky_refuted :
  exists okv s, let '(a, s', _) := vm_dual_leaky okv s 0 in a = None /\ vs_views s' <> vs_views s.
Proof. exists (fun k => (k <? 1)%nat), vms_init. vm_compute. split; [reflexivity | discriminate]. Qed.

(* ---- VirtMem views: accounting over whole runs ---- *)

Definition handle_ids (h : option (list nat)) : list nat := match h with Some ids => ids | None => [] end.
Definition live_ids (s : vms) : list nat := concat (map handle_ids (vs_handles s)).

(* accounting invariant of a whole run: the live views are exactly the views of the handles that have not been released, each
   once (nothing leaked, nothing lost, nothing double-counted), and fresh ids stay fresh *)
Definition vms_acct (s : vms) : Prop :=
  NoDup (vs_views s) /\ Permutation (vs_views s) (live_ids s) /\ (forall x, In x (vs_views s) -> x < vs_next s).

Lemma nodup_app_inv {A} (l1 l2 : list A) : NoDup (l1 ++ l2) -> NoDup l1 /\ NoDup l2 /\ (forall x, In x l1 -> ~ In x l2).
Proof.
  induction l1 as [|a t IH]; cbn; intros H.
  - repeat split; auto. constructor.
  - inversion H as [|? ? N1 N2]; subst. destruct (IH N2) as [I1 [I2 I3]]. repeat split; auto.
    + constructor; auto. intros X. apply N1. apply in_or_app. left; auto.
    + intros x [<-|Hx] Hi; [apply N1; apply in_or_app; right; auto | apply (I3 x); auto].
Qed.

Lemma nodup_app_intro {A} (l1 l2 : list A) : NoDup l1 -> NoDup l2 -> (forall x, In x l1 -> ~ In x l2) -> NoDup (l1 ++ l2).
Proof.
  induction l1 as [|a t IH]; cbn; intros H1 H2 D; auto.
  inversion H1 as [|? ? N1 N2]; subst. constructor.
  - intros X. apply in_app_or in X. destruct X as [X|X]; [auto | apply (D a); auto].
  - apply IH; auto.
Qed.

Lemma perm_filter {A} (f : A -> bool) l l' : Permutation l l' -> Permutation (filter f l) (filter f l').
Proof.
  induction 1; cbn; auto.
  - destruct (f x); auto.
  - destruct (f x), (f y); auto. apply perm_swap.
  - eapply Permutation_trans; eauto.
Qed.

Lemma live_ids_push s h : live_ids (push_handle h s) = live_ids s ++ handle_ids h.
Proof. unfold live_ids, push_handle. cbn. rewrite map_app, concat_app. cbn. rewrite app_nil_r. reflexivity. Qed.

Lemma concat_upd_none (hs : list (option (list nat))) i ids :
  nth i hs None = Some ids ->
  exists A B, concat (map handle_ids hs) = A ++ ids ++ B /\ concat (map handle_ids (upd_nth i (fun _ => None) hs)) = A ++ B.
Proof.
  revert i; induction hs as [|h t IH]; intros [|i] H; cbn in *; try discriminate.
  - subst. exists [], (concat (map handle_ids t)). cbn. auto.
  - destruct (IH i H) as [A [B [E1 E2]]]. exists (handle_ids h ++ A), B. rewrite E1, E2, !app_assoc. auto.
Qed.

Lemma remove_ids_middle ids A B : NoDup (A ++ ids ++ B) -> remove_ids ids (A ++ ids ++ B) = A ++ B.
Proof.
  intros ND. unfold remove_ids. rewrite !filter_app.
  assert (FA : forall l, (forall x, In x l -> ~ In x ids) -> filter (fun x => negb (existsb (Nat.eqb x) ids)) l = l).
  { induction l as [|a t IH]; intros H; cbn; auto.
    assert (E : existsb (Nat.eqb a) ids = false).
    { destruct (existsb (Nat.eqb a) ids) eqn:X; auto. apply existsb_exists in X. destruct X as [y [Hy Ey]]. apply Nat.eqb_eq in Ey. subst.
      exfalso. apply (H y); [left; auto | auto]. }
    rewrite E. cbn. f_equal. apply IH. intros x Hx. apply H. right; auto. }
  assert (FI : filter (fun x => negb (existsb (Nat.eqb x) ids)) ids = []).
  { assert (G : forall m, (forall x, In x m -> In x ids) -> filter (fun x => negb (existsb (Nat.eqb x) ids)) m = []).
    { induction m as [|a t IH]; intros H; cbn; auto.
      assert (E : existsb (Nat.eqb a) ids = true) by (apply existsb_exists; exists a; split; [apply H; left; auto | apply Nat.eqb_refl]).
      rewrite E. cbn. apply IH. intros x Hx. apply H. right; auto. }
    apply G. auto. }
  rewrite FI. cbn.
  destruct (nodup_app_inv A (ids ++ B) ND) as [_ [NB DA]]. destruct (nodup_app_inv ids B NB) as [_ [_ DB]].
  rewrite (FA A), (FA B); auto.
  - intros x Hx Hi. apply (DB x); auto.
  - intros x Hx Hi. apply (DA x Hx). apply in_or_app. left; auto.
Qed.

Section VmAcct.
Variable okv : nat -> bool.
Variable okh : nat -> bool.

Lemma acct_add s ids :
  vms_acct s -> NoDup ids -> (forall x, In x ids -> vs_next s <= x) ->
  forall s', vs_views s' = vs_views s ++ ids -> vs_handles s' = vs_handles s ++ [Some ids] ->
  (forall x, In x ids -> x < vs_next s') -> vs_next s <= vs_next s' -> vms_acct s'.
Proof.
  intros [ND [P B]] NI F s' V H BN LE. split; [|split].
  - rewrite V. apply nodup_app_intro; auto. intros x Hx Hi. apply B in Hx. apply F in Hi. lia.
  - unfold live_ids. rewrite V, H, map_app, concat_app. cbn. rewrite app_nil_r. apply Permutation_app_tail. exact P.
  - rewrite V. intros x Hx. apply in_app_or in Hx. destruct Hx as [Hx|Hx]; [apply B in Hx; lia | auto].
Qed.

Lemma acct_none s s' :
  vms_acct s -> vs_views s' = vs_views s -> vs_handles s' = vs_handles s ++ [None] -> vs_next s <= vs_next s' -> vms_acct s'.
Proof.
  intros [ND [P B]] V H LE. split; [|split].
  - rewrite V. auto.
  - unfold live_ids. rewrite V, H, map_app, concat_app. cbn. rewrite app_nil_r. exact P.
  - rewrite V. intros x Hx. apply B in Hx. lia.
Qed.

Lemma nodup_filter {A} (f : A -> bool) l : NoDup l -> NoDup (filter f l).
Proof.
  induction 1 as [|a t N1 N2 IH]; cbn; [constructor|]. destruct (f a); auto. constructor; auto.
  intros X. apply filter_In in X. tauto.
Qed.

Lemma acct_release s i ids s' :
  vms_acct s -> nth i (vs_handles s) None = Some ids ->
  vs_views s' = remove_ids ids (vs_views s) -> vs_handles s' = upd_nth i (fun _ => None) (vs_handles s) -> vs_next s' = vs_next s ->
  vms_acct s'.
Proof.
  intros [ND [P B]] H V HH NX. destruct (concat_upd_none (vs_handles s) i ids H) as [A [Bq [E1 E2]]].
  unfold live_ids in P. rewrite E1 in P.
  assert (ND2 : NoDup (A ++ ids ++ Bq)) by (eapply Permutation_NoDup; eauto).
  split; [|split].
  - rewrite V. apply nodup_filter. auto.
  - unfold live_ids. rewrite V, HH, E2. rewrite <- (remove_ids_middle ids A Bq ND2). apply perm_filter. exact P.
  - rewrite V, NX. intros x Hx. apply filter_In in Hx. apply B. tauto.
Qed.

(* Every operation under every pair of oracles keeps the accounting invariant: whatever fails, whatever order things are
   released in, the live views are exactly the views of the handles not yet released.  In particular (vm_run_all_released) after
   every handle has been released no view is left. *)
Ltac fin_add :=
  cbn [vs_views vs_next vs_handles vs_heap push_handle app]; eauto; try lia; try reflexivity;
  try (repeat constructor; cbn; intros X; repeat (destruct X as [X|X]; try lia); lia);
  try (intros x Hx; cbn in Hx; repeat (destruct Hx as [Hx|Hx]; try (subst; lia)); tauto);
  try (rewrite <- app_assoc; reflexivity).

Ltac fin_none B :=
  cbn [vs_views vs_next vs_handles vs_heap push_handle]; eauto; try lia;
  try (rewrite <- ?app_assoc; cbn [app];
       first [ rewrite (remove_ids_app_fresh [_] _) | rewrite (remove_ids_app_fresh [_; _] _) ]; auto;
       intros x Hx Hin; cbn in Hx; apply B in Hin; repeat (destruct Hx as [Hx|Hx]; try (subst; lia)); tauto).

Theorem vm_step_acct op s kv kh r s' kv' kh' :
  vms_acct s -> vm_step okv okh op s kv kh = (r, s', kv', kh') -> vms_acct s'.
Proof.
  intros I E. pose proof I as [ND [P B]].
  destruct op as [| |i|dual|i]; cbn [vm_step] in E.
  - unfold vm_map in E. destruct (okv kv); inversion E; subst; clear E.
    + eapply (acct_add s [vs_next s]); fin_add.
    + eapply acct_none; fin_none B.
  - unfold vm_dual, vm_map in E. destruct (okv kv).
    + cbn [vs_views vs_next vs_heap vs_handles] in E. destruct (okv (S kv)); inversion E; subst; clear E.
      * eapply (acct_add s [vs_next s; S (vs_next s)]); fin_add.
      * eapply acct_none; fin_none B.
    + inversion E; subst; clear E. eapply acct_none; fin_none B.
  - destruct (nth i (vs_handles s) None) as [ids|] eqn:H; inversion E; subst; clear E; [|exact I].
    eapply acct_release; eauto.
  - destruct dual.
    + unfold vm_dual, vm_map in E. destruct (okv kv).
      * cbn [vs_views vs_next vs_heap vs_handles] in E. destruct (okv (S kv)).
        -- destruct (okh kh); inversion E; subst; clear E.
           ++ eapply (acct_add s [vs_next s; S (vs_next s)]); fin_add.
           ++ eapply acct_none; fin_none B.
        -- inversion E; subst; clear E. eapply acct_none; fin_none B.
      * inversion E; subst; clear E. eapply acct_none; fin_none B.
    + unfold vm_map in E. destruct (okv kv).
      * destruct (okh kh); inversion E; subst; clear E.
        -- eapply (acct_add s [vs_next s]); fin_add.
        -- eapply acct_none; fin_none B.
      * inversion E; subst; clear E. eapply acct_none; fin_none B.
  - destruct (nth i (vs_handles s) None) as [ids|] eqn:H; inversion E; subst; clear E; [|exact I].
    eapply acct_release; eauto.
Qed.

Fixpoint vm_run (ops : list vmop) (s : vms) (kv kh : nat) : list result * vms * nat * nat :=
  match ops with
  | [] => ([], s, kv, kh)
  | op :: t =>
      let '(r, s1, kv1, kh1) := vm_step okv okh op s kv kh in
      let '(rs, s2, kv2, kh2) := vm_run t s1 kv1 kh1 in (r :: rs, s2, kv2, kh2)
  end.

Theorem vm_run_acct ops : forall s kv kh rs s' kv' kh',
  vms_acct s -> vm_run ops s kv kh = (rs, s', kv', kh') -> vms_acct s'.
Proof.
  induction ops as [|op t IH]; intros s kv kh rs s' kv' kh' I E; cbn [vm_run] in E.
  - inversion E; subst. exact I.
  - destruct (vm_step okv okh op s kv kh) as [[[r s1] kv1] kh1] eqn:S1.
    destruct (vm_run t s1 kv1 kh1) as [[[rs2 s2] kv2] kh2] eqn:S2. inversion E; subst.
    eapply IH; [eapply vm_step_acct; eauto | eauto].
Qed.

(* whole scripts from the empty state, any oracles: once every handle has been released (or never existed because its
   allocation failed) no view is left *)
Theorem vm_run_all_released ops rs s' kv' kh' :
  vm_run ops vms_init 0 0 = (rs, s', kv', kh') ->
  Forall (fun h => h = None) (vs_handles s') -> vs_views s' = [].
Proof.
  intros E F. assert (I0 : vms_acct vms_init) by (split; [constructor | split; [apply perm_nil | intros x []]]).
  destruct (vm_run_acct ops _ _ _ _ _ _ _ I0 E) as [_ [P _]].
  assert (L : live_ids s' = []).
  { unfold live_ids. induction (vs_handles s') as [|h t IH]; cbn; auto. inversion F; subst. cbn. auto. }
  rewrite L in P. apply Permutation_sym, Permutation_nil in P. exact P.
Qed.

End VmAcct.

Local Open Scope Z_scope.

(* ---------------------------------------------------------------- success under any oracle = failure-free step *)

Section FailureFree.
Variable ok : nat -> bool.

Ltac all_ifs :=
  repeat match goal with
         | |- context [if ?c then _ else _] => destruct c
         | |- context [match ho_fixup_pool ?h with _ => _ end] => destruct (ho_fixup_pool h)
         | |- context [match ho_labels ?h with _ => _ end] => destruct (ho_labels h)
         | |- context [match ss_addrtab ?s with _ => _ end] => destruct (ss_addrtab s)
         end.

(* an operation that reports success under ANY oracle is, state and request counter included, the step of the failure-free run *)
Theorem str_step_ok_failure_free op s k s' k' :
  str_step ok op s k = (Ok, s', k') -> str_step all_ok op s k = (Ok, s', k').
Proof.
  destruct op; cbn [str_step]; unfold str_prepare_append, str_prepare_assign, str_assign_storage, all_ok; all_ifs; intros E; try discriminate; auto.
Qed.

Lemma new_section_ok_ff order s k s' k' :
  new_section ok order s k = (Ok, s', k') -> new_section all_ok order s k = (Ok, s', k').
Proof.
  unfold new_section, vec_reserve_one, vec_reserve_grow, vec_reserve_bytes, request, all_ok; all_ifs; intros E; try discriminate; auto.
Qed.

Lemma new_reloc_ok_ff ty h k h' k' :
  new_reloc ok ty h k = (Ok, h', k') -> new_reloc all_ok ty h k = (Ok, h', k').
Proof.
  unfold new_reloc, vec_reserve_one, vec_reserve_grow, vec_reserve_bytes, request, all_ok; all_ifs; intros E; try discriminate; auto.
Qed.

Lemma add_address_ok_ff addr s k s' k' :
  add_address ok addr s k = (Ok, s', k') -> add_address all_ok addr s k = (Ok, s', k').
Proof.
  unfold add_address. destruct (existsb (Z.eqb addr) (ss_entries s)); auto.
  destruct (ss_addrtab s).
  - unfold request, all_ok. destruct (ok k); intros E; try discriminate; auto.
  - destruct (new_section ok addrtab_order s k) as [[r s1] k1] eqn:NS. destruct r.
    + rewrite (new_section_ok_ff _ _ _ _ _ NS). unfold request, all_ok. destruct (ok k1); intros E; try discriminate; auto.
    + intros E; discriminate.
    + intros E; discriminate.
Qed.

Theorem holder2_step_ok_failure_free op h k h' k' :
  holder2_step ok true op h k = (Ok, h', k') -> holder2_step all_ok true op h k = (Ok, h', k').
Proof.
  destruct op as [o|order|addr|addr]; cbn [holder2_step].
  - destruct (holder_step ok true o (h2_base h) k) as [[r b] k1] eqn:S. intros E. inversion E; subst.
    rewrite (holder_step_ok_failure_free ok o (h2_base h) k b k' S). reflexivity.
  - destruct (new_section ok order (h2_sects h) k) as [[r s] k1] eqn:S. intros E. inversion E; subst.
    rewrite (new_section_ok_ff _ _ _ _ _ S). reflexivity.
  - destruct (add_address ok addr (h2_sects h) k) as [[r s] k1] eqn:S. intros E. inversion E; subst.
    rewrite (add_address_ok_ff _ _ _ _ _ S). reflexivity.
  - unfold call_abs. destruct (new_reloc ok 5 (h2_base h) k) as [[r b1] k1] eqn:NR. destruct r; try (intros E; discriminate).
    rewrite (new_reloc_ok_ff _ _ _ _ _ NR).
    destruct (add_address ok addr (h2_sects h) k1) as [[r2 s2] k2] eqn:AA. destruct r2; try (intros E; discriminate).
    rewrite (add_address_ok_ff _ _ _ _ _ AA). auto.
Qed.

Theorem vm_step_ok_failure_free okh op s kv kh s' kv' kh' :
  vm_step ok okh op s kv kh = (Ok, s', kv', kh') -> vm_step all_ok all_ok op s kv kh = (Ok, s', kv', kh').
Proof.
  destruct op as [| |i|dual|i]; cbn [vm_step]; unfold vm_dual, vm_map, all_ok;
    repeat match goal with
           | |- context [if ?c then _ else _] => destruct c
           | |- context [match nth ?i ?l None with _ => _ end] => destruct (nth i l None)
           end; intros E; try discriminate; auto.
Qed.
End FailureFree.

(* VirtMem / JitAllocator blocks: when neither mmap nor malloc fails no operation reports kOutOfMemory (errors are never
   spurious), for single steps and whole scripts *)
Lemma vm_step_all_ok_never_oom op s kv kh r s' kv' kh' :
  vm_step all_ok all_ok op s kv kh = (r, s', kv', kh') -> r <> Oom.
Proof.
  destruct op as [| |i|dual|i]; cbn [vm_step]; unfold vm_dual, vm_map, all_ok;
    repeat match goal with
           | |- context [if ?c then _ else _] => destruct c
           | |- context [match nth ?i ?l None with _ => _ end] => destruct (nth i l None)
           end; intros E; inversion E; discriminate.
Qed.

Theorem vm_run_all_ok_never_oom ops : forall s kv kh rs s' kv' kh',
  vm_run all_ok all_ok ops s kv kh = (rs, s', kv', kh') -> ~ In Oom rs.
Proof.
  induction ops as [|op t IH]; intros s kv kh rs s' kv' kh' E; cbn [vm_run] in E.
  - inversion E; subst. intros [].
  - destruct (vm_step all_ok all_ok op s kv kh) as [[[r s1] kv1] kh1] eqn:S1.
    destruct (vm_run all_ok all_ok t s1 kv1 kh1) as [[[rs2 s2] kv2] kh2] eqn:S2.
    inversion E; subst; clear E. intros [F|F].
    + exact (vm_step_all_ok_never_oom _ _ _ _ _ _ _ _ S1 F).
    + exact (IH _ _ _ _ _ _ _ S2 F).
Qed.

(* ---------------------------------------------------------------- run level: String, Builder *)

Section RunLevel.
Variable ok : nat -> bool.

Fixpoint str_run (ops : list sop) (s : str) (k : nat) : list result * str * nat :=
  match ops with
  | [] => ([], s, k)
  | op :: t => let '(r, s1, k1) := str_step ok op s k in let '(rs, s2, k2) := str_run t s1 k1 in (r :: rs, s2, k2)
  end.

Fixpoint str_replay (ops : list sop) (rs : list result) (l : list Z) : list Z :=
  match ops, rs with
  | op :: ops', r :: rs' => str_replay ops' rs' (match r with Ok => str_spec op l | _ => l end)
  | _, _ => l
  end.

(* String, whole scripts under any heap oracle: the final characters are what the oracle-free specification gives for exactly the
   operations that reported success; the invariant holds at the end; at most one malloc per operation *)
Theorem str_run_failed_ops_vanish ops : forall s k rs s' k',
  Forall sop_wf ops -> str_inv s -> str_run ops s k = (rs, s', k') ->
  st_chars s' = str_replay ops rs (st_chars s) /\ str_inv s' /\ length rs = length ops /\ ~ In Invalid rs /\ (k <= k' <= k + length ops)%nat.
Proof.
  induction ops as [|op t IH]; intros s k rs s' k' W I E; cbn [str_run] in E.
  - inversion E; subst. cbn. split; [reflexivity|]. split; [exact I|]. split; [reflexivity|]. split; [intros []|lia].
  - destruct (str_step ok op s k) as [[r s1] k1] eqn:S1. destruct (str_run t s1 k1) as [[rs2 s2] k2] eqn:S2.
    inversion E; subst; clear E. inversion W; subst.
    destruct (str_step_atomic ok op s k r s1 k1 H1 I S1) as [Hk [NI [I1 [HO HK]]]].
    destruct (IH s1 k1 rs2 s' k' H2 I1 S2) as [A [B [C [D K]]]].
    cbn [str_replay length]. split; [|split; [exact B|split; [lia|split; [|lia]]]].
    + rewrite A. destruct r; [rewrite HK by auto; auto | rewrite HO by auto; auto | congruence].
    + intros [F|F]; [congruence|auto].
Qed.

Fixpoint builder_run (ops : list bop) (h : holder2) (b : bld) (k : nat) : list result * holder2 * bld * nat :=
  match ops with
  | [] => ([], h, b, k)
  | op :: t => let '(r, h1, b1, k1) := builder_step ok op h b k in let '(rs, h2, b2, k2) := builder_run t h1 b1 k1 in (r :: rs, h2, b2, k2)
  end.

Fixpoint bld_replay (ops : list bop) (rs : list result) (c : blist) : blist :=
  match ops, rs with
  | op :: ops', r :: rs' => bld_replay ops' rs' (match r with Ok => bld_spec op c | _ => c end)
  | _, _ => c
  end.

(* Builder, whole scripts under any oracle: node list, cursor and bound labels at the end are what the oracle-free specification
   gives for exactly the operations that reported success (sections of the holder are never touched by Builder operations) *)
Theorem builder_run_failed_ops_vanish ops : forall h b k rs h' b' k',
  builder_run ops h b k = (rs, h', b', k') ->
  bld_list b' = bld_replay ops rs (bld_list b) /\ h2_sects h' = h2_sects h /\ length rs = length ops.
Proof.
  induction ops as [|op t IH]; intros h b k rs h' b' k' E; cbn [builder_run] in E.
  - inversion E; subst. cbn. auto.
  - destruct (builder_step ok op h b k) as [[[r h1] b1] k1] eqn:S1. destruct (builder_run t h1 b1 k1) as [[[rs2 h2] b2] k2] eqn:S2.
    inversion E; subst; clear E.
    destruct (builder_step_atomic ok op h b k r h1 b1 k1 S1) as [NE [_ OKc]].
    destruct (IH h1 b1 k1 rs2 h' b' k' S2) as [A [B C]].
    cbn [bld_replay length]. destruct r.
    + destruct (OKc eq_refl) as [L [SE _]]. rewrite A, L, B, SE. auto.
    + destruct (NE ltac:(discriminate)) as [L [SE _]]. rewrite A, L, B, SE. auto.
    + destruct (NE ltac:(discriminate)) as [L [SE _]]. rewrite A, L, B, SE. auto.
Qed.
End RunLevel.

(* String: when no malloc fails every operation reports success (errors are never spurious) and the final characters are the
   oracle-free specification folded over ALL operations *)
Lemma str_step_all_ok op s k r s' k' : str_step all_ok op s k = (r, s', k') -> r = Ok.
Proof.
  destruct op; cbn [str_step]; unfold str_prepare_append, str_prepare_assign, str_assign_storage, all_ok;
    repeat match goal with |- context [if ?c then _ else _] => destruct c end; intros E; inversion E; reflexivity.
Qed.

Theorem str_run_all_ok ops : forall s k rs s' k',
  Forall sop_wf ops -> str_inv s -> str_run all_ok ops s k = (rs, s', k') ->
  Forall (fun r => r = Ok) rs /\ st_chars s' = fold_left (fun l op => str_spec op l) ops (st_chars s).
Proof.
  induction ops as [|op t IH]; intros s k rs s' k' W I E; cbn [str_run] in E.
  - inversion E; subst. split; [constructor|reflexivity].
  - destruct (str_step all_ok op s k) as [[r s1] k1] eqn:S1. destruct (str_run all_ok t s1 k1) as [[rs2 s2] k2] eqn:S2.
    inversion E; subst; clear E. inversion W; subst.
    pose proof (str_step_all_ok op s k r s1 k1 S1) as RO.
    destruct (str_step_atomic all_ok op s k r s1 k1 H1 I S1) as [_ [_ [I1 [_ HK]]]].
    destruct (IH s1 k1 rs2 s' k' H2 I1 S2) as [A B].
    split; [constructor; [exact RO|exact A]|]. cbn [fold_left]. rewrite B, (HK RO). reflexivity.
Qed.

(* ArenaHash: when no request fails, no insert reports kOutOfMemory (for any prime table); errors are never spurious *)
Lemma hash_step_all_ok_never_oom primes op h k r h' k' : hash_step all_ok primes op h k = (r, h', k') -> r <> Oom.
Proof.
  destruct op as [key|key]; cbn [hash_step]; unfold request, all_ok.
  - match goal with |- context [hash_insert_node ?o ?p ?a ?b ?c] => destruct (hash_insert_node o p a b c) as [h1 k2] end.
    intros E; inversion E; discriminate.
  - destruct (hash_get h key); intros E; inversion E; discriminate.
Qed.

Theorem hash_run_all_ok_never_oom primes ops : forall h k rs h' k',
  hash_run all_ok primes ops h k = (rs, h', k') -> ~ In Oom rs.
Proof.
  induction ops as [|op t IH]; intros h k rs h' k' E; cbn [hash_run] in E.
  - inversion E; subst. intros [].
  - destruct (hash_step all_ok primes op h k) as [[r h1] k1] eqn:S1. destruct (hash_run all_ok primes t h1 k1) as [[rs2 h2] k2] eqn:S2.
    inversion E; subst; clear E. intros [F|F].
    + exact (hash_step_all_ok_never_oom _ _ _ _ _ _ _ S1 F).
    + exact (IH _ _ _ _ _ S2 F).
Qed.

Lemma primes_pos_of_forallb l : forallb (fun p => 0 <? p) l = true -> Forall (fun p => 0 < p) l.
Proof.
  intros H. apply Forall_forall. intros x Hx. rewrite forallb_forall in H. apply Z.ltb_lt. auto.
Qed.

Lemma pool_empty_trees : length (p_trees pool_empty) = index_count.
Proof. reflexivity. Qed.

(* ---- vectors: when no request fails, a refusal happens exactly at the 32-bit size limit (round 6) ---- *)
Definition vec_need (op : vop) (v : vec) : Z :=
  match op with
  | VAppend _ | VPrepend _ | VInsert _ _ => vsize v + 1
  | VResizeGrow n | VResizeFit n | VReserveFit n | VReserveGrow n => n
  | VReserveAdd n => vsize v + n
  | VClear | VPop => 0
  end.

Theorem vec_all_ok_refusal isz op v k r v' k' :
  vec_inv v -> vec_step all_ok isz op v k = (r, v', k') ->
  r <> Invalid /\ (r = Oom <-> v_cap v < vec_need op v /\ max_items <= vec_need op v).
Proof.
  unfold vec_inv. intros I.
  destruct op; cbn [vec_step vec_need];
    unfold vec_reserve_one, vec_reserve_additional, vec_reserve_grow, vec_reserve_fit, vec_reserve_bytes, request, all_ok;
    repeat match goal with |- context [if ?c then _ else _] => destruct c eqn:? end;
    rewrite ?Z.leb_le, ?Z.leb_gt, ?Z.ltb_lt, ?Z.ltb_ge, ?Z.eqb_eq, ?Z.eqb_neq in *;
    unfold max_items in *; intros E; inversion E; subst; (split; [discriminate|]); (split; [try discriminate; intros; lia | intros [? ?]; try reflexivity; lia]).
Qed.

(* ---- CodeHolder: when no request fails and the vectors are below the 32-bit size limit, nothing reports kOutOfMemory (round 6) ---- *)
Definition holder_small (h : holder) : Prop :=
  Z.of_nat (length (ho_labels h)) + 2 < max_items /\ Z.of_nat (length (ho_relocs h)) + 2 < max_items.

Theorem holder_all_ok_never_oom op h k r h' k' :
  holder_small h -> holder_step all_ok true op h k = (r, h', k') -> r <> Oom.
Proof.
  unfold holder_small, max_items. intros [B1 B2].
  destruct op; cbn [holder_step]; unfold embed_label, embed_delta, new_label, new_reloc, new_fixup, bind_label, labels_vec, relocs_vec,
    vec_reserve_one, vec_reserve_grow, vec_reserve_bytes, request, all_ok, vsize, max_items; cbn [v_items v_cap];
    rewrite ?map_length;
    repeat match goal with
      | |- context [if ?c then _ else _] => destruct c eqn:?
      | |- context [match ho_fixup_pool ?x with _ => _ end] => destruct (ho_fixup_pool x)
      | |- context [match nth_error ?a ?b with _ => _ end] => destruct (nth_error a b)
      | |- context [match ho_labels ?x with _ => _ end] => destruct (ho_labels x) eqn:?
      end;
    rewrite ?Z.leb_le, ?Z.leb_gt, ?Z.ltb_lt, ?Z.ltb_ge, ?Z.eqb_eq, ?Z.eqb_neq in *;
    intros E; inversion E; subst; try discriminate; try lia.
Qed.

Definition sects_small (s : sects) : Prop :=
  Z.of_nat (length (ss_orders s)) + 2 < max_items /\ Z.of_nat (length (ss_by_order s)) + 2 < max_items.

Ltac never_oom_tac :=
  repeat match goal with
    | |- context [if ?c then _ else _] => destruct c eqn:?
    | |- context [match ho_fixup_pool ?x with _ => _ end] => destruct (ho_fixup_pool x)
    | |- context [match nth_error ?a ?b with _ => _ end] => destruct (nth_error a b)
    | |- context [match ho_labels ?x with _ => _ end] => destruct (ho_labels x) eqn:?
    | |- context [match ss_addrtab ?x with _ => _ end] => destruct (ss_addrtab x) eqn:?
    end;
  rewrite ?Z.leb_le, ?Z.leb_gt, ?Z.ltb_lt, ?Z.ltb_ge, ?Z.eqb_eq, ?Z.eqb_neq in *;
  intros E; inversion E; subst; try discriminate; try lia.

Lemma new_section_all_ok order s k r s' k' : sects_small s -> new_section all_ok order s k = (r, s', k') -> r = Ok.
Proof.
  unfold sects_small, max_items. intros [B1 B2].
  unfold new_section, vec_reserve_one, vec_reserve_grow, vec_reserve_bytes, request, all_ok, vsize, max_items; cbn [v_items v_cap ss_orders ss_cap ss_by_order ss_by_cap];
    rewrite ?map_length;
    repeat match goal with |- context [if ?c then _ else _] => destruct c eqn:? end;
    rewrite ?Z.leb_le, ?Z.leb_gt, ?Z.ltb_lt, ?Z.ltb_ge, ?Z.eqb_eq, ?Z.eqb_neq in *;
    intros E; inversion E; subst; try reflexivity; try lia.
Qed.

Lemma add_address_all_ok addr s k r s' k' : sects_small s -> add_address all_ok addr s k = (r, s', k') -> r = Ok.
Proof.
  intros B. unfold add_address. destruct (existsb (Z.eqb addr) (ss_entries s)); [intros E; inversion E; reflexivity|].
  destruct (ss_addrtab s).
  - unfold request, all_ok. cbn. intros E; inversion E; reflexivity.
  - destruct (new_section all_ok addrtab_order s k) as [[r1 s1] k1] eqn:NS. rewrite (new_section_all_ok _ _ _ _ _ _ B NS).
    unfold request, all_ok. cbn. intros E; inversion E; reflexivity.
Qed.

Lemma new_reloc_all_ok ty h k r h' k' : holder_small h -> new_reloc all_ok ty h k = (r, h', k') -> r <> Oom.
Proof.
  unfold holder_small, max_items. intros [B1 B2].
  unfold new_reloc, relocs_vec, vec_reserve_one, vec_reserve_grow, vec_reserve_bytes, request, all_ok, vsize, max_items; cbn [v_items v_cap];
    never_oom_tac.
Qed.

Definition holder2_small (h : holder2) : Prop := holder_small (h2_base h) /\ sects_small (h2_sects h).

Theorem holder2_all_ok_never_oom op h k r h' k' :
  holder2_small h -> holder2_step all_ok true op h k = (r, h', k') -> r <> Oom.
Proof.
  intros [B1 B2]. destruct op as [o|order|addr|addr]; cbn [holder2_step].
  - destruct (holder_step all_ok true o (h2_base h) k) as [[r1 b] k1] eqn:HS. intros E; inversion E; subst.
    exact (holder_all_ok_never_oom _ _ _ _ _ _ B1 HS).
  - destruct (new_section all_ok order (h2_sects h) k) as [[r1 s] k1] eqn:NS. intros E; inversion E; subst.
    rewrite (new_section_all_ok _ _ _ _ _ _ B2 NS). discriminate.
  - destruct (add_address all_ok addr (h2_sects h) k) as [[r1 s] k1] eqn:AA. intros E; inversion E; subst.
    rewrite (add_address_all_ok _ _ _ _ _ _ B2 AA). discriminate.
  - unfold call_abs. destruct (new_reloc all_ok 5 (h2_base h) k) as [[r1 b1] k1] eqn:NR.
    pose proof (new_reloc_all_ok 5 _ _ _ _ _ B1 NR) as N1.
    destruct r1; [|contradiction|].
    + destruct (add_address all_ok addr (h2_sects h) k1) as [[r2 s2] k2] eqn:AA. rewrite (add_address_all_ok _ _ _ _ _ _ B2 AA).
      intros E; inversion E; discriminate.
    + intros E; inversion E; discriminate.
Qed.

(* ---- ConstPool and Builder: never spurious (round 6) ---- *)
Lemma pool_add_all_ok_never_oom d p k r o p' k' : pool_add all_ok d p k = (r, o, p', k') -> r <> Oom.
Proof.
  unfold pool_add, request, all_ok.
  repeat (cbn beta iota zeta; match goal with
    | |- context [if ?c then _ else _] => destruct c
    | |- context [match ?x with _ => _ end] => lazymatch x with (_, _) => fail | _ => destruct x end
    end); cbn beta iota zeta; intros E; inversion E; discriminate.
Qed.

Theorem pool_run_all_ok_never_oom ds : forall p k rs p' k', pool_run all_ok ds p k = (rs, p', k') -> ~ In Oom (map fst rs).
Proof.
  induction ds as [|d t IH]; intros p k rs p' k' E; cbn [pool_run] in E.
  - inversion E; subst. intros [].
  - destruct (pool_add all_ok d p k) as [[[r o] p1] k1] eqn:S1. destruct (pool_run all_ok t p1 k1) as [[rs2 p2] k2] eqn:S2.
    inversion E; subst; clear E. cbn [map fst]. intros [F|F].
    + exact (pool_add_all_ok_never_oom _ _ _ _ _ _ _ S1 F).
    + exact (IH _ _ _ _ _ S2 F).
Qed.

Definition builder_small (h : holder2) (b : bld) : Prop :=
  holder_small (h2_base h) /\ Z.of_nat (length (ss_orders (h2_sects h))) + 2 < max_items /\
  Z.of_nat (length (b_lnodes b)) + 2 < max_items /\ Z.of_nat (length (b_snodes b)) + 2 < max_items.

Theorem builder_all_ok_never_oom op h b k r h' b' k' :
  builder_small h b -> builder_step all_ok op h b k = (r, h', b', k') -> r <> Oom.
Proof.
  unfold builder_small, holder_small, max_items. intros [[B1 B2] [B3 [B4 B5]]].
  destruct op; unfold builder_step; cbn [builder_step_gen];
    unfold b_new_label, b_bind, b_section, b_const_pool, b_label_node, new_label, labels_vec, bools_vec,
      vec_reserve_one, vec_reserve_additional, vec_reserve_grow, vec_reserve_bytes, request, all_ok, vsize, max_items;
    cbn [b_simple_node v_items v_cap]; unfold request, all_ok; rewrite ?map_length;
    repeat (cbn beta iota zeta; match goal with
      | |- context [if ?c then _ else _] => destruct c eqn:?
      end);
    cbn beta iota zeta;
    rewrite ?Z.leb_le, ?Z.leb_gt, ?Z.ltb_lt, ?Z.ltb_ge, ?Z.eqb_eq, ?Z.eqb_neq, ?Nat.ltb_lt, ?Nat.ltb_ge in *;
    intros E; inversion E; subst; try discriminate; try lia.
Qed.

(* ---- frame conditions (round 6) ---- *)
Local Close Scope Z_scope.
(* VirtMem / JitAllocator blocks: what a step must NOT touch - every handle other than the one it releases keeps its views, an
   allocating step only appends one handle, ids stay fresh, and the request counters move by at most 2 (mmap) and 1 (malloc) *)
Definition vmop_target (op : vmop) : option nat := match op with VRel i | VDel i => Some i | _ => None end.

Theorem vm_step_frame okv okh op s kv kh r s' kv' kh' :
  vm_step okv okh op s kv kh = (r, s', kv', kh') ->
  (forall i, i < length (vs_handles s) -> vmop_target op <> Some i -> nth i (vs_handles s') None = nth i (vs_handles s) None) /\
  length (vs_handles s') = (match vmop_target op with Some _ => length (vs_handles s) | None => S (length (vs_handles s)) end) /\
  vs_next s <= vs_next s' /\ kv <= kv' <= kv + 2 /\ kh <= kh' <= kh + 1 /\
  (r <> Ok -> match vmop_target op with Some _ => s' = s | None => True end).
Proof.
  destruct op as [| |i|dual|i]; cbn [vm_step vmop_target]; unfold vm_dual, vm_map, push_handle;
    repeat match goal with
           | |- context [if ?c then _ else _] => destruct c
           | |- context [match nth ?i ?l None with _ => _ end] => destruct (nth i l None) eqn:?
           end; intros E; inversion E; subst; clear E; cbn [vs_handles vs_next vs_heap vs_views];
    (split; [intros j Hj NE; try (rewrite app_nth1 by exact Hj; reflexivity); try reflexivity;
             try (apply nth_upd_nth_other; intros ->; apply NE; reflexivity) |]);
    (split; [try (rewrite app_length; cbn; lia); try (apply upd_nth_length); try reflexivity|]);
    (split; [lia|]); (split; [lia|]); (split; [lia|]); try (intros _; exact I); try (intros X; exfalso; apply X; reflexivity); try reflexivity; auto.
Qed.

(* RA home slots: a step on register w touches nothing that belongs to another register *)
Theorem ra_step_frame ok op s k r s' k' :
  ra_step ok op s k = (r, s', k') ->
  (forall w', w' <> raop_reg op -> has_home s' w' = has_home s w') /\
  (ra_slots s' = ra_slots s \/ ra_slots s' = ra_slots s ++ [raop_reg op]) /\
  (ra_refs s' = ra_refs s \/ (op = RAsMem (raop_reg op) /\ ra_refs s' = raop_reg op :: ra_refs s)) /\
  k <= k' <= k + 2.
Proof.
  destruct op as [w|w]; cbn [ra_step raop_reg]; unfold ra_new_slot, vec_reserve_one, vec_reserve_grow, vec_reserve_bytes, request, has_home;
    cbn [v_cap v_items];
    repeat match goal with |- context [if ?c then _ else _] => destruct c end;
    intros E; inversion E; subst; clear E; cbn [ra_home ra_slots ra_refs ra_cap];
    (split; [intros w' NE; try reflexivity; apply nth_upd_nth_other; auto|]);
    (split; [auto|]); (split; [auto|lia]).
Qed.

Local Open Scope Z_scope.

(* ---- CodeHolder, whole scripts: never spurious (round 6) ---- *)
Lemma holder_step_growth ok op h k r h' k' :
  holder_step ok true op h k = (r, h', k') ->
  (length (ho_labels h') <= S (length (ho_labels h)))%nat /\ (length (ho_relocs h') <= S (length (ho_relocs h)))%nat.
Proof.
  destruct op; cbn [holder_step]; unfold embed_label, embed_delta, new_label, new_reloc, new_fixup, bind_label, pop_reloc, labels_vec, relocs_vec,
    vec_reserve_one, vec_reserve_grow, vec_reserve_bytes, request; cbn [v_items v_cap];
    repeat match goal with
      | |- context [if ?c then _ else _] => destruct c
      | |- context [match ho_fixup_pool ?x with _ => _ end] => destruct (ho_fixup_pool x)
      | |- context [match nth_error ?a ?b with _ => _ end] => destruct (nth_error a b)
      | |- context [match ho_labels ?x with _ => _ end] => destruct (ho_labels x) eqn:?
      end;
    intros E; inversion E; subst; cbn; rewrite ?removelast_last, ?app_length, ?upd_nth_length; cbn;
    repeat match goal with H : ho_labels ?x = _ |- _ => rewrite ?H; clear H end; cbn; try lia.
Qed.

(* whole scripts: when no request fails and the label / relocation vectors stay below the 32-bit limit for the whole script
   (their lengths plus the number of operations), no operation reports kOutOfMemory *)
Theorem holder_run_all_ok_never_oom ops : forall h k rs h' k',
  Z.of_nat (length (ho_labels h)) + Z.of_nat (length ops) + 2 < max_items ->
  Z.of_nat (length (ho_relocs h)) + Z.of_nat (length ops) + 2 < max_items ->
  holder_run all_ok true ops h k = (rs, h', k') -> ~ In Oom rs.
Proof.
  induction ops as [|op t IH]; intros h k rs h' k' B1 B2 E; cbn [holder_run] in E.
  - inversion E; subst. intros [].
  - destruct (holder_step all_ok true op h k) as [[r h1] k1] eqn:S1. destruct (holder_run all_ok true t h1 k1) as [[rs2 h2] k2] eqn:S2.
    inversion E; subst; clear E. cbn [length] in B1, B2.
    destruct (holder_step_growth all_ok op h k r h1 k1 S1) as [G1 G2].
    intros [F|F].
    + apply (holder_all_ok_never_oom op h k r h1 k1); [split; lia|exact S1|exact F].
    + apply (IH h1 k1 rs2 h' k'); [lia|lia|exact S2|exact F].
Qed.

(* C15: Arena::alloc_oneshot / _alloc_oneshot / reset under every heap oracle. *)
From Coq Require Import ZArith List Bool Lia.
From Verif Require Import OomTxn.OracleModel.
Import ListNotations.
Local Open Scope Z_scope.

Definition arena_used (a : arena) : Z := last (a_pre a) 0 - a_rem a.
Definition arena_blocks (a : arena) : nat := (length (a_pre a) + length (a_nxt a))%nat.

Definition arena_inv (a : arena) : Prop :=
  (a_pre a = [] -> a_rem a = 0) /\ 0 <= a_rem a <= last (a_pre a) 0 /\ Forall (fun b => 0 <= b) (a_pre a ++ a_nxt a).

Lemma take_next_spec size : forall nxt b t, take_next size nxt = Some (b, t) ->
  size <= b /\ In b nxt /\ (length t < length nxt)%nat /\ (forall x, In x t -> In x nxt).
Proof.
  induction nxt as [|c r IH]; intros b t E; cbn [take_next] in E; [discriminate|].
  destruct (Z.leb_spec size c) as [L|L].
  - inversion E; subst. repeat split; cbn; auto; try lia.
  - destruct (IH b t E) as [A [B [C D]]]. repeat split; cbn; auto; try lia.
Qed.

Section WithOracle.
Variable okh : nat -> bool.

(* Every allocation, every oracle.  A refusal leaves the current block, the bytes still free in it and all blocks in front of it
   exactly as they were (everything handed out before stays valid; only spare blocks behind the current one may have been given
   back); at most one malloc.  A success takes the bytes either from the current block - exactly at the end of what was handed out
   before - or from the start of a block that becomes the new current block and is at least as large as the request. *)
Theorem arena_alloc_atomic size a k r a' k' :
  arena_alloc okh size a k = (r, a', k') ->
  r <> Invalid /\ (k <= k' <= S k)%nat /\ a_min a' = a_min a /\
  (r = Oom -> a_pre a' = a_pre a /\ a_rem a' = a_rem a /\ a_shift a' = a_shift a /\ a_nxt a' = [] /\ (k' = k -> size_max - 48 < size)) /\
  (r = Ok ->
     (a_pre a' = a_pre a /\ size <= a_rem a /\ a_rem a' = a_rem a - size /\ a_nxt a' = a_nxt a /\ k' = k) \/
     (exists b, a_pre a' = a_pre a ++ [b] /\ size <= b /\ a_rem a' = b - size /\ a_rem a < size /\
                (length (a_nxt a') <= length (a_nxt a))%nat)).
Proof.
  unfold arena_alloc, arena_hdr, arena_ovh, size_max. intros E.
  destruct (Z.leb_spec size (a_rem a)) as [F|F].
  - inversion E; subst. cbn. repeat split; try discriminate; try reflexivity; try lia. intros _. left. repeat split; lia.
  - destruct (take_next size (a_nxt a)) as [[b t]|] eqn:TN.
    + destruct (take_next_spec _ _ _ _ TN) as [A [_ [C _]]]. inversion E; subst. cbn. repeat split; try discriminate; try reflexivity; try lia.
      intros _. right. exists b. repeat split; auto; lia.
    + destruct (Z.ltb_spec (2 ^ a_shift a - (16 + 32)) size) as [B|B]; cbn [andb] in E.
      * destruct (Z.ltb_spec (18446744073709551615 - (16 + 32)) size) as [O|O].
        -- inversion E; subst. cbn. repeat split; try discriminate; try reflexivity; try lia.
        -- destruct (okh k); inversion E; subst; cbn; repeat split; try discriminate; try reflexivity; try lia.
           intros _. right. exists (size + 16 - 16). repeat split; auto; lia.
      * destruct (okh k); inversion E; subst; cbn; repeat split; try discriminate; try reflexivity; try lia.
        intros _. right. exists (2 ^ a_shift a - 32 - 16). repeat split; auto; lia.
Qed.

(* the invariant (the free bytes are the tail of the current block) is kept by every step *)
Lemma last_snoc (l : list Z) b : last (l ++ [b]) 0 = b.
Proof. apply last_last. Qed.

Theorem arena_step_inv op a k r a' k' :
  (match op with AAlloc size => 0 <= size | _ => True end) -> arena_inv a -> arena_step okh op a k = (r, a', k') -> arena_inv a'.
Proof.
  intros W [Z0 [RB FA]] E. destruct op as [size|hard]; cbn [arena_step] in E.
  - destruct (arena_alloc_atomic size a k r a' k' E) as [_ [_ [_ [HO HK]]]].
    assert (NXT : forall x, In x (a_nxt a') -> In x (a_nxt a)).
    { unfold arena_alloc in E. destruct (size <=? a_rem a); [inversion E; subst; auto|].
      destruct (take_next size (a_nxt a)) as [[b t]|] eqn:TN.
      - destruct (take_next_spec _ _ _ _ TN) as [_ [_ [_ D]]]. inversion E; subst. exact D.
      - destruct (_ && _); [inversion E; subst; intros x []|]. destruct (okh k); inversion E; subst; intros x []. }
    rewrite Forall_forall in FA.
    destruct r.
    + destruct (HK eq_refl) as [[P [S1 [R1 [N1 _]]]]|[b [P [S1 [R1 [S2 _]]]]]].
      * split; [intros X; rewrite P in X; specialize (Z0 X); lia|]. split; [rewrite P; lia|].
        apply Forall_forall. intros x Hx. apply FA. rewrite P, N1 in Hx. exact Hx.
      * split; [intros X; rewrite P in X; destruct (a_pre a); discriminate|]. split; [rewrite P, last_snoc; lia|].
        apply Forall_forall. intros x Hx. rewrite P in Hx. apply in_app_or in Hx. destruct Hx as [Hx|Hx].
        -- apply in_app_or in Hx. destruct Hx as [Hx|[<-|[]]]; [apply FA; apply in_or_app; left; exact Hx|lia].
        -- apply FA. apply in_or_app. right. apply NXT. exact Hx.
    + destruct (HO eq_refl) as [P [R1 [_ [N1 _]]]]. split; [intros X; rewrite P in X; rewrite R1; auto|]. split; [rewrite P, R1; exact RB|].
      apply Forall_forall. intros x Hx. rewrite P, N1, app_nil_r in Hx. apply FA. apply in_or_app. left. exact Hx.
    + destruct (arena_alloc_atomic size a k Invalid a' k' E) as [X _]. contradiction.
  - inversion E; subst. unfold arena_reset. destruct hard.
    + repeat split; cbn; auto; lia.
    + rewrite Forall_forall in FA. destruct (a_pre a ++ a_nxt a) as [|f t] eqn:L; [split; [exact Z0|split; [exact RB|rewrite L; constructor]]|].
      repeat split; cbn [a_pre a_rem a_nxt last]; try discriminate; try lia.
      * apply FA. left. reflexivity.
      * apply Forall_forall. intros x Hx. apply FA. exact Hx.
Qed.

(* where the bytes of a successful allocation lie: in the current block right behind everything handed out from it before, or
   at offset 0 of a block that was not in use - so the allocations made between two resets never overlap *)
Theorem arena_alloc_region size a k a' k' :
  arena_alloc okh size a k = (Ok, a', k') ->
  (arena_last size a' = ((length (a_pre a) - 1)%nat, arena_used a) /\ arena_used a' = arena_used a + size /\ a_pre a' = a_pre a) \/
  (arena_last size a' = (length (a_pre a), 0) /\ arena_used a' = size /\ length (a_pre a') = S (length (a_pre a))).
Proof.
  intros E. destruct (arena_alloc_atomic size a k Ok a' k' E) as [_ [_ [_ [_ HK]]]].
  destruct (HK eq_refl) as [[P [S1 [R1 _]]]|[b [P [S1 [R1 _]]]]]; unfold arena_last, arena_used.
  - left. rewrite P, R1. split; [f_equal; lia|split; [lia|reflexivity]].
  - right. rewrite P, R1, last_snoc, app_length. cbn [length]. split; [f_equal; lia|split; lia].
Qed.

(* heap blocks: an allocation adds at most one, a refused one adds none, a hard reset gives all back, a soft reset keeps all *)
Theorem arena_step_blocks op a k r a' k' :
  arena_step okh op a k = (r, a', k') ->
  match op with
  | AAlloc _ => (arena_blocks a' <= S (arena_blocks a))%nat /\ (r = Oom -> (arena_blocks a' <= arena_blocks a)%nat) /\
                ((arena_blocks a < arena_blocks a')%nat -> k' = S k)
  | AReset true => arena_blocks a' = 0%nat
  | AReset false => arena_blocks a' = arena_blocks a
  end.
Proof.
  intros E. destruct op as [size|hard]; cbn [arena_step] in E.
  - destruct (arena_alloc_atomic size a k r a' k' E) as [_ [_ [_ [HO HK]]]].
    assert (KK : (arena_blocks a < arena_blocks a')%nat -> k' = S k).
    { unfold arena_blocks, arena_alloc in *. destruct (size <=? a_rem a); [inversion E; subst; cbn; lia|].
      destruct (take_next size (a_nxt a)) as [[b t]|] eqn:TN.
      - destruct (take_next_spec _ _ _ _ TN) as [_ [_ [C _]]]. inversion E; subst. cbn. rewrite app_length. cbn. lia.
      - destruct (_ && _); [inversion E; subst; cbn; lia|]. destruct (okh k); inversion E; subst; reflexivity. }
    assert (LE : (arena_blocks a' <= S (arena_blocks a))%nat /\ (r = Oom -> (arena_blocks a' <= arena_blocks a)%nat)).
    { unfold arena_blocks. destruct r.
      - destruct (HK eq_refl) as [[P [_ [_ [N1 _]]]]|[b [P [_ [_ [_ LN]]]]]].
        + rewrite P, N1. split; [lia|discriminate].
        + rewrite P, app_length. cbn [length]. split; [lia|discriminate].
      - destruct (HO eq_refl) as [P [_ [_ [N1 _]]]]. rewrite P, N1. cbn [length]. split; intros; lia.
      - destruct (arena_alloc_atomic size a k Invalid a' k' E) as [X _]. contradiction. }
    destruct LE as [L1 L2]. split; [exact L1|split; [exact L2|exact KK]].
  - inversion E; subst. unfold arena_reset, arena_blocks. destruct hard; [reflexivity|].
    destruct (a_pre a ++ a_nxt a) as [|f t] eqn:L; [reflexivity|]. cbn [a_pre a_nxt length].
    rewrite <- app_length, L. reflexivity.
Qed.

End WithOracle.

(* when no malloc fails an allocation is refused only for sizes at the end of the address space *)
Theorem arena_alloc_all_ok size a k r a' k' :
  arena_alloc all_ok size a k = (r, a', k') -> r = Oom -> size_max - 48 < size.
Proof.
  unfold arena_alloc, arena_hdr, arena_ovh, all_ok. destruct (size <=? a_rem a); [intros E; inversion E; discriminate|].
  destruct (take_next size (a_nxt a)) as [[b t]|]; [intros E; inversion E; discriminate|].
  destruct (Z.ltb_spec (2 ^ a_shift a - (16 + 32)) size); cbn [andb].
  - destruct (Z.ltb_spec (size_max - (16 + 32)) size); intros E; inversion E; subst; [intros _; lia|discriminate].
  - intros E; inversion E; discriminate.
Qed.

(* ---- whole sequences of allocations: the regions handed out never overlap ---- *)
Section Regions.
Variable okh : nat -> bool.

(* the regions (block index, offset, size) of the allocations that succeeded, in order *)
Fixpoint arena_allocs (sizes : list Z) (a : arena) (k : nat) : list (nat * Z * Z) * arena * nat :=
  match sizes with
  | [] => ([], a, k)
  | sz :: t =>
      let '(r, a1, k1) := arena_alloc okh sz a k in
      let '(rs, a2, k2) := arena_allocs t a1 k1 in
      (match r with Ok => (arena_last sz a1, sz) :: rs | _ => rs end, a2, k2)
  end.

Definition rblk (r : nat * Z * Z) : nat := fst (fst r).
Definition roff (r : nat * Z * Z) : Z := snd (fst r).
Definition rdisj (r1 r2 : nat * Z * Z) : Prop := rblk r1 <> rblk r2 \/ roff r1 + snd r1 <= roff r2 \/ roff r2 + snd r2 <= roff r1.

Definition fresh_for (a : arena) (r : nat * Z * Z) : Prop :=
  (length (a_pre a) - 1 <= rblk r)%nat /\ (rblk r = (length (a_pre a) - 1)%nat -> arena_used a <= roff r).

Lemma fresh_mono size a k r a' k' reg :
  0 <= size -> arena_inv a -> arena_alloc okh size a k = (r, a', k') -> fresh_for a' reg -> fresh_for a reg.
Proof.
  intros W I E [F1 F2]. pose proof I as [Z0 [RB _]].
  destruct (arena_alloc_atomic okh size a k r a' k' E) as [NI [_ [_ [HO HK]]]]. unfold fresh_for, arena_used in *.
  destruct r; [|destruct (HO eq_refl) as [P [R1 _]]; rewrite P, R1 in *; auto|contradiction].
  destruct (HK eq_refl) as [[P [S1 [R1 _]]]|[b [P [S1 [R1 [S2 _]]]]]].
  - rewrite P, R1 in *. split; [exact F1|]. intros X. specialize (F2 X). lia.
  - rewrite P, app_length, last_snoc, R1 in *. cbn [length] in *. split; [lia|]. intros X.
    destruct (a_pre a) as [|p0 pt] eqn:EP.
    + cbn [length last] in *. rewrite (Z0 eq_refl). assert (XX : rblk reg = (0 + 1 - 1)%nat) by lia. specialize (F2 XX). lia.
    + cbn [length] in *. lia.
Qed.

Lemma allocs_fresh : forall sizes a k rs a' k',
  Forall (fun s => 0 <= s) sizes -> arena_inv a -> arena_allocs sizes a k = (rs, a', k') -> Forall (fresh_for a) rs.
Proof.
  induction sizes as [|sz t IH]; intros a k rs a' k' W I E; cbn [arena_allocs] in E.
  - inversion E; subst. constructor.
  - destruct (arena_alloc okh sz a k) as [[r a1] k1] eqn:A1. destruct (arena_allocs t a1 k1) as [[rs2 a2] k2] eqn:A2.
    inversion W as [|? ? W1 W2]; subst. inversion E; subst; clear E.
    assert (I1 : arena_inv a1) by (apply (arena_step_inv okh (AAlloc sz) a k r a1 k1 W1 I); exact A1).
    pose proof (IH a1 k1 rs2 a' k' W2 I1 A2) as F.
    assert (F' : Forall (fresh_for a) rs2).
    { apply Forall_forall. intros x Hx. rewrite Forall_forall in F. apply (fresh_mono sz a k r a1 k1 x W1 I A1 (F x Hx)). }
    destruct r; [|exact F'|exact F']. constructor; [|exact F'].
    destruct (arena_alloc_region okh sz a k a1 k1 A1) as [[L [_ _]]|[L [_ _]]]; rewrite L; unfold fresh_for, rblk, roff; cbn [fst snd].
    + split; [lia|intros _; lia].
    + split; [lia|]. intros X. destruct I as [Z0 _]. destruct (a_pre a) as [|p0 pt] eqn:EP; [|cbn [length] in X; lia].
      unfold arena_used. rewrite EP. cbn [last]. rewrite (Z0 eq_refl). lia.
Qed.

(* Any sequence of allocations (no reset in between), any oracle, from any state that satisfies the invariant: the regions
   handed out are pairwise disjoint - failed allocations in between change nothing about that. *)
Theorem arena_allocs_disjoint : forall sizes a k rs a' k',
  Forall (fun s => 0 <= s) sizes -> arena_inv a -> arena_allocs sizes a k = (rs, a', k') -> ForallOrdPairs rdisj rs.
Proof.
  induction sizes as [|sz t IH]; intros a k rs a' k' W I E; cbn [arena_allocs] in E.
  - inversion E; subst. constructor.
  - destruct (arena_alloc okh sz a k) as [[r a1] k1] eqn:A1. destruct (arena_allocs t a1 k1) as [[rs2 a2] k2] eqn:A2.
    inversion W as [|? ? W1 W2]; subst. inversion E; subst; clear E.
    assert (I1 : arena_inv a1) by (apply (arena_step_inv okh (AAlloc sz) a k r a1 k1 W1 I); exact A1).
    pose proof (IH a1 k1 rs2 a' k' W2 I1 A2) as D. pose proof (allocs_fresh t a1 k1 rs2 a' k' W2 I1 A2) as F.
    destruct r; [|exact D|exact D]. constructor; [|exact D].
    apply Forall_forall. intros x Hx. rewrite Forall_forall in F. destruct (F x Hx) as [F1 F2].
    unfold rdisj, rblk, roff in *. cbn [fst snd].
    destruct (arena_alloc_region okh sz a k a1 k1 A1) as [[L [U P]]|[L [U P]]]; rewrite L; cbn [fst snd].
    + rewrite P in *. destruct (Nat.eq_dec (fst (fst x)) (length (a_pre a) - 1)) as [EQ|NE]; [|left; lia].
      right. left. specialize (F2 EQ). lia.
    + rewrite P in *. cbn [Nat.sub] in *. rewrite Nat.sub_0_r in *.
      destruct (Nat.eq_dec (fst (fst x)) (length (a_pre a))) as [EQ|NE]; [|left; lia].
      right. left. specialize (F2 EQ). lia.
Qed.
End Regions.

(* ---- after any script (allocations, refused allocations, soft and hard resets) ---- *)
Section AfterScript.
Variable okh : nat -> bool.

Fixpoint arena_run (ops : list aop) (a : arena) (k : nat) : list result * arena * nat :=
  match ops with
  | [] => ([], a, k)
  | op :: t => let '(r, a1, k1) := arena_step okh op a k in let '(rs, a2, k2) := arena_run t a1 k1 in (r :: rs, a2, k2)
  end.

Definition aop_wf (op : aop) : Prop := match op with AAlloc size => 0 <= size | _ => True end.

Lemma arena_run_inv ops : forall a k rs a' k', Forall aop_wf ops -> arena_inv a -> arena_run ops a k = (rs, a', k') -> arena_inv a'.
Proof.
  induction ops as [|op t IH]; intros a k rs a' k' W I E; cbn [arena_run] in E.
  - inversion E; subst. exact I.
  - destruct (arena_step okh op a k) as [[r a1] k1] eqn:S1. destruct (arena_run t a1 k1) as [[rs2 a2] k2] eqn:S2.
    inversion W; subst. inversion E; subst.
    exact (IH _ _ _ _ _ H2 (arena_step_inv okh op a k r a1 k1 H1 I S1) S2).
Qed.

Lemma arena_init_inv shift : arena_inv (arena_init shift).
Proof. repeat split; cbn; try lia. constructor. Qed.

(* whatever happened before - any script of allocations and resets under the oracle - the allocations made after it (with no
   reset in between) get pairwise disjoint regions *)
Theorem arena_after_script_disjoint shift ops sizes rs0 a k rs a' k' :
  Forall aop_wf ops -> Forall (fun s => 0 <= s) sizes ->
  arena_run ops (arena_init shift) 0%nat = (rs0, a, k) -> arena_allocs okh sizes a k = (rs, a', k') ->
  ForallOrdPairs rdisj rs.
Proof.
  intros W1 W2 E1 E2. apply (arena_allocs_disjoint okh sizes a k rs a' k' W2); [|exact E2].
  exact (arena_run_inv ops _ _ _ _ _ W1 (arena_init_inv shift) E1).
Qed.
End AfterScript.

(* ---- every heap block of the arena was obtained by a request that succeeded: blocks <= requests made, over whole scripts ---- *)
Section Accounting.
Variable okh : nat -> bool.

Theorem arena_run_blocks ops : forall a k rs a' k',
  (arena_blocks a <= k)%nat -> arena_run okh ops a k = (rs, a', k') ->
  (arena_blocks a' <= k')%nat /\ (k <= k')%nat /\ length rs = length ops.
Proof.
  induction ops as [|op t IH]; intros a k rs a' k' B E; cbn [arena_run] in E.
  - inversion E; subst. auto.
  - destruct (arena_step okh op a k) as [[r a1] k1] eqn:S1. destruct (arena_run okh t a1 k1) as [[rs2 a2] k2] eqn:S2.
    inversion E; subst; clear E.
    assert (B1 : (arena_blocks a1 <= k1)%nat /\ (k <= k1)%nat).
    { pose proof (arena_step_blocks okh op a k r a1 k1 S1) as SB. destruct op as [size|hard].
      - destruct SB as [L1 [_ KK]]. cbn [arena_step] in S1. destruct (arena_alloc_atomic okh size a k r a1 k1 S1) as [_ [KB _]].
        destruct (lt_dec (arena_blocks a) (arena_blocks a1)) as [LT|GE]; [rewrite (KK LT); lia|lia].
      - cbn [arena_step] in S1. inversion S1; subst. destruct hard; lia. }
    destruct B1 as [B1 K1]. destruct (IH a1 k1 rs2 a' k' B1 S2) as [A [C D]]. repeat split; try lia. cbn [length]. rewrite D. reflexivity.
Qed.
End Accounting.

(* C15 x C09: whole scripts of the joint JitAllocator model - no leak at the joint level, without any hypothesis on the script. *)
From Coq Require Import ZArith List Bool Lia Permutation.
From Verif Require Jit.JitModel Jit.JitBlockProofs Jit.JitProofs Jit.JitVmModel Jit.JitVmProofs.
From Verif Require Import OomTxn.OracleModel OomTxn.OracleProofs OomTxn.JitJointModel OomTxn.JitJointProofs.
Import ListNotations.
Local Open Scope Z_scope.

Import JitModel JitBlockProofs JitProofs.

(* ---- the decision procedure for C09's valid_ptr ---- *)
Lemma valid_ptrb_spec c st id off : valid_ptrb c st id off = true <-> valid_ptr c st id off.
Proof.
  unfold valid_ptrb, valid_ptr. destruct (find_block id (blocks st)) as [b|].
  - split.
    + intros H b0 [= <-]. apply existsb_exists in H. destruct H as [[s n] [Hin E]]. cbn in E. apply Z.eqb_eq in E. subst. exists n. exact Hin.
    + intros H. destruct (H b eq_refl) as [n Hin]. apply existsb_exists. exists (off / pool_gran c (b_pool b), n). split; [exact Hin|]. cbn. apply Z.eqb_refl.
  - split; [intros _ b0; discriminate|reflexivity].
Qed.

(* ---- which block ids C09's operations keep, add and drop ---- *)
Definition bids (st : state) : list Z := map b_id (blocks st).

Lemma alloc_ids c st size : cfg_ok c -> ginv c st ->
  (nextid (fst (alloc c st size)) = nextid st /\ bids (fst (alloc c st size)) = bids st) \/
  (nextid (fst (alloc c st size)) = nextid st + 1 /\ bids (fst (alloc c st size)) = bids st ++ [nextid st]).
Proof.
  intros Hc G. destruct Hc as [Hg Hpools Hbs Hvar]. unfold alloc, bids.
  set (sz := align_up size (c_gran c) mod two64) in *.
  destruct (Z.eqb_spec sz 0) as [E0|E0]; [left; split; reflexivity|].
  destruct (Z.leb_spec 2147483647 (sz - 1)) as [E1|E1]; [left; split; reflexivity|].
  assert (Hsz : 1 <= sz).
  { pose proof (Z.mod_pos_bound (align_up size (c_gran c)) two64 ltac:(reflexivity)) as Hm. fold sz in Hm. lia. }
  set (p := size_to_pool c sz) in *. pose proof (size_to_pool_range c sz Hpools) as Hp. fold p in Hp.
  set (g := pool_gran c p) in *. pose proof (pool_gran_pos c p Hg ltac:(lia)) as Hgp. fold g in Hgp.
  set (n := (sz + g - 1) / g) in *. pose proof (ceil_ge1 sz g Hgp Hsz) as Hn. fold n in Hn.
  rewrite Hvar in *. destruct G as [GB GI GN GP GC GNid].
  pose proof (try_blocks_ok c (nextid st) p n Hn (blocks st) GB) as (F' & G' & W).
  destruct (try_blocks fixed p n (blocks st)) as [bl' [[[id s] we]|]] eqn:Et; cbn [fst snd blocks nextid] in *.
  - left. split; [reflexivity|apply (same_geom_ids _ _ G')].
  - right. split; [reflexivity|]. rewrite map_app, (same_geom_ids _ _ G'). cbn [map]. f_equal. f_equal.
    unfold new_block_alloc, mark_allocated. cbn. destruct (_ =? 0); reflexivity.
Qed.

Lemma release_ids c st id off : cfg_ok c -> ginv c st ->
  match snd (release c st id off) with
  | RRelease Ok bid true => bid = id /\ In id (bids st) /\ blocks (fst (release c st id off)) = remove_block id (blocks st)
  | _ => bids (fst (release c st id off)) = bids st
  end.
Proof.
  intros Hc G. unfold release, bids. destruct (find_block id (blocks st)) as [b|] eqn:Ef; [|reflexivity].
  destruct (find_block_in _ _ _ Ef) as [Hbin Hbid].
  set (idx := off / pool_gran c (b_pool b)). set (e := span_end b idx).
  destruct (mark_released_fields (c_var c) b idx (e - idx)) as ((Gid & _) & _ & _). replace (idx + (e - idx)) with e in Gid by lia.
  destruct (b_empty (mark_released (c_var c) b idx e)).
  - destruct ((0 <? p_empty (get_pool st (b_pool b))) || c_imm c); cbn [fst snd blocks].
    + split; [reflexivity|]. split; [|reflexivity]. apply in_map_iff. exists b. split; assumption.
    + apply (replace_block_ids b). rewrite Gid, Hbid. exact Ef.
  - cbn [fst snd blocks]. apply (replace_block_ids b). rewrite Gid, Hbid. exact Ef.
Qed.

Lemma shrink_ids c st id off ns : ns <> 0 -> bids (fst (shrink c st id off ns)) = bids st.
Proof.
  intros Hns. unfold shrink, bids. replace (ns =? 0) with false by (symmetry; apply Z.eqb_neq; exact Hns).
  destruct (find_block id (blocks st)) as [b|] eqn:Ef; [|reflexivity].
  destruct (find_block_in _ _ _ Ef) as [Hbin Hbid].
  set (g := pool_gran c (b_pool b)). set (idx := off / g). set (e := span_end b idx). set (shr := (ns + g - 1) / g).
  destruct (negb (Z.testbit (b_used b) idx)); [reflexivity|].
  destruct (e - idx <? shr); [reflexivity|]. destruct (e - idx - shr =? 0); [reflexivity|]. cbn [fst blocks].
  destruct (mark_shrunk_fields b idx shr (e - idx)) as ((Gid & _) & _). replace (idx + (e - idx)) with e in Gid by lia.
  apply (replace_block_ids b). rewrite Gid, Hbid. exact Ef.
Qed.

Lemma remove_block_ids_spec id l : NoDup (map b_id l) -> In id (map b_id l) ->
  (forall x, In x (map b_id (remove_block id l)) -> In x (map b_id l) /\ x <> id) /\ S (length (remove_block id l)) = length l.
Proof.
  induction l as [|y r IH]; cbn; [intros _ []|]. intros ND Hin. inversion ND as [|? ? Hy Hr]; subst.
  destruct (Z.eqb_spec (b_id y) id) as [E|E].
  - split; [|reflexivity]. intros x Hx. split; [right; exact Hx|]. intros ->. apply Hy. rewrite E. exact Hx.
  - destruct Hin as [Hin|Hin]; [contradiction|]. destruct (IH Hr Hin) as [A B]. split.
    + intros x [<-|Hx]; [split; [left; reflexivity|exact E]|]. destruct (A x Hx). split; [right|]; assumption.
    + cbn [length]. rewrite B. reflexivity.
Qed.

Local Close Scope Z_scope.

(* ---- handles ---- *)
Definition issome (h : option (list nat)) : bool := match h with Some _ => true | None => false end.
Definition nlive (l : list (option (list nat))) : nat := length (filter issome l).

Lemma nlive_app l x : nlive (l ++ [x]) = if issome x then S (nlive l) else nlive l.
Proof. unfold nlive. rewrite filter_app, app_length. cbn. destruct (issome x); cbn; lia. Qed.

Lemma nth_some_lt (l : list (option (list nat))) h v : nth h l None = Some v -> h < length l.
Proof. intros H. destruct (lt_dec h (length l)); [assumption|]. rewrite nth_overflow in H by lia. discriminate. Qed.

Lemma nlive_upd_none l : forall h v, nth h l None = Some v -> S (nlive (OracleModel.upd_nth h (fun _ => None) l)) = nlive l.
Proof.
  induction l as [|x t IH]; intros [|h] v H; cbn in H; try discriminate.
  - subst. reflexivity.
  - cbn [OracleModel.upd_nth]. unfold nlive in *. cbn [filter]. destruct (issome x); cbn [length]; rewrite <- (IH h v H); reflexivity.
Qed.

Lemma live_ids_length w l : (forall h v, nth h l None = Some v -> length v = w) ->
  length (concat (map handle_ids l)) = w * nlive l.
Proof.
  induction l as [|x t IH]; intros H; [cbn; lia|].
  cbn [map concat]. rewrite app_length. rewrite IH by (intros h v Hh; apply (H (S h) v); exact Hh).
  unfold nlive. cbn [filter]. destruct x as [v|]; cbn [issome handle_ids length].
  - rewrite (H 0 v eq_refl). lia.
  - lia.
Qed.

Definition wof (dual : bool) : nat := if dual then 2 else 1.

Lemma vblock_cases okv okh dual s kv kh r s' kv' kh' :
  vm_step okv okh (VBlock dual) s kv kh = (r, s', kv', kh') ->
  (r = OracleModel.Ok /\ exists vi, length vi = wof dual /\ vs_handles s' = vs_handles s ++ [Some vi] /\ vs_heap s' = S (vs_heap s)) \/
  (r <> OracleModel.Ok /\ vs_handles s' = vs_handles s ++ [None] /\ vs_heap s' = vs_heap s).
Proof.
  destruct dual; cbn [vm_step]; unfold vm_dual, vm_map, push_handle, wof;
    repeat match goal with |- context [if ?c then _ else _] => destruct c end;
    intros E; inversion E; subst; cbn; (left; split; [reflexivity|]; eexists; repeat split; reflexivity) || (right; repeat split; discriminate || reflexivity).
Qed.

(* ---- the link between C09's blocks and C15's handles ---- *)
Definition hof (bm : list (Z * nat)) (id : Z) : option nat :=
  match find (fun p => (fst p =? id)%Z) bm with Some p => Some (snd p) | None => None end.

Record jlink (w : nat) (ids : list Z) (s : vms) (bm : list (Z * nat)) : Prop := {
  jl_live : forall id, In id ids -> exists h vi, hof bm id = Some h /\ nth h (vs_handles s) None = Some vi;
  jl_inj : forall id1 id2 h, In id1 ids -> In id2 ids -> hof bm id1 = Some h -> hof bm id2 = Some h -> id1 = id2;
  jl_w : forall h vi, nth h (vs_handles s) None = Some vi -> length vi = w;
  jl_heap : vs_heap s = nlive (vs_handles s);
  jl_count : nlive (vs_handles s) = length ids }.

Definition jinv (dual : bool) (c : config) (j : jst) : Prop :=
  ginv c (j_st j) /\ vms_acct (j_vm j) /\ jlink (wof dual) (bids (j_st j)) (j_vm j) (j_bm j).

(* what the invariant says in numbers: one block record per C09 block, wof views per block *)
Lemma jinv_counts dual c j : jinv dual c j ->
  vs_heap (j_vm j) = length (blocks (j_st j)) /\ length (vs_views (j_vm j)) = wof dual * length (blocks (j_st j)).
Proof.
  intros [_ [[_ [P _]] L]]. destruct L as [_ _ W H C]. unfold bids in C. rewrite map_length in C. split; [lia|].
  rewrite (Permutation_length P). unfold live_ids. rewrite (live_ids_length (wof dual) _ W). lia.
Qed.

Section Link.
Variable w : nat.

Lemma link_none ids s s1 bm :
  jlink w ids s bm -> vs_handles s1 = vs_handles s ++ [None] -> vs_heap s1 = vs_heap s -> jlink w ids s1 bm.
Proof.
  intros [LV IJ W H C] HH HP. constructor.
  - intros id Hi. destruct (LV id Hi) as [h [v [A B]]]. exists h, v. split; [exact A|].
    rewrite HH, app_nth1; [exact B|]. eapply nth_some_lt; eauto.
  - exact IJ.
  - intros h v Hn. rewrite HH in Hn. destruct (lt_dec h (length (vs_handles s))) as [l|l].
    + rewrite app_nth1 in Hn by exact l. eapply W; eauto.
    + rewrite app_nth2 in Hn by lia. destruct (h - length (vs_handles s)) as [|[|?]]; cbn in Hn; discriminate.
  - rewrite HP, HH, nlive_app. cbn. exact H.
  - rewrite HH, nlive_app. cbn. exact C.
Qed.

Lemma link_new ids s s1 bm nid vi :
  jlink w ids s bm -> (forall id, In id ids -> id <> nid) ->
  vs_handles s1 = vs_handles s ++ [Some vi] -> length vi = w -> vs_heap s1 = S (vs_heap s) ->
  jlink w (ids ++ [nid]) s1 ((nid, length (vs_handles s)) :: bm).
Proof.
  intros [LV IJ W H C] FR HH LW HP.
  assert (OLD : forall id, In id ids -> hof ((nid, length (vs_handles s)) :: bm) id = hof bm id).
  { intros id Hi. unfold hof. cbn [find fst]. destruct (Z.eqb_spec nid id) as [E|E]; [exfalso; apply (FR id Hi); auto|reflexivity]. }
  assert (NEW : hof ((nid, length (vs_handles s)) :: bm) nid = Some (length (vs_handles s))).
  { unfold hof. cbn [find fst]. rewrite Z.eqb_refl. reflexivity. }
  assert (OLDLT : forall id h, In id ids -> hof bm id = Some h -> h < length (vs_handles s)).
  { intros id h Hi Hh. destruct (LV id Hi) as [h0 [v [A B]]]. rewrite A in Hh. inversion Hh; subst. eapply nth_some_lt; eauto. }
  constructor.
  - intros id Hi. apply in_app_or in Hi. destruct Hi as [Hi|[<-|[]]].
    + destruct (LV id Hi) as [h [v [A B]]]. exists h, v. rewrite (OLD id Hi). split; [exact A|].
      rewrite HH, app_nth1; [exact B|]. eapply nth_some_lt; eauto.
    + exists (length (vs_handles s)), vi. split; [exact NEW|]. rewrite HH, app_nth2 by lia. rewrite Nat.sub_diag. reflexivity.
  - intros id1 id2 h H1 H2 E1 E2. apply in_app_or in H1. apply in_app_or in H2.
    destruct H1 as [H1|[<-|[]]]; destruct H2 as [H2|[<-|[]]].
    + rewrite (OLD _ H1) in E1. rewrite (OLD _ H2) in E2. eapply IJ; eauto.
    + rewrite (OLD _ H1) in E1. rewrite NEW in E2. inversion E2; subst. pose proof (OLDLT _ _ H1 E1). lia.
    + rewrite (OLD _ H2) in E2. rewrite NEW in E1. inversion E1; subst. pose proof (OLDLT _ _ H2 E2). lia.
    + reflexivity.
  - intros h v Hn. rewrite HH in Hn. destruct (lt_dec h (length (vs_handles s))) as [l|l].
    + rewrite app_nth1 in Hn by exact l. eapply W; eauto.
    + rewrite app_nth2 in Hn by lia. destruct (h - length (vs_handles s)) as [|[|?]]; cbn in Hn; try discriminate.
      inversion Hn as [EV]. rewrite <- EV. exact LW.
  - rewrite HP, HH, nlive_app. cbn. rewrite H. reflexivity.
  - rewrite HH, nlive_app, app_length. cbn. lia.
Qed.

Lemma link_del ids ids' s s1 bm id h :
  jlink w ids s bm -> In id ids -> hof bm id = Some h ->
  vs_handles s1 = OracleModel.upd_nth h (fun _ => None) (vs_handles s) -> vs_heap s1 = pred (vs_heap s) ->
  (forall x, In x ids' -> In x ids /\ x <> id) -> S (length ids') = length ids ->
  jlink w ids' s1 bm.
Proof.
  intros [LV IJ W H C] Hid Hh HH HP SUB LEN.
  destruct (LV id Hid) as [h0 [v0 [A0 B0]]]. rewrite Hh in A0. inversion A0; subst h0. clear A0.
  pose proof (nlive_upd_none _ _ _ B0) as NL.
  constructor.
  - intros x Hx. destruct (SUB x Hx) as [Hx1 Hx2]. destruct (LV x Hx1) as [h1 [v1 [A1 B1]]]. exists h1, v1. split; [exact A1|].
    rewrite HH. rewrite OracleProofs.nth_upd_nth_other; [exact B1|]. intros ->. apply Hx2. eapply IJ; eauto.
  - intros id1 id2 h1 H1 H2. destruct (SUB _ H1), (SUB _ H2). eapply IJ; eauto.
  - intros h1 v1 Hn. rewrite HH in Hn. destruct (Nat.eq_dec h h1) as [<-|NE].
    + rewrite OracleProofs.nth_upd_nth_same in Hn by (eapply nth_some_lt; eauto). discriminate.
    + rewrite OracleProofs.nth_upd_nth_other in Hn by exact NE. eapply W; eauto.
  - rewrite HP, HH, H. lia.
  - rewrite HH. lia.
Qed.
End Link.

Lemma old_ids_below c st id : ginv c st -> In id (bids st) -> id <> nextid st.
Proof.
  intros [GB _ _ _ _ _] Hi. unfold bids in Hi. apply in_map_iff in Hi. destruct Hi as [b [E Hb]].
  rewrite Forall_forall in GB. destruct (GB b Hb) as (_ & _ & R). lia.
Qed.

Lemma jit_alloc_link okv okh dual c st s bm size kv kh st' r s' kv' kh' :
  cfg_ok c -> ginv c st -> vms_acct s -> jlink (wof dual) (bids st) s bm ->
  jit_alloc okv okh dual c st s size kv kh = (st', r, s', kv', kh') ->
  ginv c st' /\ vms_acct s' /\
  jlink (wof dual) (bids st') s' (if (nextid st' =? nextid st)%Z then bm else (nextid st, length (vs_handles s)) :: bm).
Proof.
  intros Hc G A L E. unfold jit_alloc in E.
  pose proof (ginv_alloc c st size Hc G) as GA. pose proof (alloc_ids c st size Hc G) as AI.
  destruct (alloc c st size) as [st1 r1] eqn:EA. cbn [fst] in GA, AI.
  destruct (nextid st1 =? nextid st)%Z eqn:N.
  - inversion E; subst. rewrite N. destruct AI as [[_ I]|[X _]]; [|apply Z.eqb_eq in N; lia]. rewrite I. auto.
  - destruct AI as [[X _]|[NX I]]; [apply Z.eqb_neq in N; contradiction|].
    destruct (vm_step okv okh (VBlock dual) s kv kh) as [[[rb s1] kv1] kh1] eqn:V.
    pose proof (vm_step_acct okv okh (VBlock dual) s kv kh rb s1 kv1 kh1 A V) as A1.
    destruct (vblock_cases okv okh dual s kv kh rb s1 kv1 kh1 V) as [[-> [vi [LW [HH HP]]]] | [NR [HH HP]]].
    + inversion E; subst. rewrite N. split; [exact GA|]. split; [exact A1|]. rewrite I.
      apply link_new with (vi := vi); auto. intros id Hi. apply (old_ids_below c st id G Hi).
    + assert (E2 : (let '(st2, r2) := JitVmModel.alloc_vm c st size false in (st2, r2, s1, kv1, kh1)) = (st', r, s', kv', kh'))
        by (destruct rb; [congruence|exact E|exact E]).
      pose proof (JitVmProofs.alloc_vm_fail c st size Hc G) as AF. cbv zeta in AF.
      destruct (JitVmModel.alloc_vm c st size false) as [st2 r2] eqn:AV. cbn [fst snd] in AF.
      inversion E2; subst. destruct AF as [G2 [AF1 _]].
      assert (R2 : r = RAlloc OutOfMemory 0 0 0).
      { unfold JitVmModel.alloc_vm in AV. rewrite EA in AV. cbn [orb] in AV. rewrite N in AV. inversion AV. reflexivity. }
      destruct (AF1 R2) as [_ [_ [NID IDS]]]. rewrite NID, Z.eqb_refl. split; [exact G2|]. split; [exact A1|].
      unfold bids. rewrite IDS. apply link_none with (s := s); auto.
Qed.

Lemma jit_release_link okv okh dual c st s bm id off kv kh st' r s' :
  cfg_ok c -> ginv c st -> valid_ptr c st id off -> vms_acct s -> jlink (wof dual) (bids st) s bm ->
  jit_release okv okh bm c st s id off kv kh = (st', r, s') ->
  ginv c st' /\ vms_acct s' /\ jlink (wof dual) (bids st') s' bm.
Proof.
  intros Hc G VP A L E.
  destruct (jit_release_joint okv okh bm c st s id off kv kh st' r s' Hc G VP A E) as [G' [A' [Q _]]].
  split; [exact G'|]. split; [exact A'|].
  pose proof (release_ids c st id off Hc G) as RI. rewrite <- Q in RI. cbn [fst snd] in RI.
  unfold jit_release in E. rewrite <- Q in E.
  assert (SAME : (st', r, s) = (st', r, s') -> bids st' = bids st -> jlink (wof dual) (bids st') s' bm).
  { intros X I. inversion X; subst. rewrite I. exact L. }
  destruct r as [? ? ? ?|e bid deleted|? ? ?|? ? ? ?| |]; try (apply SAME; [exact E|exact RI]).
  destruct e; try (apply SAME; [exact E|exact RI]). destruct deleted; [|apply SAME; [exact E|exact RI]].
  destruct RI as [-> [Hin BL]].
  destruct (jl_live _ _ _ _ L id Hin) as [h [vi [HF HN]]].
  pose proof HF as HF'. unfold hof in HF'. destruct (find (fun p => (fst p =? id)%Z) bm) as [[b0 h0]|] eqn:F; [|discriminate].
  cbn [snd] in HF'. inversion HF'; subst h0. cbn [vm_step] in E. rewrite HN in E. inversion E; subst; clear E.
  destruct G as [_ GI _ _ _ _].
  destruct (remove_block_ids_spec id (blocks st) GI Hin) as [SUB LEN].
  apply link_del with (ids := bids st) (s := s) (id := id) (h := h); auto.
  - unfold bids. rewrite BL. exact SUB.
  - unfold bids. rewrite BL. rewrite !map_length. exact LEN.
Qed.

Lemma jit_shrink_link okv okh dual c st s bm id off ns kv kh st' r s' :
  cfg_ok c -> ginv c st -> valid_ptr c st id off -> (0 <= ns)%Z -> vms_acct s -> jlink (wof dual) (bids st) s bm ->
  jit_shrink okv okh bm c st s id off ns kv kh = (st', r, s') ->
  ginv c st' /\ vms_acct s' /\ jlink (wof dual) (bids st') s' bm.
Proof.
  intros Hc G VP Hns A L E.
  destruct (jit_shrink_joint okv okh bm c st s id off ns kv kh st' r s' Hc G VP A Hns E) as [G' [A' [Q [NZ [ZR _]]]]].
  split; [exact G'|]. split; [exact A'|].
  destruct (Z.eq_dec ns 0) as [->|NE].
  - unfold jit_shrink in E. destruct (shrink c st id off 0) as [st1 r1]. cbn [Z.eqb] in E.
    destruct (jit_release okv okh bm c st s id off kv kh) as [[st2 r2] s2] eqn:R. inversion E; subst; clear E.
    destruct (jit_release_link okv okh dual c st s bm id off kv kh st2 r2 s' Hc G VP A L R) as [_ [_ L2]].
    destruct (jit_release_joint okv okh bm c st s id off kv kh st2 r2 s' Hc G VP A R) as [_ [_ [Q2 _]]].
    rewrite (ZR eq_refl). rewrite <- Q2. cbn [fst]. exact L2.
  - rewrite (NZ NE). replace st' with (fst (shrink c st id off ns)) by (rewrite <- Q; reflexivity).
    rewrite (shrink_ids c st id off ns NE). exact L.
Qed.

(* ---- reset ---- *)
Lemma wipe_block_id b : b_id (wipe_block b) = b_id b.
Proof. unfold wipe_block. destruct (b_empty b); reflexivity. Qed.

Lemma reset_pools_ids keep bl : forall ps p x, In x (map b_id (fst (reset_pools keep bl ps p))) -> In x (map b_id bl).
Proof.
  induction ps as [|pl r IH]; intros p x; cbn [reset_pools]; [intros []|].
  specialize (IH (p + 1)%Z x). destruct (reset_pools keep bl r (p + 1)) as [bl_r ps_r]. cbn [fst] in IH.
  destruct (first_of_pool p bl) as [b|] eqn:F.
  - destruct keep; cbn [fst map]; [|exact IH]. intros [E|Hx]; [|exact (IH Hx)].
    rewrite wipe_block_id in E. subst. apply in_map. apply (first_of_pool_some p bl b F).
  - exact IH.
Qed.

Lemma reset_ids c st hard x : In x (bids (reset c st hard)) -> In x (bids st).
Proof.
  unfold reset, bids. pose proof (reset_pools_ids (negb hard && negb (c_imm c)) (blocks st) (pools st) 0 x) as H.
  destruct (reset_pools (negb hard && negb (c_imm c)) (blocks st) (pools st) 0) as [bl ps]. exact H.
Qed.

Lemma filter_neq_length (id : Z) l : NoDup l -> In id l -> S (length (filter (fun x => negb (x =? id)%Z) l)) = length l.
Proof.
  induction l as [|y t IH]; intros ND Hin; [destruct Hin|]. inversion ND as [|? ? Hy Ht]; subst. cbn [filter].
  destruct (Z.eqb_spec y id) as [E|E]; cbn [negb length].
  - subst. f_equal. clear IH ND Hin. induction t as [|z t IHt]; [reflexivity|]. cbn [filter].
    inversion Ht; subst. destruct (Z.eqb_spec z id) as [E|E]; [exfalso; apply Hy; left; auto|]. cbn [negb length]. f_equal.
    apply IHt; [intros X; apply Hy; right; exact X|assumption].
  - destruct Hin as [Hin|Hin]; [contradiction|]. rewrite (IH Ht Hin). reflexivity.
Qed.

Lemma jlink_ext w ids1 ids2 s bm :
  NoDup ids1 -> NoDup ids2 -> (forall x, In x ids1 <-> In x ids2) -> jlink w ids1 s bm -> jlink w ids2 s bm.
Proof.
  intros N1 N2 EQ [LV IJ W H C]. constructor; auto.
  - intros id Hi. apply LV. apply EQ. exact Hi.
  - intros id1 id2 h H1 H2. apply IJ; apply EQ; assumption.
  - rewrite C. apply Permutation_length. apply NoDup_Permutation; assumption.
Qed.

Lemma link_del_many okv okh w bm kv kh : forall gone ids s,
  NoDup ids -> NoDup gone -> incl gone ids -> jlink w ids s bm -> vms_acct s ->
  exists ids', NoDup ids' /\ (forall x, In x ids' <-> In x ids /\ ~ In x gone) /\
               jlink w ids' (fold_left (jit_del_block okv okh bm kv kh) gone s) bm /\
               vms_acct (fold_left (jit_del_block okv okh bm kv kh) gone s).
Proof.
  induction gone as [|id t IH]; intros ids s ND NG INC L A.
  - exists ids. split; [exact ND|]. split; [intros x; split; [intros Hx; split; [exact Hx|intros []]|intros [Hx _]; exact Hx]|]. split; [exact L|exact A].
  - cbn [fold_left]. inversion NG as [|? ? Hid Ht]; subst.
    assert (Hin : In id ids) by (apply INC; left; reflexivity).
    destruct (jl_live _ _ _ _ L id Hin) as [h [vi [HF HN]]].
    pose proof HF as HF'. unfold hof in HF'. destruct (find (fun p => (fst p =? id)%Z) bm) as [[b0 h0]|] eqn:F; [|discriminate].
    cbn [snd] in HF'. inversion HF'; subst h0.
    set (s1 := jit_del_block okv okh bm kv kh s id).
    assert (ES1 : s1 = mkvms (remove_ids vi (vs_views s)) (vs_next s) (pred (vs_heap s)) (OracleModel.upd_nth h (fun _ => None) (vs_handles s))).
    { unfold s1, jit_del_block. rewrite F. cbn [vm_step]. rewrite HN. reflexivity. }
    assert (S1 : vm_step okv okh (VDel h) s kv kh = (OracleModel.Ok, s1, kv, kh)).
    { rewrite ES1. cbn [vm_step]. rewrite HN. reflexivity. }
    assert (HS1 : vs_handles s1 = OracleModel.upd_nth h (fun _ => None) (vs_handles s) /\ vs_heap s1 = pred (vs_heap s)).
    { rewrite ES1. cbn. auto. }
    destruct HS1 as [HH HP].
    pose proof (vm_step_acct okv okh (VDel h) s kv kh _ s1 kv kh A S1) as A1.
    set (ids1 := filter (fun x => negb (x =? id)%Z) ids).
    assert (M1 : forall x, In x ids1 <-> In x ids /\ x <> id).
    { intros x. unfold ids1. rewrite filter_In. split; intros [P Q]; (split; [exact P|]).
      - apply negb_true_iff in Q. apply Z.eqb_neq in Q. exact Q.
      - apply negb_true_iff. apply Z.eqb_neq. exact Q. }
    assert (L1 : jlink w ids1 s1 bm).
    { apply link_del with (ids := ids) (s := s) (id := id) (h := h); auto.
      - intros x Hx. apply M1. exact Hx.
      - apply filter_neq_length; assumption. }
    destruct (IH ids1 s1 (NoDup_filter _ _ ND) Ht) as [ids' [N' [M' [L' A']]]]; auto.
    { intros x Hx. apply M1. split; [apply INC; right; exact Hx|]. intros ->. contradiction. }
    exists ids'. split; [exact N'|]. split; [|split; [exact L'|exact A']].
    intros x. rewrite M', M1. cbn [In]. split.
    + intros [[P Q] R]. split; [exact P|]. intros [E|E]; [apply Q; auto|contradiction].
    + intros [P R]. split; [split; [exact P|]|]; intros E; apply R; [left; auto|right; exact E].
Qed.

Lemma jit_reset_link okv okh dual c st s bm hard kv kh st' s' :
  cfg_ok c -> ginv c st -> vms_acct s -> jlink (wof dual) (bids st) s bm ->
  jit_reset okv okh bm c st s hard kv kh = (st', s') ->
  ginv c st' /\ vms_acct s' /\ jlink (wof dual) (bids st') s' bm.
Proof.
  intros Hc G A L E. unfold jit_reset in E. inversion E; subst; clear E.
  pose proof (ginv_reset c st hard Hc G) as G'. split; [exact G'|].
  fold (bids (reset c st hard)). fold (bids st).
  set (keep := bids (reset c st hard)). set (gone := filter (fun id => negb (existsb (Z.eqb id) keep)) (bids st)).
  assert (MG : forall x, In x gone <-> In x (bids st) /\ ~ In x keep).
  { intros x. unfold gone. rewrite filter_In. split; intros [P Q]; (split; [exact P|]).
    - intros X. apply negb_true_iff in Q. assert (existsb (Z.eqb x) keep = true) by (apply existsb_exists; exists x; split; [exact X|apply Z.eqb_refl]). congruence.
    - apply negb_true_iff. destruct (existsb (Z.eqb x) keep) eqn:EX; [|reflexivity]. apply existsb_exists in EX. destruct EX as [y [Hy EY]].
      apply Z.eqb_eq in EY. subst. contradiction. }
  destruct G as [GB GI GN GP GC GNid]. destruct G' as [_ GI' _ _ _ _].
  destruct (link_del_many okv okh (wof dual) bm kv kh gone (bids st) s GI (NoDup_filter _ _ GI)) as [ids' [N' [M' [L' A']]]]; auto.
  { intros x Hx. apply MG in Hx. tauto. }
  split; [exact A'|]. apply jlink_ext with (ids1 := ids'); auto.
  intros x. rewrite M', MG. split.
  - intros [P Q]. destruct (in_dec Z.eq_dec x keep) as [K|K]; [exact K|]. exfalso. apply Q. split; assumption.
  - intros K. split; [apply (reset_ids c st hard x K)|]. intros [_ Q]. contradiction.
Qed.

(* ---- the step and the run ---- *)
Theorem jit_step_inv okv okh dual c op j r j' :
  cfg_ok c -> jinv dual c j -> jit_step okv okh dual c op j = (r, j') -> jinv dual c j'.
Proof.
  intros Hc [G [A L]] E. destruct op as [size|id off|id off ns|hard|id off]; cbn [jit_step] in E.
  - destruct (jit_alloc okv okh dual c (j_st j) (j_vm j) size (j_kv j) (j_kh j)) as [[[[st' r'] s'] kv'] kh'] eqn:JA.
    inversion E; subst; clear E. unfold jinv. cbn [j_st j_vm j_bm].
    exact (jit_alloc_link okv okh dual c _ _ _ size _ _ st' r s' kv' kh' Hc G A L JA).
  - destruct (valid_ptrb c (j_st j) id off) eqn:VB.
    + apply valid_ptrb_spec in VB.
      destruct (jit_release okv okh (j_bm j) c (j_st j) (j_vm j) id off (j_kv j) (j_kh j)) as [[st' r'] s'] eqn:JR.
      inversion E; subst; clear E. unfold jinv. cbn [j_st j_vm j_bm].
      exact (jit_release_link okv okh dual c _ _ _ id off _ _ st' r s' Hc G VB A L JR).
    + inversion E; subst. split; [exact G|split; [exact A|exact L]].
  - destruct (valid_ptrb c (j_st j) id off && (0 <=? ns)%Z) eqn:VB.
    + apply andb_prop in VB. destruct VB as [VB NS]. apply valid_ptrb_spec in VB. apply Z.leb_le in NS.
      destruct (jit_shrink okv okh (j_bm j) c (j_st j) (j_vm j) id off ns (j_kv j) (j_kh j)) as [[st' r'] s'] eqn:JS.
      inversion E; subst; clear E. unfold jinv. cbn [j_st j_vm j_bm].
      exact (jit_shrink_link okv okh dual c _ _ _ id off ns _ _ st' r s' Hc G VB NS A L JS).
    + inversion E; subst. split; [exact G|split; [exact A|exact L]].
  - destruct (jit_reset okv okh (j_bm j) c (j_st j) (j_vm j) hard (j_kv j) (j_kh j)) as [st' s'] eqn:JR.
    inversion E; subst; clear E. unfold jinv. cbn [j_st j_vm j_bm].
    exact (jit_reset_link okv okh dual c _ _ _ hard _ _ st' s' Hc G A L JR).
  - inversion E; subst. split; [exact G|split; [exact A|exact L]].
Qed.

Lemma jinv_init dual c : cfg_ok c -> jinv dual c (jst_init c).
Proof.
  intros Hc. split; [apply ginv_init; exact Hc|]. split.
  - split; [constructor|]. split; [apply perm_nil|intros x []].
  - constructor; cbn.
    + intros ? [].
    + intros ? ? ? [].
    + intros [|h0] vi0 HX; discriminate.
    + reflexivity.
    + reflexivity.
Qed.

(* Any script, any pair of oracles, no hypothesis on the script: C09's allocator invariant and C15's view accounting hold at the end
   and there is exactly one block record and (1 or 2) views per block C09's model holds - the joint model never leaks a view or
   a record and never loses one. *)
Theorem jit_run_no_leak okv okh dual c ops : forall j rs j',
  cfg_ok c -> jinv dual c j -> jit_run okv okh dual c ops j = (rs, j') ->
  jinv dual c j' /\ length rs = length ops /\
  vs_heap (j_vm j') = length (blocks (j_st j')) /\ length (vs_views (j_vm j')) = wof dual * length (blocks (j_st j')).
Proof.
  induction ops as [|op t IH]; intros j rs j' Hc I E; cbn [jit_run] in E.
  - inversion E; subst. split; [exact I|]. split; [reflexivity|]. apply (jinv_counts dual c j' I).
  - destruct (jit_step okv okh dual c op j) as [r j1] eqn:S1. destruct (jit_run okv okh dual c t j1) as [rs2 j2] eqn:S2.
    inversion E; subst; clear E.
    destruct (IH j1 rs2 j' Hc (jit_step_inv okv okh dual c op j r j1 Hc I S1) S2) as [I2 [LR CN]].
    split; [exact I2|]. split; [cbn [length]; rewrite LR; reflexivity|exact CN].
Qed.

Corollary jit_run_from_init okv okh dual c ops rs j' :
  cfg_ok c -> jit_run okv okh dual c ops (jst_init c) = (rs, j') ->
  ginv c (j_st j') /\ vms_acct (j_vm j') /\
  vs_heap (j_vm j') = length (blocks (j_st j')) /\ length (vs_views (j_vm j')) = wof dual * length (blocks (j_st j')).
Proof.
  intros Hc E. destruct (jit_run_no_leak okv okh dual c ops _ _ _ Hc (jinv_init dual c Hc) E) as [[G [A _]] [_ [H V]]]. auto.
Qed.

(* ---- a hard reset gives everything back ---- *)
Lemma reset_pools_hard bl : forall ps p, fst (reset_pools false bl ps p) = [].
Proof.
  induction ps as [|pl r IH]; intros p; cbn [reset_pools]; [reflexivity|].
  specialize (IH (p + 1)%Z). destruct (reset_pools false bl r (p + 1)) as [bl_r ps_r]. cbn [fst] in IH. subst.
  destruct (first_of_pool p bl); reflexivity.
Qed.

Theorem jit_hard_reset_releases_all okv okh dual c j r j' :
  cfg_ok c -> jinv dual c j -> jit_step okv okh dual c (JReset true) j = (r, j') ->
  blocks (j_st j') = [] /\ vs_views (j_vm j') = [] /\ vs_heap (j_vm j') = 0.
Proof.
  intros Hc I E. pose proof (jit_step_inv okv okh dual c (JReset true) j r j' Hc I E) as I'.
  destruct (jinv_counts dual c j' I') as [H V].
  assert (B : blocks (j_st j') = []).
  { cbn [jit_step] in E. unfold jit_reset in E. inversion E; subst; clear E. cbn [j_st]. unfold reset. cbn [negb andb].
    pose proof (reset_pools_hard (blocks (j_st j)) (pools (j_st j)) 0) as RP.
    destruct (reset_pools false (blocks (j_st j)) (pools (j_st j)) 0) as [bl ps]. cbn [fst] in RP. subst. reflexivity. }
  rewrite B in H, V. cbn [length] in H, V. split; [exact B|]. split; [|exact H].
  destruct (vs_views (j_vm j')); [reflexivity|]. cbn [length] in V. lia.
Qed.

(* ---- kOutOfMemory: its frame, and when it can appear ---- *)
Definition res_err (r : result) : option err :=
  match r with RAlloc e _ _ _ | RRelease e _ _ | RShrink e _ _ | RQuery e _ _ _ => Some e | _ => None end.

Lemma alloc_never_oom c st size : res_err (snd (alloc c st size)) <> Some OutOfMemory.
Proof.
  unfold alloc. destruct (_ =? 0)%Z; [cbn; discriminate|]. destruct (_ <=? _)%Z; [cbn; discriminate|].
  destruct (try_blocks _ _ _ _) as [bl' [[[? ?] ?]|]]; cbn; discriminate.
Qed.

Lemma release_never_oom c st id off : res_err (snd (release c st id off)) <> Some OutOfMemory.
Proof.
  unfold release. destruct (find_block id (blocks st)); [|cbn; discriminate].
  destruct (b_empty _); [destruct (_ || _)|]; cbn; discriminate.
Qed.

Lemma shrink_never_oom c st id off ns : res_err (snd (shrink c st id off ns)) <> Some OutOfMemory.
Proof.
  unfold shrink. destruct (ns =? 0)%Z.
  - pose proof (release_never_oom c st id off) as R. destruct (release c st id off) as [st' r]. cbn [snd] in R.
    destruct r; cbn in *; try discriminate. exact R.
  - destruct (find_block id (blocks st)); [|cbn; discriminate]. destruct (negb _); [cbn; discriminate|].
    destruct (_ <? _)%Z; [cbn; discriminate|]. destruct (_ =? 0)%Z; cbn; discriminate.
Qed.

(* an allocation that answers kOutOfMemory leaves the whole joint state as it was: C09's blocks, live spans and statistics, the
   views, the block records and the id -> handle map *)
Theorem jit_alloc_oom_frame okv okh dual c size j r j' :
  cfg_ok c -> jinv dual c j -> jit_step okv okh dual c (JAlloc size) j = (r, j') -> res_err r = Some OutOfMemory ->
  bids (j_st j') = bids (j_st j) /\ nextid (j_st j') = nextid (j_st j) /\
  all_live (blocks (j_st j')) = all_live (blocks (j_st j)) /\ statistics c (j_st j') = statistics c (j_st j) /\
  vs_views (j_vm j') = vs_views (j_vm j) /\ vs_heap (j_vm j') = vs_heap (j_vm j) /\ j_bm j' = j_bm j.
Proof.
  intros Hc [G [A L]] E RO. cbn [jit_step] in E.
  destruct (jit_alloc okv okh dual c (j_st j) (j_vm j) size (j_kv j) (j_kh j)) as [[[[st' r'] s'] kv'] kh'] eqn:JA.
  inversion E; subst; clear E. cbn [j_st j_vm j_bm]. unfold jit_alloc in JA.
  pose proof (alloc_never_oom c (j_st j) size) as NO.
  destruct (alloc c (j_st j) size) as [st1 r1] eqn:EA. cbn [snd] in NO.
  destruct (nextid st1 =? nextid (j_st j))%Z eqn:N.
  - inversion JA; subst. contradiction.
  - destruct (vm_step okv okh (VBlock dual) (j_vm j) (j_kv j) (j_kh j)) as [[[rb s1] kv1] kh1] eqn:V.
    assert (VI : vms_inv (j_vm j)) by (destruct A as [_ [_ B]]; exact B).
    destruct (vm_step_no_leak okv okh (VBlock dual) _ _ _ rb s1 kv1 kh1 VI V) as [_ [F1 _]].
    assert (NR : rb <> OracleModel.Ok) by (intros ->; inversion JA; subst; contradiction).
    assert (E2 : (let '(st2, r2) := JitVmModel.alloc_vm c (j_st j) size false in (st2, r2, s1, kv1, kh1)) = (st', r, s', kv', kh'))
      by (destruct rb; [congruence|exact JA|exact JA]).
    pose proof (JitVmProofs.alloc_vm_fail c (j_st j) size Hc G) as AF. cbv zeta in AF.
    destruct (JitVmModel.alloc_vm c (j_st j) size false) as [st2 r2] eqn:AV. cbn [fst snd] in AF.
    inversion E2; subst. destruct AF as [_ [AF1 _]].
    assert (R2 : r = RAlloc OutOfMemory 0 0 0).
    { unfold JitVmModel.alloc_vm in AV. rewrite EA in AV. cbn [orb] in AV. rewrite N in AV. inversion AV. reflexivity. }
    destruct (AF1 R2) as [LV [ST [NID IDS]]]. destruct (F1 NR) as [VV VH]. rewrite NID, Z.eqb_refl. unfold bids. auto 10.
Qed.

(* when neither mmap nor malloc fails, no operation of the joint model answers kOutOfMemory *)
Theorem jit_step_all_ok_never_oom dual c op j r j' :
  jit_step all_ok all_ok dual c op j = (r, j') -> res_err r <> Some OutOfMemory.
Proof.
  destruct op as [size|id off|id off ns|hard|id off]; cbn [jit_step]; intros E.
  - unfold jit_alloc in E. pose proof (alloc_never_oom c (j_st j) size) as NO.
    destruct (alloc c (j_st j) size) as [st1 r1]. cbn [snd] in NO.
    destruct (nextid st1 =? nextid (j_st j))%Z; [inversion E; subst; exact NO|].
    destruct (vm_step all_ok all_ok (VBlock dual) (j_vm j) (j_kv j) (j_kh j)) as [[[rb s1] kv1] kh1] eqn:V.
    destruct (vblock_cases _ _ _ _ _ _ _ _ _ _ V) as [[-> _]|[NR _]]; [inversion E; subst; exact NO|].
    exfalso. pose proof (vm_step_all_ok_never_oom _ _ _ _ _ _ _ _ V) as NOOM.
    destruct dual; cbn [vm_step] in V; unfold vm_dual, vm_map, all_ok in V; inversion V; subst; apply NR; reflexivity.
  - destruct (valid_ptrb c (j_st j) id off); [|inversion E; cbn; discriminate].
    unfold jit_release in E. pose proof (release_never_oom c (j_st j) id off) as NO.
    destruct (release c (j_st j) id off) as [st1 r1]. cbn [snd] in NO.
    destruct r1 as [? ? ? ?|e bid deleted|? ? ?|? ? ? ?| |]; try (inversion E; subst; exact NO).
    destruct e; try (inversion E; subst; exact NO). destruct deleted; [|inversion E; subst; exact NO].
    destruct (find _ (j_bm j)) as [[? h]|]; [|inversion E; subst; exact NO].
    destruct (vm_step all_ok all_ok (VDel h) (j_vm j) (j_kv j) (j_kh j)) as [[[? ?] ?] ?]. inversion E; subst; exact NO.
  - destruct (valid_ptrb c (j_st j) id off && (0 <=? ns)%Z); [|inversion E; cbn; discriminate].
    unfold jit_shrink in E. pose proof (shrink_never_oom c (j_st j) id off ns) as NO.
    destruct (shrink c (j_st j) id off ns) as [st1 r1]. cbn [snd] in NO.
    destruct (ns =? 0)%Z; [destruct (jit_release _ _ _ _ _ _ _ _ _ _) as [[? ?] ?]|]; inversion E; subst; exact NO.
  - destruct (jit_reset _ _ _ _ _ _ _ _ _) as [st' s']. inversion E; cbn; discriminate.
  - inversion E; subst. unfold query. destruct (find_block _ _); [|cbn; discriminate].
    destruct (_ || _); cbn; discriminate.
Qed.

Theorem jit_run_all_ok_never_oom dual c ops : forall j rs j',
  jit_run all_ok all_ok dual c ops j = (rs, j') -> Forall (fun r => res_err r <> Some OutOfMemory) rs.
Proof.
  induction ops as [|op t IH]; intros j rs j' E; cbn [jit_run] in E.
  - inversion E; subst. constructor.
  - destruct (jit_step all_ok all_ok dual c op j) as [r j1] eqn:S1. destruct (jit_run all_ok all_ok dual c t j1) as [rs2 j2] eqn:S2.
    inversion E; subst; clear E. constructor; [exact (jit_step_all_ok_never_oom dual c op j r j1 S1)|exact (IH j1 rs2 j' S2)].
Qed.

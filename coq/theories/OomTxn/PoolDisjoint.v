(* C15: ConstPool::add under every oracle - no byte of the pool ever belongs to two constants, or to a constant and a gap.
   (The python judge checks this on the implementation's node dump of every script; here it is proved for the model.) *)
From Coq Require Import ZArith List Bool Lia.
From Verif Require Import OomTxn.OracleModel OomTxn.OracleProofs.
Import ListNotations.
Local Open Scope Z_scope.

Definition inreg (r : Z * Z) (x : Z) : bool := (fst r <=? x) && (x <? fst r + snd r).
Definition cov (l : list (Z * Z)) (x : Z) : nat := length (filter (fun r => inreg r x) l).

Lemma cov_app l1 l2 x : cov (l1 ++ l2) x = (cov l1 x + cov l2 x)%nat.
Proof. unfold cov. rewrite filter_app, app_length. reflexivity. Qed.

Lemma cov_cons r l x : cov (r :: l) x = ((if inreg r x then 1 else 0) + cov l x)%nat.
Proof. unfold cov. cbn [filter]. destruct (inreg r x); reflexivity. Qed.

Definition cov_gaps (gs : list (list (Z * Z))) (x : Z) : nat := cov (concat gs) x.
Definition node_reg (c : cnode) : Z * Z := (c_off c, Z.of_nat (length (c_data c))).
Definition own (t : list cnode) : list (Z * Z) := map node_reg (filter (fun c => negb (c_shared c)) t).
Definition cov_nodes (ts : list (list cnode)) (x : Z) : nat := cov (own (concat ts)) x.
Definition cov_all (p : pool) (x : Z) : nat := (cov_gaps (p_gaps p) x + cov_nodes (p_trees p) x)%nat.

Lemma own_app t1 t2 : own (t1 ++ t2) = own t1 ++ own t2.
Proof. unfold own. rewrite filter_app, map_app. reflexivity. Qed.

(* adding a gap record to class i *)
Lemma cov_gaps_cons g : forall i gs x, (cov_gaps (upd_nth i (cons g) gs) x <= cov_gaps gs x + (if inreg g x then 1 else 0))%nat.
Proof.
  intros i gs. revert i. induction gs as [|l t IH]; intros [|i] x; unfold cov_gaps in *; cbn [upd_nth concat]; try lia.
  - rewrite <- app_comm_cons, cov_cons. lia.
  - rewrite !cov_app. specialize (IH i x). lia.
Qed.

(* taking the head of class i away *)
Lemma cov_gaps_pop g rest : forall i gs x, nth i gs [] = g :: rest ->
  (cov_gaps (upd_nth i (fun _ => rest) gs) x + (if inreg g x then 1 else 0) = cov_gaps gs x)%nat.
Proof.
  intros i gs. revert i. induction gs as [|l t IH]; intros [|i] x H; unfold cov_gaps in *; cbn [nth] in H; try discriminate.
  - subst l. cbn [upd_nth concat]. rewrite <- app_comm_cons, cov_cons. lia.
  - cbn [upd_nth concat]. rewrite !cov_app. specialize (IH i x H). lia.
Qed.

(* appending a node to tree i *)
Lemma cov_nodes_snoc c : forall i ts x,
  (cov_nodes (upd_nth i (fun t => t ++ [c]) ts) x <= cov_nodes ts x + (if c_shared c then 0 else if inreg (node_reg c) x then 1 else 0))%nat.
Proof.
  intros i ts. revert i. induction ts as [|l t IH]; intros [|i] x; unfold cov_nodes in *; cbn [upd_nth concat]; try lia.
  - rewrite !own_app, !cov_app. unfold own at 2. cbn [filter]. destruct (c_shared c); cbn [negb map]; [cbn; lia|].
    rewrite cov_cons. cbn. lia.
  - rewrite !own_app, !cov_app. specialize (IH i x). lia.
Qed.

(* gap classes: the record in class i has size 2^i *)
Definition gaps_sized (gs : list (list (Z * Z))) : Prop := forall i g, In g (nth i gs []) -> snd g = 2 ^ Z.of_nat i.

Lemma gap_class_spec off sz : 0 < sz -> let '(gi, gs) := gap_class off sz in gs = 2 ^ Z.of_nat gi /\ 1 <= gs <= sz.
Proof.
  intros H. unfold gap_class.
  repeat match goal with |- context [if ?c then _ else _] => destruct c eqn:? end;
    repeat match goal with H : (_ && _) = true |- _ => apply andb_prop in H; destruct H end;
    rewrite ?Z.leb_le in *; split; try reflexivity; lia.
Qed.

Lemma gaps_sized_cons gi g gs : gaps_sized gs -> snd g = 2 ^ Z.of_nat gi -> gaps_sized (upd_nth gi (cons g) gs).
Proof.
  intros S E i x Hx. destruct (Nat.eq_dec gi i) as [<-|NE].
  - destruct (lt_dec gi (length gs)) as [L|L].
    + rewrite nth_upd_nth_same in Hx by exact L. destruct Hx as [<-|Hx]; [exact E|apply (S gi x Hx)].
    + rewrite nth_overflow in Hx by (rewrite upd_nth_length; lia). destruct Hx.
  - rewrite nth_upd_nth_other in Hx by exact NE. apply (S i x Hx).
Qed.

Lemma gaps_sized_pop i rest gs : gaps_sized gs -> (forall g, In g rest -> In g (nth i gs [])) -> gaps_sized (upd_nth i (fun _ => rest) gs).
Proof.
  intros S Sub j x Hx. destruct (Nat.eq_dec i j) as [<-|NE].
  - destruct (lt_dec i (length gs)) as [L|L].
    + rewrite nth_upd_nth_same in Hx by exact L. apply (S i x). apply Sub. exact Hx.
    + rewrite nth_overflow in Hx by (rewrite upd_nth_length; lia). destruct Hx.
  - rewrite nth_upd_nth_other in Hx by exact NE. apply (S j x Hx).
Qed.

Section WithOracle.
Variable ok : nat -> bool.

(* add_gap only adds records inside [off, off+sz), each byte at most once; trees and size stay *)
Lemma add_gap_spec : forall fuel p off sz k p' k',
  add_gap ok fuel p off sz k = (p', k') ->
  p_trees p' = p_trees p /\ p_size p' = p_size p /\ p_align p' = p_align p /\ p_min p' = p_min p /\
  (gaps_sized (p_gaps p) -> gaps_sized (p_gaps p')) /\
  (forall x, (cov_gaps (p_gaps p') x <= cov_gaps (p_gaps p) x + (if inreg (off, sz) x then 1 else 0))%nat).
Proof.
  induction fuel as [|f IH]; intros p off sz k p' k' E; cbn [add_gap] in E.
  - inversion E; subst. repeat split; auto. intros x. lia.
  - destruct (Z.leb_spec sz 0) as [Z0|Z0]; [inversion E; subst; repeat split; auto; intros x; lia|].
    pose proof (gap_class_spec off sz Z0) as GC. destruct (gap_class off sz) as [gi gs]. destruct GC as [GE GB].
    destruct (match p_gap_pool p with S m => (true, m, k) | O => let '(b, k'0) := request ok k in (b, 0%nat, k'0) end) as [[got gp] k1].
    destruct got; [|inversion E; subst; repeat split; auto; intros x; lia].
    destruct (IH _ _ _ _ _ _ E) as [T [SZ [AL [MN [GS CV]]]]]. cbn [p_trees p_size p_align p_min p_gaps] in *.
    repeat split; auto.
    + intros S0. apply GS. apply gaps_sized_cons; [exact S0|exact GE].
    + intros x. specialize (CV x). pose proof (cov_gaps_cons (off, gs) gi (p_gaps p) x) as C1. unfold inreg in *. cbn [fst snd] in *.
      destruct (Z.leb_spec off x), (Z.ltb_spec x (off + gs)), (Z.leb_spec (off + gs) x), (Z.ltb_spec x (off + gs + (sz - gs))), (Z.ltb_spec x (off + sz));
        cbn [andb] in *; lia.
Qed.

(* the gap look-up: gaps are only taken away; the bytes of the gap it returns are free afterwards.  (The branch that would put the
   rest of a larger gap back - at the SAME offset - is dead: every record of class i has size 2^i.) *)
Lemma take_gaps_spec : forall iters ti size p off k p' o' k',
  take_gaps ok iters ti size p off k = (p', o', k') ->
  size = 2 ^ Z.of_nat ti -> gaps_sized (p_gaps p) -> (forall x, (cov_all p x <= 1)%nat) ->
  (forall g, off = Some g -> forall x, g <= x < g + size -> cov_all p x = 0%nat) ->
  (forall x, p_size p <= x -> cov_all p x = 0%nat) -> (forall g, off = Some g -> g + size <= p_size p) ->
  p_trees p' = p_trees p /\ p_size p' = p_size p /\ p_align p' = p_align p /\ p_min p' = p_min p /\
  gaps_sized (p_gaps p') /\ (forall x, (cov_all p' x <= cov_all p x)%nat) /\
  (forall g, o' = Some g -> (forall x, g <= x < g + size -> cov_all p' x = 0%nat) /\ g + size <= p_size p).
Proof.
  induction iters as [|it IH]; intros ti size p off k p' o' k' E SZ GS C1 FR BD FB; cbn [take_gaps] in E.
  - inversion E; subst. repeat split; auto; try (intros; eapply FR; eauto; fail); try (intros; eapply FB; eauto; fail).
  - destruct (nth ti (p_gaps p) []) as [|[goff gsz] rest] eqn:N.
    + exact (IH _ _ _ _ _ _ _ _ E SZ GS C1 FR BD FB).
    + assert (GZ : gsz = size) by (rewrite SZ; apply (GS ti (goff, gsz)); rewrite N; left; reflexivity).
      subst gsz. rewrite Z.sub_diag in E. cbn [Z.ltb Z.compare] in E.
      set (p1 := mkpool (p_trees p) (upd_nth ti (fun _ => rest) (p_gaps p)) (S (p_gap_pool p)) (p_size p) (p_align p) (p_min p)) in *.
      assert (CP : forall x, (cov_all p1 x + (if inreg (goff, size) x then 1 else 0) = cov_all p x)%nat).
      { intros x. unfold cov_all, p1. cbn [p_gaps p_trees]. pose proof (cov_gaps_pop (goff, size) rest ti (p_gaps p) x N). lia. }
      destruct (IH ti size p1 (Some goff) k p' o' k' E SZ) as [T [S1 [AL [MN [GS' [CV FR']]]]]].
      * unfold p1. cbn [p_gaps]. apply gaps_sized_pop; [exact GS|]. intros g Hg. rewrite N. right. exact Hg.
      * intros x. specialize (CP x). specialize (C1 x). lia.
      * intros g [= <-] x Hx. specialize (CP x). specialize (C1 x). unfold inreg in CP. cbn [fst snd] in CP.
        destruct (Z.leb_spec goff x), (Z.ltb_spec x (goff + size)); cbn [andb] in CP; lia.
      * intros x Hx. unfold p1 in Hx. cbn [p_size] in Hx. specialize (CP x). specialize (BD x Hx). lia.
      * intros g [= <-]. unfold p1. cbn [p_size]. assert (P : 0 < size) by (rewrite SZ; apply Z.pow_pos_nonneg; lia).
        destruct (Z.le_gt_cases (goff + size) (p_size p)) as [L|L]; [exact L|]. exfalso.
        pose proof (CP (goff + size - 1)) as C. pose proof (BD (goff + size - 1) ltac:(lia)) as B0. unfold inreg in C. cbn [fst snd] in C.
        destruct (Z.leb_spec goff (goff + size - 1)), (Z.ltb_spec (goff + size - 1) (goff + size)); cbn [andb] in C; lia.
      * split; [exact T|]. split; [exact S1|]. split; [exact AL|]. split; [exact MN|]. split; [exact GS'|].
        split; [intros x; specialize (CV x); specialize (CP x); lia|exact FR'].
Qed.

Lemma add_shared_level_spec : forall pieces ti d sm off p k b p' k',
  add_shared_level ok pieces ti d sm off p k = (b, p', k') ->
  p_gaps p' = p_gaps p /\ p_size p' = p_size p /\ (forall x, (cov_nodes (p_trees p') x <= cov_nodes (p_trees p) x)%nat).
Proof.
  induction pieces as [|i rest IH]; intros ti d sm off p k b p' k' E; cbn [add_shared_level] in E.
  - inversion E; subst. repeat split; auto.
  - destruct (tree_get (nth ti (p_trees p) []) (slice d (i * sm) sm)); [exact (IH _ _ _ _ _ _ _ _ _ E)|].
    unfold request in E. destruct (ok k); [|inversion E; subst; repeat split; auto].
    destruct (IH _ _ _ _ _ _ _ _ _ E) as [G [S C]]. cbn [p_gaps p_size p_trees] in *. repeat split; auto.
    intros x. specialize (C x). pose proof (cov_nodes_snoc (mkcnode (slice d (i * sm) sm) (off + Z.of_nat (i * sm)) true) ti (p_trees p) x) as C2.
    cbn [c_shared] in C2. lia.
Qed.

Lemma add_shared_spec : forall levels ti d sm pc off p k p' k',
  add_shared ok levels ti d sm pc off p k = (p', k') ->
  p_gaps p' = p_gaps p /\ p_size p' = p_size p /\ (forall x, (cov_nodes (p_trees p') x <= cov_nodes (p_trees p) x)%nat).
Proof.
  induction levels as [|lv IH]; intros ti d sm pc off p k p' k' E; cbn [add_shared] in E.
  - inversion E; subst. repeat split; auto.
  - destruct (4 <? sm)%nat; [|inversion E; subst; repeat split; auto].
    destruct (add_shared_level ok (seq 0 (pc * 2)) (ti - 1) d (sm / 2) off p k) as [[cont p1] k1] eqn:L.
    destruct (add_shared_level_spec _ _ _ _ _ _ _ _ _ _ L) as [G1 [S1 C1]].
    destruct cont.
    + destruct (IH _ _ _ _ _ _ _ _ _ E) as [G [S C]]. repeat split; try congruence. intros x. specialize (C x). specialize (C1 x). lia.
    + inversion E; subst. repeat split; auto.
Qed.

(* ---- the invariant and ConstPool::add ---- *)
Definition pool_ok (p : pool) : Prop :=
  gaps_sized (p_gaps p) /\ (forall x, (cov_all p x <= 1)%nat) /\ (forall x, p_size p <= x -> cov_all p x = 0%nat) /\ 0 <= p_size p.

Lemma pool_place_finish d ti p2 off k2 r o p' k' :
  pool_ok p2 -> (forall x, off <= x < off + Z.of_nat (length d) -> cov_all p2 x = 0%nat) -> off + Z.of_nat (length d) <= p_size p2 ->
  (let '(b, k3) := request ok k2 in
   if b then
     let p3 := mkpool (upd_nth ti (fun t => t ++ [mkcnode d off false]) (p_trees p2)) (p_gaps p2) (p_gap_pool p2) (p_size p2)
                      (Z.max (p_align p2) (Z.of_nat (length d))) (if p_min p2 =? 0 then Z.of_nat (length d) else Z.min (p_min p2) (Z.of_nat (length d))) in
     let '(p4, k4) := add_shared ok 4 ti d (length d) 1 off p3 k3 in (Ok, Some off, p4, k4)
   else (Oom, None, p2, k3)) = (r, o, p', k') ->
  pool_ok p'.
Proof.
  intros [GS2 [C12 [BD2 NN2]]] FR2 IN2 E. set (size := Z.of_nat (length d)) in *.
  unfold request in E. destruct (ok k2); [|inversion E; subst; repeat split; auto].
  cbv zeta in E.
  set (p3 := mkpool (upd_nth ti (fun t => t ++ [mkcnode d off false]) (p_trees p2)) (p_gaps p2) (p_gap_pool p2) (p_size p2)
                    (Z.max (p_align p2) size) (if p_min p2 =? 0 then size else Z.min (p_min p2) size)) in *.
  destruct (add_shared ok 4 ti d (length d) 1 off p3 (S k2)) as [p4 k4] eqn:AS.
  destruct (add_shared_spec _ _ _ _ _ _ _ _ _ _ AS) as [G4 [S4 C4]].
  inversion E; subst.
  assert (C3 : forall x, (cov_all p3 x <= cov_all p2 x + (if inreg (off, size) x then 1 else 0))%nat).
  { intros x. unfold cov_all, p3, size. cbn [p_gaps p_trees]. pose proof (cov_nodes_snoc (mkcnode d off false) ti (p_trees p2) x) as CN.
    unfold node_reg in CN. cbn [c_shared c_off c_data] in CN. lia. }
  assert (KEY : forall x, (cov_all p' x <= 1)%nat /\ (p_size p2 <= x -> cov_all p' x = 0%nat)).
  { intros x. assert (CX : (cov_all p' x <= cov_all p3 x)%nat) by (unfold cov_all; rewrite G4; specialize (C4 x); lia).
    specialize (C3 x). specialize (C12 x). pose proof (BD2 x) as B. pose proof (FR2 x) as F. unfold inreg in C3. cbn [fst snd] in C3.
    destruct (Z.leb_spec off x), (Z.ltb_spec x (off + size)); cbn [andb] in C3; split; try lia; intros; lia. }
  repeat split.
  - rewrite G4. exact GS2.
  - intros x. apply (KEY x).
  - intros x Hx. rewrite S4 in Hx. apply (KEY x). exact Hx.
  - rewrite S4. exact NN2.
Qed.

Theorem pool_add_disjoint d p k r o p' k' : pool_ok p -> pool_add ok d p k = (r, o, p', k') -> pool_ok p'.
Proof.
  intros [GS [C1 [BD NN]]] E. unfold pool_add in E.
  set (size := Z.of_nat (length d)) in *.
  destruct ((size =? 0) || (64 <? size) || negb (is_pow2 size)) eqn:V; [inversion E; subst; repeat split; auto|].
  apply orb_false_elim in V. destruct V as [V V3]. apply orb_false_elim in V. destruct V as [V1 V2].
  apply negb_false_iff in V3. unfold is_pow2 in V3. apply andb_prop in V3. destruct V3 as [P0 P2]. apply Z.ltb_lt in P0. apply Z.eqb_eq in P2.
  set (ti := Z.to_nat (Z.log2 size)) in *.
  assert (SZ : size = 2 ^ Z.of_nat ti) by (unfold ti; rewrite Z2Nat.id by apply Z.log2_nonneg; symmetry; exact P2).
  destruct (tree_get (nth ti (p_trees p) []) d); [inversion E; subst; repeat split; auto|].
  destruct (take_gaps ok (index_count - 1 - ti) ti size p None k) as [[p1 goff] k1] eqn:TG.
  destruct (take_gaps_spec _ _ _ _ _ _ _ _ _ TG SZ GS C1 ltac:(discriminate) BD ltac:(discriminate)) as [T1 [S1 [_ [_ [GS1 [CV1 FR1]]]]]].
  assert (C11 : forall x, (cov_all p1 x <= 1)%nat) by (intros x; specialize (CV1 x); specialize (C1 x); lia).
  assert (BD1 : forall x, p_size p1 <= x -> cov_all p1 x = 0%nat) by (intros x Hx; rewrite S1 in Hx; specialize (CV1 x); specialize (BD x Hx); lia).
  destruct goff as [o0|].
  - destruct (FR1 o0 eq_refl) as [F B]. apply (pool_place_finish d ti p1 o0 k1 r o p' k'); auto.
    + repeat split; auto; lia.
    + fold size. lia.
  - cbv zeta in E. set (diff := (size - p_size p1 mod size) mod size) in *.
    assert (DB : 0 <= diff < size) by (apply Z.mod_pos_bound; lia).
    destruct (Z.eqb_spec diff 0) as [D0|D0].
    + cbn [p_trees p_gaps p_gap_pool p_size p_align p_min] in E.
      apply (pool_place_finish d ti _ _ _ r o p' k') with (4 := E); cbn [p_size]; fold size.
      * repeat split; cbn [p_gaps p_size]; auto; try lia. intros x Hx. unfold cov_all in *. cbn [p_gaps p_trees]. apply BD1. lia.
      * intros x Hx. unfold cov_all in *. cbn [p_gaps p_trees]. apply BD1. lia.
      * lia.
    + destruct (add_gap ok (Z.to_nat diff) p1 (p_size p1) diff k1) as [q kq] eqn:AG.
      destruct (add_gap_spec _ _ _ _ _ _ _ AG) as [TQ [SQ [_ [_ [GSQ CQ]]]]].
      cbn [p_trees p_gaps p_gap_pool p_size p_align p_min] in E.
      assert (CA : forall x, (cov_all q x <= cov_all p1 x + (if inreg (p_size p1, diff) x then 1 else 0))%nat).
      { intros x. unfold cov_all. rewrite TQ. specialize (CQ x). lia. }
      assert (KEY : forall x, (cov_all q x <= 1)%nat /\ (p_size p1 + diff <= x -> cov_all q x = 0%nat)).
      { intros x. specialize (CA x). specialize (C11 x). pose proof (BD1 x) as B. unfold inreg in CA. cbn [fst snd] in CA.
        destruct (Z.leb_spec (p_size p1) x), (Z.ltb_spec x (p_size p1 + diff)); cbn [andb] in CA; split; try lia; intros; lia. }
      apply (pool_place_finish d ti _ _ _ r o p' k') with (4 := E); cbn [p_size]; fold size; rewrite ?SQ.
      * repeat split; cbn [p_gaps p_size]; auto; try lia.
        -- intros x. apply (KEY x).
        -- intros x Hx. apply (KEY x). lia.
      * intros x Hx. apply (KEY x). lia.
      * lia.
Qed.

End WithOracle.

Lemma pool_empty_ok : pool_ok pool_empty.
Proof.
  split; [|split; [|split]].
  - intros i g H. unfold pool_empty, index_count in H. cbn in H. do 7 (destruct i as [|i]; [destruct H|]). destruct i; destruct H.
  - intros x. vm_compute. lia.
  - intros x _. vm_compute. reflexivity.
  - cbn. lia.
Qed.

(* Whole scripts of adds from the empty pool under ANY oracle (failed node, gap-record and shared-node requests anywhere): no byte
   of the pool belongs to two constants or to a constant and a gap, nothing lies beyond the pool size, and every gap record of
   class i has size 2^i (which is why the "put the rest of the gap back" branch of ConstPool::add can never run). *)
Theorem pool_run_disjoint ok ds : forall p k rs p' k', pool_ok p -> pool_run ok ds p k = (rs, p', k') -> pool_ok p'.
Proof.
  induction ds as [|d t IH]; intros p k rs p' k' I E; cbn [pool_run] in E.
  - inversion E; subst. exact I.
  - destruct (pool_add ok d p k) as [[[r o] p1] k1] eqn:S1. destruct (pool_run ok t p1 k1) as [[rs2 p2] k2] eqn:S2.
    inversion E; subst. exact (IH _ _ _ _ _ (pool_add_disjoint ok d p k r o p1 k1 I S1) S2).
Qed.

(* in the usual words: two different non-shared nodes of the pool never overlap *)
Lemma cov_two l1 r1 l2 r2 l3 x : inreg r1 x = true -> inreg r2 x = true -> (2 <= cov (l1 ++ r1 :: l2 ++ r2 :: l3) x)%nat.
Proof. intros H1 H2. rewrite cov_app, cov_cons, cov_app, cov_cons, H1, H2. lia. Qed.

(* ---- alignment: the offset of a freshly placed constant is a multiple of its size and the constant lies inside the pool ---- *)
Definition gaps_aligned (gs : list (list (Z * Z))) : Prop := forall i g, In g (nth i gs []) -> fst g mod 2 ^ Z.of_nat i = 0.

Lemma gap_class_aligned off sz : let '(gi, gs) := gap_class off sz in off mod 2 ^ Z.of_nat gi = 0.
Proof.
  unfold gap_class.
  repeat match goal with |- context [if ?c then _ else _] => destruct c eqn:? end;
    repeat match goal with H : (_ && _) = true |- _ => apply andb_prop in H; destruct H end;
    rewrite ?Z.eqb_eq in *; try assumption. apply Z.mod_1_r.
Qed.

Lemma gaps_aligned_cons gi g gs : gaps_aligned gs -> fst g mod 2 ^ Z.of_nat gi = 0 -> gaps_aligned (upd_nth gi (cons g) gs).
Proof.
  intros S E i x Hx. destruct (Nat.eq_dec gi i) as [<-|NE].
  - destruct (lt_dec gi (length gs)) as [L|L].
    + rewrite nth_upd_nth_same in Hx by exact L. destruct Hx as [<-|Hx]; [exact E|apply (S gi x Hx)].
    + rewrite nth_overflow in Hx by (rewrite upd_nth_length; lia). destruct Hx.
  - rewrite nth_upd_nth_other in Hx by exact NE. apply (S i x Hx).
Qed.

Lemma gaps_aligned_pop i rest gs : gaps_aligned gs -> (forall g, In g rest -> In g (nth i gs [])) -> gaps_aligned (upd_nth i (fun _ => rest) gs).
Proof.
  intros S Sub j x Hx. destruct (Nat.eq_dec i j) as [<-|NE].
  - destruct (lt_dec i (length gs)) as [L|L].
    + rewrite nth_upd_nth_same in Hx by exact L. apply (S i x). apply Sub. exact Hx.
    + rewrite nth_overflow in Hx by (rewrite upd_nth_length; lia). destruct Hx.
  - rewrite nth_upd_nth_other in Hx by exact NE. apply (S j x Hx).
Qed.

Lemma align_up_mod s size : 0 < size -> (s + (size - s mod size) mod size) mod size = 0.
Proof.
  intros H. pose proof (Z.mod_pos_bound s size H) as B. pose proof (Z.div_mod s size ltac:(lia)) as D.
  destruct (Z.eq_dec (s mod size) 0) as [E|E].
  - rewrite E, Z.sub_0_r, Z.mod_same, Z.add_0_r by lia. exact E.
  - rewrite (Z.mod_small (size - s mod size)) by lia.
    replace (s + (size - s mod size)) with ((s / size + 1) * size) by lia. apply Z.mod_mul. lia.
Qed.

Section Aligned.
Variable ok : nat -> bool.

Lemma add_gap_aligned : forall fuel p off sz k p' k',
  add_gap ok fuel p off sz k = (p', k') -> gaps_aligned (p_gaps p) -> gaps_aligned (p_gaps p').
Proof.
  induction fuel as [|f IH]; intros p off sz k p' k' E A; cbn [add_gap] in E.
  - inversion E; subst. exact A.
  - destruct (sz <=? 0); [inversion E; subst; exact A|].
    pose proof (gap_class_aligned off sz) as GC. destruct (gap_class off sz) as [gi gs].
    destruct (match p_gap_pool p with S m => (true, m, k) | O => let '(b, k'0) := request ok k in (b, 0%nat, k'0) end) as [[got gp] k1].
    destruct got; [|inversion E; subst; exact A].
    apply (IH _ _ _ _ _ _ E). cbn [p_gaps]. apply gaps_aligned_cons; [exact A|exact GC].
Qed.

Lemma take_gaps_aligned : forall iters ti size p off k p' o' k',
  take_gaps ok iters ti size p off k = (p', o', k') -> size = 2 ^ Z.of_nat ti ->
  gaps_sized (p_gaps p) -> gaps_aligned (p_gaps p) -> (forall g, off = Some g -> g mod size = 0) ->
  gaps_aligned (p_gaps p') /\ (forall g, o' = Some g -> g mod size = 0).
Proof.
  induction iters as [|it IH]; intros ti size p off k p' o' k' E SZ GS A FA; cbn [take_gaps] in E.
  - inversion E; subst. auto.
  - destruct (nth ti (p_gaps p) []) as [|[goff gsz] rest] eqn:N.
    + exact (IH _ _ _ _ _ _ _ _ E SZ GS A FA).
    + assert (GZ : gsz = size) by (rewrite SZ; apply (GS ti (goff, gsz)); rewrite N; left; reflexivity).
      subst gsz. rewrite Z.sub_diag in E. cbn [Z.ltb Z.compare] in E.
      apply (IH _ _ _ _ _ _ _ _ E SZ); cbn [p_gaps].
      * apply gaps_sized_pop; [exact GS|]. intros g Hg. rewrite N. right. exact Hg.
      * apply gaps_aligned_pop; [exact A|]. intros g Hg. rewrite N. right. exact Hg.
      * intros g [= <-]. rewrite SZ. apply (A ti (goff, size)). rewrite N. left. reflexivity.
Qed.

(* the offset of a freshly placed constant (no equal constant was in the pool): a multiple of the size, inside the pool *)
Theorem pool_add_fresh_offset d p k off p' k' :
  pool_ok p -> gaps_aligned (p_gaps p) -> pool_lookup p d = None ->
  pool_add ok d p k = (Ok, Some off, p', k') ->
  off mod Z.of_nat (length d) = 0 /\ off + Z.of_nat (length d) <= p_size p' /\ gaps_aligned (p_gaps p').
Proof.
  intros [GS [C1 [BD NN]]] GA LK E. unfold pool_add in E. unfold pool_lookup in LK.
  set (size := Z.of_nat (length d)) in *.
  destruct ((size =? 0) || (64 <? size) || negb (is_pow2 size)) eqn:V; [inversion E|].
  apply orb_false_elim in V. destruct V as [V V3]. apply orb_false_elim in V. destruct V as [V1 V2].
  apply negb_false_iff in V3. unfold is_pow2 in V3. apply andb_prop in V3. destruct V3 as [P0 P2]. apply Z.ltb_lt in P0. apply Z.eqb_eq in P2.
  set (ti := Z.to_nat (Z.log2 size)) in *.
  assert (SZ : size = 2 ^ Z.of_nat ti) by (unfold ti; rewrite Z2Nat.id by apply Z.log2_nonneg; symmetry; exact P2).
  destruct (tree_get (nth ti (p_trees p) []) d); [discriminate|].
  destruct (take_gaps ok (index_count - 1 - ti) ti size p None k) as [[p1 goff] k1] eqn:TG.
  destruct (take_gaps_spec ok _ _ _ _ _ _ _ _ _ TG SZ GS C1 ltac:(discriminate) BD ltac:(discriminate)) as [T1 [S1 [_ [_ [GS1 [CV1 FR1]]]]]].
  destruct (take_gaps_aligned _ _ _ _ _ _ _ _ _ TG SZ GS GA ltac:(discriminate)) as [GA1 FA1].
  assert (FIN : forall p2 off2 k2,
    (let '(b, k3) := request ok k2 in
     if b then
       let p3 := mkpool (upd_nth ti (fun t => t ++ [mkcnode d off2 false]) (p_trees p2)) (p_gaps p2) (p_gap_pool p2) (p_size p2)
                        (Z.max (p_align p2) size) (if p_min p2 =? 0 then size else Z.min (p_min p2) size) in
       let '(p4, k4) := add_shared ok 4 ti d (length d) 1 off2 p3 k3 in (Ok, Some off2, p4, k4)
     else (Oom, None, p2, k3)) = (Ok, Some off, p', k') ->
    off = off2 /\ p_size p' = p_size p2 /\ p_gaps p' = p_gaps p2).
  { intros p2 off2 k2 EF. unfold request in EF. destruct (ok k2); [|discriminate]. cbv zeta in EF.
    destruct (add_shared ok 4 ti d (length d) 1 off2 _ (S k2)) as [p4 k4] eqn:AS.
    destruct (add_shared_spec ok _ _ _ _ _ _ _ _ _ _ AS) as [G4 [S4 _]]. inversion EF; subst. auto. }
  destruct goff as [o0|].
  - destruct (FIN _ _ _ E) as [-> [SP GP]]. destruct (FR1 o0 eq_refl) as [_ B]. rewrite SP, GP, S1.
    split; [apply (FA1 o0 eq_refl)|]. split; [exact B|exact GA1].
  - cbv zeta in E. pose proof (align_up_mod (p_size p1) size P0) as AU.
    set (diff := (size - p_size p1 mod size) mod size) in *.
    destruct (Z.eqb_spec diff 0) as [D0|D0].
    + cbn [p_trees p_gaps p_gap_pool p_size p_align p_min] in E. destruct (FIN _ _ _ E) as [-> [SP GP]]. cbn [p_size p_gaps] in SP, GP.
      rewrite SP, GP. rewrite D0, Z.add_0_r in AU. split; [exact AU|]. split; [lia|exact GA1].
    + destruct (add_gap ok (Z.to_nat diff) p1 (p_size p1) diff k1) as [q kq] eqn:AG.
      destruct (add_gap_spec ok _ _ _ _ _ _ _ AG) as [_ [SQ _]]. pose proof (add_gap_aligned _ _ _ _ _ _ _ AG GA1) as GAQ.
      cbn [p_trees p_gaps p_gap_pool p_size p_align p_min] in E. destruct (FIN _ _ _ E) as [-> [SP GP]]. cbn [p_size p_gaps] in SP, GP.
      rewrite SP, GP, SQ. split; [exact AU|]. split; [lia|exact GAQ].
Qed.
End Aligned.

Section AlignedRun.
Variable ok : nat -> bool.

Lemma pool_add_aligned d p k r o p' k' :
  pool_ok p -> gaps_aligned (p_gaps p) -> pool_add ok d p k = (r, o, p', k') -> gaps_aligned (p_gaps p').
Proof.
  intros [GS [C1 [BD NN]]] GA E. unfold pool_add in E.
  set (size := Z.of_nat (length d)) in *.
  destruct ((size =? 0) || (64 <? size) || negb (is_pow2 size)) eqn:V; [inversion E; subst; exact GA|].
  apply orb_false_elim in V. destruct V as [V V3]. apply orb_false_elim in V. destruct V as [V1 V2].
  apply negb_false_iff in V3. unfold is_pow2 in V3. apply andb_prop in V3. destruct V3 as [P0 P2]. apply Z.ltb_lt in P0. apply Z.eqb_eq in P2.
  set (ti := Z.to_nat (Z.log2 size)) in *.
  assert (SZ : size = 2 ^ Z.of_nat ti) by (unfold ti; rewrite Z2Nat.id by apply Z.log2_nonneg; symmetry; exact P2).
  destruct (tree_get (nth ti (p_trees p) []) d); [inversion E; subst; exact GA|].
  destruct (take_gaps ok (index_count - 1 - ti) ti size p None k) as [[p1 goff] k1] eqn:TG.
  destruct (take_gaps_aligned ok _ _ _ _ _ _ _ _ _ TG SZ GS GA ltac:(discriminate)) as [GA1 _].
  assert (FIN : forall p2 off2 k2,
    (let '(b, k3) := request ok k2 in
     if b then
       let p3 := mkpool (upd_nth ti (fun t => t ++ [mkcnode d off2 false]) (p_trees p2)) (p_gaps p2) (p_gap_pool p2) (p_size p2)
                        (Z.max (p_align p2) size) (if p_min p2 =? 0 then size else Z.min (p_min p2) size) in
       let '(p4, k4) := add_shared ok 4 ti d (length d) 1 off2 p3 k3 in (Ok, Some off2, p4, k4)
     else (Oom, None, p2, k3)) = (r, o, p', k') -> p_gaps p' = p_gaps p2).
  { intros p2 off2 k2 EF. unfold request in EF. destruct (ok k2); [|inversion EF; reflexivity]. cbv zeta in EF.
    destruct (add_shared ok 4 ti d (length d) 1 off2 _ (S k2)) as [p4 k4] eqn:AS.
    destruct (add_shared_spec ok _ _ _ _ _ _ _ _ _ _ AS) as [G4 _]. inversion EF; subst. exact G4. }
  destruct goff as [o0|].
  - rewrite (FIN _ _ _ E). exact GA1.
  - cbv zeta in E. set (diff := (size - p_size p1 mod size) mod size) in *.
    destruct (Z.eqb_spec diff 0) as [D0|D0].
    + cbn [p_trees p_gaps p_gap_pool p_size p_align p_min] in E. rewrite (FIN _ _ _ E). exact GA1.
    + destruct (add_gap ok (Z.to_nat diff) p1 (p_size p1) diff k1) as [q kq] eqn:AG.
      pose proof (add_gap_aligned ok _ _ _ _ _ _ _ AG GA1) as GAQ.
      cbn [p_trees p_gaps p_gap_pool p_size p_align p_min] in E. rewrite (FIN _ _ _ E). exact GAQ.
Qed.

Theorem pool_run_aligned ds : forall p k rs p' k',
  pool_ok p -> gaps_aligned (p_gaps p) -> pool_run ok ds p k = (rs, p', k') -> pool_ok p' /\ gaps_aligned (p_gaps p').
Proof.
  induction ds as [|d t IH]; intros p k rs p' k' I A E; cbn [pool_run] in E.
  - inversion E; subst. auto.
  - destruct (pool_add ok d p k) as [[[r o] p1] k1] eqn:S1. destruct (pool_run ok t p1 k1) as [[rs2 p2] k2] eqn:S2.
    inversion E; subst.
    exact (IH _ _ _ _ _ (pool_add_disjoint ok d p k r o p1 k1 I S1) (pool_add_aligned d p k r o p1 k1 I A S1) S2).
Qed.
End AlignedRun.

Lemma pool_empty_aligned : gaps_aligned (p_gaps pool_empty).
Proof. intros i g H. unfold pool_empty, index_count in H. cbn in H. do 7 (destruct i as [|i]; [destruct H|]). destruct i; destruct H. Qed.

(* ---- shared sub-constants: every shared node stores bytes that a real (non-shared) constant stores at the same pool offsets ---- *)
Definition node_in (ts : list (list cnode)) (c : cnode) : Prop := exists i, In c (nth i ts []).

Definition shared_of (w c : cnode) : Prop :=
  c_shared w = false /\ c_off w <= c_off c /\
  c_data c = slice (c_data w) (Z.to_nat (c_off c - c_off w)) (length (c_data c)).

Definition shared_ok (ts : list (list cnode)) : Prop :=
  forall c, node_in ts c -> c_shared c = true -> exists w, node_in ts w /\ shared_of w c.

Lemma node_in_ext ts ts' c : trees_ext ts ts' -> node_in ts c -> node_in ts' c.
Proof. intros [_ X] [i Hi]. exists i. destruct (X i) as [s E]. rewrite E. apply in_or_app. left. exact Hi. Qed.

Lemma node_in_upd ts ti x c : node_in (upd_nth ti (fun t => t ++ [x]) ts) c -> node_in ts c \/ c = x.
Proof.
  intros [i Hi]. destruct (Nat.eq_dec ti i) as [<-|NE].
  - destruct (lt_dec ti (length ts)) as [L|L].
    + rewrite nth_upd_nth_same in Hi by exact L. apply in_app_or in Hi. destruct Hi as [Hi|[<-|[]]]; [left; exists ti; exact Hi|right; reflexivity].
    + rewrite nth_overflow in Hi by (rewrite upd_nth_length; lia). destruct Hi.
  - rewrite nth_upd_nth_other in Hi by exact NE. left. exists i. exact Hi.
Qed.

Lemma slice_self (d : list Z) from len : slice d from (length (slice d from len)) = slice d from len.
Proof.
  unfold slice. rewrite firstn_length. set (l := skipn from d). destruct (le_lt_dec len (length l)) as [L|L].
  - rewrite Nat.min_l by exact L. reflexivity.
  - rewrite Nat.min_r by lia. rewrite firstn_all. symmetry. apply firstn_all2. lia.
Qed.

Definition piece_of (d : list Z) (off : Z) (c : cnode) : Prop :=
  exists i sm, c = mkcnode (slice d (i * sm) sm) (off + Z.of_nat (i * sm)) true.

Lemma piece_shared_of d off c : piece_of d off c -> shared_of (mkcnode d off false) c.
Proof.
  intros [i [sm ->]]. unfold shared_of. cbn [c_shared c_off c_data]. split; [reflexivity|]. split; [lia|].
  replace (off + Z.of_nat (i * sm) - off) with (Z.of_nat (i * sm)) by lia. rewrite Nat2Z.id. symmetry. apply slice_self.
Qed.

Section Shared.
Variable ok : nat -> bool.

Lemma add_shared_level_nodes : forall pieces ti d sm off p k b p' k',
  add_shared_level ok pieces ti d sm off p k = (b, p', k') ->
  forall c, node_in (p_trees p') c -> node_in (p_trees p) c \/ piece_of d off c.
Proof.
  induction pieces as [|i rest IH]; intros ti d sm off p k b p' k' E c Hc; cbn [add_shared_level] in E.
  - inversion E; subst. left. exact Hc.
  - destruct (tree_get (nth ti (p_trees p) []) (slice d (i * sm) sm)); [exact (IH _ _ _ _ _ _ _ _ _ E c Hc)|].
    unfold request in E. destruct (ok k); [|inversion E; subst; left; exact Hc].
    destruct (IH _ _ _ _ _ _ _ _ _ E c Hc) as [H|H]; [|right; exact H]. cbn [p_trees] in H.
    destruct (node_in_upd _ _ _ _ H) as [H1 | ->]; [left; exact H1|right; exists i, sm; reflexivity].
Qed.

Lemma add_shared_nodes : forall levels ti d sm pc off p k p' k',
  add_shared ok levels ti d sm pc off p k = (p', k') ->
  forall c, node_in (p_trees p') c -> node_in (p_trees p) c \/ piece_of d off c.
Proof.
  induction levels as [|lv IH]; intros ti d sm pc off p k p' k' E c Hc; cbn [add_shared] in E.
  - inversion E; subst. left. exact Hc.
  - destruct (4 <? sm)%nat; [|inversion E; subst; left; exact Hc].
    destruct (add_shared_level ok (seq 0 (pc * 2)) (ti - 1) d (sm / 2) off p k) as [[cont p1] k1] eqn:L.
    destruct cont.
    + destruct (IH _ _ _ _ _ _ _ _ _ E c Hc) as [H|H]; [|right; exact H]. exact (add_shared_level_nodes _ _ _ _ _ _ _ _ _ _ L c H).
    + inversion E; subst. exact (add_shared_level_nodes _ _ _ _ _ _ _ _ _ _ L c Hc).
Qed.

(* ConstPool::add under every oracle keeps: every shared node denotes bytes of a real constant of the pool *)
Theorem pool_add_shared_ok d p k r o p' k' :
  length (p_trees p) = index_count -> shared_ok (p_trees p) -> pool_add ok d p k = (r, o, p', k') ->
  shared_ok (p_trees p') /\ length (p_trees p') = index_count.
Proof.
  intros LEN SH E.
  assert (EXT : trees_ext (p_trees p) (p_trees p')).
  { destruct r.
    - destruct (pool_add_ok ok d p k o p' k' LEN E) as [off [_ [_ X]]]. exact X.
    - rewrite (pool_add_failure_keeps_constants ok d p k Oom o p' k' E ltac:(discriminate)). apply trees_ext_refl.
    - rewrite (pool_add_failure_keeps_constants ok d p k Invalid o p' k' E ltac:(discriminate)). apply trees_ext_refl. }
  split; [|destruct EXT as [L _]; rewrite L; exact LEN].
  (* which nodes are new *)
  assert (NEW : forall c, node_in (p_trees p') c -> node_in (p_trees p) c \/
                          (exists off, node_in (p_trees p') (mkcnode d off false) /\ (c = mkcnode d off false \/ piece_of d off c))).
  { unfold pool_add in E.
    destruct ((Z.of_nat (length d) =? 0) || (64 <? Z.of_nat (length d)) || negb (is_pow2 (Z.of_nat (length d)))) eqn:GUARD;
      [inversion E; subst; intros c Hc; left; exact Hc|].
    apply orb_false_iff in GUARD. destruct GUARD as [GUARD _]. apply orb_false_iff in GUARD. destruct GUARD as [G0 G64].
    apply Z.eqb_neq in G0. apply Z.ltb_ge in G64.
    set (ti := Z.to_nat (Z.log2 (Z.of_nat (length d)))) in *.
    assert (TI : (ti < length (p_trees p))%nat).
    { rewrite LEN. unfold index_count, ti. pose proof (Z.log2_le_mono (Z.of_nat (length d)) 64 G64) as M. change (Z.log2 64) with 6 in M.
      pose proof (Z.log2_nonneg (Z.of_nat (length d))). lia. }
    destruct (tree_get (nth ti (p_trees p) []) d) as [cc|]; [inversion E; subst; intros c Hc; left; exact Hc|].
    destruct (take_gaps ok (index_count - 1 - ti) ti (Z.of_nat (length d)) p None k) as [[p1 goff] k1] eqn:TG.
    pose proof (take_gaps_trees ok (index_count - 1 - ti) ti (Z.of_nat (length d)) p None k) as T1. rewrite TG in T1. cbn [fst] in T1.
    assert (FIN : forall p2 off2 k2, p_trees p2 = p_trees p ->
      (let '(b, k3) := request ok k2 in
       if b then
         let p3 := mkpool (upd_nth ti (fun t => t ++ [mkcnode d off2 false]) (p_trees p2)) (p_gaps p2) (p_gap_pool p2) (p_size p2)
                          (Z.max (p_align p2) (Z.of_nat (length d))) (if p_min p2 =? 0 then Z.of_nat (length d) else Z.min (p_min p2) (Z.of_nat (length d))) in
         let '(p4, k4) := add_shared ok 4 ti d (length d) 1 off2 p3 k3 in (Ok, Some off2, p4, k4)
       else (Oom, None, p2, k3)) = (r, o, p', k') ->
      forall c, node_in (p_trees p') c -> node_in (p_trees p) c \/
                (exists off, node_in (p_trees p') (mkcnode d off false) /\ (c = mkcnode d off false \/ piece_of d off c))).
    { intros p2 off2 k2 T2 EF c Hc. unfold request in EF. destruct (ok k2); [|inversion EF; subst; left; rewrite <- T2; exact Hc].
      cbv zeta in EF. destruct (add_shared ok 4 ti d (length d) 1 off2 _ (S k2)) as [p4 k4] eqn:AS. inversion EF; subst.
      pose proof (add_shared_ext ok _ _ _ _ _ _ _ _ _ _ AS) as X. cbn [p_trees] in X.
      assert (IN3 : node_in (p_trees p') (mkcnode d off2 false)).
      { apply (node_in_ext _ _ _ X). exists ti. rewrite nth_upd_nth_same by (rewrite T2; exact TI). apply in_or_app. right. left. reflexivity. }
      destruct (add_shared_nodes _ _ _ _ _ _ _ _ _ _ AS c Hc) as [H|H].
      - cbn [p_trees] in H. destruct (node_in_upd _ _ _ _ H) as [H1 | ->].
        + left. rewrite <- T2. exact H1.
        + right. exists off2. split; [exact IN3|left; reflexivity].
      - right. exists off2. split; [exact IN3|right; exact H]. }
    destruct goff as [o0|].
    - exact (FIN p1 o0 k1 T1 E).
    - cbv zeta in E. destruct ((Z.of_nat (length d) - p_size p1 mod Z.of_nat (length d)) mod Z.of_nat (length d) =? 0).
      + cbn [p_trees p_gaps p_gap_pool p_size p_align p_min] in E. refine (FIN _ _ _ _ E). cbn [p_trees]. exact T1.
      + pose proof (add_gap_trees ok (Z.to_nat ((Z.of_nat (length d) - p_size p1 mod Z.of_nat (length d)) mod Z.of_nat (length d))) p1 (p_size p1)
                     ((Z.of_nat (length d) - p_size p1 mod Z.of_nat (length d)) mod Z.of_nat (length d)) k1) as TQ.
        destruct (add_gap ok _ p1 (p_size p1) _ k1) as [q kq]. cbn [fst] in TQ.
        cbn [p_trees p_gaps p_gap_pool p_size p_align p_min] in E. refine (FIN _ _ _ _ E). cbn [p_trees]. congruence. }
  intros c Hc SC. destruct (NEW c Hc) as [OLD|[off [IN [-> | PC]]]].
  - destruct (SH c OLD SC) as [w [Hw SW]]. exists w. split; [apply (node_in_ext _ _ _ EXT Hw)|exact SW].
  - discriminate.
  - exists (mkcnode d off false). split; [exact IN|apply piece_shared_of; exact PC].
Qed.

Theorem pool_run_shared_ok ds : forall p k rs p' k',
  length (p_trees p) = index_count -> shared_ok (p_trees p) -> pool_run ok ds p k = (rs, p', k') -> shared_ok (p_trees p').
Proof.
  induction ds as [|d t IH]; intros p k rs p' k' L S E; cbn [pool_run] in E.
  - inversion E; subst. exact S.
  - destruct (pool_add ok d p k) as [[[r o] p1] k1] eqn:S1. destruct (pool_run ok t p1 k1) as [[rs2 p2] k2] eqn:S2.
    inversion E; subst. destruct (pool_add_shared_ok d p k r o p1 k1 L S S1) as [S' L']. exact (IH _ _ _ _ _ L' S' S2).
Qed.
End Shared.

Lemma pool_empty_shared_ok : shared_ok (p_trees pool_empty).
Proof. intros c [i Hi]. unfold pool_empty, index_count in Hi. cbn in Hi. do 7 (destruct i as [|i]; [destruct Hi|]). destruct i; destruct Hi. Qed.

Lemma pool_empty_trees_len : length (p_trees pool_empty) = index_count.
Proof. reflexivity. Qed.

(* C15 x C09: proofs about the joint allocation step. *)
From Coq Require Import ZArith List Bool Lia.
From Verif Require Jit.JitModel Jit.JitProofs Jit.JitVmModel Jit.JitVmProofs.
From Verif Require Import OomTxn.OracleModel OomTxn.OracleProofs OomTxn.JitJointModel.
Import ListNotations.
Local Open Scope Z_scope.

(* For every pair of oracles: both invariants are kept; when the allocation answers kOutOfMemory because the block could not be
   created, the allocator's live spans and statistics (C09) AND the live views and block records (C15) are exactly what they were;
   otherwise the allocator state is C09's `alloc` and the views grew by exactly the views of at most one new block. *)
Theorem jit_alloc_joint okv okh dual c st s size kv kh st' r s' kv' kh' :
  JitProofs.cfg_ok c -> JitProofs.ginv c st -> vms_inv s ->
  jit_alloc okv okh dual c st s size kv kh = (st', r, s', kv', kh') ->
  JitProofs.ginv c st' /\ vms_inv s' /\
  ((st', r) = JitModel.alloc c st size /\
     (vs_views s' = vs_views s /\ vs_heap s' = vs_heap s \/
      exists ids, vs_views s' = vs_views s ++ ids /\ length ids = (if dual then 2 else 1)%nat /\ vs_heap s' = S (vs_heap s))
   \/
   (r = JitModel.RAlloc JitModel.OutOfMemory 0 0 0 /\
      JitProofs.all_live (JitModel.blocks st') = JitProofs.all_live (JitModel.blocks st) /\
      JitModel.statistics c st' = JitModel.statistics c st /\
      vs_views s' = vs_views s /\ vs_heap s' = vs_heap s)).
Proof.
  intros Hc G I E. unfold jit_alloc in E.
  pose proof (JitProofs.ginv_alloc c st size Hc G) as GA.
  destruct (JitModel.alloc c st size) as [st1 r1] eqn:A. cbn [fst] in GA.
  destruct (JitModel.nextid st1 =? JitModel.nextid st) eqn:N.
  - inversion E; subst. split; [exact GA|]. split; [exact I|]. left. split; [reflexivity|]. left. auto.
  - destruct (vm_step okv okh (VBlock dual) s kv kh) as [[[rb s1] kv1] kh1] eqn:V.
    destruct (vm_step_no_leak okv okh (VBlock dual) s kv kh rb s1 kv1 kh1 I V) as [I1 [F1 O1]].
    destruct rb.
    + inversion E; subst. split; [exact GA|]. split; [exact I1|]. left. split; [reflexivity|]. right.
      destruct (O1 eq_refl) as [ids [P1 [P2 P3]]]. exists ids. repeat split; auto.
    + pose proof (JitVmProofs.alloc_vm_fail c st size Hc G) as AF. cbv zeta in AF.
      destruct (JitVmModel.alloc_vm c st size false) as [st2 r2] eqn:AV. cbn [fst snd] in AF.
      inversion E; subst. destruct AF as [G2 [AF1 AF2]]. split; [exact G2|]. split; [exact I1|].
      destruct (F1 ltac:(discriminate)) as [V1 V2].
      assert (R2 : r = JitModel.RAlloc JitModel.OutOfMemory 0 0 0).
      { unfold JitVmModel.alloc_vm in AV. rewrite A in AV. cbn [orb] in AV. rewrite N in AV. inversion AV. reflexivity. }
      right. destruct (AF1 R2) as [L1 [L2 _]]. repeat split; auto.
    + pose proof (JitVmProofs.alloc_vm_fail c st size Hc G) as AF. cbv zeta in AF.
      destruct (JitVmModel.alloc_vm c st size false) as [st2 r2] eqn:AV. cbn [fst snd] in AF.
      inversion E; subst. destruct AF as [G2 [AF1 AF2]]. split; [exact G2|]. split; [exact I1|].
      destruct (F1 ltac:(discriminate)) as [V1 V2].
      assert (R2 : r = JitModel.RAlloc JitModel.OutOfMemory 0 0 0).
      { unfold JitVmModel.alloc_vm in AV. rewrite A in AV. cbn [orb] in AV. rewrite N in AV. inversion AV. reflexivity. }
      right. destruct (AF1 R2) as [L1 [L2 _]]. repeat split; auto.
Qed.


(* release never asks for memory: under every pair of oracles the allocator invariant and the view accounting are kept, and
   the views change only when C09's model says the block was deleted - then exactly by the views of that block's handle *)
Theorem jit_release_joint okv okh bm c st s id off kv kh st' r s' :
  JitProofs.cfg_ok c -> JitProofs.ginv c st -> JitProofs.valid_ptr c st id off -> vms_acct s ->
  jit_release okv okh bm c st s id off kv kh = (st', r, s') ->
  JitProofs.ginv c st' /\ vms_acct s' /\ (st', r) = JitModel.release c st id off /\
  (vs_views s' = vs_views s /\ vs_heap s' = vs_heap s \/
   exists bid h ids, r = JitModel.RRelease JitModel.Ok bid true /\ nth h (vs_handles s) None = Some ids /\
                     vs_views s' = remove_ids ids (vs_views s) /\ vs_heap s' = pred (vs_heap s)).
Proof.
  intros Hc G VP I E. unfold jit_release in E.
  pose proof (JitProofs.ginv_release c st id off Hc G VP) as GR.
  destruct (JitModel.release c st id off) as [st1 r1] eqn:R. cbn [fst] in GR.
  assert (SAME : (st1, r1, s) = (st', r, s') -> JitProofs.ginv c st' /\ vms_acct s' /\ (st', r) = (st1, r1) /\
                 (vs_views s' = vs_views s /\ vs_heap s' = vs_heap s \/
                  exists bid h ids, r = JitModel.RRelease JitModel.Ok bid true /\ nth h (vs_handles s) None = Some ids /\
                                    vs_views s' = remove_ids ids (vs_views s) /\ vs_heap s' = pred (vs_heap s))).
  { intros Q. inversion Q; subst. split; [exact GR|]. split; [exact I|]. split; [reflexivity|]. left. auto. }
  destruct r1 as [? ? ? ?|e bid deleted|? ? ?|? ? ? ?| |]; try (apply SAME; exact E).
  destruct e; try (apply SAME; exact E). destruct deleted; [|apply SAME; exact E].
  destruct (find (fun p => fst p =? bid) bm) as [[b0 h]|]; [|apply SAME; exact E].
  destruct (vm_step okv okh (VDel h) s kv kh) as [[[rv s1] kv1] kh1] eqn:V. inversion E; subst; clear E.
  split; [exact GR|]. split; [eapply vm_step_acct; eauto|]. split; [reflexivity|].
  cbn [vm_step] in V. destruct (nth h (vs_handles s) None) as [ids|] eqn:H; inversion V; subst; clear V.
  - right. exists bid, h, ids. cbn. auto.
  - left. auto.
Qed.

(* shrink never asks for memory either: under every pair of oracles both invariants are kept, the allocator state is C09's
   `shrink`; a non-zero new size leaves views and block records untouched; size 0 behaves as release (same allocator state, the
   views of at most one deleted block go away) *)
Theorem jit_shrink_joint okv okh bm c st s id off ns kv kh st' r s' :
  JitProofs.cfg_ok c -> JitProofs.ginv c st -> JitProofs.valid_ptr c st id off -> vms_acct s -> 0 <= ns ->
  jit_shrink okv okh bm c st s id off ns kv kh = (st', r, s') ->
  JitProofs.ginv c st' /\ vms_acct s' /\ (st', r) = JitModel.shrink c st id off ns /\
  (ns <> 0 -> s' = s) /\
  (ns = 0 -> st' = fst (JitModel.release c st id off)) /\
  (vs_views s' = vs_views s /\ vs_heap s' = vs_heap s \/
   exists h ids, ns = 0 /\ nth h (vs_handles s) None = Some ids /\
                 vs_views s' = remove_ids ids (vs_views s) /\ vs_heap s' = pred (vs_heap s)).
Proof.
  intros Hc G VP I Hns E. unfold jit_shrink in E.
  pose proof (JitProofs.ginv_shrink c st id off ns Hc G VP Hns) as GS.
  destruct (JitModel.shrink c st id off ns) as [st1 r1] eqn:S. cbn [fst] in GS.
  destruct (ns =? 0) eqn:Z0.
  - apply Z.eqb_eq in Z0. subst ns.
    destruct (jit_release okv okh bm c st s id off kv kh) as [[st2 r2] s2] eqn:R. inversion E; subst; clear E.
    destruct (jit_release_joint okv okh bm c st s id off kv kh st2 r2 s' Hc G VP I R) as [_ [I2 [Q V]]].
    split; [exact GS|]. split; [exact I2|]. split; [reflexivity|]. split; [congruence|]. split.
    + intros _. unfold JitModel.shrink in S. cbn [Z.eqb] in S.
      destruct (JitModel.release c st id off) as [st3 r3]. cbn [fst]. destruct r3; inversion S; reflexivity.
    + destruct V as [V|[bid [h [ids [_ [V1 [V2 V3]]]]]]]; [left; exact V|right]. exists h, ids. auto.
  - inversion E; subst; clear E. apply Z.eqb_neq in Z0.
    split; [exact GS|]. split; [exact I|]. split; [reflexivity|]. split; [reflexivity|]. split; [contradiction|]. left. auto.
Qed.

(* C15 x C09: proofs about the joint allocation step. *)
From Coq Require Import ZArith List Bool Lia.
From Verif Require Jit.JitModel Jit.JitProofs Jit.JitVmModel Jit.JitVmProofs.
From Verif Require Import OomTxn.OracleModel OomTxn.OracleProofs OomTxn.JitJointModel.
Import ListNotations.
Local Open Scope Z_scope.

(* For every pair of oracles: both invariants are kept; when the allocation answers kOutOfMemory because the block could not be
   created, the allocator's live spans and statistics (C09) AND the live views and block records (C15) are exactly what they were;
   otherwise the allocator state is C09's `alloc` and the views grew by exactly the views of at most one new block. *)
Theorem jit_alloc_joint okv okh dual c st s size kv kh st' r s' kv' kh' :
  JitProofs.cfg_ok c -> JitProofs.ginv c st -> vms_inv s ->
  jit_alloc okv okh dual c st s size kv kh = (st', r, s', kv', kh') ->
  JitProofs.ginv c st' /\ vms_inv s' /\
  ((st', r) = JitModel.alloc c st size /\
     (vs_views s' = vs_views s /\ vs_heap s' = vs_heap s \/
      exists ids, vs_views s' = vs_views s ++ ids /\ length ids = (if dual then 2 else 1)%nat /\ vs_heap s' = S (vs_heap s))
   \/
   (r = JitModel.RAlloc JitModel.OutOfMemory 0 0 0 /\
      JitProofs.all_live (JitModel.blocks st') = JitProofs.all_live (JitModel.blocks st) /\
      JitModel.statistics c st' = JitModel.statistics c st /\
      vs_views s' = vs_views s /\ vs_heap s' = vs_heap s)).
Proof.
  intros Hc G I E. unfold jit_alloc in E.
  pose proof (JitProofs.ginv_alloc c st size Hc G) as GA.
  destruct (JitModel.alloc c st size) as [st1 r1] eqn:A. cbn [fst] in GA.
  destruct (JitModel.nextid st1 =? JitModel.nextid st) eqn:N.
  - inversion E; subst. split; [exact GA|]. split; [exact I|]. left. split; [reflexivity|]. left. auto.
  - destruct (vm_step okv okh (VBlock dual) s kv kh) as [[[rb s1] kv1] kh1] eqn:V.
    destruct (vm_step_no_leak okv okh (VBlock dual) s kv kh rb s1 kv1 kh1 I V) as [I1 [F1 O1]].
    destruct rb.
    + inversion E; subst. split; [exact GA|]. split; [exact I1|]. left. split; [reflexivity|]. right.
      destruct (O1 eq_refl) as [ids [P1 [P2 P3]]]. exists ids. repeat split; auto.
    + pose proof (JitVmProofs.alloc_vm_fail c st size Hc G) as AF. cbv zeta in AF.
      destruct (JitVmModel.alloc_vm c st size false) as [st2 r2] eqn:AV. cbn [fst snd] in AF.
      inversion E; subst. destruct AF as [G2 [AF1 AF2]]. split; [exact G2|]. split; [exact I1|].
      destruct (F1 ltac:(discriminate)) as [V1 V2].
      assert (R2 : r = JitModel.RAlloc JitModel.OutOfMemory 0 0 0).
      { unfold JitVmModel.alloc_vm in AV. rewrite A in AV. cbn [orb] in AV. rewrite N in AV. inversion AV. reflexivity. }
      right. destruct (AF1 R2) as [L1 [L2 _]]. repeat split; auto.
    + pose proof (JitVmProofs.alloc_vm_fail c st size Hc G) as AF. cbv zeta in AF.
      destruct (JitVmModel.alloc_vm c st size false) as [st2 r2] eqn:AV. cbn [fst snd] in AF.
      inversion E; subst. destruct AF as [G2 [AF1 AF2]]. split; [exact G2|]. split; [exact I1|].
      destruct (F1 ltac:(discriminate)) as [V1 V2].
      assert (R2 : r = JitModel.RAlloc JitModel.OutOfMemory 0 0 0).
      { unfold JitVmModel.alloc_vm in AV. rewrite A in AV. cbn [orb] in AV. rewrite N in AV. inversion AV. reflexivity. }
      right. destruct (AF1 R2) as [L1 [L2 _]]. repeat split; auto.
Qed.

(* C15 - oracle-threaded models of the allocating containers and holder operations of AsmJit.

   Every arena request of the run (Arena::alloc_oneshot / Arena::_alloc_reusable entry, hook H1 kinds 0 and 3) consumes one
   index of an ORACLE  ok : nat -> bool  ("does the k-th request of the run succeed?").  The oracle is a Section variable:
   every theorem of OracleProofs.v is universally quantified over it, i.e. holds for every single failure position and every
   multi-failure pattern.  Operations are transactions   state -> counter -> (result * state * counter).

   Modelled code (pinned tree + the C15 fixes):
     support/arenavector.cpp  reserve_fit / reserve_grow / reserve_additional / resize + the inline append/prepend/insert/pop
     support/arena.h          reusable slot size rounding (_get_reusable_slot_index)
     support/arenahash.cpp    _insert / _rehash (a failed rehash is silently ignored) / _remove / get
     core/constpool.cpp       ConstPool::add with its gap list, gap pool and shared sub-constants
     core/codeholder.cpp      new_label_id, new_reloc_entry, new_fixup, bind_label (fixup release only)
     core/assembler.cpp       embed_label / embed_label_delta : relocation entry followed by a second allocation
   This file contains no proofs (so that extraction keeps working when a proof breaks). *)
From Coq Require Import ZArith List Bool Lia.
Import ListNotations.
Local Open Scope Z_scope.

Inductive result := Ok | Oom | Invalid.

Definition result_eqb (a b : result) : bool :=
  match a, b with Ok, Ok | Oom, Oom | Invalid, Invalid => true | _, _ => false end.

(* ------------------------------------------------------------------------------------------------------------------ *)
(* size arithmetic of Arena / ArenaVector (spec style: same values as the bit tricks)                                   *)
(* ------------------------------------------------------------------------------------------------------------------ *)

(* number of significant bits of a positive number: 64 - clz(x) *)
Definition bitlen (x : Z) : Z := Z.log2 x + 1.

(* ArenaVector_grow_rule *)
Definition grow_rule (l : Z) : Z :=
  if l <? 1 then 0 else if l <? 2 then 2 else if l <? 4 then 4 else if l <? 6 then 6 else if l <? 8 then 8 else l.

Definition grow_threshold : Z := 16777216.

(* ArenaVector_expand_byte_size; ((bs - 1) | 1) has the bit length of max (bs - 1) 1 *)
Definition expand_bytes (bs : Z) : Z :=
  if bs <=? grow_threshold then 2 ^ grow_rule (bitlen (Z.max (bs - 1) 1))
  else ((bs + 1 + grow_threshold - 1) / grow_threshold) * grow_threshold.

(* Arena::_get_reusable_slot_index: 16 << slot with slot = 60 - clz((s - 1) | 15); larger requests are dynamic blocks of
   exactly the requested size *)
Definition slot_size (s : Z) : Z :=
  if s <=? 2048 then 2 ^ bitlen (Z.max (s - 1) 15) else s.

(* ArenaHashBase::_calc_mod: hash - uint32((uint64(hash) * rcp) >> shift) * buckets, with the machine wrap-around *)
Definition calc_mod32 (p r s h : Z) : Z :=
  let x := (((h * r) mod 2 ^ 64) / 2 ^ s) mod 2 ^ 32 in (h - x * p) mod 2 ^ 32.

(* decidable criterion under which the multiply-shift is an exact division for EVERY 32-bit hash (proved in OracleProofs):
   e = r*p - 2^s >= 0, e * 2^32 <= 2 * 2^s, and the largest h = -1 (mod p) below 2^32 still satisfies h * e < 2^s *)
Definition rcp_row_exact (row : Z * Z * Z) : bool :=
  let '(p, r, s) := row in
  (0 <? p) && (p <? 2 ^ 32) && (0 <=? r) && (r <? 2 ^ 32) && (0 <=? s) &&
  (0 <=? r * p - 2 ^ s) && ((r * p - 2 ^ s) * 2 ^ 32 <=? 2 * 2 ^ s) && (((2 ^ 32 / p) * p - 1) * (r * p - 2 ^ s) <? 2 ^ s).

(* ------------------------------------------------------------------------------------------------------------------ *)
Section WithOracle.

Variable ok : nat -> bool.

(* one arena request *)
Definition request (k : nat) : bool * nat := (ok k, S k).

(* ------------------------------------------------------------------------------------------------------------------ *)
(* ArenaVector<T>, sizeof(T) = isz                                                                                      *)
(* ------------------------------------------------------------------------------------------------------------------ *)
Record vec := mkvec { v_items : list Z; v_cap : Z }.

Definition vec_empty : vec := mkvec [] 0.
Definition vsize (v : vec) : Z := Z.of_nat (length (v_items v)).

(* ArenaVector_reserve_with_byte_size: one request, then capacity = allocated / item size *)
Definition vec_reserve_bytes (isz : Z) (v : vec) (bs : Z) (k : nat) : result * vec * nat :=
  let '(b, k1) := request k in
  if b then (Ok, mkvec (v_items v) (slot_size bs / isz), k1) else (Oom, v, k1).

Definition max_items : Z := 4294967295.

Definition vec_reserve_fit (isz : Z) (v : vec) (n : Z) (k : nat) : result * vec * nat :=
  if n <=? v_cap v then (Ok, v, k)
  else if max_items <=? n then (Oom, v, k)
  else vec_reserve_bytes isz v (n * isz) k.

Definition vec_reserve_grow (isz : Z) (v : vec) (n : Z) (k : nat) : result * vec * nat :=
  if n <=? v_cap v then (Ok, v, k)
  else if max_items <=? n then (Oom, v, k)
  else vec_reserve_bytes isz v (expand_bytes (n * isz)) k.

(* reserve_additional(arena, n): inline test, then ArenaVector_grow *)
Definition vec_reserve_additional (isz : Z) (v : vec) (n : Z) (k : nat) : result * vec * nat :=
  if n <=? v_cap v - vsize v then (Ok, v, k) else vec_reserve_grow isz v (vsize v + n) k.

(* reserve_additional(arena): the one-element form tests size == capacity *)
Definition vec_reserve_one (isz : Z) (v : vec) (k : nat) : result * vec * nat :=
  if vsize v =? v_cap v then vec_reserve_grow isz v (vsize v + 1) k else (Ok, v, k).

Fixpoint insert_at {A} (n : nat) (x : A) (l : list A) : list A :=
  match n, l with
  | O, _ => x :: l
  | S m, [] => [x]
  | S m, y :: t => y :: insert_at m x t
  end.

Definition zeros (n : Z) : list Z := repeat 0 (Z.to_nat n).

Inductive vop :=
| VAppend (x : Z) | VPrepend (x : Z) | VInsert (idx : Z) (x : Z)
| VResizeGrow (n : Z) | VResizeFit (n : Z)
| VReserveAdd (n : Z) | VReserveFit (n : Z) | VReserveGrow (n : Z)
| VClear | VPop.

(* abstract effect of a successful operation on the element list *)
Definition vec_spec (op : vop) (l : list Z) : list Z :=
  match op with
  | VAppend x => l ++ [x]
  | VPrepend x => x :: l
  | VInsert i x => insert_at (Z.to_nat (i mod (Z.of_nat (length l) + 1))) x l   (* the script gives the index modulo size + 1 *)
  | VResizeGrow n | VResizeFit n =>
      if n <=? Z.of_nat (length l) then firstn (Z.to_nat n) l else l ++ zeros (n - Z.of_nat (length l))
  | VReserveAdd _ | VReserveFit _ | VReserveGrow _ => l
  | VClear => []
  | VPop => removelast l
  end.

Definition with_items (v : vec) (l : list Z) : vec := mkvec l (v_cap v).

Definition vec_step (isz : Z) (op : vop) (v : vec) (k : nat) : result * vec * nat :=
  match op with
  | VAppend _ | VPrepend _ | VInsert _ _ =>
      let '(r, v1, k1) := vec_reserve_one isz v k in
      match r with Ok => (Ok, with_items v1 (vec_spec op (v_items v1)), k1) | _ => (r, v, k1) end
  | VResizeGrow n =>
      let '(r, v1, k1) := (if v_cap v <? n then vec_reserve_grow isz v n k else (Ok, v, k)) in
      match r with Ok => (Ok, with_items v1 (vec_spec op (v_items v1)), k1) | _ => (r, v, k1) end
  | VResizeFit n =>
      let '(r, v1, k1) := (if v_cap v <? n then vec_reserve_fit isz v n k else (Ok, v, k)) in
      match r with Ok => (Ok, with_items v1 (vec_spec op (v_items v1)), k1) | _ => (r, v, k1) end
  | VReserveAdd n => vec_reserve_additional isz v n k
  | VReserveFit n => vec_reserve_fit isz v n k
  | VReserveGrow n => vec_reserve_grow isz v n k
  | VClear | VPop => (Ok, with_items v (vec_spec op (v_items v)), k)
  end.

Fixpoint vec_run (isz : Z) (ops : list vop) (v : vec) (k : nat) : list result * vec * nat :=
  match ops with
  | [] => ([], v, k)
  | op :: t =>
      let '(r, v1, k1) := vec_step isz op v k in
      let '(rs, v2, k2) := vec_run isz t v1 k1 in (r :: rs, v2, k2)
  end.

(* ------------------------------------------------------------------------------------------------------------------ *)
(* ArenaHash: nodes are allocated by the caller (new_oneshot), _insert may try to rehash                                 *)
(* ------------------------------------------------------------------------------------------------------------------ *)
Variable primes : list Z.     (* ArenaHash_prime_array[i].prime, regenerated from the source by the translator *)

Record hash := mkhash { h_buckets : list (list Z); h_size : Z; h_grow : Z; h_pidx : nat }.

Definition hash_empty : hash := mkhash [[]] 0 1 0.
Definition nbuckets (h : hash) : Z := Z.of_nat (length (h_buckets h)).
Definition hash_keys (h : hash) : list Z := concat (h_buckets h).

Fixpoint upd_nth {A} (n : nat) (f : A -> A) (l : list A) : list A :=
  match n, l with
  | _, [] => []
  | O, x :: t => f x :: t
  | S m, x :: t => x :: upd_nth m f t
  end.

Definition bucket_of (n : Z) (key : Z) : nat := Z.to_nat (key mod n).

(* bucket i receives the keys with key mod n = i (comparison in Z: the extracted model stays fast) *)
Definition redistribute (n : Z) (keys : list Z) : list (list Z) :=
  let tagged := map (fun key => (key mod n, key)) keys in     (* key mod n is computed once per key *)
  map (fun zi => map snd (filter (fun p => fst p =? zi) tagged)) (map Z.of_nat (seq 0 (Z.to_nat n))).

(* ArenaHashBase::_rehash: one request; on failure the old table is kept *)
Definition hash_rehash (h : hash) (pidx : nat) (k : nat) : hash * nat :=
  let n' := nth pidx primes 1 in
  let '(b, k1) := request k in
  if b then (mkhash (redistribute n' (hash_keys h)) (h_size h) ((9 * n') / 10) pidx, k1) else (h, k1).

(* ArenaHashBase::_insert *)
Definition hash_insert_node (h : hash) (key : Z) (k : nat) : hash * nat :=
  let h1 := mkhash (upd_nth (bucket_of (nbuckets h) key) (cons key) (h_buckets h)) (h_size h + 1) (h_grow h) (h_pidx h) in
  if h_grow h1 <? h_size h1 then
    let pidx := Nat.min (h_pidx h1 + 2) (length primes - 1) in
    if (h_pidx h1 <? pidx)%nat then hash_rehash h1 pidx k else (h1, k)
  else (h1, k).

Fixpoint remove_first (key : Z) (l : list Z) : list Z :=
  match l with
  | [] => []
  | x :: t => if x =? key then t else x :: remove_first key t
  end.

Definition hash_get (h : hash) (key : Z) : bool :=
  existsb (Z.eqb key) (nth (bucket_of (nbuckets h) key) (h_buckets h) []).

Inductive hop := HInsert (key : Z) | HRemove (key : Z).

(* insert = arena.new_oneshot<Node>(key) (one request) + hash.insert(arena, node) *)
Definition hash_step (op : hop) (h : hash) (k : nat) : result * hash * nat :=
  match op with
  | HInsert key =>
      let '(b, k1) := request k in
      if b then let '(h1, k2) := hash_insert_node h key k1 in (Ok, h1, k2) else (Oom, h, k1)
  | HRemove key =>
      if hash_get h key then
        (Ok, mkhash (upd_nth (bucket_of (nbuckets h) key) (remove_first key) (h_buckets h)) (h_size h - 1) (h_grow h) (h_pidx h), k)
      else (Invalid, h, k)
  end.

Fixpoint hash_run (ops : list hop) (h : hash) (k : nat) : list result * hash * nat :=
  match ops with
  | [] => ([], h, k)
  | op :: t =>
      let '(r, h1, k1) := hash_step op h k in
      let '(rs, h2, k2) := hash_run t h1 k1 in (r :: rs, h2, k2)
  end.

(* ------------------------------------------------------------------------------------------------------------------ *)
(* ConstPool::add                                                                                                       *)
(* ------------------------------------------------------------------------------------------------------------------ *)
Record cnode := mkcnode { c_data : list Z; c_off : Z; c_shared : bool }.

Record pool := mkpool {
  p_trees : list (list cnode);       (* kIndexCount = 7 trees: constants of size 1,2,4,...,64 *)
  p_gaps : list (list (Z * Z));      (* 7 gap lists, (offset, size), head = most recently added *)
  p_gap_pool : nat;                  (* recycled Gap records *)
  p_size : Z; p_align : Z; p_min : Z }.

Definition index_count : nat := 7.
Definition pool_empty : pool := mkpool (repeat [] index_count) (repeat [] index_count) 0 0 0 0.

Fixpoint list_eqb (a b : list Z) : bool :=
  match a, b with
  | [], [] => true
  | x :: s, y :: t => (x =? y) && list_eqb s t
  | _, _ => false
  end.

Definition tree_get (t : list cnode) (d : list Z) : option cnode := find (fun c => list_eqb (c_data c) d) t.

Definition pool_lookup (p : pool) (d : list Z) : option Z :=
  match tree_get (nth (Z.to_nat (Z.log2 (Z.of_nat (length d)))) (p_trees p) []) d with
  | Some c => Some (c_off c)
  | None => None
  end.

Definition gap_class (off sz : Z) : nat * Z :=
  if (32 <=? sz) && (off mod 32 =? 0) then (5%nat, 32)
  else if (16 <=? sz) && (off mod 16 =? 0) then (4%nat, 16)
  else if (8 <=? sz) && (off mod 8 =? 0) then (3%nat, 8)
  else if (4 <=? sz) && (off mod 4 =? 0) then (2%nat, 4)
  else if (2 <=? sz) && (off mod 2 =? 0) then (1%nat, 2)
  else (0%nat, 1).

(* ConstPool_addGap: a Gap record comes from the gap pool or from one arena request; when that request fails the rest of
   the gap is silently dropped *)
Fixpoint add_gap (fuel : nat) (p : pool) (off sz : Z) (k : nat) : pool * nat :=
  match fuel with
  | O => (p, k)
  | S f =>
      if sz <=? 0 then (p, k) else
      let '(gi, gs) := gap_class off sz in
      let '(got, gp, k1) :=
        match p_gap_pool p with
        | S m => (true, m, k)
        | O => let '(b, k') := request k in (b, O, k')
        end in
      if got then
        add_gap f (mkpool (p_trees p) (upd_nth gi (cons (off, gs)) (p_gaps p)) gp (p_size p) (p_align p) (p_min p)) (off + gs) (sz - gs) k1
      else (p, k1)
  end.

(* the gap look-up loop of ConstPool::add: (kIndexCount - 1 - tree_index) iterations, every one of them looks at
   _gaps[tree_index] (never at the larger classes; DESIGN 7.12) *)
Fixpoint take_gaps (iters : nat) (ti : nat) (size : Z) (p : pool) (off : option Z) (k : nat) : pool * option Z * nat :=
  match iters with
  | O => (p, off, k)
  | S it =>
      match nth ti (p_gaps p) [] with
      | [] => take_gaps it ti size p off k
      | (goff, gsz) :: rest =>
          let p1 := mkpool (p_trees p) (upd_nth ti (fun _ => rest) (p_gaps p)) (S (p_gap_pool p)) (p_size p) (p_align p) (p_min p) in
          let '(p2, k1) := if 0 <? gsz - size then add_gap (Z.to_nat (gsz - size)) p1 goff (gsz - size) k else (p1, k) in
          take_gaps it ti size p2 (Some goff) k1
      end
  end.

Definition slice (d : list Z) (from len : nat) : list Z := firstn len (skipn from d).

(* shared sub-constants of one level: pieces i = from .. count-1 *)
Fixpoint add_shared_level (pieces : list nat) (ti : nat) (d : list Z) (sm : nat) (off : Z) (p : pool) (k : nat) : bool * pool * nat :=
  match pieces with
  | [] => (true, p, k)
  | i :: rest =>
      let piece := slice d (i * sm) sm in
      match tree_get (nth ti (p_trees p) []) piece with
      | Some _ => add_shared_level rest ti d sm off p k
      | None =>
          let '(b, k1) := request k in
          if b then
            add_shared_level rest ti d sm off
              (mkpool (upd_nth ti (fun t => t ++ [mkcnode piece (off + Z.of_nat (i * sm)) true]) (p_trees p)) (p_gaps p) (p_gap_pool p) (p_size p) (p_align p) (p_min p)) k1
          else (false, p, k1)   (* C15-constpool-null: give up sharing, the constant itself is in the pool *)
      end
  end.

Fixpoint add_shared (levels : nat) (ti : nat) (d : list Z) (sm : nat) (pc : nat) (off : Z) (p : pool) (k : nat) : pool * nat :=
  match levels with
  | O => (p, k)
  | S lv =>
      if (4 <? sm)%nat then
        let pc' := (pc * 2)%nat in
        let sm' := (sm / 2)%nat in
        let ti' := (ti - 1)%nat in
        let '(cont, p1, k1) := add_shared_level (seq 0 pc') ti' d sm' off p k in
        if cont then add_shared lv ti' d sm' pc' off p1 k1 else (p1, k1)
      else (p, k)
  end.

Definition is_pow2 (n : Z) : bool := (0 <? n) && (2 ^ Z.log2 n =? n).

Definition pool_add (d : list Z) (p : pool) (k : nat) : result * option Z * pool * nat :=
  let size := Z.of_nat (length d) in
  if (size =? 0) || (64 <? size) || negb (is_pow2 size) then (Invalid, None, p, k) else
  let ti := Z.to_nat (Z.log2 size) in
  match tree_get (nth ti (p_trees p) []) d with
  | Some c => (Ok, Some (c_off c), p, k)
  | None =>
      let '(p1, goff, k1) := take_gaps (index_count - 1 - ti) ti size p None k in
      let '(p2, off, k2) :=
        match goff with
        | Some o => (p1, o, k1)
        | None =>
            let diff := (size - p_size p1 mod size) mod size in
            let '(p1', k1') := if diff =? 0 then (p1, k1) else
                                 let '(q, k') := add_gap (Z.to_nat diff) p1 (p_size p1) diff k1 in
                                 (mkpool (p_trees q) (p_gaps q) (p_gap_pool q) (p_size q + diff) (p_align q) (p_min q), k') in
            (mkpool (p_trees p1') (p_gaps p1') (p_gap_pool p1') (p_size p1' + size) (p_align p1') (p_min p1'), p_size p1', k1')
        end in
      let '(b, k3) := request k2 in
      if b then
        let p3 := mkpool (upd_nth ti (fun t => t ++ [mkcnode d off false]) (p_trees p2)) (p_gaps p2) (p_gap_pool p2) (p_size p2)
                         (Z.max (p_align p2) size) (if p_min p2 =? 0 then size else Z.min (p_min p2) size) in
        let '(p4, k4) := add_shared 4 ti d (length d) 1 off p3 k3 in
        (Ok, Some off, p4, k4)
      else (Oom, None, p2, k3)
  end.

Fixpoint pool_run (ds : list (list Z)) (p : pool) (k : nat) : list (result * option Z) * pool * nat :=
  match ds with
  | [] => ([], p, k)
  | d :: t =>
      let '(r, o, p1, k1) := pool_add d p k in
      let '(rs, p2, k2) := pool_run t p1 k1 in ((r, o) :: rs, p2, k2)
  end.

(* ------------------------------------------------------------------------------------------------------------------ *)
(* CodeHolder: labels, relocations, fixups (new_fixup + new_reloc_entry discipline)                                     *)
(* ------------------------------------------------------------------------------------------------------------------ *)
Record label := mklabel { l_bound : bool; l_fixups : list Z }.  (* a fixup is represented by the reloc id it carries, -1 = none *)

Record holder := mkholder {
  ho_labels : list label; ho_labels_cap : Z;      (* ArenaVector<LabelEntry>, 16-byte items *)
  ho_relocs : list Z; ho_relocs_cap : Z;          (* ArenaVector<RelocEntry*>, 8-byte items; an entry is its reloc type *)
  ho_fixup_pool : nat;                            (* recycled Fixup records *)
  ho_unresolved : Z }.

Definition holder_empty : holder := mkholder [] 0 [] 0 0 0.

Definition labels_vec (h : holder) : vec := mkvec (map (fun _ => 0) (ho_labels h)) (ho_labels_cap h).
Definition relocs_vec (h : holder) : vec := mkvec (ho_relocs h) (ho_relocs_cap h).

(* CodeHolder::new_label_id *)
Definition new_label (h : holder) (k : nat) : result * holder * nat :=
  let '(r, v1, k1) := vec_reserve_one 16 (labels_vec h) k in
  match r with
  | Ok => (Ok, mkholder (ho_labels h ++ [mklabel false []]) (v_cap v1) (ho_relocs h) (ho_relocs_cap h) (ho_fixup_pool h) (ho_unresolved h), k1)
  | _ => (r, h, k1)
  end.

(* CodeHolder::new_reloc_entry: reserve, then allocate the entry; the capacity may have grown when the second request fails
   (not abstract content) *)
Definition new_reloc (ty : Z) (h : holder) (k : nat) : result * holder * nat :=
  let '(r, v1, k1) := vec_reserve_one 8 (relocs_vec h) k in
  match r with
  | Ok =>
      let h1 := mkholder (ho_labels h) (ho_labels_cap h) (ho_relocs h) (v_cap v1) (ho_fixup_pool h) (ho_unresolved h) in
      let '(b, k2) := request k1 in
      if b then (Ok, mkholder (ho_labels h1) (ho_labels_cap h1) (ho_relocs h1 ++ [ty]) (ho_relocs_cap h1) (ho_fixup_pool h1) (ho_unresolved h1), k2)
      else (Oom, h1, k2)
  | _ => (r, h, k1)
  end.

(* CodeHolder::new_fixup: pooled record or one request *)
Definition new_fixup (li : nat) (tag : Z) (h : holder) (k : nat) : result * holder * nat :=
  let '(got, fp, k1) :=
    match ho_fixup_pool h with
    | S m => (true, m, k)
    | O => let '(b, k') := request k in (b, O, k')
    end in
  if got then
    (Ok, mkholder (upd_nth li (fun l => mklabel (l_bound l) (tag :: l_fixups l)) (ho_labels h)) (ho_labels_cap h) (ho_relocs h) (ho_relocs_cap h)
                  fp (ho_unresolved h + 1), k1)
  else (Oom, h, k1).

Definition pop_reloc (h : holder) : holder :=
  mkholder (ho_labels h) (ho_labels_cap h) (removelast (ho_relocs h)) (ho_relocs_cap h) (ho_fixup_pool h) (ho_unresolved h).

Definition label_bound (h : holder) (li : nat) : bool := l_bound (nth li (ho_labels h) (mklabel false [])).

(* BaseAssembler::embed_label.  fixed = true: the C15-stale-reloc repair (the relocation is discarded when new_fixup fails);
   fixed = false: the pinned behaviour (kept for the refutation theorem) *)
Definition embed_label (fixed : bool) (li : nat) (h : holder) (k : nat) : result * holder * nat :=
  if (li <? length (ho_labels h))%nat then
    let '(r, h1, k1) := new_reloc 4 h k in
    match r with
    | Ok =>
        if label_bound h1 li then (Ok, h1, k1)
        else
          let '(r2, h2, k2) := new_fixup li (Z.of_nat (length (ho_relocs h))) h1 k1 in
          match r2 with
          | Ok => (Ok, h2, k2)
          | _ => (r2, if fixed then pop_reloc h2 else h2, k2)
          end
    | _ => (r, h1, k1)
    end
  else (Invalid, h, k).

(* BaseAssembler::embed_label_delta when the delta is not known yet: relocation entry + Expression (one oneshot request) *)
Definition embed_delta (fixed : bool) (h : holder) (k : nat) : result * holder * nat :=
  match ho_labels h with
  | [] => (Invalid, h, k)            (* the script uses label 0 for both operands *)
  | l0 :: _ =>
    if l_bound l0 then (Ok, h, k) else   (* both operands bound in one section: the delta is emitted directly *)
    let '(r, h1, k1) := new_reloc 1 h k in
    match r with
    | Ok =>
        let '(b, k2) := request k1 in
        if b then (Ok, h1, k2) else (Oom, if fixed then pop_reloc h1 else h1, k2)
    | _ => (r, h1, k1)
    end
  end.

(* CodeHolder::bind_label, allocation-relevant part: every fixup of the label is resolved and its record goes back to the
   pool (the modelled scripts stay inside one section) *)
Definition bind_label (li : nat) (h : holder) : result * holder :=
  if (li <? length (ho_labels h))%nat then
    if label_bound h li then (Invalid, h)
    else
      let n := length (l_fixups (nth li (ho_labels h) (mklabel false []))) in
      (Ok, mkholder (upd_nth li (fun _ => mklabel true []) (ho_labels h)) (ho_labels_cap h) (ho_relocs h) (ho_relocs_cap h)
                    (ho_fixup_pool h + n) (ho_unresolved h - Z.of_nat n))
  else (Invalid, h).

Inductive cop := CNewLabel | CNewReloc | CNewFixup (li : nat) | CEmbedLabel (li : nat) | CEmbedDelta | CBind (li : nat).

Definition holder_step (fixed : bool) (op : cop) (h : holder) (k : nat) : result * holder * nat :=
  match op with
  | CNewLabel => new_label h k
  | CNewReloc => new_reloc 3 h k
  | CNewFixup li => if (li <? length (ho_labels h))%nat && negb (label_bound h li) then new_fixup li (-1) h k else (Invalid, h, k)
  | CEmbedLabel li => embed_label fixed li h k
  | CEmbedDelta => embed_delta fixed h k
  | CBind li => let '(r, h1) := bind_label li h in (r, h1, k)
  end.

Fixpoint holder_run (fixed : bool) (ops : list cop) (h : holder) (k : nat) : list result * holder * nat :=
  match ops with
  | [] => ([], h, k)
  | op :: t =>
      let '(r, h1, k1) := holder_step fixed op h k in
      let '(rs, h2, k2) := holder_run fixed t h1 k1 in (r :: rs, h2, k2)
  end.

(* abstract content of a holder: what a user can observe (capacities and the pool size are not content) *)
Definition holder_content (h : holder) : list label * list Z * Z := (ho_labels h, ho_relocs h, ho_unresolved h).

(* ------------------------------------------------------------------------------------------------------------------ *)
(* CodeHolder: sections (new_section) and the address table (add_address_to_address_table), x86 jmp/call to an absolute   *)
(* address (relocation entry + address-table entry)                                                                      *)
(* ------------------------------------------------------------------------------------------------------------------ *)
Record sects := mksects {
  ss_orders : list Z; ss_cap : Z;             (* ArenaVector<Section*> _sections: the order key of section id i *)
  ss_by_order : list nat; ss_by_cap : Z;      (* ArenaVector<Section*> _sections_by_order: ids sorted by (order, id) *)
  ss_addrtab : option nat;                    (* _address_table_section *)
  ss_entries : list Z;                        (* _address_table_entries (addresses), slots of 8 bytes each *)
}.

(* the state CodeHolder::init leaves: both vectors reserved for the first time (capacity 2), .text with the lowest order *)
Definition text_order : Z := -2147483648.
Definition addrtab_order : Z := 2147483647.
Definition sects_init : sects := mksects [text_order] 2 [0%nat] 2 None [].

Definition order_of (s : sects) (id : nat) : Z := nth id (ss_orders s) 0.

(* std::lower_bound by (order, id): the new section has the largest id, so it goes behind every entry with order <= its own *)
Fixpoint insert_by_order (orders : list Z) (order : Z) (id : nat) (l : list nat) : list nat :=
  match l with
  | [] => [id]
  | x :: t => if nth x orders 0 <=? order then x :: insert_by_order orders order id t else id :: l
  end.

Definition new_section (order : Z) (s : sects) (k : nat) : result * sects * nat :=
  let '(r1, v1, k1) := vec_reserve_one 8 (mkvec (ss_orders s) (ss_cap s)) k in
  match r1 with
  | Ok =>
      let s1 := mksects (ss_orders s) (v_cap v1) (ss_by_order s) (ss_by_cap s) (ss_addrtab s) (ss_entries s) in
      let '(r2, v2, k2) := vec_reserve_one 8 (mkvec (map Z.of_nat (ss_by_order s1)) (ss_by_cap s1)) k1 in
      match r2 with
      | Ok =>
          let s2 := mksects (ss_orders s1) (ss_cap s1) (ss_by_order s1) (v_cap v2) (ss_addrtab s1) (ss_entries s1) in
          let '(b, k3) := request k2 in
          if b then
            (Ok, mksects (ss_orders s2 ++ [order]) (ss_cap s2) (insert_by_order (ss_orders s2) order (length (ss_orders s2)) (ss_by_order s2))
                         (ss_by_cap s2) (ss_addrtab s2) (ss_entries s2), k3)
          else (Oom, s2, k3)
      | _ => (r2, s1, k2)
      end
  | _ => (r1, s, k1)
  end.

(* CodeHolder::add_address_to_address_table: known address -> nothing to do; otherwise the .addrtab section is created on
   first use (and STAYS when the entry allocation fails afterwards), then one entry is allocated *)
Definition add_address (addr : Z) (s : sects) (k : nat) : result * sects * nat :=
  if existsb (Z.eqb addr) (ss_entries s) then (Ok, s, k) else
  let '(rs, s1, k1) :=
    match ss_addrtab s with
    | Some _ => (Ok, s, k)
    | None =>
        let '(r, s', k') := new_section addrtab_order s k in
        match r with
        | Ok => (Ok, mksects (ss_orders s') (ss_cap s') (ss_by_order s') (ss_by_cap s') (Some (length (ss_orders s))) (ss_entries s'), k')
        | _ => (Oom, s', k')
        end
    end in
  match rs with
  | Ok =>
      let '(b, k2) := request k1 in
      if b then (Ok, mksects (ss_orders s1) (ss_cap s1) (ss_by_order s1) (ss_by_cap s1) (ss_addrtab s1) (ss_entries s1 ++ [addr]), k2)
      else (Oom, s1, k2)
  | _ => (Oom, s1, k1)
  end.

Record holder2 := mkh2 { h2_base : holder; h2_sects : sects }.
Definition holder2_init : holder2 := mkh2 holder_empty sects_init.

Definition set_last_reloc (ty : Z) (h : holder) : holder :=
  mkholder (ho_labels h) (ho_labels_cap h) (removelast (ho_relocs h) ++ [ty]) (ho_relocs_cap h) (ho_fixup_pool h) (ho_unresolved h).

(* x86-64 `call/jmp imm64` without a known base address: relocation entry (kAbsToRel), address-table entry, then the entry
   becomes kX64AddressEntry.  fixed = true: C15-stale-reloc (the relocation is discarded when the address table fails) *)
Definition call_abs (fixed : bool) (addr : Z) (h : holder2) (k : nat) : result * holder2 * nat :=
  let '(r, b1, k1) := new_reloc 5 (h2_base h) k in
  match r with
  | Ok =>
      let '(r2, s2, k2) := add_address addr (h2_sects h) k1 in
      match r2 with
      | Ok => (Ok, mkh2 (set_last_reloc 6 b1) s2, k2)
      | _ => (r2, mkh2 (if fixed then pop_reloc b1 else b1) s2, k2)
      end
  | _ => (r, mkh2 b1 (h2_sects h), k1)
  end.

Inductive cop2 := CBase (op : cop) | CNewSection (order : Z) | CAddAddress (addr : Z) | CCallAbs (addr : Z).

Definition holder2_step (fixed : bool) (op : cop2) (h : holder2) (k : nat) : result * holder2 * nat :=
  match op with
  | CBase o => let '(r, b, k1) := holder_step fixed o (h2_base h) k in (r, mkh2 b (h2_sects h), k1)
  | CNewSection order => let '(r, s, k1) := new_section order (h2_sects h) k in (r, mkh2 (h2_base h) s, k1)
  | CAddAddress addr => let '(r, s, k1) := add_address addr (h2_sects h) k in (r, mkh2 (h2_base h) s, k1)
  | CCallAbs addr => call_abs fixed addr h k
  end.

Fixpoint holder2_run (fixed : bool) (ops : list cop2) (h : holder2) (k : nat) : list result * holder2 * nat :=
  match ops with
  | [] => ([], h, k)
  | op :: t =>
      let '(r, h1, k1) := holder2_step fixed op h k in
      let '(rs, h2, k2) := holder2_run fixed t h1 k1 in (r :: rs, h2, k2)
  end.

(* abstract content of the section state (capacities are not content) *)
Definition sects_content (s : sects) : list Z * list nat * option nat * list Z :=
  (ss_orders s, ss_by_order s, ss_addrtab s, ss_entries s).

(* ------------------------------------------------------------------------------------------------------------------ *)
(* BaseBuilder node creation (builder.cpp): label / section / instruction / align / embed / comment / embed-label nodes,  *)
(* embed_const_pool (composite), the cursor (add_node inserts behind it; set_cursor moves it)                             *)
(* ------------------------------------------------------------------------------------------------------------------ *)
Inductive bnode := NSection (sid : nat) | NInst | NLabel (li : nat) | NAlign | NEmbed | NComment | NEmbedLabel (li : nat).

Record bld := mkbld {
  b_lnodes : list bool; b_lcap : Z;          (* ArenaVector<LabelNode*> _label_nodes: true = a node exists *)
  b_snodes : list bool; b_scap : Z;          (* ArenaVector<SectionNode*> _section_nodes *)
  b_active : list nat;                       (* labels whose node is linked into the node list (bound) *)
  b_nodes : list bnode;                      (* the node list *)
  b_cursor : nat }.                          (* index of the cursor node *)

(* the state BaseBuilder::on_attach leaves: section node 0 exists and is the only node, capacity 2 *)
Definition bld_init : bld := mkbld [] 0 [true] 2 [] [NSection 0] 0.

Definition bools_vec (l : list bool) (cap : Z) : vec := mkvec (map (fun _ => 0) l) cap.
Definition set_nth_true (i : nat) (l : list bool) : list bool := upd_nth i (fun _ => true) l.
Definition pad_to (n : nat) (l : list bool) : list bool := l ++ repeat false (n - length l).

Definition is_section (n : bnode) : bool := match n with NSection _ => true | _ => false end.
Definition is_section_of (sid : nat) (n : bnode) : bool := match n with NSection s => (s =? sid)%nat | _ => false end.

(* index of the first node satisfying f *)
Fixpoint index_of (f : bnode -> bool) (l : list bnode) : nat :=
  match l with
  | [] => 0
  | x :: t => if f x then 0 else S (index_of f t)
  end.

(* BaseBuilder::section on an active section: the cursor goes to the last node of that section, i.e. just before the next
   section node (or to the last node) *)
Definition section_end (sid : nat) (l : list bnode) : nat :=
  let p := index_of (is_section_of sid) l in
  p + index_of is_section (skipn (S p) l).

(* BaseBuilder::add_node: link behind the cursor, the new node becomes the cursor *)
Definition add_node (n : bnode) (b : bld) : bld :=
  mkbld (b_lnodes b) (b_lcap b) (b_snodes b) (b_scap b) (b_active b) (insert_at (S (b_cursor b)) n (b_nodes b)) (S (b_cursor b)).

Inductive bop :=
| BNewLabel | BBind (li : nat) | BSection (sid : nat)
| BInst | BAlign | BEmbed | BEmbedLabel (li : nat) | BComment
| BCursor (i : nat) | BConstPool (li : nat).

(* BaseBuilder::new_label: CodeHolder::new_label_id, then Builder_new_label_internal (reserve, node, append); when the second
   part fails the holder keeps an orphan label (no node refers to it) and an invalid Label is returned *)
Definition b_new_label (h : holder2) (b : bld) (k : nat) : result * holder2 * bld * nat :=
  let n := length (ho_labels (h2_base h)) in
  let '(r, base1, k1) := new_label (h2_base h) k in
  match r with
  | Ok =>
      let h1 := mkh2 base1 (h2_sects h) in
      let grow_by := (n - length (b_lnodes b) + 1)%nat in
      let '(r2, v2, k2) := vec_reserve_additional 8 (bools_vec (b_lnodes b) (b_lcap b)) (Z.of_nat grow_by) k1 in
      match r2 with
      | Ok =>
          let b1 := mkbld (b_lnodes b) (v_cap v2) (b_snodes b) (b_scap b) (b_active b) (b_nodes b) (b_cursor b) in
          let '(ok3, k3) := request k2 in
          if ok3 then (Ok, h1, mkbld (pad_to n (b_lnodes b1) ++ [true]) (b_lcap b1) (b_snodes b1) (b_scap b1) (b_active b1) (b_nodes b1) (b_cursor b1), k3)
          else (Oom, h1, b1, k3)
      | _ => (Oom, h1, b, k2)
      end
  | _ => (r, mkh2 base1 (h2_sects h), b, k1)
  end.

(* BaseBuilder::label_node_of: resize_grow, node on demand *)
Definition b_label_node (li : nat) (b : bld) (k : nat) : result * bld * nat :=
  let '(r1, b1, k1) :=
    if (li <? length (b_lnodes b))%nat then (Ok, b, k) else
      let '(r, v, k') := (if b_lcap b <? Z.of_nat (li + 1) then vec_reserve_grow 8 (bools_vec (b_lnodes b) (b_lcap b)) (Z.of_nat (li + 1)) k
                          else (Ok, bools_vec (b_lnodes b) (b_lcap b), k)) in
      match r with
      | Ok => (Ok, mkbld (pad_to (li + 1) (b_lnodes b)) (v_cap v) (b_snodes b) (b_scap b) (b_active b) (b_nodes b) (b_cursor b), k')
      | _ => (Oom, b, k')
      end in
  match r1 with
  | Ok =>
      if nth li (b_lnodes b1) false then (Ok, b1, k1) else
        let '(ok2, k') := request k1 in
        if ok2 then (Ok, mkbld (set_nth_true li (b_lnodes b1)) (b_lcap b1) (b_snodes b1) (b_scap b1) (b_active b1) (b_nodes b1) (b_cursor b1), k')
        else (Oom, b1, k')
  | _ => (Oom, b1, k1)
  end.

Definition label_active (b : bld) (li : nat) : bool := existsb (Nat.eqb li) (b_active b).
Definition activate (li : nat) (b : bld) : bld :=
  let b1 := add_node (NLabel li) b in mkbld (b_lnodes b1) (b_lcap b1) (b_snodes b1) (b_scap b1) (li :: b_active b1) (b_nodes b1) (b_cursor b1).

(* BaseBuilder::bind = label_node_of + add_node *)
Definition b_bind (li : nat) (h : holder2) (b : bld) (k : nat) : result * bld * nat :=
  if (li <? length (ho_labels (h2_base h)))%nat then
    let '(r, b1, k1) := b_label_node li b k in
    match r with
    | Ok => if label_active b1 li then (Invalid, b1, k1) else (Ok, activate li b1, k1)
    | _ => (Oom, b1, k1)
    end
  else (Invalid, b, k).

(* BaseBuilder::section = section_node_of (reserve_grow, node on demand, resize) + activation / cursor move *)
Definition b_section (sid : nat) (h : holder2) (b : bld) (k : nat) : result * bld * nat :=
  if (sid <? length (ss_orders (h2_sects h)))%nat then
    let '(r1, cap1, k1) :=
      if (sid <? length (b_snodes b))%nat then (Ok, b_scap b, k) else
        let '(r, v, k') := vec_reserve_grow 8 (bools_vec (b_snodes b) (b_scap b)) (Z.of_nat (sid + 1)) k in (r, v_cap v, k') in
    match r1 with
    | Ok =>
        let b1 := mkbld (b_lnodes b) (b_lcap b) (b_snodes b) cap1 (b_active b) (b_nodes b) (b_cursor b) in
        let '(r2, b2, k2) :=
          if nth sid (b_snodes b1) false then (Ok, b1, k1) else
            let '(ok2, k') := request k1 in
            if ok2 then (Ok, mkbld (b_lnodes b1) (b_lcap b1) (set_nth_true sid (pad_to (sid + 1) (b_snodes b1))) (b_scap b1) (b_active b1) (b_nodes b1) (b_cursor b1), k')
            else (Oom, b1, k') in
        match r2 with
        | Ok =>
            if existsb (is_section_of sid) (b_nodes b2)
            then (Ok, mkbld (b_lnodes b2) (b_lcap b2) (b_snodes b2) (b_scap b2) (b_active b2) (b_nodes b2) (section_end sid (b_nodes b2)), k2)
            else (Ok, mkbld (b_lnodes b2) (b_lcap b2) (b_snodes b2) (b_scap b2) (b_active b2) (b_nodes b2 ++ [NSection sid]) (length (b_nodes b2)), k2)
        | _ => (Oom, b2, k2)
        end
    | _ => (Oom, b, k1)
    end
  else (Invalid, b, k).

(* a node that needs `reqs` requests before it is linked (instruction, align, embed, embed_label: 1; comment: string + node) *)
Fixpoint b_simple_node (reqs : nat) (n : bnode) (b : bld) (k : nat) : result * bld * nat :=
  match reqs with
  | O => (Ok, add_node n b, k)
  | S m => let '(ok1, k1) := request k in if ok1 then b_simple_node m n b k1 else (Oom, b, k1)
  end.

(* BaseBuilder::embed_const_pool.  fixed = true (fixes/C15-embed-const-pool-atomic.patch): label node, then BOTH the align node
   and the data node are allocated, and only then the three nodes are linked - one transaction.  fixed = false (the code before):
   align node linked, label bound, and only then the data node allocated - an align node and the bound label stay behind when
   that last allocation fails. *)
Definition b_const_pool (fixed : bool) (li : nat) (h : holder2) (b : bld) (k : nat) : result * bld * nat :=
  if (li <? length (ho_labels (h2_base h)))%nat then
    let '(r, b1, k1) := b_label_node li b k in
    match r with
    | Ok =>
        if label_active b1 li then (Invalid, b1, k1) else
        if fixed then
          let '(ok2, k2) := request k1 in
          if ok2 then
            let '(ok3, k3) := request k2 in
            if ok3 then (Ok, add_node NEmbed (activate li (add_node NAlign b1)), k3) else (Oom, b1, k3)
          else (Oom, b1, k2)
        else
          let '(r2, b2, k2) := b_simple_node 1 NAlign b1 k1 in
          match r2 with
          | Ok => b_simple_node 1 NEmbed (activate li b2) k2
          | _ => (r2, b2, k2)
          end
    | _ => (Oom, b1, k1)
    end
  else (Invalid, b, k).

Definition builder_step_gen (fixed : bool) (op : bop) (h : holder2) (b : bld) (k : nat) : result * holder2 * bld * nat :=
  match op with
  | BNewLabel => b_new_label h b k
  | BBind li => let '(r, b1, k1) := b_bind li h b k in (r, h, b1, k1)
  | BSection sid => let '(r, b1, k1) := b_section sid h b k in (r, h, b1, k1)
  | BInst => let '(r, b1, k1) := b_simple_node 1 NInst b k in (r, h, b1, k1)
  | BAlign => let '(r, b1, k1) := b_simple_node 1 NAlign b k in (r, h, b1, k1)
  | BEmbed => let '(r, b1, k1) := b_simple_node 1 NEmbed b k in (r, h, b1, k1)
  | BEmbedLabel li => let '(r, b1, k1) := b_simple_node 1 (NEmbedLabel li) b k in (r, h, b1, k1)
  | BComment => let '(r, b1, k1) := b_simple_node 2 NComment b k in (r, h, b1, k1)
  | BCursor i =>
      (Ok, h, mkbld (b_lnodes b) (b_lcap b) (b_snodes b) (b_scap b) (b_active b) (b_nodes b) (i mod length (b_nodes b)), k)
  | BConstPool li => let '(r, b1, k1) := b_const_pool fixed li h b k in (r, h, b1, k1)
  end.

Definition builder_step := builder_step_gen true.

(* what serialization sees: the node list, the cursor, the bound labels *)
Definition bld_list (b : bld) : list bnode * nat * list nat := (b_nodes b, b_cursor b, b_active b).

(* ------------------------------------------------------------------------------------------------------------------ *)
(* Register allocator home slots: RAStackAllocator::new_slot, BaseRAPass::get_or_create_stack_slot / _create_stack_slot, *)
(* work_reg_as_mem (which cannot report a failure), and the null test of the rewrite step (f186c27)                       *)
(* ------------------------------------------------------------------------------------------------------------------ *)
Record rastack := mkras {
  ra_slots : list nat;        (* _slots: the work register each slot belongs to, in creation order *)
  ra_cap : Z;
  ra_home : list bool;        (* per work register: _stack_slot != nullptr *)
  ra_refs : list nat }.       (* work registers referenced by a "register home" memory operand *)

Definition ras_init (nregs : nat) : rastack := mkras [] 0 (repeat false nregs) [].
Definition has_home (s : rastack) (w : nat) : bool := nth w (ra_home s) false.

(* RAStackAllocator::new_slot + _create_stack_slot: reserve, allocate, append; nullptr leaves everything but the capacity *)
Definition ra_new_slot (w : nat) (s : rastack) (k : nat) : result * rastack * nat :=
  let '(r, v, k1) := vec_reserve_one 8 (mkvec (map Z.of_nat (ra_slots s)) (ra_cap s)) k in
  match r with
  | Ok =>
      let s1 := mkras (ra_slots s) (v_cap v) (ra_home s) (ra_refs s) in
      let '(b, k2) := request k1 in
      if b then (Ok, mkras (ra_slots s1 ++ [w]) (ra_cap s1) (upd_nth w (fun _ => true) (ra_home s1)) (ra_refs s1), k2)
      else (Oom, s1, k2)
  | _ => (Oom, s, k1)
  end.

Inductive raop := RGet (w : nat) | RAsMem (w : nat).

Definition ra_step (op : raop) (s : rastack) (k : nat) : result * rastack * nat :=
  match op with
  | RGet w => if has_home s w then (Ok, s, k) else ra_new_slot w s k              (* call sites that test the result *)
  | RAsMem w =>                                                                  (* work_reg_as_mem: the result is dropped *)
      let '(_, s1, k1) := (if has_home s w then (Ok, s, k) else ra_new_slot w s k) in
      (Ok, mkras (ra_slots s1) (ra_cap s1) (ra_home s1) (w :: ra_refs s1), k1)
  end.

Fixpoint ra_run (ops : list raop) (s : rastack) (k : nat) : list result * rastack * nat :=
  match ops with
  | [] => ([], s, k)
  | op :: t => let '(r, s1, k1) := ra_step op s k in let '(rs, s2, k2) := ra_run t s1 k1 in (r :: rs, s2, k2)
  end.

(* executable validator of a dumped allocator state (used on the states of REAL pass runs): the slot owners are distinct, every
   owner is a register that has its home, and every register with a home owns a slot *)
Fixpoint nodupb (l : list nat) : bool :=
  match l with
  | [] => true
  | x :: t => negb (existsb (Nat.eqb x) t) && nodupb t
  end.

Definition ra_check (s : rastack) : bool :=
  nodupb (ra_slots s) &&
  forallb (fun w => (w <? length (ra_home s))%nat && has_home s w) (ra_slots s) &&
  forallb (fun w => implb (has_home s w) (existsb (Nat.eqb w) (ra_slots s))) (seq 0 (length (ra_home s))).

(* the rewrite step replaces every register-home operand by [sp + slot offset]; with f186c27 a missing slot is an error *)
Definition ra_rewrite (s : rastack) : result := if forallb (has_home s) (ra_refs s) then Ok else Oom.

End WithOracle.

(* ------------------------------------------------------------------------------------------------------------------ *)
(* VirtMem mappings and JitAllocator block creation: two oracles (VM requests = mmap, heap requests = malloc)            *)
(*   virtmem.cpp      alloc / release, alloc_dual_mapping_using_file (RX view, then RW view; roll-back of the first)      *)
(*   jitallocator.cpp JitAllocator_new_block (views, then the block record; roll-back of the views), deleteBlock          *)
(* ------------------------------------------------------------------------------------------------------------------ *)
Section VmModel.
Variable okv : nat -> bool.      (* does the k-th mmap succeed *)
Variable okh : nat -> bool.      (* does the k-th malloc succeed *)

Record vms := mkvms {
  vs_views : list nat;                    (* live views (fresh ids) *)
  vs_next : nat;
  vs_heap : nat;                          (* live block records *)
  vs_handles : list (option (list nat))   (* what each allocating script operation returned *)
}.
Definition vms_init : vms := mkvms [] 0 0 [].

Inductive vmop := VMap | VDual | VRel (i : nat) | VBlock (dual : bool) | VDel (i : nat).

Definition remove_ids (ids l : list nat) : list nat := filter (fun x => negb (existsb (Nat.eqb x) ids)) l.

(* map_memory: one request *)
Definition vm_map (s : vms) (kv : nat) : option nat * vms * nat :=
  if okv kv then (Some (vs_next s), mkvms (vs_views s ++ [vs_next s]) (S (vs_next s)) (vs_heap s) (vs_handles s), S kv)
  else (None, s, S kv).

(* alloc_dual_mapping_using_file: two views of one anonymous file; when the second fails the first is unmapped *)
Definition vm_dual (s : vms) (kv : nat) : option (list nat) * vms * nat :=
  let '(a, s1, k1) := vm_map s kv in
  match a with
  | None => (None, s1, k1)
  | Some ia =>
      let '(b, s2, k2) := vm_map s1 k1 in
      match b with
      | Some ib => (Some [ia; ib], s2, k2)
      | None => (None, mkvms (remove_ids [ia] (vs_views s2)) (vs_next s2) (vs_heap s2) (vs_handles s2), k2)
      end
  end.

Definition push_handle (h : option (list nat)) (s : vms) : vms := mkvms (vs_views s) (vs_next s) (vs_heap s) (vs_handles s ++ [h]).

Definition vm_step (op : vmop) (s : vms) (kv kh : nat) : result * vms * nat * nat :=
  match op with
  | VMap =>
      let '(a, s1, k1) := vm_map s kv in
      match a with Some i => (Ok, push_handle (Some [i]) s1, k1, kh) | None => (Oom, push_handle None s1, k1, kh) end
  | VDual =>
      let '(a, s1, k1) := vm_dual s kv in
      match a with Some ids => (Ok, push_handle (Some ids) s1, k1, kh) | None => (Oom, push_handle None s1, k1, kh) end
  | VBlock dual =>
      (* JitAllocator_new_block: the view(s) first, then malloc of the block record; a failed malloc releases the views *)
      let '(a, s1, k1) := if dual then vm_dual s kv else (let '(x, s', k') := vm_map s kv in (match x with Some i => Some [i] | None => None end, s', k')) in
      match a with
      | None => (Oom, push_handle None s1, k1, kh)
      | Some ids =>
          if okh kh then (Ok, push_handle (Some ids) (mkvms (vs_views s1) (vs_next s1) (S (vs_heap s1)) (vs_handles s1)), k1, S kh)
          else (Oom, push_handle None (mkvms (remove_ids ids (vs_views s1)) (vs_next s1) (vs_heap s1) (vs_handles s1)), k1, S kh)
      end
  | VRel i | VDel i =>
      match nth i (vs_handles s) None with
      | Some ids =>
          (Ok, mkvms (remove_ids ids (vs_views s)) (vs_next s) (match op with VDel _ => pred (vs_heap s) | _ => vs_heap s end)
                     (upd_nth i (fun _ => None) (vs_handles s)), kv, kh)
      | None => (Invalid, s, kv, kh)
      end
  end.

End VmModel.

(* ------------------------------------------------------------------------------------------------------------------ *)
(* core/string.cpp: String (small-string buffer of 30 characters, then malloc'ed storage) under a heap oracle           *)
(* ------------------------------------------------------------------------------------------------------------------ *)
Section StrModel.
Variable okh : nat -> bool.      (* does the k-th malloc succeed *)

Record str := mkstr { st_chars : list Z; st_cap : Z; st_large : bool }.
Definition sso_capacity : Z := 30.
Definition str_empty : str := mkstr [] sso_capacity false.
Definition slen (s : str) : Z := Z.of_nat (length (st_chars s)).

Definition align_up_z (x a : Z) : Z := ((x + a - 1) / a) * a.
Definition pow2_ceil (x : Z) : Z := if x <=? 1 then 1 else 2 ^ (Z.log2 (x - 1) + 1).

(* String_grow_capacity (sizes include the terminator) *)
Definition str_grow_capacity (byte_size min_byte_size : Z) : Z :=
  let bs := if byte_size <? 128 then 128 else if byte_size <? 512 then 512 else byte_size in
  if bs <? min_byte_size then
    let p := pow2_ceil min_byte_size in
    if grow_threshold <? p then min_byte_size + min_byte_size mod grow_threshold else p
  else bs.

Inductive sop := SAppend (d : list Z) | SAssign (d : list Z) | SAppendChars (n : Z) | SAssignChars (n : Z) | SClear | SReset | STruncate (n : Z).

Definition zchars (n : Z) : list Z := repeat 122 (Z.to_nat n).   (* 'z' *)

(* oracle-free effect on the characters *)
Definition str_spec (op : sop) (l : list Z) : list Z :=
  match op with
  | SAppend d => l ++ d
  | SAssign d => d
  | SAppendChars n => l ++ zchars n
  | SAssignChars n => zchars n
  | SClear | SReset => []
  | STruncate n => if n <? Z.of_nat (length l) then firstn (Z.to_nat n) l else l
  end.

(* String::prepare(kAppend, size) *)
Definition str_prepare_append (s : str) (size : Z) (k : nat) : result * str * nat :=
  let new_size := size + slen s in
  if st_cap s <? new_size then
    if okh k then (Ok, mkstr (st_chars s) (str_grow_capacity (size + 1) (new_size + 1) - 1) true, S k) else (Oom, s, S k)
  else (Ok, s, k).

(* String::prepare(kAssign, size): used by assign_chars *)
Definition str_prepare_assign (s : str) (size : Z) (k : nat) : result * str * nat :=
  if st_cap s <? size then
    if okh k then (Ok, mkstr (st_chars s) (align_up_z (size + 1) 128 - 1) true, S k) else (Oom, s, S k)
  else (Ok, s, k).

(* String::assign(data, size) has its own growth rule *)
Definition str_assign_storage (s : str) (size : Z) (k : nat) : result * str * nat :=
  if st_large s then
    if size <=? st_cap s then (Ok, s, k)
    else if okh k then (Ok, mkstr (st_chars s) (align_up_z (size + 1) 32 - 1) true, S k) else (Oom, s, S k)
  else
    if size <=? sso_capacity then (Ok, s, k)
    else if okh k then (Ok, mkstr (st_chars s) size true, S k) else (Oom, s, S k).

Definition str_step (op : sop) (s : str) (k : nat) : result * str * nat :=
  let finish r s1 k1 := match r with Ok => (Ok, mkstr (str_spec op (st_chars s)) (st_cap s1) (st_large s1), k1) | _ => (r, s, k1) end in
  match op with
  | SAppend d => if (Z.of_nat (length d) =? 0) then (Ok, s, k) else let '(r, s1, k1) := str_prepare_append s (Z.of_nat (length d)) k in finish r s1 k1
  | SAppendChars n => if n <=? 0 then (Ok, s, k) else let '(r, s1, k1) := str_prepare_append s n k in finish r s1 k1
  | SAssign d => let '(r, s1, k1) := str_assign_storage s (Z.of_nat (length d)) k in finish r s1 k1
  | SAssignChars n => if n <=? 0 then (Ok, mkstr [] (st_cap s) (st_large s), k) else let '(r, s1, k1) := str_prepare_assign s n k in finish r s1 k1
  | SClear | STruncate _ => (Ok, mkstr (str_spec op (st_chars s)) (st_cap s) (st_large s), k)
  | SReset => (Ok, str_empty, k)
  end.

End StrModel.

Definition all_ok : nat -> bool := fun _ => true.

(* ------------------------------------------------------------------------------------------------------------------ *)
(* support/arena.cpp: Arena::alloc_oneshot (inline bump) / _alloc_oneshot (next blocks after a soft reset, new block by   *)
(* malloc) / reset(soft | hard) under a heap oracle.  A block is its usable size (ManagedBlock::size); the blocks up to    *)
(* the current one are never released by an allocation, the spare blocks behind it (present after a soft reset) are.       *)
(* ------------------------------------------------------------------------------------------------------------------ *)
Section ArenaModel.
Variable okh : nat -> bool.      (* does the k-th malloc succeed *)

Record arena := mkarena {
  a_pre : list Z;      (* usable sizes of the blocks from _first_block up to _current_block (empty: the static zero block) *)
  a_rem : Z;           (* _end - _ptr *)
  a_nxt : list Z;      (* blocks behind the current one *)
  a_shift : Z;         (* _current_block_size_shift *)
  a_min : Z }.         (* _min_block_size_shift *)

Definition arena_hdr : Z := 16.           (* sizeof(ManagedBlock) *)
Definition arena_ovh : Z := 32.           (* Globals::kAllocOverhead; kArenaAlignmentOverhead = 0 *)
Definition arena_max_shift : Z := 26.
Definition size_max : Z := 18446744073709551615.

Definition arena_init (shift : Z) : arena := mkarena [] 0 [] shift shift.

(* the loop over the next blocks: the first one that fits is taken, the ones in front of it are freed *)
Fixpoint take_next (size : Z) (nxt : list Z) : option (Z * list Z) :=
  match nxt with
  | [] => None
  | b :: t => if size <=? b then Some (b, t) else take_next size t
  end.

Definition arena_alloc (size : Z) (a : arena) (k : nat) : result * arena * nat :=
  if size <=? a_rem a then (Ok, mkarena (a_pre a) (a_rem a - size) (a_nxt a) (a_shift a) (a_min a), k)
  else
    match take_next size (a_nxt a) with
    | Some (b, t) => (Ok, mkarena (a_pre a ++ [b]) (b - size) t (a_shift a) (a_min a), k)
    | None =>
        let bs := 2 ^ a_shift a in
        let big := bs - (arena_hdr + arena_ovh) <? size in
        if big && (size_max - (arena_hdr + arena_ovh) <? size) then (Oom, mkarena (a_pre a) (a_rem a) [] (a_shift a) (a_min a), k)
        else
          let block_size := if big then size + arena_hdr else bs - arena_ovh in
          let '(b, k1) := (okh k, S k) in
          if b then (Ok, mkarena (a_pre a ++ [block_size - arena_hdr]) (block_size - arena_hdr - size) []
                                 (Z.min (a_shift a + 1) arena_max_shift) (a_min a), k1)
          else (Oom, mkarena (a_pre a) (a_rem a) [] (a_shift a) (a_min a), k1)
    end.

Inductive aop := AAlloc (size : Z) | AReset (hard : bool).

Definition arena_reset (hard : bool) (a : arena) : arena :=
  if hard then mkarena [] 0 [] (a_min a) (a_min a)
  else match a_pre a ++ a_nxt a with
       | [] => a
       | f :: t => mkarena [f] f t (a_shift a) (a_min a)
       end.

Definition arena_step (op : aop) (a : arena) (k : nat) : result * arena * nat :=
  match op with
  | AAlloc size => arena_alloc size a k
  | AReset hard => (Ok, arena_reset hard a, k)
  end.

(* where the bytes of the last successful allocation lie: (index of the block, offset inside it) *)
Definition arena_last (size : Z) (a : arena) : nat * Z := ((length (a_pre a) - 1)%nat, last (a_pre a) 0 - a_rem a - size).

End ArenaModel.

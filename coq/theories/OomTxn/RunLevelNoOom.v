(* C15 round 7: the step-level "never spurious" theorems of holder2 (sections, address table, call imm64) lifted to whole scripts. *)
From Coq Require Import ZArith List Bool Lia.
From Verif Require Import OomTxn.OracleModel OomTxn.OracleProofs.
Import ListNotations.
Local Open Scope Z_scope.

Lemma removelast_len {A} (l : list A) : length (removelast l) = pred (length l).
Proof. induction l as [|x t IH]; [reflexivity|]. destruct t; [reflexivity|]. cbn [removelast length] in *. rewrite IH. reflexivity. Qed.

Lemma insert_by_order_length orders order id l : length (insert_by_order orders order id l) = S (length l).
Proof. induction l as [|x t IH]; cbn; [reflexivity|]. destruct (nth x orders 0 <=? order); cbn; [rewrite IH|]; reflexivity. Qed.

Lemma new_section_growth ok order s k r s' k' :
  new_section ok order s k = (r, s', k') ->
  (length (ss_orders s') <= S (length (ss_orders s)))%nat /\ (length (ss_by_order s') <= S (length (ss_by_order s)))%nat.
Proof.
  pose proof (insert_by_order_length (ss_orders s) order (length (ss_orders s)) (ss_by_order s)) as IL.
  unfold new_section, vec_reserve_one, vec_reserve_grow, vec_reserve_bytes, request; cbn [v_items v_cap ss_orders ss_cap ss_by_order ss_by_cap];
    repeat match goal with |- context [if ?c then _ else _] => destruct c end;
    intros E; inversion E; subst; cbn [ss_orders ss_by_order]; rewrite ?app_length; cbn [length]; lia.
Qed.

Lemma add_address_growth ok addr s k r s' k' :
  add_address ok addr s k = (r, s', k') ->
  (length (ss_orders s') <= S (length (ss_orders s)))%nat /\ (length (ss_by_order s') <= S (length (ss_by_order s)))%nat.
Proof.
  unfold add_address. destruct (existsb (Z.eqb addr) (ss_entries s)); [intros E; inversion E; subst; lia|].
  destruct (ss_addrtab s).
  - unfold request. destruct (ok k); intros E; inversion E; subst; cbn [ss_orders ss_by_order]; lia.
  - destruct (new_section ok addrtab_order s k) as [[r1 s1] k1] eqn:NS. destruct (new_section_growth _ _ _ _ _ _ _ NS) as [G1 G2].
    unfold request. destruct r1; [destruct (ok k1)| |]; intros E; inversion E; subst; cbn [ss_orders ss_by_order]; lia.
Qed.

Lemma new_reloc_growth ok ty h k r h' k' :
  new_reloc ok ty h k = (r, h', k') ->
  length (ho_labels h') = length (ho_labels h) /\ (length (ho_relocs h') <= S (length (ho_relocs h)))%nat.
Proof.
  unfold new_reloc, relocs_vec, vec_reserve_one, vec_reserve_grow, vec_reserve_bytes, request; cbn [v_items v_cap];
    repeat match goal with |- context [if ?c then _ else _] => destruct c end;
    intros E; inversion E; subst; cbn; rewrite ?app_length; cbn; lia.
Qed.

(* how far one step can move the four vector lengths *)
Lemma holder2_step_growth ok op h k r h' k' :
  holder2_step ok true op h k = (r, h', k') ->
  (length (ho_labels (h2_base h')) <= S (length (ho_labels (h2_base h))))%nat /\
  (length (ho_relocs (h2_base h')) <= S (length (ho_relocs (h2_base h))))%nat /\
  (length (ss_orders (h2_sects h')) <= S (length (ss_orders (h2_sects h))))%nat /\
  (length (ss_by_order (h2_sects h')) <= S (length (ss_by_order (h2_sects h))))%nat.
Proof.
  destruct op as [o|order|addr|addr]; cbn [holder2_step].
  - destruct (holder_step ok true o (h2_base h) k) as [[r1 b] k1] eqn:HS. destruct (holder_step_growth _ _ _ _ _ _ _ HS) as [G1 G2].
    intros E; inversion E; subst; cbn [h2_base h2_sects]. lia.
  - destruct (new_section ok order (h2_sects h) k) as [[r1 s] k1] eqn:NS. destruct (new_section_growth _ _ _ _ _ _ _ NS) as [G1 G2].
    intros E; inversion E; subst; cbn [h2_base h2_sects]. lia.
  - destruct (add_address ok addr (h2_sects h) k) as [[r1 s] k1] eqn:AA. destruct (add_address_growth _ _ _ _ _ _ _ AA) as [G1 G2].
    intros E; inversion E; subst; cbn [h2_base h2_sects]. lia.
  - unfold call_abs. destruct (new_reloc ok 5 (h2_base h) k) as [[r1 b1] k1] eqn:NR. destruct (new_reloc_growth _ _ _ _ _ _ _ NR) as [L1 L2].
    destruct r1; [|intros E; inversion E; subst; cbn [h2_base h2_sects]; lia|intros E; inversion E; subst; cbn [h2_base h2_sects]; lia].
    destruct (add_address ok addr (h2_sects h) k1) as [[r2 s2] k2] eqn:AA. destruct (add_address_growth _ _ _ _ _ _ _ AA) as [G1 G2].
    destruct r2; intros E; inversion E; subst; cbn [h2_base h2_sects]; unfold set_last_reloc, pop_reloc; cbn [ho_labels ho_relocs];
      rewrite ?app_length, ?removelast_len; cbn [length]; try lia.
Qed.

(* CodeHolder with sections, address table and call imm64, WHOLE scripts: when no request fails and the four vectors stay below
   the 32-bit size limit for the whole script (length + number of operations), no operation reports kOutOfMemory *)
Theorem holder2_run_all_ok_never_oom ops : forall h k rs h' k',
  Z.of_nat (length (ho_labels (h2_base h))) + Z.of_nat (length ops) + 2 < max_items ->
  Z.of_nat (length (ho_relocs (h2_base h))) + Z.of_nat (length ops) + 2 < max_items ->
  Z.of_nat (length (ss_orders (h2_sects h))) + Z.of_nat (length ops) + 2 < max_items ->
  Z.of_nat (length (ss_by_order (h2_sects h))) + Z.of_nat (length ops) + 2 < max_items ->
  holder2_run all_ok true ops h k = (rs, h', k') -> ~ In Oom rs.
Proof.
  induction ops as [|op t IH]; intros h k rs h' k' B1 B2 B3 B4 E; cbn [holder2_run] in E.
  - inversion E; subst. intros [].
  - destruct (holder2_step all_ok true op h k) as [[r h1] k1] eqn:S1. destruct (holder2_run all_ok true t h1 k1) as [[rs2 h2] k2] eqn:S2.
    inversion E; subst; clear E. cbn [length] in B1, B2, B3, B4.
    destruct (holder2_step_growth all_ok op h k r h1 k1 S1) as [G1 [G2 [G3 G4]]].
    intros [F|F].
    + apply (holder2_all_ok_never_oom op h k r h1 k1); [repeat split; lia|exact S1|exact F].
    + apply (IH h1 k1 rs2 h' k'); [lia|lia|lia|lia|exact S2|exact F].
Qed.

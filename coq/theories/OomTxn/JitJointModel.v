(* C15 x C09: JitAllocator::alloc = C09's span bookkeeping + C15's block creation under the VM / heap oracles (no proofs here). *)
From Coq Require Import ZArith List Bool.
From Verif Require Jit.JitModel Jit.JitVmModel.
From Verif Require Import OomTxn.OracleModel.
Import ListNotations.
Local Open Scope Z_scope.

(* C09's allocator model (spans, bit vectors, pools, statistics) composed with C15's view / block-record model: JitAllocator::alloc
   first looks for room in the existing blocks (C09's `alloc`); when it needs a new block (C09: nextid grows) the block is created
   by JitAllocator_new_block under the two oracles (C15's VBlock step); when that fails C09's alloc_vm ... false describes what
   the allocator keeps. *)
Definition jit_alloc (okv okh : nat -> bool) (dual : bool) (c : JitModel.config) (st : JitModel.state) (s : vms) (size : Z) (kv kh : nat)
  : JitModel.state * JitModel.result * vms * nat * nat :=
  let '(st', r) := JitModel.alloc c st size in
  if JitModel.nextid st' =? JitModel.nextid st then (st', r, s, kv, kh)
  else
    let '(rb, s1, kv1, kh1) := vm_step okv okh (VBlock dual) s kv kh in
    match rb with
    | Ok => (st', r, s1, kv1, kh1)
    | _ => let '(st2, r2) := JitVmModel.alloc_vm c st size false in (st2, r2, s1, kv1, kh1)
    end.



(* JitAllocator::release: C09's span bookkeeping; when the block became empty and is deleted (C09: deleted = true) its views and
   its record go away (C15's VDel on the handle that created the block; `bm` maps C09 block ids to C15 handles) *)
Definition jit_release (okv okh : nat -> bool) (bm : list (Z * nat)) (c : JitModel.config) (st : JitModel.state) (s : vms) (id off : Z) (kv kh : nat)
  : JitModel.state * JitModel.result * vms :=
  let '(st', r) := JitModel.release c st id off in
  match r with
  | JitModel.RRelease JitModel.Ok bid true =>
      match find (fun p => fst p =? bid) bm with
      | Some (_, h) => let '(_, s1, _, _) := vm_step okv okh (VDel h) s kv kh in (st', r, s1)
      | None => (st', r, s)
      end
  | _ => (st', r, s)
  end.

(* JitAllocator::shrink: a new size of 0 is a release (the block may be deleted, then its views go away as in jit_release); any
   other size only trims the span inside its block - the views and the block records are not touched *)
Definition jit_shrink (okv okh : nat -> bool) (bm : list (Z * nat)) (c : JitModel.config) (st : JitModel.state) (s : vms) (id off ns : Z) (kv kh : nat)
  : JitModel.state * JitModel.result * vms :=
  let '(st', r) := JitModel.shrink c st id off ns in
  if ns =? 0 then let '(_, _, s') := jit_release okv okh bm c st s id off kv kh in (st', r, s') else (st', r, s).

(* ---- whole scripts of the joint model (round 6) ----
   The map from C09 block ids to C15 handles (`bm`) is now part of the model state (it was kept by the OCaml driver), and the
   hypothesis `valid_ptr` of the release / shrink theorems is decided by `valid_ptrb`: a script operation on a pointer that is not
   valid is answered InvalidArgument without touching anything (the scripts only name spans they own; the decision procedure makes
   the run-level theorems unconditional and is evaluated on every compared script). *)
Definition valid_ptrb (c : JitModel.config) (st : JitModel.state) (id off : Z) : bool :=
  match JitModel.find_block id (JitModel.blocks st) with
  | None => true
  | Some b => existsb (fun sp => fst sp =? off / JitModel.pool_gran c (JitModel.b_pool b)) (JitModel.b_live b)
  end.

(* JitAllocator::reset(policy): C09's reset decides which blocks stay (soft: the first block of each pool, wiped); the views and the
   record of every block that does not stay go away (C15's VDel on its handle).  Asks for no memory. *)
Definition jit_del_block (okv okh : nat -> bool) (bm : list (Z * nat)) (kv kh : nat) (s : vms) (id : Z) : vms :=
  match find (fun p => fst p =? id) bm with
  | Some (_, h) => let '(_, s1, _, _) := vm_step okv okh (VDel h) s kv kh in s1
  | None => s
  end.

Definition jit_reset (okv okh : nat -> bool) (bm : list (Z * nat)) (c : JitModel.config) (st : JitModel.state) (s : vms) (hard : bool) (kv kh : nat)
  : JitModel.state * vms :=
  let st' := JitModel.reset c st hard in
  let keep := map JitModel.b_id (JitModel.blocks st') in
  let gone := filter (fun id => negb (existsb (Z.eqb id) keep)) (map JitModel.b_id (JitModel.blocks st)) in
  (st', fold_left (jit_del_block okv okh bm kv kh) gone s).

Inductive jop := JAlloc (size : Z) | JRelease (id off : Z) | JShrink (id off ns : Z) | JReset (hard : bool) | JQuery (id off : Z).

Record jst := mkjst { j_st : JitModel.state; j_vm : vms; j_bm : list (Z * nat); j_kv : nat; j_kh : nat }.

Definition jst_init (c : JitModel.config) : jst := mkjst (JitModel.init_state c) vms_init [] 0%nat 0%nat.

Definition jit_step (okv okh : nat -> bool) (dual : bool) (c : JitModel.config) (op : jop) (j : jst) : JitModel.result * jst :=
  match op with
  | JAlloc size =>
      let '(st', r, s', kv', kh') := jit_alloc okv okh dual c (j_st j) (j_vm j) size (j_kv j) (j_kh j) in
      let bm' := if JitModel.nextid st' =? JitModel.nextid (j_st j) then j_bm j
                 else (JitModel.nextid (j_st j), length (vs_handles (j_vm j))) :: j_bm j in
      (r, mkjst st' s' bm' kv' kh')
  | JRelease id off =>
      if valid_ptrb c (j_st j) id off then
        let '(st', r, s') := jit_release okv okh (j_bm j) c (j_st j) (j_vm j) id off (j_kv j) (j_kh j) in
        (r, mkjst st' s' (j_bm j) (j_kv j) (j_kh j))
      else (JitModel.RRelease JitModel.InvalidArgument 0 false, j)
  | JShrink id off ns =>
      if valid_ptrb c (j_st j) id off && (0 <=? ns) then
        let '(st', r, s') := jit_shrink okv okh (j_bm j) c (j_st j) (j_vm j) id off ns (j_kv j) (j_kh j) in
        (r, mkjst st' s' (j_bm j) (j_kv j) (j_kh j))
      else (JitModel.RShrink JitModel.InvalidArgument 0 0, j)
  | JReset hard =>
      let '(st', s') := jit_reset okv okh (j_bm j) c (j_st j) (j_vm j) hard (j_kv j) (j_kh j) in
      (JitModel.RReset, mkjst st' s' (j_bm j) (j_kv j) (j_kh j))
  | JQuery id off => (JitModel.query c (j_st j) id off, j)       (* JitAllocator::query: C09's look-up, touches nothing *)
  end.

Fixpoint jit_run (okv okh : nat -> bool) (dual : bool) (c : JitModel.config) (ops : list jop) (j : jst) : list JitModel.result * jst :=
  match ops with
  | [] => ([], j)
  | op :: t => let '(r, j1) := jit_step okv okh dual c op j in let '(rs, j2) := jit_run okv okh dual c t j1 in (r :: rs, j2)
  end.

(* C15 x C09: JitAllocator::alloc = C09's span bookkeeping + C15's block creation under the VM / heap oracles (no proofs here). *)
From Coq Require Import ZArith List Bool.
From Verif Require Jit.JitModel Jit.JitVmModel.
From Verif Require Import OomTxn.OracleModel.
Import ListNotations.
Local Open Scope Z_scope.

(* C09's allocator model (spans, bit vectors, pools, statistics) composed with C15's view / block-record model: JitAllocator::alloc
   first looks for room in the existing blocks (C09's `alloc`); when it needs a new block (C09: nextid grows) the block is created
   by JitAllocator_new_block under the two oracles (C15's VBlock step); when that fails C09's alloc_vm ... false describes what
   the allocator keeps. *)
Definition jit_alloc (okv okh : nat -> bool) (dual : bool) (c : JitModel.config) (st : JitModel.state) (s : vms) (size : Z) (kv kh : nat)
  : JitModel.state * JitModel.result * vms * nat * nat :=
  let '(st', r) := JitModel.alloc c st size in
  if JitModel.nextid st' =? JitModel.nextid st then (st', r, s, kv, kh)
  else
    let '(rb, s1, kv1, kh1) := vm_step okv okh (VBlock dual) s kv kh in
    match rb with
    | Ok => (st', r, s1, kv1, kh1)
    | _ => let '(st2, r2) := JitVmModel.alloc_vm c st size false in (st2, r2, s1, kv1, kh1)
    end.



(* JitAllocator::release: C09's span bookkeeping; when the block became empty and is deleted (C09: deleted = true) its views and
   its record go away (C15's VDel on the handle that created the block; `bm` maps C09 block ids to C15 handles) *)
Definition jit_release (okv okh : nat -> bool) (bm : list (Z * nat)) (c : JitModel.config) (st : JitModel.state) (s : vms) (id off : Z) (kv kh : nat)
  : JitModel.state * JitModel.result * vms :=
  let '(st', r) := JitModel.release c st id off in
  match r with
  | JitModel.RRelease JitModel.Ok bid true =>
      match find (fun p => fst p =? bid) bm with
      | Some (_, h) => let '(_, s1, _, _) := vm_step okv okh (VDel h) s kv kh in (st', r, s1)
      | None => (st', r, s)
      end
  | _ => (st', r, s)
  end.

(* JitAllocator::shrink: a new size of 0 is a release (the block may be deleted, then its views go away as in jit_release); any
   other size only trims the span inside its block - the views and the block records are not touched *)
Definition jit_shrink (okv okh : nat -> bool) (bm : list (Z * nat)) (c : JitModel.config) (st : JitModel.state) (s : vms) (id off ns : Z) (kv kh : nat)
  : JitModel.state * JitModel.result * vms :=
  let '(st', r) := JitModel.shrink c st id off ns in
  if ns =? 0 then let '(_, _, s') := jit_release okv okh bm c st s id off kv kh in (st', r, s') else (st', r, s).

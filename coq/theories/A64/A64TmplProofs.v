(* C02 — proofs about the template codec (A64Tmpl.v). *)
From Coq Require Import ZArith List Bool Lia.
From Verif Require Import A64.A64Tmpl.
Import ListNotations.
Local Open Scope Z_scope.

Lemma item_wf_width : forall i, item_wf i = true -> 0 <= iwidth i.
Proof. destruct i; simpl; intros H; repeat (apply andb_prop in H; destruct H as [H ?]); lia. Qed.

Lemma twidth_nonneg : forall t, forallb item_wf t = true -> 0 <= twidth t.
Proof.
  induction t; simpl; intros H; [lia|]. apply andb_prop in H. destruct H as [H1 H2].
  pose proof (item_wf_width _ H1). specialize (IHt H2). lia.
Qed.

Lemma ival_range : forall e i, item_wf i = true -> 0 <= ival e i < 2 ^ iwidth i.
Proof.
  destruct i; simpl; intros H.
  - repeat (apply andb_prop in H; destruct H as [H ?]). lia.
  - apply andb_prop in H. destruct H. apply Z.mod_pos_bound. apply Z.pow_pos_nonneg; lia.
Qed.

Lemma tenc_range : forall t e, forallb item_wf t = true -> 0 <= tenc t e < 2 ^ twidth t.
Proof.
  induction t; simpl; intros e H. { lia. }
  apply andb_prop in H. destruct H as [H1 H2].
  pose proof (ival_range e _ H1) as Hi. pose proof (item_wf_width _ H1) as Hw.
  pose proof (twidth_nonneg _ H2) as Hs. specialize (IHt e H2).
  rewrite Z.pow_add_r by lia.
  assert (0 < 2 ^ twidth t) by (apply Z.pow_pos_nonneg; lia).
  assert (0 < 2 ^ iwidth a) by (apply Z.pow_pos_nonneg; lia). nia.
Qed.

Theorem tchunks_tenc : forall t e, forallb item_wf t = true -> tchunks t (tenc t e) = map (ival e) t.
Proof.
  induction t; simpl; intros e H. { reflexivity. }
  apply andb_prop in H. destruct H as [H1 H2].
  pose proof (ival_range e _ H1) as Hi. pose proof (tenc_range t e H2) as Hr.
  pose proof (twidth_nonneg _ H2) as Hs.
  assert (Hp : 0 < 2 ^ twidth t) by (apply Z.pow_pos_nonneg; lia).
  f_equal.
  - rewrite Z.div_add_l by lia. rewrite (Z.div_small (tenc t e)) by lia. rewrite Z.add_0_r. apply Z.mod_small. lia.
  - rewrite Z.add_comm, Z.mod_add by lia. rewrite Z.mod_small by lia. apply IHt. exact H2.
Qed.

Lemma fixed_ok_map : forall t e, fixed_ok t (map (ival e) t) = true.
Proof. induction t; simpl; intros; [reflexivity|]. destruct a; simpl; [rewrite Z.eqb_refl; simpl|]; apply IHt. Qed.

Lemma fval_map : forall t e f, fval t (map (ival e) t) f = ssum (slices t f) (lookup e f).
Proof.
  induction t; simpl; intros e f. { reflexivity. }
  destruct a; simpl. { apply IHt. }
  destruct (f0 =? f) eqn:E.
  - apply Z.eqb_eq in E. subst. simpl. unfold sterm. simpl. rewrite IHt. reflexivity.
  - rewrite IHt. reflexivity.
Qed.

Lemma ssum_ins : forall s l v, ssum (ins s l) v = sterm s v + ssum l v.
Proof. induction l; simpl; intros v. { reflexivity. } destruct (snd s <=? snd a); simpl; [reflexivity|]. rewrite IHl. lia. Qed.

Lemma ssum_isort : forall l v, ssum (isort l) v = ssum l v.
Proof. induction l; simpl; intros v. { reflexivity. } rewrite ssum_ins, IHl. reflexivity. Qed.

Lemma ssum_contig : forall l from W v, 0 <= from -> contig l from = Some W ->
  from <= W /\ v mod 2 ^ from + ssum l v = v mod 2 ^ W.
Proof.
  induction l; simpl; intros from W v Hf H.
  - inversion H. subst. split; lia.
  - destruct a as [hi lo]. destruct ((lo =? from) && (lo <=? hi)) eqn:E; [|discriminate].
    apply andb_prop in E. destruct E as [E1 E2]. apply Z.eqb_eq in E1. apply Z.leb_le in E2. subst lo.
    destruct (IHl (hi + 1) W v ltac:(lia) H) as [Hle Hs]. split; [lia|].
    rewrite <- Hs. unfold sterm. cbn [fst snd].
    assert (Hm : v mod 2 ^ (hi + 1) = v mod 2 ^ from + 2 ^ from * ((v / 2 ^ from) mod 2 ^ (hi - from + 1))).
    { replace (hi + 1) with (from + (hi - from + 1)) by lia. rewrite Z.pow_add_r by lia.
      apply Z.rem_mul_r; [apply Z.pow_nonzero; lia | apply Z.pow_pos_nonneg; lia]. }
    rewrite Hm. ring.
Qed.

Lemma field_ok_sum : forall t f W v, field_ok t (f, W) = true -> ssum (slices t f) v = v mod 2 ^ W.
Proof.
  unfold field_ok. simpl. intros t f W v H.
  destruct (contig (isort (slices t f)) 0) as [W'|] eqn:E; [|discriminate].
  apply Z.eqb_eq in H. subst W'.
  destruct (ssum_contig _ 0 W v ltac:(lia) E) as [_ Hs].
  rewrite ssum_isort in Hs. rewrite Z.pow_0_r, Z.mod_1_r in Hs. lia.
Qed.

(* The generic round trip: the word is a 32-bit value carrying the fixed bits of the template, every chunk is the chunk
   that was put in, and every field whose slices tile [0,W) is recovered modulo 2^W. *)
Theorem tmpl_roundtrip : forall t e, twf t = true ->
  let w := tenc t e in
  0 <= w < 2 ^ 32 /\ tmatch t w = true /\ tchunks t w = map (ival e) t /\
  forall f W, field_ok t (f, W) = true -> tfield t w f = lookup e f mod 2 ^ W.
Proof.
  intros t e H w. unfold twf in H. apply andb_prop in H. destruct H as [H1 H2]. apply Z.eqb_eq in H2.
  pose proof (tenc_range t e H1) as Hr. rewrite H2 in Hr.
  pose proof (tchunks_tenc t e H1) as Hc. fold w in Hr, Hc.
  split; [exact Hr|]. split.
  - unfold tmatch. rewrite Hc, fixed_ok_map.
    destruct Hr as [Ha Hb]. apply Z.leb_le in Ha. apply Z.ltb_lt in Hb. rewrite Ha, Hb. reflexivity.
  - split; [exact Hc|]. intros f W Hf. unfold tfield. rewrite Hc, fval_map. apply field_ok_sum. exact Hf.
Qed.

Corollary tmpl_field_exact : forall t e f W, twf t = true -> field_ok t (f, W) = true ->
  0 <= lookup e f < 2 ^ W -> tfield t (tenc t e) f = lookup e f.
Proof. intros t e f W H Hf Hr. destruct (tmpl_roundtrip t e H) as (_ & _ & _ & Hx). rewrite (Hx f W Hf). apply Z.mod_small. exact Hr. Qed.

(* two environments that agree on the fields of the template give the same word; different chunk lists give different words *)
Lemma tenc_inj_chunks : forall t e1 e2, forallb item_wf t = true -> tenc t e1 = tenc t e2 -> map (ival e1) t = map (ival e2) t.
Proof. intros t e1 e2 H E. rewrite <- (tchunks_tenc t e1 H), <- (tchunks_tenc t e2 H), E. reflexivity. Qed.

(* ---- fixed bits as a mask: tmask/tfixed (used by the table-agreement theorem) describe the same fixed bits as tmatch ---- *)
Lemma testbit_hi_lo : forall s h l n, 0 <= s -> 0 <= l < 2 ^ s -> 0 <= n ->
  Z.testbit (h * 2 ^ s + l) n = if n <? s then Z.testbit l n else Z.testbit h (n - s).
Proof.
  intros s h l n Hs Hl Hn.
  assert (E : h * 2 ^ s + l = Z.lor (Z.shiftl h s) l).
  { rewrite <- Z.shiftl_mul_pow2 by lia. rewrite <- Z.lxor_lor.
    - apply Z.add_nocarry_lxor. apply Z.bits_inj'. intros k Hk. rewrite Z.land_spec, Z.bits_0.
      destruct (Z_lt_ge_dec k s).
      + rewrite Z.shiftl_spec_low by lia. reflexivity.
      + rewrite <- (Z.mod_small l (2 ^ s)) by lia. rewrite Z.mod_pow2_bits_high by lia. apply andb_false_r.
    - apply Z.bits_inj'. intros k Hk. rewrite Z.land_spec, Z.bits_0.
      destruct (Z_lt_ge_dec k s).
      + rewrite Z.shiftl_spec_low by lia. reflexivity.
      + rewrite <- (Z.mod_small l (2 ^ s)) by lia. rewrite Z.mod_pow2_bits_high by lia. apply andb_false_r. }
  rewrite E, Z.lor_spec. destruct (n <? s) eqn:C.
  - apply Z.ltb_lt in C. rewrite Z.shiftl_spec_low by lia. reflexivity.
  - apply Z.ltb_ge in C. rewrite Z.shiftl_spec by lia.
    rewrite <- (Z.mod_small l (2 ^ s)) by lia. rewrite Z.mod_pow2_bits_high by lia. apply orb_false_r.
Qed.

Lemma land_hi_lo : forall s h1 l1 h2 l2, 0 <= s -> 0 <= l1 < 2 ^ s -> 0 <= l2 < 2 ^ s -> 0 <= Z.land l1 l2 < 2 ^ s ->
  Z.land (h1 * 2 ^ s + l1) (h2 * 2 ^ s + l2) = Z.land h1 h2 * 2 ^ s + Z.land l1 l2.
Proof.
  intros s h1 l1 h2 l2 Hs H1 H2 H3. apply Z.bits_inj'. intros n Hn.
  rewrite Z.land_spec, !testbit_hi_lo by assumption. destruct (n <? s); rewrite Z.land_spec; reflexivity.
Qed.

(* two words that agree with DIFFERENT fixed bits on a common mask position are different *)
Lemma fixed_conflict_disjoint : forall f1 m1 f2 m2 w1 w2, Z.land w1 m1 = f1 -> Z.land w2 m2 = f2 ->
  Z.land (Z.lxor f1 f2) (Z.land m1 m2) <> 0 -> w1 <> w2.
Proof.
  intros f1 m1 f2 m2 w1 w2 H1 H2 Hc E. subst w2 f1 f2. apply Hc.
  apply Z.bits_inj'. intros n Hn.
  rewrite Z.land_spec, Z.lxor_spec, !Z.land_spec, Z.bits_0.
  destruct (Z.testbit w1 n), (Z.testbit m1 n), (Z.testbit m2 n); reflexivity.
Qed.

Lemma tmask_range : forall t, forallb item_wf t = true -> 0 <= tmask t < 2 ^ twidth t.
Proof.
  induction t; simpl; intros H. { lia. }
  apply andb_prop in H. destruct H as [H1 H2]. specialize (IHt H2).
  pose proof (item_wf_width _ H1) as Hw. pose proof (twidth_nonneg _ H2) as Hs.
  assert (0 < 2 ^ twidth t) by (apply Z.pow_pos_nonneg; lia).
  destruct a; simpl in *.
  - rewrite Z.pow_add_r by lia. assert (0 < 2 ^ w) by (apply Z.pow_pos_nonneg; lia). nia.
  - rewrite Z.pow_add_r by lia. assert (0 < 2 ^ (hi - lo + 1)) by (apply Z.pow_pos_nonneg; lia). nia.
Qed.

(* every encoded word carries exactly tfixed on the positions of tmask, whatever the field values *)
Theorem tenc_fixed_bits : forall t e, forallb item_wf t = true -> Z.land (tenc t e) (tmask t) = tfixed t.
Proof.
  unfold tfixed. induction t; intros e H. { reflexivity. }
  cbn [forallb] in H. apply andb_prop in H. destruct H as [H1 H2].
  pose proof (twidth_nonneg _ H2) as Hs. pose proof (tenc_range t e H2) as Hr. pose proof (tenc_range t [] H2) as Hr0.
  pose proof (tmask_range t H2) as Hm. specialize (IHt e H2).
  destruct a; cbn [tenc tmask ival].
  - repeat (apply andb_prop in H1; destruct H1 as [H1 ?]).
    apply Z.leb_le in H1. match goal with X : (0 <=? v) = true |- _ => apply Z.leb_le in X end. match goal with X : (v <? 2 ^ w) = true |- _ => apply Z.ltb_lt in X end.
    rewrite land_hi_lo by (try assumption; rewrite IHt; assumption). rewrite IHt. f_equal. f_equal.
    replace (2 ^ w - 1) with (Z.ones w) by (rewrite Z.ones_equiv; lia). rewrite Z.land_ones by lia. apply Z.mod_small. lia.
  - replace (tmask t) with (0 * 2 ^ twidth t + tmask t) by lia.
    rewrite land_hi_lo by (try assumption; rewrite IHt; assumption). rewrite IHt, Z.land_0_r.
    cbn [lookup]. rewrite Z.div_0_l by (apply Z.pow_nonzero; cbn in H1; apply andb_prop in H1; destruct H1 as [X _]; apply Z.leb_le in X; lia).
    rewrite Z.mod_0_l by (apply Z.pow_nonzero; cbn in H1; apply andb_prop in H1; destruct H1 as [X Y]; apply Z.leb_le in X; apply Z.leb_le in Y; lia). reflexivity.
Qed.

(* hence a word that agrees with tfixed outside var agrees, outside var, with the fixed bits of EVERY word the template encodes *)
Corollary tword_agrees_enc : forall t e w var, forallb item_wf t = true -> tword_agrees t w var = true ->
  Z.land (Z.lxor w (Z.land (tenc t e) (tmask t))) (Z.land (tmask t) (4294967295 - var)) = 0.
Proof. intros t e w var H A. rewrite tenc_fixed_bits by exact H. unfold tword_agrees in A. apply Z.eqb_eq in A. exact A. Qed.

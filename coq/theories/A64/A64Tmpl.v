(* C02 — bit-template language for fixed-width (32-bit) AArch64 instruction words.  MODEL ONLY (no proofs here).
   A template is the list of items of a DB "op" string from the most significant bit down:
     TFixed w v      w literal bits with value v
     TField f hi lo  bits hi..lo of the value of field f  (a whole field of width W is TField f (W-1) 0)
   tenc packs an environment (field -> value) into a word, tchunks/tfield/tmatch take a word apart again. *)
From Coq Require Import ZArith List Bool.
Import ListNotations.
Local Open Scope Z_scope.

Inductive titem := TFixed (w v : Z) | TField (f hi lo : Z).
Definition tmpl := list titem.
Definition env := list (Z * Z).

Fixpoint lookup (e : env) (f : Z) : Z :=
  match e with [] => 0 | (k, v) :: r => if k =? f then v else lookup r f end.

Definition iwidth (i : titem) : Z := match i with TFixed w _ => w | TField _ hi lo => hi - lo + 1 end.
Fixpoint twidth (t : tmpl) : Z := match t with [] => 0 | i :: r => iwidth i + twidth r end.
Definition ival (e : env) (i : titem) : Z :=
  match i with TFixed _ v => v | TField f hi lo => (lookup e f / 2 ^ lo) mod 2 ^ (hi - lo + 1) end.

(* encoder *)
Fixpoint tenc (t : tmpl) (e : env) : Z :=
  match t with [] => 0 | i :: r => ival e i * 2 ^ (twidth r) + tenc r e end.

(* decoder: the chunk of every item, msb first *)
Fixpoint tchunks (t : tmpl) (w : Z) : list Z :=
  match t with [] => [] | i :: r => (w / 2 ^ (twidth r)) mod 2 ^ (iwidth i) :: tchunks r (w mod 2 ^ (twidth r)) end.

(* value of field f reassembled from the chunks (slices are added at their bit offset inside the field) *)
Fixpoint fval (t : tmpl) (cs : list Z) (f : Z) : Z :=
  match t, cs with
  | TField g hi lo :: r, c :: cr => (if g =? f then c * 2 ^ lo else 0) + fval r cr f
  | _ :: r, _ :: cr => fval r cr f
  | _, _ => 0
  end.
Definition tfield (t : tmpl) (w f : Z) : Z := fval t (tchunks t w) f.

Fixpoint fixed_ok (t : tmpl) (cs : list Z) : bool :=
  match t, cs with
  | TFixed _ v :: r, c :: cr => (c =? v) && fixed_ok r cr
  | _ :: r, _ :: cr => fixed_ok r cr
  | [], [] => true
  | _, _ => false
  end.
(* does word w carry the fixed bits of t? *)
Definition tmatch (t : tmpl) (w : Z) : bool := (0 <=? w) && (w <? 2 ^ 32) && fixed_ok t (tchunks t w).

(* well-formedness (checked by reflection for every generated row) *)
Definition item_wf (i : titem) : bool :=
  match i with TFixed w v => (0 <=? w) && (0 <=? v) && (v <? 2 ^ w) | TField _ hi lo => (0 <=? lo) && (lo <=? hi) end.
Definition twf (t : tmpl) : bool := forallb item_wf t && (twidth t =? 32).

(* slices (hi, lo) of field f in template order, and the check that they tile bits [0, W) of the field *)
Fixpoint slices (t : tmpl) (f : Z) : list (Z * Z) :=
  match t with
  | [] => []
  | TField g hi lo :: r => if g =? f then (hi, lo) :: slices r f else slices r f
  | _ :: r => slices r f
  end.
Fixpoint ins (s : Z * Z) (l : list (Z * Z)) : list (Z * Z) :=
  match l with [] => [s] | x :: r => if snd s <=? snd x then s :: l else x :: ins s r end.
Fixpoint isort (l : list (Z * Z)) : list (Z * Z) := match l with [] => [] | x :: r => ins x (isort r) end.
Fixpoint contig (l : list (Z * Z)) (from : Z) : option Z :=
  match l with
  | [] => Some from
  | (hi, lo) :: r => if (lo =? from) && (lo <=? hi) then contig r (hi + 1) else None
  end.
Definition field_ok (t : tmpl) (fw : Z * Z) : bool :=
  match contig (isort (slices t (fst fw))) 0 with Some W => W =? snd fw | None => false end.

(* fields mentioned by a template *)
Fixpoint tfields (t : tmpl) : list Z :=
  match t with [] => [] | TField f _ _ :: r => f :: tfields r | _ :: r => tfields r end.
Definition fields_declared (t : tmpl) (fws : list (Z * Z)) : bool :=
  forallb (fun f => existsb (fun fw => fst fw =? f) fws) (tfields t).
Definition row_tmpl_wf (t : tmpl) (fws : list (Z * Z)) : bool :=
  twf t && forallb (field_ok t) fws && fields_declared t fws.

(* sum of the slices of a value *)
Definition sterm (s : Z * Z) (v : Z) : Z := ((v / 2 ^ snd s) mod 2 ^ (fst s - snd s + 1)) * 2 ^ snd s.
Fixpoint ssum (l : list (Z * Z)) (v : Z) : Z := match l with [] => 0 | s :: r => sterm s v + ssum r v end.

(* fixed bits of a template as a word (all fields zero) and the mask of its fixed-bit positions; used to compare the opcode constants of
   the assembler's EncodingData tables with the database templates *)
Definition tfixed (t : tmpl) : Z := tenc t [].
Fixpoint tmask (t : tmpl) : Z :=
  match t with
  | [] => 0
  | TFixed w _ :: r => (2 ^ w - 1) * 2 ^ (twidth r) + tmask r
  | TField _ _ _ :: r => tmask r
  end.
(* word w agrees with the fixed bits of t outside the positions var (bits the encoding class ORs in itself: sf, Q, size, ...) *)
Definition tword_agrees (t : tmpl) (w var : Z) : bool :=
  Z.land (Z.lxor w (tfixed t)) (Z.land (tmask t) (4294967295 - var)) =? 0.

(* C02 — FMOV floating-point immediates: the two range guards kept in bind1/valid1 "so that ranges need no lemma" are discharged here:
   the imm8 encoding is always an 8-bit value and the double converted from a 32-bit integer is always a 64-bit pattern. PROOFS ONLY. *)
From Coq Require Import ZArith List Bool Lia.
From Verif Require Import A64.A64Tmpl A64.A64Sem A64.A64RefusalProofs Codec.ImmModel.
Import ListNotations.
Local Open Scope Z_scope.

Lemma lor_range : forall a b n, 0 <= n -> 0 <= a < 2 ^ n -> 0 <= b < 2 ^ n -> 0 <= Z.lor a b < 2 ^ n.
Proof.
  intros a b n Hn Ha Hb. split; [apply Z.lor_nonneg; lia|].
  destruct (Z.eq_dec a 0) as [->|Na]; [rewrite Z.lor_0_l; lia|].
  destruct (Z.eq_dec b 0) as [->|Nb]; [rewrite Z.lor_0_r; lia|].
  apply Z.log2_lt_pow2; [pose proof (Z.lor_nonneg a b); destruct (Z.eq_dec (Z.lor a b) 0) as [E|E]; [apply Z.lor_eq_0_iff in E; lia|lia]|].
  rewrite Z.log2_lor by lia. apply Z.max_lub_lt; apply Z.log2_lt_pow2; lia.
Qed.

Lemma land_pow2 : forall x n, 0 <= n -> Z.land x (2 ^ n) = if Z.testbit x n then 2 ^ n else 0.
Proof.
  intros x n Hn. apply Z.bits_inj'. intros m Hm. rewrite Z.land_spec, Z.pow2_bits_eqb by lia.
  destruct (Z.eqb_spec n m) as [->|Ne].
  - destruct (Z.testbit x m); [rewrite Z.pow2_bits_eqb by lia; rewrite Z.eqb_refl; reflexivity | rewrite Z.bits_0; reflexivity].
  - rewrite andb_false_r. destruct (Z.testbit x n); [rewrite Z.pow2_bits_eqb by lia; symmetry; apply Z.eqb_neq; exact Ne | rewrite Z.bits_0; reflexivity].
Qed.

Lemma enc_fp_range : forall nb nc nz v, 0 <= encode_fp_imm8 nb nc nz v < 256.
Proof.
  intros. unfold encode_fp_imm8. cbv zeta. apply (lor_range _ _ 8); [lia| |].
  - change 128 with (2 ^ 7). rewrite land_pow2 by lia. destruct (Z.testbit _ 7); change (2 ^ 7) with 128; change (2 ^ 8) with 256; lia.
  - change 127 with (Z.ones 7). rewrite Z.land_ones by lia. pose proof (Z.mod_pos_bound ((v / 2 ^ nz) mod 2 ^ 32) (2 ^ 7) eq_refl).
    change (2 ^ 7) with 128 in *. change (2 ^ 8) with 256. lia.
Qed.

Lemma int_to_f64_range : forall v, - 2 ^ 31 <= v < 2 ^ 31 -> v <> 0 -> 0 <= int_to_f64 v < 2 ^ 64.
Proof.
  intros v Hv Hn. unfold int_to_f64. cbv zeta.
  set (a := Z.abs v). assert (Ha : 1 <= a <= 2 ^ 31) by (subst a; change (2 ^ 31) with 2147483648 in *; lia).
  set (e := Z.log2 a). pose proof (Z.log2_spec a ltac:(lia)) as [L1 L2]. fold e in L1, L2.
  assert (He : 0 <= e <= 31).
  { split; [apply Z.log2_nonneg|]. subst e. destruct (Z.eq_dec a (2 ^ 31)) as [->|Ne]; [rewrite Z.log2_pow2; lia|].
    assert (Z.log2 a < 31) by (apply Z.log2_lt_pow2; lia). lia. }
  assert (T : 0 <= (a - 2 ^ e) * 2 ^ (52 - e) < 2 ^ 52).
  { assert (P : 0 < 2 ^ (52 - e)) by (apply Z.pow_pos_nonneg; lia). split; [apply Z.mul_nonneg_nonneg; lia|].
    replace (2 ^ 52) with (2 ^ e * 2 ^ (52 - e)) by (rewrite <- Z.pow_add_r by lia; f_equal; lia).
    apply Z.mul_lt_mono_pos_r; [exact P|]. replace (Z.succ e) with (e + 1) in L2 by lia. rewrite Z.pow_add_r in L2 by lia. lia. }
  change (2 ^ 52) with 4503599627370496 in *. change (2 ^ 63) with 9223372036854775808. change (2 ^ 64) with 18446744073709551616.
  destruct (v <? 0); lia.
Qed.

Lemma fimm_bits_range : forall p v, (256 <= p -> 0 <= v < 2 ^ 64) -> (p < 256 -> - 2 ^ 31 <= v < 2 ^ 31) -> 0 <= fimm_bits p v < 2 ^ 64.
Proof.
  intros p v H1 H2. unfold fimm_bits. destruct (256 <=? p) eqn:E.
  - apply Z.leb_le in E. auto.
  - apply Z.leb_gt in E. destruct (v =? 0) eqn:Z0; [change (2 ^ 64) with 18446744073709551616; lia|].
    apply Z.eqb_neq in Z0. apply int_to_f64_range; auto.
Qed.

(* the declarative validity of an FMOV immediate without the two vacuous guards *)
Theorem fp_imm_valid_clean : forall fa fd p v r,
  valid1 (SFpImm fa fd) (OImm p v :: r) <->
  ((256 <= p /\ 0 <= v < 2 ^ 64) \/ (p < 256 /\ - 2 ^ 31 <= v < 2 ^ 31)) /\ is_fp_imm8 9 6 48 (fimm_bits p v) = true.
Proof.
  intros. cbn [valid1]. split.
  - intros (A & B & C & _). split; [|exact C].
    destruct (Z_lt_ge_dec p 256) as [Hp|Hp].
    + right. split; [exact Hp|]. destruct A as [A|A]; [lia|exact A].
    + left. split; [lia|]. unfold fimm_bits in B. assert (E : (256 <=? p) = true) by (apply Z.leb_le; lia). rewrite E in B. exact B.
  - intros (A & C). split; [destruct A as [[A _]|[_ A]]; [left; exact A | right; exact A]|].
    split; [apply fimm_bits_range; destruct A as [[A1 A2]|[A1 A2]]; intros; try lia; assumption|].
    split; [exact C | apply enc_fp_range].
Qed.

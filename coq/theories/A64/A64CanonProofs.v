(* C02 — the canonical operands re-encode to the same fields: canonicalisation (canon1) preserves the encoding.  PROOFS ONLY. *)
From Coq Require Import ZArith List Bool Lia.
From Verif Require Import A64.A64Tmpl A64.A64Sem Codec.ImmModel.
Import ListNotations.
Local Open Scope Z_scope.

Ltac cases Hb :=
  repeat match type of Hb with
  | context[if ?c then _ else _] => let E := fresh "E" in destruct c eqn:E; try discriminate
  | context[match ?c with Some _ => _ | None => _ end] => let E := fresh "E" in destruct c eqn:E; try discriminate
  end.
Ltac reuse :=
  repeat match goal with
  | E : ?c = true |- context[if ?c then _ else _] => rewrite E
  | E : ?c = false |- context[if ?c then _ else _] => rewrite E
  | E : ?c = Some _ |- context[match ?c with Some _ => _ | None => _ end] => rewrite E
  end.

Lemma veclist_ops_ok : forall n rt et ei id rest, veclist n rt et ei id (veclist_ops n rt et ei id ++ rest) = Some rest.
Proof.
  induction n as [|k IH]; intros; cbn [veclist veclist_ops app]; [reflexivity|].
  rewrite !Z.eqb_refl. cbn [andb]. apply IH.
Qed.

Lemma veclist_head : forall k rt et ei id rest,
  veclist (S k) rt et ei id (OVec rt et ei id :: veclist_ops k rt et ei ((id + 1) mod 32) ++ rest) = Some rest.
Proof. intros. exact (veclist_ops_ok (S k) rt et ei id rest). Qed.

Lemma addimm_canon : forall fimm fn v sh e, addimm_bind fimm fn v sh = Some e ->
  (0 <=? v) && (v <=? 4095) = false -> sh = 0 /\ addimm_bind fimm fn (v / 4096) 1 = Some e.
Proof.
  intros fimm fn v sh e H R. unfold addimm_bind in H. rewrite R in H.
  destruct ((sh =? 0) && (0 <=? v) && (v mod 4096 =? 0) && (v / 4096 <=? 4095)) eqn:E; [|discriminate].
  inversion H; subst. repeat (apply andb_prop in E; destruct E as [E ?]).
  apply Z.eqb_eq in E. split; [exact E|]. unfold addimm_bind.
  assert (X : (0 <=? v / 4096) && (v / 4096 <=? 4095) = true).
  { apply andb_true_intro. split; [|assumption]. apply Z.leb_le. apply Z.div_pos; [apply Z.leb_le; assumption | reflexivity]. }
  rewrite X. reflexivity.
Qed.

Lemma ext_bind_canon : forall x frm fopt fn xm idm v,
  ext_bind x frm fopt fn xm idm (if x then 9 else 8) v = ext_bind x frm fopt fn xm idm 0 v.
Proof. intros. unfold ext_bind. destruct x; reflexivity. Qed.

Lemma canon1_bind1 : forall s ops e rest c rest', syn_canon_ok s = true ->
  bind1 s ops = Some (e, rest) -> canon1 s ops = Some (c, rest') ->
  rest' = rest /\ forall X, (syn_last s = true -> X = []) -> bind1 s (c ++ X) = Some (e, X).
Proof.
  intros s ops e rest c rest' Hok Hb Hc.
  destruct s; cbn [bind1 canon1 syn_canon_ok] in *.
  all: try (destruct ops as [|[] r]; try discriminate;
            try (destruct idx as [[? ?]|]; try discriminate);
            cases Hb; inversion Hb; subst; inversion Hc; subst; split; [reflexivity|]; intros X HX; cbn [app bind1]; reuse; reflexivity).
  - (* SCond *) destruct ops as [|[] r]; try discriminate. inversion Hc; subst.
    destruct inv; cases Hb; inversion Hb; subst; (split; [reflexivity|]); intros X HX; cbn [app]; reuse; reflexivity.
  - (* SShift *) destruct ops as [|o r].
    + inversion Hb; subst. inversion Hc; subst. split; [reflexivity|]. intros X HX. cbn [app].
      apply andb_prop in Hok. destruct Hok as [H1 H2]. change (0 <=? 0) with true. rewrite H1, H2. reflexivity.
    + destruct o; try discriminate. inversion Hc; subst. cases Hb; inversion Hb; subst. split; [reflexivity|]. intros X HX. cbn [app]. reuse. reflexivity.
  - (* SExtReg *) destruct ops as [|[] r]; try discriminate. destruct r as [|[] [|? ?]]; try discriminate.
    + inversion Hc; subst. cases Hb; inversion Hb; subst. split; [reflexivity|]. intros X HX. rewrite (HX eq_refl). cbn [app]. rewrite ext_bind_canon, E. reflexivity.
    + inversion Hc; subst. cases Hb; inversion Hb; subst. split; [reflexivity|]. intros X HX. rewrite (HX eq_refl). cbn [app].
      destruct (pred =? 0) eqn:P0; [apply Z.eqb_eq in P0; subst pred; rewrite ext_bind_canon, E; reflexivity | rewrite E; reflexivity].
  - (* SAddImm *) destruct ops as [|[] r]; try discriminate.
    assert (Other : forall r0, (match addimm_bind fimm fn v 0 with Some e0 => Some (e0, r0) | None => None end) = Some (e, rest) ->
                      (if (0 <=? v) && (v <=? 4095) then Some ([OImm 0 v; OImm 0 0], r0) else Some ([OImm 0 (v / 4096); OImm 0 12], r0)) = Some (c, rest') ->
                      rest' = rest /\ forall X, (syn_last (SAddImm fimm fn) = true -> X = []) -> bind1 (SAddImm fimm fn) (c ++ X) = Some (e, X)).
    { intros r0 Hb0 Hc0. destruct (addimm_bind fimm fn v 0) as [e0|] eqn:A; [|discriminate]. inversion Hb0; subst.
      destruct ((0 <=? v) && (v <=? 4095)) eqn:R; inversion Hc0; subst; (split; [reflexivity|]); intros X HX; cbn [app bind1].
      - change (0 =? 0) with true. cbn [andb orb]. rewrite A. reflexivity.
      - change (0 =? 0) with true. change (12 =? 0) with false. change (12 =? 12) with true. cbn [andb orb].
        destruct (addimm_canon _ _ _ _ _ A R) as [_ A2]. rewrite A2. reflexivity. }
    destruct r as [|[] r']; try (apply (Other _ Hb Hc)).
    destruct ((pred0 =? 0) && ((v0 =? 0) || (v0 =? 12))) eqn:E; [|discriminate].
    destruct (addimm_bind fimm fn v (if v0 =? 0 then 0 else 1)) as [e0|] eqn:A; [|discriminate]. inversion Hb; subst.
    apply andb_prop in E. destruct E as [_ E].
    cbv beta iota zeta in Hc.
    destruct ((0 <=? v) && (v <=? 4095)) eqn:R; inversion Hc; subst; (split; [reflexivity|]); intros X HX; cbn [app bind1].
    + change (0 =? 0) with true. cbn [andb]. rewrite E, A. reflexivity.
    + change (0 =? 0) with true. change (12 =? 0) with false. change (12 =? 12) with true. cbn [andb orb].
      destruct (addimm_canon _ _ _ _ _ A R) as [_ A2]. rewrite A2. reflexivity.
  - (* SMemBase *) destruct ops as [|[] r]; try discriminate. destruct idx; try discriminate. inversion Hc; subst.
    cases Hb; inversion Hb; subst. split; [reflexivity|]. intros X HX. cbn [app].
    repeat (apply andb_prop in E; destruct E as [E ?]). rewrite E, H2. reflexivity.
  - (* SMemPair *) destruct ops as [|[] r]; try discriminate. destruct idx; try discriminate. inversion Hc; subst.
    match type of Hb with (if ?c then _ else _) = _ => destruct c eqn:E; [|discriminate] end.
    cbv zeta in Hb. inversion Hb; subst. split; [reflexivity|]. intros X HX. cbn [app]. cbv zeta.
    repeat (apply andb_prop in E; destruct E as [E ?]).
    destruct (nf && (off =? 0)) eqn:N.
    + rewrite E, H3, H0, H. reflexivity.
    + rewrite E, H3, H2, H1, H0, H. reflexivity.
  - (* SMemIdx *) destruct ops as [|[] r]; try discriminate. destruct idx as [[xi i]|]; try discriminate. inversion Hc; subst.
    cbv zeta in Hb. match type of Hb with (if ?c then _ else _) = _ => destruct c eqn:E; [|discriminate] end.
    inversion Hb; subst. split; [reflexivity|]. intros X HX. cbn [app]. cbv zeta. rewrite E. reflexivity.
  - (* SLogImm *) destruct ops as [|[] r]; try discriminate. inversion Hc; subst. cbv zeta in Hb.
    destruct x.
    + match type of Hb with (if ?c then _ else _) = _ => destruct c eqn:E; [|discriminate] end.
      destruct (encode_logical_imm (v mod 2 ^ 64) 64) as [li|] eqn:EL; [|discriminate].
      match type of Hb with (if ?c then _ else _) = _ => destruct c eqn:E2; [|discriminate] end.
      inversion Hb; subst. split; [reflexivity|]. intros X HX. cbn [app]. cbv zeta.
      pose proof (Z.mod_pos_bound v (2 ^ 64) eq_refl) as R. change (2 ^ 64) with 18446744073709551616 in *.
      assert (G : (- 2 ^ 63 <=? v mod 18446744073709551616) && (v mod 18446744073709551616 <? 18446744073709551616) = true)
        by (apply andb_true_intro; split; [apply Z.leb_le; change (2 ^ 63) with 9223372036854775808; lia | apply Z.ltb_lt; lia]).
      rewrite G, Z.mod_mod by lia. rewrite EL, E2. reflexivity.
    + match type of Hb with (if ?c then _ else _) = _ => destruct c eqn:E; [|discriminate] end.
      destruct (encode_logical_imm (v mod 2 ^ 32) 32) as [li|] eqn:EL; [|discriminate].
      match type of Hb with (if ?c then _ else _) = _ => destruct c eqn:E2; [|discriminate] end.
      inversion Hb; subst. split; [reflexivity|]. intros X HX. cbn [app]. cbv zeta.
      pose proof (Z.mod_pos_bound v (2 ^ 32) eq_refl) as R. change (2 ^ 32) with 4294967296 in *.
      assert (G : (Z.opp 4294967296 <=? v mod 4294967296) && (v mod 4294967296 <? 4294967296) = true)
        by (apply andb_true_intro; split; [apply Z.leb_le; lia | apply Z.ltb_lt; lia]).
      rewrite G, Z.mod_mod by lia. rewrite EL, E2. reflexivity.
  - (* SBitfield *) destruct ops as [|[] r]; try discriminate.
    destruct (kind =? 2) eqn:K2.
    + inversion Hc; subst. cases Hb; inversion Hb; subst. split; [reflexivity|]. intros X HX. cbn [app]. reuse. reflexivity.
    + destruct r as [|[] r']; try discriminate. inversion Hc; subst. cases Hb; inversion Hb; subst; (split; [reflexivity|]); intros X HX; cbn [app]; reuse; reflexivity.
  - (* SMovW *) destruct ops as [|[] r]; try discriminate.
    destruct r as [|[] r']; inversion Hc; subst; cases Hb; inversion Hb; subst; (split; [reflexivity|]); intros X HX; cbn [app]; reuse; try reflexivity.
    all: try (change (0 =? 0) with true; cbn [andb orb]; reflexivity).
    apply andb_prop in E0. destruct E0 as [_ E0]. change (0 =? 0) with true. cbn [andb]. rewrite E0. reflexivity.
  - (* SVecList *) destruct ops as [|[] r]; try discriminate. cases Hb. inversion Hb; subst. try rewrite E0 in Hc. inversion Hc; subst.
    split; [reflexivity|]. intros X HX. destruct n as [|k]; [discriminate Hok|].
    cbn [veclist_ops app]. rewrite E. rewrite veclist_head. reflexivity.
  - (* SVShift *) destruct ops as [|[] r]; try discriminate. inversion Hc; subst.
    destruct lft; cases Hb; inversion Hb; subst; (split; [reflexivity|]); intros X HX; cbn [app]; reuse; reflexivity.
  - (* SGpPair *) destruct ops as [|[] [|[] r]]; try discriminate. inversion Hc; subst. cases Hb; inversion Hb; subst.
    split; [reflexivity|]. intros X HX. cbn [app]. reuse. reflexivity.
  - (* SFpImm *) destruct ops as [|[] r]; try discriminate. cbv zeta in Hb.
    match type of Hb with (if ?c then _ else _) = _ => destruct c eqn:E; [|discriminate] end.
    inversion Hb; subst. inversion Hc; subst. split; [reflexivity|]. intros X HX. cbn [app]. cbv zeta.
    replace (fimm_bits 256 (fimm_bits pred v)) with (fimm_bits pred v) by reflexivity.
    repeat (apply andb_prop in E; destruct E as [E ?]).
    change (256 <=? 256) with true. cbn [orb andb]. rewrite H2, H1, H0, H. cbn [andb]. rewrite H3. reflexivity.
  - (* SVecListElem *) destruct ops as [|[] r]; try discriminate. cases Hb. inversion Hb; subst. try rewrite E0 in Hc. inversion Hc; subst.
    split; [reflexivity|]. intros X HX. destruct n as [|k]; [discriminate Hok|].
    cbn [veclist_ops app]. rewrite E. rewrite veclist_head. reflexivity.
Qed.

Lemma canon_bind_same : forall ss ops e c, canon_row_ok ss = true -> bind ss ops = Some e -> canon ss ops = Some c -> bind ss c = Some e.
Proof.
  induction ss as [|s sr IH]; intros ops e c Hok Hb Hc; cbn [bind canon canon_row_ok] in *.
  - destruct ops; [|discriminate]. inversion Hc; subst. exact Hb.
  - apply andb_prop in Hok. destruct Hok as [Hok Hr]. apply andb_prop in Hok. destruct Hok as [Hs Hl].
    destruct (bind1 s ops) as [[e1 rest]|] eqn:B1; [|discriminate].
    destruct (bind sr rest) as [e2|] eqn:B2; [|discriminate]. inversion Hb; subst.
    destruct (canon1 s ops) as [[c1 rest']|] eqn:C1; [|discriminate].
    destruct (canon sr rest') as [cr|] eqn:C2; [|discriminate]. inversion Hc; subst.
    destruct (canon1_bind1 s ops e1 rest c1 rest' Hs B1 C1) as [-> HX].
    assert (L : syn_last s = true -> cr = []).
    { intros HL. rewrite HL in Hl. destruct sr; [|discriminate]. cbn in C2. inversion C2. reflexivity. }
    rewrite (HX cr L). rewrite (IH rest e2 cr Hr B2 C2). reflexivity.
Qed.

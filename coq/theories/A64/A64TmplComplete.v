(* C02 — completeness of the bit-template codec for templates whose fields are whole slices: every 32-bit word that carries the fixed
   bits of the template is the encoding of the field values read from it (tenc is onto the matching words).  PROOFS ONLY. *)
From Coq Require Import ZArith List Bool Lia.
From Verif Require Import A64.A64Tmpl A64.A64TmplProofs A64.A64Sem.
Import ListNotations.
Local Open Scope Z_scope.

(* positional recomposition of a word from its chunks *)
Fixpoint tjoin (t : tmpl) (cs : list Z) : Z :=
  match t, cs with i :: r, c :: cr => c * 2 ^ (twidth r) + tjoin r cr | _, _ => 0 end.

Lemma tenc_tjoin : forall t e, tenc t e = tjoin t (map (ival e) t).
Proof. induction t as [|i r IH]; intros e; cbn [tenc tjoin map]; [reflexivity | rewrite IH; reflexivity]. Qed.

Lemma tjoin_chunks : forall t w, forallb item_wf t = true -> 0 <= w < 2 ^ (twidth t) -> tjoin t (tchunks t w) = w.
Proof.
  induction t as [|i r IH]; intros w Hwf Hw; cbn [tjoin tchunks twidth forallb] in *.
  - change (2 ^ 0) with 1 in Hw. lia.
  - apply andb_prop in Hwf. destruct Hwf as [Hi Hr].
    pose proof (item_wf_width i Hi) as Wi. pose proof (twidth_nonneg r Hr) as Wr.
    assert (P : 0 < 2 ^ twidth r) by (apply Z.pow_pos_nonneg; lia).
    rewrite IH; [|exact Hr|apply Z.mod_pos_bound; exact P].
    rewrite Z.pow_add_r in Hw by lia.
    assert (Q : 0 <= w / 2 ^ twidth r < 2 ^ iwidth i).
    { split; [apply Z.div_pos; lia|]. apply Z.div_lt_upper_bound; [exact P|]. rewrite Z.mul_comm. lia. }
    rewrite (Z.mod_small _ _ Q). pose proof (Z.div_mod w (2 ^ twidth r) ltac:(lia)). lia.
Qed.

Lemma chunks_length : forall t w, length (tchunks t w) = length t.
Proof. induction t as [|i r IH]; intros w; cbn [tchunks length]; [reflexivity | rewrite IH; reflexivity]. Qed.

Lemma chunk_range : forall t w i c, forallb item_wf t = true -> In (i, c) (combine t (tchunks t w)) -> 0 <= c < 2 ^ iwidth i.
Proof.
  induction t as [|i0 r IH]; intros w i c Hwf Hin; cbn [tchunks combine forallb] in *; [destruct Hin|].
  apply andb_prop in Hwf. destruct Hwf as [Hi Hr]. destruct Hin as [E|Hin].
  - inversion E; subst. apply Z.mod_pos_bound. apply Z.pow_pos_nonneg; [lia | apply item_wf_width; exact Hi].
  - eapply IH; eauto.
Qed.

Lemma fval_notin : forall t cs f, ~ In f (tfields t) -> fval t cs f = 0.
Proof.
  induction t as [|i r IH]; intros cs f Hn; [destruct cs; reflexivity|].
  destruct cs as [|c cr]; [destruct i; reflexivity|]. destruct i as [w v|g hi lo]; cbn [fval tfields] in *.
  - apply IH. exact Hn.
  - destruct (g =? f) eqn:E; [apply Z.eqb_eq in E; subst; exfalso; apply Hn; left; reflexivity|].
    rewrite IH; [reflexivity|]. intros X. apply Hn. right. exact X.
Qed.

Lemma nodupb_cons : forall x l, nodupb (x :: l) = true -> ~ In x l /\ nodupb l = true.
Proof.
  intros x l H. cbn [nodupb] in H. apply andb_prop in H. destruct H as [H1 H2]. split; [|exact H2].
  apply negb_true_iff in H1. intros X. assert (existsb (Z.eqb x) l = true) by (apply existsb_exists; exists x; split; [exact X | apply Z.eqb_refl]). congruence.
Qed.

(* a field written as one whole slice, once: its value is the chunk at its position *)
Lemma fval_single : forall t cs f hi c, nodupb (tfields t) = true -> In (TField f hi 0, c) (combine t cs) -> fval t cs f = c.
Proof.
  induction t as [|i r IH]; intros cs f hi c Hnd Hin; [destruct Hin|].
  destruct cs as [|c0 cr]; [destruct Hin|]. cbn [combine] in Hin. destruct Hin as [E|Hin].
  - inversion E; subst. cbn [fval tfields] in *. rewrite Z.eqb_refl. destruct (nodupb_cons _ _ Hnd) as [Hn _].
    rewrite (fval_notin r cr f Hn). change (2 ^ 0) with 1. lia.
  - destruct i as [w v|g hi0 lo]; cbn [fval tfields] in *; [eapply IH; eauto|].
    destruct (nodupb_cons _ _ Hnd) as [Hn Hr].
    assert (Hf : In f (tfields r)).
    { clear -Hin. revert cr Hin. induction r as [|j r' IHr]; intros cr Hin; [destruct Hin|]. destruct cr as [|c1 cr']; [destruct Hin|].
      cbn [combine] in Hin. destruct Hin as [E|Hin]; [inversion E; subst; left; reflexivity|].
      destruct j; cbn [tfields]; [eapply IHr; eauto | right; eapply IHr; eauto]. }
    destruct (g =? f) eqn:E; [apply Z.eqb_eq in E; subst; contradiction|]. rewrite (IH cr f hi c Hr Hin). lia.
Qed.

Lemma lookup_map_in : forall (h : Z -> Z) l f, In f l -> lookup (map (fun x => (x, h x)) l) f = h f.
Proof.
  induction l as [|x r IH]; intros f Hin; [destruct Hin|]. cbn [map lookup].
  destruct (x =? f) eqn:E; [apply Z.eqb_eq in E; subst; reflexivity|]. destruct Hin as [->|Hin]; [rewrite Z.eqb_refl in E; discriminate|]. apply IH. exact Hin.
Qed.

(* chunk by chunk: the environment e reproduces the chunks *)
Lemma ival_chunks : forall t cs e, length cs = length t -> fixed_ok t cs = true -> forallb simple_item t = true ->
  (forall i c, In (i, c) (combine t cs) -> 0 <= c < 2 ^ iwidth i) ->
  (forall f hi c, In (TField f hi 0, c) (combine t cs) -> lookup e f = c) ->
  map (ival e) t = cs.
Proof.
  induction t as [|i r IH]; intros cs e Hl Hfx Hs Hr He; destruct cs as [|c cr]; try discriminate; [reflexivity|].
  cbn [map]. cbn [forallb] in Hs. apply andb_prop in Hs. destruct Hs as [Hi Hs]. f_equal.
  - destruct i as [w v|f hi lo]; cbn [ival fixed_ok simple_item] in *.
    + apply andb_prop in Hfx. destruct Hfx as [Hc _]. apply Z.eqb_eq in Hc. symmetry. exact Hc.
    + apply Z.eqb_eq in Hi. subst lo. rewrite (He f hi c (or_introl eq_refl)). change (2 ^ 0) with 1. rewrite Z.div_1_r.
      pose proof (Hr (TField f hi 0) c (or_introl eq_refl)) as R. cbn [iwidth] in R. replace (hi - 0 + 1) with (hi - 0 + 1) by lia.
      apply Z.mod_small. exact R.
  - apply IH.
    + cbn [length] in Hl. lia.
    + destruct i; cbn [fixed_ok] in Hfx; [apply andb_prop in Hfx; tauto | exact Hfx].
    + exact Hs.
    + intros j c' Hin. apply Hr. right. exact Hin.
    + intros f hi c' Hin. apply (He f hi c'). right. exact Hin.
Qed.

Lemma combine_tfield_in : forall t (cs : list Z) f hi lo c, In (TField f hi lo, c) (combine t cs) -> In f (tfields t).
Proof.
  induction t as [|j r IH]; intros cs f hi lo c Hin; [destruct Hin|]. destruct cs as [|c1 cr]; [destruct Hin|].
  cbn [combine] in Hin. destruct Hin as [E|Hin]; [inversion E; subst; left; reflexivity|].
  destruct j; cbn [tfields]; [eapply IH; eauto | right; eapply IH; eauto].
Qed.

Theorem tmpl_complete_simple : forall t w, forallb item_wf t = true -> twidth t = 32 -> tsimple t = true ->
  tmatch t w = true -> tenc t (env_of t w) = w.
Proof.
  intros t w Hwf H32 Hs Hm. unfold tsimple in Hs. apply andb_prop in Hs. destruct Hs as [Hs Hnd].
  unfold tmatch in Hm. apply andb_prop in Hm. destruct Hm as [Hm Hfx]. apply andb_prop in Hm. destruct Hm as [H0 H1].
  apply Z.leb_le in H0. apply Z.ltb_lt in H1.
  rewrite tenc_tjoin.
  rewrite (ival_chunks t (tchunks t w) (env_of t w)).
  - apply tjoin_chunks; [exact Hwf | rewrite H32; lia].
  - apply chunks_length.
  - exact Hfx.
  - exact Hs.
  - intros i c Hin. eapply chunk_range; eauto.
  - intros f hi c Hin. unfold env_of. rewrite (lookup_map_in (tfield t w) (tfields t) f (combine_tfield_in _ _ _ _ _ _ Hin)).
    unfold tfield. eapply fval_single; eauto.
Qed.

(* C02 — proofs about the operand semantics (A64Sem.v): every field value bound by an operand syntax lies in the range of its
   declared width; therefore every field is recovered exactly from the encoded word of a well-formed row. *)
From Coq Require Import ZArith List Bool Lia.
From Verif Require Import A64.A64Tmpl A64.A64TmplProofs A64.A64Sem Codec.ImmModel.
Import ListNotations.
Local Open Scope Z_scope.

Definition bound_ok (p q : Z * Z) : Prop := fst p = fst q /\ 0 <= snd p < 2 ^ snd q.
Definition env_ok (e : env) (decl : list (Z * Z)) : Prop := Forall2 bound_ok e decl.

Ltac b2p :=
  repeat match goal with
  | H : _ && _ = true |- _ => apply andb_prop in H; destruct H
  | H : (_ <=? _) = true |- _ => apply Z.leb_le in H
  | H : (_ <? _) = true |- _ => apply Z.ltb_lt in H
  | H : (_ =? _) = true |- _ => apply Z.eqb_eq in H
  | H : (_ <=? _) = false |- _ => apply Z.leb_gt in H
  | H : (_ <? _) = false |- _ => apply Z.ltb_ge in H
  | H : (_ =? _) = false |- _ => apply Z.eqb_neq in H
  end.

Lemma mod_range : forall a w, 0 <= w -> 0 <= a mod 2 ^ w < 2 ^ w.
Proof. intros. apply Z.mod_pos_bound. apply Z.pow_pos_nonneg; lia. Qed.

Lemma lxor1_range : forall c, 2 <= c <= 15 -> 0 <= Z.lxor (c - 2) 1 < 2 ^ 4.
Proof.
  intros c H.
  assert (E : c = 2 \/ c = 3 \/ c = 4 \/ c = 5 \/ c = 6 \/ c = 7 \/ c = 8 \/ c = 9 \/ c = 10 \/ c = 11 \/ c = 12 \/ c = 13 \/ c = 14 \/ c = 15) by lia.
  repeat (destruct E as [E | E]; [subst; vm_compute; split; congruence|]). subst. vm_compute. split; congruence.
Qed.

Lemma testbit_lt4 : forall k p, 0 <= k < 16 -> 0 <= p -> Z.testbit k p = true -> p < 4.
Proof.
  intros k p Hk Hp Ht. destruct (Z_lt_ge_dec p 4) as [|Hge]; [assumption|exfalso].
  destruct (Z.eq_dec k 0) as [->|Hn]. { rewrite Z.bits_0 in Ht. discriminate. }
  rewrite Z.bits_above_log2 in Ht; [discriminate|lia|].
  assert (Z.log2 k < 4). { apply Z.log2_lt_pow2; [lia|]. change (2 ^ 4) with 16. lia. } lia.
Qed.

Ltac fin := repeat (apply Forall2_cons; [unfold bound_ok; cbn [fst snd]; split; [reflexivity|] | ]); try apply Forall2_nil.

Lemma bind1_range : forall s ops e rest, syn_wf s = true -> bind1 s ops = Some (e, rest) -> env_ok e (syn_fields s).
Proof.
  intros s ops e rest Hwf H. unfold env_ok.
  destruct s; cbn [bind1 syn_fields syn_wf] in *.
  - (* SGp *) destruct ops as [|[] r]; try discriminate.
    destruct (Bool.eqb x x0 && gp_ok id hi); inversion H; subst. fin. change 32 with (2 ^ 5). apply mod_range. lia.
  - (* SImmU *) destruct ops as [|[] r]; try discriminate. unfold fits_u in H.
    destruct ((v mod scale =? 0) && ((0 <=? v / scale) && (v / scale <? 2 ^ w))) eqn:E; inversion H; subst. b2p. fin. lia.
  - (* SImmS *) destruct ops as [|[] r]; try discriminate.
    destruct (fits_s v w); inversion H; subst. b2p. fin. apply mod_range. lia.
  - (* SCond *) destruct ops as [|[] r]; try discriminate. destruct inv.
    + destruct ((2 <=? v) && (v <=? 15)) eqn:E; inversion H; subst. b2p. fin. apply lxor1_range. lia.
    + destruct ((0 <=? v) && (v <=? 15)) eqn:E; inversion H; subst. fin. change 16 with (2 ^ 4). apply mod_range. lia.
  - (* SShift *) destruct ops as [|[] r]; try discriminate.
    + inversion H; subst. fin; vm_compute; split; congruence.
    + destruct ((0 <=? pred) && Z.testbit kinds pred && (0 <=? v) && (v <? maxn)) eqn:E; inversion H; subst. b2p. fin.
      * change (2 ^ 2) with 4. pose proof (testbit_lt4 kinds pred ltac:(lia) ltac:(lia) ltac:(assumption)). lia.
      * change (2 ^ 6) with 64. lia.
  - (* SExtReg *) destruct ops as [|[] r]; try discriminate.
    assert (X : forall p v e0, ext_bind x frm fopt fn x0 id p v = Some e0 -> Forall2 bound_ok e0 [(frm, 5); (fopt, 3); (fn, 3)]).
    { intros p v e0 Hb. unfold ext_bind in Hb.
      match type of Hb with (if ?c then _ else _) = _ => destruct c eqn:E; inversion Hb; subst end. b2p.
      fin; [change 32 with (2 ^ 5); apply mod_range; lia | change (2 ^ 3) with 8; lia | change (2 ^ 3) with 8; lia]. }
    destruct r as [|[] [|? ?]]; try discriminate.
    + destruct (ext_bind x frm fopt fn x0 id 0 0) eqn:Eb; inversion H; subst. eapply X; eauto.
    + destruct (ext_bind x frm fopt fn x0 id pred v) eqn:Eb; inversion H; subst. eapply X; eauto.
  - (* SAddImm *) destruct ops as [|[] r]; try discriminate.
    assert (X : forall sh e0, 0 <= sh <= 1 -> addimm_bind fimm fn v sh = Some e0 -> Forall2 bound_ok e0 [(fimm, 12); (fn, 1)]).
    { intros sh e0 Hs Hb. unfold addimm_bind in Hb.
      repeat match type of Hb with context[if ?c then _ else _] => destruct c eqn:? end; inversion Hb; subst; b2p.
      all: fin; change (2 ^ 12) with 4096; change (2 ^ 1) with 2; try lia.
      split; [apply Z.div_pos; lia | lia]. }
    destruct r as [|[] r'].
    + destruct (addimm_bind fimm fn v 0) eqn:Eb; inversion H; subst. eapply (X 0); eauto. lia.
    + destruct (addimm_bind fimm fn v 0) eqn:Eb; inversion H; subst. eapply (X 0); eauto. lia.
    + destruct ((pred0 =? 0) && ((v0 =? 0) || (v0 =? 12))); try discriminate.
      destruct (addimm_bind fimm fn v (if v0 =? 0 then 0 else 1)) eqn:Eb; inversion H; subst.
      eapply (X (if v0 =? 0 then 0 else 1)); eauto. destruct (v0 =? 0); lia.
    + destruct (addimm_bind fimm fn v 0) eqn:Eb; inversion H; subst. eapply (X 0); eauto. lia.
    + destruct (addimm_bind fimm fn v 0) eqn:Eb; inversion H; subst. eapply (X 0); eauto. lia.
    + destruct (addimm_bind fimm fn v 0) eqn:Eb; inversion H; subst. eapply (X 0); eauto. lia.
    + destruct (addimm_bind fimm fn v 0) eqn:Eb; inversion H; subst. eapply (X 0); eauto. lia.
  - (* SRel *) destruct ops as [|[] r]; try discriminate.
    destruct ((disp mod scale =? 0) && fits_s (disp / scale) w); inversion H; subst. b2p. fin. apply mod_range. lia.
  - (* SMemBase *) destruct ops as [|[] r]; try discriminate. destruct idx; try discriminate.
    match type of H with (if ?c then _ else _) = _ => destruct c eqn:E; inversion H; subst end. b2p. fin. change (2 ^ 5) with 32. lia.
  - (* SMemOff *) destruct ops as [|[] r]; try discriminate. destruct idx; try discriminate.
    match type of H with (if ?c then _ else _) = _ => destruct c eqn:E; inversion H; subst end. b2p.
    fin; [change (2 ^ 5) with 32; lia | apply mod_range; lia].
  - (* SMemPair *) destruct ops as [|[] r]; try discriminate. destruct idx; try discriminate.
    match type of H with (if ?c then _ else _) = _ => destruct c eqn:E; inversion H; subst end. b2p.
    fin; [change (2 ^ 5) with 32; lia | apply mod_range; lia | | ].
    all: change (2 ^ 1) with 2; match goal with |- context[if ?c then _ else _] => destruct c end; lia.
  - (* SMemIdx *) destruct ops as [|[] r]; try discriminate. destruct idx as [[xi i]|]; try discriminate.
    match type of H with (if ?c then _ else _) = _ => destruct c eqn:E; inversion H; subst end. b2p.
    fin; [change (2 ^ 5) with 32; lia | change 32 with (2 ^ 5); apply mod_range; lia | | ].
    + change (2 ^ 3) with 8. repeat match goal with |- context[if ?c then _ else _] => destruct c end; lia.
    + change (2 ^ 1) with 2. match goal with |- context[if ?c then _ else _] => destruct c end; lia.
  - (* SMemLit *) destruct ops as [|[] r]; try discriminate.
    destruct ((disp mod 4 =? 0) && fits_s (disp / 4) w); inversion H; subst. b2p. fin. apply mod_range. lia.
  - (* SLogImm *) destruct ops as [|[] r]; try discriminate.
    match type of H with (if ?c then _ else _) = _ => destruct c; try discriminate end.
    match type of H with match ?m with Some _ => _ | None => _ end = _ => destruct m as [li|]; try discriminate end.
    unfold fits_u in H.
    match type of H with (if ?c then _ else _) = _ => destruct c eqn:E; inversion H; subst end. b2p. fin.
    change (2 ^ 1) with 2 in *. change (2 ^ 6) with 64 in *. change (2 ^ 13) with 8192. lia.
  - (* SGpDup *) destruct ops as [|[] r]; try discriminate.
    destruct (Bool.eqb x x0 && gp_ok id hi); inversion H; subst. fin; change 32 with (2 ^ 5); apply mod_range; lia.
  - (* SImmLt *) destruct ops as [|[] r]; try discriminate.
    destruct ((0 <=? v) && (v <? lim)) eqn:E; inversion H; subst. b2p. fin. lia.
  - (* SBitfield *) destruct ops as [|[] r]; try discriminate. b2p.
    assert (Hs : 0 < size <= 64) by (match goal with X : (_ =? 32) || (_ =? 64) = true |- _ => apply orb_prop in X; destruct X; b2p; lia end).
    change (2 ^ 6) with 64.
    destruct (kind =? 2).
    + destruct ((0 <=? v) && (v <? size)) eqn:E; inversion H; subst. b2p.
      fin; change (2 ^ 6) with 64; [pose proof (Z.mod_pos_bound (size - v) size ltac:(lia)); lia | lia].
    + destruct r as [|[] r']; try discriminate.
      destruct ((0 <=? v) && (v <? size) && (1 <=? v0) && (v0 <=? size - v)) eqn:E; try discriminate. b2p.
      destruct (kind =? 0); inversion H; subst; fin; change (2 ^ 6) with 64; try lia.
      pose proof (Z.mod_pos_bound (size - v) size ltac:(lia)); lia.
  - (* SMovW *) destruct ops as [|[] r]; try discriminate.
    destruct ((0 <=? v) && (v <=? 65535)) eqn:E; try discriminate. b2p.
    destruct r as [|[] r'].
    all: try (inversion H; subst; fin; [change (2 ^ 16) with 65536; lia | change (2 ^ 2) with 4; lia]).
    match type of H with (if ?c then _ else _) = _ => destruct c eqn:E2; inversion H; subst end.
    fin; [change (2 ^ 16) with 65536; lia | change (2 ^ 2) with 4].
    apply andb_prop in E2. destruct E2 as [_ E2].
    repeat (apply orb_prop in E2; destruct E2 as [E2|E2]); try (apply andb_prop in E2; destruct E2 as [_ E2]; apply orb_prop in E2; destruct E2 as [E2|E2]); b2p; subst; vm_compute; split; congruence.
  - (* SSysReg *) destruct ops as [|[] r]; try discriminate.
    destruct ((32768 <=? v) && (v <=? 65535)) eqn:E; inversion H; subst. b2p. fin. change (2 ^ 15) with 32768. lia.
  - (* SImmConst *) destruct ops as [|[] r]; try discriminate. destruct (v =? c); inversion H; subst. constructor.
  - (* SVec *) destruct ops as [|[] r]; try discriminate. unfold fits_u in H.
    match type of H with (if ?c then _ else _) = _ => destruct c eqn:E; inversion H; subst end. b2p. fin. lia.
  - (* SVecElem *) destruct ops as [|[] r]; try discriminate. unfold fits_u in H.
    match type of H with (if ?c then _ else _) = _ => destruct c eqn:E; inversion H; subst end. b2p. fin; lia.
  - (* SVecList *) destruct ops as [|[] r]; try discriminate. unfold fits_u in H.
    match type of H with (if ?c then _ else _) = _ => destruct c eqn:E; try discriminate end.
    match type of H with match ?m with Some _ => _ | None => _ end = _ => destruct m; inversion H; subst end. b2p. fin. lia.
  - (* SMemPostReg *) destruct ops as [|[] r]; try discriminate. destruct idx as [[xi i]|]; try discriminate.
    match type of H with (if ?c then _ else _) = _ => destruct c eqn:E; inversion H; subst end. b2p. fin; change (2 ^ 5) with 32; lia.
  - (* SMemPostImm *) destruct ops as [|[] r]; try discriminate. destruct idx; try discriminate.
    match type of H with (if ?c then _ else _) = _ => destruct c eqn:E; inversion H; subst end. b2p. fin. change (2 ^ 5) with 32. lia.
  - (* SVShift *) destruct ops as [|[] r]; try discriminate.
    assert (Hs : esize = 8 \/ esize = 16 \/ esize = 32 \/ esize = 64).
    { repeat (apply orb_prop in Hwf; destruct Hwf as [Hwf|Hwf]); b2p; lia. }
    destruct lft.
    all: match type of H with (if ?c then _ else _) = _ => destruct c eqn:E; inversion H; subst end; b2p; fin.
    all: change (2 ^ 4) with 16; change (2 ^ 3) with 8.
    all: destruct Hs as [Hs|[Hs|[Hs|Hs]]]; subst esize; Z.div_mod_to_equations; lia.
  - (* SSysOp *) destruct ops as [|[] r]; try discriminate.
    match type of H with (if ?c then _ else _) = _ => destruct c eqn:E; inversion H; subst end. b2p.
    fin; [change (2 ^ 3) with 8 | change (2 ^ 4) with 16 | change (2 ^ 3) with 8]; Z.div_mod_to_equations; lia.
  - (* SGpPair *) destruct ops as [|[] [|[] r]]; try discriminate.
    match type of H with (if ?c then _ else _) = _ => destruct c eqn:E; inversion H; subst end.
    repeat (apply andb_prop in E; destruct E as [E ?]). b2p. fin. change (2 ^ 5) with 32. lia.
  - (* SImmRsub *) destruct ops as [|[] r]; try discriminate.
    destruct ((lo <=? v) && (v <=? hi)) eqn:E; inversion H; subst. b2p. fin. lia.
  - (* SFpImm *) destruct ops as [|[] r]; try discriminate. cbv zeta in H.
    match type of H with (if ?c then _ else _) = _ => destruct c eqn:E; inversion H; subst end.
    repeat (apply andb_prop in E; destruct E as [E ?]).
    repeat match goal with X : (_ <=? _) = true |- _ => apply Z.leb_le in X | X : (_ <? _) = true |- _ => apply Z.ltb_lt in X end.
    fin; [change (2 ^ 3) with 8 | change (2 ^ 5) with 32]; Z.div_mod_to_equations; lia.
  - (* SVecListElem *) destruct ops as [|[] r]; try discriminate. unfold fits_u in H.
    match type of H with (if ?c then _ else _) = _ => destruct c eqn:E; try discriminate end.
    match type of H with match ?m with Some _ => _ | None => _ end = _ => destruct m; inversion H; subst end. b2p. fin; lia.
  - (* SImmAff *) destruct ops as [|[] r]; try discriminate. unfold fits_u in H.
    destruct (((v - base) mod step =? 0) && ((0 <=? (v - base) / step) && ((v - base) / step <? 2 ^ w))) eqn:E; inversion H; subst. b2p. fin. lia.
Qed.

(* pairwise disjointness: soundness of the reflective check (generic, no database constants) *)
Lemma sigs_pairwise_sound : forall ov sigs a b, sigs_pairwise_ok ov sigs = true -> In a sigs -> In b sigs -> sig_ok ov a b = true.
Proof.
  intros ov sigs a b H Ha Hb. unfold sigs_pairwise_ok in H. rewrite forallb_forall in H. specialize (H a Ha).
  rewrite forallb_forall in H. exact (H b Hb).
Qed.
Lemma sig_ok_sym : forall ov a b, sig_ok ov a b = sig_ok ov b a.
Proof.
  intros ov [[i1 f1] m1] [[i2 f2] m2]. unfold sig_ok, sig_conflict, in_overlap.
  rewrite (Z.eqb_sym i2 i1), (Z.lxor_comm f2 f1), (Z.land_comm m2 m1).
  destruct (i1 =? i2); [reflexivity|]. destruct (negb _); [reflexivity|].
  assert (E : forall l, existsb (fun p : Z * Z * Z => let '(a, b, _) := p in (a =? i1) && (b =? i2) || (a =? i2) && (b =? i1)) l =
                        existsb (fun p : Z * Z * Z => let '(a, b, _) := p in (a =? i2) && (b =? i1) || (a =? i1) && (b =? i2)) l).
  { induction l as [|[[a b] c] l IH]; cbn [existsb]; [reflexivity|]. rewrite IH. f_equal. apply orb_comm. }
  apply E.
Qed.

Lemma sigs_tails_sound : forall ov sigs a b, sigs_tails_ok ov sigs = true -> In a sigs -> In b sigs -> a = b \/ sig_ok ov a b = true.
Proof.
  induction sigs as [|x r IH]; intros a b H Ha Hb; [destruct Ha|].
  cbn [sigs_tails_ok] in H. apply andb_prop in H. destruct H as [Hx Hr]. rewrite forallb_forall in Hx.
  destruct Ha as [<-|Ha]; destruct Hb as [<-|Hb].
  - left. reflexivity.
  - right. apply Hx. exact Hb.
  - right. rewrite sig_ok_sym. apply Hx. exact Ha.
  - apply IH; assumption.
Qed.

Lemma sig_ok_cases : forall ov r1 r2, sig_ok ov (row_sig r1) (row_sig r2) = true ->
  r_id r1 = r_id r2 \/ sig_conflict (tfixed (r_tmpl r1)) (tmask (r_tmpl r1)) (tfixed (r_tmpl r2)) (tmask (r_tmpl r2)) = true \/
  in_overlap ov (r_id r1) (r_id r2) = true.
Proof.
  intros ov r1 r2 H. unfold row_sig, sig_ok in H.
  destruct (r_id r1 =? r_id r2) eqn:E; [left; apply Z.eqb_eq; exact E|].
  destruct (sig_conflict (tfixed (r_tmpl r1)) (tmask (r_tmpl r1)) (tfixed (r_tmpl r2)) (tmask (r_tmpl r2))); [right; left; reflexivity | right; right; exact H].
Qed.

Lemma bind_range : forall ss ops e, forallb syn_wf ss = true -> bind ss ops = Some e -> env_ok e (flat_map syn_fields ss).
Proof.
  induction ss as [|s sr IH]; intros ops e Hwf H; cbn [bind flat_map] in *.
  - destruct ops; inversion H. constructor.
  - apply andb_prop in Hwf. destruct Hwf as [Hs Hr].
    destruct (bind1 s ops) as [[e1 rest]|] eqn:E1; try discriminate.
    destruct (bind sr rest) as [e2|] eqn:E2; inversion H; subst.
    apply Forall2_app; [eapply bind1_range; eauto | eapply IH; eauto].
Qed.

Lemma env_ok_names : forall e d, env_ok e d -> map fst e = map fst d.
Proof. induction 1; cbn; [reflexivity|]. destruct H as [H _]. rewrite H, IHForall2. reflexivity. Qed.

Lemma env_ok_in : forall e d f v, env_ok e d -> In (f, v) e -> exists W, In (f, W) d /\ 0 <= v < 2 ^ W.
Proof.
  induction 1; intros Hin; [destruct Hin|]. destruct Hin as [Hx|Hx].
  - subst x. destruct H as [Hn Hr]. cbn in *. exists (snd y). split; [left; destruct y; cbn in *; congruence | exact Hr].
  - destruct (IHForall2 Hx) as [W [Hi Hr]]. exists W. split; [right; exact Hi | exact Hr].
Qed.

Lemma existsb_eqb_in : forall x l, existsb (Z.eqb x) l = true -> In x l.
Proof. intros x l H. apply existsb_exists in H. destruct H as [y [Hy E]]. apply Z.eqb_eq in E. subst. exact Hy. Qed.

Lemma lookup_in : forall e f v, nodupb (map fst e) = true -> In (f, v) e -> lookup e f = v.
Proof.
  induction e as [|[k x] r IH]; intros f v Hn Hin; [destruct Hin|]. cbn in *.
  apply andb_prop in Hn. destruct Hn as [Hk Hr]. destruct Hin as [Hx|Hx].
  - inversion Hx; subst. rewrite Z.eqb_refl. reflexivity.
  - destruct (k =? f) eqn:E.
    + apply Z.eqb_eq in E. subst k. exfalso.
      assert (Hi : In f (map fst r)) by (change f with (fst (f, v)); apply in_map; exact Hx).
      apply negb_true_iff in Hk. assert (existsb (Z.eqb f) (map fst r) = true).
      { apply existsb_exists. exists f. split; [exact Hi | apply Z.eqb_refl]. } congruence.
    + apply IH; assumption.
Qed.

Lemma pair_eqb_in : forall p l, existsb (pair_eqb p) l = true -> In p l.
Proof.
  intros [a b] l H. apply existsb_exists in H. destruct H as [[c d] [Hy E]]. unfold pair_eqb in E. cbn in E.
  apply andb_prop in E. destruct E as [E1 E2]. apply Z.eqb_eq in E1. apply Z.eqb_eq in E2. subst. exact Hy.
Qed.

(* Main consequence: for a well-formed row every field value bound from the operands is read back exactly from the word. *)
Theorem spec_row_fields_recovered : forall r ops w, row_wf r = true -> spec_row r ops = Some w ->
  0 <= w < 2 ^ 32 /\ tmatch (r_tmpl r) w = true /\
  exists e, bind (r_ops r) ops = Some e /\ w = tenc (r_tmpl r) e /\ forall f v, In (f, v) e -> tfield (r_tmpl r) w f = v.
Proof.
  intros r ops w Hwf H. unfold spec_row in H. destruct (bind (r_ops r) ops) as [e|] eqn:Eb; inversion H; subst. clear H.
  unfold row_wf in Hwf.
  apply andb_prop in Hwf. destruct Hwf as [Hwf Hnd].
  apply andb_prop in Hwf. destruct Hwf as [Hwf Hlen].
  apply andb_prop in Hwf. destruct Hwf as [Hwf Hback].
  apply andb_prop in Hwf. destruct Hwf as [Hwf Hfw].
  apply andb_prop in Hwf. destruct Hwf as [Hwf Hsyn].
  unfold row_tmpl_wf in Hwf.
  apply andb_prop in Hwf. destruct Hwf as [Hwf Hdecl].
  apply andb_prop in Hwf. destruct Hwf as [Hwf Hfok].
  destruct (tmpl_roundtrip (r_tmpl r) e Hwf) as (Hr & Hm & _ & _).
  split; [exact Hr|]. split; [exact Hm|]. exists e. split; [reflexivity|]. split; [reflexivity|].
  intros f v Hin.
  pose proof (bind_range _ _ _ Hsyn Eb) as Hok.
  destruct (env_ok_in _ _ f v Hok Hin) as [W [HiW Hrange]].
  assert (HinF : In (f, W) (r_fields r)).
  { apply pair_eqb_in. rewrite forallb_forall in Hfw. apply Hfw. exact HiW. }
  assert (Hf : field_ok (r_tmpl r) (f, W) = true) by (rewrite forallb_forall in Hfok; apply Hfok; exact HinF).
  assert (Hl : lookup e f = v). { apply lookup_in; [|exact Hin]. rewrite (env_ok_names _ _ Hok). exact Hnd. }
  rewrite (tmpl_field_exact (r_tmpl r) e f W Hwf Hf); [exact Hl | rewrite Hl; exact Hrange].
Qed.

(* C02 — refusal is exact: the specification refuses operands exactly when one of them is outside the architectural range of its
   operand syntax (stated declaratively, in Prop) — for the syntaxes listed in syn_inv. *)
From Coq Require Import ZArith List Bool Lia.
From Verif Require Import A64.A64Tmpl A64.A64Sem A64.A64SemProofs Codec.ImmModel Codec.LogImmSound.
Import ListNotations.
Local Open Scope Z_scope.

(* n consecutive registers (modulo 32) of one view / arrangement, without lane *)
Fixpoint veclist_P (n : nat) (rt et ei id : Z) (ops : list operand) : Prop :=
  match n with
  | O => True
  | S k => match ops with
           | OVec rt' et' ei' id' :: r => rt' = rt /\ et' = et /\ ei' = ei /\ id' = id /\ veclist_P k rt et ei ((id + 1) mod 32) r
           | _ => False
           end
  end.

(* declarative validity of the operand(s) at the head of the list for one syntax element *)
Definition valid1 (s : opsyn) (ops : list operand) : Prop :=
  match s, ops with
  | SGp x hi f, OGp x' id :: _ => x = x' /\ (0 <= id <= 30 \/ id = hi)                    (* right width; id 0..30 or the allowed SP/ZR id *)
  | SImmU f w sc, OImm _ v :: _ => v mod sc = 0 /\ 0 <= v / sc < 2 ^ w                     (* multiple of the scale, fits w bits unsigned *)
  | SImmS f w, OImm _ v :: _ => - 2 ^ (w - 1) <= v < 2 ^ (w - 1)                          (* fits w bits signed *)
  | SCond f inv, OImm _ c :: _ => if inv then 2 <= c <= 15 else 0 <= c <= 15              (* a condition code; AL/NV excluded for CINC/CSET *)
  | SShift _ _ kinds maxn, [] => True                                                      (* shift omitted *)
  | SShift _ _ kinds maxn, OImm p v :: _ => 0 <= p /\ Z.testbit kinds p = true /\ 0 <= v < maxn   (* allowed kind, amount below the register width *)
  | SRel f w sc, ORel d :: _ => d mod sc = 0 /\ - 2 ^ (w - 1) <= d / sc < 2 ^ (w - 1)     (* aligned, within the signed range *)
  | SMemBase _, OMem b None _ _ off mode :: _ => 0 <= b <= 31 /\ off = 0 /\ 0 <= mode <= 2
  | SMemOff _ _ w sgn sc mode, OMem b None _ _ off m :: _ =>
      0 <= b <= 31 /\ m = mode /\ off mod sc = 0 /\
      (if sgn then - 2 ^ (w - 1) <= off / sc < 2 ^ (w - 1) else 0 <= off / sc < 2 ^ w)    (* aligned offset inside the field's range *)
  | SMemLit _ w, OLit d :: _ => d mod 4 = 0 /\ - 2 ^ (w - 1) <= d / 4 < 2 ^ (w - 1)
  | SVec rt et _ w, OVec rt' et' ei id :: _ => rt' = rt /\ et' = et /\ ei = -1 /\ 0 <= id < 2 ^ w      (* right view/arrangement, no lane, id 0..31 *)
  | SVecElem et _ w _ _ lanes, OVec rt' et' ei id :: _ => rt' = 4 /\ et' = et /\ 0 <= ei < lanes /\ 0 <= id < 2 ^ w   (* lane inside the vector *)
  | SGpDup x hi _ _, OGp x' id :: _ => x = x' /\ (0 <= id <= 30 \/ id = hi)
  | SImmLt _ _ lim, OImm _ v :: _ => 0 <= v < lim
  | SImmRsub _ _ _ lo hi, OImm _ v :: _ => lo <= v <= hi
  | SImmAff _ w base step, OImm _ v :: _ => (v - base) mod step = 0 /\ 0 <= (v - base) / step < 2 ^ w
  | SFpImm _ _, OImm p v :: _ =>          (* a double Imm (or an int32 Imm) whose value is one of the 256 imm8 numbers *)
      (256 <= p \/ - 2 ^ 31 <= v < 2 ^ 31) /\ 0 <= fimm_bits p v < 2 ^ 64 /\ is_fp_imm8 9 6 48 (fimm_bits p v) = true /\
      0 <= encode_fp_imm8 9 6 48 (fimm_bits p v) < 256
  | SSysReg _, OImm _ v :: _ => 32768 <= v <= 65535
  | SImmConst c, OImm _ v :: _ => v = c
  | SMemPostImm _ imm, OMem b None _ _ off m :: _ => 0 <= b <= 31 /\ off = imm /\ m = 2
  | SMemPostReg _ _, OMem b (Some (xi, i)) sop sh off m :: _ =>
      0 <= b <= 31 /\ xi = true /\ 0 <= i <= 30 /\ sop = 0 /\ sh = 0 /\ off = 0 /\ m = 2
  | SMemPair _ _ w sc _ _ _, OMem b None _ _ off m :: _ =>
      0 <= b <= 31 /\ 0 <= m <= 2 /\ off mod sc = 0 /\ - 2 ^ (w - 1) <= off / sc < 2 ^ (w - 1)
  | SMemIdx _ _ _ _ amount, OMem b (Some (xi, i)) sop sh off m :: _ =>
      0 <= b <= 31 /\ (sop = 8 \/ sop = 0 \/ sop = 12 \/ sop = 13) /\                 (* uxtw | lsl | sxtw | sxtx *)
      xi = ((sop =? 0) || (sop =? 13)) /\ (0 <= i <= 30 \/ i = 63) /\ off = 0 /\ m = 0 /\ (sh = 0 \/ sh = amount)
  | SVShift lft esize _ _, OImm _ n :: _ => if lft then 0 <= n < esize else 1 <= n <= esize    (* left: 0..esize-1, right: 1..esize *)
  | SMovW x _ _, OImm _ v :: r =>
      0 <= v <= 65535 /\
      match r with OImm p s :: _ => p = 0 /\ (s = 0 \/ s = 16 \/ (x = true /\ (s = 32 \/ s = 48))) | _ => True end
  | SBitfield kind size _ _, OImm _ a :: r =>
      if kind =? 2 then 0 <= a < size
      else match r with OImm _ w :: _ => 0 <= a < size /\ 1 <= w <= size - a | _ => False end   (* the field lies inside the register *)
  | SAddImm _ _, OImm _ v :: r =>
      match r with
      | OImm p s :: _ => p = 0 /\ (s = 0 \/ s = 12) /\ (0 <= v <= 4095 \/ (s = 0 /\ 0 <= v /\ v mod 4096 = 0 /\ v / 4096 <= 4095))
      | _ => 0 <= v <= 4095 \/ (0 <= v /\ v mod 4096 = 0 /\ v / 4096 <= 4095)
      end
  | SExtReg x _ _ _, OGp xm idm :: r =>
      let ok p v := let opt := if p =? 0 then (if x then 3 else 2) else p - 6 in
                    (p = 0 \/ 6 <= p <= 13) /\ 0 <= v <= 4 /\ xm = ((opt =? 3) || (opt =? 7)) /\ (x = true \/ xm = false) /\ (0 <= idm <= 30 \/ idm = 63) in
      match r with [] => ok 0 0 | [OImm p v] => ok p v | _ => False end
  | SLogImm x _, OImm _ v :: _ =>
      let width := if x then 64 else 32 in
      (if x then - 2 ^ 63 <= v < 2 ^ 64 else - 2 ^ 32 <= v < 2 ^ 32) /\
      exists n s r, 0 <= n < 2 /\ 0 <= s < 64 /\ 0 <= r < 64 /\ decode_bit_masks width n s r = Some (v mod 2 ^ width)   (* a bitmask immediate *)
  | SVecList n rt et _, OVec _ _ _ id :: _ => 0 <= id < 32 /\ veclist_P n rt et (-1) id ops
  | SVecListElem n et _ _ _ lanes, OVec _ _ ei id :: _ =>        (* n consecutive registers, all with the same lane inside the vector *)
      0 <= id < 32 /\ 0 <= ei < lanes /\ veclist_P n 4 et ei id ops
  | SSysOp _ _ _ crn, OImm _ v :: _ => 0 <= v < 16384 /\ (v / 128) mod 16 = crn          (* a 14-bit op1:CRn:CRm:op2 id with the instruction's CRn *)
  | SGpPair x _, OGp x1 id1 :: OGp x2 id2 :: _ =>
      x = x1 /\ x = x2 /\ 0 <= id1 <= 30 /\ Z.even id1 = true /\ id2 = (if id1 =? 30 then 63 else id1 + 1)   (* even first register, consecutive partner *)
  | _, _ => False
  end.

Definition consume (s : opsyn) (ops : list operand) : list operand :=
  match s, ops with
  | SShift _ _ _ _, [] => []
  | (SMovW _ _ _ | SAddImm _ _), OImm _ _ :: OImm _ _ :: r => r
  | SBitfield kind _ _ _, _ :: r => if kind =? 2 then r else tl r
  | SExtReg _ _ _ _, _ => []
  | SVecList n _ _ _, _ => skipn n ops
  | SVecListElem n _ _ _ _ _, _ => skipn n ops
  | SGpPair _ _, _ :: _ :: r => r
  | _, _ :: r => r
  | _, [] => []
  end.

Fixpoint ops_valid (ss : list opsyn) (ops : list operand) : Prop :=
  match ss with
  | [] => ops = []
  | s :: sr => valid1 s ops /\ ops_valid sr (consume s ops)
  end.

Ltac p2b :=
  repeat match goal with
  | |- _ && _ = true => apply andb_true_intro; split
  | |- (_ <=? _) = true => apply Z.leb_le
  | |- (_ <? _) = true => apply Z.ltb_lt
  | |- (_ =? _) = true => apply Z.eqb_eq
  end.

Lemma gp_ok_iff : forall id hi, gp_ok id hi = true <-> (0 <= id <= 30 \/ id = hi).
Proof.
  intros. unfold gp_ok. rewrite orb_true_iff, andb_true_iff, Z.leb_le, Z.leb_le, Z.eqb_eq. tauto.
Qed.
Lemma fits_s_iff : forall v w, fits_s v w = true <-> - 2 ^ (w - 1) <= v < 2 ^ (w - 1).
Proof. intros. unfold fits_s. rewrite andb_true_iff, Z.leb_le, Z.ltb_lt. tauto. Qed.
Lemma fits_u_iff : forall v w, fits_u v w = true <-> 0 <= v < 2 ^ w.
Proof. intros. unfold fits_u. rewrite andb_true_iff, Z.leb_le, Z.ltb_lt. tauto. Qed.


Lemma none_from_some : forall (o : option (env * list operand)) rest (P : Prop),
  ((exists e, o = Some (e, rest)) <-> P) -> (forall e r', o = Some (e, r') -> r' = rest) ->
  ((exists e, o = Some (e, rest)) <-> P) /\ (o = None <-> ~ P).
Proof.
  intros o rest P H U. split; [exact H|]. destruct o as [[e r']|].
  - pose proof (U e r' eq_refl) as ->. split; [discriminate | intros N; exfalso; apply N; apply H; exists e; reflexivity].
  - split; [intros _ X; apply H in X; destruct X as [e X]; discriminate | reflexivity].
Qed.

Lemma addimm_iff : forall fimm fn v sh,
  (exists e, addimm_bind fimm fn v sh = Some e) <-> (0 <= v <= 4095 \/ (sh = 0 /\ 0 <= v /\ v mod 4096 = 0 /\ v / 4096 <= 4095)).
Proof.
  intros. unfold addimm_bind. destruct ((0 <=? v) && (v <=? 4095)) eqn:E1.
  - b2p. split; [intros _; left; lia | intros _; eexists; reflexivity].
  - destruct ((sh =? 0) && (0 <=? v) && (v mod 4096 =? 0) && (v / 4096 <=? 4095)) eqn:E2.
    + b2p. split; [intros _; right; tauto | intros _; eexists; reflexivity].
    + split; [intros [e X]; discriminate|]. intros [A|(A & B & C & D)].
      * assert ((0 <=? v) && (v <=? 4095) = true) by (apply andb_true_intro; split; [apply Z.leb_le | apply Z.leb_le]; lia). congruence.
      * assert ((sh =? 0) && (0 <=? v) && (v mod 4096 =? 0) && (v / 4096 <=? 4095) = true).
        { repeat (apply andb_true_intro; split); [apply Z.eqb_eq | apply Z.leb_le | apply Z.eqb_eq | apply Z.leb_le]; assumption. } congruence.
Qed.

Lemma ext_iff : forall x frm fopt fn xm idm p v,
  (exists e, ext_bind x frm fopt fn xm idm p v = Some e) <->
  (let opt := if p =? 0 then (if x then 3 else 2) else p - 6 in
   (p = 0 \/ 6 <= p <= 13) /\ 0 <= v <= 4 /\ xm = ((opt =? 3) || (opt =? 7)) /\ (x = true \/ xm = false) /\ (0 <= idm <= 30 \/ idm = 63)).
Proof.
  intros. unfold ext_bind. cbv zeta.
  set (opt := if p =? 0 then if x then 3 else 2 else p - 6).
  match goal with |- (exists e, (if ?c then _ else _) = _) <-> _ => destruct c eqn:E end.
  - split; [|intros _; eexists; reflexivity]. intros _.
    repeat (apply andb_prop in E; destruct E as [E ?]).
    match goal with Y : gp_ok _ _ = true |- _ => apply gp_ok_iff in Y end.
    match goal with Y : Bool.eqb _ _ = true |- _ => apply Bool.eqb_prop in Y end.
    match goal with Y : (p =? 0) || (6 <=? p) = true |- _ => apply orb_prop in Y; rename Y into Hp end.
    match goal with Y : x || negb xm = true |- _ => apply orb_prop in Y; rename Y into Hx end.
    b2p. repeat split; try assumption; try lia.
    + destruct Hp as [Hp|Hp]; b2p; [left; assumption|right]. subst opt. destruct (p =? 0) eqn:P0; b2p; lia.
    + destruct Hx as [Hx|Hx]; [left; assumption | right; apply negb_true_iff in Hx; assumption].
  - split; [intros [e X]; discriminate|]. intros (Hp & Hv & Hxm & Hx & Hid). exfalso.
    assert (C : (0 <=? opt) && (opt <=? 7) && ((p =? 0) || (6 <=? p)) && (0 <=? v) && (v <=? 4) && Bool.eqb xm ((opt =? 3) || (opt =? 7)) && (x || negb xm) && gp_ok idm 63 = true).
    { repeat (apply andb_true_intro; split).
      - apply Z.leb_le. subst opt. destruct (p =? 0) eqn:P0; [destruct x; lia | b2p; lia].
      - apply Z.leb_le. subst opt. destruct (p =? 0) eqn:P0; [destruct x; lia | b2p; lia].
      - apply orb_true_iff. destruct Hp as [Hp|Hp]; [left; apply Z.eqb_eq; assumption | right; apply Z.leb_le; lia].
      - apply Z.leb_le; lia.
      - apply Z.leb_le; lia.
      - rewrite <- Hxm. apply Bool.eqb_reflx.
      - apply orb_true_iff. destruct Hx as [Hx|Hx]; [left; assumption | right; rewrite Hx; reflexivity].
      - apply gp_ok_iff. assumption. }
    congruence.
Qed.

Lemma veclist_iff : forall n rt et ei id ops,
  ((exists r, veclist n rt et ei id ops = Some r) <-> veclist_P n rt et ei id ops) /\
  (forall r, veclist n rt et ei id ops = Some r -> r = skipn n ops).
Proof.
  induction n as [|k IH]; intros rt et ei id ops; cbn [veclist veclist_P skipn].
  - split; [split; [tauto | intros _; eexists; reflexivity] | intros r H; inversion H; reflexivity].
  - destruct ops as [|[] r0]; try (split; [split; [intros [r X]; discriminate | tauto] | discriminate]).
    destruct ((rt0 =? rt) && (et0 =? et) && (ei0 =? ei) && (id0 =? id)) eqn:E.
    + b2p. subst. destruct (IH rt et ei ((id + 1) mod 32) r0) as [I1 I2]. split; [|exact I2].
      split; [intros X; apply I1 in X; tauto | intros (_ & _ & _ & _ & X); apply I1; exact X].
    + split; [|discriminate]. split; [intros [r X]; discriminate|]. intros (A & B & C & D & _). subst.
      rewrite !Z.eqb_refl in E. discriminate.
Qed.

Lemma if2 : forall (a b : bool) (X : option (env * list operand)), (if a then if b then X else None else None) = (if a && b then X else None).
Proof. destruct a, b; reflexivity. Qed.

Lemma bind1_valid : forall s ops, syn_inv s = true ->
  ((exists e, bind1 s ops = Some (e, consume s ops)) <-> valid1 s ops) /\ (bind1 s ops = None <-> ~ valid1 s ops).
Proof.
  intros s ops Hinv.
  assert (G : forall (c : bool) (e : env) (rest : list operand) (P : Prop), (c = true <-> P) ->
              ((exists e0, (if c then Some (e, rest) else None) = Some (e0, rest)) <-> P) /\ ((if c then Some (e, rest) else None) = None <-> ~ P)).
  { intros c e rest P HP. destruct c.
    - split; [split; [intros _; apply HP; reflexivity | intros _; eexists; reflexivity] | split; [discriminate | intros N; exfalso; apply N; apply HP; reflexivity]].
    - split; [split; [intros [e0 X]; discriminate | intros X; apply HP in X; discriminate] | split; [intros _ X; apply HP in X; discriminate | reflexivity]]. }
  assert (F : forall (o : option (env * list operand)), o = None -> ((exists e, o = Some (e, consume s ops)) <-> False) /\ (o = None <-> ~ False)).
  { intros o ->. split; [split; [intros [e X]; discriminate | tauto] | tauto]. }
  destruct s; try discriminate; cbn [bind1 valid1 consume].
  - destruct ops as [|[] r]; try (apply F; reflexivity). apply G.
    rewrite andb_true_iff, gp_ok_iff. split; [intros [A B]; apply Bool.eqb_prop in A; tauto | intros [A B]; subst; rewrite Bool.eqb_reflx; tauto].
  - destruct ops as [|[] r]; try (apply F; reflexivity). apply G. rewrite andb_true_iff, Z.eqb_eq, fits_u_iff. tauto.
  - destruct ops as [|[] r]; try (apply F; reflexivity). apply G. apply fits_s_iff.
  - destruct ops as [|[] r]; try (apply F; reflexivity). destruct inv; apply G; rewrite andb_true_iff, !Z.leb_le; tauto.
  - destruct ops as [|[] r].
    + split; [split; [tauto | intros _; eexists; reflexivity] | split; [discriminate | tauto]].
    + apply F; reflexivity.
    + apply G. rewrite !andb_true_iff, !Z.leb_le, Z.ltb_lt. tauto.
    + apply F; reflexivity.
    + apply F; reflexivity.
    + apply F; reflexivity.
    + apply F; reflexivity.
  - destruct ops as [|[] r]; try (apply F; reflexivity).
    destruct r as [|[] [|? ?]]; try (apply F; reflexivity).
    + apply none_from_some.
      * destruct (ext_bind x frm fopt fn x0 id 0 0) as [e0|] eqn:Eb.
        -- split; [intros _; apply (proj1 (ext_iff _ _ _ _ _ _ _ _) (ex_intro _ e0 Eb)) | intros _; eexists; reflexivity].
        -- split; [intros [e X]; discriminate | intros A; destruct (proj2 (ext_iff x frm fopt fn x0 id 0 0) A) as [e A']; congruence].
      * intros e r'' X. destruct (ext_bind x frm fopt fn x0 id 0 0); inversion X; reflexivity.
    + apply none_from_some.
      * destruct (ext_bind x frm fopt fn x0 id pred v) as [e0|] eqn:Eb.
        -- split; [intros _; apply (proj1 (ext_iff _ _ _ _ _ _ _ _) (ex_intro _ e0 Eb)) | intros _; eexists; reflexivity].
        -- split; [intros [e X]; discriminate | intros A; destruct (proj2 (ext_iff x frm fopt fn x0 id pred v) A) as [e A']; congruence].
      * intros e r'' X. destruct (ext_bind x frm fopt fn x0 id pred v); inversion X; reflexivity.
  - destruct ops as [|[] r]; try (apply F; reflexivity).
    destruct r as [|[] r'].
    all: try (apply none_from_some;
              [ destruct (addimm_bind fimm fn v 0) as [e0|] eqn:Eb;
                [ split; [intros _; destruct (proj1 (addimm_iff fimm fn v 0) (ex_intro _ e0 Eb)) as [A|A]; tauto | intros _; eexists; reflexivity]
                | split; [intros [e X]; discriminate | intros A; assert (X : exists e, addimm_bind fimm fn v 0 = Some e) by (apply addimm_iff; tauto); destruct X as [e X]; congruence] ]
              | intros e r'' X; destruct (addimm_bind fimm fn v 0); inversion X; reflexivity ]).
    apply none_from_some.
    + destruct ((pred0 =? 0) && ((v0 =? 0) || (v0 =? 12))) eqn:Ep.
      * apply andb_prop in Ep. destruct Ep as [Ep1 Ep2]. apply Z.eqb_eq in Ep1. apply orb_prop in Ep2.
        assert (Hs : v0 = 0 \/ v0 = 12) by (destruct Ep2 as [X|X]; apply Z.eqb_eq in X; tauto).
        destruct (addimm_bind fimm fn v (if v0 =? 0 then 0 else 1)) as [e0|] eqn:Eb.
        -- split; [|intros _; eexists; reflexivity]. intros _.
           destruct (proj1 (addimm_iff _ _ _ _) (ex_intro _ e0 Eb)) as [A|(A & B)]; [tauto|].
           split; [assumption|]. split; [assumption|]. right. destruct (v0 =? 0) eqn:Z0; [apply Z.eqb_eq in Z0; tauto | discriminate].
        -- split; [intros [e X]; discriminate|]. intros (_ & _ & A).
           assert (X : exists e, addimm_bind fimm fn v (if v0 =? 0 then 0 else 1) = Some e).
           { apply addimm_iff. destruct A as [A|(A & B)]; [left; assumption|right]. subst v0. cbn. tauto. }
           destruct X as [e X]. congruence.
      * split; [intros [e X]; discriminate|]. intros (A & B & _). exfalso.
        assert ((pred0 =? 0) && ((v0 =? 0) || (v0 =? 12)) = true).
        { apply andb_true_intro. split; [apply Z.eqb_eq; assumption | apply orb_true_iff; destruct B; [left|right]; apply Z.eqb_eq; assumption]. } congruence.
    + intros e r'' X. destruct ((pred0 =? 0) && ((v0 =? 0) || (v0 =? 12))); try discriminate.
      destruct (addimm_bind fimm fn v (if v0 =? 0 then 0 else 1)); inversion X; reflexivity.
  - destruct ops as [|[] r]; try (apply F; reflexivity). apply G. rewrite andb_true_iff, Z.eqb_eq, fits_s_iff. tauto.
  - destruct ops as [|[] r]; try (apply F; reflexivity). destruct idx; try (apply F; reflexivity).
    apply G. rewrite !andb_true_iff, !Z.leb_le, Z.eqb_eq. tauto.
  - destruct ops as [|[] r]; try (apply F; reflexivity). destruct idx; try (apply F; reflexivity).
    apply G. rewrite !andb_true_iff, !Z.leb_le, !Z.eqb_eq. destruct sgn; [rewrite fits_s_iff | rewrite fits_u_iff]; tauto.
  - destruct ops as [|[] r]; try (apply F; reflexivity). destruct idx; try (apply F; reflexivity).
    apply G. rewrite !andb_true_iff, !Z.leb_le, Z.eqb_eq, fits_s_iff. tauto.
  - destruct ops as [|[] r]; try (apply F; reflexivity). destruct idx as [[xi i]|]; try (apply F; reflexivity).
    apply G. rewrite !andb_true_iff, !Z.leb_le, !Z.eqb_eq, gp_ok_iff, orb_true_iff, !Z.eqb_eq.
    destruct (sop =? 8) eqn:E8; [apply Z.eqb_eq in E8; subst sop; cbn; destruct xi; cbn; intuition (try congruence; try lia)|].
    destruct (sop =? 0) eqn:E0; [apply Z.eqb_eq in E0; subst sop; cbn; destruct xi; cbn; intuition (try congruence; try lia)|].
    destruct (sop =? 12) eqn:E12; [apply Z.eqb_eq in E12; subst sop; cbn; destruct xi; cbn; intuition (try congruence; try lia)|].
    destruct (sop =? 13) eqn:E13; [apply Z.eqb_eq in E13; subst sop; cbn; destruct xi; cbn; intuition (try congruence; try lia)|].
    apply Z.eqb_neq in E8, E0, E12, E13. cbn. intuition (try congruence; try lia).
  - destruct ops as [|[] r]; try (apply F; reflexivity). apply G. rewrite andb_true_iff, Z.eqb_eq, fits_s_iff. tauto.
  - destruct ops as [|[] r]; try (apply F; reflexivity).
    set (width := if x then 64 else 32).
    assert (Hw : width = 32 \/ width = 64) by (subst width; destruct x; auto).
    assert (Hv : 0 <= v mod 2 ^ width < 2 ^ width) by (apply Z.mod_pos_bound; destruct Hw as [-> | ->]; reflexivity).
    apply none_from_some.
    + match goal with |- (exists e, (if ?c then _ else _) = _) <-> _ => destruct c eqn:Er end.
      * assert (Hrange : if x then - 2 ^ 63 <= v < 2 ^ 64 else - 2 ^ 32 <= v < 2 ^ 32) by (destruct x; b2p; lia).
        fold width. destruct (encode_logical_imm (v mod 2 ^ width) width) as [li|] eqn:El.
        -- destruct (logical_imm_sound_fields width _ li Hw Hv El) as (Hd & Hn & Hs & Hr0).
           assert (Ef : fits_u (li_n li) 1 && fits_u (li_r li) 6 && fits_u (li_s li) 6 = true).
           { apply andb_true_intro; split; [apply andb_true_intro; split|]; apply fits_u_iff; [change (2 ^ 1) with 2 | change (2 ^ 6) with 64 | change (2 ^ 6) with 64]; lia. }
           rewrite Ef. split; [|intros _; eexists; reflexivity]. intros _. split; [exact Hrange|].
           exists (li_n li), (li_s li), (li_r li). tauto.
        -- split; [intros [e X]; discriminate|]. intros (_ & Hex). exfalso.
           apply (proj1 (logical_imm_refused_iff width _ Hw Hv) El). exact Hex.
      * split; [intros [e X]; discriminate|]. intros (Hrange & _). exfalso.
        destruct x; [assert ((- 2 ^ 63 <=? v) && (v <? 2 ^ 64) = true) | assert ((- 2 ^ 32 <=? v) && (v <? 2 ^ 32) = true)];
          try (apply andb_true_intro; split; [apply Z.leb_le | apply Z.ltb_lt]; lia); congruence.
    + intros e r'' X. repeat match type of X with context[if ?c then _ else _] => destruct c end; try discriminate.
      all: destruct (encode_logical_imm _ _); try discriminate.
      all: repeat match type of X with context[if ?c then _ else _] => destruct c end; try discriminate; inversion X; reflexivity.
  - destruct ops as [|[] r]; try (apply F; reflexivity). apply G.
    rewrite andb_true_iff, gp_ok_iff. split; [intros [A B]; apply Bool.eqb_prop in A; tauto | intros [A B]; subst; rewrite Bool.eqb_reflx; tauto].
  - destruct ops as [|[] r]; try (apply F; reflexivity). apply G. rewrite andb_true_iff, Z.leb_le, Z.ltb_lt. tauto.
  - destruct ops as [|[] r]; try (apply F; reflexivity).
    destruct (kind =? 2) eqn:K2.
    + apply G. rewrite andb_true_iff, Z.leb_le, Z.ltb_lt. tauto.
    + destruct r as [|[] r']; try (split; [split; [intros [e X]; discriminate | tauto] | tauto]). cbn [tl].
      destruct (kind =? 0); apply G; rewrite !andb_true_iff, !Z.leb_le, Z.ltb_lt; tauto.
  - destruct ops as [|[] r]; try (apply F; reflexivity).
    destruct r as [|[] r'].
    all: try (apply G; rewrite andb_true_iff, !Z.leb_le; tauto).
    rewrite if2. apply G.
    rewrite !andb_true_iff, !orb_true_iff, !andb_true_iff, !orb_true_iff, !Z.leb_le, !Z.eqb_eq. destruct x; intuition congruence.
  - destruct ops as [|[] r]; try (apply F; reflexivity). apply G. rewrite andb_true_iff, !Z.leb_le. tauto.
  - destruct ops as [|[] r]; try (apply F; reflexivity). apply G. apply Z.eqb_eq.
  - destruct ops as [|[] r]; try (apply F; reflexivity). apply G. rewrite !andb_true_iff, !Z.eqb_eq, fits_u_iff. tauto.
  - destruct ops as [|[] r]; try (apply F; reflexivity). apply G. rewrite !andb_true_iff, !Z.eqb_eq, Z.leb_le, Z.ltb_lt, fits_u_iff. tauto.
  - destruct ops as [|[] r]; try (apply F; reflexivity).
    destruct (veclist_iff n rt et (-1) id (OVec rt0 et0 ei id :: r)) as [I1 I2].
    apply none_from_some.
    + destruct (fits_u id 5) eqn:Ef.
      * apply fits_u_iff in Ef. change (2 ^ 5) with 32 in Ef.
        destruct (veclist n rt et (-1) id (OVec rt0 et0 ei id :: r)) as [r1|] eqn:Ev.
        -- rewrite (I2 r1 eq_refl). split; [|intros _; eexists; reflexivity]. intros _. split; [exact Ef|]. apply I1. exists r1. reflexivity.
        -- split; [intros [e X]; discriminate|]. intros (_ & A). apply I1 in A. destruct A as [r1 A]. discriminate.
      * split; [intros [e X]; discriminate|]. intros (A & _). exfalso.
        assert (fits_u id 5 = true) by (apply fits_u_iff; change (2 ^ 5) with 32; exact A). congruence.
    + intros e r'' X. destruct (fits_u id 5); try discriminate.
      destruct (veclist n rt et (-1) id (OVec rt0 et0 ei id :: r)) as [r1|] eqn:Ev; inversion X; subst. apply I2. reflexivity.
  - destruct ops as [|[] r]; try (apply F; reflexivity). destruct idx as [[xi i]|]; try (apply F; reflexivity).
    apply G. rewrite !andb_true_iff, !Z.leb_le, !Z.eqb_eq. destruct xi; intuition congruence.
  - destruct ops as [|[] r]; try (apply F; reflexivity). destruct idx; try (apply F; reflexivity).
    apply G. rewrite !andb_true_iff, !Z.leb_le, !Z.eqb_eq. tauto.
  - destruct ops as [|[] r]; try (apply F; reflexivity). destruct lft; apply G; rewrite andb_true_iff, Z.leb_le; [rewrite Z.ltb_lt | rewrite Z.leb_le]; tauto.
  - destruct ops as [|[] r]; try (apply F; reflexivity). apply G. rewrite !andb_true_iff, Z.leb_le, Z.ltb_lt, Z.eqb_eq. tauto.
  - destruct ops as [|[] [|[] r]]; try (apply F; reflexivity). apply G.
    rewrite !andb_true_iff, !Z.leb_le, Z.eqb_eq.
    split; [intros (((((A & B) & C) & D) & E) & F0); apply Bool.eqb_prop in A; apply Bool.eqb_prop in B; tauto
           | intros (A & B & C & D & E); subst; rewrite !Bool.eqb_reflx; tauto].
  - destruct ops as [|[] r]; try (apply F; reflexivity). apply G. rewrite andb_true_iff, !Z.leb_le. tauto.
  - destruct ops as [|[] r]; try (apply F; reflexivity). cbv zeta. apply G.
    rewrite !andb_true_iff, orb_true_iff, !andb_true_iff, !Z.leb_le, !Z.ltb_lt. tauto.
  - destruct ops as [|[] r]; try (apply F; reflexivity).
    destruct (veclist_iff n 4 et ei id (OVec rt et0 ei id :: r)) as [I1 I2].
    apply none_from_some.
    + destruct (fits_u id 5 && (0 <=? ei) && (ei <? lanes)) eqn:Ef.
      * apply andb_prop in Ef. destruct Ef as [Ef El]. apply andb_prop in Ef. destruct Ef as [Ef Eg].
        apply fits_u_iff in Ef. change (2 ^ 5) with 32 in Ef. apply Z.leb_le in Eg. apply Z.ltb_lt in El.
        destruct (veclist n 4 et ei id (OVec rt et0 ei id :: r)) as [r1|] eqn:Ev.
        -- rewrite (I2 r1 eq_refl). split; [|intros _; eexists; reflexivity]. intros _. split; [exact Ef|]. split; [lia|]. apply I1. exists r1. reflexivity.
        -- split; [intros [e X]; discriminate|]. intros (_ & _ & A). apply I1 in A. destruct A as [r1 A]. discriminate.
      * split; [intros [e X]; discriminate|]. intros (A & B & _). exfalso.
        assert (fits_u id 5 && (0 <=? ei) && (ei <? lanes) = true).
        { apply andb_true_intro. split; [apply andb_true_intro; split; [apply fits_u_iff; change (2 ^ 5) with 32; exact A | apply Z.leb_le; lia] | apply Z.ltb_lt; lia]. }
        congruence.
    + intros e r'' X. destruct (fits_u id 5 && (0 <=? ei) && (ei <? lanes)); try discriminate.
      destruct (veclist n 4 et ei id (OVec rt et0 ei id :: r)) as [r1|] eqn:Ev; inversion X; subst. apply I2. reflexivity.
  - destruct ops as [|[] r]; try (apply F; reflexivity). apply G. rewrite andb_true_iff, Z.eqb_eq, fits_u_iff. tauto.
Qed.

Ltac rest_gen H :=
  match type of H with bind1 _ ?ops = _ => idtac | _ => idtac end;
  repeat match type of H with context[if ?c then _ else _] => destruct c end; try discriminate; inversion H; reflexivity.

Lemma bind1_rest : forall s ops e rest, syn_inv s = true -> bind1 s ops = Some (e, rest) -> rest = consume s ops.
Proof.
  intros s ops e rest Hinv H.
  destruct s; cbn [bind1 consume] in *.
  all: destruct ops as [|[] r]; try discriminate; try (inversion H; reflexivity).
  all: try (destruct idx as [[? ?]|]; try discriminate).
  (* remaining goals in constructor order; the generic ones first try the generic tactic *)
  all: try (rest_gen H).
  - (* SExtReg *) destruct r as [|[] [|? ?]]; try discriminate.
    + destruct (ext_bind x frm fopt fn x0 id 0 0); inversion H; reflexivity.
    + destruct (ext_bind x frm fopt fn x0 id pred v); inversion H; reflexivity.
  - (* SAddImm *) destruct r as [|[] r'].
    all: try (destruct (addimm_bind fimm fn v 0); inversion H; reflexivity).
    destruct ((pred0 =? 0) && ((v0 =? 0) || (v0 =? 12))); try discriminate.
    destruct (addimm_bind fimm fn v (if v0 =? 0 then 0 else 1)); inversion H; reflexivity.
  - (* SLogImm *) repeat match type of H with context[if ?c then _ else _] => destruct c end; try discriminate.
    all: destruct (encode_logical_imm _ _); try discriminate.
    all: repeat match type of H with context[if ?c then _ else _] => destruct c end; try discriminate; inversion H; reflexivity.
  - (* SBitfield *) destruct (kind =? 2); [rest_gen H|].
    destruct r as [|[] r']; try discriminate. cbn [tl]. rest_gen H.
  - (* SMovW *) destruct ((0 <=? v) && (v <=? 65535)); try discriminate.
    destruct r as [|[] r']; try (inversion H; reflexivity). rest_gen H.
  - (* SVecList *) destruct (fits_u id 5); try discriminate.
    destruct (veclist n rt et (-1) id (OVec rt0 et0 ei id :: r)) as [r1|] eqn:Ev; inversion H; subst.
    apply (proj2 (veclist_iff n rt et (-1) id _)). exact Ev.
  - (* SGpPair *) destruct r as [|[] r']; try discriminate. rest_gen H.
  - (* SVecListElem *) destruct (fits_u id 5 && (0 <=? ei) && (ei <? lanes)); try discriminate.
    destruct (veclist n 4 et ei id (OVec rt et0 ei id :: r)) as [r1|] eqn:Ev; inversion H; subst.
    apply (proj2 (veclist_iff n 4 et ei id _)). exact Ev.
Qed.

(* Refusal is exact (rows whose syntaxes are all in syn_inv): the specification of a row is defined exactly when the operand list
   consists of valid operands for the row's syntaxes, and undefined exactly otherwise. *)
Theorem refusal_exact : forall ss ops, forallb syn_inv ss = true ->
  ((exists e, bind ss ops = Some e) <-> ops_valid ss ops) /\ (bind ss ops = None <-> ~ ops_valid ss ops).
Proof.
  induction ss as [|s sr IH]; intros ops Hinv; cbn [bind ops_valid].
  - destruct ops.
    + split; [split; [reflexivity | intros _; eexists; reflexivity] | split; [discriminate | intros N; exfalso; apply N; reflexivity]].
    + split; [split; [intros [e X]; discriminate | discriminate] | split; [intros _ X; discriminate | reflexivity]].
  - cbn in Hinv. apply andb_prop in Hinv. destruct Hinv as [Hs Hr].
    destruct (bind1_valid s ops Hs) as [Hsome Hnone].
    destruct (bind1 s ops) as [[e1 rest]|] eqn:E1.
    + pose proof (bind1_rest s ops e1 rest Hs E1) as ->.
      assert (V : valid1 s ops) by (apply Hsome; exists e1; reflexivity).
      destruct (IH (consume s ops) Hr) as [IHs IHn].
      destruct (bind sr (consume s ops)) as [e2|] eqn:E2.
      * assert (V2 : ops_valid sr (consume s ops)) by (apply IHs; exists e2; reflexivity).
        split; [split; [intros _; split; assumption | intros _; eexists; reflexivity] | split; [discriminate | intros N; exfalso; apply N; split; assumption]].
      * assert (N2 : ~ ops_valid sr (consume s ops)) by (apply IHn; reflexivity).
        split; [split; [intros [e X]; discriminate | intros [_ X]; exfalso; apply N2; exact X] | split; [intros _ [_ X]; apply N2; exact X | reflexivity]].
    + assert (N1 : ~ valid1 s ops) by (apply Hnone; reflexivity).
      split; [split; [intros [e X]; discriminate | intros [X _]; exfalso; apply N1; exact X] | split; [intros _ [X _]; apply N1; exact X | reflexivity]].
Qed.

(* C02 — refusal is exact: the specification refuses operands exactly when one of them is outside the architectural range of its
   operand syntax (stated declaratively, in Prop) — for the syntaxes listed in syn_inv. *)
From Coq Require Import ZArith List Bool Lia.
From Verif Require Import A64.A64Tmpl A64.A64Sem A64.A64SemProofs.
Import ListNotations.
Local Open Scope Z_scope.

(* declarative validity of the operand(s) at the head of the list for one syntax element *)
Definition valid1 (s : opsyn) (ops : list operand) : Prop :=
  match s, ops with
  | SGp x hi f, OGp x' id :: _ => x = x' /\ (0 <= id <= 30 \/ id = hi)                    (* right width; id 0..30 or the allowed SP/ZR id *)
  | SImmU f w sc, OImm _ v :: _ => v mod sc = 0 /\ 0 <= v / sc < 2 ^ w                     (* multiple of the scale, fits w bits unsigned *)
  | SImmS f w, OImm _ v :: _ => - 2 ^ (w - 1) <= v < 2 ^ (w - 1)                          (* fits w bits signed *)
  | SCond f inv, OImm _ c :: _ => if inv then 2 <= c <= 15 else 0 <= c <= 15              (* a condition code; AL/NV excluded for CINC/CSET *)
  | SShift _ _ kinds maxn, [] => True                                                      (* shift omitted *)
  | SShift _ _ kinds maxn, OImm p v :: _ => 0 <= p /\ Z.testbit kinds p = true /\ 0 <= v < maxn   (* allowed kind, amount below the register width *)
  | SRel f w sc, ORel d :: _ => d mod sc = 0 /\ - 2 ^ (w - 1) <= d / sc < 2 ^ (w - 1)     (* aligned, within the signed range *)
  | SMemBase _, OMem b None _ _ off mode :: _ => 0 <= b <= 31 /\ off = 0 /\ 0 <= mode <= 2
  | SMemOff _ _ w sgn sc mode, OMem b None _ _ off m :: _ =>
      0 <= b <= 31 /\ m = mode /\ off mod sc = 0 /\
      (if sgn then - 2 ^ (w - 1) <= off / sc < 2 ^ (w - 1) else 0 <= off / sc < 2 ^ w)    (* aligned offset inside the field's range *)
  | SMemLit _ w, OLit d :: _ => d mod 4 = 0 /\ - 2 ^ (w - 1) <= d / 4 < 2 ^ (w - 1)
  | SVec rt et _ w, OVec rt' et' ei id :: _ => rt' = rt /\ et' = et /\ ei = -1 /\ 0 <= id < 2 ^ w      (* right view/arrangement, no lane, id 0..31 *)
  | SVecElem et _ w _ _ lanes, OVec rt' et' ei id :: _ => rt' = 4 /\ et' = et /\ 0 <= ei < lanes /\ 0 <= id < 2 ^ w   (* lane inside the vector *)
  | SGpDup x hi _ _, OGp x' id :: _ => x = x' /\ (0 <= id <= 30 \/ id = hi)
  | SImmLt _ _ lim, OImm _ v :: _ => 0 <= v < lim
  | SSysReg _, OImm _ v :: _ => 32768 <= v <= 65535
  | SImmConst c, OImm _ v :: _ => v = c
  | SMemPostImm _ imm, OMem b None _ _ off m :: _ => 0 <= b <= 31 /\ off = imm /\ m = 2
  | SMemPostReg _ _, OMem b (Some (xi, i)) sop sh off m :: _ =>
      0 <= b <= 31 /\ xi = true /\ 0 <= i <= 30 /\ sop = 0 /\ sh = 0 /\ off = 0 /\ m = 2
  | SMemPair _ _ w sc _ _ _, OMem b None _ _ off m :: _ =>
      0 <= b <= 31 /\ 0 <= m <= 2 /\ off mod sc = 0 /\ - 2 ^ (w - 1) <= off / sc < 2 ^ (w - 1)
  | SMemIdx _ _ _ _ amount, OMem b (Some (xi, i)) sop sh off m :: _ =>
      0 <= b <= 31 /\ (sop = 8 \/ sop = 0 \/ sop = 12 \/ sop = 13) /\                 (* uxtw | lsl | sxtw | sxtx *)
      xi = ((sop =? 0) || (sop =? 13)) /\ (0 <= i <= 30 \/ i = 63) /\ off = 0 /\ m = 0 /\ (sh = 0 \/ sh = amount)
  | _, _ => False
  end.

Definition consume (s : opsyn) (ops : list operand) : list operand :=
  match s, ops with SShift _ _ _ _, [] => [] | _, _ :: r => r | _, [] => [] end.

Fixpoint ops_valid (ss : list opsyn) (ops : list operand) : Prop :=
  match ss with
  | [] => ops = []
  | s :: sr => valid1 s ops /\ ops_valid sr (consume s ops)
  end.

Ltac p2b :=
  repeat match goal with
  | |- _ && _ = true => apply andb_true_intro; split
  | |- (_ <=? _) = true => apply Z.leb_le
  | |- (_ <? _) = true => apply Z.ltb_lt
  | |- (_ =? _) = true => apply Z.eqb_eq
  end.

Lemma gp_ok_iff : forall id hi, gp_ok id hi = true <-> (0 <= id <= 30 \/ id = hi).
Proof.
  intros. unfold gp_ok. rewrite orb_true_iff, andb_true_iff, Z.leb_le, Z.leb_le, Z.eqb_eq. tauto.
Qed.
Lemma fits_s_iff : forall v w, fits_s v w = true <-> - 2 ^ (w - 1) <= v < 2 ^ (w - 1).
Proof. intros. unfold fits_s. rewrite andb_true_iff, Z.leb_le, Z.ltb_lt. tauto. Qed.
Lemma fits_u_iff : forall v w, fits_u v w = true <-> 0 <= v < 2 ^ w.
Proof. intros. unfold fits_u. rewrite andb_true_iff, Z.leb_le, Z.ltb_lt. tauto. Qed.

Lemma bind1_valid : forall s ops, syn_inv s = true ->
  ((exists e, bind1 s ops = Some (e, consume s ops)) <-> valid1 s ops) /\ (bind1 s ops = None <-> ~ valid1 s ops).
Proof.
  intros s ops Hinv.
  assert (G : forall (c : bool) (e : env) (rest : list operand) (P : Prop), (c = true <-> P) ->
              ((exists e0, (if c then Some (e, rest) else None) = Some (e0, rest)) <-> P) /\ ((if c then Some (e, rest) else None) = None <-> ~ P)).
  { intros c e rest P HP. destruct c.
    - split; [split; [intros _; apply HP; reflexivity | intros _; eexists; reflexivity] | split; [discriminate | intros N; exfalso; apply N; apply HP; reflexivity]].
    - split; [split; [intros [e0 X]; discriminate | intros X; apply HP in X; discriminate] | split; [intros _ X; apply HP in X; discriminate | reflexivity]]. }
  assert (F : forall (o : option (env * list operand)), o = None -> ((exists e, o = Some (e, consume s ops)) <-> False) /\ (o = None <-> ~ False)).
  { intros o ->. split; [split; [intros [e X]; discriminate | tauto] | tauto]. }
  destruct s; try discriminate; cbn [bind1 valid1 consume].
  - destruct ops as [|[] r]; try (apply F; reflexivity). apply G.
    rewrite andb_true_iff, gp_ok_iff. split; [intros [A B]; apply Bool.eqb_prop in A; tauto | intros [A B]; subst; rewrite Bool.eqb_reflx; tauto].
  - destruct ops as [|[] r]; try (apply F; reflexivity). apply G. rewrite andb_true_iff, Z.eqb_eq, fits_u_iff. tauto.
  - destruct ops as [|[] r]; try (apply F; reflexivity). apply G. apply fits_s_iff.
  - destruct ops as [|[] r]; try (apply F; reflexivity). destruct inv; apply G; rewrite andb_true_iff, !Z.leb_le; tauto.
  - destruct ops as [|[] r].
    + split; [split; [tauto | intros _; eexists; reflexivity] | split; [discriminate | tauto]].
    + apply F; reflexivity.
    + apply G. rewrite !andb_true_iff, !Z.leb_le, Z.ltb_lt. tauto.
    + apply F; reflexivity.
    + apply F; reflexivity.
    + apply F; reflexivity.
    + apply F; reflexivity.
  - destruct ops as [|[] r]; try (apply F; reflexivity). apply G. rewrite andb_true_iff, Z.eqb_eq, fits_s_iff. tauto.
  - destruct ops as [|[] r]; try (apply F; reflexivity). destruct idx; try (apply F; reflexivity).
    apply G. rewrite !andb_true_iff, !Z.leb_le, Z.eqb_eq. tauto.
  - destruct ops as [|[] r]; try (apply F; reflexivity). destruct idx; try (apply F; reflexivity).
    apply G. rewrite !andb_true_iff, !Z.leb_le, !Z.eqb_eq. destruct sgn; [rewrite fits_s_iff | rewrite fits_u_iff]; tauto.
  - destruct ops as [|[] r]; try (apply F; reflexivity). destruct idx; try (apply F; reflexivity).
    apply G. rewrite !andb_true_iff, !Z.leb_le, Z.eqb_eq, fits_s_iff. tauto.
  - destruct ops as [|[] r]; try (apply F; reflexivity). destruct idx as [[xi i]|]; try (apply F; reflexivity).
    apply G. rewrite !andb_true_iff, !Z.leb_le, !Z.eqb_eq, gp_ok_iff, orb_true_iff, !Z.eqb_eq.
    destruct (sop =? 8) eqn:E8; [apply Z.eqb_eq in E8; subst sop; cbn; destruct xi; cbn; intuition (try congruence; try lia)|].
    destruct (sop =? 0) eqn:E0; [apply Z.eqb_eq in E0; subst sop; cbn; destruct xi; cbn; intuition (try congruence; try lia)|].
    destruct (sop =? 12) eqn:E12; [apply Z.eqb_eq in E12; subst sop; cbn; destruct xi; cbn; intuition (try congruence; try lia)|].
    destruct (sop =? 13) eqn:E13; [apply Z.eqb_eq in E13; subst sop; cbn; destruct xi; cbn; intuition (try congruence; try lia)|].
    apply Z.eqb_neq in E8, E0, E12, E13. cbn. intuition (try congruence; try lia).
  - destruct ops as [|[] r]; try (apply F; reflexivity). apply G. rewrite andb_true_iff, Z.eqb_eq, fits_s_iff. tauto.
  - destruct ops as [|[] r]; try (apply F; reflexivity). apply G.
    rewrite andb_true_iff, gp_ok_iff. split; [intros [A B]; apply Bool.eqb_prop in A; tauto | intros [A B]; subst; rewrite Bool.eqb_reflx; tauto].
  - destruct ops as [|[] r]; try (apply F; reflexivity). apply G. rewrite andb_true_iff, Z.leb_le, Z.ltb_lt. tauto.
  - destruct ops as [|[] r]; try (apply F; reflexivity). apply G. rewrite andb_true_iff, !Z.leb_le. tauto.
  - destruct ops as [|[] r]; try (apply F; reflexivity). apply G. apply Z.eqb_eq.
  - destruct ops as [|[] r]; try (apply F; reflexivity). apply G. rewrite !andb_true_iff, !Z.eqb_eq, fits_u_iff. tauto.
  - destruct ops as [|[] r]; try (apply F; reflexivity). apply G. rewrite !andb_true_iff, !Z.eqb_eq, Z.leb_le, Z.ltb_lt, fits_u_iff. tauto.
  - destruct ops as [|[] r]; try (apply F; reflexivity). destruct idx as [[xi i]|]; try (apply F; reflexivity).
    apply G. rewrite !andb_true_iff, !Z.leb_le, !Z.eqb_eq. destruct xi; intuition congruence.
  - destruct ops as [|[] r]; try (apply F; reflexivity). destruct idx; try (apply F; reflexivity).
    apply G. rewrite !andb_true_iff, !Z.leb_le, !Z.eqb_eq. tauto.
Qed.

Lemma bind1_rest : forall s ops e rest, syn_inv s = true -> bind1 s ops = Some (e, rest) -> rest = consume s ops.
Proof.
  intros s ops e rest Hinv H. destruct s; try discriminate; cbn [bind1 consume] in *.
  all: destruct ops as [|[] r]; try discriminate; try (inversion H; reflexivity).
  all: try (destruct idx as [[? ?]|]; try discriminate).
  all: repeat match type of H with context[if ?c then _ else _] => destruct c end; try discriminate; inversion H; reflexivity.
Qed.

(* Refusal is exact (rows whose syntaxes are all in syn_inv): the specification of a row is defined exactly when the operand list
   consists of valid operands for the row's syntaxes, and undefined exactly otherwise. *)
Theorem refusal_exact : forall ss ops, forallb syn_inv ss = true ->
  ((exists e, bind ss ops = Some e) <-> ops_valid ss ops) /\ (bind ss ops = None <-> ~ ops_valid ss ops).
Proof.
  induction ss as [|s sr IH]; intros ops Hinv; cbn [bind ops_valid].
  - destruct ops.
    + split; [split; [reflexivity | intros _; eexists; reflexivity] | split; [discriminate | intros N; exfalso; apply N; reflexivity]].
    + split; [split; [intros [e X]; discriminate | discriminate] | split; [intros _ X; discriminate | reflexivity]].
  - cbn in Hinv. apply andb_prop in Hinv. destruct Hinv as [Hs Hr].
    destruct (bind1_valid s ops Hs) as [Hsome Hnone].
    destruct (bind1 s ops) as [[e1 rest]|] eqn:E1.
    + pose proof (bind1_rest s ops e1 rest Hs E1) as ->.
      assert (V : valid1 s ops) by (apply Hsome; exists e1; reflexivity).
      destruct (IH (consume s ops) Hr) as [IHs IHn].
      destruct (bind sr (consume s ops)) as [e2|] eqn:E2.
      * assert (V2 : ops_valid sr (consume s ops)) by (apply IHs; exists e2; reflexivity).
        split; [split; [intros _; split; assumption | intros _; eexists; reflexivity] | split; [discriminate | intros N; exfalso; apply N; split; assumption]].
      * assert (N2 : ~ ops_valid sr (consume s ops)) by (apply IHn; reflexivity).
        split; [split; [intros [e X]; discriminate | intros [_ X]; exfalso; apply N2; exact X] | split; [intros _ [_ X]; apply N2; exact X | reflexivity]].
    + assert (N1 : ~ valid1 s ops) by (apply Hnone; reflexivity).
      split; [split; [intros [e X]; discriminate | intros [X _]; exfalso; apply N1; exact X] | split; [intros _ [X _]; apply N1; exact X | reflexivity]].
Qed.

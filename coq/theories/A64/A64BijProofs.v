(* C02 — the converse direction for the operand syntaxes that are bijective between in-range field values and valid operands:
   binding the operands decoded from field values gives back exactly those field values.  PROOFS ONLY. *)
From Coq Require Import ZArith List Bool Lia.
From Verif Require Import A64.A64Tmpl A64.A64TmplProofs A64.A64Sem A64.A64SemProofs A64.A64InvProofs A64.A64RefusalProofs A64.A64CanonProofs A64.A64TmplComplete Codec.ImmModel Codec.ImmProofs.
Import ListNotations.
Local Open Scope Z_scope.

Definition genv (s : opsyn) (g : Z -> Z) : env := map (fun fw => (fst fw, g (fst fw))) (syn_fields s).

Lemma sext_back : forall v w, 1 <= w -> 0 <= v < 2 ^ w -> sext v w mod 2 ^ w = v.
Proof.
  intros v w Hw Hv. unfold sext. destruct (v <? 2 ^ (w - 1)); [apply Z.mod_small; exact Hv|].
  replace (v - 2 ^ w) with (v + (-1) * 2 ^ w) by lia. rewrite Z.mod_add by lia. apply Z.mod_small. exact Hv.
Qed.

Lemma skipn_veclist_ops : forall n rt et ei id (X : list operand), skipn n (veclist_ops n rt et ei id ++ X) = X.
Proof. induction n as [|k IH]; intros; cbn [veclist_ops app skipn]; [reflexivity | apply IH]. Qed.

Lemma bind1_unbind1 : forall s g X, syn_bij s = true -> syn_wf s = true -> syn_hi_ok s = true -> syn_canon_ok s = true ->
  (forall f w, In (f, w) (syn_fields s) -> 0 <= g f < 2 ^ w) ->
  valid1 s (unbind1 s g ++ X) -> bind1 s (unbind1 s g ++ X) = Some (genv s g, X).
Proof.
  intros s g X Hb Hwf Hhi Hok Hr Hv.
  assert (Hinv : syn_inv s = true) by (destruct s; reflexivity).
  destruct (proj2 (proj1 (bind1_valid s (unbind1 s g ++ X) Hinv)) Hv) as [e He].
  rewrite He. f_equal. destruct s; try discriminate Hb; unfold genv; cbn [unbind1 app bind1 consume syn_fields map fst syn_wf syn_hi_ok syn_canon_ok] in *.
  all: cases He; inversion He; subst; clear He.
  all: try reflexivity.
  all: repeat f_equal.
  - (* SGp, field 31 *) apply Z.eqb_eq in E0. apply orb_prop in Hhi. destruct Hhi as [H|H]; apply Z.eqb_eq in H; subst hi; rewrite E0; reflexivity.
  - (* SGp *) pose proof (Hr _ _ (or_introl eq_refl)) as R. change (2 ^ 5) with 32 in R. apply Z.mod_small. exact R.
  - (* SImmU *) apply andb_prop in Hwf. destruct Hwf as [_ Hs]. apply Z.leb_le in Hs. apply Z.div_mul. lia.
  - (* SImmS *) apply andb_prop in Hwf. destruct Hwf as [Hw _]. apply Z.leb_le in Hw. apply sext_back; [exact Hw | exact (Hr _ _ (or_introl eq_refl))].
  - (* SCond inverted *) replace (Z.lxor (g f) 1 + 2 - 2) with (Z.lxor (g f) 1) by lia. rewrite Z.lxor_assoc, Z.lxor_nilpotent, Z.lxor_0_r. reflexivity.
  - (* SCond *) pose proof (Hr _ _ (or_introl eq_refl)) as R. change (2 ^ 4) with 16 in R. Z.div_mod_to_equations. lia.
  - (* SExtReg, Rm field 31 *) pose proof (Hr _ _ (or_intror (or_introl eq_refl))) as R2.
    unfold ext_bind in E1. cbv zeta in E1. assert (P : (g fopt + 6 =? 0) = false) by (apply Z.eqb_neq; lia). rewrite P in E1.
    replace (g fopt + 6 - 6) with (g fopt) in E1 by lia. cases E1. inversion E1. apply Z.eqb_eq in E0. rewrite E0. reflexivity.
  - (* SExtReg *) pose proof (Hr _ _ (or_introl eq_refl)) as R1. pose proof (Hr _ _ (or_intror (or_introl eq_refl))) as R2.
    unfold ext_bind in E1. cbv zeta in E1. assert (P : (g fopt + 6 =? 0) = false) by (apply Z.eqb_neq; lia). rewrite P in E1.
    replace (g fopt + 6 - 6) with (g fopt) in E1 by lia. cases E1. inversion E1. change (2 ^ 5) with 32 in R1. rewrite (Z.mod_small _ _ R1). reflexivity.
  - (* SAddImm, no shift *) pose proof (Hr _ _ (or_introl eq_refl)) as R1. change (2 ^ 12) with 4096 in R1.
    unfold addimm_bind in E1. assert (P : (0 <=? g fimm) && (g fimm <=? 4095) = true) by (apply andb_true_intro; split; apply Z.leb_le; lia).
    rewrite P in E1. inversion E1. apply Z.eqb_eq in E0. replace (g fn) with 0 by lia. reflexivity.
  - (* SAddImm, lsl #12 *) pose proof (Hr _ _ (or_introl eq_refl)) as R1. pose proof (Hr _ _ (or_intror (or_introl eq_refl))) as R2.
    change (2 ^ 12) with 4096 in R1. change (2 ^ 1) with 2 in R2.
    unfold addimm_bind in E1. assert (P : (0 <=? g fimm) && (g fimm <=? 4095) = true) by (apply andb_true_intro; split; apply Z.leb_le; lia).
    rewrite P in E1. inversion E1. apply Z.eqb_neq in E0. replace (g fn) with 1 by lia. reflexivity.
  - (* SRel *) apply andb_prop in Hwf. destruct Hwf as [Hw Hs]. apply Z.leb_le in Hw, Hs. rewrite Z.div_mul by lia.
    apply sext_back; [exact Hw | exact (Hr _ _ (or_introl eq_refl))].
  - (* SMemOff signed *) apply andb_prop in Hwf. destruct Hwf as [Hw Hs]. apply Z.leb_le in Hw, Hs. rewrite Z.div_mul by lia.
    apply sext_back; [exact Hw | exact (Hr _ _ (or_intror (or_introl eq_refl)))].
  - (* SMemOff unsigned *) apply andb_prop in Hwf. destruct Hwf as [Hw Hs]. apply Z.leb_le in Hw, Hs. rewrite Z.div_mul by lia.
    apply Z.mod_small. exact (Hr _ _ (or_intror (or_introl eq_refl))).
  - (* SMemLit *) apply Z.leb_le in Hwf. rewrite Z.div_mul by lia. apply sext_back; [exact Hwf | exact (Hr _ _ (or_introl eq_refl))].
  - (* SMovW *) apply Z.div_mul. lia.
  - (* SSysReg *) lia.
  - (* SVecList *) destruct n as [|k]; [discriminate Hok|]. cbn [veclist_ops app] in H0. cases H0. inversion H0. reflexivity.
  - apply skipn_veclist_ops.
  - (* SVShift *) pose proof (Hr _ _ (or_introl eq_refl)) as R1. pose proof (Hr _ _ (or_intror (or_introl eq_refl))) as R2.
    change (2 ^ 4) with 16 in R1. change (2 ^ 3) with 8 in R2. Z.div_mod_to_equations. lia.
  - pose proof (Hr _ _ (or_introl eq_refl)) as R1. pose proof (Hr _ _ (or_intror (or_introl eq_refl))) as R2.
    change (2 ^ 4) with 16 in R1. change (2 ^ 3) with 8 in R2. Z.div_mod_to_equations. lia.
  - pose proof (Hr _ _ (or_introl eq_refl)) as R1. pose proof (Hr _ _ (or_intror (or_introl eq_refl))) as R2.
    change (2 ^ 4) with 16 in R1. change (2 ^ 3) with 8 in R2.
    repeat (apply orb_prop in Hwf; destruct Hwf as [Hwf|Hwf]); apply Z.eqb_eq in Hwf; subst esize; Z.div_mod_to_equations; lia.
  - pose proof (Hr _ _ (or_introl eq_refl)) as R1. pose proof (Hr _ _ (or_intror (or_introl eq_refl))) as R2.
    change (2 ^ 4) with 16 in R1. change (2 ^ 3) with 8 in R2.
    repeat (apply orb_prop in Hwf; destruct Hwf as [Hwf|Hwf]); apply Z.eqb_eq in Hwf; subst esize; Z.div_mod_to_equations; lia.
  - (* SSysOp *) pose proof (Hr _ _ (or_introl eq_refl)) as R1. pose proof (Hr _ _ (or_intror (or_introl eq_refl))) as R2.
    pose proof (Hr _ _ (or_intror (or_intror (or_introl eq_refl)))) as R3. apply andb_prop in Hwf. destruct Hwf as [C1 C2].
    apply Z.leb_le in C1. apply Z.ltb_lt in C2. change (2 ^ 3) with 8 in *. change (2 ^ 4) with 16 in *. Z.div_mod_to_equations. lia.
  - pose proof (Hr _ _ (or_introl eq_refl)) as R1. pose proof (Hr _ _ (or_intror (or_introl eq_refl))) as R2.
    pose proof (Hr _ _ (or_intror (or_intror (or_introl eq_refl)))) as R3. apply andb_prop in Hwf. destruct Hwf as [C1 C2].
    apply Z.leb_le in C1. apply Z.ltb_lt in C2. change (2 ^ 3) with 8 in *. change (2 ^ 4) with 16 in *. Z.div_mod_to_equations. lia.
  - pose proof (Hr _ _ (or_introl eq_refl)) as R1. pose proof (Hr _ _ (or_intror (or_introl eq_refl))) as R2.
    pose proof (Hr _ _ (or_intror (or_intror (or_introl eq_refl)))) as R3. apply andb_prop in Hwf. destruct Hwf as [C1 C2].
    apply Z.leb_le in C1. apply Z.ltb_lt in C2. change (2 ^ 3) with 8 in *. change (2 ^ 4) with 16 in *. Z.div_mod_to_equations. lia.
  - (* SImmRsub *) lia.
  - (* SFpImm *) pose proof (Hr _ _ (or_introl eq_refl)) as R1. pose proof (Hr _ _ (or_intror (or_introl eq_refl))) as R2.
    change (2 ^ 3) with 8 in R1. change (2 ^ 5) with 32 in R2.
    replace (fimm_bits 256 (ImmModel.vfp_expand_imm 64 (g fabc * 32 + g fdefgh))) with (ImmModel.vfp_expand_imm 64 (g fabc * 32 + g fdefgh)) by reflexivity.
    destruct (ImmProofs.fp_imm8_complete 64 (g fabc * 32 + g fdefgh) (or_intror (or_intror eq_refl)) ltac:(lia)) as [_ Hc].
    change (ImmProofs.fp_enc 64 (ImmModel.vfp_expand_imm 64 (g fabc * 32 + g fdefgh))) with (ImmModel.encode_fp_imm8 9 6 48 (ImmModel.vfp_expand_imm 64 (g fabc * 32 + g fdefgh))) in Hc.
    rewrite Hc. Z.div_mod_to_equations. lia.
  - pose proof (Hr _ _ (or_introl eq_refl)) as R1. pose proof (Hr _ _ (or_intror (or_introl eq_refl))) as R2.
    change (2 ^ 3) with 8 in R1. change (2 ^ 5) with 32 in R2.
    replace (fimm_bits 256 (ImmModel.vfp_expand_imm 64 (g fabc * 32 + g fdefgh))) with (ImmModel.vfp_expand_imm 64 (g fabc * 32 + g fdefgh)) by reflexivity.
    destruct (ImmProofs.fp_imm8_complete 64 (g fabc * 32 + g fdefgh) (or_intror (or_intror eq_refl)) ltac:(lia)) as [_ Hc].
    change (ImmProofs.fp_enc 64 (ImmModel.vfp_expand_imm 64 (g fabc * 32 + g fdefgh))) with (ImmModel.encode_fp_imm8 9 6 48 (ImmModel.vfp_expand_imm 64 (g fabc * 32 + g fdefgh))) in Hc.
    rewrite Hc. Z.div_mod_to_equations. lia.
  - (* SVecListElem *) destruct n as [|k]; [discriminate Hok|]. cbn [veclist_ops app] in H0. cases H0. inversion H0. reflexivity.
  - apply skipn_veclist_ops.
  - (* SImmAff *) replace (base + g f * step - base) with (g f * step) by lia. apply Z.div_mul.
    repeat (apply andb_prop in Hwf; destruct Hwf as [Hwf ?]). apply Z.leb_le in H. lia.
Qed.




Lemma canon_row_forall : forall ss, canon_row_ok ss = true -> forallb syn_canon_ok ss = true.
Proof.
  induction ss as [|s sr IH]; intros H; [reflexivity|]. cbn [canon_row_ok forallb] in *.
  apply andb_prop in H. destruct H as [H Hr]. apply andb_prop in H. destruct H as [Hs _]. rewrite Hs, (IH Hr). reflexivity.
Qed.

Lemma bind_unbind : forall ss g, forallb syn_bij ss = true -> forallb syn_wf ss = true -> forallb syn_hi_ok ss = true ->
  forallb syn_canon_ok ss = true ->
  (forall f w, In (f, w) (flat_map syn_fields ss) -> 0 <= g f < 2 ^ w) ->
  ops_valid ss (flat_map (fun s => unbind1 s g) ss) ->
  bind ss (flat_map (fun s => unbind1 s g) ss) = Some (flat_map (fun s => genv s g) ss).
Proof.
  induction ss as [|s sr IH]; intros g Hb Hwf Hhi Hok Hr Hv; cbn [flat_map bind ops_valid forallb] in *; [reflexivity|].
  apply andb_prop in Hok. destruct Hok as [Ho1 Ho2].
  apply andb_prop in Hb. destruct Hb as [Hb1 Hb2]. apply andb_prop in Hwf. destruct Hwf as [Hw1 Hw2].
  apply andb_prop in Hhi. destruct Hhi as [Hh1 Hh2]. destruct Hv as [Hv1 Hv2].
  assert (R1 : forall f w, In (f, w) (syn_fields s) -> 0 <= g f < 2 ^ w) by (intros f w Hin; apply Hr; apply in_or_app; left; exact Hin).
  pose proof (bind1_unbind1 s g _ Hb1 Hw1 Hh1 Ho1 R1 Hv1) as B1. rewrite B1.
  assert (Hinv : syn_inv s = true) by (destruct s; reflexivity).
  rewrite <- (bind1_rest s _ _ _ Hinv B1) in Hv2.
  rewrite (IH g Hb2 Hw2 Hh2 Ho2); [reflexivity | | exact Hv2].
  intros f w Hin. apply Hr. apply in_or_app. right. exact Hin.
Qed.

Lemma tenc_ext : forall t e1 e2, (forall f, In f (tfields t) -> lookup e1 f = lookup e2 f) -> tenc t e1 = tenc t e2.
Proof.
  induction t as [|i r IH]; intros e1 e2 H; cbn [tenc]; [reflexivity|].
  rewrite (IH e1 e2); [|intros f Hf; apply H; destruct i; cbn [tfields]; [exact Hf | right; exact Hf]].
  f_equal. f_equal. destruct i as [w v|f hi lo]; cbn [ival]; [reflexivity|]. rewrite (H f); [reflexivity | left; reflexivity].
Qed.

Lemma genv_flat : forall ss g, flat_map (fun s => genv s g) ss = map (fun fw => (fst fw, g (fst fw))) (flat_map syn_fields ss).
Proof. induction ss as [|s sr IH]; intros g; cbn [flat_map]; [reflexivity|]. rewrite map_app, IH. reflexivity. Qed.

Lemma genv_lookup : forall ss g f, In f (map fst (flat_map syn_fields ss)) -> lookup (flat_map (fun s => genv s g) ss) f = g f.
Proof.
  intros ss g f Hin. rewrite genv_flat. induction (flat_map syn_fields ss) as [|[k w] l IH]; [destruct Hin|]. cbn [map fst lookup] in *.
  destruct (k =? f) eqn:K; [apply Z.eqb_eq in K; subst; reflexivity|]. destruct Hin as [->|Hin]; [rewrite Z.eqb_refl in K; discriminate | apply IH; exact Hin].
Qed.

Lemma pair_eqb_eq : forall a b, pair_eqb a b = true -> a = b.
Proof. intros [a1 a2] [b1 b2] H. unfold pair_eqb in H. cbn in H. apply andb_prop in H. destruct H as [H1 H2]. apply Z.eqb_eq in H1, H2. subst. reflexivity. Qed.

Lemma bij_width_nonneg : forall s f w, syn_bij s = true -> syn_wf s = true -> In (f, w) (syn_fields s) -> 0 <= w.
Proof.
  intros s f w Hb Hwf Hin. destruct s; try discriminate Hb; cbn [syn_fields syn_wf] in *.
  all: repeat (destruct Hin as [Hin|Hin]; [inversion Hin; subst; clear Hin|]); try destruct Hin; try lia.
  all: repeat (apply andb_prop in Hwf; destruct Hwf as [Hwf ?]);
       repeat match goal with X : (_ <=? _) = true |- _ => apply Z.leb_le in X end; try lia.
Qed.

(* a matching word of a row whose syntaxes are bijective and whose template is simple: if the decoded operands are valid, they encode to it *)
Theorem row_decode_encode : forall r w, row_wf r = true -> forallb syn_hi_ok (r_ops r) = true -> canon_row_ok (r_ops r) = true -> forallb syn_bij (r_ops r) = true ->
  tsimple (r_tmpl r) = true -> tmatch (r_tmpl r) w = true -> ops_valid (r_ops r) (decode_row r w) -> spec_row r (decode_row r w) = Some w.
Proof.
  intros r w Hwf Hhi Hcan Hbij Hsimple Hm Hv.
  unfold row_wf in Hwf. cbv zeta in Hwf.
  apply andb_prop in Hwf. destruct Hwf as [Hwf Hnd]. apply andb_prop in Hwf. destruct Hwf as [Hwf Hlen].
  apply andb_prop in Hwf. destruct Hwf as [Hwf Hsub2]. apply andb_prop in Hwf. destruct Hwf as [Hwf Hsub1].
  apply andb_prop in Hwf. destruct Hwf as [Htw Hsw].
  unfold row_tmpl_wf in Htw. apply andb_prop in Htw. destruct Htw as [Htw Hdecl]. apply andb_prop in Htw. destruct Htw as [Htwf Hfok].
  pose proof Htwf as Htwf'. unfold twf in Htwf'. apply andb_prop in Htwf'. destruct Htwf' as [Hiwf H32]. apply Z.eqb_eq in H32.
  set (t := r_tmpl r) in *. set (ss := r_ops r) in *. set (g := tfield t w).
  pose proof (A64TmplComplete.tmpl_complete_simple t w Hiwf H32 Hsimple Hm) as Hc.
  (* field values read from the word are in range *)
  assert (Hr : forall f W, In (f, W) (flat_map syn_fields ss) -> 0 <= g f < 2 ^ W).
  { intros f W Hin.
    pose proof (proj1 (forallb_forall _ _) Hsub1 (f, W) Hin) as Hex. apply existsb_exists in Hex. destruct Hex as [q [Hq Heq]].
    apply pair_eqb_eq in Heq. subst q.
    pose proof (proj1 (forallb_forall _ _) Hfok (f, W) Hq) as Hfo.
    destruct (tmpl_roundtrip t (env_of t w) Htwf) as (_ & _ & _ & Hf). specialize (Hf f W Hfo). rewrite Hc in Hf.
    unfold g. rewrite Hf.
    assert (0 <= W).
    { apply in_flat_map in Hin. destruct Hin as [s [Hs Hin]].
      apply (bij_width_nonneg s f W); [exact (proj1 (forallb_forall _ _) Hbij s Hs) | exact (proj1 (forallb_forall _ _) Hsw s Hs) | exact Hin]. }
    apply Z.mod_pos_bound. apply Z.pow_pos_nonneg; lia. }
  unfold decode_row in *. fold t ss g in Hv |- *.
  unfold spec_row. fold ss t. rewrite (bind_unbind ss g Hbij Hsw Hhi (canon_row_forall _ Hcan) Hr Hv). f_equal.
  transitivity (tenc t (env_of t w)); [|exact Hc]. apply tenc_ext. intros f Hf.
  rewrite genv_lookup.
  - unfold env_of. rewrite (A64TmplComplete.lookup_map_in (tfield t w) (tfields t) f Hf). reflexivity.
  - unfold fields_declared in Hdecl. pose proof (proj1 (forallb_forall _ _) Hdecl f Hf) as Hex. apply existsb_exists in Hex.
    destruct Hex as [[f0 W0] [Hq Heq]]. cbn [fst] in Heq. apply Z.eqb_eq in Heq. subst f0.
    pose proof (proj1 (forallb_forall _ _) Hsub2 (f, W0) Hq) as Hex2. apply existsb_exists in Hex2. destruct Hex2 as [q [Hq2 Heq2]].
    apply pair_eqb_eq in Heq2. subst q. apply in_map_iff. exists (f, W0). split; [reflexivity | exact Hq2].
Qed.

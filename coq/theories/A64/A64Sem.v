(* C02 — operand semantics of the AArch64 ISA-database rows: operand syntaxes -> field environment -> word.  MODEL ONLY.
   Operands mirror what a caller hands to a64::Assembler::emit (register ids use AsmJit's numbering: 0..30, SP = 31, ZR = 63;
   immediates are signed 64-bit values with a "predicate" (shift/extend kind, AsmJit ShiftOp numbering: LSL 0, LSR 1, ASR 2,
   ROR 3, UXTB 6 .. UXTX 9, SXTB 10 .. SXTX 13); condition codes use AsmJit's CondCode numbering AL 0, NV 1, EQ 2 .. LE 15).
   The field values are the architectural ones (ARM ARM C4/C6). *)
From Coq Require Import ZArith List Bool.
From Verif Require Import A64.A64Tmpl Codec.ImmModel.
Import ListNotations.
Local Open Scope Z_scope.

Inductive operand :=
| OGp (x : bool) (id : Z)
| OImm (pred v : Z)
| OMem (base : Z) (idx : option (bool * Z)) (sop shift off mode : Z)   (* [Xbase {, index, sop #shift} {, #off}]  mode 0 offset / 1 pre / 2 post *)
| OLit (disp : Z)                                                      (* pc-relative literal: label at pc + disp *)
| ORel (disp : Z)                                                      (* branch/adr target: label at pc + disp *)
| OVec (rt et ei id : Z).     (* SIMD&FP register: rt 0..4 = B/H/S/D/Q(V) view, et = element type 0 none,1 B,2 H,3 S,4 D, ei = lane or -1 *)

Inductive opsyn :=
| SGp (x : bool) (hi f : Z)                    (* Wd / Xd (hi = 63: ZR allowed) or Wd|WSP / Xn|SP (hi = 31) *)
| SImmU (f w scale : Z)                        (* #imm*scale: multiple of scale, 0 <= imm/scale < 2^w *)
| SImmS (f w : Z)                              (* #imm, signed w bits (two's complement field) *)
| SCond (f : Z) (inv : bool)                   (* #cond ; inv: CINC/CSET family encode the inverted condition, AL/NV not allowed *)
| SShift (fsop fn kinds maxn : Z)              (* optional {lsl|lsr|asr|ror #n}, kinds = bit mask of allowed ShiftOp, n < maxn *)
| SExtReg (x : bool) (frm fopt fn : Z)         (* Rm, {extend #n} of ADD/SUB/CMP (extended register) *)
| SAddImm (fimm fn : Z)                        (* #imm12 {, lsl #0|12} *)
| SRel (f w scale : Z)                         (* #rel * scale, signed w bits *)
| SMemBase (frn : Z)                           (* [Xn|SP] *)
| SMemOff (frn foff w : Z) (sgn : bool) (scale mode : Z)    (* [Xn|SP, #off*scale] / pre (mode 1) / post (mode 2) *)
| SMemPair (frn foff w scale fnpost fwb : Z) (nf : bool)   (* [Xn|SP, #off*scale]{@}{!}; nf: LDP/STP class, write-back by 0 in normal form *)
| SMemIdx (frn frm fopt fs amount : Z)         (* [Xn|SP, Rm, {uxtw|lsl|sxtw|sxtx #amount}] *)
| SMemLit (foff w : Z)                         (* [PC, #off*4] *)
| SLogImm (x : bool) (f : Z)                   (* #bitmask immediate -> N:immr:imms *)
| SGpDup (x : bool) (hi f f2 : Z)              (* one register written into two fields (ROR #imm = EXTR Rn,Rn; CINC Rn,Rn) *)
| SImmLt (f w lim : Z)                         (* #imm, 0 <= imm < lim (lim <= 2^w): bitfield positions of a 32-bit form, shift amounts *)
| SBitfield (kind size fimmr fimms : Z)        (* kind 0: #lsb,#width -> immr=lsb, imms=lsb+width-1 (xBFX/BFXIL); 1: #lsb,#width -> immr=-lsb mod size,
                                                  imms=width-1 (xBFIZ/BFI/BFC); 2: #n -> immr=-n mod size, imms=size-1-n (LSL #n) *)
| SMovW (x : bool) (fimm fhw : Z)              (* #imm16 {, lsl #0|16|32|48} of MOVZ/MOVN/MOVK *)
| SSysReg (f : Z)
| SImmConst (c : Z)                            (* a literal immediate the syntax requires (#0 of the compare-with-zero forms); binds no field *)
| SVec (rt et f w : Z)                         (* Bd/Hd/Sd/Dd/Qd (et = 0) or Vd.<arrangement> (rt 3 = 64-bit, 4 = 128-bit vector); w-bit register field *)
| SVecElem (et f w fidx widx lanes : Z)
| SVecList (n : nat) (rt et f : Z)             (* { Vt.<T>, Vt2.<T>, ... }: n consecutive registers (modulo 32) of one arrangement; field = first *)
| SMemPostReg (frn frm : Z)                    (* [Xn|SP], Xm   (post-index by register, Xm = x0..x30) *)
| SMemPostImm (frn imm : Z)
| SVShift (lft : bool) (esize fimmh fimmb : Z)
| SSysOp (fop1 fcrm fop2 crn : Z)              (* AT/DC/IC/TLBI operation as AsmJit's 14-bit id op1:CRn:CRm:op2 (CRn implied by the instruction) *)
| SGpPair (x : bool) (f : Z)                   (* CASP register pair: <Rs>, <R(s+1)> with s even, 0..30 (the partner of R30 is ZR); field = s *)
| SImmRsub (f w c lo hi : Z)                   (* #imm with lo <= imm <= hi, field = c - imm (fixed-point conversions: scale = 64 - fbits) *)
| SFpImm (fabc fdefgh : Z)                     (* FMOV #fimm: a floating-point immediate with an 8-bit encoding abc:defgh *)
| SVecListElem (n : nat) (et f fidx widx lanes : Z)
| SImmAff (f w base step : Z).                 (* #imm = base + step * field, 0 <= field < 2^w (FCADD rotation 90 / 270) *)
(* SVecListElem: { Vt.<T>, Vt+1.<T>, ... }[idx]: n consecutive registers (mod 32), one lane; fields Vt, idx *)
(* SFpImm: the operand is an Imm holding a double (modelled as OImm p bits with p >= 256, bits = its IEEE-754 binary64 pattern) or a
   32-bit integer (p < 256), which the assembler converts to double first; accepted iff the value is one of the 256 "imm8" numbers *)
(* SVShift: SIMD shift by immediate: immh:immb = esize + n (left, 0 <= n < esize) or 2*esize - n (right, 1 <= n <= esize) *)
(* SMemPostImm: [Xn|SP], #imm (post-index by the transfer size; the immediate is implied by the form) *)
(* SVecElem: Vm.<T>[#idx]: lane < lanes, register number < 2^w (w = 4 for H lanes of by-element forms) *)
(* SSysReg: system register id in AsmJit's 16-bit form 1:o0:op1:CRn:CRm:op2 *)

Definition gp_ok (id hi : Z) : bool := ((0 <=? id) && (id <=? 30)) || (id =? hi).
Definition fits_u (v w : Z) : bool := (0 <=? v) && (v <? 2 ^ w).
Definition fits_s (v w : Z) : bool := (- 2 ^ (w - 1) <=? v) && (v <? 2 ^ (w - 1)).

(* Rm {, extend #n} of the extended-register forms: p = ShiftOp (0 = LSL stands for UXTX / UXTW by the form's width) *)
Definition ext_bind (x : bool) (frm fopt fn : Z) (xm : bool) (idm p v : Z) : option env :=
  let opt := if p =? 0 then (if x then 3 else 2) else p - 6 in
  let need_x := (opt =? 3) || (opt =? 7) in
  if (0 <=? opt) && (opt <=? 7) && ((p =? 0) || (6 <=? p)) && (0 <=? v) && (v <=? 4) && Bool.eqb xm need_x
     && (x || negb xm) && gp_ok idm 63
  then Some [(frm, idm mod 32); (fopt, opt); (fn, v)] else None.

(* #imm12 {, lsl #12}: sh = explicit shift flag; a value 0x00XXX000 without explicit shift is taken as XXX, lsl #12 *)
Definition addimm_bind (fimm fn v sh : Z) : option env :=
  if (0 <=? v) && (v <=? 4095) then Some [(fimm, v); (fn, sh)]
  else if (sh =? 0) && (0 <=? v) && (v mod 4096 =? 0) && (v / 4096 <=? 4095) then Some [(fimm, v / 4096); (fn, 1)]
  else None.

(* n consecutive registers starting at id (modulo 32), all of view rt / arrangement et, no lane *)
Fixpoint veclist (n : nat) (rt et ei id : Z) (ops : list operand) : option (list operand) :=
  match n with
  | O => Some ops
  | S k => match ops with
           | OVec rt' et' ei' id' :: r =>
             if (rt' =? rt) && (et' =? et) && (ei' =? ei) && (id' =? id) then veclist k rt et ei ((id + 1) mod 32) r else None
           | _ => None
           end
  end.

(* one syntax element consumes a prefix of the operand list and yields field bindings *)
(* IEEE-754 binary64 pattern of a non-zero integer (exact for |v| < 2^53) *)
Definition int_to_f64 (v : Z) : Z :=
  let a := Z.abs v in let e := Z.log2 a in
  (if v <? 0 then 2 ^ 63 else 0) + (1023 + e) * 2 ^ 52 + (a - 2 ^ e) * 2 ^ (52 - e).
(* the double an Imm operand stands for in a floating-point position: its own bits (double Imm, p >= 256) or the converted integer *)
Definition fimm_bits (p v : Z) : Z := if 256 <=? p then v else if v =? 0 then 0 else int_to_f64 v.

Definition bind1 (s : opsyn) (ops : list operand) : option (env * list operand) :=
  match s, ops with
  | SGp x hi f, OGp x' id :: r =>
      if Bool.eqb x x' && gp_ok id hi then Some ([(f, id mod 32)], r) else None
  | SImmU f w scale, OImm _ v :: r => if (v mod scale =? 0) && fits_u (v / scale) w then Some ([(f, v / scale)], r) else None
  | SImmS f w, OImm _ v :: r => if fits_s v w then Some ([(f, v mod 2 ^ w)], r) else None
  | SCond f inv, OImm _ c :: r =>
      if inv then (if (2 <=? c) && (c <=? 15) then Some ([(f, Z.lxor (c - 2) 1)], r) else None)
      else (if (0 <=? c) && (c <=? 15) then Some ([(f, (c - 2) mod 16)], r) else None)
  | SShift fsop fn kinds maxn, [] => Some ([(fsop, 0); (fn, 0)], [])
  | SShift fsop fn kinds maxn, OImm p v :: r =>
      if (0 <=? p) && Z.testbit kinds p && (0 <=? v) && (v <? maxn) then Some ([(fsop, p); (fn, v)], r) else None
  | SExtReg x frm fopt fn, OGp xm idm :: r =>
      match r with
      | [] => match ext_bind x frm fopt fn xm idm 0 0 with Some e => Some (e, []) | None => None end
      | [OImm p v] => match ext_bind x frm fopt fn xm idm p v with Some e => Some (e, []) | None => None end
      | _ => None
      end
  | SAddImm fimm fn, OImm _ v :: r =>
      match r with
      | OImm p s :: r' =>
          if (p =? 0) && ((s =? 0) || (s =? 12))
          then match addimm_bind fimm fn v (if s =? 0 then 0 else 1) with Some e => Some (e, r') | None => None end
          else None
      | _ => match addimm_bind fimm fn v 0 with Some e => Some (e, r) | None => None end
      end
  | SRel f w scale, ORel d :: r =>
      if (d mod scale =? 0) && fits_s (d / scale) w then Some ([(f, (d / scale) mod 2 ^ w)], r) else None
  | SMemBase frn, OMem b None _ _ off mode :: r =>
      (* a write-back mode with offset 0 changes nothing: accepted in its normal form (the plain [Xn] word), cf. SMemPair *)
      if (0 <=? b) && (b <=? 31) && (off =? 0) && (0 <=? mode) && (mode <=? 2) then Some ([(frn, b)], r) else None
  | SMemOff frn foff w sgn scale mode, OMem b None _ _ off m :: r =>
      if (0 <=? b) && (b <=? 31) && (m =? mode) && (off mod scale =? 0) && (if sgn then fits_s (off / scale) w else fits_u (off / scale) w)
      then Some ([(frn, b); (foff, (off / scale) mod 2 ^ w)], r) else None
  | SMemPair frn foff w scale fnpost fwb nf, OMem b None _ _ off m :: r =>
      if (0 <=? b) && (b <=? 31) && (0 <=? m) && (m <=? 2) && (off mod scale =? 0) && fits_s (off / scale) w
      then (* write-back by zero is emitted in its normal form: the plain signed-offset encoding (DESIGN 7.27) *)
           let m' := if nf && (off =? 0) then 0 else m in
           Some ([(frn, b); (foff, (off / scale) mod 2 ^ w); (fnpost, if m' =? 2 then 0 else 1); (fwb, if m' =? 0 then 0 else 1)], r)
      else None
  | SMemIdx frn frm fopt fs amount, OMem b (Some (xi, i)) sop sh off m :: r =>
      let opt := if sop =? 8 then 2 else if sop =? 0 then 3 else if sop =? 12 then 6 else if sop =? 13 then 7 else -1 in
      let need_x := (opt =? 3) || (opt =? 7) in
      if (0 <=? b) && (b <=? 31) && (0 <=? opt) && Bool.eqb xi need_x && gp_ok i 63 && (off =? 0) && (m =? 0)
         && ((sh =? 0) || (sh =? amount))
      then Some ([(frn, b); (frm, i mod 32); (fopt, opt); (fs, if sh =? 0 then 0 else 1)], r) else None
  | SMemLit foff w, OLit d :: r =>
      if (d mod 4 =? 0) && fits_s (d / 4) w then Some ([(foff, (d / 4) mod 2 ^ w)], r) else None
  | SLogImm x f, OImm _ v :: r =>
      let width := if x then 64 else 32 in
      (* the operand is a signed 64-bit value; for the 32-bit form its upper 32 bits must be a zero- or sign-extension *)
      if (if x then (- 2 ^ 63 <=? v) && (v <? 2 ^ 64) else (- 2 ^ 32 <=? v) && (v <? 2 ^ 32)) then
        match encode_logical_imm (v mod 2 ^ width) width with
        | Some li =>
          (* N:immr:imms must be a 13-bit field value (always true of the encoder; stated so that the range needs no proof about it) *)
          if fits_u (li_n li) 1 && fits_u (li_r li) 6 && fits_u (li_s li) 6
          then Some ([(f, li_n li * 4096 + li_r li * 64 + li_s li)], r) else None
        | None => None
        end
      else None
  | SGpDup x hi f f2, OGp x' id :: r =>
      if Bool.eqb x x' && gp_ok id hi then Some ([(f, id mod 32); (f2, id mod 32)], r) else None
  | SImmLt f w lim, OImm _ v :: r => if (0 <=? v) && (v <? lim) then Some ([(f, v)], r) else None
  | SBitfield kind size fimmr fimms, OImm _ a :: r =>
      if kind =? 2 then
        (if (0 <=? a) && (a <? size) then Some ([(fimmr, (size - a) mod size); (fimms, size - 1 - a)], r) else None)
      else match r with
           | OImm _ width :: r' =>
             if (0 <=? a) && (a <? size) && (1 <=? width) && (width <=? size - a) then
               (if kind =? 0 then Some ([(fimmr, a); (fimms, a + width - 1)], r')
                else Some ([(fimmr, (size - a) mod size); (fimms, width - 1)], r'))
             else None
           | _ => None
           end
  | SMovW x fimm fhw, OImm _ v :: r =>
      if (0 <=? v) && (v <=? 65535) then
        match r with
        | OImm p s :: r' =>
          if (p =? 0) && ((s =? 0) || (s =? 16) || (x && ((s =? 32) || (s =? 48)))) then Some ([(fimm, v); (fhw, s / 16)], r') else None
        | _ => Some ([(fimm, v); (fhw, 0)], r)
        end
      else None
  | SSysReg f, OImm _ v :: r => if (32768 <=? v) && (v <=? 65535) then Some ([(f, v - 32768)], r) else None
  | SImmConst c, OImm _ v :: r => if v =? c then Some ([], r) else None
  | SVec rt et f w, OVec rt' et' ei id :: r =>
      if (rt' =? rt) && (et' =? et) && (ei =? -1) && fits_u id w then Some ([(f, id)], r) else None
  | SVecElem et f w fidx widx lanes, OVec rt' et' ei id :: r =>
      if (rt' =? 4) && (et' =? et) && (0 <=? ei) && (ei <? lanes) && fits_u id w then Some ([(f, id); (fidx, ei)], r) else None
  | SVecList n rt et f, OVec _ _ _ id :: _ =>
      if fits_u id 5 then match veclist n rt et (-1) id ops with Some r => Some ([(f, id)], r) | None => None end else None
  | SVecListElem n et f fidx widx lanes, OVec _ _ ei id :: _ =>
      if fits_u id 5 && (0 <=? ei) && (ei <? lanes)
      then match veclist n 4 et ei id ops with Some r => Some ([(f, id); (fidx, ei)], r) | None => None end else None
  | SMemPostReg frn frm, OMem b (Some (xi, i)) sop sh off m :: r =>
      if (0 <=? b) && (b <=? 31) && xi && (0 <=? i) && (i <=? 30) && (sop =? 0) && (sh =? 0) && (off =? 0) && (m =? 2)
      then Some ([(frn, b); (frm, i)], r) else None
  | SMemPostImm frn imm, OMem b None _ _ off m :: r =>
      if (0 <=? b) && (b <=? 31) && (off =? imm) && (m =? 2) then Some ([(frn, b)], r) else None
  | SSysOp fop1 fcrm fop2 crn, OImm _ v :: r =>
      if (0 <=? v) && (v <? 16384) && ((v / 128) mod 16 =? crn) then Some ([(fop1, v / 2048); (fcrm, (v / 8) mod 16); (fop2, v mod 8)], r) else None
  | SGpPair x f, OGp x1 id1 :: OGp x2 id2 :: r =>
      if Bool.eqb x x1 && Bool.eqb x x2 && (0 <=? id1) && (id1 <=? 30) && Z.even id1 && (id2 =? (if id1 =? 30 then 63 else id1 + 1))
      then Some ([(f, id1)], r) else None
  | SImmAff f w base step, OImm _ v :: r =>
      if ((v - base) mod step =? 0) && fits_u ((v - base) / step) w then Some ([(f, (v - base) / step)], r) else None
  | SImmRsub f w c lo hi, OImm _ v :: r => if (lo <=? v) && (v <=? hi) then Some ([(f, c - v)], r) else None
  | SFpImm fabc fdefgh, OImm p v :: r =>
      let b := fimm_bits p v in
      let i := encode_fp_imm8 9 6 48 b in
      (* the first conjunct is the assembler's is_int32() test; 0 <= b < 2^64 and 0 <= i < 256 always hold (kept so that ranges need no lemma) *)
      if ((256 <=? p) || ((- 2 ^ 31 <=? v) && (v <? 2 ^ 31))) && (0 <=? b) && (b <? 2 ^ 64) && is_fp_imm8 9 6 48 b && (0 <=? i) && (i <? 256)
      then Some ([(fabc, i / 32); (fdefgh, i mod 32)], r) else None
  | SVShift lft esize fimmh fimmb, OImm _ n :: r =>
      if (if lft then (0 <=? n) && (n <? esize) else (1 <=? n) && (n <=? esize)) then
        let v := if lft then esize + n else 2 * esize - n in
        Some ([(fimmh, v / 8); (fimmb, v mod 8)], r)
      else None
  | _, _ => None
  end.

Fixpoint bind (ss : list opsyn) (ops : list operand) : option env :=
  match ss with
  | [] => match ops with [] => Some [] | _ => None end
  | s :: sr =>
    match bind1 s ops with
    | Some (e1, rest) => match bind sr rest with Some e2 => Some (e1 ++ e2) | None => None end
    | None => None
    end
  end.

Record row := { r_id : Z; r_mn : Z; r_ops : list opsyn; r_tmpl : tmpl; r_fields : list (Z * Z) }.

Definition spec_row (r : row) (ops : list operand) : option Z :=
  match bind (r_ops r) ops with Some e => Some (tenc (r_tmpl r) e) | None => None end.

(* instruction level: the first row of the mnemonic that admits the operands *)
Fixpoint spec_rows (db : list row) (mn : Z) (ops : list operand) : option (Z * Z) :=
  match db with
  | [] => None
  | r :: rest =>
    if r_mn r =? mn then
      match spec_row r ops with Some w => Some (r_id r, w) | None => spec_rows rest mn ops end
    else spec_rows rest mn ops
  end.

(* MOV Rd, #imm (pseudo instruction): a single MOVZ/MOVN when one suffices and Rd is not SP, else ORR Rd, ZR, #bitmask when the
   value is a bitmask immediate (the only form that can write SP), else the MOVZ/MOVN + MOVK sequence of Codec.ImmModel (the C17
   model of encode_mov_sequence_64; its words are specified by execution, see the python oracle).  rd is AsmJit's register id. *)
Definition spec_mov_imm (x : bool) (rd v : Z) : option (list Z) :=
  if negb (if x then (- 2 ^ 63 <=? v) && (v <? 2 ^ 64) else (- 2 ^ 32 <=? v) && (v <? 2 ^ 32)) then None else
  let width := if x then 64 else 32 in
  let imm := v mod 2 ^ width in
  let seq := encode_mov_sequence true imm (rd mod 32) (if x then 1 else 0) in
  if (Z.of_nat (length seq) =? 1) && gp_ok rd 63 then Some seq
  else match (if rd =? 63 then None else encode_logical_imm imm width) with
       | Some li => if gp_ok rd 31 && fits_u (li_n li) 1 && fits_u (li_r li) 6 && fits_u (li_s li) 6
                    then Some [ (if x then 2 ^ 31 else 0) + 838861792 (* 0x320003E0 *) + li_n li * 2 ^ 22 + li_r li * 2 ^ 16 + li_s li * 2 ^ 10 + rd mod 32 ]
                    else None
       | None => if gp_ok rd 63 then Some seq else None
       end.

(* alt: mnemonic -> fall-back mnemonic (LDR/STR (immediate) with an offset that only the unscaled form can hold is LDUR/STUR) *)
Definition spec_a64_rows (db : list row) (alt : list (Z * Z)) (mn : Z) (ops : list operand) : option (Z * list Z) :=
  match spec_rows db mn ops with
  | Some (id, w) => Some (id, [w])
  | None =>
    match find (fun p => fst p =? mn) alt with
    | Some (_, mn') => match spec_rows db mn' ops with Some (id, w) => Some (id, [w]) | None => None end
    | None => None
    end
  end.

(* ---- inverse operand map (decoder side): canonical operands from field values ---- *)
Definition sext (v w : Z) : Z := if v <? 2 ^ (w - 1) then v else v - 2 ^ w.

(* syntaxes whose operands are recovered by unbind1 (the others are named in the _partial theorem) *)
Definition syn_inv (s : opsyn) : bool :=
  match s with
  | SGp _ _ _ | SImmU _ _ _ | SImmS _ _ | SCond _ _ | SRel _ _ _ | SMemBase _ | SMemOff _ _ _ _ _ _ | SMemLit _ _ | SShift _ _ _ _
  | SVec _ _ _ _ | SVecElem _ _ _ _ _ _
  | SGpDup _ _ _ _ | SImmLt _ _ _ | SSysReg _ | SImmConst _ | SMemPostImm _ _ | SMemPostReg _ _ | SMemIdx _ _ _ _ _ | SMemPair _ _ _ _ _ _ _
  | SVShift _ _ _ _ | SMovW _ _ _ | SBitfield _ _ _ _ | SAddImm _ _ | SExtReg _ _ _ _ | SLogImm _ _ | SVecList _ _ _ _ | SGpPair _ _ | SSysOp _ _ _ _
  | SImmRsub _ _ _ _ _ | SFpImm _ _ | SVecListElem _ _ _ _ _ _ | SImmAff _ _ _ _ => true
  end.

(* the n registers of a list starting at id *)
Fixpoint veclist_ops (n : nat) (rt et ei id : Z) : list operand :=
  match n with O => [] | S k => OVec rt et ei id :: veclist_ops k rt et ei ((id + 1) mod 32) end.

Definition unbind1 (s : opsyn) (g : Z -> Z) : list operand :=
  match s with
  | SGp x hi f => [OGp x (if g f =? 31 then hi else g f)]
  | SImmU f w scale => [OImm 0 (g f * scale)]
  | SImmS f w => [OImm 0 (sext (g f) w)]
  | SCond f inv => [OImm 0 (if inv then Z.lxor (g f) 1 + 2 else (g f + 2) mod 16)]
  | SRel f w scale => [ORel (sext (g f) w * scale)]
  | SMemBase frn => [OMem (g frn) None 0 0 0 0]
  | SMemOff frn foff w sgn scale mode => [OMem (g frn) None 0 0 ((if sgn then sext (g foff) w else g foff) * scale) mode]
  | SMemLit foff w => [OLit (sext (g foff) w * 4)]
  | SShift fsop fn _ _ => [OImm (g fsop) (g fn)]
  | SVec rt et f _ => [OVec rt et (-1) (g f)]
  | SVecElem et f _ fidx _ _ => [OVec 4 et (g fidx) (g f)]
  | SGpDup x hi f _ => [OGp x (if g f =? 31 then hi else g f)]
  | SImmLt f _ _ => [OImm 0 (g f)]
  | SSysReg f => [OImm 0 (g f + 32768)]
  | SImmConst c => [OImm 0 c]
  | SMemPostImm frn imm => [OMem (g frn) None 0 0 imm 2]
  | SMemPostReg frn frm => [OMem (g frn) (Some (true, g frm)) 0 0 0 2]
  | SMemIdx frn frm fopt fs amount =>
      let opt := g fopt in
      [OMem (g frn) (Some ((opt =? 3) || (opt =? 7), if g frm =? 31 then 63 else g frm))
            (if opt =? 2 then 8 else if opt =? 3 then 0 else if opt =? 6 then 12 else 13) (if g fs =? 0 then 0 else amount) 0 0]
  | SMemPair frn foff w scale fnpost fwb _ =>
      [OMem (g frn) None 0 0 (sext (g foff) w * scale) (if g fwb =? 0 then 0 else if g fnpost =? 0 then 2 else 1)]
  | SVShift lft esize fimmh fimmb =>
      let v := g fimmh * 8 + g fimmb in [OImm 0 (if lft then v - esize else 2 * esize - v)]
  | SMovW _ fimm fhw => [OImm 0 (g fimm); OImm 0 (g fhw * 16)]
  | SBitfield kind size fimmr fimms =>
      if kind =? 2 then [OImm 0 (size - 1 - g fimms)]
      else if kind =? 0 then [OImm 0 (g fimmr); OImm 0 (g fimms - g fimmr + 1)]
      else [OImm 0 ((size - g fimmr) mod size); OImm 0 (g fimms + 1)]
  | SAddImm fimm fn => [OImm 0 (g fimm); OImm 0 (12 * g fn)]
  | SExtReg _ frm fopt fn =>
      let opt := g fopt in
      [OGp ((opt =? 3) || (opt =? 7)) (if g frm =? 31 then 63 else g frm); OImm (opt + 6) (g fn)]
  | SLogImm x f =>
      let F := g f in
      match decode_bit_masks (if x then 64 else 32) (F / 4096) (F mod 64) ((F / 64) mod 64) with
      | Some v => [OImm 0 v]
      | None => []
      end
  | SVecList n rt et f => veclist_ops n rt et (-1) (g f)
  | SVecListElem n et f fidx _ _ => veclist_ops n 4 et (g fidx) (g f)
  | SImmAff f _ base step => [OImm 0 (base + g f * step)]
  | SGpPair x f => [OGp x (g f); OGp x (if g f =? 30 then 63 else g f + 1)]
  | SSysOp fop1 fcrm fop2 crn => [OImm 0 (g fop1 * 2048 + crn * 128 + g fcrm * 8 + g fop2)]
  | SImmRsub f _ c _ _ => [OImm 0 (c - g f)]
  | SFpImm fabc fdefgh => [OImm 256 (vfp_expand_imm 64 (g fabc * 32 + g fdefgh))]
  end.

(* canonical form of the operands a syntax element consumed: don't-care parts (predicate of a plain immediate, index fields of
   an address without index, write-back mode of a zero offset on a no-offset form) are normalised, an omitted shift is "lsl #0" *)
Definition canon1 (s : opsyn) (ops : list operand) : option (list operand * list operand) :=   (* (canonical consumed, rest) *)
  match s, ops with
  | SGp _ _ _, o :: r => Some ([o], r)
  | (SImmU _ _ _ | SImmS _ _ | SCond _ _), OImm _ v :: r => Some ([OImm 0 v], r)
  | (SRel _ _ _ | SMemLit _ _ | SVec _ _ _ _ | SVecElem _ _ _ _ _ _), o :: r => Some ([o], r)
  | SMemBase _, OMem b None _ _ _ _ :: r => Some ([OMem b None 0 0 0 0], r)
  | SMemOff _ _ _ _ _ _, OMem b None _ _ off m :: r => Some ([OMem b None 0 0 off m], r)
  | SShift _ _ _ _, [] => Some ([OImm 0 0], [])
  | SShift _ _ _ _, o :: r => Some ([o], r)
  | (SGpDup _ _ _ _ | SMemPostReg _ _ | SMemIdx _ _ _ _ _), o :: r => Some ([o], r)
  | (SImmLt _ _ _ | SSysReg _ | SImmConst _ | SImmRsub _ _ _ _ _ | SImmAff _ _ _ _), OImm _ v :: r => Some ([OImm 0 v], r)
  | SMemPostImm _ _, OMem b None _ _ off m :: r => Some ([OMem b None 0 0 off m], r)
  | SMemPair _ _ _ _ _ _ nf, OMem b None _ _ off m :: r => Some ([OMem b None 0 0 off (if nf && (off =? 0) then 0 else m)], r)
  | SVShift _ _ _ _, OImm _ n :: r => Some ([OImm 0 n], r)
  (* MOVZ/MOVN/MOVK: the shift is made explicit *)
  | SMovW _ _ _, OImm _ v :: OImm _ s :: r => Some ([OImm 0 v; OImm 0 s], r)
  | SMovW _ _ _, OImm _ v :: r => Some ([OImm 0 v; OImm 0 0], r)
  | SBitfield kind _ _ _, OImm _ a :: r =>
      if kind =? 2 then Some ([OImm 0 a], r)
      else match r with OImm _ w :: r' => Some ([OImm 0 a; OImm 0 w], r') | _ => None end
  (* ADD/SUB immediate: imm12 and the shift made explicit (0x00XXX000 is XXX, lsl #12) *)
  | SAddImm _ _, OImm _ v :: r =>
      let '(s, r') := match r with OImm _ s :: r' => (s, r') | _ => (0, r) end in
      if (0 <=? v) && (v <=? 4095) then Some ([OImm 0 v; OImm 0 s], r') else Some ([OImm 0 (v / 4096); OImm 0 12], r')
  (* extended register: the extend kind made explicit (LSL stands for UXTX / UXTW), amount 0 when omitted *)
  | SExtReg x _ _ _, OGp xm idm :: r =>
      match r with
      | [] => Some ([OGp xm idm; OImm (if x then 9 else 8) 0], [])
      | [OImm p v] => Some ([OGp xm idm; OImm (if p =? 0 then (if x then 9 else 8) else p) v], [])
      | _ => None
      end
  (* bitmask immediate: the unsigned value of the register width *)
  | SLogImm x _, OImm _ v :: r => Some ([OImm 0 (v mod 2 ^ (if x then 64 else 32))], r)
  | SVecList n rt et _, OVec _ _ _ id :: _ =>
      match veclist n rt et (-1) id ops with Some r => Some (veclist_ops n rt et (-1) id, r) | None => None end
  | SVecListElem n et _ _ _ _, OVec _ _ ei id :: _ =>
      match veclist n 4 et ei id ops with Some r => Some (veclist_ops n 4 et ei id, r) | None => None end
  | SGpPair _ _, o1 :: o2 :: r => Some ([o1; o2], r)
  | SSysOp _ _ _ _, OImm _ v :: r => Some ([OImm 0 v], r)
  | SFpImm _ _, OImm p v :: r => Some ([OImm 256 (fimm_bits p v)], r)      (* the double the assembler works with *)
  | _, _ => None
  end.

Fixpoint canon (ss : list opsyn) (ops : list operand) : option (list operand) :=
  match ss with
  | [] => Some []
  | s :: sr => match canon1 s ops with
               | Some (c, rest) => match canon sr rest with Some cr => Some (c ++ cr) | None => None end
               | None => None
               end
  end.

(* syntaxes for which the canonical form needs a side condition of the row: an omitted shift is written LSL #0 (LSL must be an allowed
   kind and 0 an allowed amount), a register list has at least one member *)
Definition syn_canon_ok (s : opsyn) : bool :=
  match s with
  | SShift _ _ kinds maxn => Z.testbit kinds 0 && (0 <? maxn)
  | SVecList n _ _ _ => negb (Nat.eqb n 0)
  | SVecListElem n _ _ _ _ _ => negb (Nat.eqb n 0)
  | _ => true
  end.

(* the extended-register operand is the last one of its forms (the encoder looks at the whole remaining list) *)
Definition syn_last (s : opsyn) : bool := match s with SExtReg _ _ _ _ => true | _ => false end.

Fixpoint canon_row_ok (ss : list opsyn) : bool :=
  match ss with
  | [] => true
  | s :: sr => syn_canon_ok s && (if syn_last s then match sr with [] => true | _ => false end else true) && canon_row_ok sr
  end.

(* hi ids of the generated rows are 31 or 63 *)
Definition syn_hi_ok (s : opsyn) : bool :=
  match s with SGp _ hi _ | SGpDup _ hi _ _ => (hi =? 31) || (hi =? 63) | _ => true end.
(* rows all of whose operand syntaxes are inverted by unbind1 *)
Definition row_inv (r : row) : bool := forallb syn_inv (r_ops r) && forallb syn_hi_ok (r_ops r).

Definition decode_row (r : row) (w : Z) : list operand := flat_map (fun s => unbind1 s (tfield (r_tmpl r) w)) (r_ops r).

(* instruction level incl. the MOV-immediate pseudo instruction (mov_mn = mnemonic number of "mov"; row id -1) *)
Definition spec_a64 (db : list row) (alt : list (Z * Z)) (mov_mn : Z) (mn : Z) (ops : list operand) : option (Z * list Z) :=
  match ops with
  | [OGp x rd; OImm _ v] =>
    if mn =? mov_mn then match spec_mov_imm x rd v with Some ws => Some (-1, ws) | None => None end
    else spec_a64_rows db alt mn ops
  | _ => spec_a64_rows db alt mn ops
  end.

(* declared width of the fields a syntax element binds; checked against the template by reflection for every row *)
Definition syn_fields (s : opsyn) : list (Z * Z) :=
  match s with
  | SGp _ _ f => [(f, 5)]
  | SImmU f w _ => [(f, w)]
  | SImmS f w => [(f, w)]
  | SCond f _ => [(f, 4)]
  | SShift fsop fn _ maxn => [(fsop, 2); (fn, 6)]
  | SExtReg _ frm fopt fn => [(frm, 5); (fopt, 3); (fn, 3)]
  | SAddImm fimm fn => [(fimm, 12); (fn, 1)]
  | SRel f w _ => [(f, w)]
  | SMemBase frn => [(frn, 5)]
  | SMemOff frn foff w _ _ _ => [(frn, 5); (foff, w)]
  | SMemPair frn foff w _ fnpost fwb _ => [(frn, 5); (foff, w); (fnpost, 1); (fwb, 1)]
  | SMemIdx frn frm fopt fs _ => [(frn, 5); (frm, 5); (fopt, 3); (fs, 1)]
  | SMemLit foff w => [(foff, w)]
  | SLogImm _ f => [(f, 13)]
  | SGpDup _ _ f f2 => [(f, 5); (f2, 5)]
  | SImmLt f w _ => [(f, w)]
  | SBitfield _ _ fimmr fimms => [(fimmr, 6); (fimms, 6)]
  | SMovW _ fimm fhw => [(fimm, 16); (fhw, 2)]
  | SSysReg f => [(f, 15)]
  | SImmConst _ => []
  | SVec _ _ f w => [(f, w)]
  | SVecElem _ f w fidx widx _ => [(f, w); (fidx, widx)]
  | SVecList _ _ _ f => [(f, 5)]
  | SMemPostReg frn frm => [(frn, 5); (frm, 5)]
  | SMemPostImm frn _ => [(frn, 5)]
  | SVShift _ _ fimmh fimmb => [(fimmh, 4); (fimmb, 3)]
  | SGpPair _ f => [(f, 5)]
  | SSysOp fop1 fcrm fop2 _ => [(fop1, 3); (fcrm, 4); (fop2, 3)]
  | SImmRsub f w _ _ _ => [(f, w)]
  | SFpImm fabc fdefgh => [(fabc, 3); (fdefgh, 5)]
  | SVecListElem _ _ f fidx widx _ => [(f, 5); (fidx, widx)]
  | SImmAff f w _ _ => [(f, w)]
  end.

Definition syn_wf (s : opsyn) : bool :=
  match s with
  | SImmU _ w scale => (0 <=? w) && (w <=? 32) && (1 <=? scale)
  | SImmS _ w => (1 <=? w) && (w <=? 32)
  | SShift _ _ kinds maxn => (0 <=? kinds) && (kinds <? 16) && (0 <=? maxn) && (maxn <=? 64)
  | SRel _ w scale => (1 <=? w) && (1 <=? scale)
  | SMemOff _ _ w _ scale _ => (1 <=? w) && (1 <=? scale)
  | SMemPair _ _ w scale _ _ _ => (1 <=? w) && (1 <=? scale)
  | SMemLit _ w => 1 <=? w
  | SImmLt _ w lim => (0 <=? w) && (w <=? 32) && (0 <=? lim) && (lim <=? 2 ^ w)
  | SBitfield kind size _ _ => (0 <=? kind) && (kind <=? 2) && ((size =? 32) || (size =? 64))
  | SSysOp _ _ _ crn => (0 <=? crn) && (crn <? 16)
  | SImmRsub _ w c lo hi => (0 <=? w) && (w <=? 32) && (0 <=? c - hi) && (c - lo <? 2 ^ w)
  | SVShift _ esize _ _ => (esize =? 8) || (esize =? 16) || (esize =? 32) || (esize =? 64)
  | SVec _ _ _ w => (0 <=? w) && (w <=? 5)
  | SImmAff _ w _ step => (0 <=? w) && (w <=? 32) && (1 <=? step)
  | SVecListElem _ _ _ _ widx lanes => (0 <=? widx) && (widx <=? 4) && (0 <=? lanes) && (lanes <=? 2 ^ widx)
  | SVecElem _ _ w _ widx lanes => (0 <=? w) && (w <=? 5) && (0 <=? widx) && (widx <=? 4) && (0 <=? lanes) && (lanes <=? 2 ^ widx)
  | _ => true
  end.

Definition pair_eqb (a b : Z * Z) : bool := (fst a =? fst b) && (snd a =? snd b).
Fixpoint nodupb (l : list Z) : bool :=
  match l with [] => true | x :: r => negb (existsb (Z.eqb x) r) && nodupb r end.
(* every field bound by the syntaxes is a field of the template with exactly that width, every template field is bound
   by exactly one syntax element, and the template is well formed *)
Definition row_wf (r : row) : bool :=
  let sf := flat_map syn_fields (r_ops r) in
  row_tmpl_wf (r_tmpl r) (r_fields r) && forallb syn_wf (r_ops r)
  && forallb (fun p => existsb (pair_eqb p) (r_fields r)) sf
  && forallb (fun p => existsb (pair_eqb p) sf) (r_fields r)
  && (length sf =? length (r_fields r))%nat && nodupb (map fst sf).

(* operand syntaxes that are BIJECTIVE between in-range field values and valid operands (the others have several encodings of one operand
   - bitmask immediates with a non-canonical N:immr:imms, zero write-back, imm12 0 with lsl #12 - or optional / look-ahead operands) *)
Definition syn_bij (s : opsyn) : bool :=
  match s with
  | SGp _ _ _ | SImmU _ _ _ | SImmS _ _ | SImmLt _ _ _ | SImmConst _ | SRel _ _ _ | SMemOff _ _ _ _ _ _ | SMemLit _ _
  | SVec _ _ _ _ | SVecElem _ _ _ _ _ _ | SSysReg _ | SImmRsub _ _ _ _ _ | SImmAff _ _ _ _ | SMemPostImm _ _ | SMemPostReg _ _
  | SSysOp _ _ _ _ | SCond _ _
  | SShift _ _ _ _ | SVShift _ _ _ _ | SMemBase _ | SGpPair _ _ | SMovW _ _ _
  | SVecList _ _ _ _ | SVecListElem _ _ _ _ _ _ | SFpImm _ _ | SAddImm _ _ | SExtReg _ _ _ _ => true
  | _ => false
  end.

(* ---- completeness of the template codec (every word that carries the fixed bits is the encoding of its own field values) ---- *)
(* the environment read from a word: every field of the template with the value tfield reads *)
Definition env_of (t : tmpl) (w : Z) : env := map (fun f => (f, tfield t w f)) (tfields t).
(* templates whose fields are written as ONE whole slice each (TField f (W-1) 0, every field once): scope of C02_tmpl_complete_simple *)
Definition simple_item (i : titem) : bool := match i with TField _ _ lo => lo =? 0 | TFixed _ _ => true end.
Definition tsimple (t : tmpl) : bool := forallb simple_item t && nodupb (tfields t).

(* ---- pairwise disjointness of the rows: two rows whose FIXED bits differ somewhere can never produce the same word ---- *)
(* signature of a row: (id, fixed-bit value, fixed-bit mask) *)
Definition row_sig (r : row) : Z * Z * Z := (r_id r, tfixed (r_tmpl r), tmask (r_tmpl r)).
Definition sig_conflict (f1 m1 f2 m2 : Z) : bool := negb (Z.land (Z.lxor f1 f2) (Z.land m1 m2) =? 0).
(* ov: the recorded pairs of rows whose fixed bits do NOT separate them (same mnemonic written in two forms, aliases, a general form and
   its special cases), with a class tag *)
Definition in_overlap (ov : list (Z * Z * Z)) (i1 i2 : Z) : bool :=
  existsb (fun p => let '(a, b, _) := p in ((a =? i1) && (b =? i2)) || ((a =? i2) && (b =? i1))) ov.
Definition sig_ok (ov : list (Z * Z * Z)) (a b : Z * Z * Z) : bool :=
  let '(i1, f1, m1) := a in let '(i2, f2, m2) := b in
  (* if-then-else, not orb: the virtual machine evaluates function arguments eagerly *)
  if i1 =? i2 then true else if sig_conflict f1 m1 f2 m2 then true else in_overlap ov i1 i2.
Definition sigs_pairwise_ok (ov : list (Z * Z * Z)) (sigs : list (Z * Z * Z)) : bool :=
  forallb (fun a => forallb (sig_ok ov a) sigs) sigs.
(* the same check over the unordered pairs only (each element against the ones after it): half the work of sigs_pairwise_ok *)
Fixpoint sigs_tails_ok (ov : list (Z * Z * Z)) (sigs : list (Z * Z * Z)) : bool :=
  match sigs with [] => true | a :: r => forallb (sig_ok ov a) r && sigs_tails_ok ov r end.
(* the recorded list is tight: every recorded pair consists of two rows of the list whose fixed bits do not conflict *)
Definition sig_of (sigs : list (Z * Z * Z)) (i : Z) : option (Z * Z) :=
  match find (fun x => let '(j, _, _) := x in j =? i) sigs with Some (_, f, m) => Some (f, m) | None => None end.
Definition overlap_tight (ov : list (Z * Z * Z)) (sigs : list (Z * Z * Z)) : bool :=
  forallb (fun p => let '(a, b, _) := p in
     match sig_of sigs a, sig_of sigs b with Some (f1, m1), Some (f2, m2) => negb (sig_conflict f1 m1 f2 m2) | _, _ => false end) ov.

(* ---- opcode constants of the assembler's EncodingData tables vs the database rows ---- *)
(* entry = (instruction id, opcode word of the table row, class-variable bits, ids of the database rows of that instruction) *)
(* opcode LITERALS written in the encoder's source (classes without a table constant): every database row of the instruction agrees
   with at least one of the literals of its encoding case *)
Definition lit_entry_ok (db : list row) (e : Z * list Z * Z * list Z) : bool :=
  let '(_, ws, var, rids) := e in
  forallb (fun rid => match find (fun r => r_id r =? rid) db with
                      | Some r => existsb (fun w => tword_agrees (r_tmpl r) w var) ws
                      | None => false
                      end) rids.
Definition table_entry_ok (db : list row) (e : Z * Z * Z * list Z) : bool :=
  let '(_, w, var, rids) := e in
  forallb (fun rid => match find (fun r => r_id r =? rid) db with
                      | Some r => tword_agrees (r_tmpl r) w var
                      | None => false
                      end) rids.

(* C02 — instruction level: the specification refuses a mnemonic/operand list exactly when no database row of the mnemonic (nor of its
   fall-back mnemonic) accepts the operands; and it returns the FIRST accepting row in database order.  PROOFS ONLY. *)
From Coq Require Import ZArith List Bool Lia.
From Verif Require Import A64.A64Tmpl A64.A64Sem.
Import ListNotations.
Local Open Scope Z_scope.

Lemma spec_rows_none : forall db mn ops, spec_rows db mn ops = None <->
  (forall r, In r db -> r_mn r = mn -> spec_row r ops = None).
Proof.
  induction db as [|r rest IH]; intros mn ops; cbn [spec_rows].
  - split; [intros _ r [] | reflexivity].
  - destruct (r_mn r =? mn) eqn:E.
    + apply Z.eqb_eq in E. destruct (spec_row r ops) as [w|] eqn:S.
      * split; [discriminate|]. intros H. specialize (H r (or_introl eq_refl) E). congruence.
      * rewrite IH. split.
        -- intros H r' [<-|Hi] Hm; [exact S | exact (H r' Hi Hm)].
        -- intros H r' Hi Hm. exact (H r' (or_intror Hi) Hm).
    + apply Z.eqb_neq in E. rewrite IH. split.
      * intros H r' [<-|Hi] Hm; [contradiction | exact (H r' Hi Hm)].
      * intros H r' Hi Hm. exact (H r' (or_intror Hi) Hm).
Qed.

(* the answer is the first accepting row of the mnemonic: every row of the mnemonic before it refuses *)
Lemma spec_rows_first : forall db mn ops id w, spec_rows db mn ops = Some (id, w) ->
  exists pre r post, db = pre ++ r :: post /\ r_id r = id /\ r_mn r = mn /\ spec_row r ops = Some w /\
                     (forall r', In r' pre -> r_mn r' = mn -> spec_row r' ops = None).
Proof.
  induction db as [|r rest IH]; intros mn ops id w H; cbn [spec_rows] in H; [discriminate|].
  destruct (r_mn r =? mn) eqn:E.
  - apply Z.eqb_eq in E. destruct (spec_row r ops) as [w0|] eqn:S.
    + inversion H; subst. exists [], r, rest. repeat split; auto. intros r' [].
    + destruct (IH mn ops id w H) as (pre & r1 & post & Hd & A & B & C & D).
      exists (r :: pre), r1, post. subst rest. repeat split; auto.
      intros r' [<-|Hi] Hm; [exact S | exact (D r' Hi Hm)].
  - apply Z.eqb_neq in E. destruct (IH mn ops id w H) as (pre & r1 & post & Hd & A & B & C & D).
    exists (r :: pre), r1, post. subst rest. repeat split; auto.
    intros r' [<-|Hi] Hm; [contradiction | exact (D r' Hi Hm)].
Qed.

(* instruction-level refusal: None exactly when no row of the mnemonic and no row of its fall-back mnemonic accepts *)
Theorem spec_a64_rows_none : forall db alt mn ops, spec_a64_rows db alt mn ops = None <->
  (forall r, In r db -> r_mn r = mn -> spec_row r ops = None) /\
  (forall mn', find (fun p => fst p =? mn) alt = Some (mn, mn') \/ (exists k, find (fun p => fst p =? mn) alt = Some (k, mn')) ->
               forall r, In r db -> r_mn r = mn' -> spec_row r ops = None).
Proof.
  intros db alt mn ops. unfold spec_a64_rows.
  destruct (spec_rows db mn ops) as [[id w]|] eqn:S1.
  - split; [discriminate|]. intros [H _]. apply spec_rows_none in H. congruence.
  - pose proof (proj1 (spec_rows_none db mn ops) S1) as N1.
    destruct (find (fun p => fst p =? mn) alt) as [[k mn']|] eqn:F.
    + destruct (spec_rows db mn' ops) as [[id w]|] eqn:S2.
      * split; [discriminate|]. intros [_ H].
        assert (X : spec_rows db mn' ops = None) by (apply spec_rows_none; apply (H mn'); right; exists k; reflexivity). congruence.
      * split; [|reflexivity]. intros _. split; [exact N1|].
        intros m [Hm|[k' Hm]]; inversion Hm; subst; apply spec_rows_none; exact S2.
    + split; [|reflexivity]. intros _. split; [exact N1|]. intros m [Hm|[k' Hm]]; discriminate.
Qed.

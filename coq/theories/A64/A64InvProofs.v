(* C02 — proofs that the operand map is inverted by the decoder side (unbind1 / decode_row) for the invertible syntaxes. *)
From Coq Require Import ZArith List Bool Lia.
From Verif Require Import A64.A64Tmpl A64.A64TmplProofs A64.A64Sem A64.A64SemProofs.
Import ListNotations.
Local Open Scope Z_scope.

Lemma sext_mod : forall v w, 1 <= w -> fits_s v w = true -> sext (v mod 2 ^ w) w = v.
Proof.
  intros v w Hw H. unfold fits_s in H. b2p. unfold sext.
  assert (Hp : 2 ^ w = 2 * 2 ^ (w - 1)). { replace w with (Z.succ (w - 1)) at 1 by lia. apply Z.pow_succ_r. lia. }
  assert (0 < 2 ^ (w - 1)) by (apply Z.pow_pos_nonneg; lia).
  destruct (Z_lt_ge_dec v 0) as [Hn|Hn].
  - assert (E : v mod 2 ^ w = v + 2 ^ w). { symmetry. apply Z.mod_unique with (q := -1); lia. }
    rewrite E. destruct (v + 2 ^ w <? 2 ^ (w - 1)) eqn:C; b2p; lia.
  - rewrite Z.mod_small by lia. destruct (v <? 2 ^ (w - 1)) eqn:C; b2p; lia.
Qed.

Lemma cond_inv_plain : forall c, 0 <= c <= 15 -> ((c - 2) mod 16 + 2) mod 16 = c.
Proof.
  intros c H.
  assert (E : c = 0 \/ c = 1 \/ c = 2 \/ c = 3 \/ c = 4 \/ c = 5 \/ c = 6 \/ c = 7 \/ c = 8 \/ c = 9 \/ c = 10 \/ c = 11 \/ c = 12 \/ c = 13 \/ c = 14 \/ c = 15) by lia.
  repeat (destruct E as [E | E]; [subst; reflexivity|]). subst. reflexivity.
Qed.

Lemma cond_inv_inverted : forall c, 2 <= c <= 15 -> Z.lxor (Z.lxor (c - 2) 1) 1 + 2 = c.
Proof. intros c H. rewrite Z.lxor_assoc, Z.lxor_nilpotent, Z.lxor_0_r. lia. Qed.

Lemma gp_id_back : forall id hi, (hi = 31 \/ hi = 63) -> gp_ok id hi = true -> (if id mod 32 =? 31 then hi else id mod 32) = id.
Proof.
  intros id hi Hh H. unfold gp_ok in H. apply orb_prop in H. destruct H as [H|H]; b2p.
  - rewrite Z.mod_small by lia. destruct (id =? 31) eqn:E; b2p; lia.
  - subst id. destruct Hh; subst; reflexivity.
Qed.


Lemma nodup4 : forall a b c d, nodupb [a; b; c; d] = true ->
  (a =? b) = false /\ (a =? c) = false /\ (a =? d) = false /\ (b =? c) = false /\ (b =? d) = false /\ (c =? d) = false.
Proof.
  intros a b c d H. cbn in H. rewrite !orb_false_r, !andb_true_r in H.
  apply andb_prop in H. destruct H as [H1 H]. apply andb_prop in H. destruct H as [H2 H3].
  apply negb_true_iff in H1, H2, H3. apply orb_false_iff in H1. destruct H1 as [H1 H1'']. apply orb_false_iff in H1''. destruct H1'' as [H1' H1''].
  apply orb_false_iff in H2. destruct H2 as [H2 H2']. repeat split; assumption.
Qed.

Lemma opt_back : forall sop, let opt := (if sop =? 8 then 2 else if sop =? 0 then 3 else if sop =? 12 then 6 else if sop =? 13 then 7 else -1) in
  0 <= opt -> (if opt =? 2 then 8 else if opt =? 3 then 0 else if opt =? 6 then 12 else 13) = sop.
Proof.
  intros sop opt H. subst opt.
  destruct (sop =? 8) eqn:E1; [b2p; subst; reflexivity|]. destruct (sop =? 0) eqn:E2; [b2p; subst; reflexivity|].
  destruct (sop =? 12) eqn:E3; [b2p; subst; reflexivity|]. destruct (sop =? 13) eqn:E4; [b2p; subst; reflexivity|]. lia.
Qed.

Theorem unbind1_bind1 : forall s ops e rest,
  syn_wf s = true -> syn_hi_ok s = true -> syn_inv s = true -> nodupb (map fst (syn_fields s)) = true ->
  bind1 s ops = Some (e, rest) ->
  canon1 s ops = Some (unbind1 s (lookup e), rest).
Proof.
  intros s ops e rest Hwf Hhi Hinv Hnd H.
  destruct s; try discriminate; cbn [bind1 canon1 unbind1 syn_wf syn_hi_ok syn_fields map fst nodupb existsb] in *.
  - (* SGp *) destruct ops as [|[] r]; try discriminate.
    destruct (Bool.eqb x x0 && gp_ok id hi) eqn:E; inversion H; subst. apply andb_prop in E. destruct E as [Ex Eg].
    apply Bool.eqb_prop in Ex. subst x0. cbn [lookup]. rewrite Z.eqb_refl.
    rewrite gp_id_back; [reflexivity| |exact Eg]. apply orb_prop in Hhi. destruct Hhi as [Hh|Hh]; b2p; [left|right]; lia.
  - (* SImmU *) destruct ops as [|[] r]; try discriminate. unfold fits_u in H.
    destruct ((v mod scale =? 0) && ((0 <=? v / scale) && (v / scale <? 2 ^ w))) eqn:E; inversion H; subst. b2p.
    cbn [lookup]. rewrite Z.eqb_refl.
    assert (X : v / scale * scale = v) by (pose proof (Z.div_mod v scale ltac:(lia)); lia). rewrite X. reflexivity.
  - (* SImmS *) destruct ops as [|[] r]; try discriminate.
    destruct (fits_s v w) eqn:E; inversion H; subst. b2p. cbn [lookup]. rewrite Z.eqb_refl. rewrite sext_mod; [reflexivity|lia|exact E].
  - (* SCond *) destruct ops as [|[] r]; try discriminate. destruct inv.
    + destruct ((2 <=? v) && (v <=? 15)) eqn:E; inversion H; subst. b2p. cbn [lookup]. rewrite Z.eqb_refl.
      rewrite cond_inv_inverted by lia. reflexivity.
    + destruct ((0 <=? v) && (v <=? 15)) eqn:E; inversion H; subst. b2p. cbn [lookup]. rewrite Z.eqb_refl.
      rewrite cond_inv_plain by lia. reflexivity.
  - (* SShift *) apply andb_prop in Hnd. destruct Hnd as [Hne _]. cbn in Hne. rewrite orb_false_r in Hne. apply negb_true_iff in Hne.
    destruct ops as [|[] r]; try discriminate.
    + inversion H; subst. cbn [lookup]. rewrite !Z.eqb_refl, Hne. reflexivity.
    + destruct ((0 <=? pred) && Z.testbit kinds pred && (0 <=? v) && (v <? maxn)) eqn:E; inversion H; subst.
      cbn [lookup]. rewrite !Z.eqb_refl, Hne. reflexivity.
  - (* SRel *) destruct ops as [|[] r]; try discriminate.
    destruct ((disp mod scale =? 0) && fits_s (disp / scale) w) eqn:E; inversion H; subst. apply andb_prop in E. destruct E as [E1 E2]. b2p.
    cbn [lookup]. rewrite Z.eqb_refl. rewrite sext_mod; [|lia|exact E2].
    assert (X : disp / scale * scale = disp) by (pose proof (Z.div_mod disp scale ltac:(lia)); lia). rewrite X. reflexivity.
  - (* SMemBase *) destruct ops as [|[] r]; try discriminate. destruct idx; try discriminate.
    match type of H with (if ?c then _ else _) = _ => destruct c eqn:E; inversion H; subst end.
    cbn [lookup]. rewrite Z.eqb_refl. reflexivity.
  - (* SMemOff *) apply andb_prop in Hnd. destruct Hnd as [Hne _]. cbn in Hne. rewrite orb_false_r in Hne. apply negb_true_iff in Hne.
    destruct ops as [|[] r]; try discriminate. destruct idx; try discriminate.
    match type of H with (if ?c then _ else _) = _ => destruct c eqn:E; inversion H; subst end.
    cbn [lookup]. rewrite !Z.eqb_refl, Hne.
    repeat (apply andb_prop in E; destruct E as [E ?]). b2p. subst mode0.
    assert (X : off / scale * scale = off) by (pose proof (Z.div_mod off scale ltac:(lia)); lia).
    destruct sgn.
    + rewrite sext_mod; [|lia|assumption]. rewrite X. reflexivity.
    + unfold fits_u in *. b2p. rewrite Z.mod_small by lia. rewrite X. reflexivity.
  - (* SMemPair *) destruct (nodup4 _ _ _ _ Hnd) as (N1 & N2 & N3 & N4 & N5 & N6).
    destruct ops as [|[] r]; try discriminate. destruct idx; try discriminate.
    match type of H with (if ?c then _ else _) = _ => destruct c eqn:E; inversion H; subst end.
    cbn [lookup]. rewrite !Z.eqb_refl, N1, N2, N3, N4, N5, N6.
    repeat (apply andb_prop in E; destruct E as [E ?]).
    match goal with X : fits_s _ _ = true |- _ => rename X into Hfit end. b2p.
    rewrite sext_mod; [|lia|exact Hfit].
    assert (X : off / scale * scale = off) by (pose proof (Z.div_mod off scale ltac:(lia)); lia). rewrite X.
    assert (M : mode = 0 \/ mode = 1 \/ mode = 2) by lia.
    destruct (nf && (off =? 0)); [reflexivity|]. destruct M as [M|[M|M]]; subst mode; reflexivity.
  - (* SMemIdx *) destruct (nodup4 _ _ _ _ Hnd) as (N1 & N2 & N3 & N4 & N5 & N6).
    destruct ops as [|[] r]; try discriminate. destruct idx as [[xi i]|]; try discriminate.
    match type of H with (if ?c then _ else _) = _ => destruct c eqn:E; inversion H; subst end.
    cbn [lookup]. rewrite !Z.eqb_refl, N1, N2, N3, N4, N5, N6.
    repeat (apply andb_prop in E; destruct E as [E ?]).
    match goal with X : gp_ok _ _ = true |- _ => rename X into Hgp end.
    match goal with X : Bool.eqb _ _ = true |- _ => apply Bool.eqb_prop in X; rename X into Hx end.
    match goal with X : _ || _ = true |- _ => rename X into Hsh end. b2p. subst off mode.
    rewrite (gp_id_back i 63 (or_intror eq_refl) Hgp). rewrite opt_back by lia. rewrite <- Hx.
    apply orb_prop in Hsh. destruct Hsh as [Hs|Hs]; b2p; subst shift.
    + reflexivity.
    + destruct (amount =? 0) eqn:Ea; [b2p; subst; reflexivity | reflexivity].
  - (* SMemLit *) destruct ops as [|[] r]; try discriminate.
    destruct ((disp mod 4 =? 0) && fits_s (disp / 4) w) eqn:E; inversion H; subst. apply andb_prop in E. destruct E as [E1 E2]. b2p.
    cbn [lookup]. rewrite Z.eqb_refl. rewrite sext_mod; [|lia|exact E2].
    assert (X : disp / 4 * 4 = disp) by (pose proof (Z.div_mod disp 4 ltac:(lia)); lia). rewrite X. reflexivity.
  - (* SGpDup *) apply andb_prop in Hnd. destruct Hnd as [Hne _]. cbn in Hne. rewrite orb_false_r in Hne. apply negb_true_iff in Hne.
    destruct ops as [|[] r]; try discriminate.
    destruct (Bool.eqb x x0 && gp_ok id hi) eqn:E; inversion H; subst. apply andb_prop in E. destruct E as [Ex Eg].
    apply Bool.eqb_prop in Ex. subst x0. cbn [lookup]. rewrite Z.eqb_refl.
    rewrite gp_id_back; [reflexivity| |exact Eg]. apply orb_prop in Hhi. destruct Hhi as [Hh|Hh]; b2p; [left|right]; lia.
  - (* SImmLt *) destruct ops as [|[] r]; try discriminate.
    destruct ((0 <=? v) && (v <? lim)) eqn:E; inversion H; subst. cbn [lookup]. rewrite Z.eqb_refl. reflexivity.
  - (* SSysReg *) destruct ops as [|[] r]; try discriminate.
    destruct ((32768 <=? v) && (v <=? 65535)) eqn:E; inversion H; subst. cbn [lookup]. rewrite Z.eqb_refl.
    replace (v - 32768 + 32768) with v by lia. reflexivity.
  - (* SImmConst *) destruct ops as [|[] r]; try discriminate.
    destruct (v =? c) eqn:E; inversion H; subst. b2p. subst. reflexivity.
  - (* SVec *) destruct ops as [|[] r]; try discriminate.
    match type of H with (if ?c then _ else _) = _ => destruct c eqn:E; inversion H; subst end.
    repeat (apply andb_prop in E; destruct E as [E ?]). b2p. subst. cbn [lookup]. rewrite Z.eqb_refl. reflexivity.
  - (* SVecElem *) apply andb_prop in Hnd. destruct Hnd as [Hne _]. cbn in Hne. rewrite orb_false_r in Hne. apply negb_true_iff in Hne.
    destruct ops as [|[] r]; try discriminate.
    match type of H with (if ?c then _ else _) = _ => destruct c eqn:E; inversion H; subst end.
    cbn [lookup]. rewrite !Z.eqb_refl, Hne.
    repeat (apply andb_prop in E; destruct E as [E ?]). b2p. subst. reflexivity.
  - (* SMemPostReg *) apply andb_prop in Hnd. destruct Hnd as [Hne _]. cbn in Hne. rewrite orb_false_r in Hne. apply negb_true_iff in Hne.
    destruct ops as [|[] r]; try discriminate. destruct idx as [[xi i]|]; try discriminate.
    match type of H with (if ?c then _ else _) = _ => destruct c eqn:E; inversion H; subst end.
    cbn [lookup]. rewrite !Z.eqb_refl, Hne.
    repeat (apply andb_prop in E; destruct E as [E ?]). b2p. subst. reflexivity.
  - (* SMemPostImm *) destruct ops as [|[] r]; try discriminate. destruct idx; try discriminate.
    match type of H with (if ?c then _ else _) = _ => destruct c eqn:E; inversion H; subst end.
    cbn [lookup]. rewrite !Z.eqb_refl.
    repeat (apply andb_prop in E; destruct E as [E ?]). b2p. subst. reflexivity.
Qed.

Lemma nodupb_app : forall l1 l2, nodupb (l1 ++ l2) = true -> nodupb l1 = true /\ nodupb l2 = true.
Proof.
  induction l1 as [|x r IH]; intros l2 H; cbn in *. { split; [reflexivity|exact H]. }
  apply andb_prop in H. destruct H as [Hx Hr]. destruct (IH l2 Hr) as [H1 H2]. split; [|exact H2].
  rewrite H1, andb_true_r. apply negb_true_iff in Hx. apply negb_true_iff.
  rewrite existsb_app in Hx. apply orb_false_iff in Hx. tauto.
Qed.

Lemma unbind1_ext : forall s g1 g2, (forall f, In f (map fst (syn_fields s)) -> g1 f = g2 f) -> unbind1 s g1 = unbind1 s g2.
Proof.
  intros s g1 g2 H. destruct s; cbn [unbind1 syn_fields map fst] in *; try reflexivity.
  all: repeat (rewrite H by (cbn; tauto)); reflexivity.
Qed.

Lemma in_names_value : forall (e : env) f, In f (map fst e) -> exists v, In (f, v) e.
Proof. induction e as [|[k x] r IH]; cbn; intros f H; [destruct H|]. destruct H as [->|H]; [exists x; left; reflexivity|]. destruct (IH f H) as [v Hv]. exists v. right. exact Hv. Qed.

Definition syn_all_ok (s : opsyn) : bool := syn_wf s && syn_hi_ok s && syn_inv s.

Lemma canon_bind : forall ss ops e g,
  forallb syn_all_ok ss = true -> nodupb (map fst (flat_map syn_fields ss)) = true ->
  bind ss ops = Some e -> (forall f v, In (f, v) e -> g f = v) ->
  canon ss ops = Some (flat_map (fun s => unbind1 s g) ss).
Proof.
  induction ss as [|s sr IH]; intros ops e g Hok Hnd Hb Hg; cbn [bind canon flat_map] in *. { reflexivity. }
  apply andb_prop in Hok. destruct Hok as [Hs Hr]. unfold syn_all_ok in Hs.
  apply andb_prop in Hs. destruct Hs as [Hs Hinv]. apply andb_prop in Hs. destruct Hs as [Hwf Hhi].
  destruct (bind1 s ops) as [[e1 rest]|] eqn:E1; try discriminate.
  destruct (bind sr rest) as [e2|] eqn:E2; inversion Hb; subst. clear Hb.
  rewrite map_app in Hnd. destruct (nodupb_app _ _ Hnd) as [Hn1 Hn2].
  rewrite (unbind1_bind1 s ops e1 rest Hwf Hhi Hinv Hn1 E1).
  rewrite (IH rest e2 g Hr Hn2 E2); [|intros f v Hin; apply Hg; apply in_or_app; right; exact Hin].
  f_equal. f_equal. apply unbind1_ext. intros f Hf.
  pose proof (bind1_range s ops e1 rest Hwf E1) as Hok1. rewrite <- (env_ok_names _ _ Hok1) in Hf.
  destruct (in_names_value e1 f Hf) as [v Hv].
  rewrite (lookup_in e1 f v); [|rewrite (env_ok_names _ _ Hok1); exact Hn1|exact Hv].
  symmetry. apply Hg. apply in_or_app. left. exact Hv.
Qed.

(* Operands are recovered from the word: decoding the word of a well-formed row with the inverse operand map gives back the
   operands in canonical form (for the rows all of whose operand syntaxes are invertible here). *)
Theorem operands_recovered : forall r ops w, row_wf r = true -> row_inv r = true ->
  spec_row r ops = Some w -> canon (r_ops r) ops = Some (decode_row r w).
Proof.
  intros r ops w Hwf Hinv H.
  destruct (spec_row_fields_recovered r ops w Hwf H) as (_ & _ & e & Hb & _ & Hrec).
  unfold decode_row. apply (canon_bind (r_ops r) ops e); try assumption.
  - unfold row_wf in Hwf. unfold row_inv in Hinv. apply andb_prop in Hinv. destruct Hinv as [Hi Hh].
    repeat (apply andb_prop in Hwf; destruct Hwf as [Hwf ?]).
    apply forallb_forall. intros s Hs. unfold syn_all_ok.
    rewrite forallb_forall in Hi, Hh. rewrite (Hi s Hs), (Hh s Hs).
    match goal with X : forallb syn_wf _ = true |- _ => rewrite forallb_forall in X; rewrite (X s Hs) end. reflexivity.
  - unfold row_wf in Hwf. apply andb_prop in Hwf. destruct Hwf as [_ Hnd]. exact Hnd.
Qed.

(* instruction level: a word produced by spec_a64 is the word of one of the rows (of the mnemonic or of its fall-back mnemonic) *)
Lemma spec_rows_in : forall db mn ops id w, spec_rows db mn ops = Some (id, w) ->
  exists r, In r db /\ r_id r = id /\ r_mn r = mn /\ spec_row r ops = Some w.
Proof.
  induction db as [|r rest IH]; intros mn ops id w H; cbn in H; [discriminate|].
  destruct (r_mn r =? mn) eqn:E.
  - destruct (spec_row r ops) as [w0|] eqn:S.
    + inversion H; subst. exists r. apply Z.eqb_eq in E. repeat split; auto. left; reflexivity.
    + destruct (IH mn ops id w H) as [r' [Hi X]]. exists r'. split; [right; exact Hi | exact X].
  - destruct (IH mn ops id w H) as [r' [Hi X]]. exists r'. split; [right; exact Hi | exact X].
Qed.

Theorem spec_a64_from_row : forall db alt mn ops id ws, spec_a64_rows db alt mn ops = Some (id, ws) ->
  exists r w, In r db /\ r_id r = id /\ ws = [w] /\ spec_row r ops = Some w /\
              (r_mn r = mn \/ exists p, In p alt /\ fst p = mn /\ snd p = r_mn r).
Proof.
  intros db alt mn ops id ws H. unfold spec_a64_rows in H.
  destruct (spec_rows db mn ops) as [[id0 w0]|] eqn:E.
  - inversion H; subst. destruct (spec_rows_in _ _ _ _ _ E) as [r [Hi [Hid [Hmn Hs]]]]. exists r, w0. repeat split; auto.
  - destruct (find (fun p => fst p =? mn) alt) as [[a b]|] eqn:F; [|discriminate].
    destruct (spec_rows db b ops) as [[id0 w0]|] eqn:E2; inversion H; subst.
    destruct (spec_rows_in _ _ _ _ _ E2) as [r [Hi [Hid [Hmn Hs]]]]. exists r, w0. repeat split; auto.
    right. exists (a, b). apply find_some in F. destruct F as [Fi Fe]. cbn in Fe. apply Z.eqb_eq in Fe. cbn. auto.
Qed.

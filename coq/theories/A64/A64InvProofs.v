(* C02 — proofs that the operand map is inverted by the decoder side (unbind1 / decode_row) for the invertible syntaxes. *)
From Coq Require Import ZArith List Bool Lia.
From Verif Require Import A64.A64Tmpl A64.A64TmplProofs A64.A64Sem A64.A64SemProofs Codec.ImmModel Codec.ImmProofs Codec.LogImmSound.
Import ListNotations.
Local Open Scope Z_scope.

Lemma sext_mod : forall v w, 1 <= w -> fits_s v w = true -> sext (v mod 2 ^ w) w = v.
Proof.
  intros v w Hw H. unfold fits_s in H. b2p. unfold sext.
  assert (Hp : 2 ^ w = 2 * 2 ^ (w - 1)). { replace w with (Z.succ (w - 1)) at 1 by lia. apply Z.pow_succ_r. lia. }
  assert (0 < 2 ^ (w - 1)) by (apply Z.pow_pos_nonneg; lia).
  destruct (Z_lt_ge_dec v 0) as [Hn|Hn].
  - assert (E : v mod 2 ^ w = v + 2 ^ w). { symmetry. apply Z.mod_unique with (q := -1); lia. }
    rewrite E. destruct (v + 2 ^ w <? 2 ^ (w - 1)) eqn:C; b2p; lia.
  - rewrite Z.mod_small by lia. destruct (v <? 2 ^ (w - 1)) eqn:C; b2p; lia.
Qed.

Lemma cond_inv_plain : forall c, 0 <= c <= 15 -> ((c - 2) mod 16 + 2) mod 16 = c.
Proof.
  intros c H.
  assert (E : c = 0 \/ c = 1 \/ c = 2 \/ c = 3 \/ c = 4 \/ c = 5 \/ c = 6 \/ c = 7 \/ c = 8 \/ c = 9 \/ c = 10 \/ c = 11 \/ c = 12 \/ c = 13 \/ c = 14 \/ c = 15) by lia.
  repeat (destruct E as [E | E]; [subst; reflexivity|]). subst. reflexivity.
Qed.

Lemma cond_inv_inverted : forall c, 2 <= c <= 15 -> Z.lxor (Z.lxor (c - 2) 1) 1 + 2 = c.
Proof. intros c H. rewrite Z.lxor_assoc, Z.lxor_nilpotent, Z.lxor_0_r. lia. Qed.

Lemma gp_id_back : forall id hi, (hi = 31 \/ hi = 63) -> gp_ok id hi = true -> (if id mod 32 =? 31 then hi else id mod 32) = id.
Proof.
  intros id hi Hh H. unfold gp_ok in H. apply orb_prop in H. destruct H as [H|H]; b2p.
  - rewrite Z.mod_small by lia. destruct (id =? 31) eqn:E; b2p; lia.
  - subst id. destruct Hh; subst; reflexivity.
Qed.


Lemma nodup4 : forall a b c d, nodupb [a; b; c; d] = true ->
  (a =? b) = false /\ (a =? c) = false /\ (a =? d) = false /\ (b =? c) = false /\ (b =? d) = false /\ (c =? d) = false.
Proof.
  intros a b c d H. cbn in H. rewrite !orb_false_r, !andb_true_r in H.
  apply andb_prop in H. destruct H as [H1 H]. apply andb_prop in H. destruct H as [H2 H3].
  apply negb_true_iff in H1, H2, H3. apply orb_false_iff in H1. destruct H1 as [H1 H1'']. apply orb_false_iff in H1''. destruct H1'' as [H1' H1''].
  apply orb_false_iff in H2. destruct H2 as [H2 H2']. repeat split; assumption.
Qed.

Lemma opt_back : forall sop, let opt := (if sop =? 8 then 2 else if sop =? 0 then 3 else if sop =? 12 then 6 else if sop =? 13 then 7 else -1) in
  0 <= opt -> (if opt =? 2 then 8 else if opt =? 3 then 0 else if opt =? 6 then 12 else 13) = sop.
Proof.
  intros sop opt H. subst opt.
  destruct (sop =? 8) eqn:E1; [b2p; subst; reflexivity|]. destruct (sop =? 0) eqn:E2; [b2p; subst; reflexivity|].
  destruct (sop =? 12) eqn:E3; [b2p; subst; reflexivity|]. destruct (sop =? 13) eqn:E4; [b2p; subst; reflexivity|]. lia.
Qed.

Lemma nodup2 : forall a b, nodupb [a; b] = true -> (a =? b) = false.
Proof. intros a b H. cbn in H. rewrite orb_false_r, andb_true_r in H. apply negb_true_iff in H. exact H. Qed.

Lemma nodup3 : forall a b c, nodupb [a; b; c] = true -> (a =? b) = false /\ (a =? c) = false /\ (b =? c) = false.
Proof.
  intros a b c H. cbn in H. rewrite !orb_false_r, !andb_true_r in H. apply andb_prop in H. destruct H as [H1 H2].
  apply negb_true_iff in H1, H2. apply orb_false_iff in H1. tauto.
Qed.

Lemma neg_mod_back : forall size a, 0 < size -> 0 <= a < size -> (size - (size - a) mod size) mod size = a.
Proof.
  intros size a Hs Ha. destruct (Z.eq_dec a 0) as [->|Hn].
  - rewrite Z.sub_0_r, Z.mod_same by lia. rewrite Z.sub_0_r, Z.mod_same by lia. reflexivity.
  - rewrite (Z.mod_small (size - a)) by lia. replace (size - (size - a)) with a by lia. apply Z.mod_small. lia.
Qed.

Lemma logimm_fields_back : forall n r s, 0 <= n < 2 -> 0 <= r < 64 -> 0 <= s < 64 ->
  let F := n * 4096 + r * 64 + s in F / 4096 = n /\ F mod 64 = s /\ (F / 64) mod 64 = r.
Proof. intros n r s Hn Hr Hs F. subst F. repeat split; Z.div_mod_to_equations; lia. Qed.

Theorem unbind1_bind1 : forall s ops e rest,
  syn_wf s = true -> syn_hi_ok s = true -> syn_inv s = true -> nodupb (map fst (syn_fields s)) = true ->
  bind1 s ops = Some (e, rest) ->
  canon1 s ops = Some (unbind1 s (lookup e), rest).
Proof.
  intros s ops e rest Hwf Hhi Hinv Hnd H.
  destruct s; try discriminate; cbn [bind1 canon1 unbind1 syn_wf syn_hi_ok syn_fields map fst nodupb existsb] in *.
  - (* SGp *) destruct ops as [|[] r]; try discriminate.
    destruct (Bool.eqb x x0 && gp_ok id hi) eqn:E; inversion H; subst. apply andb_prop in E. destruct E as [Ex Eg].
    apply Bool.eqb_prop in Ex. subst x0. cbn [lookup]. rewrite Z.eqb_refl.
    rewrite gp_id_back; [reflexivity| |exact Eg]. apply orb_prop in Hhi. destruct Hhi as [Hh|Hh]; b2p; [left|right]; lia.
  - (* SImmU *) destruct ops as [|[] r]; try discriminate. unfold fits_u in H.
    destruct ((v mod scale =? 0) && ((0 <=? v / scale) && (v / scale <? 2 ^ w))) eqn:E; inversion H; subst. b2p.
    cbn [lookup]. rewrite Z.eqb_refl.
    assert (X : v / scale * scale = v) by (pose proof (Z.div_mod v scale ltac:(lia)); lia). rewrite X. reflexivity.
  - (* SImmS *) destruct ops as [|[] r]; try discriminate.
    destruct (fits_s v w) eqn:E; inversion H; subst. b2p. cbn [lookup]. rewrite Z.eqb_refl. rewrite sext_mod; [reflexivity|lia|exact E].
  - (* SCond *) destruct ops as [|[] r]; try discriminate. destruct inv.
    + destruct ((2 <=? v) && (v <=? 15)) eqn:E; inversion H; subst. b2p. cbn [lookup]. rewrite Z.eqb_refl.
      rewrite cond_inv_inverted by lia. reflexivity.
    + destruct ((0 <=? v) && (v <=? 15)) eqn:E; inversion H; subst. b2p. cbn [lookup]. rewrite Z.eqb_refl.
      rewrite cond_inv_plain by lia. reflexivity.
  - (* SShift *) apply andb_prop in Hnd. destruct Hnd as [Hne _]. cbn in Hne. rewrite orb_false_r in Hne. apply negb_true_iff in Hne.
    destruct ops as [|[] r]; try discriminate.
    + inversion H; subst. cbn [lookup]. rewrite !Z.eqb_refl, Hne. reflexivity.
    + destruct ((0 <=? pred) && Z.testbit kinds pred && (0 <=? v) && (v <? maxn)) eqn:E; inversion H; subst.
      cbn [lookup]. rewrite !Z.eqb_refl, Hne. reflexivity.
  - (* SExtReg *) destruct (nodup3 _ _ _ Hnd) as (N1 & N2 & N3).
    destruct ops as [|[] r]; try discriminate.
    assert (X : forall p v e0, ext_bind x frm fopt fn x0 id p v = Some e0 ->
                [OGp x0 id; OImm (if p =? 0 then (if x then 9 else 8) else p) v] =
                [OGp ((lookup e0 fopt =? 3) || (lookup e0 fopt =? 7)) (if lookup e0 frm =? 31 then 63 else lookup e0 frm); OImm (lookup e0 fopt + 6) (lookup e0 fn)]).
    { intros p v e0 Hb. unfold ext_bind in Hb.
      match type of Hb with (if ?c then _ else _) = _ => destruct c eqn:E; inversion Hb; subst end.
      cbn [lookup]. rewrite !Z.eqb_refl, N1, N2, N3.
      repeat (apply andb_prop in E; destruct E as [E ?]).
      match goal with Y : gp_ok _ _ = true |- _ => rewrite (gp_id_back id 63 (or_intror eq_refl) Y) end.
      match goal with Y : Bool.eqb _ _ = true |- _ => apply Bool.eqb_prop in Y; rewrite <- Y end.
      destruct (p =? 0) eqn:P0; [destruct x; reflexivity|]. replace (p - 6 + 6) with p by lia. reflexivity. }
    destruct r as [|[] [|? ?]]; try discriminate; cbn [canon1].
    + destruct (ext_bind x frm fopt fn x0 id 0 0) as [e0|] eqn:Eb; try discriminate. injection H as <- <-. rewrite <- (X 0 0 e0 Eb). reflexivity.
    + destruct (ext_bind x frm fopt fn x0 id pred v) as [e0|] eqn:Eb; try discriminate. injection H as <- <-. rewrite <- (X pred v e0 Eb). reflexivity.
  - (* SAddImm *) pose proof (nodup2 _ _ Hnd) as N1.
    destruct ops as [|[] r]; try discriminate.
    assert (X : forall sh s e0, 12 * sh = s -> (sh = 0 \/ 0 <= v <= 4095) -> addimm_bind fimm fn v sh = Some e0 ->
                (if (0 <=? v) && (v <=? 4095) then [OImm 0 v; OImm 0 s] else [OImm 0 (v / 4096); OImm 0 12]) =
                [OImm 0 (lookup e0 fimm); OImm 0 (12 * lookup e0 fn)]).
    { intros sh s e0 Hs Hor Hb. unfold addimm_bind in Hb.
      destruct ((0 <=? v) && (v <=? 4095)) eqn:E1.
      - inversion Hb; subst. cbn [lookup]. rewrite !Z.eqb_refl, N1. reflexivity.
      - match type of Hb with (if ?c then _ else _) = _ => destruct c eqn:E2; inversion Hb; subst end.
        cbn [lookup]. rewrite !Z.eqb_refl, N1. reflexivity. }
    destruct r as [|[] r']; cbn [canon1].
    all: try (destruct (addimm_bind fimm fn v 0) as [e0|] eqn:Eb; [|discriminate]; injection H as <- <-;
              rewrite <- (X 0 0 e0 eq_refl (or_introl eq_refl) Eb); destruct ((0 <=? v) && (v <=? 4095)); reflexivity).
    destruct ((pred0 =? 0) && ((v0 =? 0) || (v0 =? 12))) eqn:Ep; try discriminate.
    destruct (addimm_bind fimm fn v (if v0 =? 0 then 0 else 1)) as [e0|] eqn:Eb; [|discriminate]. injection H as <- <-.
    apply andb_prop in Ep. destruct Ep as [_ Ep].
    assert (Hs12 : 12 * (if v0 =? 0 then 0 else 1) = v0).
    { apply orb_prop in Ep. destruct Ep as [Ep|Ep]; b2p; subst; reflexivity. }
    assert (Hor : (if v0 =? 0 then 0 else 1) = 0 \/ 0 <= v <= 4095).
    { unfold addimm_bind in Eb. destruct ((0 <=? v) && (v <=? 4095)) eqn:E1; [right; b2p; lia|].
      match type of Eb with (if ?c then _ else _) = _ => destruct c eqn:E2; try discriminate end. b2p. left. assumption. }
    rewrite <- (X _ v0 e0 Hs12 Hor Eb). destruct ((0 <=? v) && (v <=? 4095)); reflexivity.
  - (* SRel *) destruct ops as [|[] r]; try discriminate.
    destruct ((disp mod scale =? 0) && fits_s (disp / scale) w) eqn:E; inversion H; subst. apply andb_prop in E. destruct E as [E1 E2]. b2p.
    cbn [lookup]. rewrite Z.eqb_refl. rewrite sext_mod; [|lia|exact E2].
    assert (X : disp / scale * scale = disp) by (pose proof (Z.div_mod disp scale ltac:(lia)); lia). rewrite X. reflexivity.
  - (* SMemBase *) destruct ops as [|[] r]; try discriminate. destruct idx; try discriminate.
    match type of H with (if ?c then _ else _) = _ => destruct c eqn:E; inversion H; subst end.
    cbn [lookup]. rewrite Z.eqb_refl. reflexivity.
  - (* SMemOff *) apply andb_prop in Hnd. destruct Hnd as [Hne _]. cbn in Hne. rewrite orb_false_r in Hne. apply negb_true_iff in Hne.
    destruct ops as [|[] r]; try discriminate. destruct idx; try discriminate.
    match type of H with (if ?c then _ else _) = _ => destruct c eqn:E; inversion H; subst end.
    cbn [lookup]. rewrite !Z.eqb_refl, Hne.
    repeat (apply andb_prop in E; destruct E as [E ?]). b2p. subst mode0.
    assert (X : off / scale * scale = off) by (pose proof (Z.div_mod off scale ltac:(lia)); lia).
    destruct sgn.
    + rewrite sext_mod; [|lia|assumption]. rewrite X. reflexivity.
    + unfold fits_u in *. b2p. rewrite Z.mod_small by lia. rewrite X. reflexivity.
  - (* SMemPair *) destruct (nodup4 _ _ _ _ Hnd) as (N1 & N2 & N3 & N4 & N5 & N6).
    destruct ops as [|[] r]; try discriminate. destruct idx; try discriminate.
    match type of H with (if ?c then _ else _) = _ => destruct c eqn:E; inversion H; subst end.
    cbn [lookup]. rewrite !Z.eqb_refl, N1, N2, N3, N4, N5, N6.
    repeat (apply andb_prop in E; destruct E as [E ?]).
    match goal with X : fits_s _ _ = true |- _ => rename X into Hfit end. b2p.
    rewrite sext_mod; [|lia|exact Hfit].
    assert (X : off / scale * scale = off) by (pose proof (Z.div_mod off scale ltac:(lia)); lia). rewrite X.
    assert (M : mode = 0 \/ mode = 1 \/ mode = 2) by lia.
    destruct (nf && (off =? 0)); [reflexivity|]. destruct M as [M|[M|M]]; subst mode; reflexivity.
  - (* SMemIdx *) destruct (nodup4 _ _ _ _ Hnd) as (N1 & N2 & N3 & N4 & N5 & N6).
    destruct ops as [|[] r]; try discriminate. destruct idx as [[xi i]|]; try discriminate.
    match type of H with (if ?c then _ else _) = _ => destruct c eqn:E; inversion H; subst end.
    cbn [lookup]. rewrite !Z.eqb_refl, N1, N2, N3, N4, N5, N6.
    repeat (apply andb_prop in E; destruct E as [E ?]).
    match goal with X : gp_ok _ _ = true |- _ => rename X into Hgp end.
    match goal with X : Bool.eqb _ _ = true |- _ => apply Bool.eqb_prop in X; rename X into Hx end.
    match goal with X : _ || _ = true |- _ => rename X into Hsh end. b2p. subst off mode.
    rewrite (gp_id_back i 63 (or_intror eq_refl) Hgp). rewrite opt_back by lia. rewrite <- Hx.
    apply orb_prop in Hsh. destruct Hsh as [Hs|Hs]; b2p; subst shift.
    + reflexivity.
    + destruct (amount =? 0) eqn:Ea; [b2p; subst; reflexivity | reflexivity].
  - (* SMemLit *) destruct ops as [|[] r]; try discriminate.
    destruct ((disp mod 4 =? 0) && fits_s (disp / 4) w) eqn:E; inversion H; subst. apply andb_prop in E. destruct E as [E1 E2]. b2p.
    cbn [lookup]. rewrite Z.eqb_refl. rewrite sext_mod; [|lia|exact E2].
    assert (X : disp / 4 * 4 = disp) by (pose proof (Z.div_mod disp 4 ltac:(lia)); lia). rewrite X. reflexivity.
  - (* SLogImm *) destruct ops as [|[] r]; try discriminate.
    match type of H with (if ?c then _ else _) = _ => destruct c eqn:Er; try discriminate end.
    set (width := if x then 64 else 32) in *.
    assert (Hw : width = 32 \/ width = 64) by (subst width; destruct x; auto).
    assert (Hv : 0 <= v mod 2 ^ width < 2 ^ width) by (apply Z.mod_pos_bound; destruct Hw as [-> | ->]; reflexivity).
    destruct (encode_logical_imm (v mod 2 ^ width) width) as [li|] eqn:El; try discriminate.
    match type of H with (if ?c then _ else _) = _ => destruct c eqn:Ef; inversion H; subst end.
    destruct (logical_imm_sound_fields width _ li Hw Hv El) as (Hd & Hn & Hs & Hr).
    cbn [lookup]. rewrite Z.eqb_refl.
    destruct (logimm_fields_back (li_n li) (li_r li) (li_s li) Hn Hr Hs) as (F1 & F2 & F3).
    rewrite F1, F2, F3, Hd. reflexivity.
  - (* SGpDup *) apply andb_prop in Hnd. destruct Hnd as [Hne _]. cbn in Hne. rewrite orb_false_r in Hne. apply negb_true_iff in Hne.
    destruct ops as [|[] r]; try discriminate.
    destruct (Bool.eqb x x0 && gp_ok id hi) eqn:E; inversion H; subst. apply andb_prop in E. destruct E as [Ex Eg].
    apply Bool.eqb_prop in Ex. subst x0. cbn [lookup]. rewrite Z.eqb_refl.
    rewrite gp_id_back; [reflexivity| |exact Eg]. apply orb_prop in Hhi. destruct Hhi as [Hh|Hh]; b2p; [left|right]; lia.
  - (* SImmLt *) destruct ops as [|[] r]; try discriminate.
    destruct ((0 <=? v) && (v <? lim)) eqn:E; inversion H; subst. cbn [lookup]. rewrite Z.eqb_refl. reflexivity.
  - (* SBitfield *) pose proof (nodup2 _ _ Hnd) as N1.
    assert (Hs : 0 < size). { apply andb_prop in Hwf. destruct Hwf as [_ Hz]. apply orb_prop in Hz. destruct Hz as [Hz|Hz]; apply Z.eqb_eq in Hz; lia. }
    destruct ops as [|[] r]; try discriminate.
    destruct (kind =? 2) eqn:K2.
    + destruct ((0 <=? v) && (v <? size)) eqn:E; inversion H; subst. cbn [lookup]. rewrite !Z.eqb_refl, N1.
      replace (size - 1 - (size - 1 - v)) with v by lia. reflexivity.
    + destruct r as [|[] r']; try discriminate.
      destruct ((0 <=? v) && (v <? size) && (1 <=? v0) && (v0 <=? size - v)) eqn:E; try discriminate.
      destruct (kind =? 0) eqn:K0; inversion H; subst; cbn [lookup]; rewrite !Z.eqb_refl, N1.
      * replace (v + v0 - 1 - v + 1) with v0 by lia. reflexivity.
      * repeat (apply andb_prop in E; destruct E as [E ?]). apply Z.leb_le in E. match goal with Y : (v <? size) = true |- _ => apply Z.ltb_lt in Y end.
        rewrite neg_mod_back by lia. replace (v0 - 1 + 1) with v0 by lia. reflexivity.
  - (* SMovW *) pose proof (nodup2 _ _ Hnd) as N1.
    destruct ops as [|[] r]; try discriminate.
    destruct ((0 <=? v) && (v <=? 65535)) eqn:E0; try discriminate.
    destruct r as [|[] r'].
    all: try (inversion H; subst; cbn [lookup]; rewrite !Z.eqb_refl, N1; reflexivity).
    match type of H with (if ?c then _ else _) = _ => destruct c eqn:E; inversion H; subst end.
    cbn [lookup]. rewrite !Z.eqb_refl, N1.
    apply andb_prop in E. destruct E as [_ E].
    assert (X : v0 / 16 * 16 = v0).
    { repeat (apply orb_prop in E; destruct E as [E|E]); try (apply andb_prop in E; destruct E as [_ E]; apply orb_prop in E; destruct E as [E|E]); b2p; subst; reflexivity. }
    rewrite X. reflexivity.
  - (* SSysReg *) destruct ops as [|[] r]; try discriminate.
    destruct ((32768 <=? v) && (v <=? 65535)) eqn:E; inversion H; subst. cbn [lookup]. rewrite Z.eqb_refl.
    replace (v - 32768 + 32768) with v by lia. reflexivity.
  - (* SImmConst *) destruct ops as [|[] r]; try discriminate.
    destruct (v =? c) eqn:E; inversion H; subst. b2p. subst. reflexivity.
  - (* SVec *) destruct ops as [|[] r]; try discriminate.
    match type of H with (if ?c then _ else _) = _ => destruct c eqn:E; inversion H; subst end.
    repeat (apply andb_prop in E; destruct E as [E ?]). b2p. subst. cbn [lookup]. rewrite Z.eqb_refl. reflexivity.
  - (* SVecElem *) apply andb_prop in Hnd. destruct Hnd as [Hne _]. cbn in Hne. rewrite orb_false_r in Hne. apply negb_true_iff in Hne.
    destruct ops as [|[] r]; try discriminate.
    match type of H with (if ?c then _ else _) = _ => destruct c eqn:E; inversion H; subst end.
    cbn [lookup]. rewrite !Z.eqb_refl, Hne.
    repeat (apply andb_prop in E; destruct E as [E ?]). b2p. subst. reflexivity.
  - (* SVecList *) destruct ops as [|[] r]; try discriminate.
    match type of H with (if ?c then _ else _) = _ => destruct c eqn:E; try discriminate end.
    match type of H with match ?m with Some _ => _ | None => _ end = _ => destruct m eqn:Ev; inversion H; subst end.
    cbn [lookup]. rewrite Z.eqb_refl. reflexivity.
  - (* SMemPostReg *) apply andb_prop in Hnd. destruct Hnd as [Hne _]. cbn in Hne. rewrite orb_false_r in Hne. apply negb_true_iff in Hne.
    destruct ops as [|[] r]; try discriminate. destruct idx as [[xi i]|]; try discriminate.
    match type of H with (if ?c then _ else _) = _ => destruct c eqn:E; inversion H; subst end.
    cbn [lookup]. rewrite !Z.eqb_refl, Hne.
    repeat (apply andb_prop in E; destruct E as [E ?]). b2p. subst. reflexivity.
  - (* SMemPostImm *) destruct ops as [|[] r]; try discriminate. destruct idx; try discriminate.
    match type of H with (if ?c then _ else _) = _ => destruct c eqn:E; inversion H; subst end.
    cbn [lookup]. rewrite !Z.eqb_refl.
    repeat (apply andb_prop in E; destruct E as [E ?]). b2p. subst. reflexivity.
  - (* SVShift *) pose proof (nodup2 _ _ Hnd) as N1.
    destruct ops as [|[] r]; try discriminate.
    destruct lft.
    + match type of H with (if ?c then _ else _) = _ => destruct c eqn:E; [|discriminate] end. injection H as <- <-.
      cbn [lookup]. rewrite !Z.eqb_refl, N1.
      assert (X : (esize + v) / 8 * 8 + (esize + v) mod 8 = esize + v) by (pose proof (Z.div_mod (esize + v) 8 ltac:(lia)); lia).
      rewrite X. replace (esize + v - esize) with v by lia. reflexivity.
    + match type of H with (if ?c then _ else _) = _ => destruct c eqn:E; [|discriminate] end. injection H as <- <-.
      cbn [lookup]. rewrite !Z.eqb_refl, N1.
      change (match esize with 0 => 0 | Z.pos y' => Z.pos y'~0 | Z.neg y' => Z.neg y'~0 end) with (2 * esize).
      assert (X : (2 * esize - v) / 8 * 8 + (2 * esize - v) mod 8 = 2 * esize - v) by (pose proof (Z.div_mod (2 * esize - v) 8 ltac:(lia)); lia).
      rewrite X. replace (2 * esize - (2 * esize - v)) with v by lia. reflexivity.
  - (* SSysOp *) destruct (nodup3 _ _ _ Hnd) as (N1 & N2 & N3).
    destruct ops as [|[] r]; try discriminate.
    match type of H with (if ?c then _ else _) = _ => destruct c eqn:E; inversion H; subst end.
    cbn [lookup]. rewrite !Z.eqb_refl, N1, N2, N3.
    repeat (apply andb_prop in E; destruct E as [E ?]). b2p.
    assert (X : v / 2048 * 2048 + crn * 128 + (v / 8) mod 16 * 8 + v mod 8 = v) by (subst crn; Z.div_mod_to_equations; lia).
    rewrite X. reflexivity.
  - (* SGpPair *) destruct ops as [|[] [|[] r]]; try discriminate.
    match type of H with (if ?c then _ else _) = _ => destruct c eqn:E; inversion H; subst end.
    repeat (apply andb_prop in E; destruct E as [E ?]).
    repeat match goal with Y : Bool.eqb _ _ = true |- _ => apply Bool.eqb_prop in Y end. b2p. subst.
    cbn [lookup]. rewrite Z.eqb_refl. reflexivity.
  - (* SImmRsub *) destruct ops as [|[] r]; try discriminate.
    destruct ((lo <=? v) && (v <=? hi)) eqn:E; inversion H; subst. cbn [lookup]. rewrite Z.eqb_refl.
    replace (c - (c - v)) with v by lia. reflexivity.
  - (* SFpImm *) pose proof (nodup2 _ _ Hnd) as N1.
    destruct ops as [|[] r]; try discriminate. cbv zeta in H.
    match type of H with (if ?c then _ else _) = _ => destruct c eqn:E; inversion H; subst end.
    repeat (apply andb_prop in E; destruct E as [E ?]).
    repeat match goal with X : (_ <=? _) = true |- _ => apply Z.leb_le in X | X : (_ <? _) = true |- _ => apply Z.ltb_lt in X end.
    cbn [lookup]. rewrite !Z.eqb_refl, N1.
    set (b := fimm_bits pred v) in *. set (i := encode_fp_imm8 9 6 48 b) in *.
    replace (i / 32 * 32 + i mod 32) with i by (Z.div_mod_to_equations; lia).
    assert (X : vfp_expand_imm 64 i = b).
    { apply (fp_imm8_sound 64 b); [right; right; reflexivity | change (2 ^ 64) with 18446744073709551616; lia | assumption]. }
    rewrite X. reflexivity.
  - (* SVecListElem *) pose proof (nodup2 _ _ Hnd) as N1.
    destruct ops as [|[] r]; try discriminate.
    match type of H with (if ?c then _ else _) = _ => destruct c eqn:E; try discriminate end.
    match type of H with match ?m with Some _ => _ | None => _ end = _ => destruct m eqn:Ev; inversion H; subst end.
    cbn [lookup]. rewrite !Z.eqb_refl, N1. reflexivity.
  - (* SImmAff *) destruct ops as [|[] r]; try discriminate. unfold fits_u in H.
    destruct (((v - base) mod step =? 0) && ((0 <=? (v - base) / step) && ((v - base) / step <? 2 ^ w))) eqn:E; inversion H; subst. b2p.
    cbn [lookup]. rewrite Z.eqb_refl.
    assert (X : base + (v - base) / step * step = v) by (pose proof (Z.div_mod (v - base) step ltac:(lia)); lia). rewrite X. reflexivity.
Qed.

Lemma nodupb_app : forall l1 l2, nodupb (l1 ++ l2) = true -> nodupb l1 = true /\ nodupb l2 = true.
Proof.
  induction l1 as [|x r IH]; intros l2 H; cbn in *. { split; [reflexivity|exact H]. }
  apply andb_prop in H. destruct H as [Hx Hr]. destruct (IH l2 Hr) as [H1 H2]. split; [|exact H2].
  rewrite H1, andb_true_r. apply negb_true_iff in Hx. apply negb_true_iff.
  rewrite existsb_app in Hx. apply orb_false_iff in Hx. tauto.
Qed.

Lemma unbind1_ext : forall s g1 g2, (forall f, In f (map fst (syn_fields s)) -> g1 f = g2 f) -> unbind1 s g1 = unbind1 s g2.
Proof.
  intros s g1 g2 H. destruct s; cbn [unbind1 syn_fields map fst] in *; try reflexivity.
  all: repeat (rewrite H by (cbn; tauto)); reflexivity.
Qed.

Lemma in_names_value : forall (e : env) f, In f (map fst e) -> exists v, In (f, v) e.
Proof. induction e as [|[k x] r IH]; cbn; intros f H; [destruct H|]. destruct H as [->|H]; [exists x; left; reflexivity|]. destruct (IH f H) as [v Hv]. exists v. right. exact Hv. Qed.

Definition syn_all_ok (s : opsyn) : bool := syn_wf s && syn_hi_ok s && syn_inv s.

Lemma canon_bind : forall ss ops e g,
  forallb syn_all_ok ss = true -> nodupb (map fst (flat_map syn_fields ss)) = true ->
  bind ss ops = Some e -> (forall f v, In (f, v) e -> g f = v) ->
  canon ss ops = Some (flat_map (fun s => unbind1 s g) ss).
Proof.
  induction ss as [|s sr IH]; intros ops e g Hok Hnd Hb Hg; cbn [bind canon flat_map] in *. { reflexivity. }
  apply andb_prop in Hok. destruct Hok as [Hs Hr]. unfold syn_all_ok in Hs.
  apply andb_prop in Hs. destruct Hs as [Hs Hinv]. apply andb_prop in Hs. destruct Hs as [Hwf Hhi].
  destruct (bind1 s ops) as [[e1 rest]|] eqn:E1; try discriminate.
  destruct (bind sr rest) as [e2|] eqn:E2; inversion Hb; subst. clear Hb.
  rewrite map_app in Hnd. destruct (nodupb_app _ _ Hnd) as [Hn1 Hn2].
  rewrite (unbind1_bind1 s ops e1 rest Hwf Hhi Hinv Hn1 E1).
  rewrite (IH rest e2 g Hr Hn2 E2); [|intros f v Hin; apply Hg; apply in_or_app; right; exact Hin].
  f_equal. f_equal. apply unbind1_ext. intros f Hf.
  pose proof (bind1_range s ops e1 rest Hwf E1) as Hok1. rewrite <- (env_ok_names _ _ Hok1) in Hf.
  destruct (in_names_value e1 f Hf) as [v Hv].
  rewrite (lookup_in e1 f v); [|rewrite (env_ok_names _ _ Hok1); exact Hn1|exact Hv].
  symmetry. apply Hg. apply in_or_app. left. exact Hv.
Qed.

(* Operands are recovered from the word: decoding the word of a well-formed row with the inverse operand map gives back the
   operands in canonical form (for the rows all of whose operand syntaxes are invertible here). *)
Theorem operands_recovered : forall r ops w, row_wf r = true -> row_inv r = true ->
  spec_row r ops = Some w -> canon (r_ops r) ops = Some (decode_row r w).
Proof.
  intros r ops w Hwf Hinv H.
  destruct (spec_row_fields_recovered r ops w Hwf H) as (_ & _ & e & Hb & _ & Hrec).
  unfold decode_row. apply (canon_bind (r_ops r) ops e); try assumption.
  - unfold row_wf in Hwf. unfold row_inv in Hinv. apply andb_prop in Hinv. destruct Hinv as [Hi Hh].
    repeat (apply andb_prop in Hwf; destruct Hwf as [Hwf ?]).
    apply forallb_forall. intros s Hs. unfold syn_all_ok.
    rewrite forallb_forall in Hi, Hh. rewrite (Hi s Hs), (Hh s Hs).
    match goal with X : forallb syn_wf _ = true |- _ => rewrite forallb_forall in X; rewrite (X s Hs) end. reflexivity.
  - unfold row_wf in Hwf. apply andb_prop in Hwf. destruct Hwf as [_ Hnd]. exact Hnd.
Qed.

(* instruction level: a word produced by spec_a64 is the word of one of the rows (of the mnemonic or of its fall-back mnemonic) *)
Lemma spec_rows_in : forall db mn ops id w, spec_rows db mn ops = Some (id, w) ->
  exists r, In r db /\ r_id r = id /\ r_mn r = mn /\ spec_row r ops = Some w.
Proof.
  induction db as [|r rest IH]; intros mn ops id w H; cbn in H; [discriminate|].
  destruct (r_mn r =? mn) eqn:E.
  - destruct (spec_row r ops) as [w0|] eqn:S.
    + inversion H; subst. exists r. apply Z.eqb_eq in E. repeat split; auto. left; reflexivity.
    + destruct (IH mn ops id w H) as [r' [Hi X]]. exists r'. split; [right; exact Hi | exact X].
  - destruct (IH mn ops id w H) as [r' [Hi X]]. exists r'. split; [right; exact Hi | exact X].
Qed.

Theorem spec_a64_from_row : forall db alt mn ops id ws, spec_a64_rows db alt mn ops = Some (id, ws) ->
  exists r w, In r db /\ r_id r = id /\ ws = [w] /\ spec_row r ops = Some w /\
              (r_mn r = mn \/ exists p, In p alt /\ fst p = mn /\ snd p = r_mn r).
Proof.
  intros db alt mn ops id ws H. unfold spec_a64_rows in H.
  destruct (spec_rows db mn ops) as [[id0 w0]|] eqn:E.
  - inversion H; subst. destruct (spec_rows_in _ _ _ _ _ E) as [r [Hi [Hid [Hmn Hs]]]]. exists r, w0. repeat split; auto.
  - destruct (find (fun p => fst p =? mn) alt) as [[a b]|] eqn:F; [|discriminate].
    destruct (spec_rows db b ops) as [[id0 w0]|] eqn:E2; inversion H; subst.
    destruct (spec_rows_in _ _ _ _ _ E2) as [r [Hi [Hid [Hmn Hs]]]]. exists r, w0. repeat split; auto.
    right. exists (a, b). apply find_some in F. destruct F as [Fi Fe]. cbn in Fe. apply Z.eqb_eq in Fe. cbn. auto.
Qed.

(* ---- the MOV Rd, #imm pseudo instruction: whatever spec_mov_imm emits loads the value ---- *)
From Verif Require Import Codec.MovSeqProofs.

Definition orr_imm_word (x : bool) (n r s rd5 : Z) : Z :=
  (if x then 2 ^ 31 else 0) + 838861792 + n * 2 ^ 22 + r * 2 ^ 16 + s * 2 ^ 10 + rd5.

(* Either the words are a MOVZ/MOVN(+MOVK) sequence on register (rd mod 32) that, decoded architecturally and executed from any
   initial register value, leaves the immediate in the register (C17 mov_sequence_words_correct), and rd is not SP; or it is the single
   word ORR Rd|SP, ZR, #bitmask whose N:immr:imms fields denote the immediate (C17 logical_imm_sound), and rd is not ZR. *)
Theorem mov_imm_correct : forall x rd v ws, spec_mov_imm x rd v = Some ws ->
  let width := if x then 64 else 32 in
  let imm := v mod 2 ^ width in
  (gp_ok rd 63 = true /\ forall init, 0 <= init < 2 ^ 64 ->
     exists ops, map mw_decode ws = map (fun m => Some (rd mod 32, m)) ops /\ mw_run init ops = Some imm /\ (1 <= length ws <= 4)%nat) \/
  (gp_ok rd 31 = true /\ rd <> 63 /\ exists n r s, ws = [orr_imm_word x n r s (rd mod 32)] /\
     0 <= n < 2 /\ 0 <= r < 64 /\ 0 <= s < 64 /\ decode_bit_masks width n s r = Some imm).
Proof.
  intros x rd v ws H width imm. unfold spec_mov_imm in H.
  match type of H with (if negb ?c then _ else _) = _ => destruct c eqn:Er; cbn [negb] in H; [|discriminate] end.
  fold width in H. fold imm in H.
  assert (Hw : width = 32 \/ width = 64) by (subst width; destruct x; auto).
  assert (Hi : 0 <= imm < 2 ^ width) by (subst imm; apply Z.mod_pos_bound; destruct Hw as [-> | ->]; reflexivity).
  assert (Hi64 : 0 <= imm < 2 ^ 64).
  { destruct Hw as [E|E]; rewrite E in Hi; [change (2 ^ 32) with 4294967296 in Hi; change (2 ^ 64) with 18446744073709551616; lia | exact Hi]. }
  assert (Hrd : 0 <= rd mod 32 < 32) by (apply Z.mod_pos_bound; lia).
  assert (Hx : (if x then 1 else 0) = 0 \/ (if x then 1 else 0) = 1) by (destruct x; auto).
  assert (SEQ : forall init, 0 <= init < 2 ^ 64 ->
            exists ops, map mw_decode (encode_mov_sequence true imm (rd mod 32) (if x then 1 else 0)) = map (fun m => Some (rd mod 32, m)) ops /\
                        mw_run init ops = Some imm /\ (1 <= length (encode_mov_sequence true imm (rd mod 32) (if x then 1 else 0)) <= 4)%nat).
  { intros init Hinit. exact (mov_sequence_words_correct true imm (rd mod 32) (if x then 1 else 0) init Hi64 Hrd Hx Hinit). }
  match type of H with (if ?c then _ else _) = _ => destruct c eqn:E1 end.
  - inversion H; subst. apply andb_prop in E1. destruct E1 as [_ Eg]. left. split; [exact Eg | exact SEQ].
  - destruct (rd =? 63) eqn:E63.
    + destruct (gp_ok rd 63) eqn:Eg; inversion H; subst. left. split; [reflexivity | exact SEQ].
    + destruct (encode_logical_imm imm width) as [li|] eqn:El.
      * match type of H with (if ?c then _ else _) = _ => destruct c eqn:Ef; inversion H; subst end.
        apply andb_prop in Ef. destruct Ef as [Ef _]. apply andb_prop in Ef. destruct Ef as [Ef _]. apply andb_prop in Ef. destruct Ef as [Eg _].
        right. split; [exact Eg|]. split; [apply Z.eqb_neq; exact E63|].
        destruct (logical_imm_sound_fields width imm li Hw Hi El) as (Hd & Hn & Hs & Hr).
        exists (li_n li), (li_r li), (li_s li). unfold orr_imm_word. repeat split; try tauto; try lia.
      * destruct (gp_ok rd 63) eqn:Eg; inversion H; subst. left. split; [reflexivity | exact SEQ].
Qed.

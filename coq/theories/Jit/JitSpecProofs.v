(* C09 — soundness of the trace judge of JitSpec.v *)
From Coq Require Import ZArith List Bool Lia.
From Verif Require Import Jit.JitSpec.
Import ListNotations.
Local Open Scope Z_scope.

(* the property of a set of live spans *)
Definition disjoint_spans (a b : tspan) : Prop :=
  t_blk a <> t_blk b \/ t_off a + t_len a <= t_off b \/ t_off b + t_len b <= t_off a.

Record twf (live : list tspan) : Prop := {
  tw_pos : forall s, In s live -> 1 <= t_len s;
  tw_nodup : NoDup live;
  tw_disj : forall a b, In a live -> In b live -> a <> b -> disjoint_spans a b }.

Lemma overlaps_false a b : overlaps a b = false <-> disjoint_spans a b.
Proof.
  unfold overlaps, disjoint_spans.
  destruct (Z.eqb_spec (t_blk a) (t_blk b)), (Z.ltb_spec (t_off a) (t_off b + t_len b)), (Z.ltb_spec (t_off b) (t_off a + t_len a));
    cbn; split; intros; try discriminate; try reflexivity; try lia.
Qed.

Lemma overlaps_self a : 1 <= t_len a -> overlaps a a = true.
Proof.
  intros H. unfold overlaps. rewrite Z.eqb_refl. cbn.
  destruct (Z.ltb_spec (t_off a) (t_off a + t_len a)); [reflexivity|lia].
Qed.

Lemma twf_filter f live : twf live -> twf (filter f live).
Proof.
  intros [P N D]. constructor.
  - intros s Hs. apply filter_In in Hs. apply P. apply Hs.
  - clear -N. induction N as [|x l Hx N IH]; cbn; [constructor|]. destruct (f x); [constructor; [|assumption]|assumption].
    intros H. apply filter_In in H. apply Hx. apply H.
  - intros a b Ha Hb. apply filter_In in Ha. apply filter_In in Hb. apply D; [apply Ha|apply Hb].
Qed.

(* what an accepted alloc guarantees about the returned span *)
Theorem alloc_ok_sound g0 pools pad live size blk off len bytes pool :
  0 < g0 -> alloc_ok g0 pools pad live size blk off len bytes pool = true ->
  let g := g0 * 2 ^ pool in
  1 <= size <= len /\ len < size + g0 /\ 0 <= pool < pools /\ len mod g = 0 /\ off mod g = 0 /\
  pad * g <= off /\ off + len <= bytes /\
  forall s, In s live -> disjoint_spans (blk, (off, len)) s.
Proof.
  intros Hg H g. unfold alloc_ok in H. fold g in H.
  repeat (apply andb_true_iff in H; destruct H as [H ?]).
  repeat match goal with
         | X : (_ <=? _) = true |- _ => apply Z.leb_le in X
         | X : (_ <? _) = true |- _ => apply Z.ltb_lt in X
         | X : (_ =? _) = true |- _ => apply Z.eqb_eq in X
         end.
  repeat split; try assumption; try lia.
  intros s Hs. rewrite forallb_forall in H0. specialize (H0 s Hs). apply negb_true_iff in H0. apply overlaps_false. assumption.
Qed.

Theorem spec_step_sound g0 pools pad live e live' :
  0 < g0 -> twf live -> spec_step g0 pools pad live e = Some live' -> twf live'.
Proof.
  intros Hg W H. destruct e as [size blk off len bytes pool|blk off|blk off newlen| |allocs]; cbn [spec_step] in H.
  - destruct (alloc_ok g0 pools pad live size blk off len bytes pool) eqn:E; [|discriminate]. inversion H; subst. clear H.
    destruct (alloc_ok_sound _ _ _ _ _ _ _ _ _ _ Hg E) as (A1 & A2 & A3 & A4 & A5 & A6 & A7 & A8).
    destruct W as [P N D].
    assert (Hnew : ~ In (blk, (off, len)) live).
    { intros Hin. pose proof (A8 _ Hin) as X. apply overlaps_false in X. rewrite overlaps_self in X; [discriminate|]. cbn. lia. }
    constructor.
    + intros s [<-|Hs]; [cbn; lia|apply P; assumption].
    + constructor; assumption.
    + intros a b [<-|Ha] [<-|Hb] Hne.
      * contradiction.
      * apply A8; assumption.
      * specialize (A8 _ Ha). unfold disjoint_spans in *. lia.
      * apply D; assumption.
  - destruct (existsb (at_start blk off) live); [|discriminate]. inversion H; subst. apply twf_filter. assumption.
  - destruct (find (at_start blk off) live) as [s|] eqn:Ef; [|discriminate].
    destruct ((1 <=? newlen) && (newlen <=? t_len s)) eqn:E; [|discriminate]. inversion H; subst. clear H.
    apply andb_true_iff in E. destruct E as [E1 E2]. apply Z.leb_le in E1. apply Z.leb_le in E2.
    apply find_some in Ef. destruct Ef as [Hs Hat]. unfold at_start in Hat. apply andb_true_iff in Hat.
    destruct Hat as [Hb Ho]. apply Z.eqb_eq in Hb. apply Z.eqb_eq in Ho.
    pose proof (twf_filter (fun x => negb (at_start blk off x)) live W) as [P' N' D'].
    destruct W as [P N D].
    assert (Hother : forall x, In x (filter (fun x => negb (at_start blk off x)) live) -> disjoint_spans (blk, (off, newlen)) x).
    { intros x Hx. apply filter_In in Hx. destruct Hx as [Hx Hn]. apply negb_true_iff in Hn.
      assert (x <> s) by (intros ->; unfold at_start in Hn; rewrite Hb, Ho, !Z.eqb_refl in Hn; discriminate).
      specialize (D s x Hs Hx ltac:(congruence)). unfold disjoint_spans in *. cbn [t_blk t_off t_len fst snd] in *.
      unfold t_blk, t_off, t_len in *. lia. }
    assert (Hnew : ~ In (blk, (off, newlen)) (filter (fun x => negb (at_start blk off x)) live)).
    { intros Hin. apply filter_In in Hin. destruct Hin as [_ Hn]. unfold at_start in Hn. cbn in Hn. rewrite !Z.eqb_refl in Hn. discriminate. }
    constructor.
    + intros x [<-|Hx]; [cbn; lia|apply P'; assumption].
    + constructor; assumption.
    + intros a b [<-|Ha] [<-|Hb'] Hne.
      * contradiction.
      * apply Hother; assumption.
      * specialize (Hother _ Ha). unfold disjoint_spans in *. lia.
      * apply D'; assumption.
  - inversion H; subst. constructor; [intros s []|constructor|intros a b []].
  - destruct (allocs =? Z.of_nat (length live)); [|discriminate]. inversion H; subst. assumption.
Qed.

Lemma twf_nil : twf [].
Proof. constructor; [intros s []|constructor|intros a b []]. Qed.

(* an accepted trace: every prefix leaves a well-formed set of live spans *)
Theorem spec_run_sound g0 pools pad : 0 < g0 -> forall evs live i final,
  twf live -> spec_run g0 pools pad live evs i = inr final -> twf final.
Proof.
  intros Hg. induction evs as [|e r IH]; intros live i final W H; cbn [spec_run] in H.
  - inversion H; subst. assumption.
  - destruct (spec_step g0 pools pad live e) as [live'|] eqn:E; [|discriminate].
    apply (IH live' (i + 1) final); [apply (spec_step_sound _ _ _ _ _ _ Hg W E)|assumption].
Qed.

(* the judge is not vacuous: it rejects an overlapping alloc and a too small span *)
Example spec_rejects_overlap :
  spec_run 64 1 1 [] [EAlloc 100 0 64 128 131072 0; EAlloc 64 0 128 64 131072 0] 0 = inl 1.
Proof. vm_compute. reflexivity. Qed.
Example spec_rejects_outside_block :
  spec_run 64 1 1 [] [EAlloc 131009 0 64 131072 131072 0] 0 = inl 0.
Proof. vm_compute. reflexivity. Qed.
Example spec_accepts :
  spec_run 64 1 1 [] [EAlloc 100 0 64 128 131072 0; EAlloc 64 0 192 64 131072 0; EShrink 0 64 64; ERelease 0 192; EStats 1; EReset; EStats 0] 0 = inr [].
Proof. vm_compute. reflexivity. Qed.

(* C09 — a failed virtual-memory request leaves the allocator's abstract state unchanged and the invariant intact *)
From Coq Require Import ZArith List Bool Lia.
From Verif Require Import Jit.JitModel Jit.JitBits Jit.JitBlockProofs Jit.JitProofs Jit.JitVmModel.
Import ListNotations.
Local Open Scope Z_scope.

Lemma pool_ok_same_sums c l1 l2 q pl : (forall f, sump f q l2 = sump f q l1) -> pool_ok c l1 q pl -> pool_ok c l2 q pl.
Proof. apply pool_ok_ext. Qed.

Theorem alloc_vm_fail c st size : cfg_ok c -> ginv c st ->
  let r := alloc_vm c st size false in
  ginv c (fst r) /\
  (snd r = RAlloc OutOfMemory 0 0 0 ->
     all_live (blocks (fst r)) = all_live (blocks st) /\ statistics c (fst r) = statistics c st /\
     nextid (fst r) = nextid st /\ map b_id (blocks (fst r)) = map b_id (blocks st)) /\
  (snd r <> RAlloc OutOfMemory 0 0 0 -> r = alloc c st size).
Proof.
  intros Hc G. pose proof (ginv_alloc c st size Hc G) as GA.
  destruct Hc as [Hg Hpools Hbs Hvar]. unfold alloc_vm. unfold alloc in *.
  set (sz := align_up size (c_gran c) mod two64) in *.
  destruct (Z.eqb_spec sz 0) as [E0|E0].
  { cbn [nextid fst snd orb]. rewrite Z.eqb_refl. cbn. splits; [assumption|discriminate|reflexivity]. }
  destruct (Z.leb_spec 2147483647 (sz - 1)) as [E1|E1].
  { cbn [nextid fst snd orb]. rewrite Z.eqb_refl. cbn. splits; [assumption|discriminate|reflexivity]. }
  assert (Hsz : 1 <= sz).
  { pose proof (Z.mod_pos_bound (align_up size (c_gran c)) two64 ltac:(reflexivity)) as Hm. fold sz in Hm. lia. }
  set (p := size_to_pool c sz) in *. pose proof (size_to_pool_range c sz Hpools) as Hp. fold p in Hp.
  set (g := pool_gran c p) in *. pose proof (pool_gran_pos c p Hg ltac:(lia)) as Hgp. fold g in Hgp.
  set (n := (sz + g - 1) / g) in *. pose proof (ceil_ge1 sz g Hgp Hsz) as Hn. fold n in Hn.
  rewrite Hvar in *. destruct G as [GB GI GN GP GC GNid].
  pose proof (try_blocks_ok c (nextid st) p n Hn (blocks st) GB) as (F' & G' & W).
  pose proof (try_blocks_live c (nextid st) p n Hn (blocks st) GB) as TL.
  destruct (try_blocks fixed p n (blocks st)) as [bl' [[[id s] we]|]] eqn:Et; cbn [fst snd blocks nextid] in *.
  - rewrite Z.eqb_refl. cbn [orb fst snd]. splits; [assumption|discriminate|reflexivity].
  - replace (nextid st + 1 =? nextid st) with false by (symmetry; apply Z.eqb_neq; lia). cbn [orb fst snd].
    rewrite removelast_last. destruct W as (W1 & W2 & W3 & _).
    splits.
    + constructor; cbn [blocks pools acount nextid]; try assumption.
      * rewrite (same_geom_ids _ _ G'). assumption.
      * intros q Hq. destruct (GP q Hq) as [Q1 Q2 Q3 Q4 Q5]. unfold get_pool in *. cbn [pools].
        constructor.
        -- rewrite Q1. symmetry. apply sump_same_geom; [assumption|reflexivity].
        -- rewrite Q2. symmetry. apply sump_same_geom; [assumption|]. intros b b' (_ & _ & _ & H4 & _). exact H4.
        -- rewrite Q3, W1. reflexivity.
        -- rewrite W2. assumption.
        -- intros Hi. rewrite W2. apply Q5. assumption.
      * rewrite GC, W3. reflexivity.
    + intros _. splits; try reflexivity.
      * assumption.
      * apply (same_geom_ids _ _ G').
    + intros H. exfalso. apply H. reflexivity.
Qed.

(* histories in which any alloc may hit a failing virtual-memory request: the allocator invariant (hence disjointness,
   exact bit vectors, window soundness, exact accounting, empty-block policy) holds at every point *)
Inductive reach_vm (c : config) : state -> Prop :=
| rv_init : reach_vm c (init_state c)
| rv_step st o : reach_vm c st -> valid_op c st o -> reach_vm c (fst (step c st o))
| rv_fail st size : reach_vm c st -> reach_vm c (fst (alloc_vm c st size false)).

Theorem reach_vm_ginv c st : cfg_ok c -> reach_vm c st -> ginv c st.
Proof.
  intros Hc R. induction R as [|st o R IH V|st size R IH].
  - apply ginv_init. assumption.
  - apply ginv_step; assumption.
  - apply (alloc_vm_fail c st size Hc IH).
Qed.

(* the main safety facts over histories with virtual-memory failures *)
Theorem reach_vm_sound c st : cfg_ok c -> reach_vm c st ->
  (forall b1 b2 sp1 sp2, In b1 (blocks st) -> In b2 (blocks st) -> In sp1 (b_live b1) -> In sp2 (b_live b2) ->
     (b_id b1 = b_id b2 -> b1 = b2) /\
     (1 <= snd sp1 /\ b_pad b1 <= fst sp1 /\ fst sp1 + snd sp1 <= b_area b1) /\
     (b1 = b2 -> forall i, in_span sp1 i -> in_span sp2 i -> sp1 = sp2)) /\
  (forall b, In b (blocks st) -> b_aused b < b_area b ->
     forall i, 0 <= i < b_area b -> Z.testbit (b_used b) i = false -> b_ss b <= i < b_se b) /\
  acount st = total_live (blocks st).
Proof.
  intros Hc R. pose proof (reach_vm_ginv c st Hc R) as [GB GI _ _ GC _]. rewrite Forall_forall in GB.
  split; [|split].
  - intros b1 b2 sp1 sp2 H1 H2 L1 L2. destruct (GB b1 H1) as ([S1 _] & _). split; [|split].
    + intros E. apply (nodup_ids_inj (blocks st)); assumption.
    + apply (bs_spans b1 S1 sp1 L1).
    + intros <- i I1 I2. apply (bs_disj b1 S1 sp1 sp2 i); assumption.
  - intros b Hb. destruct (GB b Hb) as ([_ C] & _). apply (bc_window b C).
  - assumption.
Qed.

(* C09 — a trace judge: an executable checker over the implementation's OWN answers (block serial, byte offset, length,
   block size, pool of every successful alloc; releases; shrinks; resets; allocation counts), independent of the
   placement the model would choose.  JitSpecProofs.v: a trace accepted by the judge keeps, at every point, its live spans
   pairwise disjoint, aligned, inside their blocks and at least as large as requested.  (The C++ monitor does the same
   by address; this one is the proven variant, run by `c09 spec`.) *)
From Coq Require Import ZArith List Bool.
Import ListNotations.
Local Open Scope Z_scope.

Definition tspan := (Z * (Z * Z))%type.       (* block serial, (byte offset, byte length) *)
Definition t_blk (s : tspan) := fst s.
Definition t_off (s : tspan) := fst (snd s).
Definition t_len (s : tspan) := snd (snd s).

Inductive tev :=
| EAlloc (size blk off len bytes pool : Z)
| ERelease (blk off : Z)
| EShrink (blk off newlen : Z)
| EReset
| EStats (allocs : Z).

Definition overlaps (a b : tspan) : bool :=
  (t_blk a =? t_blk b) && (t_off a <? t_off b + t_len b) && (t_off b <? t_off a + t_len a).

Definition at_start (blk off : Z) (s : tspan) : bool := (t_blk s =? blk) && (t_off s =? off).

(* g0 = granularity, pools = number of pools, pad = 1 iff initial padding is enabled *)
Definition alloc_ok (g0 pools pad : Z) (live : list tspan) (size blk off len bytes pool : Z) : bool :=
  let g := g0 * 2 ^ pool in
  (1 <=? size) && (size <=? len) && (len <? size + g0) && (0 <=? pool) && (pool <? pools) &&
  (len mod g =? 0) && (off mod g =? 0) && (pad * g <=? off) && (off + len <=? bytes) &&
  forallb (fun s => negb (overlaps (blk, (off, len)) s)) live.

Definition spec_step (g0 pools pad : Z) (live : list tspan) (e : tev) : option (list tspan) :=
  match e with
  | EAlloc size blk off len bytes pool =>
    if alloc_ok g0 pools pad live size blk off len bytes pool then Some ((blk, (off, len)) :: live) else None
  | ERelease blk off =>
    if existsb (at_start blk off) live then Some (filter (fun s => negb (at_start blk off s)) live) else None
  | EShrink blk off newlen =>
    match find (at_start blk off) live with
    | Some s => if (1 <=? newlen) && (newlen <=? t_len s)
                then Some ((blk, (off, newlen)) :: filter (fun x => negb (at_start blk off x)) live) else None
    | None => None
    end
  | EReset => Some []
  | EStats allocs => if allocs =? Z.of_nat (length live) then Some live else None
  end.

(* index of the first rejected event, or the final set of live spans *)
Fixpoint spec_run (g0 pools pad : Z) (live : list tspan) (evs : list tev) (i : Z) : Z + list tspan :=
  match evs with
  | [] => inr live
  | e :: r => match spec_step g0 pools pad live e with
              | Some live' => spec_run g0 pools pad live' r (i + 1)
              | None => inl i
              end
  end.

(* C09 — the pool cursor made explicit.  `cstate` = the allocator state of JitModel.v + one cursor per pool (the id of
   the block `pool->cursor` points to, None = nullptr), updated exactly as jitallocator.cpp does:
     JitAllocatorImpl_insertBlock : if (!pool->cursor) pool->cursor = block;
     JitAllocatorImpl_removeBlock : if (pool->cursor == block) pool->cursor = block->has_prev() ? block->prev() : block->next();
     JitAllocatorPool::reset      : cursor = nullptr (then insertBlock of the kept block);
     JitAllocator::alloc          : the block loop starts at pool->cursor and wraps around (`try_ring`).
   JitCursorProofs.v shows that the cursor always is the first block of its pool, hence `cstep` = `step`. *)
From Coq Require Import ZArith List Bool.
From Verif Require Import Jit.JitModel.
Import ListNotations.
Local Open Scope Z_scope.

Record cstate := mkC { cs_st : state; cs_cur : list (option Z) }.

Definition init_cstate (c : config) : cstate := mkC (init_state c) (repeat None (Z.to_nat (c_pools c))).

Definition get_cur (cs : cstate) (p : Z) : option Z := nth (Z.to_nat p) (cs_cur cs) None.
Definition set_cur (l : list (option Z)) (p : Z) (x : option Z) : list (option Z) := upd_nth (Z.to_nat p) l x.

(* blocks before the block with this id, and the list from that block on *)
Fixpoint split_at (id : Z) (l : list block) : list block * list block :=
  match l with
  | [] => ([], [])
  | b :: r => if b_id b =? id then ([], l) else let '(a, z) := split_at id r in (b :: a, z)
  end.

(* the do-while loop of alloc: from the cursor to the end of the pool's list, then from the first block up to the cursor *)
Definition try_ring (v : variant) (p n : Z) (l : list block) (cur : option Z) : list block * option (Z * Z * bool) :=
  match cur with
  | None => (l, None)
  | Some id =>
    let '(pre, post) := split_at id l in
    match try_blocks v p n post with
    | (post', Some r) => (pre ++ post', Some r)
    | (post', None) => let '(pre', r) := try_blocks v p n pre in (pre' ++ post', r)
    end
  end.

(* block->prev() / block->next() inside the pool's list *)
Fixpoint prev_in_pool (p id : Z) (l : list block) (acc : option Z) : option Z :=
  match l with
  | [] => None
  | b :: r => if b_id b =? id then acc else prev_in_pool p id r (if b_pool b =? p then Some (b_id b) else acc)
  end.
Fixpoint next_in_pool (p id : Z) (l : list block) : option Z :=
  match l with
  | [] => None
  | b :: r => if b_id b =? id then option_map b_id (first_of_pool p r) else next_in_pool p id r
  end.

Definition alloc_c (c : config) (cs : cstate) (size0 : Z) : cstate * result :=
  let st := cs_st cs in
  let size := (align_up size0 (c_gran c)) mod two64 in
  if size =? 0 then (cs, RAlloc InvalidArgument 0 0 0)
  else if 2147483647 <=? size - 1 then (cs, RAlloc TooLarge 0 0 0)
  else
    let p := size_to_pool c size in
    let g := pool_gran c p in
    let n := (size + g - 1) / g in
    let pl := get_pool st p in
    match try_ring (c_var c) p n (blocks st) (get_cur cs p) with
    | (bl', Some (id, s, was_empty)) =>
      let pl' := mkPool (p_count pl) (if was_empty then p_empty pl - 1 else p_empty pl) (p_tsize pl) (p_tused pl + n) in
      (mkC (mkState bl' (set_pool (pools st) p pl') (acount st + 1) (nextid st)) (cs_cur cs), RAlloc Ok id (s * g) size)
    | (bl', None) =>
      let bytes := ideal_block_size c p (last_of_pool p bl' None) size in
      let area := (bytes + g - 1) / g in
      let pad := if c_pad c then 1 else 0 in
      let nb := new_block_alloc (c_var c) (nextid st) p bytes area pad n in
      let pl' := mkPool (p_count pl + 1) (p_empty pl) (p_tsize pl + area) (p_tused pl + pad + n) in
      (mkC (mkState (bl' ++ [nb]) (set_pool (pools st) p pl') (acount st + 1) (nextid st + 1))
           (match get_cur cs p with None => set_cur (cs_cur cs) p (Some (nextid st)) | Some _ => cs_cur cs end),
       RAlloc Ok (nextid st) (pad * g) size)
    end.

(* cursor after the block `id` of pool p may have been removed by an operation that led from st to st' *)
Definition cur_after_remove (cs : cstate) (st' : state) (id : Z) : list (option Z) :=
  match find_block id (blocks (cs_st cs)), find_block id (blocks st') with
  | Some b, None =>
    let p := b_pool b in
    match get_cur cs p with
    | Some cid =>
      if cid =? id then
        set_cur (cs_cur cs) p (match prev_in_pool p id (blocks (cs_st cs)) None with
                               | Some x => Some x
                               | None => next_in_pool p id (blocks (cs_st cs))
                               end)
      else cs_cur cs
    | None => cs_cur cs
    end
  | _, _ => cs_cur cs
  end.

Definition release_c (c : config) (cs : cstate) (id off : Z) : cstate * result :=
  let '(st', r) := release c (cs_st cs) id off in (mkC st' (cur_after_remove cs st' id), r).

Definition shrink_c (c : config) (cs : cstate) (id off ns : Z) : cstate * result :=
  let '(st', r) := shrink c (cs_st cs) id off ns in (mkC st' (cur_after_remove cs st' id), r).

Fixpoint reset_cursors (bl : list block) (n : nat) (p : Z) : list (option Z) :=
  match n with
  | O => []
  | S k => option_map b_id (first_of_pool p bl) :: reset_cursors bl k (p + 1)
  end.

Definition reset_c (c : config) (cs : cstate) (hard : bool) : cstate :=
  let st' := reset c (cs_st cs) hard in
  (* pool.reset() clears the cursor; insertBlock of the kept block sets it to that block *)
  mkC st' (reset_cursors (blocks st') (length (cs_cur cs)) 0).

Definition cstep (c : config) (cs : cstate) (o : op) : cstate * result :=
  match o with
  | OAlloc size => alloc_c c cs size
  | ORelease id off => release_c c cs id off
  | OShrink id off ns => shrink_c c cs id off ns
  | OQuery id off => (cs, query c (cs_st cs) id off)
  | OReset hard => (reset_c c cs hard, RReset)
  end.

(* C09 — statistics() under any number of pools: block_count is the number of blocks (the other three fields are in
   JitProofs.stats_exact), and the whole record restated per pool. *)
From Coq Require Import ZArith List Bool Lia.
From Verif Require Import Jit.JitModel Jit.JitBits Jit.JitBlockProofs Jit.JitProofs.
Import ListNotations.
Local Open Scope Z_scope.

Fixpoint cnt_range (lo hi : Z) (l : list block) : Z :=
  match l with
  | [] => 0
  | b :: r => (if (lo <=? b_pool b) && (b_pool b <? hi) then 1 else 0) + cnt_range lo hi r
  end.

Lemma cnt_split lo l : forall hi, lo < hi -> cnt_range lo hi l = sump onef lo l + cnt_range (lo + 1) hi l.
Proof.
  intros hi H. induction l as [|b r IH]; cbn [cnt_range sump]; [reflexivity|]. rewrite IH. change (onef b) with 1.
  destruct (Z.eqb_spec (b_pool b) lo) as [E|E].
  - rewrite E. replace (lo <=? lo) with true by (symmetry; apply Z.leb_le; lia).
    replace (lo <? hi) with true by (symmetry; apply Z.ltb_lt; lia).
    replace (lo + 1 <=? lo) with false by (symmetry; apply Z.leb_gt; lia). cbn [andb]. lia.
  - destruct (Z.leb_spec lo (b_pool b)), (Z.leb_spec (lo + 1) (b_pool b)), (Z.ltb_spec (b_pool b) hi); cbn [andb]; lia.
Qed.

Lemma cnt_empty lo hi l : hi <= lo -> cnt_range lo hi l = 0.
Proof.
  intros H. induction l as [|b r IH]; cbn [cnt_range]; [reflexivity|]. rewrite IH.
  destruct (Z.leb_spec lo (b_pool b)), (Z.ltb_spec (b_pool b) hi); cbn [andb]; lia.
Qed.

Lemma cnt_full np l : (forall b, In b l -> 0 <= b_pool b < np) -> cnt_range 0 np l = Z.of_nat (length l).
Proof.
  induction l as [|b r IH]; intros H; cbn [cnt_range length]; [reflexivity|].
  rewrite IH by (intros x Hx; apply H; right; assumption). pose proof (H b (or_introl eq_refl)).
  replace (0 <=? b_pool b) with true by (symmetry; apply Z.leb_le; lia).
  replace (b_pool b <? np) with true by (symmetry; apply Z.ltb_lt; lia). cbn [andb]. lia.
Qed.

Lemma stats_go_blocks c bl : forall ps p0 acc, 0 <= p0 ->
  (forall k, (k < length ps)%nat -> p_count (nth k ps pool0) = sump onef (p0 + Z.of_nat k) bl) ->
  s_blocks (stats_go c ps p0 acc) = s_blocks acc + cnt_range p0 (p0 + Z.of_nat (length ps)) bl.
Proof.
  induction ps as [|pl r IH]; intros p0 acc H0 H; cbn [stats_go length].
  - rewrite cnt_empty by lia. lia.
  - pose proof (H O ltac:(cbn; lia)) as C0. cbn [nth] in C0. rewrite Z.add_0_r in C0.
    rewrite IH; [|lia|].
    + cbn [s_blocks]. rewrite (cnt_split p0 bl (p0 + Z.of_nat (S (length r)))) by lia.
      replace (p0 + Z.of_nat (S (length r))) with (p0 + 1 + Z.of_nat (length r)) by lia. lia.
    + intros k Hk. specialize (H (S k) ltac:(cbn; lia)). cbn [nth] in H.
      replace (p0 + 1 + Z.of_nat k) with (p0 + Z.of_nat (S k)) by lia. exact H.
Qed.

Theorem stats_blocks c st : cfg_ok c -> reach c st ->
  s_blocks (statistics c st) = Z.of_nat (length (blocks st)).
Proof.
  intros Hc R. pose proof (reach_ginv c st Hc R) as [GB GI GN GP GC GNid].
  unfold statistics. rewrite (stats_go_blocks c (blocks st)); [|lia|].
  - cbn [s_blocks]. rewrite GN, !Z.add_0_l. apply cnt_full.
    intros b Hb. rewrite Forall_forall in GB. destruct (GB b Hb) as (_ & P & _). exact P.
  - intros k Hk. destruct (GP (Z.of_nat k) ltac:(lia)) as [P1 _ _ _ _]. unfold get_pool in P1. rewrite Nat2Z.id in P1.
    rewrite Z.add_0_l. exact P1.
Qed.

(* per pool (multiple pools): what statistics() adds up for pool p is exactly that pool's blocks *)
Theorem stats_per_pool c st p : cfg_ok c -> reach c st -> 0 <= p < c_pools c ->
  p_count (get_pool st p) = sump onef p (blocks st) /\
  p_tsize (get_pool st p) * pool_gran c p = sump (fun b => b_area b * pool_gran c (b_pool b)) p (blocks st) /\
  p_tused (get_pool st p) * pool_gran c p =
    sump (fun b => (b_pad b + sum_len (b_live b)) * pool_gran c (b_pool b)) p (blocks st).
Proof.
  intros Hc R Hp. pose proof (reach_ginv c st Hc R) as [GB GI GN GP GC GNid].
  destruct (GP p Hp) as [P1 P2 P3 _ _]. rewrite P2, P3. splits; [assumption| |].
  - clear -GB. induction (blocks st) as [|b r IH]; cbn [sump]; [lia|].
    inversion GB; subst. rewrite <- IH by assumption. destruct (Z.eqb_spec (b_pool b) p) as [->|]; lia.
  - clear -GB. induction (blocks st) as [|b r IH]; cbn [sump]; [lia|].
    inversion GB as [|? ? Hb Hr]; subst. rewrite <- IH by assumption. destruct Hb as ([S _] & _).
    destruct (Z.eqb_spec (b_pool b) p) as [->|]; [rewrite (bs_sum b S)|]; lia.
Qed.

(* C09 — executable Gallina model of asmjit's JitAllocator (asmjit/core/jitallocator.cpp).

   Granule-level and bit-exact in everything the allocator decides on:
     * per block: `used`/`stop` bit vectors (as Z bit masks, bit i = granule i), area_used, largest_unused_area,
       search_start/search_end, flags empty/dirty/incremental, byte size, pool, identity (creation serial number;
       it stands for the block's base address, which the harness canonicalises to the same serial);
     * per pool: block_count, empty_block_count, total_area_size, total_area_used;
     * global: allocation_count, the list of blocks in creation order (a pool's linked list is this list filtered
       by pool: blocks are appended on creation and unlinked on deletion; `pool->cursor` is always the first block
       of the pool — it is only ever set to the first inserted block and, when that block is removed, to its
       successor — so the ring walk of `alloc` is the list order).
   The 64-bit word tricks of BitVectorRangeIterator / bit_vector_* are not modelled (bit-level semantics instead).
   Virtual memory is not modelled: a new block always succeeds (the generator keeps requests small).

   Instrumentation: every block also carries `b_live`, the list of (start granule, length) of the spans handed
   out of it and not yet released.  NO decision of the model reads `b_live`; it exists so that the theorems can
   speak about live spans.

   `variant` selects, per defect of the pinned tree, the pinned (false) or the repaired (true) behaviour:
     fix_incr   DESIGN 7.13  mark_allocated_area: clear kFlagIncremental when the block becomes full
     fix_empty              mark_released_area: the incremental branch flags a block that became empty
     fix_reset              reset(): allocation_count is set to 0
     fix_init   DESIGN 7.1  is_initialized(): block_size != 0
     fix_qpad               query(): an address inside the initial padding granule is rejected (round 5 finding)
   All theorems are about `fixed`; `pinned` is used for `_refuted` witnesses and for the correspondence with an
   unrepaired tree. *)
From Coq Require Import ZArith List Bool.
Import ListNotations.
Local Open Scope Z_scope.

(* ------------------------------------------------------------------ bit vectors *)
Definition set_range (u s n : Z) : Z := Z.lor u (Z.shiftl (Z.ones n) s).
Definition clear_range (u s n : Z) : Z := Z.ldiff u (Z.shiftl (Z.ones n) s).

(* scan the shifted word w = u >> i for the first position j >= i whose bit equals v; at most `fuel` positions;
   returns (j, u >> j); j = i + fuel when there is none *)
Fixpoint find_from (fuel : nat) (w : Z) (v : bool) (i : Z) : Z * Z :=
  match fuel with
  | O => (i, w)
  | S f => if Bool.eqb (Z.odd w) v then (i, w) else find_from f (Z.div2 w) v (i + 1)
  end.

(* first j in [i, e) with bit j of u equal to v, else e (for i <= e) *)
Definition find_bit (u : Z) (v : bool) (i e : Z) : Z :=
  fst (find_from (Z.to_nat (e - i)) (Z.shiftr u i) v i).

(* the free-range scan of JitAllocator::alloc over the window [i, e): maximal zero runs in increasing order; the
   first one of length >= n wins; otherwise (first run start, last run end, largest run) *)
Inductive scan_res := Found (idx : Z) | NotFound (first last_end largest : Z) | NoRuns.

Definition scan_finish (acc : option (Z * Z * Z)) : scan_res :=
  match acc with None => NoRuns | Some (f, le, lg) => NotFound f le lg end.

Fixpoint scan_runs (fuel : nat) (w : Z) (i e n : Z) (acc : option (Z * Z * Z)) : scan_res :=
  match fuel with
  | O => scan_finish acc
  | S f =>
    let '(s, ws) := find_from (Z.to_nat (e - i)) w false i in
    if e <=? s then scan_finish acc else
    let '(t, wt) := find_from (Z.to_nat (e - s)) ws true s in
    if n <=? t - s then Found s else
    scan_runs f wt t e n
      (Some (match acc with None => (s, t, t - s) | Some (fs, _, lg) => (fs, t, Z.max lg (t - s)) end))
  end.

Definition scan (u i e n : Z) : scan_res :=
  scan_runs (S (Z.to_nat (e - i))) (Z.shiftr u i) i e n None.

(* ------------------------------------------------------------------ configuration *)
Record variant := mkVariant { fix_incr : bool; fix_empty : bool; fix_reset : bool; fix_init : bool; fix_qpad : bool }.
Definition fixed : variant := mkVariant true true true true true.
Definition pinned : variant := mkVariant false false false false false.

Record config := mkConfig {
  c_gran : Z;        (* impl->granularity: 64, 128 or 256 *)
  c_pools : Z;       (* 1 or 3 *)
  c_bsize : Z;       (* impl->block_size in bytes *)
  c_pad : bool;      (* initial padding enabled (kDisableInitialPadding NOT set) *)
  c_imm : bool;      (* kImmediateRelease *)
  c_var : variant }.

Definition pool_gran (c : config) (p : Z) : Z := c_gran c * 2 ^ p.


(* ------------------------------------------------------------------ JitAllocator_new_impl: normalisation of CreateParams
   (page_gran = VirtMem::info().page_granularity of the host) *)
Definition is_pow2 (x : Z) : bool := (0 <? x) && (Z.land x (x - 1) =? 0).
Definition norm_gran (g : Z) : Z := if (g <? 64) || (256 <? g) || negb (is_pow2 g) then 64 else g.
Definition norm_bsize (page_gran bs : Z) : Z :=
  if (bs <? 65536) || (268435456 <? bs) || negb (is_pow2 bs) then page_gran else bs.
Definition norm_pools (multi : bool) : Z := if multi then 3 else 1.

(* ------------------------------------------------------------------ blocks *)
Record block := mkBlock {
  b_id : Z; b_pool : Z; b_bytes : Z; b_area : Z; b_pad : Z;
  b_used : Z; b_stop : Z; b_aused : Z; b_largest : Z; b_ss : Z; b_se : Z;
  b_empty : bool; b_dirty : bool; b_incr : bool;
  b_live : list (Z * Z) }.

Definition block_full (b : block) : bool := b_area b - b_aused b =? 0.

(* JitAllocatorBlock::clear_block on a block with the given geometry *)
Definition clear_block (id pool bytes area pad : Z) : block :=
  mkBlock id pool bytes area pad pad pad pad (area - pad) pad area true false true [].

(* JitAllocatorBlock::mark_allocated_area(s, e) *)
Definition mark_allocated (v : variant) (b : block) (s e : Z) : block :=
  let n := e - s in
  let used' := set_range (b_used b) s n in
  let stop' := Z.setbit (b_stop b) (e - 1) in
  let au := b_aused b + n in
  if b_area b - au =? 0 then
    mkBlock (b_id b) (b_pool b) (b_bytes b) (b_area b) (b_pad b) used' stop' au 0 (b_area b) 0
            false false (if fix_incr v then false else b_incr b) ((s, n) :: b_live b)
  else
    let ss1 := if b_ss b =? s then e else b_ss b in
    let se1 := if b_se b =? e then s else b_se b in
    mkBlock (b_id b) (b_pool b) (b_bytes b) (b_area b) (b_pad b) used' stop' au (b_largest b) ss1 se1
            false true (b_incr b) ((s, n) :: b_live b).

Definition rm_span (s : Z) (l : list (Z * Z)) : list (Z * Z) := filter (fun sp => negb (fst sp =? s)) l.

(* JitAllocatorBlock::mark_released_area(s, e) *)
Definition mark_released (v : variant) (b : block) (s e : Z) : block :=
  let n := e - s in
  let au := b_aused b - n in
  let used' := clear_range (b_used b) s n in
  let stop' := Z.clearbit (b_stop b) (e - 1) in
  let live' := rm_span s (b_live b) in
  if b_incr b && (b_ss b =? e) then
    mkBlock (b_id b) (b_pool b) (b_bytes b) (b_area b) (b_pad b) used' stop' au (b_largest b + n) (b_ss b - n) (b_se b)
            (if fix_empty v && (au =? b_pad b) then true else b_empty b) (b_dirty b) true live'
  else
    let ss1 := Z.min (b_ss b) s in
    let se1 := Z.max (b_se b) e in
    if au =? b_pad b then
      mkBlock (b_id b) (b_pool b) (b_bytes b) (b_area b) (b_pad b) used' stop' au (b_area b - b_pad b) (b_pad b) (b_area b)
              true false false live'
    else
      mkBlock (b_id b) (b_pool b) (b_bytes b) (b_area b) (b_pad b) used' stop' au (b_largest b) ss1 se1
              (b_empty b) true false live'.

(* JitAllocatorBlock::mark_shrunk_area(s, e): the span [s0, e) keeps [s0, s) *)
Definition mark_shrunk (b : block) (s0 s e : Z) : block :=
  let n := e - s in
  let au := b_aused b - n in
  let used' := clear_range (b_used b) s n in
  let stop' := Z.setbit (Z.clearbit (b_stop b) (e - 1)) (s - 1) in
  let live' := (s0, s - s0) :: rm_span s0 (b_live b) in
  if b_incr b && (b_ss b =? e) then
    mkBlock (b_id b) (b_pool b) (b_bytes b) (b_area b) (b_pad b) used' stop' au (b_largest b + n) (b_ss b - n) (b_se b)
            (b_empty b) (b_dirty b) true live'
  else
    mkBlock (b_id b) (b_pool b) (b_bytes b) (b_area b) (b_pad b) used' stop' au (b_largest b) (Z.min (b_ss b) s)
            (Z.max (b_se b) e) (b_empty b) true false live'.

Definition set_largest (b : block) (lg : Z) : block :=
  mkBlock (b_id b) (b_pool b) (b_bytes b) (b_area b) (b_pad b) (b_used b) (b_stop b) (b_aused b) lg (b_ss b) (b_se b)
          (b_empty b) (b_dirty b) (b_incr b) (b_live b).

(* the cache refresh after a complete, unsuccessful scan *)
Definition refresh (b : block) (fs le lg : Z) : block :=
  mkBlock (b_id b) (b_pool b) (b_bytes b) (b_area b) (b_pad b) (b_used b) (b_stop b) (b_aused b) lg fs le
          (b_empty b) false (b_incr b) (b_live b).

(* one iteration of the block loop of JitAllocator::alloc for a request of n granules:
   the block as left behind (fast path: largest already decreased; failed scan: window refreshed) and the index *)
Definition block_try (b : block) (n : Z) : block * option Z :=
  if b_incr b && (n <=? b_largest b) then (set_largest b (b_largest b - n), Some (b_ss b))
  else if n <=? b_area b - b_aused b then
    if b_dirty b || (n <=? b_largest b) then
      match scan (b_used b) (b_ss b) (b_se b) n with
      | Found s => (b, Some s)
      | NotFound fs le lg => (refresh b fs le lg, None)
      | NoRuns => (b, None)
      end
    else (b, None)
  else (b, None).

(* the tail of JitAllocator::alloc when an existing block was chosen *)
Definition block_alloc (v : variant) (b : block) (n : Z) : block * option Z :=
  let '(b1, o) := block_try b n in
  match o with
  | Some s => (mark_allocated v b1 s (s + n), Some s)
  | None => (b1, None)
  end.

(* JitAllocator_new_block + the new-block branch of alloc *)
Definition new_block_alloc (v : variant) (id pool bytes area pad n : Z) : block :=
  let b := clear_block id pool bytes area pad in
  let b1 := mkBlock id pool bytes area pad (b_used b) (b_stop b) (b_aused b) (b_largest b - n) (b_ss b + n) (b_se b)
                    true false true [] in
  mark_allocated v b1 pad (pad + n).

(* ------------------------------------------------------------------ pools and state *)
Record pool := mkPool { p_count : Z; p_empty : Z; p_tsize : Z; p_tused : Z }.
Definition pool0 : pool := mkPool 0 0 0 0.

Record state := mkState { blocks : list block; pools : list pool; acount : Z; nextid : Z }.

Definition init_state (c : config) : state :=
  mkState [] (repeat pool0 (Z.to_nat (c_pools c))) 0 0.

Definition get_pool (st : state) (p : Z) : pool := nth (Z.to_nat p) (pools st) pool0.

Fixpoint upd_nth {A} (k : nat) (l : list A) (x : A) : list A :=
  match l, k with
  | [], _ => []
  | _ :: r, O => x :: r
  | y :: r, S k' => y :: upd_nth k' r x
  end.

Definition set_pool (ps : list pool) (p : Z) (x : pool) : list pool := upd_nth (Z.to_nat p) ps x.

(* ------------------------------------------------------------------ results *)
Inductive err := Ok | InvalidArgument | InvalidState | TooLarge | OutOfMemory | NotInitialized.

Inductive result :=
| RAlloc (e : err) (id off len : Z)            (* byte offset and byte length *)
| RRelease (e : err) (id : Z) (deleted : bool)
| RShrink (e : err) (id len : Z)
| RQuery (e : err) (id off len : Z)
| RReset
| RNone.

(* ------------------------------------------------------------------ alloc *)
Definition align_up (x a : Z) : Z := ((x + a - 1) / a) * a.

(* JitAllocator_size_to_pool_id *)
Fixpoint size_to_pool_go (k : nat) (size g : Z) (p : Z) : Z :=
  match k with
  | O => p
  | S k' => if p =? 0 then 0 else if size mod g =? 0 then p else size_to_pool_go k' size (g / 2) (p - 1)
  end.
Definition size_to_pool (c : config) (size : Z) : Z :=
  size_to_pool_go (Z.to_nat (c_pools c)) size (pool_gran c (c_pools c - 1)) (c_pools c - 1).

Definition max_block_size : Z := 67108864.

Fixpoint last_of_pool (p : Z) (l : list block) (acc : option block) : option block :=
  match l with
  | [] => acc
  | b :: r => last_of_pool p r (if b_pool b =? p then Some b else acc)
  end.

(* JitAllocator_calculate_ideal_block_size (sizes are far below the overflow checks) *)
Definition ideal_block_size (c : config) (p : Z) (last : option block) (size : Z) : Z :=
  let bs := match last with Some b => b_bytes b | None => c_bsize c end in
  let asz := if c_pad c then size + pool_gran c p else size in
  let bs := if bs <? max_block_size then bs * 2 else bs in
  if bs <? asz then align_up asz (c_bsize c) else bs.

(* walk the blocks of pool p in list order; the chosen block is updated in place *)
Fixpoint try_blocks (v : variant) (p n : Z) (l : list block) : list block * option (Z * Z * bool) :=
  match l with
  | [] => ([], None)
  | b :: r =>
    if b_pool b =? p then
      match block_alloc v b n with
      | (b', Some s) => (b' :: r, Some (b_id b, s, b_empty b))
      | (b', None) => let '(r', res) := try_blocks v p n r in (b' :: r', res)
      end
    else let '(r', res) := try_blocks v p n r in (b :: r', res)
  end.

Definition two64 : Z := 18446744073709551616.

Definition alloc (c : config) (st : state) (size0 : Z) : state * result :=
  let size := (align_up size0 (c_gran c)) mod two64 in
  if size =? 0 then (st, RAlloc InvalidArgument 0 0 0)
  else if 2147483647 <=? size - 1 then (st, RAlloc TooLarge 0 0 0)
  else
    let p := size_to_pool c size in
    let g := pool_gran c p in
    let n := (size + g - 1) / g in
    let pl := get_pool st p in
    match try_blocks (c_var c) p n (blocks st) with
    | (bl', Some (id, s, was_empty)) =>
      let pl' := mkPool (p_count pl) (if was_empty then p_empty pl - 1 else p_empty pl) (p_tsize pl) (p_tused pl + n) in
      (mkState bl' (set_pool (pools st) p pl') (acount st + 1) (nextid st), RAlloc Ok id (s * g) size)
    | (bl', None) =>
      let bytes := ideal_block_size c p (last_of_pool p bl' None) size in
      let area := (bytes + g - 1) / g in
      let pad := if c_pad c then 1 else 0 in
      let nb := new_block_alloc (c_var c) (nextid st) p bytes area pad n in
      let pl' := mkPool (p_count pl + 1) (p_empty pl) (p_tsize pl + area) (p_tused pl + pad + n) in
      (mkState (bl' ++ [nb]) (set_pool (pools st) p pl') (acount st + 1) (nextid st + 1),
       RAlloc Ok (nextid st) (pad * g) size)
    end.

(* ------------------------------------------------------------------ lookup, release, shrink, query *)
Fixpoint find_block (id : Z) (l : list block) : option block :=
  match l with
  | [] => None
  | b :: r => if b_id b =? id then Some b else find_block id r
  end.

Fixpoint replace_block (b' : block) (l : list block) : list block :=
  match l with
  | [] => []
  | b :: r => if b_id b =? b_id b' then b' :: r else b :: replace_block b' r
  end.

Fixpoint remove_block (id : Z) (l : list block) : list block :=
  match l with
  | [] => []
  | b :: r => if b_id b =? id then r else b :: remove_block id r
  end.

(* end (exclusive) of the span that starts at granule idx: position of the next stop bit + 1 *)
Definition span_end (b : block) (idx : Z) : Z := find_bit (b_stop b) true idx (b_area b) + 1.

(* JitAllocator::release(rx) for rx = base(id) + off *)
Definition release (c : config) (st : state) (id off : Z) : state * result :=
  match find_block id (blocks st) with
  | None => (st, RRelease InvalidState 0 false)
  | Some b =>
    let p := b_pool b in
    let g := pool_gran c p in
    let idx := off / g in
    let e := span_end b idx in
    let n := e - idx in
    let b' := mark_released (c_var c) b idx e in
    let pl := get_pool st p in
    if b_empty b' then
      if (0 <? p_empty pl) || c_imm c then
        let pl' := mkPool (p_count pl - 1) (p_empty pl) (p_tsize pl - b_area b') (p_tused pl - n - b_aused b') in
        (mkState (remove_block id (blocks st)) (set_pool (pools st) p pl') (acount st - 1) (nextid st),
         RRelease Ok id true)
      else
        let pl' := mkPool (p_count pl) (p_empty pl + 1) (p_tsize pl) (p_tused pl - n) in
        (mkState (replace_block b' (blocks st)) (set_pool (pools st) p pl') (acount st - 1) (nextid st),
         RRelease Ok id false)
    else
      let pl' := mkPool (p_count pl) (p_empty pl) (p_tsize pl) (p_tused pl - n) in
      (mkState (replace_block b' (blocks st)) (set_pool (pools st) p pl') (acount st - 1) (nextid st),
       RRelease Ok id false)
  end.

(* JitAllocator::shrink(span, new_size) for span.rx = base(id) + off, span._block = block id *)
Definition shrink (c : config) (st : state) (id off new_size : Z) : state * result :=
  if new_size =? 0 then
    match release c st id off with
    | (st', RRelease e i d) => (st', RShrink e i 0)
    | (st', _) => (st', RShrink InvalidArgument 0 0)
    end
  else
  match find_block id (blocks st) with
  | None => (st, RShrink InvalidArgument 0 0)
  | Some b =>
    let p := b_pool b in
    let g := pool_gran c p in
    let idx := off / g in
    if negb (Z.testbit (b_used b) idx) then (st, RShrink InvalidArgument id 0)
    else
      let e := span_end b idx in
      let prev := e - idx in
      let shr := (new_size + g - 1) / g in
      if prev <? shr then (st, RShrink InvalidArgument id (prev * g))
      else if prev - shr =? 0 then (st, RShrink Ok id (prev * g))
      else
        let b' := mark_shrunk b idx (idx + shr) e in
        let pl := get_pool st p in
        let pl' := mkPool (p_count pl) (p_empty pl) (p_tsize pl) (p_tused pl - (prev - shr)) in
        (mkState (replace_block b' (blocks st)) (set_pool (pools st) p pl') (acount st) (nextid st),
         RShrink Ok id (shr * g))
  end.

(* JitAllocator::query(rx) *)
Definition query (c : config) (st : state) (id off : Z) : result :=
  match find_block id (blocks st) with
  | None => RQuery InvalidArgument 0 0 0
  | Some b =>
    let g := pool_gran c (b_pool b) in
    let idx := off / g in
    if negb (Z.testbit (b_used b) idx) || (fix_qpad (c_var c) && (idx <? b_pad b)) then RQuery InvalidArgument 0 0 0
    else RQuery Ok id (idx * g) ((span_end b idx - idx) * g)
  end.

(* ------------------------------------------------------------------ reset *)
Fixpoint first_of_pool (p : Z) (l : list block) : option block :=
  match l with
  | [] => None
  | b :: r => if b_pool b =? p then Some b else first_of_pool p r
  end.

(* JitAllocatorImpl_wipeOutBlock *)
Definition wipe_block (b : block) : block :=
  if b_empty b then b else clear_block (b_id b) (b_pool b) (b_bytes b) (b_area b) (b_pad b).

Fixpoint reset_pools (keep : bool) (bl : list block) (ps : list pool) (p : Z) : list block * list pool :=
  match ps with
  | [] => ([], [])
  | pl :: r =>
    let '(bl_r, ps_r) := reset_pools keep bl r (p + 1) in
    match first_of_pool p bl with
    | Some b =>
      if keep then
        let b' := wipe_block b in (b' :: bl_r, mkPool 1 1 (b_area b') (b_aused b') :: ps_r)
      else (bl_r, mkPool 0 (p_empty pl) 0 0 :: ps_r)
    | None => (bl_r, mkPool 0 (p_empty pl) 0 0 :: ps_r)
    end
  end.

Definition reset (c : config) (st : state) (hard : bool) : state :=
  let keep := negb hard && negb (c_imm c) in
  let '(bl, ps) := reset_pools keep (blocks st) (pools st) 0 in
  mkState bl ps (if fix_reset (c_var c) then 0 else acount st) (nextid st).

(* ------------------------------------------------------------------ statistics, is_initialized *)
Record stats := mkStats { s_blocks : Z; s_allocs : Z; s_used : Z; s_reserved : Z }.

Fixpoint stats_go (c : config) (ps : list pool) (p : Z) (acc : stats) : stats :=
  match ps with
  | [] => acc
  | pl :: r => stats_go c r (p + 1)
                 (mkStats (s_blocks acc + p_count pl) (s_allocs acc)
                          (s_used acc + p_tused pl * pool_gran c p) (s_reserved acc + p_tsize pl * pool_gran c p))
  end.
Definition statistics (c : config) (st : state) : stats := stats_go c (pools st) 0 (mkStats 0 (acount st) 0 0).

Definition is_initialized (c : config) : bool :=
  if fix_init (c_var c) then negb (c_bsize c =? 0) else (c_bsize c =? 0).

(* ------------------------------------------------------------------ histories *)
Inductive op :=
| OAlloc (size : Z)
| ORelease (id off : Z)
| OShrink (id off new_size : Z)
| OQuery (id off : Z)
| OReset (hard : bool).

Definition step (c : config) (st : state) (o : op) : state * result :=
  match o with
  | OAlloc size => alloc c st size
  | ORelease id off => release c st id off
  | OShrink id off ns => shrink c st id off ns
  | OQuery id off => (st, query c st id off)
  | OReset hard => (reset c st hard, RReset)
  end.

Fixpoint run (c : config) (st : state) (ops : list op) : state :=
  match ops with
  | [] => st
  | o :: r => run c (fst (step c st o)) r
  end.

(* ------------------------------------------------------------------ executable window-soundness test (used by the
   driver to cut a history of an UNREPAIRED tree at the first state in which DESIGN 7.13 has struck) *)
Definition block_wsound (b : block) : bool :=
  block_full b ||
  ((b_ss b <=? find_bit (b_used b) false 0 (Z.min (b_ss b) (b_area b))) &&
   (b_area b <=? find_bit (b_used b) false (Z.max 0 (Z.min (b_se b) (b_area b))) (b_area b))).
Definition state_wsound (st : state) : bool := forallb block_wsound (blocks st).

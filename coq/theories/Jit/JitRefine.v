(* C09 — byte level and the judge: (1) the live spans of every reachable state, as BYTE ranges of their blocks, are non-empty and
   pairwise disjoint; (2) every successful alloc of the model passes the proven trace judge's alloc_ok against the byte ranges
   live before it (the judge never rejects the model: completeness direction of JitSpecProofs.alloc_ok_sound). *)
From Coq Require Import ZArith List Bool Lia.
Import ListNotations.
From Verif Require Import Jit.JitModel Jit.JitBits Jit.JitBlockProofs Jit.JitProofs Jit.JitBytes Jit.JitFill Jit.JitSpec Jit.JitSpecProofs
  Jit.JitRuntimeProofs Jit.JitComplete.
Local Open Scope Z_scope.

Definition span_bytes (c : config) (b : block) (sp : Z * Z) : tspan :=
  (b_id b, (fst sp * pool_gran c (b_pool b), snd sp * pool_gran c (b_pool b))).
Definition live_bytes (c : config) (bl : list block) : list tspan :=
  flat_map (fun b => map (span_bytes c b) (b_live b)) bl.

Lemma in_live_bytes c bl x :
  In x (live_bytes c bl) <-> exists b sp, In b bl /\ In sp (b_live b) /\ x = span_bytes c b sp.
Proof.
  unfold live_bytes. rewrite in_flat_map. split.
  - intros [b [Hb H]]. apply in_map_iff in H. destruct H as [sp [E Hsp]]. exists b, sp. splits; [assumption|assumption|symmetry; assumption].
  - intros (b & sp & Hb & Hsp & ->). exists b. split; [assumption|]. apply in_map. assumption.
Qed.

Theorem live_bytes_disjoint c st : cfg_ok_bytes c -> reach c st ->
  forall x y, In x (live_bytes c (blocks st)) -> In y (live_bytes c (blocks st)) ->
  1 <= t_len x /\ (x = y \/ disjoint_spans x y).
Proof.
  intros HB R x y Hx Hy. pose proof (cb_ok c HB) as Hc.
  apply in_live_bytes in Hx. apply in_live_bytes in Hy.
  destruct Hx as (b1 & [s1 n1] & Hb1 & Hs1 & ->). destruct Hy as (b2 & [s2 n2] & Hb2 & Hs2 & ->).
  pose proof (live_spans_disjoint c st Hc R b1 b2 _ _ Hb1 Hb2 Hs1 Hs2) as (Hid & (Hp1 & _) & Hdis).
  pose proof (live_spans_disjoint c st Hc R b2 b1 _ _ Hb2 Hb1 Hs2 Hs1) as (_ & (Hp2 & _) & _).
  pose proof (span_bytes_inside c st HB R b1 s1 n1 Hb1 Hs1) as (Hg1 & _ & _ & Hn1).
  cbn [fst snd] in *. unfold disjoint_spans, span_bytes, t_blk, t_off, t_len. cbn [fst snd]. split; [lia|].
  destruct (Z.eq_dec (b_id b1) (b_id b2)) as [E|NE]; [|right; left; assumption].
  specialize (Hid E). subst b2. set (g := pool_gran c (b_pool b1)) in *.
  destruct (Z_le_gt_dec (s1 + n1) s2) as [L1|L1]; [right; right; left; nia|].
  destruct (Z_le_gt_dec (s2 + n2) s1) as [L2|L2]; [right; right; right; nia|].
  left. assert (E2 : (s1, n1) = (s2, n2)).
  { apply (Hdis eq_refl (Z.max s1 s2)); unfold in_span; cbn [fst snd]; lia. }
  inversion E2; subst. reflexivity.
Qed.

Theorem model_alloc_accepted c st size st' id off len :
  cfg_ok_bytes c -> reach c st -> 1 <= size -> size + c_gran c <= two64 ->
  alloc c st size = (st', RAlloc Ok id off len) ->
  exists b, In b (blocks st') /\ b_id b = id /\
    alloc_ok (c_gran c) (c_pools c) (b_pad b) (live_bytes c (blocks st)) size id off len (b_bytes b) (b_pool b) = true.
Proof.
  intros HB R Hs0 Hs1 HA. pose proof (cb_ok c HB) as Hc.
  assert (Hs0' : 0 <= size) by lia.
  pose proof (alloc_result c st size st' id off len Hc R Hs0' Hs1 HA) as (Hlen & Hmod & b & Hb & Hid & Hpool & Hoff & Hlen2 & Hlive & _).
  pose proof (alloc_frame c st size st' id off len Hc R Hs0' Hs1 HA) as AF.
  pose proof (alloc_fresh c st size st' id off len Hc R Hs0' Hs1 HA) as AN.
  cbn zeta in AF, AN. rewrite <- Hpool in AF, AN.
  assert (Est : st' = fst (step c st (OAlloc size))) by (cbn [step]; rewrite HA; reflexivity).
  assert (R' : reach c st'). { rewrite Est. apply reach_step; [assumption|exact I]. }
  pose proof (reach_ginv c st' Hc R') as G'. pose proof (reach_ginv c st Hc R) as G.
  pose proof (span_bytes_inside c st' HB R' b _ _ Hb Hlive) as (Hg & Hp & Hin & Hn). cbn zeta in *.
  set (g := pool_gran c (b_pool b)) in *.
  assert (Eo : off / g * g = off). { pose proof (Z.div_mod off g ltac:(lia)) as D. rewrite Hoff in D. lia. }
  assert (El : len / g * g = len). { pose proof (Z.div_mod len g ltac:(lia)) as D. rewrite Hlen2 in D. lia. }
  pose proof (g_blocks c st' G') as GB'. rewrite Forall_forall in GB'. destruct (GB' b Hb) as (_ & Hpr & _).
  pose proof (g_blocks c st G) as GB. rewrite Forall_forall in GB.
  exists b. splits; try assumption.
  unfold alloc_ok. fold (pool_gran c (b_pool b)). fold g.
  repeat (apply andb_true_intro; split);
    try (apply Z.leb_le; lia); try (apply Z.ltb_lt; lia); try (apply Z.eqb_eq; assumption).
  apply forallb_forall. intros y Hy. apply negb_true_iff.
  destruct (overlaps (id, (off, len)) y) eqn:Ov; [exfalso|reflexivity].
  apply in_live_bytes in Hy. destruct Hy as (b0 & [s0 n0] & Hb0 & Hsp0 & ->).
  unfold overlaps, span_bytes, t_blk, t_off, t_len in Ov. cbn [fst snd] in Ov.
  apply andb_true_iff in Ov. destruct Ov as [Ov O3]. apply andb_true_iff in Ov. destruct Ov as [O1 O2].
  apply Z.eqb_eq in O1. apply Z.ltb_lt in O2. apply Z.ltb_lt in O3.
  destruct (GB b0 Hb0) as (_ & _ & Hid0).
  assert (Hb' : In b (blocks (fst (step c st (OAlloc size))))) by (rewrite <- Est; assumption).
  destruct (step_blocks c st (OAlloc size) Hc R I b Hb') as [(bo & Hbo & Hgeom)|[Hnew _]]; [|lia].
  destruct Hgeom as (Gid & Gpool & _).
  assert (Ebo : bo = b0).
  { pose proof (find_block_of_in (blocks st) bo (g_ids c st G) Hbo) as F1.
    pose proof (find_block_of_in (blocks st) b0 (g_ids c st G) Hb0) as F2.
    assert (Eid : b_id bo = b_id b0) by lia. rewrite Eid in F1. rewrite F1 in F2. inversion F2. reflexivity. }
  subst bo. rewrite <- Gpool in *. fold g in O2, O3.
  assert (Hin0 : In (id, (s0, n0)) (all_live (blocks st))).
  { apply in_all_live. exists b0. splits; try assumption. lia. }
  assert (Hin1 : In (id, (s0, n0)) (all_live (blocks st'))) by (apply AF; right; assumption).
  apply in_all_live in Hin1. destruct Hin1 as (b1 & Hb1 & Hid1 & Hsp1).
  pose proof (live_spans_disjoint c st' Hc R' b b1 _ _ Hb Hb1 Hlive Hsp1) as (Hinj & (Hp1 & _) & Hdis).
  pose proof (live_spans_disjoint c st' Hc R' b1 b _ _ Hb1 Hb Hsp1 Hlive) as (_ & (Hp0 & _) & _).
  assert (E1 : b = b1) by (apply Hinj; lia). cbn [fst snd] in *.
  assert (E2 : (off / g, len / g) = (s0, n0)).
  { apply (Hdis E1 (Z.max (off / g) s0)); unfold in_span; cbn [fst snd]; nia. }
  apply AN. rewrite E2. assumption.
Qed.

(* ------------------------------------------------------------------ release / shrink: the judge's bookkeeping = the model's *)
Lemma step_pool_agree c st o : cfg_ok c -> reach c st -> valid_op c st o ->
  forall b b', In b (blocks st) -> In b' (blocks (fst (step c st o))) -> b_id b' = b_id b -> b_pool b' = b_pool b.
Proof.
  intros Hc R V b b' Hb Hb' E. pose proof (reach_ginv c st Hc R) as G.
  pose proof (g_blocks c st G) as GB. rewrite Forall_forall in GB. destruct (GB b Hb) as (_ & _ & Hid).
  destruct (step_blocks c st o Hc R V b' Hb') as [(b0 & Hb0 & Gid & Gpool & _)|[Hnew _]]; [|lia].
  assert (b0 = b) by (apply (nodup_ids_inj (blocks st)); [apply (g_ids c st G)|assumption|assumption|lia]).
  subst b0. assumption.
Qed.

Lemma same_start_same_span c st b s n n' : cfg_ok c -> reach c st -> In b (blocks st) ->
  In (s, n) (b_live b) -> In (s, n') (b_live b) -> n' = n.
Proof.
  intros Hc R Hb H1 H2.
  pose proof (live_spans_disjoint c st Hc R b b _ _ Hb Hb H1 H2) as (_ & (Hp1 & _) & Hdis).
  pose proof (live_spans_disjoint c st Hc R b b _ _ Hb Hb H2 H1) as (_ & (Hp2 & _) & _). cbn [fst snd] in *.
  assert (E : (s, n) = (s, n')) by (apply (Hdis eq_refl s); unfold in_span; cbn [fst snd]; lia).
  inversion E. reflexivity.
Qed.

Theorem model_release_accepted c st id off b s n :
  cfg_ok_bytes c -> reach c st -> find_block id (blocks st) = Some b ->
  off = s * pool_gran c (b_pool b) -> In (s, n) (b_live b) ->
  existsb (at_start id off) (live_bytes c (blocks st)) = true /\
  forall x, In x (live_bytes c (blocks (fst (release c st id off)))) <->
            In x (filter (fun y => negb (at_start id off y)) (live_bytes c (blocks st))).
Proof.
  intros HB R Ef Hoff Hin. pose proof (cb_ok c HB) as Hc. pose proof (reach_ginv c st Hc R) as G.
  destruct (find_block_in _ _ _ Ef) as [Hbin Hbid].
  pose proof (span_bytes_inside c st HB R b s n Hbin Hin) as (Hg & _). cbn zeta in Hg.
  set (g := pool_gran c (b_pool b)) in *.
  assert (Hs : s = off / g) by (rewrite Hoff; symmetry; apply Z.div_mul; lia).
  pose proof (release_frame c st id off b s n Hc R Ef Hs Hin) as (_ & AF).
  assert (V : valid_op c st (ORelease id off)).
  { cbn. intros b0 E0. rewrite Ef in E0. inversion E0; subst b0. exists n. fold g. rewrite <- Hs. assumption. }
  pose proof (step_pool_agree c st (ORelease id off) Hc R V) as PA. cbn [step] in PA.
  assert (Hsame : forall b0, In b0 (blocks st) -> b_id b0 = id -> b0 = b).
  { intros b0 H0 E0. apply (nodup_ids_inj (blocks st)); [apply (g_ids c st G)|assumption|assumption|lia]. }
  split.
  - apply existsb_exists. exists (span_bytes c b (s, n)). split.
    + apply in_live_bytes. exists b, (s, n). splits; [assumption|assumption|reflexivity].
    + unfold at_start, span_bytes, t_blk, t_off. cbn [fst snd]. fold g. rewrite Hbid, <- Hoff, !Z.eqb_refl. reflexivity.
  - intros x. rewrite filter_In, !in_live_bytes. split.
    + intros (b' & [s1 n1] & Hb' & Hsp' & ->).
      assert (H1 : In (b_id b', (s1, n1)) (all_live (blocks (fst (release c st id off))))).
      { apply in_all_live. exists b'. splits; [assumption|reflexivity|assumption]. }
      apply AF in H1. destruct H1 as [H1 Hne]. apply in_all_live in H1. destruct H1 as (b0 & Hb0 & Hid0 & Hsp0).
      pose proof (PA b0 b' Hb0 Hb' (eq_sym Hid0)) as Hp.
      assert (Ex : span_bytes c b' (s1, n1) = span_bytes c b0 (s1, n1)) by (unfold span_bytes; rewrite Hp, Hid0; reflexivity).
      split; [exists b0, (s1, n1); splits; assumption|].
      apply negb_true_iff. destruct (at_start id off _) eqn:At; [exfalso|reflexivity].
      rewrite Ex in At. unfold at_start, span_bytes, t_blk, t_off in At. cbn [fst snd] in At.
      apply andb_true_iff in At. destruct At as [A1 A2]. apply Z.eqb_eq in A1. apply Z.eqb_eq in A2.
      pose proof (Hsame b0 Hb0 A1) as E0. subst b0. fold g in A2.
      assert (s1 = s) by nia. subst s1.
      pose proof (same_start_same_span c st b s n n1 Hc R Hbin Hin Hsp0) as En. subst n1.
      apply Hne. rewrite <- Hid0, A1. reflexivity.
    + intros [(b0 & [s1 n1] & Hb0 & Hsp0 & ->) Hnot]. apply negb_true_iff in Hnot.
      assert (H1 : In (b_id b0, (s1, n1)) (all_live (blocks (fst (release c st id off))))).
      { apply AF. split; [apply in_all_live; exists b0; splits; [assumption|reflexivity|assumption]|].
        intros E. assert (E0 : b0 = b) by (apply Hsame; [assumption|congruence]). subst b0.
        assert (E1 : s1 = s) by congruence. subst s1.
        unfold at_start, span_bytes, t_blk, t_off in Hnot. cbn [fst snd] in Hnot. fold g in Hnot.
        rewrite Hbid, <- Hoff, !Z.eqb_refl in Hnot. discriminate. }
      apply in_all_live in H1. destruct H1 as (b' & Hb' & Hid' & Hsp').
      pose proof (PA b0 b' Hb0 Hb' Hid') as Hp.
      exists b', (s1, n1). splits; [assumption|assumption|]. unfold span_bytes. rewrite Hp, Hid'. reflexivity.
Qed.

Theorem model_shrink_accepted c st id off ns b s n :
  cfg_ok_bytes c -> reach c st -> find_block id (blocks st) = Some b ->
  off = s * pool_gran c (b_pool b) -> In (s, n) (b_live b) -> 1 <= ns ->
  let g := pool_gran c (b_pool b) in
  let m := (ns + g - 1) / g in
  m < n ->
  (exists y, find (at_start id off) (live_bytes c (blocks st)) = Some y /\ t_len y = n * g) /\
  1 <= m * g <= n * g /\
  snd (shrink c st id off ns) = RShrink Ok id (m * g) /\
  forall x, In x (live_bytes c (blocks (fst (shrink c st id off ns)))) <->
            x = (id, (off, m * g)) \/ In x (filter (fun y => negb (at_start id off y)) (live_bytes c (blocks st))).
Proof.
  intros HB R Ef Hoff Hin Hns g m Hmn. fold g in Hoff. pose proof (cb_ok c HB) as Hc. pose proof (reach_ginv c st Hc R) as G.
  destruct (find_block_in _ _ _ Ef) as [Hbin Hbid].
  pose proof (span_bytes_inside c st HB R b s n Hbin Hin) as (Hg & _). cbn zeta in Hg. fold g in Hg.
  assert (Hs : s = off / g) by (rewrite Hoff; symmetry; apply Z.div_mul; lia).
  pose proof (shrink_frame c st id off ns b s n Hc R Ef Hs Hin Hns) as (_ & _ & SF). cbn zeta in SF. fold g in SF. fold m in SF.
  destruct (SF Hmn) as [Hans AF]. clear SF.
  pose proof (ceil_ge1 ns g Hg Hns) as Hm. fold m in Hm.
  assert (V : valid_op c st (OShrink id off ns)).
  { cbn. split; [|lia]. intros b0 E0. rewrite Ef in E0. inversion E0; subst b0. exists n. fold g. rewrite <- Hs. assumption. }
  pose proof (step_pool_agree c st (OShrink id off ns) Hc R V) as PA. cbn [step] in PA.
  assert (Hsame : forall b0, In b0 (blocks st) -> b_id b0 = id -> b0 = b).
  { intros b0 H0 E0. apply (nodup_ids_inj (blocks st)); [apply (g_ids c st G)|assumption|assumption|lia]. }
  assert (Hstart : forall y, In y (live_bytes c (blocks st)) -> at_start id off y = true -> y = span_bytes c b (s, n)).
  { intros y Hy At. apply in_live_bytes in Hy. destruct Hy as (b0 & [s1 n1] & Hb0 & Hsp0 & ->).
    unfold at_start, span_bytes, t_blk, t_off in At. cbn [fst snd] in At.
    apply andb_true_iff in At. destruct At as [A1 A2]. apply Z.eqb_eq in A1. apply Z.eqb_eq in A2.
    pose proof (Hsame b0 Hb0 A1) as E0. subst b0. fold g in A2. assert (s1 = s) by nia. subst s1.
    pose proof (same_start_same_span c st b s n n1 Hc R Hbin Hin Hsp0) as En. subst n1. reflexivity. }
  assert (Hthere : In (span_bytes c b (s, n)) (live_bytes c (blocks st)) /\ at_start id off (span_bytes c b (s, n)) = true).
  { split; [apply in_live_bytes; exists b, (s, n); splits; [assumption|assumption|reflexivity]|].
    unfold at_start, span_bytes, t_blk, t_off. cbn [fst snd]. fold g. rewrite Hbid, <- Hoff, !Z.eqb_refl. reflexivity. }
  splits.
  - destruct (find (at_start id off) (live_bytes c (blocks st))) as [y|] eqn:Fy.
    + apply find_some in Fy. destruct Fy as [Hy At]. exists y. split; [reflexivity|].
      rewrite (Hstart y Hy At). unfold span_bytes, t_len. cbn [fst snd]. reflexivity.
    + exfalso. destruct Hthere as [H1 H2]. pose proof (find_none _ _ Fy _ H1) as Hn. rewrite H2 in Hn. discriminate.
  - nia.
  - nia.
  - assumption.
  - intros x. rewrite filter_In, !in_live_bytes. split.
    + intros (b' & [s1 n1] & Hb' & Hsp' & ->).
      assert (H1 : In (b_id b', (s1, n1)) (all_live (blocks (fst (shrink c st id off ns))))).
      { apply in_all_live. exists b'. splits; [assumption|reflexivity|assumption]. }
      apply AF in H1. destruct H1 as [H1|[H1 Hne]].
      * left. assert (Hi : b_id b' = id /\ s1 = s /\ n1 = m) by (splits; congruence). destruct Hi as (H0 & -> & ->).
        assert (H0' : b_id b' = b_id b) by lia. pose proof (PA b b' Hbin Hb' H0') as Hp. unfold span_bytes. cbn [fst snd].
        rewrite Hp, H0. fold g. rewrite <- Hoff. reflexivity.
      * right. apply in_all_live in H1. destruct H1 as (b0 & Hb0 & Hid0 & Hsp0).
        pose proof (PA b0 b' Hb0 Hb' (eq_sym Hid0)) as Hp.
        assert (Ex : span_bytes c b' (s1, n1) = span_bytes c b0 (s1, n1)) by (unfold span_bytes; rewrite Hp, Hid0; reflexivity).
        assert (Hx : In (span_bytes c b0 (s1, n1)) (live_bytes c (blocks st))).
        { apply in_live_bytes. exists b0, (s1, n1). splits; [assumption|assumption|reflexivity]. }
        split; [exists b0, (s1, n1); splits; assumption|].
        apply negb_true_iff. destruct (at_start id off (span_bytes c b' (s1, n1))) eqn:At; [exfalso|reflexivity].
        rewrite Ex in At. pose proof (Hstart _ Hx At) as E. unfold span_bytes in E. cbn [fst snd] in E.
        assert (E0 : b0 = b) by (apply Hsame; [assumption|congruence]). subst b0. fold g in E.
        assert (s1 = s /\ n1 = n) by (split; inversion E; nia). destruct H; subst s1 n1.
        apply Hne. rewrite <- Hid0, Hbid. reflexivity.
    + intros [->|[(b0 & [s1 n1] & Hb0 & Hsp0 & ->) Hnot]].
      * assert (H1 : In (id, (s, m)) (all_live (blocks (fst (shrink c st id off ns))))) by (apply AF; left; reflexivity).
        apply in_all_live in H1. destruct H1 as (b' & Hb' & Hid' & Hsp').
        assert (Hid2 : b_id b' = b_id b) by lia.
        pose proof (PA b b' Hbin Hb' Hid2) as Hp.
        exists b', (s, m). splits; [assumption|assumption|]. unfold span_bytes. cbn [fst snd]. rewrite Hp, Hid'. fold g. rewrite <- Hoff. reflexivity.
      * apply negb_true_iff in Hnot.
        assert (H1 : In (b_id b0, (s1, n1)) (all_live (blocks (fst (shrink c st id off ns))))).
        { apply AF. right. split; [apply in_all_live; exists b0; splits; [assumption|reflexivity|assumption]|].
          intros E. assert (E0 : b0 = b) by (apply Hsame; [assumption|congruence]). subst b0.
          assert (E1 : s1 = s /\ n1 = n) by (split; congruence). destruct E1; subst s1 n1.
          destruct Hthere as [_ H2]. rewrite H2 in Hnot. discriminate. }
        apply in_all_live in H1. destruct H1 as (b' & Hb' & Hid' & Hsp').
        pose proof (PA b0 b' Hb0 Hb' Hid') as Hp.
        exists b', (s1, n1). splits; [assumption|assumption|]. unfold span_bytes. rewrite Hp, Hid'. reflexivity.
Qed.

(* ------------------------------------------------------------------ every block has the configured padding *)
Definition cpad (c : config) : Z := if c_pad c then 1 else 0.

Lemma new_block_id_pad v id p bytes area pad n :
  b_id (new_block_alloc v id p bytes area pad n) = id /\ b_pad (new_block_alloc v id p bytes area pad n) = pad.
Proof.
  unfold new_block_alloc, mark_allocated, clear_block. cbn.
  repeat match goal with |- context [if ?x then _ else _] => destruct x end; cbn; split; reflexivity.
Qed.

Lemma alloc_new_block c st size : nextid (fst (alloc c st size)) <> nextid st ->
  exists nb, In nb (blocks (fst (alloc c st size))) /\ b_id nb = nextid st /\ b_pad nb = cpad c.
Proof.
  unfold alloc. destruct (_ =? 0); [cbn; intros H; contradiction H; reflexivity|].
  destruct (_ <=? _); [cbn; intros H; contradiction H; reflexivity|].
  destruct (try_blocks _ _ _ _) as [bl' [[[i s] w]|]]; cbn [fst nextid blocks].
  - intros H. contradiction H. reflexivity.
  - intros _. eexists. split; [apply in_or_app; right; left; reflexivity|]. apply new_block_id_pad.
Qed.

Lemma release_nextid c st id off : nextid (fst (release c st id off)) = nextid st.
Proof.
  unfold release. destruct (find_block id (blocks st)); [|reflexivity]. cbn zeta.
  destruct (b_empty _); [destruct (_ || _)|]; reflexivity.
Qed.

Lemma shrink_nextid c st id off ns : nextid (fst (shrink c st id off ns)) = nextid st.
Proof.
  unfold shrink. destruct (ns =? 0).
  - pose proof (release_nextid c st id off) as H. destruct (release c st id off) as [st' r]. destruct r; cbn in *; assumption.
  - destruct (find_block id (blocks st)); [|reflexivity]. cbn zeta.
    destruct (negb _); [reflexivity|]. destruct (_ <? _); [reflexivity|]. destruct (_ =? 0); reflexivity.
Qed.

Lemma reset_nextid c st hard : nextid (reset c st hard) = nextid st.
Proof. unfold reset. destruct (reset_pools _ _ _ _). reflexivity. Qed.

Lemma step_pad c st o : cfg_ok c -> reach c st -> valid_op c st o ->
  (forall b, In b (blocks st) -> b_pad b = cpad c) ->
  forall b', In b' (blocks (fst (step c st o))) -> b_pad b' = cpad c.
Proof.
  intros Hc R V IH b' Hb'.
  destruct (step_blocks c st o Hc R V b' Hb') as [(b & Hb & _ & _ & _ & _ & Gp)|[Hnew Hnid]].
  - rewrite Gp. apply IH. assumption.
  - pose proof (reach_step c st o R V) as R'. pose proof (reach_ginv c _ Hc R') as G'.
    destruct o as [size|id off|id off ns|id off|hard]; cbn [step fst] in *.
    + destruct (alloc_new_block c st size Hnid) as (nb & Hnb & Hnbid & Hnbpad).
      assert (b' = nb) by (apply (nodup_ids_inj (blocks (fst (alloc c st size)))); [apply (g_ids c _ G')|assumption|assumption|lia]).
      subst b'. assumption.
    + contradiction Hnid. apply release_nextid.
    + contradiction Hnid. apply shrink_nextid.
    + contradiction Hnid. reflexivity.
    + contradiction Hnid. apply reset_nextid.
Qed.

Theorem reach_pad c st : cfg_ok c -> reach c st -> forall b, In b (blocks st) -> b_pad b = cpad c.
Proof.
  intros Hc R. induction R as [|st o R IH V].
  - cbn. intros b [].
  - apply step_pad; assumption.
Qed.

(* ------------------------------------------------------------------ the judge accepts the model's whole trace *)
Lemma start_unique c st id off b s n :
  cfg_ok_bytes c -> reach c st -> find_block id (blocks st) = Some b ->
  off = s * pool_gran c (b_pool b) -> In (s, n) (b_live b) ->
  let y0 := (id, (off, n * pool_gran c (b_pool b))) in
  (forall y, In y (live_bytes c (blocks st)) -> at_start id off y = true -> y = y0) /\
  In y0 (live_bytes c (blocks st)) /\ at_start id off y0 = true.
Proof.
  intros HB R Ef Hoff Hin y0. pose proof (cb_ok c HB) as Hc. pose proof (reach_ginv c st Hc R) as G.
  destruct (find_block_in _ _ _ Ef) as [Hbin Hbid].
  pose proof (span_bytes_inside c st HB R b s n Hbin Hin) as (Hg & _). cbn zeta in Hg.
  set (g := pool_gran c (b_pool b)) in *.
  assert (Ey0 : y0 = span_bytes c b (s, n)) by (unfold y0, span_bytes; cbn [fst snd]; fold g; rewrite Hbid, Hoff; reflexivity).
  assert (Hsame : forall b0, In b0 (blocks st) -> b_id b0 = id -> b0 = b).
  { intros b0 H0 E0. apply (nodup_ids_inj (blocks st)); [apply (g_ids c st G)|assumption|assumption|lia]. }
  splits.
  - intros y Hy At. apply in_live_bytes in Hy. destruct Hy as (b0 & [s1 n1] & Hb0 & Hsp0 & ->).
    unfold at_start, span_bytes, t_blk, t_off in At. cbn [fst snd] in At.
    apply andb_true_iff in At. destruct At as [A1 A2]. apply Z.eqb_eq in A1. apply Z.eqb_eq in A2.
    pose proof (Hsame b0 Hb0 A1) as E0. subst b0. fold g in A2. assert (s1 = s) by nia. subst s1.
    pose proof (same_start_same_span c st b s n n1 Hc R Hbin Hin Hsp0) as En. subst n1. symmetry. assumption.
  - rewrite Ey0. apply in_live_bytes. exists b, (s, n). splits; [assumption|assumption|reflexivity].
  - unfold y0, at_start, t_blk, t_off. cbn [fst snd]. rewrite !Z.eqb_refl. reflexivity.
Qed.

Theorem model_alloc_bytes_frame c st size st' id off len :
  cfg_ok_bytes c -> reach c st -> 1 <= size -> size + c_gran c <= two64 ->
  alloc c st size = (st', RAlloc Ok id off len) ->
  forall x, In x (live_bytes c (blocks st')) <-> x = (id, (off, len)) \/ In x (live_bytes c (blocks st)).
Proof.
  intros HB R Hs0 Hs1 HA. pose proof (cb_ok c HB) as Hc.
  assert (Hs0' : 0 <= size) by lia.
  pose proof (alloc_result c st size st' id off len Hc R Hs0' Hs1 HA) as (_ & _ & b & Hb & Hid & Hpool & Hoff & Hlen2 & Hlive & _).
  pose proof (alloc_frame c st size st' id off len Hc R Hs0' Hs1 HA) as AF.
  cbn zeta in AF. rewrite <- Hpool in AF.
  assert (Est : st' = fst (step c st (OAlloc size))) by (cbn [step]; rewrite HA; reflexivity).
  assert (R' : reach c st'). { rewrite Est. apply reach_step; [assumption|exact I]. }
  pose proof (reach_ginv c st' Hc R') as G'.
  pose proof (span_bytes_inside c st' HB R' b _ _ Hb Hlive) as (Hg & _). cbn zeta in *.
  set (g := pool_gran c (b_pool b)) in *.
  assert (Eo : off / g * g = off). { pose proof (Z.div_mod off g ltac:(lia)) as D. rewrite Hoff in D. lia. }
  assert (El : len / g * g = len). { pose proof (Z.div_mod len g ltac:(lia)) as D. rewrite Hlen2 in D. lia. }
  assert (Enew : span_bytes c b (off / g, len / g) = (id, (off, len))).
  { unfold span_bytes. cbn [fst snd]. fold g. rewrite Eo, El, Hid. reflexivity. }
  pose proof (step_pool_agree c st (OAlloc size) Hc R I) as PA. cbn [step] in PA. rewrite HA in PA. cbn [fst] in PA.
  assert (Hsame' : forall b0, In b0 (blocks st') -> b_id b0 = id -> b0 = b).
  { intros b0 H0 E0. apply (nodup_ids_inj (blocks st')); [apply (g_ids c st' G')|assumption|assumption|lia]. }
  intros x. rewrite !in_live_bytes. split.
  - intros (b' & [s1 n1] & Hb' & Hsp' & ->).
    assert (H1 : In (b_id b', (s1, n1)) (all_live (blocks st'))).
    { apply in_all_live. exists b'. splits; [assumption|reflexivity|assumption]. }
    apply AF in H1. destruct H1 as [H1|H1].
    + left. assert (Hi : b_id b' = id /\ s1 = off / g /\ n1 = len / g) by (splits; congruence). destruct Hi as (H0 & -> & ->).
      rewrite (Hsame' b' Hb' H0). assumption.
    + right. apply in_all_live in H1. destruct H1 as (b0 & Hb0 & Hid0 & Hsp0).
      pose proof (PA b0 b' Hb0 Hb' (eq_sym Hid0)) as Hp.
      exists b0, (s1, n1). splits; [assumption|assumption|]. unfold span_bytes. rewrite Hp, Hid0. reflexivity.
  - intros [->|(b0 & [s1 n1] & Hb0 & Hsp0 & ->)].
    + exists b, (off / g, len / g). splits; [assumption|assumption|symmetry; assumption].
    + assert (H1 : In (b_id b0, (s1, n1)) (all_live (blocks st'))).
      { apply AF. right. apply in_all_live. exists b0. splits; [assumption|reflexivity|assumption]. }
      apply in_all_live in H1. destruct H1 as (b' & Hb' & Hid' & Hsp').
      pose proof (PA b0 b' Hb0 Hb' Hid') as Hp.
      exists b', (s1, n1). splits; [assumption|assumption|]. unfold span_bytes. rewrite Hp, Hid'. reflexivity.
Qed.

Definition sim (c : config) (st : state) (live : list tspan) : Prop :=
  forall x, In x live <-> In x (live_bytes c (blocks st)).

Lemma alloc_ok_sim g0 pools pad live live2 size blk off len bytes pool :
  (forall x, In x live -> In x live2) ->
  alloc_ok g0 pools pad live2 size blk off len bytes pool = true ->
  alloc_ok g0 pools pad live size blk off len bytes pool = true.
Proof.
  intros Hi H. unfold alloc_ok in *. apply andb_true_iff in H. destruct H as [H1 H2].
  apply andb_true_iff. split; [assumption|]. rewrite forallb_forall in *. intros x Hx. apply H2. apply Hi. assumption.
Qed.

(* operations whose pointers are exactly what alloc returned (what the correspondence harness issues) *)
Definition exact_ptr (c : config) (st : state) (id off : Z) : Prop :=
  exists b s n, find_block id (blocks st) = Some b /\ off = s * pool_gran c (b_pool b) /\ In (s, n) (b_live b).
Definition exact_op (c : config) (st : state) (o : op) : Prop :=
  match o with
  | OAlloc size => 1 <= size /\ size + c_gran c <= two64
  | ORelease id off => exact_ptr c st id off
  | OShrink id off ns => 1 <= ns /\ exact_ptr c st id off
  | OQuery _ _ => True
  | OReset _ => True
  end.

(* the event the model's own answer produces for the judge *)
Definition ev_of (c : config) (st : state) (o : op) : option tev :=
  match o with
  | OAlloc size =>
      match alloc c st size with
      | (st', RAlloc Ok id off len) =>
          match find_block id (blocks st') with
          | Some b => Some (EAlloc size id off len (b_bytes b) (b_pool b))
          | None => None
          end
      | _ => None
      end
  | ORelease id off => match snd (release c st id off) with RRelease Ok _ _ => Some (ERelease id off) | _ => None end
  | OShrink id off ns => match snd (shrink c st id off ns) with RShrink Ok _ len => Some (EShrink id off len) | _ => None end
  | OQuery _ _ => None
  | OReset _ => Some EReset
  end.

Definition spec_step_opt (g0 pools pad : Z) (live : list tspan) (e : option tev) : option (list tspan) :=
  match e with Some e => spec_step g0 pools pad live e | None => Some live end.

Lemma exact_ptr_valid c st id off : cfg_ok_bytes c -> reach c st -> exact_ptr c st id off -> valid_ptr c st id off.
Proof.
  intros HB R (b & s & n & Ef & Hoff & Hin) b0 E0. rewrite Ef in E0. inversion E0; subst b0.
  destruct (find_block_in _ _ _ Ef) as [Hbin _].
  pose proof (span_bytes_inside c st HB R b s n Hbin Hin) as (Hg & _). cbn zeta in Hg.
  exists n. rewrite Hoff, Z.div_mul by lia. assumption.
Qed.

Lemma exact_valid c st o : cfg_ok_bytes c -> reach c st -> exact_op c st o -> valid_op c st o.
Proof.
  intros HB R X. destruct o as [size|id off|id off ns|id off|hard]; cbn in *; try exact I.
  - apply exact_ptr_valid; assumption.
  - destruct X as [Hns X]. split; [apply exact_ptr_valid; assumption|lia].
Qed.

Lemma find_start_sim c st live id off y0 : sim c st live ->
  (forall y, In y (live_bytes c (blocks st)) -> at_start id off y = true -> y = y0) ->
  In y0 (live_bytes c (blocks st)) -> at_start id off y0 = true ->
  find (at_start id off) live = Some y0.
Proof.
  intros S U1 U2 U3. destruct (find (at_start id off) live) as [y|] eqn:F.
  - apply find_some in F. destruct F as [Hy At]. f_equal. apply U1; [apply S; assumption|assumption].
  - exfalso. pose proof (find_none _ _ F y0 (proj2 (S y0) U2)) as Hn. rewrite U3 in Hn. discriminate.
Qed.

Lemma step_sim c st o live : cfg_ok_bytes c -> reach c st -> exact_op c st o -> sim c st live ->
  exists live', spec_step_opt (c_gran c) (c_pools c) (cpad c) live (ev_of c st o) = Some live' /\
                sim c (fst (step c st o)) live'.
Proof.
  intros HB R X S. pose proof (cb_ok c HB) as Hc.
  pose proof (exact_valid c st o HB R X) as V.
  pose proof (reach_step c st o R V) as R'.
  destruct o as [size|id off|id off ns|id off|hard]; cbn [step exact_op] in *.
  - (* alloc *)
    destruct X as [Hs0 Hs1].
    pose proof (alloc_classification c st size) as (C0 & C1 & C2). cbn zeta in *.
    assert (Hm : 0 <= rounded c size < two64) by (unfold rounded; apply Z.mod_pos_bound; reflexivity).
    destruct (Z.eq_dec (rounded c size) 0) as [E0|E0].
    { unfold ev_of. rewrite (C0 E0). cbn [spec_step_opt fst]. exists live. split; [reflexivity|assumption]. }
    destruct (Z_le_gt_dec 2147483647 (rounded c size - 1)) as [E1|E1].
    { unfold ev_of. rewrite (C1 E1 E0). cbn [spec_step_opt fst]. exists live. split; [reflexivity|assumption]. }
    assert (Hr : 1 <= rounded c size <= 2147483647) by lia.
    destruct (C2 Hr) as (st' & id & off & HA). rewrite HA in R'. cbn [fst] in R'.
    destruct (model_alloc_accepted c st size st' id off _ HB R Hs0 Hs1 HA) as (b & Hb & Hid & Hok).
    pose proof (reach_ginv c st' Hc R') as G'.
    pose proof (find_block_of_in (blocks st') b (g_ids c st' G') Hb) as Hfind. rewrite Hid in Hfind.
    rewrite (reach_pad c st' Hc R' b Hb) in Hok.
    pose proof (alloc_ok_sim _ _ _ live _ _ _ _ _ _ _ (fun x => proj1 (S x)) Hok) as Hok'.
    unfold ev_of. rewrite HA, Hfind. cbn [spec_step_opt spec_step fst]. rewrite Hok'.
    eexists. split; [reflexivity|].
    intros x. pose proof (model_alloc_bytes_frame c st size st' id off _ HB R Hs0 Hs1 HA x) as F. cbn [In]. split.
    + intros [E|H]; apply F; [left; symmetry; assumption|right; apply S; assumption].
    + intros H. apply F in H. destruct H as [E|H]; [left; symmetry; assumption|right; apply S; assumption].
  - (* release *)
    destruct X as (b & s & n & Ef & Hoff & Hin).
    destruct (find_block_in _ _ _ Ef) as [Hbin Hbid].
    pose proof (span_bytes_inside c st HB R b s n Hbin Hin) as (Hg & _). cbn zeta in Hg.
    assert (Hs : s = off / pool_gran c (b_pool b)) by (rewrite Hoff; symmetry; apply Z.div_mul; lia).
    pose proof (release_frame c st id off b s n Hc R Ef Hs Hin) as (Hans & _).
    pose proof (model_release_accepted c st id off b s n HB R Ef Hoff Hin) as (Hex & Hfil).
    assert (Hex' : existsb (at_start id off) live = true).
    { apply existsb_exists in Hex. destruct Hex as (y & Hy & At). apply existsb_exists. exists y. split; [apply S; assumption|assumption]. }
    unfold ev_of. rewrite Hans. cbn [spec_step_opt spec_step]. rewrite Hex'.
    eexists. split; [reflexivity|]. intros x. split.
    + intros H. apply Hfil. apply filter_In in H. destruct H as [H1 H2]. apply filter_In. split; [apply S; assumption|assumption].
    + intros H. apply Hfil in H. apply filter_In in H. destruct H as [H1 H2]. apply filter_In. split; [apply S; assumption|assumption].
  - (* shrink *)
    destruct X as (Hns & b & s & n & Ef & Hoff & Hin).
    destruct (find_block_in _ _ _ Ef) as [Hbin Hbid].
    pose proof (span_bytes_inside c st HB R b s n Hbin Hin) as (Hg & _ & _ & Hn1). cbn zeta in Hg, Hn1.
    assert (Hs : s = off / pool_gran c (b_pool b)) by (rewrite Hoff; symmetry; apply Z.div_mul; lia).
    pose proof (shrink_frame c st id off ns b s n Hc R Ef Hs Hin Hns) as (S1 & S2 & _).
    pose proof (start_unique c st id off b s n HB R Ef Hoff Hin) as (U1 & U2 & U3). cbn zeta in *.
    set (g := pool_gran c (b_pool b)) in *. set (m := (ns + g - 1) / g) in *.
    pose proof (find_start_sim c st live id off _ S U1 U2 U3) as Hfind.
    pose proof (ceil_ge1 ns g Hg Hns) as Hm. fold m in Hm.
    destruct (Z_lt_ge_dec n m) as [L1|L1].
    { unfold ev_of. rewrite (S1 L1). cbn [spec_step_opt fst snd]. exists live. split; [reflexivity|assumption]. }
    destruct (Z.eq_dec m n) as [L2|L2].
    { unfold ev_of. rewrite (S2 L2). cbn [spec_step_opt spec_step fst snd]. rewrite Hfind.
      replace ((1 <=? n * g) && (n * g <=? t_len (id, (off, n * g)))) with true
        by (symmetry; apply andb_true_intro; unfold t_len; cbn [snd]; split; apply Z.leb_le; nia).
      eexists. split; [reflexivity|]. intros x. cbn [In]. split.
      - intros [E|H]; [rewrite <- E; assumption|]. apply filter_In in H. apply S. apply H.
      - intros H. destruct (at_start id off x) eqn:At.
        + left. symmetry. apply U1; assumption.
        + right. apply filter_In. split; [apply S; assumption|rewrite At; reflexivity]. }
    assert (L3 : m < n) by lia.
    pose proof (model_shrink_accepted c st id off ns b s n HB R Ef Hoff Hin Hns) as MS. cbn zeta in MS. fold g in MS. fold m in MS.
    destruct (MS L3) as (_ & Hb1 & Hans & Hfil).
    unfold ev_of. rewrite Hans. cbn [spec_step_opt spec_step]. rewrite Hfind.
    replace ((1 <=? m * g) && (m * g <=? t_len (id, (off, n * g)))) with true
      by (symmetry; apply andb_true_intro; unfold t_len; cbn [snd]; split; apply Z.leb_le; lia).
    eexists. split; [reflexivity|]. intros x. cbn [In]. split.
    + intros [E|H]; apply Hfil; [left; symmetry; assumption|right].
      apply filter_In in H. destruct H as [H1 H2]. apply filter_In. split; [apply S; assumption|assumption].
    + intros H. apply Hfil in H. destruct H as [E|H]; [left; symmetry; assumption|right].
      apply filter_In in H. destruct H as [H1 H2]. apply filter_In. split; [apply S; assumption|assumption].
  - (* query *) cbn [ev_of spec_step_opt fst]. exists live. split; [reflexivity|assumption].
  - (* reset *) cbn [ev_of spec_step_opt spec_step fst]. exists []. split; [reflexivity|].
    intros x. split; [intros []|]. intros Hx. apply in_live_bytes in Hx. destruct Hx as (b & sp & Hb & Hsp & _).
    pose proof (reset_clears c st hard Hc R) as (_ & Hall & _). destruct (Hall b Hb) as [E _]. rewrite E in Hsp. destruct Hsp.
Qed.

Fixpoint trace (c : config) (st : state) (ops : list op) : list tev :=
  match ops with
  | [] => []
  | o :: r => (match ev_of c st o with Some e => [e] | None => [] end) ++ trace c (fst (step c st o)) r
  end.

Fixpoint exact_run (c : config) (st : state) (ops : list op) : Prop :=
  match ops with
  | [] => True
  | o :: r => exact_op c st o /\ exact_run c (fst (step c st o)) r
  end.

Theorem model_trace_accepted c : cfg_ok_bytes c -> forall ops st live i, reach c st -> exact_run c st ops -> sim c st live ->
  exists live', spec_run (c_gran c) (c_pools c) (cpad c) live (trace c st ops) i = Datatypes.inr live' /\
                sim c (run c st ops) live'.
Proof.
  intros HB. induction ops as [|o r IH]; intros st live i R E S.
  - exists live. split; [reflexivity|assumption].
  - destruct E as (X & E'). destruct (step_sim c st o live HB R X S) as (live1 & H1 & S1).
    pose proof (reach_step c st o R (exact_valid c st o HB R X)) as R'. cbn [trace run].
    destruct (ev_of c st o) as [e|]; cbn [spec_step_opt] in H1; cbn [app spec_run].
    + rewrite H1. apply IH; assumption.
    + inversion H1; subst. apply IH; assumption.
Qed.

Corollary model_history_accepted c ops : cfg_ok_bytes c -> exact_run c (init_state c) ops ->
  exists live', spec_run (c_gran c) (c_pools c) (cpad c) [] (trace c (init_state c) ops) 0 = Datatypes.inr live' /\
                sim c (run c (init_state c) ops) live'.
Proof.
  intros HB E. apply model_trace_accepted; [assumption|apply reach_init|assumption|].
  intros x. cbn. reflexivity.
Qed.

(* C09 — block-level invariants of the JitAllocator model (repaired variant `fixed`):
   structure (bit vectors = live spans, counters) and search cache (window soundness, incremental mode,
   largest-unused-area bound, full/empty flags) are preserved by every block operation. *)
From Coq Require Import ZArith List Bool Lia.
From Verif Require Import Jit.JitModel Jit.JitBits.
Import ListNotations.
Local Open Scope Z_scope.

Definition in_span (sp : Z * Z) (i : Z) : Prop := fst sp <= i < fst sp + snd sp.
Definition covered (l : list (Z * Z)) (i : Z) : Prop := exists sp, In sp l /\ in_span sp i.
Fixpoint sum_len (l : list (Z * Z)) : Z := match l with [] => 0 | sp :: r => snd sp + sum_len r end.

Record bstruct (b : block) : Prop := {
  bs_pad : b_pad b = 0 \/ b_pad b = 1;
  bs_area : b_pad b < b_area b;
  bs_used : forall i, Z.testbit (b_used b) i = true <-> ((i = 0 /\ b_pad b = 1) \/ covered (b_live b) i);
  bs_stop : forall i, Z.testbit (b_stop b) i = true <->
                      ((i = 0 /\ b_pad b = 1) \/ exists sp, In sp (b_live b) /\ i = fst sp + snd sp - 1);
  bs_spans : forall sp, In sp (b_live b) -> 1 <= snd sp /\ b_pad b <= fst sp /\ fst sp + snd sp <= b_area b;
  bs_disj : forall sp1 sp2 i, In sp1 (b_live b) -> In sp2 (b_live b) -> in_span sp1 i -> in_span sp2 i -> sp1 = sp2;
  bs_nodup : NoDup (b_live b);
  bs_sum : b_aused b = b_pad b + sum_len (b_live b);
  bs_count : b_aused b = count (b_used b) 0 (b_area b) }.

Record bcache (b : block) : Prop := {
  bc_range : 0 <= b_ss b <= b_area b /\ 0 <= b_se b <= b_area b;
  bc_window : b_aused b < b_area b ->
              forall i, 0 <= i < b_area b -> Z.testbit (b_used b) i = false -> b_ss b <= i < b_se b;
  bc_full : b_aused b = b_area b ->
            b_ss b = b_area b /\ b_se b = 0 /\ b_largest b = 0 /\ b_incr b = false /\ b_dirty b = false;
  bc_incr : b_incr b = true ->
            b_aused b = b_ss b /\ b_se b = b_area b /\ b_largest b = b_area b - b_ss b /\
            (forall i, 0 <= i < b_ss b -> Z.testbit (b_used b) i = true) /\
            (forall i, b_ss b <= i -> Z.testbit (b_used b) i = false);
  bc_largest : b_dirty b = false ->
               forall s m, 0 <= s -> s + m <= b_area b -> allfree (b_used b) s m -> m <= b_largest b;
  bc_lnn : 0 <= b_largest b;
  bc_empty : b_empty b = true <-> b_aused b = b_pad b }.

Definition binv (b : block) : Prop := bstruct b /\ bcache b.

(* ------------------------------------------------------------------ consequences of the structure *)
Lemma sum_len_nonneg l : (forall sp, In sp l -> 1 <= snd sp) -> 0 <= sum_len l.
Proof.
  induction l as [|sp r IH]; cbn; intros H; [lia|].
  pose proof (H sp (or_introl eq_refl)). specialize (IH (fun x Hx => H x (or_intror Hx))). lia.
Qed.

Lemma bs_aused_ge b : bstruct b -> b_pad b <= b_aused b.
Proof.
  intros S. rewrite (bs_sum b S). pose proof (sum_len_nonneg (b_live b) (fun sp H => proj1 (bs_spans b S sp H))). lia.
Qed.

Lemma bs_used_range b i : bstruct b -> Z.testbit (b_used b) i = true -> 0 <= i < b_area b.
Proof.
  intros S H. apply (bs_used b S) in H. destruct H as [[-> Hp]|[sp [Hin Hsp]]].
  - pose proof (bs_area b S). lia.
  - destruct (bs_spans b S sp Hin) as (A & B & C). unfold in_span in Hsp. destruct (bs_pad b S); lia.
Qed.

Lemma bs_free_outside b i : bstruct b -> ~ (0 <= i < b_area b) -> Z.testbit (b_used b) i = false.
Proof.
  intros S H. destruct (Z.testbit (b_used b) i) eqn:E; [|reflexivity].
  apply bs_used_range in E; [contradiction|assumption].
Qed.

Lemma bs_full_all_used b : bstruct b -> b_aused b = b_area b -> forall i, 0 <= i < b_area b -> Z.testbit (b_used b) i = true.
Proof.
  intros S H i Hi. pose proof (bs_area b S). pose proof (bs_pad b S).
  apply (count_full (b_used b) 0 (b_area b)); try lia. rewrite <- (bs_count b S). lia.
Qed.

Lemma bs_pad_used b : bstruct b -> b_pad b = 1 -> Z.testbit (b_used b) 0 = true.
Proof. intros S H. apply (bs_used b S). left. split; [reflexivity|assumption]. Qed.

Lemma bs_span_used b sp i : bstruct b -> In sp (b_live b) -> in_span sp i -> Z.testbit (b_used b) i = true.
Proof. intros S H1 H2. apply (bs_used b S). right. exists sp. split; assumption. Qed.

Lemma bstruct_ext b b' :
  b_pad b' = b_pad b -> b_area b' = b_area b -> b_used b' = b_used b -> b_stop b' = b_stop b ->
  b_aused b' = b_aused b -> b_live b' = b_live b -> bstruct b -> bstruct b'.
Proof.
  intros E1 E2 E3 E4 E5 E6 S. destruct S.
  constructor; rewrite ?E1, ?E2, ?E3, ?E4, ?E5, ?E6; assumption.
Qed.

(* ------------------------------------------------------------------ clear_block *)
Lemma binv_clear id pool bytes area pad :
  (pad = 0 \/ pad = 1) -> pad < area -> binv (clear_block id pool bytes area pad).
Proof.
  intros Hp Ha. unfold clear_block. split; constructor; cbn [b_id b_pool b_bytes b_area b_pad b_used b_stop b_aused b_largest b_ss b_se b_empty b_dirty b_incr b_live].
  - assumption.
  - assumption.
  - intros i. destruct Hp as [-> | ->].
    + rewrite Z.testbit_0_l. split; [discriminate|]. intros [[_ H]|[sp [[] _]]]. discriminate.
    + rewrite tb_one. split.
      * intros H. apply Z.eqb_eq in H. left. split; [assumption|reflexivity].
      * intros [[-> _]|[sp [[] _]]]. reflexivity.
  - intros i. destruct Hp as [-> | ->].
    + rewrite Z.testbit_0_l. split; [discriminate|]. intros [[_ H]|[sp [[] _]]]. discriminate.
    + rewrite tb_one. split.
      * intros H. apply Z.eqb_eq in H. left. split; [assumption|reflexivity].
      * intros [[-> _]|[sp [[] _]]]. reflexivity.
  - intros sp [].
  - intros sp1 sp2 i [].
  - constructor.
  - cbn. lia.
  - destruct Hp as [-> | ->].
    + rewrite count_all_clear; [reflexivity|]. intros; apply Z.testbit_0_l.
    + rewrite (count_split 1 0 1 area) by lia.
      rewrite (count_all_clear 1 1 area) by (intros; rewrite tb_one; apply Z.eqb_neq; lia).
      reflexivity.
  - lia.
  - intros _ i Hi Hf. destruct Hp as [-> | ->]; [lia|].
    rewrite tb_one in Hf. apply Z.eqb_neq in Hf. lia.
  - intros H. lia.
  - intros _. repeat split; try lia.
    + intros i Hi. destruct Hp as [-> | ->]; [lia|]. rewrite tb_one. apply Z.eqb_eq. lia.
    + intros i Hi. destruct Hp as [-> | ->]; [apply Z.testbit_0_l|]. rewrite tb_one. apply Z.eqb_neq. lia.
  - intros _ s m Hs Hsm Hfree. destruct Hp as [-> | ->]; [lia|].
    destruct (Z.le_gt_cases m 0); [lia|].
    destruct (Z.eq_dec s 0) as [->|]; [|lia].
    specialize (Hfree 0 ltac:(lia)). rewrite tb_one in Hfree. discriminate.
  - lia.
  - split; intros; [reflexivity|reflexivity].
Qed.

(* ------------------------------------------------------------------ structure: allocate *)
Lemma bstruct_alloc b b' s n :
  bstruct b -> 1 <= n -> b_pad b <= s -> s + n <= b_area b -> allfree (b_used b) s n ->
  b_pad b' = b_pad b -> b_area b' = b_area b -> b_used b' = set_range (b_used b) s n ->
  b_stop b' = Z.setbit (b_stop b) (s + n - 1) -> b_aused b' = b_aused b + n -> b_live b' = (s, n) :: b_live b ->
  bstruct b'.
Proof.
  intros S Hn Hps Hsn Hfree E1 E2 E3 E4 E5 E6.
  pose proof (bs_pad b S) as Hpad.
  assert (Hnew : forall sp i, In sp (b_live b) -> in_span sp i -> ~ (s <= i < s + n)).
  { intros sp i Hin Hsp Hr.
    pose proof (bs_span_used b sp i S Hin Hsp) as U. rewrite (Hfree i Hr) in U. discriminate. }
  constructor; rewrite ?E1, ?E2, ?E3, ?E4, ?E5, ?E6.
  - assumption.
  - apply (bs_area b S).
  - intros i. rewrite tb_set_range by lia. rewrite orb_true_iff, inr_true, (bs_used b S). split.
    + intros [[H|[sp [H1 H2]]]|H].
      * left; assumption.
      * right. exists sp. split; [right; assumption|assumption].
      * right. exists (s, n). split; [left; reflexivity|exact H].
    + intros [H|[sp [[<-|H1] H2]]].
      * left; left; assumption.
      * right. exact H2.
      * left. right. exists sp. split; assumption.
  - intros i. rewrite Z.setbit_iff by lia. rewrite (bs_stop b S). split.
    + intros [<-|[H|[sp [H1 H2]]]].
      * right. exists (s, n). split; [left; reflexivity|reflexivity].
      * left; assumption.
      * right. exists sp. split; [right; assumption|assumption].
    + intros [H|[sp [[<-|H1] H2]]].
      * right; left; assumption.
      * left. cbn in H2. lia.
      * right. right. exists sp. split; assumption.
  - intros sp [<-|H]; [cbn; lia | apply (bs_spans b S sp H)].
  - intros sp1 sp2 i [<-|H1] [<-|H2] I1 I2.
    + reflexivity.
    + exfalso. apply (Hnew sp2 i H2 I2). exact I1.
    + exfalso. apply (Hnew sp1 i H1 I1). exact I2.
    + apply (bs_disj b S sp1 sp2 i); assumption.
  - constructor; [|apply (bs_nodup b S)].
    intros Hin. apply (Hnew (s, n) s Hin); unfold in_span; cbn; lia.
  - cbn [sum_len snd]. rewrite (bs_sum b S). lia.
  - rewrite count_set_range; try lia; try assumption. rewrite <- (bs_count b S). reflexivity.
Qed.

(* ------------------------------------------------------------------ structure: release / shrink *)
Lemma in_rm_span s l sp : In sp (rm_span s l) <-> In sp l /\ fst sp <> s.
Proof.
  unfold rm_span. rewrite filter_In. split; intros [A B]; split; try assumption.
  - apply negb_true_iff in B. apply Z.eqb_neq in B. assumption.
  - apply negb_true_iff. apply Z.eqb_neq. assumption.
Qed.

Lemma NoDup_filter {A} (f : A -> bool) l : NoDup l -> NoDup (filter f l).
Proof.
  induction 1 as [|x l Hx Hnd IH]; cbn; [constructor|].
  destruct (f x); [constructor; [|assumption]|assumption].
  intros H. apply filter_In in H. apply Hx. apply H.
Qed.

Lemma sum_len_rm s n l :
  NoDup l -> In (s, n) l -> (forall sp, In sp l -> fst sp = s -> sp = (s, n)) ->
  sum_len (rm_span s l) = sum_len l - n.
Proof.
  induction l as [|sp r IH]; intros Hnd Hin Huniq; [destruct Hin|].
  inversion Hnd as [|? ? Hx Hnd']; subst.
  cbn [rm_span filter sum_len].
  destruct (Z.eqb_spec (fst sp) s) as [E|E]; cbn [negb].
  - assert (sp = (s, n)) as -> by (apply Huniq; [left; reflexivity|assumption]).
    assert (Hnone : forall x, In x r -> fst x <> s).
    { intros x Hx' Ex. assert (x = (s, n)) as -> by (apply Huniq; [right; assumption|assumption]). contradiction. }
    assert (filter (fun sp => negb (fst sp =? s)) r = r) as ->.
    { clear -Hnone. induction r as [|y r IH]; [reflexivity|]. cbn.
      destruct (Z.eqb_spec (fst y) s) as [E|E]; cbn.
      - exfalso. apply (Hnone y (or_introl eq_refl) E).
      - f_equal. apply IH. intros x Hx2. apply Hnone. right; assumption. }
    cbn. lia.
  - destruct Hin as [->|Hin]; [cbn in E; contradiction|].
    cbn [sum_len]. fold (rm_span s r). rewrite IH; try assumption; [lia|].
    intros x Hx2. apply Huniq. right; assumption.
Qed.

(* a live span is delimited by its stop bit *)
Lemma span_end_live b s n :
  bstruct b -> In (s, n) (b_live b) -> span_end b s = s + n.
Proof.
  intros S Hin. unfold span_end.
  destruct (bs_spans b S _ Hin) as (A & B & C). cbn [fst snd] in *.
  pose proof (bs_pad b S) as Hpad.
  pose proof (find_bit_spec (b_stop b) true s (b_area b) ltac:(lia)) as F. cbn zeta in F.
  destruct F as (F1 & F2 & F3).
  set (j := find_bit (b_stop b) true s (b_area b)) in *.
  assert (Hstop : Z.testbit (b_stop b) (s + n - 1) = true).
  { apply (bs_stop b S). right. exists (s, n). split; [assumption|reflexivity]. }
  assert (j <= s + n - 1).
  { destruct (Z.le_gt_cases j (s + n - 1)); [assumption|].
    rewrite (F2 (s + n - 1)) in Hstop by lia. discriminate. }
  assert (s + n - 1 <= j).
  { destruct (Z.le_gt_cases (s + n - 1) j); [assumption|]. exfalso.
    assert (Hj : Z.testbit (b_stop b) j = true) by (apply F3; lia).
    apply (bs_stop b S) in Hj. destruct Hj as [[Hj0 Hp]|[sp [Hsp Hj]]].
    - lia.
    - destruct (bs_spans b S _ Hsp) as (A' & B' & C').
      assert (sp = (s, n)).
      { apply (bs_disj b S sp (s, n) j); try assumption; unfold in_span; cbn; lia. }
      subst sp. cbn in Hj. lia. }
  lia.
Qed.

Lemma bstruct_release b b' s n :
  bstruct b -> In (s, n) (b_live b) ->
  b_pad b' = b_pad b -> b_area b' = b_area b -> b_used b' = clear_range (b_used b) s n ->
  b_stop b' = Z.clearbit (b_stop b) (s + n - 1) -> b_aused b' = b_aused b - n -> b_live b' = rm_span s (b_live b) ->
  bstruct b'.
Proof.
  intros S Hin E1 E2 E3 E4 E5 E6.
  pose proof (bs_pad b S) as Hpad.
  destruct (bs_spans b S _ Hin) as (A & B & C). cbn [fst snd] in *.
  assert (Huniq : forall sp, In sp (b_live b) -> fst sp = s -> sp = (s, n)).
  { intros sp Hsp Hs. destruct (bs_spans b S _ Hsp) as (A' & B' & C').
    apply (bs_disj b S sp (s, n) s); try assumption; unfold in_span; cbn; lia. }
  assert (Hcov : forall i, covered (rm_span s (b_live b)) i <-> covered (b_live b) i /\ ~ (s <= i < s + n)).
  { intros i. split.
    - intros [sp [Hsp Hi]]. apply in_rm_span in Hsp. destruct Hsp as [Hsp Hne]. split.
      + exists sp. split; assumption.
      + intros Hr. apply Hne. assert (sp = (s, n)) as ->; [|reflexivity].
        apply (bs_disj b S sp (s, n) i); try assumption; try (unfold in_span; cbn; lia).
    - intros [[sp [Hsp Hi]] Hr]. exists sp. split; [|assumption].
      apply in_rm_span. split; [assumption|]. intros Hs. rewrite (Huniq sp Hsp Hs) in Hi.
      unfold in_span in Hi; cbn in Hi. lia. }
  constructor; rewrite ?E1, ?E2, ?E3, ?E4, ?E5, ?E6.
  - assumption.
  - apply (bs_area b S).
  - intros i. rewrite tb_clear_range by lia. rewrite andb_true_iff, negb_true_iff, inr_false, (bs_used b S), Hcov.
    split.
    + intros [[H|H] Hr]; [left; assumption|right; split; assumption].
    + intros [[-> H]|[H Hr]].
      * split; [left; split; [reflexivity|assumption]|lia].
      * split; [right; assumption|assumption].
  - intros i. rewrite Z.clearbit_iff, (bs_stop b S). split.
    + intros [[H|[sp [Hsp Hi]]] Hne]; [left; assumption|].
      right. exists sp. split; [|assumption]. apply in_rm_span. split; [assumption|].
      intros Hs. rewrite (Huniq sp Hsp Hs) in Hi. cbn in Hi. lia.
    + intros [[-> H]|[sp [Hsp Hi]]].
      * split; [left; split; [reflexivity|assumption]|lia].
      * apply in_rm_span in Hsp. destruct Hsp as [Hsp Hne]. split; [right; exists sp; split; assumption|].
        intros Heq. apply Hne.
        destruct (bs_spans b S _ Hsp) as (A' & B' & C').
        assert (sp = (s, n)) as ->; [|reflexivity].
        apply (bs_disj b S sp (s, n) i); try assumption; unfold in_span; cbn; lia.
  - intros sp Hsp. apply in_rm_span in Hsp. apply (bs_spans b S sp (proj1 Hsp)).
  - intros sp1 sp2 i H1 H2. apply in_rm_span in H1. apply in_rm_span in H2.
    apply (bs_disj b S sp1 sp2 i (proj1 H1) (proj1 H2)).
  - apply NoDup_filter. apply (bs_nodup b S).
  - rewrite (sum_len_rm s n); try assumption; [|apply (bs_nodup b S)]. rewrite (bs_sum b S). lia.
  - rewrite count_clear_range; try lia.
    + rewrite <- (bs_count b S). reflexivity.
    + intros k Hk. apply (bs_span_used b (s, n) k S Hin). unfold in_span; cbn; lia.
Qed.

Lemma bstruct_shrink b b' s n m :
  bstruct b -> In (s, n) (b_live b) -> 1 <= m -> m < n ->
  b_pad b' = b_pad b -> b_area b' = b_area b -> b_used b' = clear_range (b_used b) (s + m) (n - m) ->
  b_stop b' = Z.setbit (Z.clearbit (b_stop b) (s + n - 1)) (s + m - 1) -> b_aused b' = b_aused b - (n - m) ->
  b_live b' = (s, m) :: rm_span s (b_live b) ->
  bstruct b'.
Proof.
  intros S Hin Hm Hmn E1 E2 E3 E4 E5 E6.
  pose proof (bs_pad b S) as Hpad.
  destruct (bs_spans b S _ Hin) as (A & B & C). cbn [fst snd] in *.
  (* first release the whole span, then allocate the kept prefix *)
  set (b1 := mkBlock (b_id b) (b_pool b) (b_bytes b) (b_area b) (b_pad b) (clear_range (b_used b) s n)
                     (Z.clearbit (b_stop b) (s + n - 1)) (b_aused b - n) (b_largest b) (b_ss b) (b_se b)
                     (b_empty b) (b_dirty b) (b_incr b) (rm_span s (b_live b))).
  assert (S1 : bstruct b1) by (apply (bstruct_release b b1 s n S Hin); reflexivity).
  apply (bstruct_alloc b1 b' s m S1); cbn [b_pad b_area b_used b_stop b_aused b_live b1]; try lia; try assumption.
  - intros k Hk. rewrite tb_clear_range by lia. apply andb_false_iff. right.
    apply negb_false_iff. apply inr_true. lia.
  - rewrite E3. apply Z.bits_inj'. intros i Hi.
    rewrite tb_set_range, !tb_clear_range by lia.
    destruct (Z.testbit (b_used b) i) eqn:U; cbn.
    + unfold inr. zb; cbn; try reflexivity; lia.
    + unfold inr. zb; cbn; try reflexivity. exfalso.
      pose proof (bs_span_used b (s, n) i S Hin) as X. unfold in_span in X; cbn in X. rewrite X in U by lia. discriminate.
Qed.

(* ------------------------------------------------------------------ cache: allocate *)
Ltac simpl_b := cbn [b_id b_pool b_bytes b_area b_pad b_used b_stop b_aused b_largest b_ss b_se b_empty b_dirty b_incr b_live
                     fix_incr fix_empty fix_reset fix_init fix_qpad fixed].

Ltac simpl_b_in H := cbn [b_id b_pool b_bytes b_area b_pad b_used b_stop b_aused b_largest b_ss b_se b_empty b_dirty b_incr b_live
                     fix_incr fix_empty fix_reset fix_init fix_qpad fixed] in H.

Lemma bs_aused_le b : bstruct b -> b_aused b <= b_area b.
Proof.
  intros S. rewrite (bs_count b S). pose proof (bs_area b S). pose proof (bs_pad b S).
  pose proof (count_bounds (b_used b) 0 (b_area b) ltac:(lia)). lia.
Qed.

Lemma free_pad_le b s n : bstruct b -> 0 <= s -> 1 <= n -> allfree (b_used b) s n -> b_pad b <= s.
Proof.
  intros S Hs Hn Hfree. destruct (bs_pad b S) as [H|H]; [lia|].
  destruct (Z.eq_dec s 0) as [->|]; [|lia].
  pose proof (bs_pad_used b S H) as U. rewrite (Hfree 0 ltac:(lia)) in U. discriminate.
Qed.

(* the cache of a block that has just become full *)
Lemma bcache_full b' :
  bstruct b' -> b_aused b' = b_area b' -> b_ss b' = b_area b' -> b_se b' = 0 -> b_largest b' = 0 ->
  b_incr b' = false -> b_dirty b' = false -> b_empty b' = false -> bcache b'.
Proof.
  intros S' Hau Hss Hse Hlg Hin Hdi Hem.
  pose proof (bs_area b' S'). pose proof (bs_pad b' S').
  constructor.
  - lia.
  - lia.
  - intros _. repeat split; assumption.
  - rewrite Hin. discriminate.
  - intros _ s m Hs Hsm Hfree. rewrite Hlg. destruct (Z.le_gt_cases m 0); [assumption|].
    specialize (Hfree s ltac:(lia)). rewrite (bs_full_all_used b' S' Hau s) in Hfree by lia. discriminate.
  - lia.
  - rewrite Hem. split; [discriminate|lia].
Qed.

Lemma binv_alloc_scan b s n :
  binv b -> b_incr b = false -> 1 <= n -> 0 <= s -> s + n <= b_area b -> allfree (b_used b) s n ->
  binv (mark_allocated fixed b s (s + n)).
Proof.
  intros [S C] Hincr Hn Hs He Hfree.
  pose proof (free_pad_le b s n S Hs Hn Hfree) as Hp.
  pose proof (bs_aused_ge b S) as Hge. pose proof (bs_area b S) as Har. pose proof (bs_pad b S) as Hpad.
  unfold mark_allocated. replace (s + n - s) with n by lia.
  destruct (Z.eqb_spec (b_area b - (b_aused b + n)) 0) as [Hfull|Hnf].
  - match goal with |- binv ?B => assert (S' : bstruct B) by (apply (bstruct_alloc b B s n S); try assumption; reflexivity) end.
    split; [assumption|]. apply bcache_full; try assumption; simpl_b; try reflexivity; lia.
  - match goal with |- binv ?B => assert (S' : bstruct B) by (apply (bstruct_alloc b B s n S); try assumption; reflexivity) end.
    split; [assumption|]. pose proof (bc_range b C) as R.
    constructor; simpl_b.
    + destruct (Z.eqb_spec (b_ss b) s), (Z.eqb_spec (b_se b) (s + n)); lia.
    + intros Hlt i Hi Hf. rewrite tb_set_range in Hf by lia. apply orb_false_iff in Hf. destruct Hf as [Hf Hr].
      apply inr_false in Hr. pose proof (bc_window b C ltac:(lia) i Hi Hf).
      destruct (Z.eqb_spec (b_ss b) s), (Z.eqb_spec (b_se b) (s + n)); lia.
    + intros. lia.
    + rewrite Hincr. discriminate.
    + discriminate.
    + apply (bc_lnn b C).
    + split; [discriminate|lia].
Qed.

Lemma binv_alloc_incr b n :
  binv b -> b_incr b = true -> 1 <= n -> n <= b_largest b ->
  binv (mark_allocated fixed (set_largest b (b_largest b - n)) (b_ss b) (b_ss b + n)).
Proof.
  intros [S C] Hincr Hn Hle.
  destruct (bc_incr b C Hincr) as (I1 & I2 & I3 & I4 & I5).
  pose proof (bc_range b C) as R.
  assert (Hfree : allfree (b_used b) (b_ss b) n) by (intros k Hk; apply I5; lia).
  pose proof (free_pad_le b (b_ss b) n S ltac:(lia) Hn Hfree) as Hp.
  pose proof (bs_aused_ge b S) as Hge. pose proof (bs_area b S) as Har. pose proof (bs_pad b S) as Hpad.
  unfold mark_allocated, set_largest. simpl_b. replace (b_ss b + n - b_ss b) with n by lia.
  destruct (Z.eqb_spec (b_area b - (b_aused b + n)) 0) as [Hfull|Hnf].
  - match goal with |- binv ?B => assert (S' : bstruct B) by (apply (bstruct_alloc b B (b_ss b) n S); try assumption; try reflexivity; lia) end.
    split; [assumption|]. apply bcache_full; try assumption; simpl_b; try reflexivity; lia.
  - match goal with |- binv ?B => assert (S' : bstruct B) by (apply (bstruct_alloc b B (b_ss b) n S); try assumption; try reflexivity; lia) end.
    split; [assumption|].
    rewrite Z.eqb_refl. destruct (Z.eqb_spec (b_se b) (b_ss b + n)) as [E|E]; [lia|].
    constructor; simpl_b.
    + lia.
    + intros Hlt i Hi Hf. rewrite tb_set_range in Hf by lia. apply orb_false_iff in Hf. destruct Hf as [Hf Hr].
      apply inr_false in Hr. destruct (Z.lt_ge_cases i (b_ss b)); [rewrite I4 in Hf by lia; discriminate|]. lia.
    + intros. lia.
    + intros _. splits; try lia.
      * intros i Hi. rewrite tb_set_range by lia. apply orb_true_iff.
        destruct (Z.lt_ge_cases i (b_ss b)); [left; apply I4; lia | right; apply inr_true; lia].
      * intros i Hi. rewrite tb_set_range by lia. apply orb_false_iff. split; [apply I5; lia | apply inr_false; lia].
    + discriminate.
    + lia.
    + split; [discriminate|lia].
Qed.

(* ------------------------------------------------------------------ cache: release / shrink (un-marking [s, s+k)) *)
Lemma bcache_unmark_incr b b' s k :
  binv b -> bstruct b' -> b_incr b = true -> b_ss b = s + k -> 0 <= s -> 1 <= k ->
  b_pad b' = b_pad b -> b_area b' = b_area b -> b_used b' = clear_range (b_used b) s k -> b_aused b' = b_aused b - k ->
  b_ss b' = b_ss b - k -> b_se b' = b_se b -> b_largest b' = b_largest b + k -> b_incr b' = true ->
  b_dirty b' = b_dirty b -> (b_empty b' = true <-> b_aused b' = b_pad b') ->
  bcache b'.
Proof.
  intros [S C] S' Hincr Hss Hs Hk E1 E2 E3 E4 E5 E6 E7 E8 E9 E10.
  destruct (bc_incr b C Hincr) as (I1 & I2 & I3 & I4 & I5).
  pose proof (bc_range b C) as R. pose proof (bs_area b S) as Har. pose proof (bs_pad b S) as Hpad.
  assert (U1 : forall i, 0 <= i < s -> Z.testbit (b_used b') i = true).
  { intros i Hi. rewrite E3, tb_clear_range by lia. apply andb_true_iff. split; [apply I4; lia|].
    apply negb_true_iff. apply inr_false. lia. }
  assert (U2 : forall i, s <= i -> Z.testbit (b_used b') i = false).
  { intros i Hi. rewrite E3, tb_clear_range by lia. apply andb_false_iff.
    destruct (Z.lt_ge_cases i (s + k)); [right; apply negb_false_iff; apply inr_true; lia | left; apply I5; lia]. }
  constructor; rewrite ?E2, ?E5, ?E6, ?E7, ?E4.
  - lia.
  - intros Hlt i Hi Hf. destruct (Z.lt_ge_cases i s); [rewrite U1 in Hf by lia; discriminate|]. lia.
  - intros. lia.
  - intros _. splits; try lia.
    + intros i Hi. apply U1. lia.
    + intros i Hi. apply U2. lia.
  - intros _ s' m Hs' Hsm Hfree. destruct (Z.le_gt_cases m 0); [lia|].
    destruct (Z.lt_ge_cases s' s); [|lia].
    specialize (Hfree s' ltac:(lia)). rewrite U1 in Hfree by lia. discriminate.
  - pose proof (bc_lnn b C). lia.
  - rewrite <- E4. exact E10.
Qed.

Lemma bcache_unmark_gen b b' s k :
  binv b -> bstruct b' -> 0 <= s -> 1 <= k -> s + k <= b_area b ->
  b_pad b' = b_pad b -> b_area b' = b_area b -> b_used b' = clear_range (b_used b) s k -> b_aused b' = b_aused b - k ->
  b_ss b' = Z.min (b_ss b) s -> b_se b' = Z.max (b_se b) (s + k) -> b_largest b' = b_largest b -> b_incr b' = false ->
  b_dirty b' = true -> (b_empty b' = true <-> b_aused b' = b_pad b') ->
  bcache b'.
Proof.
  intros [S C] S' Hs Hk He E1 E2 E3 E4 E5 E6 E7 E8 E9 E10.
  pose proof (bc_range b C) as R. pose proof (bs_area b S) as Har. pose proof (bs_pad b S) as Hpad.
  pose proof (bs_aused_le b S) as Hle.
  constructor; rewrite ?E2, ?E5, ?E6, ?E7.
  - lia.
  - intros Hlt i Hi Hf. rewrite E3, tb_clear_range in Hf by lia. apply andb_false_iff in Hf.
    destruct Hf as [Hf|Hf].
    + destruct (Z.eq_dec (b_aused b) (b_area b)) as [Hfull|Hnf].
      * rewrite (bs_full_all_used b S Hfull i Hi) in Hf. discriminate.
      * pose proof (bc_window b C ltac:(lia) i Hi Hf). lia.
    + apply negb_false_iff in Hf. apply inr_true in Hf. lia.
  - intros. lia.
  - rewrite E8. discriminate.
  - rewrite E9. discriminate.
  - apply (bc_lnn b C).
  - exact E10.
Qed.

Lemma bcache_unmark_empty b' :
  bstruct b' -> b_aused b' = b_pad b' -> b_ss b' = b_pad b' -> b_se b' = b_area b' ->
  b_largest b' = b_area b' - b_pad b' -> b_incr b' = false -> b_dirty b' = false -> b_empty b' = true -> bcache b'.
Proof.
  intros S' E1 E2 E3 E4 E5 E6 E7.
  pose proof (bs_area b' S') as Har. pose proof (bs_pad b' S') as Hpad.
  assert (U0 : forall i, 0 <= i < b_pad b' -> Z.testbit (b_used b') i = true).
  { intros i Hi. assert (i = 0) as -> by lia. apply (bs_pad_used b' S'). lia. }
  constructor; rewrite ?E2, ?E3, ?E4.
  - lia.
  - intros _ i Hi Hf. destruct (Z.lt_ge_cases i (b_pad b')); [rewrite U0 in Hf by lia; discriminate|]. lia.
  - intros. lia.
  - rewrite E5. discriminate.
  - intros _ s m Hs Hsm Hfree. destruct (Z.le_gt_cases m 0); [lia|].
    destruct (Z.lt_ge_cases s (b_pad b')); [|lia].
    specialize (Hfree s ltac:(lia)). rewrite U0 in Hfree by lia. discriminate.
  - lia.
  - rewrite E7. split; intros; [assumption|reflexivity].
Qed.

Lemma binv_release b s n :
  binv b -> In (s, n) (b_live b) -> binv (mark_released fixed b s (s + n)).
Proof.
  intros [S C] Hin.
  destruct (bs_spans b S _ Hin) as (A1 & A2 & A3). cbn [fst snd] in *.
  pose proof (bs_pad b S) as Hpad. pose proof (bs_area b S) as Har.
  unfold mark_released. replace (s + n - s) with n by lia. simpl_b.
  destruct (b_incr b && (b_ss b =? s + n)) eqn:Eb.
  - apply andb_true_iff in Eb. destruct Eb as [Hincr Hss]. apply Z.eqb_eq in Hss.
    match goal with |- binv ?B => assert (S' : bstruct B) by (apply (bstruct_release b B s n S Hin); reflexivity) end.
    split; [assumption|].
    eapply (bcache_unmark_incr b _ s n); try eassumption; try reflexivity; try lia; [split; assumption|].
    simpl_b. pose proof (bs_aused_ge _ S') as G. simpl_b_in G.
    destruct (Z.eqb_spec (b_aused b - n) (b_pad b)) as [E|E].
    + split; intros; [assumption|reflexivity].
    + pose proof (bc_empty b C) as Em. split; [intros H; apply Em in H; lia | intros H; lia].
  - destruct (Z.eqb_spec (b_aused b - n) (b_pad b)) as [E|E].
    + match goal with |- binv ?B => assert (S' : bstruct B) by (apply (bstruct_release b B s n S Hin); reflexivity) end.
      split; [assumption|]. apply bcache_unmark_empty; try assumption; reflexivity.
    + match goal with |- binv ?B => assert (S' : bstruct B) by (apply (bstruct_release b B s n S Hin); reflexivity) end.
      split; [assumption|].
      eapply (bcache_unmark_gen b _ s n); try eassumption; try reflexivity; try lia; [split; assumption|].
      simpl_b. pose proof (bs_aused_ge _ S') as G. simpl_b_in G.
      pose proof (bc_empty b C) as Em. split; [intros H; apply Em in H; lia | intros H; lia].
Qed.

Lemma binv_shrink b s n m :
  binv b -> In (s, n) (b_live b) -> 1 <= m -> m < n -> binv (mark_shrunk b s (s + m) (s + n)).
Proof.
  intros [S C] Hin Hm Hmn.
  destruct (bs_spans b S _ Hin) as (A1 & A2 & A3). cbn [fst snd] in *.
  pose proof (bs_pad b S) as Hpad. pose proof (bs_area b S) as Har.
  unfold mark_shrunk. replace (s + n - (s + m)) with (n - m) by lia. replace (s + m - s) with m by lia. simpl_b.
  destruct (b_incr b && (b_ss b =? s + n)) eqn:Eb.
  - apply andb_true_iff in Eb. destruct Eb as [Hincr Hss]. apply Z.eqb_eq in Hss.
    match goal with |- binv ?B => assert (S' : bstruct B) by (apply (bstruct_shrink b B s n m S Hin); try assumption; reflexivity) end.
    split; [assumption|].
    eapply (bcache_unmark_incr b _ (s + m) (n - m)); try eassumption; try reflexivity; try lia; [split; assumption|].
    simpl_b. pose proof (bs_sum _ S') as G. simpl_b_in G. cbn [sum_len snd] in G.
    assert (0 <= sum_len (rm_span s (b_live b))).
    { apply sum_len_nonneg. intros sp Hsp. apply in_rm_span in Hsp. apply (bs_spans b S sp (proj1 Hsp)). }
    pose proof (bc_empty b C) as Em. split; [intros H'; apply Em in H'; lia | intros H'; lia].
  - match goal with |- binv ?B => assert (S' : bstruct B) by (apply (bstruct_shrink b B s n m S Hin); try assumption; reflexivity) end.
    split; [assumption|].
    eapply (bcache_unmark_gen b _ (s + m) (n - m)); try eassumption; try reflexivity; try lia; [split; assumption| |].
    + simpl_b. f_equal. lia.
    + simpl_b. pose proof (bs_sum _ S') as G. simpl_b_in G. cbn [sum_len snd] in G.
      assert (0 <= sum_len (rm_span s (b_live b))).
      { apply sum_len_nonneg. intros sp Hsp. apply in_rm_span in Hsp. apply (bs_spans b S sp (proj1 Hsp)). }
      pose proof (bc_empty b C) as Em. split; [intros H'; apply Em in H'; lia | intros H'; lia].
Qed.

(* ------------------------------------------------------------------ the block step of alloc *)
Definition same_geom (b b' : block) : Prop :=
  b_id b' = b_id b /\ b_pool b' = b_pool b /\ b_bytes b' = b_bytes b /\ b_area b' = b_area b /\ b_pad b' = b_pad b.

(* no run of n free granules anywhere in the block *)
Definition no_room (b : block) (n : Z) : Prop :=
  forall s, 0 <= s -> s + n <= b_area b -> ~ allfree (b_used b) s n.

Lemma mark_allocated_fields v b s n :
  let b' := mark_allocated v b s (s + n) in
  same_geom b b' /\ b_live b' = (s, n) :: b_live b /\ b_aused b' = b_aused b + n /\ b_empty b' = false.
Proof.
  cbn zeta. unfold mark_allocated, same_geom. replace (s + n - s) with n by lia.
  destruct (b_area b - (b_aused b + n) =? 0); simpl_b; splits; reflexivity.
Qed.

Lemma binv_refresh b n fs le lg :
  binv b -> b_incr b = false -> b_aused b < b_area b -> 1 <= n ->
  scan (b_used b) (b_ss b) (b_se b) n = NotFound fs le lg ->
  binv (refresh b fs le lg) /\ no_room b n.
Proof.
  intros [S C] Hincr Hlt Hn Hscan.
  pose proof (bc_range b C) as R.
  destruct (scan_ok (b_used b) (b_ss b) (b_se b) n ltac:(lia)) as [Hres Hempty].
  destruct (Z.lt_ge_cases (b_se b) (b_ss b)) as [Hw|Hw]; [rewrite Hempty in Hscan by assumption; discriminate|].
  rewrite Z.max_r in Hres by lia. rewrite Hscan in Hres. cbn in Hres.
  destruct Hres as (R1 & R2 & R3 & R4 & R5 & R6 & R7).
  split; [split|].
  - apply (bstruct_ext b); try reflexivity; assumption.
  - unfold refresh. constructor; simpl_b.
    + lia.
    + intros _ i Hi Hf. pose proof (bc_window b C Hlt i Hi Hf). apply R6; [lia|assumption].
    + intros. lia.
    + rewrite Hincr. discriminate.
    + intros _ s m Hs Hsm Hfree. destruct (Z.le_gt_cases m 0); [lia|].
      pose proof (bc_window b C Hlt s ltac:(lia) (Hfree s ltac:(lia))).
      pose proof (bc_window b C Hlt (s + m - 1) ltac:(lia) (Hfree (s + m - 1) ltac:(lia))).
      apply (R7 s m); try lia. assumption.
    + lia.
    + apply (bc_empty b C).
  - intros s Hs Hsn Hfree.
    pose proof (bc_window b C Hlt s ltac:(lia) (Hfree s ltac:(lia))).
    pose proof (bc_window b C Hlt (s + n - 1) ltac:(lia) (Hfree (s + n - 1) ltac:(lia))).
    pose proof (R7 s n ltac:(lia) ltac:(lia) Hfree). lia.
Qed.

Lemma block_alloc_ok b n :
  binv b -> 1 <= n ->
  binv (fst (block_alloc fixed b n)) /\ same_geom b (fst (block_alloc fixed b n)) /\
  match snd (block_alloc fixed b n) with
  | Some s => b_live (fst (block_alloc fixed b n)) = (s, n) :: b_live b /\ b_pad b <= s /\ s + n <= b_area b /\
              b_aused (fst (block_alloc fixed b n)) = b_aused b + n /\ b_empty (fst (block_alloc fixed b n)) = false
  | None => b_live (fst (block_alloc fixed b n)) = b_live b /\ b_aused (fst (block_alloc fixed b n)) = b_aused b /\
            b_empty (fst (block_alloc fixed b n)) = b_empty b /\ b_used (fst (block_alloc fixed b n)) = b_used b /\
            no_room b n
  end.
Proof.
  intros I Hn. pose proof I as [S C].
  pose proof (bc_range b C) as R. pose proof (bs_area b S) as Har. pose proof (bs_pad b S) as Hpad.
  assert (Hsome : forall b1 s, same_geom b b1 -> b_live b1 = b_live b -> b_aused b1 = b_aused b ->
            binv (mark_allocated fixed b1 s (s + n)) ->
            binv (mark_allocated fixed b1 s (s + n)) /\ same_geom b (mark_allocated fixed b1 s (s + n)) /\
            b_live (mark_allocated fixed b1 s (s + n)) = (s, n) :: b_live b /\ b_pad b <= s /\ s + n <= b_area b /\
            b_aused (mark_allocated fixed b1 s (s + n)) = b_aused b + n /\ b_empty (mark_allocated fixed b1 s (s + n)) = false).
  { intros b1 s G L A I'. destruct (mark_allocated_fields fixed b1 s n) as (G' & L' & A' & E'). cbn zeta in *.
    destruct G as (g1 & g2 & g3 & g4 & g5). destruct G' as (h1 & h2 & h3 & h4 & h5).
    assert (In (s, n) (b_live (mark_allocated fixed b1 s (s + n)))) as Hin by (rewrite L'; left; reflexivity).
    destruct (bs_spans _ (proj1 I') _ Hin) as (_ & P1 & P2). cbn [fst snd] in *.
    splits; try assumption; try congruence; unfold same_geom; try lia. }
  unfold block_alloc, block_try.
  destruct (b_incr b && (n <=? b_largest b)) eqn:E1.
  - apply andb_true_iff in E1. destruct E1 as [Hincr Hle]. apply Z.leb_le in Hle. cbn [fst snd].
    apply Hsome; try reflexivity.
    + unfold same_geom, set_largest; simpl_b; splits; reflexivity.
    + apply binv_alloc_incr; assumption.
  - destruct (Z.leb_spec n (b_area b - b_aused b)) as [Hav|Hav].
    + assert (Hincr : b_incr b = false).
      { destruct (b_incr b) eqn:Ei; [|reflexivity]. exfalso.
        destruct (bc_incr b C Ei) as (I1 & I2 & I3 & _). cbn in E1. apply Z.leb_gt in E1. lia. }
      destruct (b_dirty b || (n <=? b_largest b)) eqn:E2.
      * destruct (scan_ok (b_used b) (b_ss b) (b_se b) n ltac:(lia)) as [Hres Hempty].
        destruct (scan (b_used b) (b_ss b) (b_se b) n) as [s|fs le lg|] eqn:Es.
        -- cbn [fst snd]. cbn in Hres. destruct Hres as (R1 & R2 & R3).
           apply Hsome; try reflexivity.
           ++ unfold same_geom; splits; reflexivity.
           ++ apply binv_alloc_scan; try assumption; lia.
        -- cbn [fst snd]. destruct (binv_refresh b n fs le lg I Hincr ltac:(lia) Hn Es) as [I' NR].
           splits; try assumption; try reflexivity. unfold same_geom, refresh; simpl_b; splits; reflexivity.
        -- cbn [fst snd]. splits; try assumption; try reflexivity. unfold same_geom; splits; reflexivity.
           intros s Hs Hsn Hfree. cbn in Hres.
           pose proof (bc_window b C ltac:(lia) s ltac:(lia) (Hfree s ltac:(lia))).
           specialize (Hfree s ltac:(lia)). rewrite Hres in Hfree by lia. discriminate.
      * cbn [fst snd]. splits; try assumption; try reflexivity. unfold same_geom; splits; reflexivity.
        apply orb_false_iff in E2. destruct E2 as [Hd Hl]. apply Z.leb_gt in Hl.
        intros s Hs Hsn Hfree. pose proof (bc_largest b C Hd s n Hs Hsn Hfree). lia.
    + cbn [fst snd]. splits; try assumption; try reflexivity. unfold same_geom; splits; reflexivity.
      intros s Hs Hsn Hfree.
      pose proof (count_free_run (b_used b) 0 (b_area b) s n ltac:(lia) Hs ltac:(lia) Hsn Hfree).
      rewrite <- (bs_count b S) in *. lia.
Qed.

Lemma new_block_alloc_eq v id pool bytes area pad n :
  1 <= n ->
  new_block_alloc v id pool bytes area pad n =
  mark_allocated v (set_largest (clear_block id pool bytes area pad) (area - pad - n)) pad (pad + n).
Proof.
  intros Hn. unfold new_block_alloc, mark_allocated, set_largest, clear_block. simpl_b.
  destruct (area - (pad + (pad + n - pad)) =? 0); [reflexivity|].
  rewrite Z.eqb_refl. replace (pad + n =? pad) with false by (symmetry; apply Z.eqb_neq; lia). reflexivity.
Qed.

Lemma binv_new_block id pool bytes area pad n :
  (pad = 0 \/ pad = 1) -> 1 <= n -> pad + n <= area ->
  binv (new_block_alloc fixed id pool bytes area pad n) /\
  b_live (new_block_alloc fixed id pool bytes area pad n) = [(pad, n)] /\
  b_aused (new_block_alloc fixed id pool bytes area pad n) = pad + n /\
  b_empty (new_block_alloc fixed id pool bytes area pad n) = false /\
  b_id (new_block_alloc fixed id pool bytes area pad n) = id /\
  b_pool (new_block_alloc fixed id pool bytes area pad n) = pool /\
  b_area (new_block_alloc fixed id pool bytes area pad n) = area /\
  b_pad (new_block_alloc fixed id pool bytes area pad n) = pad /\
  b_bytes (new_block_alloc fixed id pool bytes area pad n) = bytes.
Proof.
  intros Hp Hn Ha. rewrite new_block_alloc_eq by assumption.
  pose proof (binv_clear id pool bytes area pad Hp ltac:(lia)) as I0.
  set (b0 := clear_block id pool bytes area pad) in *.
  pose proof (binv_alloc_incr b0 n I0 eq_refl Hn ltac:(unfold b0, clear_block; simpl_b; lia)) as I1.
  change (b_ss b0) with pad in I1. change (b_largest b0 - n) with (area - pad - n) in I1.
  split; [exact I1|].
  destruct (mark_allocated_fields fixed (set_largest b0 (area - pad - n)) pad n) as (G & L & A & E). cbn zeta in *.
  destruct G as (g1 & g2 & g3 & g4 & g5).
  splits; try assumption.
Qed.

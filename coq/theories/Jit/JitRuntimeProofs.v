(* C09 x C10 — JitRuntime::_add / _release: every installed image owns a live span that is large enough for it, images of
   different adds never share a granule, add and release keep that invariant. *)
From Coq Require Import ZArith List Bool Lia.
From Verif Require Import Sections.SectionModel Sections.SectionProofs Sections.CopyProofs Sections.SettleProofs.
From Verif Require Import Jit.JitModel Jit.JitBits Jit.JitBlockProofs Jit.JitProofs Jit.JitFill Jit.JitRuntimeModel.
Import ListNotations.
Local Open Scope Z_scope.

Record rinv (c : config) (rs : rstate) : Prop := {
  rv_reach : reach c (r_st rs);
  rv_live : forall e, In e (r_code rs) -> In (fst e) (all_live (blocks (r_st rs)));
  rv_nodup : NoDup (map fst (r_code rs)) }.

Lemma rinv_init c : rinv c (mkR (init_state c) []).
Proof. constructor; cbn; [apply reach_init|intros e []|constructor]. Qed.

(* the span a successful alloc returns was not live before *)
Lemma alloc_fresh c st size st' id off len :
  cfg_ok c -> reach c st -> 0 <= size -> size + c_gran c <= two64 ->
  alloc c st size = (st', RAlloc Ok id off len) ->
  let g := pool_gran c (size_to_pool c len) in
  ~ In (id, (off / g, len / g)) (all_live (blocks st)).
Proof.
  intros Hc R Hs0 Hs1 HA g0. pose proof (reach_ginv c st Hc R) as G.
  destruct Hc as [Hg Hpools Hbs Hvar]. unfold alloc in HA.
  pose proof (align_up_ge size (c_gran c) Hg) as A1. pose proof (align_up_lt size (c_gran c) Hg) as A2.
  pose proof (align_up_mod size (c_gran c) Hg) as A3.
  rewrite (Z.mod_small (align_up size (c_gran c)) two64) in HA by lia.
  set (sz := align_up size (c_gran c)) in *.
  destruct (Z.eqb_spec sz 0) as [E0|E0]; [inversion HA|].
  destruct (Z.leb_spec 2147483647 (sz - 1)) as [E1|E1]; [inversion HA|].
  assert (Hsz : 1 <= sz) by lia.
  set (p := size_to_pool c sz) in *. pose proof (size_to_pool_range c sz Hpools) as Hp. fold p in Hp.
  pose proof (size_to_pool_div c sz Hpools A3) as Hdiv. fold p in Hdiv.
  set (g := pool_gran c p) in *. pose proof (pool_gran_pos c p Hg ltac:(lia)) as Hgp. fold g in Hgp.
  destruct (ceil_exact sz g Hgp Hdiv) as [Hn1 Hn2].
  set (n := (sz + g - 1) / g) in *. pose proof (ceil_ge1 sz g Hgp Hsz) as Hn. fold n in Hn.
  rewrite Hvar in HA. destruct G as [GB GI GN GP GC GNid].
  pose proof (try_blocks_ok c (nextid st) p n Hn (blocks st) GB) as (F' & G' & W).
  destruct (try_blocks fixed p n (blocks st)) as [bl' [[[id' s] we]|]] eqn:Et; cbn [fst snd] in *.
  - inversion HA; subst st' id off len. clear HA. subst g0. fold p. fold g.
    rewrite Z_div_mult by lia. rewrite <- Hn1.
    destruct W as (_ & _ & _ & (b & b' & X1 & X2 & X3 & X4 & X5 & X6 & X7 & X8)).
    intros Hin. apply in_all_live in Hin. destruct Hin as [b0 [Hb0 [Hid0 Hsp0]]].
    assert (b0 = b) by (apply (nodup_ids_inj (blocks st)); try assumption; congruence). subst b0.
    rewrite Forall_forall in F'. destruct (F' b' X2) as ([S' _] & _).
    pose proof (bs_nodup b' S') as ND. rewrite X6 in ND. inversion ND. contradiction.
  - inversion HA; subst st' id off len. clear HA.
    intros Hin. apply in_all_live in Hin. destruct Hin as [b0 [Hb0 [Hid0 _]]].
    rewrite Forall_forall in GB. destruct (GB b0 Hb0) as (_ & _ & Hlt). lia.
Qed.

Lemma ceil_of_len size len g : 0 < g -> 1 <= size -> size <= len < size + g -> len mod g = 0 -> (size + g - 1) / g = len / g.
Proof.
  intros Hg Hs Hl Hm. pose proof (Z.div_mod len g ltac:(lia)) as D. rewrite Hm in D.
  symmetry. apply (Z.div_unique_pos (size + g - 1) g (len / g) (size + g - 1 - g * (len / g))); lia.
Qed.

Lemma pool_gran_ge c p : 0 < c_gran c -> 0 <= p -> c_gran c <= pool_gran c p.
Proof. intros Hg Hp. unfold pool_gran. pose proof (Z.pow_pos_nonneg 2 p ltac:(lia) Hp). nia. Qed.

Theorem rt_add_ok c rs h fill :
  cfg_ok c -> rinv c rs -> wf_holder h -> data_len_ok h ->
  (forall n img h1, jit_add h fill = (EOk, n, img, h1) -> n + c_gran c <= two64) ->
  rinv c (fst (rt_add c rs h fill)) /\
  (forall id off, snd (rt_add c rs h fill) = Some (id, off) ->
     exists n img h1 len b,
       jit_add h fill = (EOk, n, img, h1) /\ Z.of_nat (length img) = n /\ n <= len /\
       In b (blocks (r_st (fst (rt_add c rs h fill)))) /\ b_id b = id /\
       off mod pool_gran c (b_pool b) = 0 /\ len mod pool_gran c (b_pool b) = 0 /\
       In (off / pool_gran c (b_pool b), len / pool_gran c (b_pool b)) (b_live b) /\
       r_code (fst (rt_add c rs h fill)) = (id, (off / pool_gran c (b_pool b), len / pool_gran c (b_pool b)), img) :: r_code rs).
Proof.
  intros Hc [RR RL RN] Hwf Hdl Hbound. unfold rt_add.
  destruct (jit_add h fill) as [[[e n] img] h1] eqn:EJ.
  destruct e; try (split; [constructor; assumption|intros; discriminate]).
  destruct (jit_image_determined h fill EOk n img h1 Hwf Hdl EJ) as (_ & _ & _ & HOk).
  destruct (HOk eq_refl) as (_ & _ & Hnpos & Hlen & _).
  specialize (Hbound n img h1 eq_refl).
  destruct (alloc c (r_st rs) n) as [st' r] eqn:EA.
  assert (Hst'_err : forall x, r = x -> (forall i o l, x <> RAlloc Ok i o l) -> st' = r_st rs).
  { intros x -> Hne. unfold alloc in EA.
    destruct (_ =? 0); [inversion EA; reflexivity|]. destruct (_ <=? _); [inversion EA; reflexivity|].
    destruct (try_blocks _ _ _ _) as [bl' [[[i s] w]|]]; inversion EA; subst; exfalso; eapply Hne; reflexivity. }
  destruct r as [er id off len| | | | |];
    try (cbn [fst snd]; rewrite (Hst'_err _ eq_refl) by (intros; discriminate); split; [constructor; assumption|intros; discriminate]).
  destruct er; try (cbn [fst snd]; rewrite (Hst'_err _ eq_refl) by (intros; discriminate); split; [constructor; assumption|intros; discriminate]).
  (* success *)
  pose proof (alloc_result c (r_st rs) n st' id off len Hc RR ltac:(lia) Hbound EA) as (L1 & L2 & (b & Hb & Hbid & Hbp & Hoff & Hlm & Hlive & _)).
  pose proof (alloc_frame c (r_st rs) n st' id off len Hc RR ltac:(lia) Hbound EA) as FR. cbn zeta in FR.
  pose proof (alloc_fresh c (r_st rs) n st' id off len Hc RR ltac:(lia) Hbound EA) as FRESH. cbn zeta in FRESH.
  rewrite <- Hbp in FR, FRESH |- *.
  set (g := pool_gran c (b_pool b)) in *.
  assert (R' : reach c st').
  { pose proof (reach_step c (r_st rs) (OAlloc n) RR I) as X. cbn [step] in X. rewrite EA in X. exact X. }
  pose proof (reach_ginv c st' Hc R') as G'.
  assert (Pb : 0 <= b_pool b < c_pools c).
  { pose proof (g_blocks c st' G') as GB. rewrite Forall_forall in GB. destruct (GB b Hb) as (_ & Pb & _). exact Pb. }
  assert (Hgp : 0 < g) by (apply pool_gran_pos; [apply (co_gran c Hc)|lia]).
  assert (Ef : find_block id (blocks st') = Some b) by (rewrite <- Hbid; apply find_block_of_in; [apply (g_ids c st' G')|assumption]).
  assert (Hgg : c_gran c <= g).
  { apply pool_gran_ge; [apply (co_gran c Hc)|lia]. }
  destruct (shrink_frame c st' id off n b (off / g) (len / g) Hc R' Ef eq_refl Hlive ltac:(lia)) as (_ & Hnoop & _).
  fold g in Hnoop. rewrite (Hnoop (ceil_of_len n len g Hgp ltac:(lia) ltac:(lia) Hlm)). cbn [fst snd].
  split.
  - constructor; cbn [r_st r_code].
    + assumption.
    + intros e0 [<-|He0]; cbn [fst]; [apply FR; left; reflexivity|apply FR; right; apply RL; assumption].
    + cbn [map fst]. constructor; [|assumption].
      intros Hin. apply in_map_iff in Hin. destruct Hin as [e0 [E0 He0]]. apply FRESH. rewrite <- E0. apply RL. assumption.
  - intros id0 off0 [= <- <-]. exists n, img, h1, len, b. splits; try assumption; try reflexivity; lia.
Qed.

Theorem rt_release_ok c rs id off :
  cfg_ok c -> rinv c rs -> valid_ptr c (r_st rs) id off -> rinv c (fst (rt_release c rs id off)).
Proof.
  intros Hc [RR RL RN] V. unfold rt_release.
  pose proof (reach_step c (r_st rs) (ORelease id off) RR V) as R'. cbn [step] in R'.
  destruct (find_block id (blocks (r_st rs))) as [b|] eqn:Ef.
  - destruct (V b Ef) as [n Hin].
    destruct (release_frame c (r_st rs) id off b _ n Hc RR Ef eq_refl Hin) as [Hr F].
    destruct (release c (r_st rs) id off) as [st' r] eqn:ER. cbn [fst snd] in *. subst r.
    constructor; cbn [r_st r_code].
    + assumption.
    + intros e He. apply filter_In in He. destruct He as [He Hk]. apply F. split; [apply RL; assumption|].
      intros E. apply negb_true_iff in Hk. unfold same_key in Hk. rewrite E in Hk. cbn in Hk. rewrite !Z.eqb_refl in Hk. discriminate.
    + clear -RN. induction (r_code rs) as [|x l IH]; cbn; [constructor|]. cbn in RN. inversion RN; subst.
      destruct (negb _); [cbn; constructor; [|apply IH; assumption]|apply IH; assumption].
      intros H. apply in_map_iff in H. destruct H as [y [Y1 Y2]]. apply filter_In in Y2. apply H1. rewrite <- Y1. apply in_map. apply Y2.
  - unfold release in *. rewrite Ef in *. cbn [fst snd]. constructor; assumption.
Qed.

(* two different installed images never share a granule *)
Theorem rt_code_disjoint c rs e1 e2 :
  cfg_ok c -> rinv c rs -> In e1 (r_code rs) -> In e2 (r_code rs) -> e1 <> e2 ->
  fst e1 <> fst e2 /\
  (fst (fst e1) = fst (fst e2) -> forall i, in_span (snd (fst e1)) i -> in_span (snd (fst e2)) i -> False).
Proof.
  intros Hc [RR RL RN] H1 H2 Hne.
  assert (Hk : fst e1 <> fst e2).
  { clear -RN H1 H2 Hne. induction (r_code rs) as [|x l IH]; [destruct H1|]. cbn in RN. inversion RN; subst.
    destruct H1 as [<-|H1], H2 as [<-|H2].
    - contradiction.
    - intros E. apply H3. rewrite E. apply in_map. assumption.
    - intros E. apply H3. rewrite <- E. apply in_map. assumption.
    - apply IH; assumption. }
  split; [assumption|]. intros Eid i I1 I2.
  pose proof (RL e1 H1) as L1. pose proof (RL e2 H2) as L2.
  destruct e1 as [[id1 sp1] img1], e2 as [[id2 sp2] img2]. cbn [fst snd] in *. subst id2.
  apply in_all_live in L1. apply in_all_live in L2.
  destruct L1 as [b1 [B1 [I1' S1]]]. destruct L2 as [b2 [B2 [I2' S2]]].
  destruct (live_spans_disjoint c (r_st rs) Hc RR b1 b2 sp1 sp2 B1 B2 S1 S2) as (Hsame & _ & Hd).
  assert (b1 = b2) by (apply Hsame; congruence). apply Hk. f_equal. apply (Hd H i I1 I2).
Qed.

(* C09 — query() reflects exactly the live spans (repaired variant: the initial padding granule is not a span), and the
   operations that fail change nothing. *)
From Coq Require Import ZArith List Bool Lia.
From Verif Require Import Jit.JitModel Jit.JitBits Jit.JitBlockProofs Jit.JitProofs.
Import ListNotations.
Local Open Scope Z_scope.

(* the stop-bit scan from any granule of a live span ends at that span's end *)
Lemma span_end_inside b s n k :
  bstruct b -> In (s, n) (b_live b) -> s <= k < s + n -> span_end b k = s + n.
Proof.
  intros S Hin Hk. unfold span_end.
  destruct (bs_spans b S _ Hin) as (A & B & C). cbn [fst snd] in *.
  pose proof (bs_pad b S) as Hpad.
  pose proof (find_bit_spec (b_stop b) true k (b_area b) ltac:(lia)) as F. cbn zeta in F.
  destruct F as (F1 & F2 & F3).
  set (j := find_bit (b_stop b) true k (b_area b)) in *.
  assert (Hstop : Z.testbit (b_stop b) (s + n - 1) = true).
  { apply (bs_stop b S). right. exists (s, n). split; [assumption|reflexivity]. }
  assert (j <= s + n - 1).
  { destruct (Z.le_gt_cases j (s + n - 1)); [assumption|].
    rewrite (F2 (s + n - 1)) in Hstop by lia. discriminate. }
  assert (s + n - 1 <= j).
  { destruct (Z.le_gt_cases (s + n - 1) j); [assumption|]. exfalso.
    assert (Hj : Z.testbit (b_stop b) j = true) by (apply F3; lia).
    apply (bs_stop b S) in Hj. destruct Hj as [[Hj0 Hp]|[sp [Hsp Hj]]].
    - lia.
    - destruct (bs_spans b S _ Hsp) as (A' & B' & C').
      assert (sp = (s, n)).
      { apply (bs_disj b S sp (s, n) j); try assumption; unfold in_span; cbn; lia. }
      subst sp. cbn in Hj. lia. }
  lia.
Qed.

Theorem query_exact c st id off b :
  cfg_ok c -> reach c st -> find_block id (blocks st) = Some b ->
  let g := pool_gran c (b_pool b) in
  let k := off / g in
  (forall s n, In (s, n) (b_live b) -> s <= k < s + n -> query c st id off = RQuery Ok id (k * g) ((s + n - k) * g)) /\
  (~ covered (b_live b) k -> query c st id off = RQuery InvalidArgument 0 0 0).
Proof.
  intros Hc R Ef g k. pose proof (reach_ginv c st Hc R) as [GB _ _ _ _ _]. rewrite Forall_forall in GB.
  destruct (find_block_in _ _ _ Ef) as [Hb Hid]. destruct (GB b Hb) as ([S _] & _).
  pose proof Hc as [_ _ _ Hvar].
  unfold query. rewrite Ef. fold g. fold k. rewrite Hvar. cbn [fix_qpad fixed andb].
  split.
  - intros s n Hin Hk. rewrite (bs_span_used b (s, n) k S Hin Hk). cbn [negb orb].
    destruct (bs_spans b S _ Hin) as (_ & B & _). cbn [fst] in B.
    replace (k <? b_pad b) with false by (symmetry; apply Z.ltb_ge; lia).
    rewrite (span_end_inside b s n k S Hin Hk). reflexivity.
  - intros Hnc. destruct (Z.testbit (b_used b) k) eqn:Eu; [|reflexivity]. cbn [negb orb].
    apply (bs_used b S) in Eu. destruct Eu as [[-> Hp]|Hcov]; [|contradiction].
    rewrite Hp. reflexivity.
Qed.

(* what must NOT change: an operation that answers an error leaves the allocator exactly as it was (any state, any variant) *)
Theorem errors_change_nothing c st :
  (forall size st' e id off len, alloc c st size = (st', RAlloc e id off len) -> e <> Ok -> st' = st) /\
  (forall id off st' e i d, release c st id off = (st', RRelease e i d) -> e <> Ok -> st' = st) /\
  (forall id off ns st' e i l, shrink c st id off ns = (st', RShrink e i l) -> e <> Ok -> st' = st).
Proof.
  assert (HR : forall id off st' e i d, release c st id off = (st', RRelease e i d) -> e <> Ok -> st' = st).
  { intros id off st' e i d H Hne. unfold release in H. destruct (find_block id (blocks st)); [|inversion H; reflexivity].
    destruct (b_empty _); [destruct (_ || _)|]; inversion H; subst; contradiction. }
  split; [|split; [exact HR|]].
  - intros size st' e id off len H Hne. unfold alloc in H.
    destruct (_ =? 0); [inversion H; reflexivity|]. destruct (_ <=? _); [inversion H; reflexivity|].
    destruct (try_blocks _ _ _ _) as [bl' [[[i s] w]|]]; inversion H; subst; contradiction.
  - intros id off ns st' e i l H Hne. unfold shrink in H. destruct (ns =? 0).
    + destruct (release c st id off) as [st1 r] eqn:ER.
      assert (Hrel : exists e1 i1 d1, r = RRelease e1 i1 d1).
      { unfold release in ER. destruct (find_block id (blocks st)); [|inversion ER; eauto].
        destruct (b_empty _); [destruct (_ || _)|]; inversion ER; eauto. }
      destruct Hrel as (e1 & i1 & d1 & ->). inversion H; subst. apply (HR id off st' e i d1 ER Hne).
    + destruct (find_block id (blocks st)); [|inversion H; reflexivity].
      destruct (negb _); [inversion H; reflexivity|]. destruct (_ <? _); [inversion H; reflexivity|].
      destruct (_ =? 0); inversion H; subst; [reflexivity|contradiction].
Qed.

(* C09 — the content layer (granule level; bytes = granules * pool granularity, see `ev_bytes`).
   `fill_events c st o`: the ranges that operation o, started in state st, overwrites with the fill pattern when
   kFillUnusedMemory is set (JitAllocator_fill_pattern is the only writer of the allocator besides the memcpy of write(),
   which targets the caller's own span): the released span, the shrunk-away tail, a whole new block, the spans of the
   blocks kept by a reset.
     contents_kept : no fill event touches a span that is live before and after the operation;
     fill_covers   : every granule that is outside all live spans after the operation was outside all live spans before
                     it, or is covered by a fill event (induction step of "unused memory carries the pattern"). *)
From Coq Require Import ZArith List Bool Lia.
From Verif Require Import Jit.JitModel Jit.JitBits Jit.JitBlockProofs Jit.JitProofs.
Import ListNotations.
Local Open Scope Z_scope.

Definition ev := (Z * (Z * Z))%type.   (* block id, (first granule, number of granules) *)

Definition release_events (c : config) (st : state) (id off : Z) : list ev :=
  match find_block id (blocks st) with
  | Some b => let idx := off / pool_gran c (b_pool b) in [(id, (idx, span_end b idx - idx))]
  | None => []
  end.

Definition fill_events (c : config) (st : state) (o : op) : list ev :=
  match o with
  | OAlloc size =>
    let st' := fst (alloc c st size) in
    if nextid st' =? nextid st then []
    else match find_block (nextid st) (blocks st') with Some nb => [(nextid st, (0, b_area nb))] | None => [] end
  | ORelease id off => release_events c st id off
  | OShrink id off ns =>
    if ns =? 0 then release_events c st id off
    else match find_block id (blocks st) with
         | Some b =>
           let g := pool_gran c (b_pool b) in
           let idx := off / g in
           let prev := span_end b idx - idx in
           let shr := (ns + g - 1) / g in
           if Z.testbit (b_used b) idx && (shr <? prev) then [(id, (idx + shr, prev - shr))] else []
         | None => []
         end
  | OQuery _ _ => []
  | OReset hard =>
    filter (fun e => existsb (fun b => b_id b =? fst e) (blocks (reset c st hard))) (all_live (blocks st))
  end.

(* the byte range of an event inside its block: JitAllocator multiplies by pool->granularity of the block's pool *)
Definition ev_bytes (c : config) (st : state) (e : ev) : option (Z * Z * Z) :=
  match find_block (fst e) (blocks st) with
  | Some b => let g := pool_gran c (b_pool b) in Some (fst e, fst (snd e) * g, snd (snd e) * g)
  | None => None
  end.

Lemma byte_in_granules g s n x : 0 < g -> (s * g <= x < s * g + n * g <-> s <= x / g < s + n).
Proof.
  intros Hg. pose proof (Z.div_mod x g ltac:(lia)). pose proof (Z.mod_pos_bound x g Hg). split; intros; nia.
Qed.

Definition free_gran (st : state) (id k : Z) : Prop :=
  exists b, In b (blocks st) /\ b_id b = id /\ 0 <= k < b_area b /\ ~ covered (b_live b) k.

Definition in_ev (e : ev) (id k : Z) : Prop := fst e = id /\ fst (snd e) <= k < fst (snd e) + snd (snd e).

Lemma find_block_of_in l b : NoDup (map b_id l) -> In b l -> find_block (b_id b) l = Some b.
Proof.
  induction l as [|x r IH]; [intros _ []|]. cbn [map find_block]. intros Hnd. inversion Hnd as [|? ? Hx Hr]; subst.
  intros [<-|Hb]; [rewrite Z.eqb_refl; reflexivity|].
  destruct (Z.eqb_spec (b_id x) (b_id b)) as [E|E]; [|apply IH; assumption].
  exfalso. apply Hx. rewrite E. apply in_map. assumption.
Qed.

Lemma covered_all_live l b k : In b l -> (covered (b_live b) k <-> exists sp, In (b_id b, sp) (all_live l) /\ in_span sp k) \/ True.
Proof. intros; right; exact I. Qed.

Lemma live_of_all_live l b sp : NoDup (map b_id l) -> In b l -> (In (b_id b, sp) (all_live l) <-> In sp (b_live b)).
Proof.
  intros Hnd Hb. rewrite in_all_live. split.
  - intros [b0 [H0 [E Hs]]]. assert (b0 = b) by (apply (nodup_ids_inj l); assumption). subst. assumption.
  - intros Hs. exists b. repeat split; assumption.
Qed.

(* ------------------------------------------------------------------ contents kept *)
Theorem contents_kept c st o : cfg_ok c -> reach c st -> valid_op c st o ->
  forall id sp, In (id, sp) (all_live (blocks st)) -> In (id, sp) (all_live (blocks (fst (step c st o)))) ->
  forall e k, In e (fill_events c st o) -> in_span sp k -> ~ in_ev e id k.
Proof.
  intros Hc R V id sp L0 L1 e k He Hk [Hid Hr].
  pose proof (reach_ginv c st Hc R) as G. destruct G as [GB GI GN GP GC GNid].
  apply in_all_live in L0. destruct L0 as [b [Hb [Hbid Hsp]]].
  pose proof GB as GB'. rewrite Forall_forall in GB'. destruct (GB' b Hb) as (Ib & Pb & Idb).
  destruct o as [size|id0 off|id0 off ns|id0 off|hard]; cbn [step fill_events valid_op] in *.
  - (* alloc: the only event is the fill of a brand new block, whose id no existing block has *)
    destruct (nextid (fst (alloc c st size)) =? nextid st); [destruct He|].
    destruct (find_block (nextid st) (blocks (fst (alloc c st size)))); [|destruct He].
    destruct He as [<-|[]]. cbn [fst] in Hid. lia.
  - (* release *)
    unfold release_events in He. destruct (find_block id0 (blocks st)) as [b0|] eqn:Ef; [|destruct He].
    destruct He as [<-|[]]. cbn [fst snd] in *. subst id0.
    destruct (find_block_in _ _ _ Ef) as [Hb0 Hb0id].
    assert (b0 = b) by (apply (nodup_ids_inj (blocks st)); try assumption; congruence). subst b0.
    destruct (V b Ef) as [n Hin].
    rewrite (span_end_live b _ n (proj1 Ib) Hin) in Hr.
    destruct (release_frame c st id off b _ n Hc R Ef eq_refl Hin) as [_ F].
    apply F in L1. destruct L1 as [_ Hne].
    assert (sp = (off / pool_gran c (b_pool b), n)).
    { apply (bs_disj b (proj1 Ib) sp _ k); try assumption. unfold in_span; cbn; lia. }
    subst sp. apply Hne. reflexivity.
  - (* shrink *)
    destruct V as [V Hns].
    destruct (Z.eqb_spec ns 0) as [E0|E0].
    + unfold release_events in He. destruct (find_block id0 (blocks st)) as [b0|] eqn:Ef; [|destruct He].
      destruct He as [<-|[]]. cbn [fst snd] in *. subst id0.
      destruct (find_block_in _ _ _ Ef) as [Hb0 Hb0id].
      assert (b0 = b) by (apply (nodup_ids_inj (blocks st)); try assumption; congruence). subst b0.
      destruct (V b Ef) as [n Hin].
      rewrite (span_end_live b _ n (proj1 Ib) Hin) in Hr.
      destruct (release_frame c st id off b _ n Hc R Ef eq_refl Hin) as [_ F].
      assert (L1' : In (id, sp) (all_live (blocks (fst (release c st id off))))).
      { unfold shrink in L1. subst ns. cbn in L1. destruct (release c st id off) as [st' r]. destruct r; exact L1. }
      apply F in L1'. destruct L1' as [_ Hne].
      assert (sp = (off / pool_gran c (b_pool b), n)).
      { apply (bs_disj b (proj1 Ib) sp _ k); try assumption. unfold in_span; cbn; lia. }
      subst sp. apply Hne. reflexivity.
    + destruct (find_block id0 (blocks st)) as [b0|] eqn:Ef; [|destruct He].
      destruct (Z.testbit (b_used b0) _ && _) eqn:Et; [|destruct He].
      destruct He as [<-|[]]. cbn [fst snd] in *. subst id0.
      destruct (find_block_in _ _ _ Ef) as [Hb0 Hb0id].
      assert (b0 = b) by (apply (nodup_ids_inj (blocks st)); try assumption; congruence). subst b0.
      destruct (V b Ef) as [n Hin].
      apply andb_true_iff in Et. destruct Et as [_ Et]. apply Z.ltb_lt in Et.
      rewrite (span_end_live b _ n (proj1 Ib) Hin) in Hr, Et.
      set (g := pool_gran c (b_pool b)) in *. set (s := off / g) in *. set (m := (ns + g - 1) / g) in *.
      replace (s + n - s) with n in * by lia.
      assert (Hm1 : 1 <= m) by (apply ceil_ge1; [apply pool_gran_pos; [apply (co_gran c Hc)|lia]|lia]).
      destruct (shrink_frame c st id off ns b s n Hc R Ef eq_refl Hin ltac:(lia)) as (_ & _ & F).
      fold g in F. fold m in F. destruct (F Et) as [_ F'].
      apply F' in L1. destruct L1 as [E|[_ Hne]].
      * inversion E; subst sp.
        assert ((s, m) = (s, n)) as E2.
        { destruct (bs_spans b (proj1 Ib) _ Hsp) as (A & _). cbn in A.
          apply (bs_disj b (proj1 Ib) _ _ s); try assumption; unfold in_span; cbn; lia. }
        inversion E2. lia.
      * assert (sp = (s, n)).
        { apply (bs_disj b (proj1 Ib) sp _ k); try assumption. unfold in_span; cbn; lia. }
        subst sp. apply Hne. reflexivity.
  - destruct He.
  - (* reset: nothing stays live *)
    destruct (reset_clears c st hard Hc R) as (_ & Hnil & _).
    apply in_all_live in L1. destruct L1 as [b1 [Hb1 [_ Hs1]]]. rewrite (proj1 (Hnil b1 Hb1)) in Hs1. destruct Hs1.
Qed.

(* `covered` is decidable (finite list of integer ranges) *)
Lemma classic_covered l k : covered l k \/ ~ covered l k.
Proof.
  induction l as [|sp r IH]; [right; intros [x [[] _]]|].
  destruct IH as [[x [Hx Hi]]|Hn]; [left; exists x; split; [right; assumption|assumption]|].
  destruct (Z_le_dec (fst sp) k), (Z_lt_dec k (fst sp + snd sp));
    [left; exists sp; split; [left; reflexivity|unfold in_span; lia]|..];
    right; intros [x [[<-|Hx] Hi]]; try (unfold in_span in Hi; lia); apply Hn; exists x; split; assumption.
Qed.

(* ------------------------------------------------------------------ fill covers what becomes unused *)
Lemma alloc_live_mono c st size : cfg_ok c -> reach c st ->
  forall x, In x (all_live (blocks st)) -> In x (all_live (blocks (fst (alloc c st size)))).
Proof.
  intros Hc R x Hx. pose proof (reach_ginv c st Hc R) as G. destruct Hc as [Hg Hpools Hbs Hvar]. unfold alloc.
  set (sz := align_up size (c_gran c) mod two64).
  destruct (Z.eqb_spec sz 0) as [E0|E0]; [assumption|].
  destruct (Z.leb_spec 2147483647 (sz - 1)) as [E1|E1]; [assumption|].
  assert (Hsz : 1 <= sz).
  { pose proof (Z.mod_pos_bound (align_up size (c_gran c)) two64 ltac:(reflexivity)) as Hm. fold sz in Hm. lia. }
  set (p := size_to_pool c sz). pose proof (size_to_pool_range c sz Hpools) as Hp. fold p in Hp.
  set (g := pool_gran c p). pose proof (pool_gran_pos c p Hg ltac:(lia)) as Hgp. fold g in Hgp.
  set (n := (sz + g - 1) / g). pose proof (ceil_ge1 sz g Hgp Hsz) as Hn. fold n in Hn.
  rewrite Hvar. destruct G as [GB GI GN GP GC GNid].
  pose proof (try_blocks_live c (nextid st) p n Hn (blocks st) GB) as TL.
  destruct (try_blocks fixed p n (blocks st)) as [bl' [[[id s] we]|]] eqn:Et; cbn [fst snd blocks] in *.
  - apply TL. right. assumption.
  - unfold all_live. rewrite flat_map_app. apply in_or_app. left. fold (all_live bl'). rewrite TL. assumption.
Qed.

(* what happens to a granule k of a span that is live before the operation *)
Lemma span_fate c st o : cfg_ok c -> reach c st -> valid_op c st o ->
  forall id sp k, In (id, sp) (all_live (blocks st)) -> in_span sp k ->
  (exists sp', In (id, sp') (all_live (blocks (fst (step c st o)))) /\ in_span sp' k) \/
  (exists e, In e (fill_events c st o) /\ in_ev e id k) \/
  (forall b', In b' (blocks (fst (step c st o))) -> b_id b' <> id).
Proof.
  intros Hc R V id sp k L0 Hk.
  pose proof (reach_ginv c st Hc R) as G. destruct G as [GB GI GN GP GC GNid].
  pose proof L0 as L0'. apply in_all_live in L0'. destruct L0' as [b [Hb [Hbid Hsp]]].
  pose proof GB as GB'. rewrite Forall_forall in GB'. destruct (GB' b Hb) as (Ib & Pb & Idb).
  destruct o as [size|id0 off|id0 off ns|id0 off|hard]; cbn [step fill_events valid_op fst] in *.
  - left. exists sp. split; [apply alloc_live_mono; assumption|assumption].
  - unfold release_events. destruct (find_block id0 (blocks st)) as [b0|] eqn:Ef.
    + destruct (V b0 Ef) as [n Hin]. destruct (find_block_in _ _ _ Ef) as [Hb0 Hb0id].
      pose proof (GB' b0 Hb0) as (Ib0 & _).
      destruct (release_frame c st id0 off b0 _ n Hc R Ef eq_refl Hin) as [_ F].
      destruct (F (id, sp)) as [_ F2].
      set (s0 := off / pool_gran c (b_pool b0)) in *.
      destruct (Z.eq_dec id id0) as [Ei|Ei].
      * rewrite <- Ei in *. assert (b0 = b) by (apply (nodup_ids_inj (blocks st)); try assumption; congruence). subst b0.
        destruct (bs_spans b (proj1 Ib) _ Hsp) as (A1 & _).
        assert (Hd : sp = (s0, n) \/ sp <> (s0, n)).
        { destruct sp as [a1 a2]. destruct (Z.eq_dec a1 s0), (Z.eq_dec a2 n); [left; congruence|right; congruence..]. }
        destruct Hd as [->|Hne].
        -- right. left. exists (id, (s0, span_end b s0 - s0)). split; [left; reflexivity|].
           rewrite (span_end_live b s0 n (proj1 Ib) Hin). unfold in_ev, in_span in *. cbn in *. lia.
        -- left. exists sp. split; [apply F2; split; [assumption|congruence]|assumption].
      * left. exists sp. split; [apply F2; split; [assumption|congruence]|assumption].
    + left. exists sp. unfold release. rewrite Ef. split; assumption.
  - destruct V as [V Hns]. destruct (Z.eqb_spec ns 0) as [E0|E0].
    + (* shrink to 0 = release *)
      assert (Hst : blocks (fst (shrink c st id0 off ns)) = blocks (fst (release c st id0 off))).
      { unfold shrink. subst ns. cbn. destruct (release c st id0 off) as [st' r]. destruct r; reflexivity. }
      rewrite Hst. unfold release_events. destruct (find_block id0 (blocks st)) as [b0|] eqn:Ef.
      * destruct (V b0 Ef) as [n Hin]. destruct (find_block_in _ _ _ Ef) as [Hb0 Hb0id].
        destruct (release_frame c st id0 off b0 _ n Hc R Ef eq_refl Hin) as [_ F].
        destruct (F (id, sp)) as [_ F2].
        set (s0 := off / pool_gran c (b_pool b0)) in *.
        destruct (Z.eq_dec id id0) as [Ei|Ei].
        -- rewrite <- Ei in *. assert (b0 = b) by (apply (nodup_ids_inj (blocks st)); try assumption; congruence). subst b0.
           assert (Hd : sp = (s0, n) \/ sp <> (s0, n)).
           { destruct sp as [a1 a2]. destruct (Z.eq_dec a1 s0), (Z.eq_dec a2 n); [left; congruence|right; congruence..]. }
           destruct Hd as [->|Hne].
           ++ right. left. exists (id, (s0, span_end b s0 - s0)). split; [left; reflexivity|].
              rewrite (span_end_live b s0 n (proj1 Ib) Hin). unfold in_ev, in_span in *. cbn in *. lia.
           ++ left. exists sp. split; [apply F2; split; [assumption|congruence]|assumption].
        -- left. exists sp. split; [apply F2; split; [assumption|congruence]|assumption].
      * left. exists sp. unfold release. rewrite Ef. split; assumption.
    + destruct (find_block id0 (blocks st)) as [b0|] eqn:Ef.
      * destruct (V b0 Ef) as [n Hin]. destruct (find_block_in _ _ _ Ef) as [Hb0 Hb0id].
        pose proof (GB' b0 Hb0) as (Ib0 & Pb0 & _).
        set (g := pool_gran c (b_pool b0)) in *. set (s0 := off / g) in *.
        pose proof (pool_gran_pos c (b_pool b0) (co_gran c Hc) ltac:(lia)) as Hgp. fold g in Hgp.
        set (m := (ns + g - 1) / g) in *.
        assert (Hm1 : 1 <= m) by (apply ceil_ge1; lia).
        destruct (shrink_frame c st id0 off ns b0 s0 n Hc R Ef eq_refl Hin ltac:(lia)) as (F1 & F2 & F3).
        fold g in F1, F2, F3. fold m in F1, F2, F3.
        rewrite (span_end_live b0 s0 n (proj1 Ib0) Hin). replace (s0 + n - s0) with n by lia.
        assert (Hu : Z.testbit (b_used b0) s0 = true).
        { apply (bs_span_used b0 (s0, n) s0 (proj1 Ib0) Hin). destruct (bs_spans b0 (proj1 Ib0) _ Hin) as (A & _). unfold in_span; cbn in *; lia. }
        rewrite Hu. cbn [andb].
        destruct (Z.lt_trichotomy n m) as [H|[H|H]].
        -- rewrite (F1 H). left. exists sp. split; assumption.
        -- rewrite (F2 (eq_sym H)). left. exists sp. split; assumption.
        -- destruct (F3 H) as [_ F]. replace (m <? n) with true by (symmetry; apply Z.ltb_lt; assumption).
           destruct (Z.eq_dec id id0) as [Ei|Ei].
           ++ rewrite <- Ei in *. assert (b0 = b) by (apply (nodup_ids_inj (blocks st)); try assumption; congruence). subst b0.
              assert (Hd : sp = (s0, n) \/ sp <> (s0, n)).
              { destruct sp as [a1 a2]. destruct (Z.eq_dec a1 s0), (Z.eq_dec a2 n); [left; congruence|right; congruence..]. }
              destruct Hd as [->|Hne].
              ** unfold in_span in Hk. cbn in Hk. destruct (Z.lt_ge_cases k (s0 + m)).
                 --- left. exists (s0, m). split; [apply F; left; reflexivity|unfold in_span; cbn; lia].
                 --- right. left. exists (id, (s0 + m, n - m)). split; [left; reflexivity|unfold in_ev; cbn; lia].
              ** left. exists sp. split; [apply F; right; split; [assumption|congruence]|assumption].
           ++ left. exists sp. split; [apply F; right; split; [assumption|congruence]|assumption].
      * left. exists sp. unfold shrink. replace (ns =? 0) with false by (symmetry; apply Z.eqb_neq; assumption).
        rewrite Ef. split; assumption.
  - left. exists sp. split; assumption.
  - (* reset *)
    destruct (existsb (fun b0 => b_id b0 =? id) (blocks (reset c st hard))) eqn:Ex.
    + right. left. exists (id, sp). split.
      * apply filter_In. split; [assumption|exact Ex].
      * unfold in_ev, in_span in *. cbn. lia.
    + right. right. intros b' Hb' E.
      assert (existsb (fun b0 => b_id b0 =? id) (blocks (reset c st hard)) = true).
      { apply existsb_exists. exists b'. split; [assumption|apply Z.eqb_eq; assumption]. }
      congruence.
Qed.

Lemma forall2_in_r' {A B} (R : A -> B -> Prop) l l' y : Forall2 R l l' -> In y l' -> exists x, In x l /\ R x y.
Proof.
  induction 1 as [|a b l l' Hab H IH]; [intros []|]. intros [<-|Hy].
  - exists a. split; [left; reflexivity|assumption].
  - destruct (IH Hy) as [x [Hx Hr]]. exists x. split; [right; assumption|assumption].
Qed.

(* where the blocks of the next state come from *)
Lemma step_blocks c st o : cfg_ok c -> reach c st -> valid_op c st o ->
  forall b', In b' (blocks (fst (step c st o))) ->
  (exists b, In b (blocks st) /\ same_geom b b') \/
  (b_id b' = nextid st /\ nextid (fst (step c st o)) <> nextid st).
Proof.
  intros Hc R V b' Hb'. pose proof (reach_ginv c st Hc R) as G.
  assert (Hsame : In b' (blocks st) -> (exists b, In b (blocks st) /\ same_geom b b') \/
                                       (b_id b' = nextid st /\ nextid (fst (step c st o)) <> nextid st)).
  { intros H. left. exists b'. split; [assumption|apply same_geom_refl]. }
  destruct o as [size|id off|id off ns|id off|hard]; cbn [step valid_op fst] in *.
  - destruct Hc as [Hg Hpools Hbs Hvar]. unfold alloc in *.
    set (sz := align_up size (c_gran c) mod two64) in *.
    destruct (Z.eqb_spec sz 0) as [E0|E0]; [apply Hsame; assumption|].
    destruct (Z.leb_spec 2147483647 (sz - 1)) as [E1|E1]; [apply Hsame; assumption|].
    assert (Hsz : 1 <= sz).
    { pose proof (Z.mod_pos_bound (align_up size (c_gran c)) two64 ltac:(reflexivity)) as Hm. fold sz in Hm. lia. }
    set (p := size_to_pool c sz) in *. pose proof (size_to_pool_range c sz Hpools) as Hp. fold p in Hp.
    set (g := pool_gran c p) in *. pose proof (pool_gran_pos c p Hg ltac:(lia)) as Hgp. fold g in Hgp.
    set (n := (sz + g - 1) / g) in *. pose proof (ceil_ge1 sz g Hgp Hsz) as Hn. fold n in Hn.
    rewrite Hvar in *. destruct G as [GB GI GN GP GC GNid].
    pose proof (try_blocks_ok c (nextid st) p n Hn (blocks st) GB) as (F' & G' & W).
    destruct (try_blocks fixed p n (blocks st)) as [bl' [[[id s] we]|]] eqn:Et; cbn [fst snd blocks nextid] in *.
    + left. destruct (forall2_in_r' _ _ _ b' G' Hb') as [b [Hb Hgm]]. exists b. split; assumption.
    + apply in_app_or in Hb'. destruct Hb' as [Hb'|[<-|[]]].
      * left. destruct (forall2_in_r' _ _ _ b' G' Hb') as [b [Hb Hgm]]. exists b. split; assumption.
      * right. split; [|lia].
        unfold new_block_alloc, mark_allocated. cbn. destruct (_ =? 0); reflexivity.
  - unfold release in *. destruct (find_block id (blocks st)) as [b|] eqn:Ef; [|apply Hsame; assumption].
    destruct (find_block_in _ _ _ Ef) as [Hbin _].
    set (bm := mark_released (c_var c) b (off / pool_gran c (b_pool b)) (span_end b (off / pool_gran c (b_pool b)))) in *.
    assert (Hgm : same_geom b bm).
    { unfold bm, mark_released, same_geom. destruct (b_incr b && _); [|destruct (_ =? b_pad b)]; cbn; repeat split; reflexivity. }
    destruct (b_empty bm); [destruct (_ || _)|]; cbn [fst blocks] in Hb'.
    + apply remove_block_in in Hb'. apply Hsame; assumption.
    + apply replace_block_in in Hb'. destruct Hb' as [->|H]; [left; exists b; split; assumption|apply Hsame; assumption].
    + apply replace_block_in in Hb'. destruct Hb' as [->|H]; [left; exists b; split; assumption|apply Hsame; assumption].
  - unfold shrink in *. destruct (ns =? 0).
    + assert (HR : In b' (blocks (fst (release c st id off)))).
      { destruct (release c st id off) as [st' r]. destruct r; exact Hb'. }
      clear Hb'. unfold release in HR. destruct (find_block id (blocks st)) as [b|] eqn:Ef; [|left; exists b'; split; [assumption|apply same_geom_refl]].
      destruct (find_block_in _ _ _ Ef) as [Hbin _].
      set (bm := mark_released (c_var c) b (off / pool_gran c (b_pool b)) (span_end b (off / pool_gran c (b_pool b)))) in *.
      assert (Hgm : same_geom b bm).
      { unfold bm, mark_released, same_geom. destruct (b_incr b && _); [|destruct (_ =? b_pad b)]; cbn; repeat split; reflexivity. }
      left. destruct (b_empty bm); [destruct (_ || _)|]; cbn [fst blocks] in HR.
      * apply remove_block_in in HR. exists b'. split; [assumption|apply same_geom_refl].
      * apply replace_block_in in HR. destruct HR as [->|H]; [exists b; split; assumption|exists b'; split; [assumption|apply same_geom_refl]].
      * apply replace_block_in in HR. destruct HR as [->|H]; [exists b; split; assumption|exists b'; split; [assumption|apply same_geom_refl]].
    + destruct (find_block id (blocks st)) as [b|] eqn:Ef; [|apply Hsame; assumption].
      destruct (find_block_in _ _ _ Ef) as [Hbin _].
      destruct (negb _); [apply Hsame; assumption|].
      destruct (_ <? _); [apply Hsame; assumption|].
      destruct (_ =? 0); [apply Hsame; assumption|]. cbn [fst blocks] in Hb'.
      apply replace_block_in in Hb'. destruct Hb' as [->|H]; [|apply Hsame; assumption].
      left. exists b. split; [assumption|]. unfold mark_shrunk, same_geom. destruct (b_incr b && _); cbn; repeat split; reflexivity.
  - apply Hsame; assumption.
  - left. unfold reset in Hb'.
    assert (RI : forall ps p x, In x (fst (reset_pools (negb hard && negb (c_imm c)) (blocks st) ps p)) -> exists b, In b (blocks st) /\ x = wipe_block b).
    { induction ps as [|pl r IH]; intros p x H; cbn [reset_pools] in H; [destruct H|].
      specialize (IH (p + 1) x). destruct (reset_pools _ (blocks st) r (p + 1)) as [bl_r ps_r]. cbn [fst] in *.
      destruct (first_of_pool p (blocks st)) as [b|] eqn:Ef; [|apply IH; assumption].
      destruct (negb hard && negb (c_imm c)); [|apply IH; assumption].
      destruct H as [<-|H]; [|apply IH; assumption].
      exists b. split; [apply (first_of_pool_some _ _ _ Ef)|reflexivity]. }
    specialize (RI (pools st) 0 b'). destruct (reset_pools _ _ _ _) as [bl ps]. cbn [fst blocks] in *.
    destruct (RI Hb') as [b [Hb ->]]. exists b. split; [assumption|].
    unfold wipe_block, same_geom, clear_block. destruct (b_empty b); cbn; repeat split; reflexivity.
Qed.

Theorem fill_covers c st o : cfg_ok c -> reach c st -> valid_op c st o ->
  forall id k, free_gran (fst (step c st o)) id k ->
  free_gran st id k \/ exists e, In e (fill_events c st o) /\ in_ev e id k.
Proof.
  intros Hc R V id k (b' & Hb' & Hid & Hk & Hnc).
  pose proof (reach_ginv c st Hc R) as G.
  pose proof (reach_step c st o R V) as R'. pose proof (reach_ginv c _ Hc R') as G'.
  destruct (step_blocks c st o Hc R V b' Hb') as [[b [Hb Hgm]]|[Hnew Hnid]].
  - destruct Hgm as (g1 & g2 & g3 & g4 & g5).
    destruct (classic_covered (b_live b) k) as [Hcov|Hncov].
    + destruct Hcov as [sp [Hsp Hin]].
      assert (L0 : In (id, sp) (all_live (blocks st))) by (apply in_all_live; exists b; repeat split; try assumption; congruence).
      destruct (span_fate c st o Hc R V id sp k L0 Hin) as [[sp' [L1 Hin']]|[He|Hno]].
      * exfalso. apply Hnc. exists sp'. split; [|assumption].
        rewrite <- Hid in L1. apply (live_of_all_live _ b' sp' (g_ids c _ G') Hb'). assumption.
      * right. assumption.
      * exfalso. apply (Hno b' Hb'). assumption.
    + left. exists b. repeat split; try assumption; try congruence; lia.
  - (* a new block: filled as a whole *)
    right. destruct o as [size| | | |]; cbn [step fst fill_events] in *; try (exfalso; apply Hnid; reflexivity || fail).
    + replace (nextid (fst (alloc c st size)) =? nextid st) with false by (symmetry; apply Z.eqb_neq; assumption).
      rewrite <- Hnew. rewrite (find_block_of_in _ b' (g_ids c _ G') Hb').
      exists (b_id b', (0, b_area b')). split; [left; reflexivity|]. unfold in_ev. cbn. split; [congruence|lia].
    + exfalso. apply Hnid. unfold release. destruct (find_block _ _); [|reflexivity].
      destruct (b_empty _); [destruct (_ || _)|]; reflexivity.
    + exfalso. apply Hnid. unfold shrink, release. destruct (_ =? 0).
      * destruct (find_block _ _); [|reflexivity]. destruct (b_empty _); [destruct (_ || _)|]; reflexivity.
      * destruct (find_block _ _); [|reflexivity]. destruct (negb _); [reflexivity|]. destruct (_ <? _); [reflexivity|].
        destruct (_ =? 0); reflexivity.
    + exfalso. apply Hnid. unfold reset. destruct (reset_pools _ _ _ _). reflexivity.
Qed.

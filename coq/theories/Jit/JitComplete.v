(* C09 — completeness directions and frame conditions:
   * alloc answers Ok exactly for the sizes whose granularity-rounded value lies in [1, 2^31 - 1] (virtual memory permitting),
     InvalidArgument for 0 and TooLarge beyond — with the exact classification of every size;
   * release / shrink touch no block other than the one the pointer belongs to (every other block record is untouched,
     bit vectors, search cache and flags included); alloc leaves the used/stop bits, counters and live spans of every block
     it does not allocate from untouched (only their search cache may be refreshed). *)
From Coq Require Import ZArith List Bool Lia Znumtheory.
From Verif Require Import Jit.JitModel Jit.JitBits Jit.JitBlockProofs Jit.JitProofs Jit.JitFill.
Import ListNotations.
Local Open Scope Z_scope.

Definition rounded (c : config) (size : Z) : Z := align_up size (c_gran c) mod two64.

Theorem alloc_classification c st size :
  let sz := rounded c size in
  (sz = 0 -> alloc c st size = (st, RAlloc InvalidArgument 0 0 0)) /\
  (2147483647 <= sz - 1 -> sz <> 0 -> alloc c st size = (st, RAlloc TooLarge 0 0 0)) /\
  (1 <= sz <= 2147483647 -> exists st' id off, alloc c st size = (st', RAlloc Ok id off sz)).
Proof.
  cbn zeta. unfold rounded, alloc.
  set (sz := align_up size (c_gran c) mod two64).
  pose proof (Z.mod_pos_bound (align_up size (c_gran c)) two64 ltac:(reflexivity)) as Hm. fold sz in Hm.
  splits.
  - intros ->. reflexivity.
  - intros H Hn. destruct (Z.eqb_spec sz 0); [contradiction|]. destruct (Z.leb_spec 2147483647 (sz - 1)); [reflexivity|lia].
  - intros H. destruct (Z.eqb_spec sz 0); [lia|]. destruct (Z.leb_spec 2147483647 (sz - 1)); [lia|].
    destruct (try_blocks _ _ _ _) as [bl' [[[i s] w]|]]; eexists _, _, _; reflexivity.
Qed.

(* release / shrink: every block with another id is literally unchanged and still there *)
Theorem release_frame_blocks c st id off :
  forall b', In b' (blocks st) -> b_id b' <> id -> In b' (blocks (fst (release c st id off))).
Proof.
  intros b' Hb' Hne. unfold release. destruct (find_block id (blocks st)) as [b|] eqn:Ef; [|assumption].
  destruct (find_block_in _ _ _ Ef) as [_ Hid].
  set (bm := mark_released _ _ _ _).
  assert (Hbm : b_id bm = id).
  { unfold bm, mark_released. destruct (b_incr b && _); [|destruct (_ =? b_pad b)]; cbn; assumption. }
  assert (Hrep : forall l, In b' l -> In b' (replace_block bm l)).
  { induction l as [|x r IH]; [intros []|]. cbn [replace_block]. intros [->|H].
    - destruct (Z.eqb_spec (b_id b') (b_id bm)); [congruence|left; reflexivity].
    - destruct (b_id x =? b_id bm); [right; assumption|right; apply IH; assumption]. }
  assert (Hrem : forall l, In b' l -> In b' (remove_block id l)).
  { induction l as [|x r IH]; [intros []|]. cbn [remove_block]. intros [->|H].
    - destruct (Z.eqb_spec (b_id b') id); [contradiction|left; reflexivity].
    - destruct (b_id x =? id); [assumption|right; apply IH; assumption]. }
  destruct (b_empty bm); [destruct (_ || _)|]; cbn [fst blocks]; [apply Hrem|apply Hrep|apply Hrep]; assumption.
Qed.

Theorem shrink_frame_blocks c st id off ns :
  forall b', In b' (blocks st) -> b_id b' <> id -> In b' (blocks (fst (shrink c st id off ns))).
Proof.
  intros b' Hb' Hne. unfold shrink. destruct (ns =? 0).
  - pose proof (release_frame_blocks c st id off b' Hb' Hne) as H.
    destruct (release c st id off) as [st1 r]. destruct r; exact H.
  - destruct (find_block id (blocks st)) as [b|] eqn:Ef; [|assumption].
    destruct (find_block_in _ _ _ Ef) as [_ Hid].
    destruct (negb _); [assumption|]. destruct (_ <? _); [assumption|]. destruct (_ =? 0); [assumption|]. cbn [fst blocks].
    set (bm := mark_shrunk _ _ _ _).
    assert (Hbm : b_id bm = id) by (unfold bm, mark_shrunk; destruct (b_incr b && _); cbn; assumption).
    clear -Hb' Hne Hbm. induction (blocks st) as [|x r IH]; [destruct Hb'|]. cbn [replace_block]. destruct Hb' as [->|H].
    + destruct (Z.eqb_spec (b_id b') (b_id bm)); [congruence|left; reflexivity].
    + destruct (b_id x =? b_id bm); [right; assumption|right; apply IH; assumption].
Qed.

(* alloc: a block the span was not taken from keeps its bit vectors, counters, flags empty, live spans and geometry *)
Definition same_content (b b' : block) : Prop :=
  same_geom b b' /\ b_used b' = b_used b /\ b_stop b' = b_stop b /\ b_aused b' = b_aused b /\ b_live b' = b_live b /\ b_empty b' = b_empty b.

Lemma block_alloc_none_content v b n : snd (block_alloc v b n) = None -> same_content b (fst (block_alloc v b n)).
Proof.
  unfold block_alloc, block_try.
  destruct (b_incr b && (n <=? b_largest b)); [cbn; discriminate|].
  destruct (n <=? b_area b - b_aused b); [|cbn; intros _; repeat split].
  destruct (b_dirty b || (n <=? b_largest b)); [|cbn; intros _; repeat split].
  destruct (scan _ _ _ _); cbn; [discriminate| |]; intros _; repeat split.
Qed.

Lemma try_blocks_frame v p n : forall l b, In b l ->
  match snd (try_blocks v p n l) with
  | Some (id, _, _) => b_id b = id \/ exists b', In b' (fst (try_blocks v p n l)) /\ same_content b b'
  | None => exists b', In b' (fst (try_blocks v p n l)) /\ same_content b b'
  end.
Proof.
  assert (Hrefl : forall x, same_content x x) by (intros; repeat split).
  induction l as [|x r IH]; intros b Hb; [destruct Hb|]. cbn [try_blocks].
  destruct (b_pool x =? p).
  - pose proof (block_alloc_none_content v x n) as BN.
    destruct (block_alloc v x n) as [x' [s|]] eqn:E; cbn [fst snd] in *.
    + destruct Hb as [<-|Hb]; [left; reflexivity|right; exists b; split; [right; assumption|apply Hrefl]].
    + specialize (BN eq_refl).
      destruct (try_blocks v p n r) as [r' res] eqn:Er. cbn [fst snd] in *.
      destruct Hb as [<-|Hb].
      * destruct res as [[[id s] w]|]; [right|]; exists x'; (split; [left; reflexivity|assumption]).
      * specialize (IH b Hb). destruct res as [[[id s] w]|].
        -- destruct IH as [IH|[b' [Hb' Hc]]]; [left; assumption|right; exists b'; split; [right; assumption|assumption]].
        -- destruct IH as [b' [Hb' Hc]]. exists b'. split; [right; assumption|assumption].
  - destruct (try_blocks v p n r) as [r' res] eqn:Er. cbn [fst snd] in *.
    destruct Hb as [<-|Hb].
    + destruct res as [[[id s] w]|]; [right|]; exists x; (split; [left; reflexivity|apply Hrefl]).
    + specialize (IH b Hb). destruct res as [[[id s] w]|].
      * destruct IH as [IH|[b' [Hb' Hc]]]; [left; assumption|right; exists b'; split; [right; assumption|assumption]].
      * destruct IH as [b' [Hb' Hc]]. exists b'. split; [right; assumption|assumption].
Qed.

Theorem alloc_frame_blocks c st size st' id off len :
  alloc c st size = (st', RAlloc Ok id off len) ->
  forall b, In b (blocks st) -> b_id b <> id -> exists b', In b' (blocks st') /\ same_content b b'.
Proof.
  intros HA b Hb Hne. unfold alloc in HA.
  destruct (_ =? 0); [inversion HA|]. destruct (_ <=? _); [inversion HA|].
  match type of HA with context [try_blocks ?v ?p ?n ?l] => pose proof (try_blocks_frame v p n l b Hb) as TF;
    destruct (try_blocks v p n l) as [bl' [[[i s] w]|]] end; cbn [fst snd] in *; inversion HA; subst; cbn [blocks].
  - destruct TF as [E|H]; [contradiction|assumption].
  - destruct TF as [b' [Hb' Hc]]. exists b'. split; [apply in_or_app; left; assumption|assumption].
Qed.

(* alloc only looks at the rounded size: for a granularity that divides 2^64 (every power of two) the hypotheses
   "0 <= size, no wrap-around" of alloc_result / alloc_frame can be dropped *)
Lemma align_up_fix x a : 0 < a -> x mod a = 0 -> align_up x a = x.
Proof.
  intros Ha Hm. unfold align_up. pose proof (Z.div_mod x a ltac:(lia)) as D. rewrite Hm in D.
  replace (x + a - 1) with (x / a * a + (a - 1)) by lia. rewrite Z.div_add_l by lia. rewrite (Z.div_small (a - 1) a) by lia. lia.
Qed.

Lemma rounded_mod c size : 0 < c_gran c -> (c_gran c | two64) -> rounded c size mod c_gran c = 0.
Proof.
  intros Hg Hd. unfold rounded.
  pose proof (align_up_mod size (c_gran c) Hg) as A.
  rewrite <- (Zmod_div_mod (c_gran c) two64 (align_up size (c_gran c)) Hg ltac:(reflexivity) Hd). assumption.
Qed.

Lemma alloc_rounded c st size : 0 < c_gran c -> (c_gran c | two64) -> alloc c st size = alloc c st (rounded c size).
Proof.
  intros Hg Hd. unfold alloc.
  assert (E : align_up (rounded c size) (c_gran c) mod two64 = align_up size (c_gran c) mod two64).
  { rewrite (align_up_fix (rounded c size)) by (try assumption; apply rounded_mod; assumption).
    unfold rounded. apply Z.mod_mod. unfold two64. lia. }
  rewrite E. reflexivity.
Qed.

Theorem alloc_result_any_size c st size st' id off len :
  cfg_ok c -> (c_gran c | two64) -> reach c st ->
  alloc c st size = (st', RAlloc Ok id off len) ->
  len = rounded c size /\ 1 <= len <= 2147483647 /\ len mod c_gran c = 0 /\
  exists b, In b (blocks st') /\ b_id b = id /\ b_pool b = size_to_pool c len /\
            off mod pool_gran c (b_pool b) = 0 /\ len mod pool_gran c (b_pool b) = 0 /\
            In (off / pool_gran c (b_pool b), len / pool_gran c (b_pool b)) (b_live b) /\
            (nextid st' <> nextid st ->
             forall b0, In b0 (blocks st) -> b_pool b0 = b_pool b -> no_room b0 (len / pool_gran c (b_pool b))).
Proof.
  intros Hc Hd R HA. pose proof (co_gran c Hc) as Hg.
  destruct (alloc_classification c st size) as (C1 & C2 & C3). cbn zeta in *.
  pose proof (Z.mod_pos_bound (align_up size (c_gran c)) two64 ltac:(reflexivity)) as Hm. fold (rounded c size) in Hm.
  assert (Hrange : 1 <= rounded c size <= 2147483647).
  { destruct (Z.eq_dec (rounded c size) 0) as [E|E]; [rewrite (C1 E) in HA; inversion HA|].
    destruct (Z.le_gt_cases 2147483647 (rounded c size - 1)) as [H|H]; [rewrite (C2 H E) in HA; inversion HA|lia]. }
  destruct (C3 Hrange) as (st1 & id1 & off1 & E3). rewrite E3 in HA. inversion HA; subst st1 id1 off1 len. clear HA.
  rewrite (alloc_rounded c st size Hg Hd) in E3.
  pose proof (rounded_mod c size Hg Hd) as Hmod.
  assert (Hgle : c_gran c <= rounded c size).
  { pose proof (Z.div_mod (rounded c size) (c_gran c) ltac:(lia)) as D. rewrite Hmod in D.
    assert (1 <= rounded c size / c_gran c) by (destruct (Z.le_gt_cases 1 (rounded c size / c_gran c)); [assumption|nia]). nia. }
  destruct (alloc_result c st (rounded c size) st' id off (rounded c size) Hc R ltac:(lia) ltac:(unfold two64; lia) E3)
    as (L1 & L2 & Hex).
  splits; try reflexivity; try lia; assumption.
Qed.

(* reset, exactly: the blocks that survive a soft reset (no kImmediateRelease) are the wiped first blocks of the pools, nothing else *)
Lemma reset_pools_blocks bl : forall ps p b',
  In b' (fst (reset_pools true bl ps p)) <->
  exists q b, p <= q < p + Z.of_nat (length ps) /\ first_of_pool q bl = Some b /\ b' = wipe_block b.
Proof.
  induction ps as [|pl r IH]; intros p b'; cbn [reset_pools length].
  - cbn. split; [intros []|intros (q & b & H & _); lia].
  - specialize (IH (p + 1) b'). destruct (reset_pools true bl r (p + 1)) as [bl_r ps_r]. cbn [fst] in IH.
    destruct (first_of_pool p bl) as [b|] eqn:Ef; cbn [fst].
    + split.
      * intros [<-|H]; [exists p, b; splits; try lia; [assumption|reflexivity]|].
        apply IH in H. destruct H as (q & b0 & Hq & Hf & E). exists q, b0. splits; try lia; assumption.
      * intros (q & b0 & Hq & Hf & E). destruct (Z.eq_dec q p) as [->|Hne].
        -- left. rewrite Ef in Hf. inversion Hf; subst. reflexivity.
        -- right. apply IH. exists q, b0. splits; try lia; assumption.
    + rewrite IH. split; intros (q & b0 & Hq & Hf & E).
      * exists q, b0. splits; try lia; assumption.
      * destruct (Z.eq_dec q p) as [->|Hne]; [rewrite Ef in Hf; discriminate|]. exists q, b0. splits; try lia; assumption.
Qed.

Theorem reset_exact c st : cfg_ok c -> reach c st -> c_imm c = false ->
  forall b', In b' (blocks (reset c st false)) <->
             exists q b, 0 <= q < c_pools c /\ first_of_pool q (blocks st) = Some b /\ b' = wipe_block b.
Proof.
  intros Hc R Himm b'. pose proof (reach_ginv c st Hc R) as G.
  unfold reset. rewrite Himm. cbn [negb andb].
  pose proof (reset_pools_blocks (blocks st) (pools st) 0 b') as RB.
  destruct (reset_pools true (blocks st) (pools st) 0) as [bl ps]. cbn [fst blocks] in *.
  rewrite RB. rewrite Z.add_0_l, (g_npools c st G). reflexivity.
Qed.

(* C09 x C10 — JitRuntime::_add / _release on top of the allocator model.
   _add: flatten + code_size (C10's `jit_add`: error, final size n, installed image), alloc(n), the write callback copies
   the image to the start of the span and calls span.shrink(n) (JitAllocator::write then shrinks the span to n bytes — a
   no-op on granules), the span's rx is the function pointer.  _release: JitAllocator::release.
   `r_code` is the ghost memory: which image was installed into which span (block id, (start granule, granules)). *)
From Coq Require Import ZArith List Bool.
From Verif Require Import Sections.SectionModel Jit.JitModel.
Import ListNotations.
Local Open Scope Z_scope.

Definition centry := (Z * (Z * Z) * list Z)%type.     (* block id, (start granule, granules), installed bytes *)
Record rstate := mkR { r_st : state; r_code : list centry }.

Definition rt_add (c : config) (rs : rstate) (h : holder) (fill : Z) : rstate * option (Z * Z) :=
  match jit_add h fill with
  | (EOk, n, img, _) =>
    match alloc c (r_st rs) n with
    | (st', RAlloc Ok id off len) =>
      let g := pool_gran c (size_to_pool c len) in
      let st'' := fst (shrink c st' id off n) in
      (mkR st'' ((id, (off / g, len / g), img) :: r_code rs), Some (id, off))
    | (st', _) => (mkR st' (r_code rs), None)
    end
  | _ => (rs, None)
  end.

Definition same_key (id s : Z) (e : centry) : bool := (fst (fst e) =? id) && (fst (snd (fst e)) =? s).

Definition rt_release (c : config) (rs : rstate) (id off : Z) : rstate * result :=
  let g := match find_block id (blocks (r_st rs)) with Some b => pool_gran c (b_pool b) | None => 1 end in
  let '(st', r) := release c (r_st rs) id off in
  (mkR st' (match r with
            | RRelease Ok _ _ => filter (fun e => negb (same_key id (off / g) e)) (r_code rs)
            | _ => r_code rs
            end), r).

(* C09 — `pool->cursor` always is the first block of its pool; therefore the ring walk of alloc is the list order and the
   cursor-explicit semantics `cstep` coincides with `step` (the model all theorems are about). *)
From Coq Require Import ZArith List Bool Lia.
From Verif Require Import Jit.JitModel Jit.JitBits Jit.JitBlockProofs Jit.JitProofs Jit.JitCursorModel.
Import ListNotations.
Local Open Scope Z_scope.

Definition first_id (p : Z) (l : list block) : option Z := option_map b_id (first_of_pool p l).

Record Cinv (c : config) (cs : cstate) : Prop := {
  ci_len : Z.of_nat (length (cs_cur cs)) = c_pools c;
  ci_first : forall p, 0 <= p < c_pools c -> get_cur cs p = first_id p (blocks (cs_st cs)) }.

Lemma try_blocks_nopool v p n l : (forall b, In b l -> b_pool b <> p) -> try_blocks v p n l = (l, None).
Proof.
  induction l as [|b r IH]; intros H; [reflexivity|]. cbn [try_blocks].
  destruct (Z.eqb_spec (b_pool b) p) as [E|E]; [exfalso; apply (H b (or_introl eq_refl) E)|].
  rewrite IH; [reflexivity|]. intros x Hx. apply H. right; assumption.
Qed.

Lemma try_blocks_app v p n pre post : (forall b, In b pre -> b_pool b <> p) ->
  try_blocks v p n (pre ++ post) = (pre ++ fst (try_blocks v p n post), snd (try_blocks v p n post)).
Proof.
  induction pre as [|b r IH]; intros H; cbn [app].
  - destruct (try_blocks v p n post); reflexivity.
  - cbn [try_blocks]. destruct (Z.eqb_spec (b_pool b) p) as [E|E]; [exfalso; apply (H b (or_introl eq_refl) E)|].
    rewrite IH by (intros x Hx; apply H; right; assumption). reflexivity.
Qed.

Lemma first_of_pool_none p l : first_of_pool p l = None -> forall b, In b l -> b_pool b <> p.
Proof.
  induction l as [|x r IH]; cbn; [intros _ b []|].
  destruct (Z.eqb_spec (b_pool x) p) as [E|E]; [discriminate|].
  intros H b [<-|Hb]; [assumption|apply IH; assumption].
Qed.

Lemma split_at_first p l b : NoDup (map b_id l) -> first_of_pool p l = Some b ->
  exists pre post, split_at (b_id b) l = (pre, post) /\ l = pre ++ post /\ (forall x, In x pre -> b_pool x <> p) /\
                   exists t, post = b :: t.
Proof.
  induction l as [|x r IH]; cbn [first_of_pool split_at map]; [discriminate|].
  intros Hnd. inversion Hnd as [|? ? Hx Hr]; subst.
  destruct (Z.eqb_spec (b_pool x) p) as [E|E].
  - intros [= <-]. rewrite Z.eqb_refl. exists [], (x :: r). splits; try reflexivity; [intros y []|exists r; reflexivity].
  - intros Hf. destruct (first_of_pool_some _ _ _ Hf) as [Hbin _].
    destruct (Z.eqb_spec (b_id x) (b_id b)) as [Ei|Ei]; [exfalso; apply Hx; rewrite Ei; apply in_map; assumption|].
    destruct (IH Hr Hf) as (pre & post & S1 & S2 & S3 & S4). rewrite S1.
    exists (x :: pre), post. splits; try reflexivity; try assumption.
    + cbn. rewrite <- S2. reflexivity.
    + intros y [<-|Hy]; [assumption|apply S3; assumption].
Qed.

Lemma try_ring_eq v p n l : NoDup (map b_id l) ->
  try_ring v p n l (first_id p l) = try_blocks v p n l.
Proof.
  intros Hnd. unfold try_ring, first_id. destruct (first_of_pool p l) as [b|] eqn:Ef; cbn [option_map].
  - destruct (split_at_first p l b Hnd Ef) as (pre & post & S1 & S2 & S3 & _). rewrite S1.
    rewrite S2. rewrite (try_blocks_app v p n pre post S3).
    destruct (try_blocks v p n post) as [post' [r|]]; cbn [fst snd]; [reflexivity|].
    rewrite (try_blocks_nopool v p n pre S3). reflexivity.
  - symmetry. apply try_blocks_nopool. apply first_of_pool_none. assumption.
Qed.

Lemma first_id_geom p l l' : Forall2 same_geom l l' -> first_id p l' = first_id p l.
Proof.
  unfold first_id. induction 1 as [|b b' l l' G H IH]; [reflexivity|]. cbn [first_of_pool].
  destruct G as (g1 & g2 & _). rewrite g2. destruct (b_pool b =? p); cbn; [rewrite g1; reflexivity|assumption].
Qed.

Lemma first_id_app p l nb : first_id p (l ++ [nb]) =
  match first_id p l with Some x => Some x | None => if b_pool nb =? p then Some (b_id nb) else None end.
Proof.
  unfold first_id. induction l as [|b r IH]; cbn [app first_of_pool].
  - destruct (b_pool nb =? p); reflexivity.
  - destruct (b_pool b =? p); [reflexivity|assumption].
Qed.

Lemma first_id_replace p l b b' : find_block (b_id b') l = Some b -> b_pool b' = b_pool b ->
  first_id p (replace_block b' l) = first_id p l.
Proof.
  unfold first_id. induction l as [|x r IH]; cbn [find_block replace_block]; [discriminate|].
  destruct (Z.eqb_spec (b_id x) (b_id b')) as [E|E].
  - intros [= <-] Hp. cbn [first_of_pool]. rewrite Hp. destruct (b_pool x =? p); cbn; [rewrite E; reflexivity|reflexivity].
  - intros Hf Hp. cbn [first_of_pool]. destruct (b_pool x =? p); [reflexivity|apply IH; assumption].
Qed.

Lemma first_id_remove_other p l b id : find_block id l = Some b -> b_pool b <> p ->
  first_id p (remove_block id l) = first_id p l.
Proof.
  unfold first_id. induction l as [|x r IH]; cbn [find_block remove_block]; [discriminate|].
  destruct (Z.eqb_spec (b_id x) id) as [E|E].
  - intros [= <-] Hp. cbn [first_of_pool]. replace (b_pool x =? p) with false by (symmetry; apply Z.eqb_neq; assumption). reflexivity.
  - intros Hf Hp. cbn [first_of_pool]. destruct (b_pool x =? p); [reflexivity|apply IH; assumption].
Qed.

(* removing a block of pool p: the new first block is the old one unless that was removed, in which case it is its
   successor; the removed first block has no predecessor *)
Lemma first_id_remove_same l b id : NoDup (map b_id l) -> find_block id l = Some b ->
  let p := b_pool b in
  first_id p (remove_block id l) =
  (if match first_id p l with Some cid => cid =? id | None => false end
   then match prev_in_pool p id l None with Some x => Some x | None => next_in_pool p id l end
   else first_id p l).
Proof.
  intros Hnd Hf p. subst p. unfold first_id. revert Hnd Hf.
  induction l as [|x r IH]; cbn [find_block remove_block map]; [discriminate|].
  intros Hnd Hf. inversion Hnd as [|? ? Hx Hr]; subst.
  destruct (Z.eqb_spec (b_id x) id) as [E|E].
  - inversion Hf; subst x. cbn [first_of_pool prev_in_pool next_in_pool]. rewrite Z.eqb_refl. cbn [option_map].
    replace (b_id b =? id) with true by (symmetry; apply Z.eqb_eq; assumption). reflexivity.
  - cbn [first_of_pool prev_in_pool next_in_pool].
    replace (b_id x =? id) with false by (symmetry; apply Z.eqb_neq; assumption).
    destruct (Z.eqb_spec (b_pool x) (b_pool b)) as [Ep|Ep]; cbn [option_map].
    + replace (b_id x =? id) with false by (symmetry; apply Z.eqb_neq; assumption). reflexivity.
    + apply IH; assumption.
Qed.

Lemma get_set_cur_same l p x : 0 <= p < Z.of_nat (length l) -> nth (Z.to_nat p) (set_cur l p x) None = x.
Proof. intros H. unfold set_cur. apply nth_upd_nth_same. lia. Qed.

Lemma get_set_cur_other l p q x : 0 <= p -> 0 <= q -> p <> q -> nth (Z.to_nat q) (set_cur l p x) None = nth (Z.to_nat q) l None.
Proof. intros Hp Hq H. unfold set_cur. apply nth_upd_nth_other. lia. Qed.

Lemma set_cur_length l p x : length (set_cur l p x) = length l.
Proof. apply upd_nth_length. Qed.

Lemma nth_reset_cursors bl : forall n p0 k, (k < n)%nat ->
  nth k (reset_cursors bl n p0) None = first_id (p0 + Z.of_nat k) bl.
Proof.
  induction n as [|n IH]; intros p0 k Hk; [lia|]. cbn [reset_cursors]. destruct k as [|k]; cbn [nth].
  - rewrite Z.add_0_r. reflexivity.
  - rewrite IH by lia. f_equal. lia.
Qed.

Lemma reset_cursors_length bl : forall n p0, length (reset_cursors bl n p0) = n.
Proof. induction n; intros; cbn; [reflexivity|rewrite IHn; reflexivity]. Qed.

Lemma find_block_remove_none l id : NoDup (map b_id l) -> find_block id (remove_block id l) = None.
Proof.
  intros Hnd. destruct (find_block id (remove_block id l)) as [x|] eqn:E; [|reflexivity]. exfalso.
  destruct (find_block_in _ _ _ E) as [Hx Hid]. apply (in_remove_block _ _ _ Hnd) in Hx. destruct Hx. contradiction.
Qed.

Lemma find_block_replace l b b' : find_block (b_id b') l = Some b -> find_block (b_id b') (replace_block b' l) = Some b'.
Proof.
  induction l as [|x r IH]; cbn [find_block replace_block]; [discriminate|].
  destruct (Z.eqb_spec (b_id x) (b_id b')) as [E|E].
  - intros _. cbn [find_block]. rewrite Z.eqb_refl. reflexivity.
  - intros H. cbn [find_block]. replace (b_id x =? b_id b') with false by (symmetry; apply Z.eqb_neq; assumption). apply IH; assumption.
Qed.

(* the three shapes of the block list after release / shrink of block id *)
Definition blocks_shape (st st' : state) (id : Z) : Prop :=
  blocks st' = blocks st \/
  (exists b b', find_block id (blocks st) = Some b /\ same_geom b b' /\ blocks st' = replace_block b' (blocks st)) \/
  (exists b, find_block id (blocks st) = Some b /\ blocks st' = remove_block id (blocks st)).

Lemma release_shape c st id off : blocks_shape st (fst (release c st id off)) id.
Proof.
  unfold release. destruct (find_block id (blocks st)) as [b|] eqn:Ef; [|left; reflexivity].
  set (bm := mark_released (c_var c) b (off / pool_gran c (b_pool b)) (span_end b (off / pool_gran c (b_pool b)))).
  assert (Hgm : same_geom b bm).
  { unfold bm, mark_released, same_geom. destruct (b_incr b && _); [|destruct (_ =? b_pad b)]; cbn; repeat split; reflexivity. }
  destruct (b_empty bm); [destruct (_ || _)|]; cbn [fst blocks].
  - right. right. exists b. split; [assumption|reflexivity].
  - right. left. exists b, bm. splits; try assumption; reflexivity.
  - right. left. exists b, bm. splits; try assumption; reflexivity.
Qed.

Lemma shrink_shape c st id off ns : blocks_shape st (fst (shrink c st id off ns)) id.
Proof.
  unfold shrink. destruct (ns =? 0).
  - pose proof (release_shape c st id off) as H. destruct (release c st id off) as [st' r]. destruct r; exact H.
  - destruct (find_block id (blocks st)) as [b|] eqn:Ef; [|left; reflexivity].
    destruct (negb _); [left; reflexivity|]. destruct (_ <? _); [left; reflexivity|]. destruct (_ =? 0); [left; reflexivity|].
    right. left. eexists b, _. splits; [assumption| |reflexivity].
    unfold mark_shrunk, same_geom. destruct (b_incr b && _); cbn; repeat split; reflexivity.
Qed.

Lemma Cinv_after_remove c cs st' id :
  cfg_ok c -> ginv c (cs_st cs) -> Cinv c cs -> blocks_shape (cs_st cs) st' id ->
  Cinv c (mkC st' (cur_after_remove cs st' id)).
Proof.
  intros Hc G [CL CF] Sh. destruct G as [GB GI GN GP GC GNid].
  unfold cur_after_remove. destruct Sh as [E|[(b & b' & Ef & Hgm & E)|(b & Ef & E)]].
  - (* unchanged *)
    rewrite E. destruct (find_block id (blocks (cs_st cs))) as [b|]; constructor; cbn [cs_st cs_cur]; try assumption;
      intros p Hp; unfold get_cur; cbn [cs_cur]; rewrite E; apply CF; assumption.
  - destruct Hgm as (g1 & g2 & _). destruct (find_block_in _ _ _ Ef) as [_ Hid].
    assert (Ef' : find_block (b_id b') (blocks (cs_st cs)) = Some b) by (rewrite g1, Hid; assumption).
    rewrite Ef, E. rewrite <- Hid, <- g1. rewrite (find_block_replace _ b b' Ef').
    constructor; cbn [cs_st cs_cur]; [assumption|].
    intros p Hp. unfold get_cur in *. cbn [cs_cur]. rewrite E, (first_id_replace p _ b b' Ef' g2). apply CF; assumption.
  - rewrite Ef, E. rewrite (find_block_remove_none _ id GI).
    destruct (find_block_in _ _ _ Ef) as [Hbin Hid].
    pose proof GB as GB'. rewrite Forall_forall in GB'. destruct (GB' b Hbin) as (_ & Pb & _).
    pose proof (first_id_remove_same _ b id GI Ef) as FR. cbn zeta in FR.
    pose proof (CF (b_pool b) Pb) as Cp. unfold get_cur in *.
    constructor; cbn [cs_st cs_cur].
    + destruct (nth (Z.to_nat (b_pool b)) (cs_cur cs) None) as [cid|]; [destruct (cid =? id)|]; rewrite ?set_cur_length; assumption.
    + intros p Hp. unfold get_cur. cbn [cs_cur cs_st]. rewrite E.
      destruct (Z.eq_dec p (b_pool b)) as [->|Hne].
      * rewrite FR. rewrite <- Cp.
        destruct (nth (Z.to_nat (b_pool b)) (cs_cur cs) None) as [cid|] eqn:En.
        -- destruct (cid =? id); [rewrite get_set_cur_same by lia; reflexivity|exact En].
        -- exact En.
      * rewrite (first_id_remove_other p _ b id Ef ltac:(congruence)).
        destruct (nth (Z.to_nat (b_pool b)) (cs_cur cs) None) as [cid|]; [destruct (cid =? id)|]; try (apply CF; assumption).
        rewrite get_set_cur_other by lia. apply CF; assumption.
Qed.

Theorem cstep_eq c cs o :
  cfg_ok c -> reach c (cs_st cs) -> Cinv c cs -> valid_op c (cs_st cs) o ->
  cs_st (fst (cstep c cs o)) = fst (step c (cs_st cs) o) /\
  snd (cstep c cs o) = snd (step c (cs_st cs) o) /\
  Cinv c (fst (cstep c cs o)).
Proof.
  intros Hc R CI V. pose proof (reach_ginv c _ Hc R) as G.
  destruct o as [size|id off|id off ns|id off|hard]; cbn [cstep step].
  - (* alloc *)
    pose proof Hc as [Hg Hpools Hbs Hvar]. pose proof CI as [CL CF]. pose proof G as [GB GI GN GP GC GNid].
    unfold alloc_c, alloc.
    set (sz := align_up size (c_gran c) mod two64).
    destruct (Z.eqb_spec sz 0) as [E0|E0]; [splits; try reflexivity; assumption|].
    destruct (Z.leb_spec 2147483647 (sz - 1)) as [E1|E1]; [splits; try reflexivity; assumption|].
    assert (Hsz : 1 <= sz).
    { pose proof (Z.mod_pos_bound (align_up size (c_gran c)) two64 ltac:(reflexivity)) as Hm. fold sz in Hm. lia. }
    set (p := size_to_pool c sz). pose proof (size_to_pool_range c sz Hpools) as Hp. fold p in Hp.
    set (g := pool_gran c p). pose proof (pool_gran_pos c p Hg ltac:(lia)) as Hgp. fold g in Hgp.
    set (n := (sz + g - 1) / g). pose proof (ceil_ge1 sz g Hgp Hsz) as Hn. fold n in Hn.
    rewrite (CF p Hp), (try_ring_eq _ p n _ GI).
    rewrite Hvar. pose proof (try_blocks_ok c (nextid (cs_st cs)) p n Hn (blocks (cs_st cs)) GB) as (_ & G' & _).
    destruct (try_blocks fixed p n (blocks (cs_st cs))) as [bl' [[[id s] we]|]] eqn:Et; cbn [fst snd cs_st] in *.
    + splits; try reflexivity. constructor; cbn [cs_st cs_cur blocks]; [assumption|].
      intros q Hq. unfold get_cur. cbn [cs_cur]. rewrite (first_id_geom q _ _ G'). apply CF; assumption.
    + splits; try reflexivity. unfold get_cur in *.
      pose proof (CF p Hp) as Cp. rewrite <- (first_id_geom p _ _ G') in Cp.
      constructor; cbn [cs_st cs_cur blocks].
      * destruct (first_id p (blocks (cs_st cs))); [assumption|rewrite set_cur_length; assumption].
      * intros q Hq. unfold get_cur. cbn [cs_cur]. rewrite first_id_app.
        assert (NP : b_pool (new_block_alloc fixed (nextid (cs_st cs)) p (ideal_block_size c p (last_of_pool p bl' None) sz)
                                ((ideal_block_size c p (last_of_pool p bl' None) sz + g - 1) / g) (if c_pad c then 1 else 0) n) = p)
          by (unfold new_block_alloc, mark_allocated; cbn; destruct (_ =? 0); reflexivity).
        assert (NI : b_id (new_block_alloc fixed (nextid (cs_st cs)) p (ideal_block_size c p (last_of_pool p bl' None) sz)
                                ((ideal_block_size c p (last_of_pool p bl' None) sz + g - 1) / g) (if c_pad c then 1 else 0) n) = nextid (cs_st cs))
          by (unfold new_block_alloc, mark_allocated; cbn; destruct (_ =? 0); reflexivity).
        rewrite NP, NI. rewrite (first_id_geom q _ _ G').
        destruct (Z.eq_dec q p) as [->|Hne].
        -- rewrite Z.eqb_refl. rewrite (first_id_geom p _ _ G') in Cp.
           destruct (first_id p (blocks (cs_st cs))) as [x|] eqn:Ex.
           ++ rewrite <- Ex. apply CF; assumption.
           ++ rewrite get_set_cur_same by lia. reflexivity.
        -- replace (p =? q) with false by (symmetry; apply Z.eqb_neq; lia).
           destruct (first_id p (blocks (cs_st cs))) as [x|] eqn:Ex.
           ++ rewrite (CF q Hq). destruct (first_id q (blocks (cs_st cs))); reflexivity.
           ++ rewrite get_set_cur_other by lia. rewrite (CF q Hq). destruct (first_id q (blocks (cs_st cs))); reflexivity.
  - unfold release_c. pose proof (release_shape c (cs_st cs) id off) as Sh.
    destruct (release c (cs_st cs) id off) as [st' r]. cbn [fst snd cs_st] in *. splits; try reflexivity.
    apply Cinv_after_remove; assumption.
  - unfold shrink_c. pose proof (shrink_shape c (cs_st cs) id off ns) as Sh.
    destruct (shrink c (cs_st cs) id off ns) as [st' r]. cbn [fst snd cs_st] in *. splits; try reflexivity.
    apply Cinv_after_remove; assumption.
  - cbn [fst snd]. splits; try reflexivity. assumption.
  - cbn [fst snd]. unfold reset_c. cbn [cs_st]. splits; try reflexivity.
    destruct CI as [CL CF]. constructor; cbn [cs_st cs_cur].
    + rewrite reset_cursors_length. assumption.
    + intros p Hp. unfold get_cur. cbn [cs_cur]. rewrite nth_reset_cursors by lia. rewrite Z.add_0_l, Z2Nat.id by lia. reflexivity.
Qed.

Lemma Cinv_init c : cfg_ok c -> Cinv c (init_cstate c).
Proof.
  intros [Hg Hp Hb Hv]. unfold init_cstate. constructor; cbn [cs_st cs_cur].
  - rewrite repeat_length. lia.
  - intros p _. unfold get_cur. cbn [cs_cur]. unfold first_id, init_state. cbn.
    clear. generalize (Z.to_nat p). induction (Z.to_nat (c_pools c)); intros [|k]; cbn; try reflexivity. apply IHn.
Qed.

(* histories: running the cursor-explicit semantics gives the same states and results as `step`, op by op *)
Fixpoint crun (c : config) (cs : cstate) (ops : list op) : cstate :=
  match ops with [] => cs | o :: r => crun c (fst (cstep c cs o)) r end.

Inductive valid_hist (c : config) : state -> list op -> Prop :=
| vh_nil st : valid_hist c st []
| vh_cons st o r : valid_op c st o -> valid_hist c (fst (step c st o)) r -> valid_hist c st (o :: r).

Theorem crun_eq c ops : cfg_ok c -> forall cs, reach c (cs_st cs) -> Cinv c cs -> valid_hist c (cs_st cs) ops ->
  cs_st (crun c cs ops) = run c (cs_st cs) ops /\ Cinv c (crun c cs ops).
Proof.
  intros Hc. induction ops as [|o r IH]; intros cs R CI VH; cbn [crun run]; [split; [reflexivity|assumption]|].
  inversion VH as [|? ? ? V VH']; subst.
  destruct (cstep_eq c cs o Hc R CI V) as (E1 & _ & CI').
  rewrite <- E1 in VH'.
  destruct (IH (fst (cstep c cs o)) ltac:(rewrite E1; apply reach_step; assumption) CI' VH') as [E2 C2].
  rewrite E2, E1. split; [reflexivity|assumption].
Qed.

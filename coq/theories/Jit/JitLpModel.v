(* C09 — large pages as an oracle step of JitAllocator_new_block (kUseLargePages / kAlignBlockSizeToLargePage):
   lp = VirtMem::large_page_size() (0: the host has none), ok = the large-page mapping request succeeded.  Only the byte size
   of a NEW block changes: it is rounded up to a multiple of the large page size when large pages are used.
   `alloc_adj` is `alloc` with the new block's byte size passed through `adj`; `alloc_adj … (fun b => b)` is `alloc`. *)
From Coq Require Import ZArith List Bool.
From Verif Require Import Jit.JitModel.
Import ListNotations.
Local Open Scope Z_scope.

Definition lp_bytes (lp : Z) (align_flag ok : bool) (bytes : Z) : Z :=
  if (0 <? lp) && ((lp <=? bytes) || align_flag) && ok then align_up bytes lp else bytes.

Definition alloc_adj (c : config) (st : state) (size0 : Z) (adj : Z -> Z) : state * result :=
  let size := (align_up size0 (c_gran c)) mod two64 in
  if size =? 0 then (st, RAlloc InvalidArgument 0 0 0)
  else if 2147483647 <=? size - 1 then (st, RAlloc TooLarge 0 0 0)
  else
    let p := size_to_pool c size in
    let g := pool_gran c p in
    let n := (size + g - 1) / g in
    let pl := get_pool st p in
    match try_blocks (c_var c) p n (blocks st) with
    | (bl', Some (id, s, was_empty)) =>
      let pl' := mkPool (p_count pl) (if was_empty then p_empty pl - 1 else p_empty pl) (p_tsize pl) (p_tused pl + n) in
      (mkState bl' (set_pool (pools st) p pl') (acount st + 1) (nextid st), RAlloc Ok id (s * g) size)
    | (bl', None) =>
      let bytes := adj (ideal_block_size c p (last_of_pool p bl' None) size) in
      let area := (bytes + g - 1) / g in
      let pad := if c_pad c then 1 else 0 in
      let nb := new_block_alloc (c_var c) (nextid st) p bytes area pad n in
      let pl' := mkPool (p_count pl + 1) (p_empty pl) (p_tsize pl + area) (p_tused pl + pad + n) in
      (mkState (bl' ++ [nb]) (set_pool (pools st) p pl') (acount st + 1) (nextid st + 1),
       RAlloc Ok (nextid st) (pad * g) size)
    end.

Definition alloc_lp (c : config) (st : state) (size lp : Z) (align_flag ok : bool) : state * result :=
  alloc_adj c st size (lp_bytes lp align_flag ok).

(* C09 — byte-level containment: with a block size that is a multiple of the largest pool granularity, every block's byte
   size is area * pool granularity, so a live span's byte range lies inside the block's mapping. *)
From Coq Require Import ZArith List Bool Lia Znumtheory.
From Verif Require Import Jit.JitModel Jit.JitBits Jit.JitBlockProofs Jit.JitProofs.
Import ListNotations.
Local Open Scope Z_scope.

Definition bytes_ok (c : config) (b : block) : Prop := b_bytes b = b_area b * pool_gran c (b_pool b).

Record cfg_ok_bytes (c : config) : Prop := {
  cb_ok : cfg_ok c;
  cb_div : (pool_gran c (c_pools c - 1) | c_bsize c) }.

Lemma pool_gran_divide c p q : 0 <= p <= q -> (pool_gran c p | pool_gran c q).
Proof.
  intros H. unfold pool_gran. exists (2 ^ (q - p)).
  replace q with (p + (q - p)) at 1 by lia. rewrite Z.pow_add_r by lia. lia.
Qed.

Lemma bytes_ok_geom c b b' : same_geom b b' -> bytes_ok c b -> bytes_ok c b'.
Proof. intros (g1 & g2 & g3 & g4 & g5) H. unfold bytes_ok in *. rewrite g2, g3, g4. exact H. Qed.

Lemma last_of_pool_in p l : forall acc b, last_of_pool p l acc = Some b -> (In b l /\ b_pool b = p) \/ acc = Some b.
Proof.
  induction l as [|x r IH]; intros acc b H; cbn in H; [right; assumption|].
  destruct (IH _ _ H) as [[A B]|E].
  - left. split; [right; assumption|assumption].
  - destruct (Z.eqb_spec (b_pool x) p) as [Ep|Ep].
    + inversion E; subst. left. split; [left; reflexivity|reflexivity].
    + right. assumption.
Qed.

Lemma ideal_block_size_divide c p last size :
  0 < c_bsize c -> (pool_gran c p | c_bsize c) ->
  (forall b, last = Some b -> (pool_gran c p | b_bytes b)) ->
  (pool_gran c p | ideal_block_size c p last size).
Proof.
  intros Hb Hd Hl. unfold ideal_block_size.
  set (bs0 := match last with Some b => b_bytes b | None => c_bsize c end).
  assert (H0 : (pool_gran c p | bs0)) by (unfold bs0; destruct last; [apply Hl; reflexivity|assumption]).
  set (bs := if bs0 <? max_block_size then bs0 * 2 else bs0).
  assert (H1 : (pool_gran c p | bs)) by (unfold bs; destruct (bs0 <? max_block_size); [apply Z.divide_mul_l|]; assumption).
  destruct (bs <? _); [|assumption].
  unfold align_up. apply Z.divide_mul_r. assumption.
Qed.

Lemma area_exact bytes g : 0 < g -> (g | bytes) -> bytes = (bytes + g - 1) / g * g.
Proof.
  intros Hg [k ->]. replace (k * g + g - 1) with (k * g + (g - 1)) by lia.
  rewrite Z.div_add_l by lia. rewrite Z.div_small by lia. lia.
Qed.

Lemma reset_pools_in keep bl : forall ps p x,
  In x (fst (reset_pools keep bl ps p)) -> exists b, In b bl /\ x = wipe_block b.
Proof.
  induction ps as [|pl r IH]; intros p x H; cbn [reset_pools] in H; [destruct H|].
  specialize (IH (p + 1) x). destruct (reset_pools keep bl r (p + 1)) as [bl_r ps_r]. cbn [fst] in *.
  destruct (first_of_pool p bl) as [b|] eqn:Ef; [|apply IH; assumption].
  destruct keep; [|apply IH; assumption].
  destruct H as [<-|H]; [|apply IH; assumption].
  exists b. split; [apply (first_of_pool_some _ _ _ Ef)|reflexivity].
Qed.

Lemma wipe_block_geom b : same_geom b (wipe_block b).
Proof. unfold wipe_block, same_geom, clear_block. destruct (b_empty b); cbn; repeat split; reflexivity. Qed.

Lemma forall2_in_r {A B} (R : A -> B -> Prop) l l' y : Forall2 R l l' -> In y l' -> exists x, In x l /\ R x y.
Proof.
  induction 1 as [|a b l l' Hab H IH]; [intros []|]. intros [<-|Hy].
  - exists a. split; [left; reflexivity|assumption].
  - destruct (IH Hy) as [x [Hx Hr]]. exists x. split; [right; assumption|assumption].
Qed.

Lemma bytes_ok_step c st o :
  cfg_ok_bytes c -> reach c st -> valid_op c st o ->
  Forall (bytes_ok c) (blocks st) -> Forall (bytes_ok c) (blocks (fst (step c st o))).
Proof.
  intros [Hc Hd] R V HB. pose proof (reach_ginv c st Hc R) as G.
  rewrite Forall_forall in HB.
  destruct o as [size|id off|id off ns|id off|hard]; cbn [step valid_op] in *.
  - (* alloc *)
    destruct Hc as [Hg Hpools Hbs Hvar]. unfold alloc.
    set (sz := align_up size (c_gran c) mod two64).
    destruct (Z.eqb_spec sz 0) as [E0|E0]; [apply Forall_forall; assumption|].
    destruct (Z.leb_spec 2147483647 (sz - 1)) as [E1|E1]; [apply Forall_forall; assumption|].
    assert (Hsz : 1 <= sz).
    { pose proof (Z.mod_pos_bound (align_up size (c_gran c)) two64 ltac:(reflexivity)) as Hm. fold sz in Hm. lia. }
    set (p := size_to_pool c sz). pose proof (size_to_pool_range c sz Hpools) as Hp. fold p in Hp.
    set (g := pool_gran c p). pose proof (pool_gran_pos c p Hg ltac:(lia)) as Hgp. fold g in Hgp.
    set (n := (sz + g - 1) / g). pose proof (ceil_ge1 sz g Hgp Hsz) as Hn. fold n in Hn.
    rewrite Hvar. destruct G as [GB GI GN GP GC GNid].
    pose proof (try_blocks_ok c (nextid st) p n Hn (blocks st) GB) as (F' & G' & W).
    assert (HB' : forall x, In x (fst (try_blocks fixed p n (blocks st))) -> bytes_ok c x).
    { intros x Hx. destruct (forall2_in_r _ _ _ x G' Hx) as [b [Hb Hgm]]. apply (bytes_ok_geom c b); [assumption|apply HB; assumption]. }
    destruct (try_blocks fixed p n (blocks st)) as [bl' [[[id s] we]|]] eqn:Et; cbn [fst snd] in *.
    + apply Forall_forall. assumption.
    + apply Forall_app. split; [apply Forall_forall; assumption|]. constructor; [|constructor].
      set (bytes := ideal_block_size c p (last_of_pool p bl' None) sz).
      set (area := (bytes + g - 1) / g). set (pad := if c_pad c then 1 else 0).
      assert (Hpad : pad = 0 \/ pad = 1) by (unfold pad; destruct (c_pad c); [right|left]; reflexivity).
      assert (Hfit : pad + n <= area) by (unfold pad, n, area, bytes, g; apply new_area_fits; try assumption; lia).
      destruct (binv_new_block (nextid st) p bytes area pad n Hpad Hn Hfit) as (_ & _ & _ & _ & _ & NP & NAr & _ & NBy).
      unfold bytes_ok. rewrite NP, NAr, NBy. fold g. unfold area. apply area_exact; [assumption|].
      assert (Hdp : (g | c_bsize c)).
      { apply (Z.divide_trans _ (pool_gran c (c_pools c - 1))); [apply pool_gran_divide; lia|assumption]. }
      apply ideal_block_size_divide; try assumption.
      intros b Hl. destruct (last_of_pool_in _ _ _ _ Hl) as [[Hin Hpb]|E]; [|discriminate].
      specialize (HB' b Hin). unfold bytes_ok in HB'. rewrite HB', Hpb. fold g. apply Z.divide_factor_r.
  - (* release *)
    unfold release. destruct (find_block id (blocks st)) as [b|] eqn:Ef; [|apply Forall_forall; assumption].
    destruct (find_block_in _ _ _ Ef) as [Hbin _].
    set (b' := mark_released (c_var c) b (off / pool_gran c (b_pool b)) (span_end b (off / pool_gran c (b_pool b)))).
    assert (Hb' : bytes_ok c b').
    { apply (bytes_ok_geom c b); [|apply HB; assumption]. unfold b', mark_released, same_geom.
      destruct (b_incr b && _); [|destruct (_ =? b_pad b)]; cbn; repeat split; reflexivity. }
    destruct (b_empty b'); [destruct (_ || _)|]; cbn [fst blocks].
    + apply Forall_forall. intros x Hx. apply remove_block_in in Hx. apply HB; assumption.
    + apply replace_block_forall; [apply Forall_forall; assumption|assumption].
    + apply replace_block_forall; [apply Forall_forall; assumption|assumption].
  - (* shrink *)
    unfold shrink. destruct (ns =? 0).
    + assert (HR : Forall (bytes_ok c) (blocks (fst (release c st id off)))).
      { unfold release. destruct (find_block id (blocks st)) as [b|] eqn:Ef; [|apply Forall_forall; assumption].
        destruct (find_block_in _ _ _ Ef) as [Hbin _].
        set (b' := mark_released (c_var c) b (off / pool_gran c (b_pool b)) (span_end b (off / pool_gran c (b_pool b)))).
        assert (Hb' : bytes_ok c b').
        { apply (bytes_ok_geom c b); [|apply HB; assumption]. unfold b', mark_released, same_geom.
          destruct (b_incr b && _); [|destruct (_ =? b_pad b)]; cbn; repeat split; reflexivity. }
        destruct (b_empty b'); [destruct (_ || _)|]; cbn [fst blocks].
        - apply Forall_forall. intros x Hx. apply remove_block_in in Hx. apply HB; assumption.
        - apply replace_block_forall; [apply Forall_forall; assumption|assumption].
        - apply replace_block_forall; [apply Forall_forall; assumption|assumption]. }
      destruct (release c st id off) as [st' r]. cbn [fst] in *. destruct r; cbn [fst]; assumption.
    + destruct (find_block id (blocks st)) as [b|] eqn:Ef; [|apply Forall_forall; assumption].
      destruct (find_block_in _ _ _ Ef) as [Hbin _].
      destruct (negb _); [apply Forall_forall; assumption|].
      destruct (_ <? _); [apply Forall_forall; assumption|].
      destruct (_ =? 0); [apply Forall_forall; assumption|]. cbn [fst blocks].
      apply replace_block_forall; [apply Forall_forall; assumption|].
      apply (bytes_ok_geom c b); [|apply HB; assumption]. unfold mark_shrunk, same_geom.
      destruct (b_incr b && _); cbn; repeat split; reflexivity.
  - apply Forall_forall. assumption.
  - unfold reset. pose proof (reset_pools_in (negb hard && negb (c_imm c)) (blocks st) (pools st) 0) as RI.
    destruct (reset_pools _ _ _ _) as [bl ps]. cbn [fst blocks] in *.
    apply Forall_forall. intros x Hx. destruct (RI x Hx) as [b [Hb ->]].
    apply (bytes_ok_geom c b); [apply wipe_block_geom|apply HB; assumption].
Qed.

Theorem reach_bytes_ok c st : cfg_ok_bytes c -> reach c st -> Forall (bytes_ok c) (blocks st).
Proof.
  intros Hc R. induction R as [|st o R IH V]; [constructor|]. apply bytes_ok_step; assumption.
Qed.

(* byte-level containment of every live span in its block's mapping (both views use the same offset) *)
Theorem span_bytes_inside c st : cfg_ok_bytes c -> reach c st ->
  forall b s n, In b (blocks st) -> In (s, n) (b_live b) ->
  let g := pool_gran c (b_pool b) in
  0 < g /\ b_pad b * g <= s * g /\ s * g + n * g <= b_bytes b /\ 1 * g <= n * g.
Proof.
  intros Hc R b s n Hb Hin g. pose proof (reach_bytes_ok c st Hc R) as HB. rewrite Forall_forall in HB.
  pose proof (reach_ginv c st (cb_ok c Hc) R) as [GB _ _ _ _ _]. rewrite Forall_forall in GB.
  destruct (GB b Hb) as ([S _] & Pb & _). destruct (bs_spans b S _ Hin) as (A1 & A2 & A3). cbn [fst snd] in *.
  pose proof (pool_gran_pos c (b_pool b) (co_gran c (cb_ok c Hc)) ltac:(lia)) as Hg. fold g in Hg.
  rewrite (HB b Hb). fold g. splits; nia.
Qed.

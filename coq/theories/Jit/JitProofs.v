(* C09 — whole-allocator invariant of the JitAllocator model (repaired variant) over arbitrary histories *)
From Coq Require Import ZArith List Bool Lia.
From Verif Require Import Jit.JitModel Jit.JitBits Jit.JitBlockProofs.
Import ListNotations.
Local Open Scope Z_scope.

(* ------------------------------------------------------------------ sums over the blocks of one pool *)
Fixpoint sump (f : block -> Z) (p : Z) (l : list block) : Z :=
  match l with [] => 0 | b :: r => (if b_pool b =? p then f b else 0) + sump f p r end.
Definition emptyf (b : block) : Z := if b_empty b then 1 else 0.
Definition onef (b : block) : Z := 1.
Definition livef (b : block) : Z := Z.of_nat (length (b_live b)).
Fixpoint total_live (l : list block) : Z := match l with [] => 0 | b :: r => livef b + total_live r end.

Lemma sump_app f p l1 l2 : sump f p (l1 ++ l2) = sump f p l1 + sump f p l2.
Proof. induction l1 as [|b r IH]; cbn; [reflexivity|]. rewrite IH. lia. Qed.

Lemma total_live_app l1 l2 : total_live (l1 ++ l2) = total_live l1 + total_live l2.
Proof. induction l1 as [|b r IH]; cbn; [reflexivity|]. rewrite IH. lia. Qed.

Lemma sump_zero f q l : (forall b, In b l -> b_pool b <> q) -> sump f q l = 0.
Proof.
  induction l as [|b r IH]; intros H; cbn; [reflexivity|].
  destruct (Z.eqb_spec (b_pool b) q) as [E|E]; [exfalso; apply (H b (or_introl eq_refl) E)|].
  rewrite IH; [reflexivity|]. intros x Hx. apply H. right; assumption.
Qed.

Lemma sump_emptyf_nonneg q l : 0 <= sump emptyf q l.
Proof. induction l as [|b r IH]; cbn; [lia|]. unfold emptyf at 1. destruct (b_pool b =? q), (b_empty b); lia. Qed.

Lemma sump_same_geom f q l l' :
  Forall2 same_geom l l' -> (forall b b', same_geom b b' -> f b' = f b) -> sump f q l' = sump f q l.
Proof.
  intros H Hf. induction H as [|b b' l l' G H IH]; cbn; [reflexivity|].
  rewrite IH. destruct G as (g1 & g2 & g3 & g4 & g5). rewrite g2.
  rewrite (Hf b b'); [reflexivity|]. repeat split; assumption.
Qed.

Lemma same_geom_ids l l' : Forall2 same_geom l l' -> map b_id l' = map b_id l.
Proof.
  intros H. induction H as [|b b' l l' G H IH]; cbn; [reflexivity|]. rewrite IH. destruct G as (g1 & _). rewrite g1. reflexivity.
Qed.

Lemma same_geom_refl b : same_geom b b.
Proof. repeat split. Qed.

Lemma Forall2_same_geom_refl l : Forall2 same_geom l l.
Proof. induction l; constructor; [apply same_geom_refl|assumption]. Qed.

(* ------------------------------------------------------------------ the invariant *)
Record cfg_ok (c : config) : Prop := {
  co_gran : 0 < c_gran c;
  co_pools : 1 <= c_pools c;
  co_bsize : 0 < c_bsize c;
  co_var : c_var c = fixed }.

Definition block_ok (c : config) (nid : Z) (b : block) : Prop :=
  binv b /\ 0 <= b_pool b < c_pools c /\ 0 <= b_id b < nid.

Record pool_ok (c : config) (bl : list block) (p : Z) (pl : pool) : Prop := {
  po_count : p_count pl = sump onef p bl;
  po_tsize : p_tsize pl = sump b_area p bl;
  po_tused : p_tused pl = sump b_aused p bl;
  po_empty : sump emptyf p bl <= p_empty pl <= 1;
  po_imm : c_imm c = true -> sump emptyf p bl = 0 }.

Record ginv (c : config) (st : state) : Prop := {
  g_blocks : Forall (block_ok c (nextid st)) (blocks st);
  g_ids : NoDup (map b_id (blocks st));
  g_npools : Z.of_nat (length (pools st)) = c_pools c;
  g_pools : forall p, 0 <= p < c_pools c -> pool_ok c (blocks st) p (get_pool st p);
  g_count : acount st = total_live (blocks st);
  g_nid : 0 <= nextid st }.

(* ------------------------------------------------------------------ pool table *)
Lemma upd_nth_length {A} (k : nat) (l : list A) x : length (upd_nth k l x) = length l.
Proof. revert k; induction l as [|y r IH]; intros [|k]; cbn; try reflexivity. rewrite IH. reflexivity. Qed.

Lemma nth_upd_nth_same {A} (k : nat) (l : list A) x d : (k < length l)%nat -> nth k (upd_nth k l x) d = x.
Proof. revert k; induction l as [|y r IH]; intros [|k] H; cbn in *; try lia; try reflexivity. apply IH. lia. Qed.

Lemma nth_upd_nth_other {A} (k j : nat) (l : list A) x d : k <> j -> nth j (upd_nth k l x) d = nth j l d.
Proof.
  revert k j; induction l as [|y r IH]; intros [|k] [|j] H; cbn in *; try reflexivity; try lia.
  apply IH. lia.
Qed.

Lemma get_set_same ps bl a n p x :
  0 <= p < Z.of_nat (length ps) -> get_pool (mkState bl (set_pool ps p x) a n) p = x.
Proof. intros H. unfold get_pool, set_pool. cbn. apply nth_upd_nth_same. lia. Qed.

Lemma get_set_other ps bl bl' a a' n n' p q x :
  0 <= p -> 0 <= q -> p <> q -> get_pool (mkState bl (set_pool ps p x) a n) q = get_pool (mkState bl' ps a' n') q.
Proof. intros Hp Hq H. unfold get_pool, set_pool. cbn. apply nth_upd_nth_other. lia. Qed.

(* ------------------------------------------------------------------ find / replace / remove *)
Lemma find_block_in id l b : find_block id l = Some b -> In b l /\ b_id b = id.
Proof.
  induction l as [|x r IH]; cbn; [discriminate|].
  destruct (Z.eqb_spec (b_id x) id) as [E|E].
  - intros [= <-]. split; [left; reflexivity|assumption].
  - intros H. destruct (IH H). split; [right; assumption|assumption].
Qed.

Lemma find_block_none id l : find_block id l = None -> forall b, In b l -> b_id b <> id.
Proof.
  induction l as [|x r IH]; cbn; [intros _ b []|].
  destruct (Z.eqb_spec (b_id x) id) as [E|E]; [discriminate|].
  intros H b [<-|Hb]; [assumption|apply IH; assumption].
Qed.

Lemma replace_block_sump f q b b' l :
  find_block (b_id b') l = Some b -> b_pool b' = b_pool b ->
  sump f q (replace_block b' l) = sump f q l + (if b_pool b =? q then f b' - f b else 0).
Proof.
  induction l as [|x r IH]; cbn; [discriminate|].
  destruct (Z.eqb_spec (b_id x) (b_id b')) as [E|E].
  - intros [= <-] Hp. cbn. rewrite Hp. destruct (b_pool x =? q); lia.
  - intros H Hp. cbn. rewrite IH by assumption. lia.
Qed.

Lemma replace_block_live b b' l :
  find_block (b_id b') l = Some b ->
  total_live (replace_block b' l) = total_live l + livef b' - livef b.
Proof.
  induction l as [|x r IH]; cbn; [discriminate|].
  destruct (Z.eqb_spec (b_id x) (b_id b')) as [E|E].
  - intros [= <-]. cbn. lia.
  - intros H. cbn. rewrite IH by assumption. lia.
Qed.

Lemma replace_block_ids b b' l :
  find_block (b_id b') l = Some b -> map b_id (replace_block b' l) = map b_id l.
Proof.
  induction l as [|x r IH]; cbn; [discriminate|].
  destruct (Z.eqb_spec (b_id x) (b_id b')) as [E|E].
  - intros _. cbn. rewrite E. reflexivity.
  - intros H. cbn. rewrite IH by assumption. reflexivity.
Qed.

Lemma replace_block_forall (P : block -> Prop) b' l : Forall P l -> P b' -> Forall P (replace_block b' l).
Proof.
  intros H Hb. induction H as [|x r Hx H IH]; cbn; [constructor|].
  destruct (b_id x =? b_id b'); constructor; assumption.
Qed.

Lemma replace_block_in b' l x : In x (replace_block b' l) -> x = b' \/ In x l.
Proof.
  induction l as [|y r IH]; cbn; [intros []|].
  destruct (b_id y =? b_id b').
  - intros [<-|H]; [left; reflexivity|right; right; assumption].
  - intros [<-|H]; [right; left; reflexivity|]. destruct (IH H); [left|right; right]; assumption.
Qed.

Lemma remove_block_sump f q b id l :
  find_block id l = Some b ->
  sump f q (remove_block id l) = sump f q l - (if b_pool b =? q then f b else 0).
Proof.
  induction l as [|x r IH]; cbn; [discriminate|].
  destruct (Z.eqb_spec (b_id x) id) as [E|E].
  - intros [= <-]. lia.
  - intros H. cbn. rewrite IH by assumption. lia.
Qed.

Lemma remove_block_live b id l :
  find_block id l = Some b -> total_live (remove_block id l) = total_live l - livef b.
Proof.
  induction l as [|x r IH]; cbn; [discriminate|].
  destruct (Z.eqb_spec (b_id x) id) as [E|E].
  - intros [= <-]. lia.
  - intros H. cbn. rewrite IH by assumption. lia.
Qed.

Lemma remove_block_in id l x : In x (remove_block id l) -> In x l.
Proof.
  induction l as [|y r IH]; cbn; [intros []|].
  destruct (b_id y =? id); [intros H; right; assumption|].
  intros [<-|H]; [left; reflexivity|right; apply IH; assumption].
Qed.

Lemma remove_block_forall (P : block -> Prop) id l : Forall P l -> Forall P (remove_block id l).
Proof.
  intros H. apply Forall_forall. intros x Hx. apply remove_block_in in Hx.
  rewrite Forall_forall in H. apply H; assumption.
Qed.

Lemma remove_block_nodup id l : NoDup (map b_id l) -> NoDup (map b_id (remove_block id l)).
Proof.
  induction l as [|y r IH]; cbn; [constructor|].
  intros H. inversion H as [|? ? Hy Hr]; subst.
  destruct (b_id y =? id); [assumption|]. cbn. constructor; [|apply IH; assumption].
  intros Hin. apply Hy. apply in_map_iff in Hin. destruct Hin as [x [Hx1 Hx2]].
  apply in_map_iff. exists x. split; [assumption|]. apply remove_block_in in Hx2. assumption.
Qed.

Lemma nodup_ids_inj l a b : NoDup (map b_id l) -> In a l -> In b l -> b_id a = b_id b -> a = b.
Proof.
  induction l as [|y r IH]; cbn; [intros _ []|].
  intros H. inversion H as [|? ? Hy Hr]; subst.
  intros [<-|Ha] [<-|Hb] E.
  - reflexivity.
  - exfalso. apply Hy. rewrite E. apply in_map. assumption.
  - exfalso. apply Hy. rewrite <- E. apply in_map. assumption.
  - apply IH; assumption.
Qed.

Lemma block_ok_mono c n1 n2 b : n1 <= n2 -> block_ok c n1 b -> block_ok c n2 b.
Proof. intros H (A & B & C). split; [assumption|lia]. Qed.

(* ------------------------------------------------------------------ the block walk of alloc *)
Definition walk_post (p n : Z) (l l' : list block) (res : option (Z * Z * bool)) : Prop :=
  match res with
  | Some (id, s, we) =>
    (forall q, sump b_aused q l' = sump b_aused q l + (if q =? p then n else 0)) /\
    (forall q, sump emptyf q l' = sump emptyf q l - (if (q =? p) && we then 1 else 0)) /\
    total_live l' = total_live l + 1 /\
    (exists b b', In b l /\ In b' l' /\ b_id b' = id /\ b_id b = id /\ b_pool b' = p /\
                  b_live b' = (s, n) :: b_live b /\ b_pad b' <= s /\ s + n <= b_area b')
  | None =>
    (forall q, sump b_aused q l' = sump b_aused q l) /\
    (forall q, sump emptyf q l' = sump emptyf q l) /\
    total_live l' = total_live l /\
    (forall b, In b l -> b_pool b = p -> no_room b n)
  end.

Lemma try_blocks_ok c nid p n : 1 <= n -> forall l,
  Forall (block_ok c nid) l ->
  Forall (block_ok c nid) (fst (try_blocks fixed p n l)) /\
  Forall2 same_geom l (fst (try_blocks fixed p n l)) /\
  walk_post p n l (fst (try_blocks fixed p n l)) (snd (try_blocks fixed p n l)).
Proof.
  intros Hn. induction l as [|b r IH]; intros HF.
  - cbn. splits; try constructor; try (intros; reflexivity). intros b [].
  - inversion HF as [|? ? Hb Hr]; subst. specialize (IH Hr).
    destruct Hb as (Ib & Pb & Idb).
    cbn [try_blocks].
    destruct (Z.eqb_spec (b_pool b) p) as [Ep|Ep].
    + pose proof (block_alloc_ok b n Ib Hn) as BA.
      destruct (block_alloc fixed b n) as [b' [s|]] eqn:E; cbn [fst snd] in BA.
      * destruct BA as (I' & G & L & P1 & P2 & A & Em).
        pose proof G as (g1 & g2 & g3 & g4 & g5).
        cbn [fst snd]. splits.
        -- constructor; [|assumption]. split; [assumption|]. rewrite g1, g2. split; assumption.
        -- constructor; [assumption|apply Forall2_same_geom_refl].
        -- cbn [walk_post]. splits.
           ++ intros q. cbn [sump]. rewrite g2, A. rewrite Ep. destruct (Z.eqb_spec p q), (Z.eqb_spec q p); try lia.
           ++ intros q. cbn [sump]. rewrite g2. unfold emptyf at 1 3. rewrite Em, Ep.
              destruct (Z.eqb_spec p q), (Z.eqb_spec q p), (b_empty b); cbn [andb]; try lia.
           ++ cbn [total_live]. unfold livef. rewrite L. cbn [length]. lia.
           ++ exists b, b'. splits; try (left; reflexivity); try assumption; try lia; try congruence.
      * destruct BA as (I' & G & L & A & Em & U & NR).
        pose proof G as (g1 & g2 & g3 & g4 & g5).
        destruct (try_blocks fixed p n r) as [r' res] eqn:Er. cbn [fst snd] in IH |- *.
        destruct IH as (F' & G' & W). splits.
        -- constructor; [|assumption]. split; [assumption|]. rewrite g1, g2. split; assumption.
        -- constructor; assumption.
        -- destruct res as [[[id s] we]|]; cbn [walk_post] in W |- *.
           ++ destruct W as (W1 & W2 & W3 & (x & x' & X1 & X2 & X3)). splits.
              ** intros q. cbn [sump]. rewrite g2, A, W1. lia.
              ** intros q. cbn [sump]. rewrite g2. unfold emptyf at 1 3. rewrite Em, W2. lia.
              ** cbn [total_live]. unfold livef. rewrite L, W3. lia.
              ** exists x, x'. splits; try (right; assumption); apply X3.
           ++ destruct W as (W1 & W2 & W3 & W4). splits.
              ** intros q. cbn [sump]. rewrite g2, A, W1. lia.
              ** intros q. cbn [sump]. rewrite g2. unfold emptyf at 1 3. rewrite Em, W2. lia.
              ** cbn [total_live]. unfold livef. rewrite L, W3. lia.
              ** intros x [<-|Hx] Hp; [assumption|apply W4; assumption].
    + destruct (try_blocks fixed p n r) as [r' res] eqn:Er. cbn [fst snd] in IH |- *.
      destruct IH as (F' & G' & W). splits.
      * constructor; [|assumption]. split; [assumption|split; assumption].
      * constructor; [apply same_geom_refl|assumption].
      * destruct res as [[[id s] we]|]; cbn [walk_post] in W |- *.
        -- destruct W as (W1 & W2 & W3 & (x & x' & X1 & X2 & X3)). splits.
           ++ intros q. cbn [sump]. rewrite W1. lia.
           ++ intros q. cbn [sump]. rewrite W2. lia.
           ++ cbn [total_live]. rewrite W3. lia.
           ++ exists x, x'. splits; try (right; assumption); apply X3.
        -- destruct W as (W1 & W2 & W3 & W4). splits.
           ++ intros q. cbn [sump]. rewrite W1. lia.
           ++ intros q. cbn [sump]. rewrite W2. lia.
           ++ cbn [total_live]. rewrite W3. lia.
           ++ intros x [<-|Hx] Hp; [contradiction|apply W4; assumption].
Qed.

(* ------------------------------------------------------------------ arithmetic of alloc *)
Lemma size_to_pool_go_range : forall k size g p, 0 <= p -> 0 <= size_to_pool_go k size g p <= p.
Proof.
  induction k as [|k IH]; intros size g p Hp; cbn [size_to_pool_go]; [lia|].
  destruct (Z.eqb_spec p 0); [lia|]. destruct (size mod g =? 0); [lia|].
  specialize (IH size (g / 2) (p - 1) ltac:(lia)). lia.
Qed.

Lemma size_to_pool_range c size : 1 <= c_pools c -> 0 <= size_to_pool c size < c_pools c.
Proof.
  intros H. unfold size_to_pool.
  pose proof (size_to_pool_go_range (Z.to_nat (c_pools c)) size (pool_gran c (c_pools c - 1)) (c_pools c - 1) ltac:(lia)). lia.
Qed.

Lemma pool_gran_pos c p : 0 < c_gran c -> 0 <= p -> 0 < pool_gran c p.
Proof. intros Hg Hp. unfold pool_gran. pose proof (Z.pow_pos_nonneg 2 p ltac:(lia) Hp). nia. Qed.

Lemma ceil_ge1 size g : 0 < g -> 1 <= size -> 1 <= (size + g - 1) / g.
Proof. intros Hg Hs. apply Z.div_le_lower_bound; lia. Qed.

Lemma align_up_ge x a : 0 < a -> x <= align_up x a.
Proof.
  intros Ha. unfold align_up. pose proof (Z.div_mod (x + a - 1) a ltac:(lia)).
  pose proof (Z.mod_pos_bound (x + a - 1) a Ha). nia.
Qed.

Lemma ideal_block_size_ge c p last size :
  0 < c_bsize c -> (if c_pad c then size + pool_gran c p else size) <= ideal_block_size c p last size.
Proof.
  intros Hb. unfold ideal_block_size.
  set (asz := if c_pad c then size + pool_gran c p else size).
  set (bs0 := match last with Some b => b_bytes b | None => c_bsize c end).
  set (bs := if bs0 <? max_block_size then bs0 * 2 else bs0).
  destruct (Z.ltb_spec bs asz); [apply align_up_ge; assumption|lia].
Qed.

Lemma new_area_fits c p last size :
  0 < c_gran c -> 0 <= p -> 0 < c_bsize c -> 1 <= size ->
  let g := pool_gran c p in
  (if c_pad c then 1 else 0) + (size + g - 1) / g <= (ideal_block_size c p last size + g - 1) / g.
Proof.
  intros Hg Hp Hb Hs g. pose proof (pool_gran_pos c p Hg Hp) as Hgp. fold g in Hgp.
  pose proof (ideal_block_size_ge c p last size Hb) as Hi. fold g in Hi.
  destruct (c_pad c).
  - replace (1 + (size + g - 1) / g) with ((size + g + g - 1) / g).
    + apply Z.div_le_mono; lia.
    + replace (size + g + g - 1) with (size + g - 1 + 1 * g) by lia. rewrite Z.div_add by lia. lia.
  - rewrite Z.add_0_l. apply Z.div_le_mono; lia.
Qed.

Lemma new_block_fits c p last size :
  0 < c_gran c -> 0 <= p -> 0 < c_bsize c -> 1 <= size ->
  let g := pool_gran c p in
  (if c_pad c then size + g else size) <= ideal_block_size c p last size /\
  (if c_pad c then 1 else 0) + (size + g - 1) / g <= (ideal_block_size c p last size + g - 1) / g.
Proof.
  intros Hg Hp Hb Hs g. split; [apply ideal_block_size_ge; assumption|apply new_area_fits; assumption].
Qed.

(* ------------------------------------------------------------------ alloc preserves the invariant *)
Lemma set_pool_length ps p x : length (set_pool ps p x) = length ps.
Proof. apply upd_nth_length. Qed.

Lemma NoDup_snoc {A} (l : list A) x : NoDup l -> ~ In x l -> NoDup (l ++ [x]).
Proof.
  induction l as [|y r IH]; cbn; intros H Hx; [constructor; [intros []|constructor]|].
  inversion H as [|? ? Hy Hr]; subst. constructor.
  - intros Hin. apply in_app_or in Hin. destruct Hin as [Hin|[<-|[]]]; [contradiction|]. apply Hx. left; reflexivity.
  - apply IH; [assumption|]. intros Hin. apply Hx. right; assumption.
Qed.

Lemma ginv_alloc c st size : cfg_ok c -> ginv c st -> ginv c (fst (alloc c st size)).
Proof.
  intros Hc G. destruct Hc as [Hg Hpools Hbs Hvar]. unfold alloc.
  set (sz := align_up size (c_gran c) mod two64).
  destruct (Z.eqb_spec sz 0) as [E0|E0]; [exact G|].
  destruct (Z.leb_spec 2147483647 (sz - 1)) as [E1|E1]; [exact G|].
  assert (Hsz : 1 <= sz).
  { pose proof (Z.mod_pos_bound (align_up size (c_gran c)) two64 ltac:(reflexivity)) as Hm. fold sz in Hm. lia. }
  set (p := size_to_pool c sz). pose proof (size_to_pool_range c sz Hpools) as Hp. fold p in Hp.
  set (g := pool_gran c p). pose proof (pool_gran_pos c p Hg ltac:(lia)) as Hgp. fold g in Hgp.
  set (n := (sz + g - 1) / g). pose proof (ceil_ge1 sz g Hgp Hsz) as Hn. fold n in Hn.
  rewrite Hvar.
  destruct G as [GB GI GN GP GC GNid].
  pose proof (try_blocks_ok c (nextid st) p n Hn (blocks st) GB) as (F' & G' & W).
  pose proof (GP p Hp) as [P1 P2 P3 P4 P5].
  assert (Hlen : 0 <= p < Z.of_nat (length (pools st))) by lia.
  destruct (try_blocks fixed p n (blocks st)) as [bl' [[[id s] we]|]] eqn:Et; cbn [fst snd] in *.
  - destruct W as (W1 & W2 & W3 & _).
    constructor; cbn [blocks pools acount nextid].
    + assumption.
    + rewrite (same_geom_ids _ _ G'). assumption.
    + rewrite set_pool_length. assumption.
    + intros q Hq. destruct (Z.eq_dec q p) as [->|Hne].
      * rewrite get_set_same by assumption.
        pose proof (sump_emptyf_nonneg p bl') as Hnn. specialize (W1 p). specialize (W2 p).
        rewrite Z.eqb_refl in W1, W2. cbn [andb] in W2.
        constructor; cbn [p_count p_empty p_tsize p_tused].
        -- rewrite P1. symmetry. apply sump_same_geom; [assumption|reflexivity].
        -- rewrite P2. symmetry. apply sump_same_geom; [assumption|]. intros b b' (_ & _ & _ & H4 & _). exact H4.
        -- rewrite P3, W1. reflexivity.
        -- destruct we; lia.
        -- intros Hi. specialize (P5 Hi). destruct we; lia.
      * rewrite (get_set_other _ _ (blocks st) _ (acount st) _ (nextid st) p q) by lia.
        destruct (GP q Hq) as [Q1 Q2 Q3 Q4 Q5]. destruct st as [bl0 ps0 ac0 ni0]; cbn [blocks pools acount nextid] in *.
        specialize (W1 q). specialize (W2 q).
        replace (q =? p) with false in W1, W2 by (symmetry; apply Z.eqb_neq; assumption). cbn [andb] in W2.
        constructor.
        -- rewrite Q1. symmetry. apply sump_same_geom; [assumption|reflexivity].
        -- rewrite Q2. symmetry. apply sump_same_geom; [assumption|]. intros b b' (_ & _ & _ & H4 & _). exact H4.
        -- rewrite Q3, W1. lia.
        -- rewrite W2. lia.
        -- intros Hi. rewrite W2. specialize (Q5 Hi). lia.
    + rewrite GC, W3. reflexivity.
    + assumption.
  - destruct W as (W1 & W2 & W3 & _).
    set (bytes := ideal_block_size c p (last_of_pool p bl' None) sz).
    set (area := (bytes + g - 1) / g).
    set (pad := if c_pad c then 1 else 0).
    assert (Hpad : pad = 0 \/ pad = 1) by (unfold pad; destruct (c_pad c); [right|left]; reflexivity).
    assert (Hfit : pad + n <= area).
    { unfold pad, n, area, bytes, g. apply new_area_fits; try assumption; lia. }
    destruct (binv_new_block (nextid st) p bytes area pad n Hpad Hn Hfit) as (NB & NL & NA & NE & NI & NP & NAr & NPd & NBy).
    set (nb := new_block_alloc fixed (nextid st) p bytes area pad n) in *.
    constructor; cbn [blocks pools acount nextid].
    + apply Forall_app. split.
      * eapply Forall_impl; [|exact F']. intros b. apply block_ok_mono. lia.
      * constructor; [|constructor]. split; [assumption|]. rewrite NP, NI. lia.
    + rewrite map_app. cbn [map]. rewrite NI, (same_geom_ids _ _ G').
      apply NoDup_snoc; [assumption|].
      intros Hin. apply in_map_iff in Hin. destruct Hin as [x [Hx1 Hx2]].
      rewrite Forall_forall in GB. destruct (GB x Hx2) as (_ & _ & Hid). lia.
    + rewrite set_pool_length. assumption.
    + intros q Hq. destruct (Z.eq_dec q p) as [->|Hne].
      * rewrite get_set_same by assumption.
        constructor; cbn [p_count p_empty p_tsize p_tused]; rewrite sump_app; cbn [sump]; rewrite NP, Z.eqb_refl.
        -- rewrite P1. change (onef nb) with 1. rewrite (sump_same_geom onef p _ _ G') by reflexivity. lia.
        -- rewrite P2, NAr. rewrite (sump_same_geom b_area p _ _ G'); [lia|]. intros b b' (_ & _ & _ & H4 & _). exact H4.
        -- rewrite P3, NA, W1. lia.
        -- replace (emptyf nb) with 0 by (unfold emptyf; rewrite NE; reflexivity). rewrite W2. lia.
        -- intros Hi. replace (emptyf nb) with 0 by (unfold emptyf; rewrite NE; reflexivity). rewrite W2. specialize (P5 Hi). lia.
      * rewrite (get_set_other _ _ (blocks st) _ (acount st) _ (nextid st) p q) by lia.
        destruct (GP q Hq) as [Q1 Q2 Q3 Q4 Q5]. destruct st as [bl0 ps0 ac0 ni0]; cbn [blocks pools acount nextid] in *.
        replace (get_pool {| blocks := bl0; pools := ps0; acount := ac0; nextid := ni0 |} q) with
                (get_pool {| blocks := bl0; pools := ps0; acount := ac0; nextid := ni0 |} q) in * by reflexivity.
        constructor; rewrite sump_app; cbn [sump]; rewrite NP;
          replace (p =? q) with false by (symmetry; apply Z.eqb_neq; lia).
        -- rewrite Q1. rewrite (sump_same_geom onef q _ _ G') by reflexivity. lia.
        -- rewrite Q2. rewrite (sump_same_geom b_area q _ _ G'); [lia|]. intros b b' (_ & _ & _ & H4 & _). exact H4.
        -- rewrite Q3, W1. lia.
        -- rewrite W2. lia.
        -- intros Hi. rewrite W2. specialize (Q5 Hi). lia.
    + rewrite total_live_app. cbn [total_live]. unfold livef at 1. rewrite NL. cbn [length]. lia.
    + lia.
Qed.

(* ------------------------------------------------------------------ release *)
Definition valid_ptr (c : config) (st : state) (id off : Z) : Prop :=
  forall b, find_block id (blocks st) = Some b -> exists n, In (off / pool_gran c (b_pool b), n) (b_live b).

Lemma mark_released_fields v b s n :
  same_geom b (mark_released v b s (s + n)) /\
  b_live (mark_released v b s (s + n)) = rm_span s (b_live b) /\
  b_aused (mark_released v b s (s + n)) = b_aused b - n.
Proof.
  unfold mark_released, same_geom. replace (s + n - s) with n by lia.
  destruct (b_incr b && (b_ss b =? s + n)); [|destruct (b_aused b - n =? b_pad b)]; cbn; splits; reflexivity.
Qed.

Lemma length_rm s n l :
  NoDup l -> In (s, n) l -> (forall sp, In sp l -> fst sp = s -> sp = (s, n)) ->
  Z.of_nat (length (rm_span s l)) = Z.of_nat (length l) - 1.
Proof.
  induction l as [|sp r IH]; intros Hnd Hin Huniq; [destruct Hin|].
  inversion Hnd as [|? ? Hx Hnd']; subst.
  cbn [rm_span filter].
  destruct (Z.eqb_spec (fst sp) s) as [E|E]; cbn [negb].
  - assert (sp = (s, n)) as -> by (apply Huniq; [left; reflexivity|assumption]).
    assert (Hnone : forall x, In x r -> fst x <> s).
    { intros x Hx' Ex. assert (x = (s, n)) as -> by (apply Huniq; [right; assumption|assumption]). contradiction. }
    assert (filter (fun sp => negb (fst sp =? s)) r = r) as ->.
    { clear -Hnone. induction r as [|y r IH]; [reflexivity|]. cbn.
      destruct (Z.eqb_spec (fst y) s) as [E|E]; cbn.
      - exfalso. apply (Hnone y (or_introl eq_refl) E).
      - f_equal. apply IH. intros x Hx2. apply Hnone. right; assumption. }
    cbn [length]. lia.
  - destruct Hin as [->|Hin]; [cbn in E; contradiction|].
    cbn [length]. fold (rm_span s r). rewrite Nat2Z.inj_succ, IH; try assumption; [cbn [length]; lia|].
    intros x Hx2. apply Huniq. right; assumption.
Qed.

Lemma live_uniq b s n : bstruct b -> In (s, n) (b_live b) -> forall sp, In sp (b_live b) -> fst sp = s -> sp = (s, n).
Proof.
  intros S Hin sp Hsp Hs. destruct (bs_spans b S _ Hsp) as (A' & B' & C'). destruct (bs_spans b S _ Hin) as (A & B & C).
  cbn [fst snd] in *. apply (bs_disj b S sp (s, n) s); try assumption; unfold in_span; cbn; lia.
Qed.

Lemma empty_live_nil b : binv b -> b_empty b = true -> b_live b = [].
Proof.
  intros [S C] He. apply (bc_empty b C) in He. pose proof (bs_sum b S) as Hs.
  destruct (b_live b) as [|sp r] eqn:El; [reflexivity|exfalso].
  assert (1 <= snd sp) by (apply (bs_spans b S sp); rewrite El; left; reflexivity).
  assert (0 <= sum_len r).
  { apply sum_len_nonneg. intros x Hx. apply (bs_spans b S x). rewrite El. right; assumption. }
  cbn [sum_len] in Hs. lia.
Qed.

Lemma live_not_empty b sp : binv b -> In sp (b_live b) -> b_empty b = false.
Proof.
  intros I Hin. destruct (b_empty b) eqn:E; [|reflexivity].
  rewrite (empty_live_nil b I E) in Hin. destruct Hin.
Qed.

Lemma emptyf_le_sump b l : In b l -> emptyf b <= sump emptyf (b_pool b) l.
Proof.
  induction l as [|x r IH]; [intros []|]. intros [<-|H]; cbn [sump].
  - rewrite Z.eqb_refl. pose proof (sump_emptyf_nonneg (b_pool x) r). lia.
  - specialize (IH H). assert (0 <= (if b_pool x =? b_pool b then emptyf x else 0)).
    { unfold emptyf. destruct (b_pool x =? b_pool b), (b_empty x); lia. } lia.
Qed.

Lemma ginv_release c st id off :
  cfg_ok c -> ginv c st -> valid_ptr c st id off -> ginv c (fst (release c st id off)).
Proof.
  intros Hc G V. destruct Hc as [Hg Hpools Hbs Hvar]. unfold release.
  destruct (find_block id (blocks st)) as [b|] eqn:Ef; [|exact G].
  destruct (V b Ef) as [n Hin]. clear V.
  destruct (find_block_in _ _ _ Ef) as [Hbin Hbid].
  destruct G as [GB GI GN GP GC GNid].
  pose proof GB as GB'. rewrite Forall_forall in GB'. destruct (GB' b Hbin) as (Ib & Pb & Idb).
  set (p := b_pool b) in *. set (g := pool_gran c p) in *. set (idx := off / g) in *.
  rewrite (span_end_live b idx n (proj1 Ib) Hin). replace (idx + n - idx) with n by lia.
  rewrite Hvar.
  pose proof (binv_release b idx n Ib Hin) as Ib'.
  destruct (mark_released_fields fixed b idx n) as (Gm & Lm & Am).
  set (b' := mark_released fixed b idx (idx + n)) in *.
  pose proof Gm as (g1 & g2 & g3 & g4 & g5).
  assert (Hbok' : block_ok c (nextid st) b') by (split; [assumption|]; rewrite g1, g2; split; assumption).
  assert (Hne : b_empty b = false) by (apply (live_not_empty b _ Ib Hin)).
  assert (Hlive : livef b' = livef b - 1).
  { unfold livef. rewrite Lm. apply (length_rm idx n); [apply (bs_nodup b (proj1 Ib))|assumption|apply live_uniq; [apply Ib|assumption]]. }
  assert (Ef' : find_block (b_id b') (blocks st) = Some b) by (rewrite g1, Hbid; assumption).
  pose proof (GP p Pb) as [P1 P2 P3 P4 P5].
  assert (Hlen : 0 <= p < Z.of_nat (length (pools st))) by lia.
  assert (Hother : forall q bl' pl' a', 0 <= q < c_pools c -> q <> p ->
            (forall f, sump f q bl' = sump f q (blocks st)) ->
            pool_ok c bl' q (get_pool (mkState bl' (set_pool (pools st) p pl') a' (nextid st)) q)).
  { intros q bl' pl' a' Hq Hqp Hs.
    rewrite (get_set_other _ _ (blocks st) _ (acount st) _ (nextid st) p q) by lia.
    destruct (GP q Hq) as [Q1 Q2 Q3 Q4 Q5]. destruct st as [bl0 ps0 ac0 ni0]; cbn [blocks pools acount nextid] in *.
    constructor; rewrite ?Hs; assumption. }
  destruct (b_empty b') eqn:Ee.
  - pose proof (empty_live_nil b' Ib' Ee) as Hnil.
    assert (livef b = 1) by (unfold livef in *; rewrite Hnil in Hlive; cbn in Hlive; lia).
    destruct ((0 <? p_empty (get_pool st p)) || c_imm c) eqn:Ed; cbn [fst].
    + constructor; cbn [blocks pools acount nextid].
      * apply remove_block_forall. assumption.
      * apply remove_block_nodup. assumption.
      * rewrite set_pool_length. assumption.
      * intros q Hq. destruct (Z.eq_dec q p) as [->|Hqp].
        -- rewrite get_set_same by assumption.
           pose proof (sump_emptyf_nonneg p (remove_block id (blocks st))) as Hnn.
           constructor; cbn [p_count p_empty p_tsize p_tused]; rewrite (remove_block_sump _ p b id _ Ef); fold p; rewrite Z.eqb_refl in *.
           ++ rewrite P1. change (onef b) with 1. lia.
           ++ rewrite P2, g4. lia.
           ++ rewrite P3, Am. lia.
           ++ rewrite (remove_block_sump _ p b id _ Ef) in Hnn. fold p in Hnn. rewrite Z.eqb_refl in Hnn.
              replace (emptyf b) with 0 by (unfold emptyf; rewrite Hne; reflexivity). lia.
           ++ intros Hi. replace (emptyf b) with 0 by (unfold emptyf; rewrite Hne; reflexivity). specialize (P5 Hi). lia.
        -- apply Hother; try assumption. intros f. rewrite (remove_block_sump f q b id _ Ef). fold p.
           replace (p =? q) with false by (symmetry; apply Z.eqb_neq; lia). lia.
      * rewrite (remove_block_live b id _ Ef), GC. lia.
      * assumption.
    + apply orb_false_iff in Ed. destruct Ed as [Ed1 Ed2]. apply Z.ltb_ge in Ed1.
      constructor; cbn [blocks pools acount nextid].
      * apply replace_block_forall; assumption.
      * rewrite (replace_block_ids b b' _ Ef'). assumption.
      * rewrite set_pool_length. assumption.
      * intros q Hq. destruct (Z.eq_dec q p) as [->|Hqp].
        -- rewrite get_set_same by assumption.
           constructor; cbn [p_count p_empty p_tsize p_tused]; rewrite (replace_block_sump _ p b b' _ Ef' g2); fold p; rewrite Z.eqb_refl.
           ++ rewrite P1. change (onef b) with 1; change (onef b') with 1. lia.
           ++ rewrite P2, g4. lia.
           ++ rewrite P3, Am. lia.
           ++ replace (emptyf b) with 0 by (unfold emptyf; rewrite Hne; reflexivity); replace (emptyf b') with (if b_empty b' then 1 else 0) by reflexivity; rewrite Ee. lia.
           ++ intros Hi. rewrite Hi in Ed2. discriminate.
        -- apply Hother; try assumption. intros f. rewrite (replace_block_sump f q b b' _ Ef' g2). fold p.
           replace (p =? q) with false by (symmetry; apply Z.eqb_neq; lia). lia.
      * rewrite (replace_block_live b b' _ Ef'), GC. lia.
      * assumption.
  - cbn [fst]. constructor; cbn [blocks pools acount nextid].
    + apply replace_block_forall; assumption.
    + rewrite (replace_block_ids b b' _ Ef'). assumption.
    + rewrite set_pool_length. assumption.
    + intros q Hq. destruct (Z.eq_dec q p) as [->|Hqp].
      * rewrite get_set_same by assumption.
        constructor; cbn [p_count p_empty p_tsize p_tused]; rewrite (replace_block_sump _ p b b' _ Ef' g2); fold p; rewrite Z.eqb_refl.
        -- rewrite P1. change (onef b) with 1; change (onef b') with 1. lia.
        -- rewrite P2, g4. lia.
        -- rewrite P3, Am. lia.
        -- replace (emptyf b) with 0 by (unfold emptyf; rewrite Hne; reflexivity); replace (emptyf b') with (if b_empty b' then 1 else 0) by reflexivity; rewrite Ee. lia.
        -- intros Hi. replace (emptyf b) with 0 by (unfold emptyf; rewrite Hne; reflexivity); replace (emptyf b') with (if b_empty b' then 1 else 0) by reflexivity; rewrite Ee. specialize (P5 Hi). lia.
      * apply Hother; try assumption. intros f. rewrite (replace_block_sump f q b b' _ Ef' g2). fold p.
        replace (p =? q) with false by (symmetry; apply Z.eqb_neq; lia). lia.
    + rewrite (replace_block_live b b' _ Ef'), GC. lia.
    + assumption.
Qed.

(* ------------------------------------------------------------------ shrink *)
Lemma mark_shrunk_fields b s m n :
  same_geom b (mark_shrunk b s (s + m) (s + n)) /\
  b_live (mark_shrunk b s (s + m) (s + n)) = (s, m) :: rm_span s (b_live b) /\
  b_aused (mark_shrunk b s (s + m) (s + n)) = b_aused b - (n - m) /\
  b_empty (mark_shrunk b s (s + m) (s + n)) = b_empty b.
Proof.
  unfold mark_shrunk, same_geom. replace (s + n - (s + m)) with (n - m) by lia. replace (s + m - s) with m by lia.
  destruct (b_incr b && (b_ss b =? s + n)); cbn; splits; reflexivity.
Qed.

Lemma ginv_shrink c st id off ns :
  cfg_ok c -> ginv c st -> valid_ptr c st id off -> 0 <= ns -> ginv c (fst (shrink c st id off ns)).
Proof.
  intros Hc G V Hns. unfold shrink.
  destruct (Z.eqb_spec ns 0) as [E0|E0].
  { pose proof (ginv_release c st id off Hc G V) as GR.
    destruct (release c st id off) as [st' r]. cbn [fst] in GR. destruct r; cbn [fst]; assumption. }
  destruct Hc as [Hg Hpools Hbs Hvar].
  destruct (find_block id (blocks st)) as [b|] eqn:Ef; [|exact G].
  destruct (V b Ef) as [n Hin]. clear V.
  destruct (find_block_in _ _ _ Ef) as [Hbin Hbid].
  destruct G as [GB GI GN GP GC GNid].
  pose proof GB as GB'. rewrite Forall_forall in GB'. destruct (GB' b Hbin) as (Ib & Pb & Idb).
  set (p := b_pool b) in *. set (g := pool_gran c p) in *. set (idx := off / g) in *.
  pose proof (pool_gran_pos c p Hg ltac:(lia)) as Hgp. fold g in Hgp.
  destruct (negb (Z.testbit (b_used b) idx)); [constructor; assumption|].
  rewrite (span_end_live b idx n (proj1 Ib) Hin). replace (idx + n - idx) with n by lia.
  set (shr := (ns + g - 1) / g). pose proof (ceil_ge1 ns g Hgp ltac:(lia)) as Hshr. fold shr in Hshr.
  destruct (Z.ltb_spec n shr); [constructor; assumption|].
  destruct (Z.eqb_spec (n - shr) 0); [constructor; assumption|].
  cbn [fst].
  pose proof (binv_shrink b idx n shr Ib Hin Hshr ltac:(lia)) as Ib'.
  destruct (mark_shrunk_fields b idx shr n) as (Gm & Lm & Am & Em).
  set (b' := mark_shrunk b idx (idx + shr) (idx + n)) in *.
  pose proof Gm as (g1 & g2 & g3 & g4 & g5).
  assert (Hbok' : block_ok c (nextid st) b') by (split; [assumption|]; rewrite g1, g2; split; assumption).
  assert (Hlive : livef b' = livef b).
  { unfold livef. rewrite Lm. cbn [length]. rewrite Nat2Z.inj_succ.
    rewrite (length_rm idx n); [lia|apply (bs_nodup b (proj1 Ib))|assumption|apply live_uniq; [apply Ib|assumption]]. }
  assert (Ef' : find_block (b_id b') (blocks st) = Some b) by (rewrite g1, Hbid; assumption).
  pose proof (GP p Pb) as [P1 P2 P3 P4 P5].
  assert (Hlen : 0 <= p < Z.of_nat (length (pools st))) by lia.
  constructor; cbn [blocks pools acount nextid].
  - apply replace_block_forall; assumption.
  - rewrite (replace_block_ids b b' _ Ef'). assumption.
  - rewrite set_pool_length. assumption.
  - intros q Hq. destruct (Z.eq_dec q p) as [->|Hqp].
    + rewrite get_set_same by assumption.
      constructor; cbn [p_count p_empty p_tsize p_tused]; rewrite (replace_block_sump _ p b b' _ Ef' g2); fold p; rewrite Z.eqb_refl.
      * rewrite P1. change (onef b) with 1; change (onef b') with 1. lia.
      * rewrite P2, g4. lia.
      * rewrite P3, Am. lia.
      * unfold emptyf at 2 3. rewrite Em. lia.
      * intros Hi. unfold emptyf at 2 3. rewrite Em. specialize (P5 Hi). lia.
    + rewrite (get_set_other _ _ (blocks st) _ (acount st) _ (nextid st) p q) by lia.
      destruct (GP q Hq) as [Q1 Q2 Q3 Q4 Q5]. destruct st as [bl0 ps0 ac0 ni0]; cbn [blocks pools acount nextid] in *.
      assert (Hs : forall f, sump f q (replace_block b' bl0) = sump f q bl0).
      { intros f. rewrite (replace_block_sump f q b b' _ Ef' g2). fold p.
        replace (p =? q) with false by (symmetry; apply Z.eqb_neq; lia). lia. }
      constructor; rewrite ?Hs; assumption.
  - rewrite (replace_block_live b b' _ Ef'), GC. lia.
  - assumption.
Qed.

(* ------------------------------------------------------------------ reset *)
Lemma first_of_pool_some p l b : first_of_pool p l = Some b -> In b l /\ b_pool b = p.
Proof.
  induction l as [|x r IH]; cbn; [discriminate|].
  destruct (Z.eqb_spec (b_pool x) p) as [E|E].
  - intros [= <-]. split; [left; reflexivity|assumption].
  - intros H. destruct (IH H). split; [right; assumption|assumption].
Qed.

Lemma wipe_block_ok c nid b :
  block_ok c nid b ->
  block_ok c nid (wipe_block b) /\ b_live (wipe_block b) = [] /\ b_empty (wipe_block b) = true /\
  b_id (wipe_block b) = b_id b /\ b_pool (wipe_block b) = b_pool b.
Proof.
  intros (I & P & D). unfold wipe_block. destruct (b_empty b) eqn:E.
  - splits; try reflexivity; [exact (conj I (conj P D))|apply empty_live_nil; assumption|assumption].
  - splits; try reflexivity. split; [|split; assumption].
    apply binv_clear; [apply (bs_pad b (proj1 I))|apply (bs_area b (proj1 I))].
Qed.

Lemma pool_ok_ext c l1 l2 q pl : (forall f, sump f q l2 = sump f q l1) -> pool_ok c l1 q pl -> pool_ok c l2 q pl.
Proof. intros H [A B C D E]. constructor; rewrite ?H; assumption. Qed.

Definition reset_block_ok (c : config) (nid : Z) (bl : list block) (lo hi : Z) (b : block) : Prop :=
  block_ok c nid b /\ lo <= b_pool b < hi /\ b_live b = [] /\ b_empty b = true /\
  exists b0, In b0 bl /\ b_id b0 = b_id b /\ b_pool b0 = b_pool b.

Lemma reset_pools_ok c nid keep bl :
  Forall (block_ok c nid) bl -> NoDup (map b_id bl) -> (keep = true -> c_imm c = false) ->
  forall ps p, (forall pl, In pl ps -> 0 <= p_empty pl <= 1) ->
  length (snd (reset_pools keep bl ps p)) = length ps /\
  Forall (reset_block_ok c nid bl p (p + Z.of_nat (length ps))) (fst (reset_pools keep bl ps p)) /\
  NoDup (map b_id (fst (reset_pools keep bl ps p))) /\
  (forall k, (k < length ps)%nat ->
             pool_ok c (fst (reset_pools keep bl ps p)) (p + Z.of_nat k) (nth k (snd (reset_pools keep bl ps p)) pool0)).
Proof.
  intros HF HN Hk. induction ps as [|pl r IH]; intros p Hpe.
  - cbn. split; [reflexivity|]. split; [constructor|]. split; [constructor|]. intros k' Hk'. lia.
  - cbn [reset_pools].
    specialize (IH (p + 1) (fun x Hx => Hpe x (or_intror Hx))).
    destruct (reset_pools keep bl r (p + 1)) as [bl_r ps_r] eqn:Er. cbn [fst snd] in IH.
    destruct IH as (L & F & N & P).
    assert (Hzero : forall f, sump f p bl_r = 0).
    { intros f. apply sump_zero. intros x Hx. rewrite Forall_forall in F. destruct (F x Hx) as (_ & Hr & _). lia. }
    assert (Fw : Forall (reset_block_ok c nid bl p (p + Z.of_nat (length (pl :: r)))) bl_r).
    { eapply Forall_impl; [|exact F]. intros x (A & B & C). split; [assumption|]. split; [cbn [length]; lia|assumption]. }
    assert (Hdrop : length (snd (bl_r, mkPool 0 (p_empty pl) 0 0 :: ps_r)) = length (pl :: r) /\
                    Forall (reset_block_ok c nid bl p (p + Z.of_nat (length (pl :: r)))) (fst (bl_r, mkPool 0 (p_empty pl) 0 0 :: ps_r)) /\
                    NoDup (map b_id (fst (bl_r, mkPool 0 (p_empty pl) 0 0 :: ps_r))) /\
                    (forall k, (k < length (pl :: r))%nat ->
                               pool_ok c (fst (bl_r, mkPool 0 (p_empty pl) 0 0 :: ps_r)) (p + Z.of_nat k)
                                       (nth k (snd (bl_r, mkPool 0 (p_empty pl) 0 0 :: ps_r)) pool0))).
    { cbn [fst snd]. splits; try assumption; [cbn [length]; lia|].
      intros [|k] Hk'.
      - cbn [nth]. replace (p + Z.of_nat 0) with p by lia.
        pose proof (Hpe pl (or_introl eq_refl)).
        constructor; cbn [p_count p_empty p_tsize p_tused]; rewrite ?Hzero; try reflexivity; try lia.
      - cbn [nth]. replace (p + Z.of_nat (S k)) with (p + 1 + Z.of_nat k) by lia. apply P. cbn [length] in Hk'. lia. }
    destruct (first_of_pool p bl) as [b|] eqn:Ef; [|exact Hdrop].
    destruct keep; [|exact Hdrop].
    destruct (first_of_pool_some _ _ _ Ef) as [Hbin Hbp].
    pose proof HF as HF'. rewrite Forall_forall in HF'.
    destruct (wipe_block_ok c nid b (HF' b Hbin)) as (W1 & W2 & W3 & W4 & W5).
    set (b' := wipe_block b) in *.
    cbn [fst snd]. splits.
    + cbn [length]. lia.
    + constructor; [|assumption]. split; [assumption|]. split; [rewrite W5, Hbp; cbn [length]; lia|].
      split; [assumption|]. split; [assumption|]. exists b. splits; congruence.
    + cbn [map]. constructor; [|assumption].
      intros Hin. apply in_map_iff in Hin. destruct Hin as [x [Hx1 Hx2]].
      rewrite Forall_forall in F. destruct (F x Hx2) as (_ & Hr & _ & _ & (x0 & X1 & X2 & X3)).
      assert (x0 = b) by (apply (nodup_ids_inj bl); try assumption; congruence). subst x0. lia.
    + intros [|k] Hk'.
      * cbn [nth]. replace (p + Z.of_nat 0) with p by lia.
        constructor; cbn [p_count p_empty p_tsize p_tused sump]; rewrite W5, Hbp, Z.eqb_refl, ?Hzero.
        -- reflexivity.
        -- lia.
        -- lia.
        -- unfold emptyf. rewrite W3. lia.
        -- intros Hi. rewrite (Hk eq_refl) in Hi. discriminate.
      * cbn [nth]. replace (p + Z.of_nat (S k)) with (p + 1 + Z.of_nat k) by lia.
        apply (pool_ok_ext c bl_r); [|apply P; cbn [length] in Hk'; lia].
        intros f. cbn [sump]. rewrite W5, Hbp.
        replace (p =? p + 1 + Z.of_nat k) with false by (symmetry; apply Z.eqb_neq; lia). lia.
Qed.

Lemma total_live_nil l : (forall b, In b l -> b_live b = []) -> total_live l = 0.
Proof.
  induction l as [|b r IH]; intros H; cbn [total_live]; [reflexivity|].
  unfold livef. rewrite (H b (or_introl eq_refl)). rewrite IH; [reflexivity|]. intros x Hx. apply H. right; assumption.
Qed.

Lemma ginv_reset c st hard : cfg_ok c -> ginv c st -> ginv c (reset c st hard).
Proof.
  intros Hc G. destruct Hc as [Hg Hpools Hbs Hvar]. destruct G as [GB GI GN GP GC GNid].
  unfold reset. rewrite Hvar. cbn [fix_reset fixed].
  set (keep := negb hard && negb (c_imm c)).
  assert (Hk : keep = true -> c_imm c = false).
  { unfold keep. intros H. apply andb_true_iff in H. destruct H as [_ H]. apply negb_true_iff in H. assumption. }
  assert (Hpe : forall pl, In pl (pools st) -> 0 <= p_empty pl <= 1).
  { intros pl Hin. destruct (In_nth _ _ pool0 Hin) as (k & Hk1 & Hk2).
    destruct (GP (Z.of_nat k) ltac:(lia)) as [_ _ _ P4 _]. unfold get_pool in P4. rewrite Nat2Z.id, Hk2 in P4.
    pose proof (sump_emptyf_nonneg (Z.of_nat k) (blocks st)). lia. }
  pose proof (reset_pools_ok c (nextid st) keep (blocks st) GB GI Hk (pools st) 0 Hpe) as (L & F & N & P).
  destruct (reset_pools keep (blocks st) (pools st) 0) as [bl ps] eqn:Er. cbn [fst snd] in *.
  constructor; cbn [blocks pools acount nextid].
  - eapply Forall_impl; [|exact F]. intros b (A & _). exact A.
  - assumption.
  - lia.
  - intros q Hq. unfold get_pool. cbn [pools]. specialize (P (Z.to_nat q) ltac:(lia)).
    rewrite Z2Nat.id in P by lia. rewrite Z.add_0_l in P. exact P.
  - symmetry. apply total_live_nil. intros b Hb. rewrite Forall_forall in F. destruct (F b Hb) as (_ & _ & H & _). exact H.
  - assumption.
Qed.

(* ------------------------------------------------------------------ histories *)
Definition valid_op (c : config) (st : state) (o : op) : Prop :=
  match o with
  | ORelease id off => valid_ptr c st id off
  | OShrink id off ns => valid_ptr c st id off /\ 0 <= ns
  | _ => True
  end.

Inductive reach (c : config) : state -> Prop :=
| reach_init : reach c (init_state c)
| reach_step st o : reach c st -> valid_op c st o -> reach c (fst (step c st o)).

Lemma nth_repeat_pool0 k m : nth k (repeat pool0 m) pool0 = pool0.
Proof. revert k; induction m as [|m IH]; intros [|k]; cbn; try reflexivity. apply IH. Qed.

Lemma ginv_init c : cfg_ok c -> ginv c (init_state c).
Proof.
  intros [Hg Hp Hb Hv]. unfold init_state. constructor; cbn [blocks pools acount nextid].
  - constructor.
  - constructor.
  - rewrite repeat_length. lia.
  - intros p _. unfold get_pool. cbn [pools]. rewrite nth_repeat_pool0.
    constructor; cbn; try reflexivity; try lia.
  - reflexivity.
  - lia.
Qed.

Lemma ginv_step c st o : cfg_ok c -> ginv c st -> valid_op c st o -> ginv c (fst (step c st o)).
Proof.
  intros Hc G V. destruct o; cbn [step valid_op] in *.
  - apply ginv_alloc; assumption.
  - apply ginv_release; assumption.
  - destruct V. apply ginv_shrink; assumption.
  - exact G.
  - apply ginv_reset; assumption.
Qed.

Theorem reach_ginv c st : cfg_ok c -> reach c st -> ginv c st.
Proof. intros Hc R. induction R; [apply ginv_init; assumption|apply ginv_step; assumption]. Qed.

(* ------------------------------------------------------------------ corollaries: live spans *)
Theorem live_spans_disjoint c st : cfg_ok c -> reach c st ->
  forall b1 b2 sp1 sp2, In b1 (blocks st) -> In b2 (blocks st) -> In sp1 (b_live b1) -> In sp2 (b_live b2) ->
  (b_id b1 = b_id b2 -> b1 = b2) /\
  (1 <= snd sp1 /\ b_pad b1 <= fst sp1 /\ fst sp1 + snd sp1 <= b_area b1) /\
  (b1 = b2 -> forall i, in_span sp1 i -> in_span sp2 i -> sp1 = sp2).
Proof.
  intros Hc R b1 b2 sp1 sp2 H1 H2 L1 L2. pose proof (reach_ginv c st Hc R) as [GB GI _ _ _ _].
  rewrite Forall_forall in GB. destruct (GB b1 H1) as ([S1 _] & _). splits.
  - intros E. apply (nodup_ids_inj (blocks st)); assumption.
  - apply (bs_spans b1 S1 sp1 L1).
  - apply (bs_spans b1 S1 sp1 L1).
  - apply (bs_spans b1 S1 sp1 L1).
  - intros <- i I1 I2. apply (bs_disj b1 S1 sp1 sp2 i); assumption.
Qed.

(* the bit vectors say exactly which granules are handed out, and where each span ends *)
Theorem bitvectors_exact c st : cfg_ok c -> reach c st ->
  forall b, In b (blocks st) ->
  (forall i, Z.testbit (b_used b) i = true <-> ((i = 0 /\ b_pad b = 1) \/ covered (b_live b) i)) /\
  (forall s n, In (s, n) (b_live b) -> span_end b s = s + n).
Proof.
  intros Hc R b Hb. pose proof (reach_ginv c st Hc R) as [GB _ _ _ _ _].
  rewrite Forall_forall in GB. destruct (GB b Hb) as ([S _] & _). split.
  - apply (bs_used b S).
  - intros s n Hin. apply span_end_live; assumption.
Qed.

Theorem window_sound c st : cfg_ok c -> reach c st ->
  forall b, In b (blocks st) ->
  (b_aused b < b_area b -> forall i, 0 <= i < b_area b -> Z.testbit (b_used b) i = false -> b_ss b <= i < b_se b) /\
  (b_incr b = true -> forall i, (0 <= i < b_ss b -> Z.testbit (b_used b) i = true) /\ (b_ss b <= i -> Z.testbit (b_used b) i = false)) /\
  (b_dirty b = false -> forall s m, 0 <= s -> s + m <= b_area b -> allfree (b_used b) s m -> m <= b_largest b) /\
  state_wsound st = true.
Proof.
  intros Hc R b Hb. pose proof (reach_ginv c st Hc R) as [GB _ _ _ _ _].
  pose proof GB as GB'. rewrite Forall_forall in GB'. destruct (GB' b Hb) as ([S C] & _). splits.
  - apply (bc_window b C).
  - intros Hi i. destruct (bc_incr b C Hi) as (_ & _ & _ & A & B). split; [apply A|apply B].
  - apply (bc_largest b C).
  - unfold state_wsound. apply forallb_forall. intros x Hx. destruct (GB' x Hx) as ([Sx Cx] & _).
    unfold block_wsound, block_full. pose proof (bc_range x Cx) as Rg. pose proof (bs_aused_le x Sx) as Hle.
    destruct (Z.eqb_spec (b_area x - b_aused x) 0) as [E|E]; [reflexivity|]. cbn [orb].
    rewrite Z.min_l by lia. rewrite (Z.min_l (b_se x)) by lia. rewrite Z.max_r by lia.
    pose proof (find_bit_spec (b_used x) false 0 (b_ss x) ltac:(lia)) as F1. cbn zeta in F1. destruct F1 as (A1 & B1 & C1).
    pose proof (find_bit_spec (b_used x) false (b_se x) (b_area x) ltac:(lia)) as F2. cbn zeta in F2. destruct F2 as (A2 & B2 & C2).
    apply andb_true_iff. split; apply Z.leb_le.
    + destruct (Z.lt_ge_cases (find_bit (b_used x) false 0 (b_ss x)) (b_ss x)) as [Hlt|]; [|lia].
      specialize (C1 Hlt). pose proof (bc_window x Cx ltac:(lia) (find_bit (b_used x) false 0 (b_ss x)) ltac:(lia) C1). lia.
    + destruct (Z.lt_ge_cases (find_bit (b_used x) false (b_se x) (b_area x)) (b_area x)) as [Hlt|]; [|lia].
      specialize (C2 Hlt). pose proof (bc_window x Cx ltac:(lia) (find_bit (b_used x) false (b_se x) (b_area x)) ltac:(lia) C2). lia.
Qed.

(* ------------------------------------------------------------------ foreign pointers *)
Theorem foreign_rejected c st id off ns :
  find_block id (blocks st) = None ->
  release c st id off = (st, RRelease InvalidState 0 false) /\
  query c st id off = RQuery InvalidArgument 0 0 0 /\
  (ns <> 0 -> shrink c st id off ns = (st, RShrink InvalidArgument 0 0)).
Proof.
  intros H. unfold release, query, shrink. rewrite H. splits; try reflexivity.
  intros Hns. replace (ns =? 0) with false by (symmetry; apply Z.eqb_neq; assumption). reflexivity.
Qed.

(* ------------------------------------------------------------------ empty-block policy *)
Definition nolivef (b : block) : Z := match b_live b with [] => 1 | _ => 0 end.

Lemma nolive_empty l q : Forall binv l -> sump nolivef q l = sump emptyf q l.
Proof.
  induction 1 as [|b r Hb Hr IH]; cbn [sump]; [reflexivity|]. rewrite IH. f_equal.
  destruct (b_pool b =? q); [|reflexivity]. unfold nolivef, emptyf.
  destruct (b_empty b) eqn:E.
  - rewrite (empty_live_nil b Hb E). reflexivity.
  - destruct (b_live b) as [|sp t] eqn:El; [|reflexivity]. exfalso.
    destruct Hb as [S C]. pose proof (bs_sum b S) as Hs. rewrite El in Hs. cbn in Hs.
    assert (b_empty b = true) by (apply (bc_empty b C); lia). congruence.
Qed.

Theorem empty_block_policy c st : cfg_ok c -> reach c st ->
  forall p, 0 <= p < c_pools c ->
  sump nolivef p (blocks st) <= 1 /\ (c_imm c = true -> sump nolivef p (blocks st) = 0) /\
  p_count (get_pool st p) = sump onef p (blocks st).
Proof.
  intros Hc R p Hp. pose proof (reach_ginv c st Hc R) as [GB _ _ GP _ _].
  destruct (GP p Hp) as [P1 _ _ P4 P5].
  assert (Forall binv (blocks st)) as FB by (eapply Forall_impl; [|exact GB]; intros b (A & _); exact A).
  rewrite (nolive_empty _ p FB). splits; [lia|assumption|assumption].
Qed.

Theorem reset_clears c st hard : cfg_ok c -> reach c st ->
  acount (reset c st hard) = 0 /\
  (forall b, In b (blocks (reset c st hard)) -> b_live b = [] /\ b_aused b = b_pad b) /\
  (hard = true \/ c_imm c = true -> blocks (reset c st hard) = []).
Proof.
  intros Hc R. pose proof (reach_ginv c st Hc R) as G.
  pose proof (reach_step c st (OReset hard) R I) as R'. cbn [step fst] in R'.
  pose proof (reach_ginv c _ Hc R') as [GB' _ _ _ GC' _].
  pose proof Hc as [Hg Hpools Hbs Hvar].
  splits.
  - unfold reset. destruct (reset_pools _ _ _ _). cbn [acount]. rewrite Hvar. reflexivity.
  - intros b Hb. destruct G as [GB GI GN GP GC GNid].
    assert (Hk : negb hard && negb (c_imm c) = true -> c_imm c = false).
    { intros H. apply andb_true_iff in H. destruct H as [_ H]. apply negb_true_iff in H. assumption. }
    assert (Hpe : forall pl, In pl (pools st) -> 0 <= p_empty pl <= 1).
    { intros pl Hin. destruct (In_nth _ _ pool0 Hin) as (k & Hk1 & Hk2).
      destruct (GP (Z.of_nat k) ltac:(lia)) as [_ _ _ P4 _]. unfold get_pool in P4. rewrite Nat2Z.id, Hk2 in P4.
      pose proof (sump_emptyf_nonneg (Z.of_nat k) (blocks st)). lia. }
    pose proof (reset_pools_ok c (nextid st) _ (blocks st) GB GI Hk (pools st) 0 Hpe) as (_ & F & _ & _).
    unfold reset in Hb. destruct (reset_pools (negb hard && negb (c_imm c)) (blocks st) (pools st) 0) as [bl ps] eqn:Er.
    cbn [fst snd blocks] in *. rewrite Forall_forall in F. destruct (F b Hb) as ((Ib & _) & _ & Hl & He & _).
    split; [assumption|]. apply (bc_empty b (proj2 Ib)). assumption.
  - intros Hh. unfold reset.
    assert (negb hard && negb (c_imm c) = false) as -> by (destruct Hh as [-> | ->]; [reflexivity|apply andb_false_r]).
    assert (forall ps p, fst (reset_pools false (blocks st) ps p) = []) as Hnil.
    { induction ps as [|pl r IH]; intros p; cbn [reset_pools]; [reflexivity|].
      specialize (IH (p + 1)). destruct (reset_pools false (blocks st) r (p + 1)) as [a b0]. cbn [fst] in IH. subst a.
      destruct (first_of_pool p (blocks st)); reflexivity. }
    specialize (Hnil (pools st) 0). destruct (reset_pools false (blocks st) (pools st) 0). cbn [fst blocks] in *. assumption.
Qed.

Theorem initialized_flag c : cfg_ok c -> is_initialized c = true.
Proof.
  intros [Hg Hp Hb Hv]. unfold is_initialized. rewrite Hv. cbn [fix_init fixed].
  apply negb_true_iff. apply Z.eqb_neq. lia.
Qed.

(* ------------------------------------------------------------------ what alloc returns *)
Lemma align_up_lt x a : 0 < a -> align_up x a < x + a.
Proof.
  intros Ha. unfold align_up. pose proof (Z.div_mod (x + a - 1) a ltac:(lia)).
  pose proof (Z.mod_pos_bound (x + a - 1) a Ha). nia.
Qed.

Lemma align_up_mod x a : 0 < a -> align_up x a mod a = 0.
Proof. intros Ha. unfold align_up. apply Z_mod_mult. Qed.

Lemma pool_gran_half c p : 1 <= p -> pool_gran c p / 2 = pool_gran c (p - 1).
Proof.
  intros Hp. unfold pool_gran. replace p with (Z.succ (p - 1)) at 1 by lia.
  rewrite Z.pow_succ_r by lia. replace (c_gran c * (2 * 2 ^ (p - 1))) with (c_gran c * 2 ^ (p - 1) * 2) by lia.
  apply Z.div_mul. lia.
Qed.

Lemma size_to_pool_go_div c size : forall k p, 0 <= p < Z.of_nat k ->
  let r := size_to_pool_go k size (pool_gran c p) p in r = 0 \/ size mod pool_gran c r = 0.
Proof.
  induction k as [|k IH]; intros p Hp; [lia|]. cbn [size_to_pool_go].
  destruct (Z.eqb_spec p 0) as [->|Hne]; [left; reflexivity|].
  destruct (Z.eqb_spec (size mod pool_gran c p) 0) as [E|E]; [right; assumption|].
  rewrite pool_gran_half by lia. apply IH. lia.
Qed.

Lemma size_to_pool_div c size :
  1 <= c_pools c -> size mod c_gran c = 0 -> size mod pool_gran c (size_to_pool c size) = 0.
Proof.
  intros Hp Hm. unfold size_to_pool.
  destruct (size_to_pool_go_div c size (Z.to_nat (c_pools c)) (c_pools c - 1) ltac:(lia)) as [E|E].
  - rewrite E. unfold pool_gran. rewrite Z.pow_0_r, Z.mul_1_r. assumption.
  - assumption.
Qed.

Lemma ceil_exact x g : 0 < g -> x mod g = 0 -> (x + g - 1) / g = x / g /\ x = x / g * g.
Proof.
  intros Hg Hm. pose proof (Z.div_mod x g ltac:(lia)) as D. rewrite Hm in D.
  split; [|lia]. set (q := x / g) in *. replace (x + g - 1) with (q * g + (g - 1)) by lia.
  rewrite Z.div_add_l by lia. rewrite Z.div_small by lia. lia.
Qed.

Theorem alloc_result c st size st' id off len :
  cfg_ok c -> reach c st -> 0 <= size -> size + c_gran c <= two64 ->
  alloc c st size = (st', RAlloc Ok id off len) ->
  size <= len < size + c_gran c /\ len mod c_gran c = 0 /\
  exists b, In b (blocks st') /\ b_id b = id /\ b_pool b = size_to_pool c len /\
            off mod pool_gran c (b_pool b) = 0 /\ len mod pool_gran c (b_pool b) = 0 /\
            In (off / pool_gran c (b_pool b), len / pool_gran c (b_pool b)) (b_live b) /\
            (nextid st' <> nextid st ->
             forall b0, In b0 (blocks st) -> b_pool b0 = b_pool b -> no_room b0 (len / pool_gran c (b_pool b))).
Proof.
  intros Hc R Hs0 Hs1 HA. pose proof (reach_ginv c st Hc R) as G.
  destruct Hc as [Hg Hpools Hbs Hvar]. unfold alloc in HA.
  pose proof (align_up_ge size (c_gran c) Hg) as A1. pose proof (align_up_lt size (c_gran c) Hg) as A2.
  pose proof (align_up_mod size (c_gran c) Hg) as A3.
  rewrite (Z.mod_small (align_up size (c_gran c)) two64) in HA by lia.
  set (sz := align_up size (c_gran c)) in *.
  destruct (Z.eqb_spec sz 0) as [E0|E0]; [inversion HA|].
  destruct (Z.leb_spec 2147483647 (sz - 1)) as [E1|E1]; [inversion HA|].
  assert (Hsz : 1 <= sz) by lia.
  set (p := size_to_pool c sz) in *. pose proof (size_to_pool_range c sz Hpools) as Hp. fold p in Hp.
  pose proof (size_to_pool_div c sz Hpools A3) as Hdiv. fold p in Hdiv.
  set (g := pool_gran c p) in *. pose proof (pool_gran_pos c p Hg ltac:(lia)) as Hgp. fold g in Hgp.
  destruct (ceil_exact sz g Hgp Hdiv) as [Hn1 Hn2].
  set (n := (sz + g - 1) / g) in *. pose proof (ceil_ge1 sz g Hgp Hsz) as Hn. fold n in Hn.
  rewrite Hvar in HA.
  destruct G as [GB GI GN GP GC GNid].
  pose proof (try_blocks_ok c (nextid st) p n Hn (blocks st) GB) as (F' & G' & W).
  destruct (try_blocks fixed p n (blocks st)) as [bl' [[[id' s] we]|]] eqn:Et; cbn [fst snd] in *.
  - inversion HA; subst st' id off len. clear HA.
    destruct W as (_ & _ & _ & (b & b' & X1 & X2 & X3 & X4 & X5 & X6 & X7 & X8)).
    splits; try lia. exists b'. cbn [blocks nextid]. rewrite X5. fold g. splits; try assumption; try reflexivity.
    + apply Z_mod_mult.
    + rewrite Z_div_mult by lia. rewrite <- Hn1. rewrite X6. left; reflexivity.
    + intros Hne. contradiction.
  - inversion HA; subst st' id off len. clear HA.
    destruct W as (_ & _ & _ & NR).
    set (bytes := ideal_block_size c p (last_of_pool p bl' None) sz) in *.
    set (area := (bytes + g - 1) / g) in *.
    set (pad := if c_pad c then 1 else 0) in *.
    assert (Hpad : pad = 0 \/ pad = 1) by (unfold pad; destruct (c_pad c); [right|left]; reflexivity).
    assert (Hfit : pad + n <= area).
    { unfold pad, n, area, bytes, g. apply new_area_fits; try assumption; lia. }
    destruct (binv_new_block (nextid st) p bytes area pad n Hpad Hn Hfit) as (NB & NL & NA & NE & NI & NP & NAr & NPd & NBy).
    set (nb := new_block_alloc fixed (nextid st) p bytes area pad n) in *.
    splits; try lia. exists nb. cbn [blocks nextid]. rewrite NP. fold g. splits; try assumption; try reflexivity.
    + apply in_or_app. right. left. reflexivity.
    + apply Z_mod_mult.
    + rewrite Z_div_mult by lia. rewrite <- Hn1. rewrite NL. left; reflexivity.
    + intros _ b0 Hb0 Hp0. rewrite <- Hn1. apply NR; assumption.
Qed.

(* ------------------------------------------------------------------ statistics *)
Fixpoint wsum (c : config) (f : block -> Z) (lo hi : Z) (l : list block) : Z :=
  match l with
  | [] => 0
  | b :: r => (if (lo <=? b_pool b) && (b_pool b <? hi) then f b * pool_gran c (b_pool b) else 0) + wsum c f lo hi r
  end.

Lemma wsum_split c f lo l : forall hi, lo < hi ->
  wsum c f lo hi l = sump f lo l * pool_gran c lo + wsum c f (lo + 1) hi l.
Proof.
  intros hi H. induction l as [|b r IH]; cbn [wsum sump]; [lia|]. rewrite IH.
  destruct (Z.eqb_spec (b_pool b) lo) as [E|E].
  - rewrite E. replace (lo <=? lo) with true by (symmetry; apply Z.leb_le; lia).
    replace (lo <? hi) with true by (symmetry; apply Z.ltb_lt; lia).
    replace (lo + 1 <=? lo) with false by (symmetry; apply Z.leb_gt; lia). cbn [andb]. lia.
  - destruct (Z.leb_spec lo (b_pool b)), (Z.leb_spec (lo + 1) (b_pool b)), (Z.ltb_spec (b_pool b) hi); cbn [andb]; lia.
Qed.

Lemma wsum_empty c f lo hi l : hi <= lo -> wsum c f lo hi l = 0.
Proof.
  intros H. induction l as [|b r IH]; cbn [wsum]; [reflexivity|]. rewrite IH.
  destruct (Z.leb_spec lo (b_pool b)), (Z.ltb_spec (b_pool b) hi); cbn [andb]; lia.
Qed.

Definition total (c : config) (f : block -> Z) (l : list block) : Z := wsum c f 0 (c_pools c) l.

Lemma stats_go_sums c bl : forall ps p0 acc,
  0 <= p0 ->
  (forall k, (k < length ps)%nat ->
     p_count (nth k ps pool0) = sump onef (p0 + Z.of_nat k) bl /\
     p_tused (nth k ps pool0) = sump b_aused (p0 + Z.of_nat k) bl /\
     p_tsize (nth k ps pool0) = sump b_area (p0 + Z.of_nat k) bl) ->
  let r := stats_go c ps p0 acc in
  s_allocs r = s_allocs acc /\
  s_used r = s_used acc + wsum c b_aused p0 (p0 + Z.of_nat (length ps)) bl /\
  s_reserved r = s_reserved acc + wsum c b_area p0 (p0 + Z.of_nat (length ps)) bl /\
  s_blocks r = s_blocks acc + (let fix cnt k ps := match ps with [] => 0 | pl :: t => p_count pl + cnt (k + 1) t end in cnt p0 ps).
Proof.
  induction ps as [|pl r IH]; intros p0 acc H0 H; cbn [stats_go length].
  - cbn zeta. rewrite !wsum_empty by lia. splits; lia.
  - cbn zeta.
    destruct (H O ltac:(cbn; lia)) as (C0 & U0 & S0). cbn [nth] in C0, U0, S0. rewrite Z.add_0_r in C0, U0, S0.
    specialize (IH (p0 + 1) (mkStats (s_blocks acc + p_count pl) (s_allocs acc)
                                     (s_used acc + p_tused pl * pool_gran c p0) (s_reserved acc + p_tsize pl * pool_gran c p0)) ltac:(lia)).
    cbn zeta in IH. destruct IH as (I1 & I2 & I3 & I4).
    { intros k Hk. specialize (H (S k) ltac:(cbn; lia)). cbn [nth] in H.
      replace (p0 + 1 + Z.of_nat k) with (p0 + Z.of_nat (S k)) by lia. exact H. }
    cbn [s_blocks s_allocs s_used s_reserved] in *.
    rewrite (wsum_split c b_aused p0 bl (p0 + Z.of_nat (S (length r)))) by lia.
    rewrite (wsum_split c b_area p0 bl (p0 + Z.of_nat (S (length r)))) by lia.
    replace (p0 + Z.of_nat (S (length r))) with (p0 + 1 + Z.of_nat (length r)) by lia.
    splits; try lia.
Qed.

Fixpoint sum_live_len (l : list block) (c : config) : Z :=
  match l with [] => 0 | b :: r => (b_pad b + sum_len (b_live b)) * pool_gran c (b_pool b) + sum_live_len r c end.

Lemma wsum_full c f l : (forall b, In b l -> 0 <= b_pool b < c_pools c) ->
  total c f l = fold_right (fun b a => f b * pool_gran c (b_pool b) + a) 0 l.
Proof.
  unfold total. induction l as [|b r IH]; intros H; cbn [wsum fold_right]; [reflexivity|].
  rewrite IH by (intros x Hx; apply H; right; assumption).
  pose proof (H b (or_introl eq_refl)).
  replace (0 <=? b_pool b) with true by (symmetry; apply Z.leb_le; lia).
  replace (b_pool b <? c_pools c) with true by (symmetry; apply Z.ltb_lt; lia). reflexivity.
Qed.

Theorem stats_exact c st : cfg_ok c -> reach c st ->
  s_allocs (statistics c st) = total_live (blocks st) /\
  s_used (statistics c st) =
    fold_right (fun b a => (b_pad b + sum_len (b_live b)) * pool_gran c (b_pool b) + a) 0 (blocks st) /\
  s_reserved (statistics c st) = fold_right (fun b a => b_area b * pool_gran c (b_pool b) + a) 0 (blocks st).
Proof.
  intros Hc R. pose proof (reach_ginv c st Hc R) as [GB GI GN GP GC GNid].
  assert (Hrange : forall b, In b (blocks st) -> 0 <= b_pool b < c_pools c).
  { intros b Hb. rewrite Forall_forall in GB. destruct (GB b Hb) as (_ & P & _). exact P. }
  unfold statistics.
  pose proof (stats_go_sums c (blocks st) (pools st) 0 (mkStats 0 (acount st) 0 0) ltac:(lia)) as H.
  cbn zeta in H. destruct H as (H1 & H2 & H3 & _).
  { intros k Hk. destruct (GP (Z.of_nat k) ltac:(lia)) as [P1 P2 P3 _ _]. unfold get_pool in *. rewrite Nat2Z.id in *.
    rewrite Z.add_0_l. splits; assumption. }
  cbn [s_allocs s_used s_reserved] in *. rewrite GN in *. rewrite !Z.add_0_l in H2, H3.
  splits.
  - rewrite H1. assumption.
  - rewrite H2. fold (total c b_aused (blocks st)). rewrite wsum_full by assumption.
    clear -GB. induction (blocks st) as [|b r IH]; cbn [fold_right]; [reflexivity|].
    inversion GB as [|? ? Hb Hr]; subst. rewrite (IH Hr). destruct Hb as ([S _] & _). rewrite (bs_sum b S). reflexivity.
  - rewrite H3. fold (total c b_area (blocks st)). apply wsum_full. assumption.
Qed.

(* ------------------------------------------------------------------ evolution of the set of live spans *)
Definition all_live (l : list block) : list (Z * (Z * Z)) :=
  flat_map (fun b => map (fun sp => (b_id b, sp)) (b_live b)) l.

Lemma in_all_live l id sp : In (id, sp) (all_live l) <-> exists b, In b l /\ b_id b = id /\ In sp (b_live b).
Proof.
  unfold all_live. rewrite in_flat_map. split.
  - intros [b [Hb Hin]]. apply in_map_iff in Hin. destruct Hin as [sp' [E Hsp]]. inversion E; subst. exists b. splits; try assumption; reflexivity.
  - intros [b [Hb [E Hsp]]]. exists b. split; [assumption|]. apply in_map_iff. exists sp. split; [rewrite E; reflexivity|assumption].
Qed.

Lemma try_blocks_live c nid p n : 1 <= n -> forall l,
  Forall (block_ok c nid) l ->
  match snd (try_blocks fixed p n l) with
  | Some (id, s, _) => forall x, In x (all_live (fst (try_blocks fixed p n l))) <-> x = (id, (s, n)) \/ In x (all_live l)
  | None => all_live (fst (try_blocks fixed p n l)) = all_live l
  end.
Proof.
  intros Hn. induction l as [|b r IH]; intros HF; [reflexivity|].
  inversion HF as [|? ? Hb Hr]; subst. specialize (IH Hr). destruct Hb as (Ib & Pb & Idb).
  cbn [try_blocks].
  destruct (Z.eqb_spec (b_pool b) p) as [Ep|Ep].
  - pose proof (block_alloc_ok b n Ib Hn) as BA.
    destruct (block_alloc fixed b n) as [b' [s|]] eqn:E; cbn [fst snd] in BA.
    + destruct BA as (_ & (g1 & _) & L & _). cbn [fst snd]. intros x. unfold all_live. cbn [flat_map].
      rewrite !in_app_iff, g1, L. cbn [map In]. split.
      * intros [[<-|H]|H]; [left; reflexivity|right; left; assumption|right; right; assumption].
      * intros [->|[H|H]]; [left; left; reflexivity|left; right; assumption|right; assumption].
    + destruct BA as (_ & (g1 & _) & L & _).
      destruct (try_blocks fixed p n r) as [r' res] eqn:Er. cbn [fst snd] in IH |- *.
      destruct res as [[[id s] we]|].
      * intros x. unfold all_live in *. cbn [flat_map]. rewrite !in_app_iff, g1, L, IH. tauto.
      * unfold all_live in *. cbn [flat_map]. rewrite g1, L, IH. reflexivity.
  - destruct (try_blocks fixed p n r) as [r' res] eqn:Er. cbn [fst snd] in IH |- *.
    destruct res as [[[id s] we]|].
    + intros x. unfold all_live in *. cbn [flat_map]. rewrite !in_app_iff, IH. tauto.
    + unfold all_live in *. cbn [flat_map]. rewrite IH. reflexivity.
Qed.

(* a successful alloc adds exactly the returned span; every other live span stays live (and nothing else appears) *)
Theorem alloc_frame c st size st' id off len :
  cfg_ok c -> reach c st -> 0 <= size -> size + c_gran c <= two64 ->
  alloc c st size = (st', RAlloc Ok id off len) ->
  let g := pool_gran c (size_to_pool c len) in
  forall x, In x (all_live (blocks st')) <-> x = (id, (off / g, len / g)) \/ In x (all_live (blocks st)).
Proof.
  intros Hc R Hs0 Hs1 HA g0. pose proof (reach_ginv c st Hc R) as G.
  destruct Hc as [Hg Hpools Hbs Hvar]. unfold alloc in HA.
  pose proof (align_up_ge size (c_gran c) Hg) as A1. pose proof (align_up_lt size (c_gran c) Hg) as A2.
  pose proof (align_up_mod size (c_gran c) Hg) as A3.
  rewrite (Z.mod_small (align_up size (c_gran c)) two64) in HA by lia.
  set (sz := align_up size (c_gran c)) in *.
  destruct (Z.eqb_spec sz 0) as [E0|E0]; [inversion HA|].
  destruct (Z.leb_spec 2147483647 (sz - 1)) as [E1|E1]; [inversion HA|].
  assert (Hsz : 1 <= sz) by lia.
  set (p := size_to_pool c sz) in *. pose proof (size_to_pool_range c sz Hpools) as Hp. fold p in Hp.
  pose proof (size_to_pool_div c sz Hpools A3) as Hdiv. fold p in Hdiv.
  set (g := pool_gran c p) in *. pose proof (pool_gran_pos c p Hg ltac:(lia)) as Hgp. fold g in Hgp.
  destruct (ceil_exact sz g Hgp Hdiv) as [Hn1 Hn2].
  set (n := (sz + g - 1) / g) in *. pose proof (ceil_ge1 sz g Hgp Hsz) as Hn. fold n in Hn.
  rewrite Hvar in HA.
  destruct G as [GB GI GN GP GC GNid].
  pose proof (try_blocks_live c (nextid st) p n Hn (blocks st) GB) as TL.
  destruct (try_blocks fixed p n (blocks st)) as [bl' [[[id' s] we]|]] eqn:Et; cbn [fst snd] in *.
  - inversion HA; subst st' id off len. clear HA. cbn [blocks]. subst g0. fold p. fold g.
    rewrite Z_div_mult by lia. rewrite <- Hn1. exact TL.
  - inversion HA; subst st' id off len. clear HA. cbn [blocks]. subst g0. fold p. fold g.
    set (bytes := ideal_block_size c p (last_of_pool p bl' None) sz) in *.
    set (area := (bytes + g - 1) / g) in *.
    set (pad := if c_pad c then 1 else 0) in *.
    assert (Hpad : pad = 0 \/ pad = 1) by (unfold pad; destruct (c_pad c); [right|left]; reflexivity).
    assert (Hfit : pad + n <= area).
    { unfold pad, n, area, bytes, g. apply new_area_fits; try assumption; lia. }
    destruct (binv_new_block (nextid st) p bytes area pad n Hpad Hn Hfit) as (NB & NL & NA & NE & NI & NP & NAr & NPd & NBy).
    set (nb := new_block_alloc fixed (nextid st) p bytes area pad n) in *.
    intros x. unfold all_live. rewrite flat_map_app, in_app_iff. cbn [flat_map]. rewrite app_nil_r, NL, NI. cbn [map In].
    fold (all_live bl'). rewrite TL. rewrite Z_div_mult by lia. rewrite <- Hn1. fold n. fold (all_live (blocks st)).
    split.
    + intros [H|[<-|[]]]; [right; assumption|left; reflexivity].
    + intros [->|H]; [right; left; reflexivity|left; assumption].
Qed.

Lemma in_replace_block l b b' x :
  NoDup (map b_id l) -> find_block (b_id b') l = Some b ->
  (In x (replace_block b' l) <-> x = b' \/ (In x l /\ b_id x <> b_id b')).
Proof.
  induction l as [|y r IH]; cbn [find_block replace_block map]; [discriminate|].
  intros Hnd. inversion Hnd as [|? ? Hy Hr]; subst.
  destruct (Z.eqb_spec (b_id y) (b_id b')) as [E|E].
  - intros _. cbn [In]. split.
    + intros [<-|H]; [left; reflexivity|]. right. split; [right; assumption|].
      intros E'. apply Hy. rewrite E, <- E'. apply in_map. assumption.
    + intros [->|[[<-|H] Hne]]; [left; reflexivity|contradiction|right; assumption].
  - intros Hf. cbn [In]. rewrite (IH Hr Hf). split.
    + intros [<-|[->|[H Hne]]]; [right; split; [left; reflexivity|assumption]|left; reflexivity|right; split; [right; assumption|assumption]].
    + intros [->|[[<-|H] Hne]]; [right; left; reflexivity|left; reflexivity|right; right; split; assumption].
Qed.

Lemma in_remove_block l id x :
  NoDup (map b_id l) -> (In x (remove_block id l) <-> In x l /\ b_id x <> id).
Proof.
  induction l as [|y r IH]; cbn [remove_block map]; [intros _; split; [intros []|intros [[] _]]|].
  intros Hnd. inversion Hnd as [|? ? Hy Hr]; subst.
  destruct (Z.eqb_spec (b_id y) id) as [E|E].
  - split.
    + intros H. split; [right; assumption|]. intros E'. apply Hy. rewrite E, <- E'. apply in_map. assumption.
    + intros [[<-|H] Hne]; [contradiction|assumption].
  - cbn [In]. rewrite (IH Hr). split.
    + intros [<-|[H Hne]]; [split; [left; reflexivity|assumption]|split; [right; assumption|assumption]].
    + intros [[<-|H] Hne]; [left; reflexivity|right; split; assumption].
Qed.

(* releasing a live span removes exactly that span from the set of live spans *)
Theorem release_frame c st id off b s n :
  cfg_ok c -> reach c st -> find_block id (blocks st) = Some b ->
  s = off / pool_gran c (b_pool b) -> In (s, n) (b_live b) ->
  snd (release c st id off) = RRelease Ok id (negb (existsb (fun x => b_id x =? id) (blocks (fst (release c st id off))))) /\
  forall x, In x (all_live (blocks (fst (release c st id off)))) <-> In x (all_live (blocks st)) /\ x <> (id, (s, n)).
Proof.
  intros Hc R Ef Hs Hin. pose proof (reach_ginv c st Hc R) as G.
  destruct Hc as [Hg Hpools Hbs Hvar]. destruct G as [GB GI GN GP GC GNid].
  destruct (find_block_in _ _ _ Ef) as [Hbin Hbid].
  pose proof GB as GB'. rewrite Forall_forall in GB'. destruct (GB' b Hbin) as (Ib & Pb & Idb).
  unfold release. rewrite Ef. rewrite <- Hs.
  rewrite (span_end_live b s n (proj1 Ib) Hin). replace (s + n - s) with n by lia. rewrite Hvar.
  pose proof (binv_release b s n Ib Hin) as Ib'.
  destruct (mark_released_fields fixed b s n) as (Gm & Lm & Am).
  set (b' := mark_released fixed b s (s + n)) in *.
  pose proof Gm as (g1 & g2 & g3 & g4 & g5).
  assert (Ef' : find_block (b_id b') (blocks st) = Some b) by (rewrite g1, Hbid; assumption).
  assert (Huniq := live_uniq b s n (proj1 Ib) Hin).
  assert (Hex_rm : existsb (fun x => b_id x =? id) (remove_block id (blocks st)) = false).
  { destruct (existsb (fun x => b_id x =? id) (remove_block id (blocks st))) eqn:Ex; [|reflexivity].
    apply existsb_exists in Ex. destruct Ex as [x [Hx1 Hx2]]. apply Z.eqb_eq in Hx2.
    apply (in_remove_block _ _ _ GI) in Hx1. destruct Hx1. contradiction. }
  assert (Hex_rp : existsb (fun x => b_id x =? id) (replace_block b' (blocks st)) = true).
  { apply existsb_exists. exists b'. split; [apply (in_replace_block _ b b' b' GI Ef'); left; reflexivity|]. apply Z.eqb_eq. congruence. }
  assert (Frm : b_live b' = [] -> forall x, In x (all_live (remove_block id (blocks st))) <-> In x (all_live (blocks st)) /\ x <> (id, (s, n))).
  { intros Hnil [i sp]. rewrite !in_all_live. split.
    - intros [blk [Hb1 [Hb2 Hb3]]]. apply (in_remove_block _ _ _ GI) in Hb1. destruct Hb1 as [Hb1 Hne]. split.
      + exists blk. splits; assumption.
      + intros E. inversion E; subst. contradiction.
    - intros [[blk [Hb1 [Hb2 Hb3]]] Hne]. exists blk. splits; try assumption.
      apply (in_remove_block _ _ _ GI). split; [assumption|]. intros E.
      assert (blk = b) by (apply (nodup_ids_inj (blocks st)); try assumption; congruence). subst blk.
      assert (In sp (rm_span s (b_live b))).
      { apply in_rm_span. split; [assumption|]. intros Es. apply Hne. rewrite (Huniq sp Hb3 Es). congruence. }
      rewrite <- Lm, Hnil in H. destruct H. }
  assert (Frp : forall x, In x (all_live (replace_block b' (blocks st))) <-> In x (all_live (blocks st)) /\ x <> (id, (s, n))).
  { intros [i sp]. rewrite !in_all_live. split.
    - intros [blk [Hb1 [Hb2 Hb3]]]. apply (in_replace_block _ b b' _ GI Ef') in Hb1. destruct Hb1 as [->|[Hb1 Hne]].
      + rewrite Lm in Hb3. apply in_rm_span in Hb3. destruct Hb3 as [Hb3 Hne]. split.
        * exists b. splits; try assumption. congruence.
        * intros E. inversion E; subst. cbn in Hne. contradiction.
      + split; [exists blk; splits; assumption|]. intros E. inversion E; subst. apply Hne. congruence.
    - intros [[blk [Hb1 [Hb2 Hb3]]] Hne].
      destruct (Z.eq_dec (b_id blk) id) as [E|E].
      + assert (blk = b) by (apply (nodup_ids_inj (blocks st)); try assumption; congruence). subst blk.
        exists b'. splits; [apply (in_replace_block _ b b' _ GI Ef'); left; reflexivity|congruence|].
        rewrite Lm. apply in_rm_span. split; [assumption|]. intros Es. apply Hne. rewrite (Huniq sp Hb3 Es). congruence.
      + exists blk. splits; try assumption. apply (in_replace_block _ b b' _ GI Ef'). right. split; [assumption|congruence]. }
  destruct (b_empty b') eqn:Ee.
  - pose proof (empty_live_nil b' Ib' Ee) as Hnil.
    destruct ((0 <? p_empty (get_pool st (b_pool b))) || c_imm c); cbn [fst snd blocks].
    + rewrite Hex_rm. split; [reflexivity|apply Frm; assumption].
    + rewrite Hex_rp. split; [reflexivity|apply Frp].
  - cbn [fst snd blocks]. rewrite Hex_rp. split; [reflexivity|apply Frp].
Qed.

(* shrinking a live span to m granules (1 <= m < n) replaces exactly that span by its prefix *)
Theorem shrink_frame c st id off ns b s n :
  cfg_ok c -> reach c st -> find_block id (blocks st) = Some b ->
  s = off / pool_gran c (b_pool b) -> In (s, n) (b_live b) -> 1 <= ns ->
  let g := pool_gran c (b_pool b) in
  let m := (ns + g - 1) / g in
  (n < m -> shrink c st id off ns = (st, RShrink InvalidArgument id (n * g))) /\
  (m = n -> shrink c st id off ns = (st, RShrink Ok id (n * g))) /\
  (m < n -> snd (shrink c st id off ns) = RShrink Ok id (m * g) /\
            forall x, In x (all_live (blocks (fst (shrink c st id off ns)))) <->
                      x = (id, (s, m)) \/ (In x (all_live (blocks st)) /\ x <> (id, (s, n)))).
Proof.
  intros Hc R Ef Hs Hin Hns g m. pose proof (reach_ginv c st Hc R) as G.
  destruct Hc as [Hg Hpools Hbs Hvar]. destruct G as [GB GI GN GP GC GNid].
  destruct (find_block_in _ _ _ Ef) as [Hbin Hbid].
  pose proof GB as GB'. rewrite Forall_forall in GB'. destruct (GB' b Hbin) as (Ib & Pb & Idb).
  pose proof (pool_gran_pos c (b_pool b) Hg ltac:(lia)) as Hgp. fold g in Hgp.
  pose proof (ceil_ge1 ns g Hgp Hns) as Hm. fold m in Hm.
  assert (Hused : Z.testbit (b_used b) s = true).
  { apply (bs_span_used b (s, n) s (proj1 Ib) Hin). destruct (bs_spans b (proj1 Ib) _ Hin) as (A & _). unfold in_span; cbn in *; lia. }
  unfold shrink. replace (ns =? 0) with false by (symmetry; apply Z.eqb_neq; lia).
  rewrite Ef. rewrite <- Hs. fold g. rewrite Hused. cbn [negb].
  rewrite (span_end_live b s n (proj1 Ib) Hin). replace (s + n - s) with n by lia. fold m.
  splits.
  - intros H. replace (n <? m) with true by (symmetry; apply Z.ltb_lt; assumption). rewrite <- Hbid. reflexivity.
  - intros H. replace (n <? m) with false by (symmetry; apply Z.ltb_ge; lia).
    replace (n - m =? 0) with true by (symmetry; apply Z.eqb_eq; lia). rewrite <- Hbid. reflexivity.
  - intros H. replace (n <? m) with false by (symmetry; apply Z.ltb_ge; lia).
    replace (n - m =? 0) with false by (symmetry; apply Z.eqb_neq; lia). cbn [fst snd blocks].
    split; [rewrite <- Hbid; reflexivity|].
    destruct (mark_shrunk_fields b s m n) as (Gm & Lm & Am & Em).
    set (b' := mark_shrunk b s (s + m) (s + n)) in *.
    pose proof Gm as (g1 & g2 & g3 & g4 & g5).
    assert (Ef' : find_block (b_id b') (blocks st) = Some b) by (rewrite g1, Hbid; assumption).
    assert (Huniq := live_uniq b s n (proj1 Ib) Hin).
    intros [i sp]. rewrite !in_all_live. split.
    + intros [blk [Hb1 [Hb2 Hb3]]]. apply (in_replace_block _ b b' _ GI Ef') in Hb1. destruct Hb1 as [->|[Hb1 Hne]].
      * rewrite Lm in Hb3. destruct Hb3 as [<-|Hb3].
        -- left. congruence.
        -- right. apply in_rm_span in Hb3. destruct Hb3 as [Hb3 Hne]. split.
           ++ exists b. splits; try assumption. congruence.
           ++ intros E. inversion E; subst. cbn in Hne. contradiction.
      * right. split; [exists blk; splits; assumption|]. intros E. inversion E; subst. apply Hne. congruence.
    + intros [E|[[blk [Hb1 [Hb2 Hb3]]] Hne]].
      * inversion E; subst. exists b'. splits; [apply (in_replace_block _ b b' _ GI Ef'); left; reflexivity|congruence|].
        rewrite Lm. left. reflexivity.
      * destruct (Z.eq_dec (b_id blk) id) as [E|E].
        -- assert (blk = b) by (apply (nodup_ids_inj (blocks st)); try assumption; congruence). subst blk.
           exists b'. splits; [apply (in_replace_block _ b b' _ GI Ef'); left; reflexivity|congruence|].
           rewrite Lm. right. apply in_rm_span. split; [assumption|]. intros Es. apply Hne. rewrite (Huniq sp Hb3 Es). congruence.
        -- exists blk. splits; try assumption. apply (in_replace_block _ b b' _ GI Ef'). right. split; [assumption|congruence].
Qed.

(* C09 — every configuration JitAllocator_new_impl can produce satisfies the hypotheses of the theorems: for ANY CreateParams
   (granularity, block size, multiple pools, padding, immediate release) the normalised configuration is `cfg_ok` and
   `cfg_ok_bytes` (block size a multiple of the largest pool granularity), provided the host's page granularity is a
   positive multiple of 1024 (it is 64 KiB here: coq/gen/JitTables.consts). *)
From Coq Require Import ZArith List Bool Lia Znumtheory.
From Verif Require Import Jit.JitModel Jit.JitBits Jit.JitBlockProofs Jit.JitProofs Jit.JitBytes.
Import ListNotations.
Local Open Scope Z_scope.

Lemma is_pow2_spec x : is_pow2 x = true -> 0 < x /\ x = 2 ^ Z.log2 x.
Proof.
  unfold is_pow2. intros H. apply andb_true_iff in H. destruct H as [H0 H1]. apply Z.ltb_lt in H0. apply Z.eqb_eq in H1.
  split; [assumption|].
  pose proof (Z.log2_spec x H0) as [L1 L2]. set (k := Z.log2 x) in *.
  pose proof (Z.log2_nonneg x) as Hk. fold k in Hk.
  destruct (Z.eq_dec x (2 ^ k)) as [E|E]; [assumption|exfalso].
  assert (Hx1 : 2 ^ k <= x - 1 < 2 ^ Z.succ k) by lia.
  assert (Hl : Z.log2 (x - 1) = k) by (apply Z.log2_unique; [assumption|exact Hx1]).
  assert (B1 : Z.testbit x k = true) by (unfold k; apply Z.bit_log2; assumption).
  assert (B2 : Z.testbit (x - 1) k = true).
  { rewrite <- Hl. apply Z.bit_log2. pose proof (Z.pow_pos_nonneg 2 k ltac:(lia) Hk). lia. }
  assert (Z.testbit (Z.land x (x - 1)) k = true) by (rewrite Z.land_spec, B1, B2; reflexivity).
  rewrite H1, Z.testbit_0_l in H. discriminate.
Qed.

Lemma pow2_divide a b : 0 <= a <= b -> (2 ^ a | 2 ^ b).
Proof. intros H. exists (2 ^ (b - a)). rewrite <- Z.pow_add_r by lia. f_equal. lia. Qed.

Lemma norm_gran_cases g : exists j, 6 <= j <= 8 /\ norm_gran g = 2 ^ j.
Proof.
  unfold norm_gran. destruct ((g <? 64) || (256 <? g) || negb (is_pow2 g)) eqn:E; [exists 6; split; [lia|reflexivity]|].
  apply orb_false_iff in E. destruct E as [E E3]. apply orb_false_iff in E. destruct E as [E1 E2].
  apply Z.ltb_ge in E1. apply Z.ltb_ge in E2. apply negb_false_iff in E3.
  destruct (is_pow2_spec g E3) as [Hg Hp]. exists (Z.log2 g). split; [|assumption].
  split.
  - apply Z.log2_le_pow2; [lia|]. change (2 ^ 6) with 64. lia.
  - destruct (Z.le_gt_cases (Z.log2 g) 8); [assumption|exfalso].
    assert (2 ^ 9 <= 2 ^ Z.log2 g) by (apply Z.pow_le_mono_r; lia). change (2 ^ 9) with 512 in H0. lia.
Qed.

Lemma norm_bsize_divisible page_gran bs : 0 < page_gran -> (1024 | page_gran) ->
  0 < norm_bsize page_gran bs /\ (1024 | norm_bsize page_gran bs).
Proof.
  intros Hp Hd. unfold norm_bsize.
  destruct ((bs <? 65536) || (268435456 <? bs) || negb (is_pow2 bs)) eqn:E; [split; assumption|].
  apply orb_false_iff in E. destruct E as [E E3]. apply orb_false_iff in E. destruct E as [E1 E2].
  apply Z.ltb_ge in E1. apply negb_false_iff in E3.
  destruct (is_pow2_spec bs E3) as [Hb Hpw]. split; [assumption|].
  rewrite Hpw. change 1024 with (2 ^ 10). apply pow2_divide. split; [lia|].
  apply Z.log2_le_pow2; [lia|]. change (2 ^ 10) with 1024. lia.
Qed.

Theorem norm_cfg_ok g bs multi page_gran pad imm :
  0 < page_gran -> (1024 | page_gran) ->
  cfg_ok_bytes (mkConfig (norm_gran g) (norm_pools multi) (norm_bsize page_gran bs) pad imm fixed).
Proof.
  intros Hp Hd. destruct (norm_gran_cases g) as (j & Hj & Ej). destruct (norm_bsize_divisible page_gran bs Hp Hd) as [Hb Hbd].
  assert (Hpools : 1 <= norm_pools multi <= 3) by (unfold norm_pools; destruct multi; lia).
  constructor.
  - pose proof (Z.pow_pos_nonneg 2 j ltac:(lia) ltac:(lia)).
    constructor; cbn [c_gran c_pools c_bsize c_var]; try assumption; try reflexivity; try lia.
  - unfold pool_gran. cbn [c_gran c_pools c_bsize]. rewrite Ej.
    apply (Z.divide_trans _ 1024); [|assumption].
    rewrite <- Z.pow_add_r by lia. change 1024 with (2 ^ 10). apply pow2_divide. lia.
Qed.

Theorem span_bytes_inside_any_params g bs multi pad imm st :
  let c := mkConfig (norm_gran g) (norm_pools multi) (norm_bsize 65536 bs) pad imm fixed in
  reach c st ->
  forall b s n, In b (blocks st) -> In (s, n) (b_live b) ->
  let gp := pool_gran c (b_pool b) in
  0 < gp /\ b_pad b * gp <= s * gp /\ s * gp + n * gp <= b_bytes b /\ 1 * gp <= n * gp.
Proof.
  intros c R. apply span_bytes_inside; [|exact R].
  apply norm_cfg_ok; [reflexivity|exists 64; reflexivity].
Qed.

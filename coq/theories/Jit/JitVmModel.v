(* C09 — virtual memory as an oracle: `vm` says whether the request of JitAllocator_new_block (VirtMem::alloc /
   alloc_dual_mapping) succeeds.  A failing request happens after the block loop of alloc (whose cache refreshes stay) and
   before insertBlock / allocation_count++ : the blocks keep their refreshed search caches, nothing else changes, the
   answer is kOutOfMemory.  (Dual mapping needs no model-level step: a span's offset is the same in both views.) *)
From Coq Require Import ZArith List Bool.
From Verif Require Import Jit.JitModel.
Import ListNotations.
Local Open Scope Z_scope.

Definition alloc_vm (c : config) (st : state) (size : Z) (vm : bool) : state * result :=
  let '(st', r) := alloc c st size in
  if vm || (nextid st' =? nextid st) then (st', r)
  else (mkState (removelast (blocks st')) (pools st) (acount st) (nextid st), RAlloc OutOfMemory 0 0 0).

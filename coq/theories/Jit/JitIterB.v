(* C09 — JitIter.v generalised to both instantiations of BitVectorRangeIterator<T, B> (B = 0: ranges of clear bits, used by
   alloc; B = 1: ranges of set bits, used by JitAllocatorImpl_wipeOutBlock): the step specification of C18's model
   (ri_init / ri_skip / ri_extend / ri_next) for every word size and both values of B, and the theorem that the list of ALL
   ranges covers exactly the positions of [start, E) whose bit equals B. *)
From Coq Require Import ZArith List Bool Lia.
From Verif Require Import Jit.JitModel Jit.JitBits Jit.JitWords.
From Verif Require Import Containers.BitVecModel Containers.BitVecProofs Containers.RangeIterModel.
Import ListNotations.
Local Open Scope Z_scope.

Section Iter.
Variable W : Z.
Hypothesis HW : 0 < W.
Variable ws : list Z.
Hypothesis Hok : words_ok W ws.
Variable E : Z.
Hypothesis HE : 0 <= E <= W * zlen ws.

Variable bb : bool.

Definition F (j : Z) : bool := Bool.eqb (bv_get W ws j) bb.
Definition Eup : Z := ((E + W - 1) / W) * W.
(* the proviso: no free bit in [E, end of the word that contains E) *)
Hypothesis HP : forall j, E <= j < Eup -> F j = false.

Definition xw (p : Z) : Z := Z.lxor (nthw ws p) (xor_mask W bb).

Lemma Eup_ge : E <= Eup /\ Eup < E + W.
Proof.
  unfold Eup. pose proof (Z.div_mod (E + W - 1) W ltac:(lia)). pose proof (Z.mod_pos_bound (E + W - 1) W HW). nia.
Qed.

(* an aligned index below E has its whole word below Eup *)
Lemma aligned_word_le_Eup p : W * p < E -> W * p + W <= Eup.
Proof.
  intros H. unfold Eup.
  assert (p + 1 <= (E + W - 1) / W).
  { apply Z.div_le_lower_bound; [lia|]. nia. }
  nia.
Qed.

Lemma div_aligned p k : 0 <= k < W -> (W * p + k) / W = p.
Proof. intros H. symmetry. apply (Z.div_unique_pos (W * p + k) W p k); lia. Qed.
Lemma mod_aligned p k : 0 <= k < W -> (W * p + k) mod W = k.
Proof. intros H. symmetry. apply (Z.mod_unique_pos (W * p + k) W p k); lia. Qed.

Lemma xw_testbit p k : 0 <= p -> 0 <= k -> Z.testbit (xw p) k = (k <? W) && F (W * p + k).
Proof.
  intros Hp Hk. unfold xw, xor_mask, F, bv_get. rewrite Z.lxor_spec.
  destruct (Z.ltb_spec k W).
  - rewrite (div_aligned p k), (mod_aligned p k) by lia.
    destruct bb; [rewrite Z.testbit_0_l|rewrite ones_testbit by lia; replace (k <? W) with true by (symmetry; apply Z.ltb_lt; lia)];
      destruct (Z.testbit (nthw ws p) k); reflexivity.
  - rewrite (word_ok_testbit_high W (nthw ws p) k) by (first [lia | apply nthw_ok; [lia|assumption]]).
    destruct bb; [rewrite Z.testbit_0_l|rewrite ones_testbit by lia; replace (k <? W) with false by (symmetry; apply Z.ltb_ge; lia)]; reflexivity.
Qed.

Lemma lxor_word_ok a b : word_ok W a -> word_ok W b -> word_ok W (Z.lxor a b).
Proof.
  intros Ha Hb. apply word_ok_of_bits; [lia|apply Z.lxor_nonneg; unfold word_ok in *; lia|].
  intros j Hj. rewrite Z.lxor_spec, (word_ok_testbit_high W a j), (word_ok_testbit_high W b j) by (assumption || lia). reflexivity.
Qed.

Lemma ones_word_ok : word_ok W (Z.ones W).
Proof. unfold word_ok. rewrite Z.ones_equiv. pose proof (Z.pow_pos_nonneg 2 W ltac:(lia) ltac:(lia)). lia. Qed.

Lemma xw_ok p : word_ok W (xw p).
Proof.
  unfold xw, xor_mask. apply lxor_word_ok; [apply nthw_ok; [lia|assumption]|].
  destruct bb; [unfold word_ok; pose proof (Z.pow_pos_nonneg 2 W ltac:(lia) ltac:(lia)); lia|apply ones_word_ok].
Qed.

Lemma shl_ones_testbit i k : 0 <= i -> 0 <= k -> Z.testbit (shl_ones W i) k = (i <=? k) && (k <? W).
Proof.
  intros Hi Hk. unfold shl_ones. rewrite mod_pow2_testbit by lia.
  rewrite Z.shiftl_spec by lia.
  destruct (Z.ltb_spec k W), (Z.leb_spec i k); cbn; try reflexivity.
  - rewrite ones_testbit by lia. destruct (Z.ltb_spec (k - i) W); [reflexivity|lia].
  - apply Z.testbit_neg_r. lia.
Qed.

Lemma shl_ones_ok i : word_ok W (shl_ones W i).
Proof. unfold shl_ones. apply mod_pow2_word_ok. lia. Qed.

Lemma wlnot_testbit m j : 0 <= j -> Z.testbit (wlnot W m) j = xorb (Z.testbit m j) (j <? W).
Proof. intros. unfold wlnot. rewrite Z.lxor_spec, ones_testbit by lia. reflexivity. Qed.

Lemma wlnot_ok m : word_ok W m -> word_ok W (wlnot W m).
Proof. intros. unfold wlnot. apply lxor_word_ok; [assumption|apply ones_word_ok]. Qed.

(* ~(x ^ ~(ones << m)) for a word whose bits below m are clear: the clear bits of x at or above m *)
Lemma flip_spec x m : word_ok W x -> 0 <= m ->
  (forall k, 0 <= k < m -> Z.testbit x k = false) ->
  let y := wlnot W (Z.lxor x (wlnot W (shl_ones W m))) in
  word_ok W y /\ forall k, 0 <= k < W -> Z.testbit y k = (m <=? k) && negb (Z.testbit x k).
Proof.
  intros Hx Hm Hlow y. split.
  - unfold y. apply wlnot_ok. apply lxor_word_ok; [assumption|]. apply wlnot_ok. apply shl_ones_ok.
  - intros k Hk. unfold y. rewrite wlnot_testbit, Z.lxor_spec, wlnot_testbit, shl_ones_testbit by lia.
    replace (k <? W) with true by (symmetry; apply Z.ltb_lt; lia).
    destruct (Z.leb_spec m k); cbn.
    + destruct (Z.testbit x k); reflexivity.
    + rewrite Hlow by lia. reflexivity.
Qed.

(* x ^ ~(ones << j) for a word whose bits below j are all set: x with those bits cleared *)
Lemma clear_low_spec x j : word_ok W x -> 0 <= j ->
  (forall k, 0 <= k < j -> k < W -> Z.testbit x k = true) ->
  let y := Z.lxor x (wlnot W (shl_ones W j)) in
  word_ok W y /\ forall k, 0 <= k < W -> Z.testbit y k = (j <=? k) && Z.testbit x k.
Proof.
  intros Hx Hj Hlow y. split.
  - unfold y. apply lxor_word_ok; [assumption|]. apply wlnot_ok. apply shl_ones_ok.
  - intros k Hk. unfold y. rewrite Z.lxor_spec, wlnot_testbit, shl_ones_testbit by lia.
    replace (k <? W) with true by (symmetry; apply Z.ltb_lt; lia).
    destruct (Z.leb_spec j k); cbn.
    + destruct (Z.testbit x k); reflexivity.
    + rewrite Hlow by lia. reflexivity.
Qed.

Lemma word_pos_ctz x : word_ok W x -> x <> 0 ->
  0 <= ctz x < W /\ Z.testbit x (ctz x) = true /\ forall k, 0 <= k < ctz x -> Z.testbit x k = false.
Proof.
  intros Hx Hn. assert (0 < x) by (unfold word_ok in Hx; lia).
  destruct (ctz_spec x H) as (A & B & C). split; [|split; assumption].
  split; [assumption|]. destruct (Z.lt_ge_cases (ctz x) W); [assumption|].
  rewrite (word_ok_testbit_high W x (ctz x)) in B by (assumption || lia). discriminate.
Qed.

Lemma word_zero_bits x : word_ok W x -> (forall k, 0 <= k < W -> Z.testbit x k = false) -> x = 0.
Proof.
  intros Hx H. apply Z.bits_inj'. intros k Hk. rewrite Z.testbit_0_l.
  destruct (Z.lt_ge_cases k W); [apply H; lia|apply (word_ok_testbit_high W x k); assumption || lia].
Qed.

Lemma word_ones_bits x : word_ok W x -> x <> Z.ones W -> exists k, 0 <= k < W /\ Z.testbit x k = false.
Proof.
  intros Hx Hn.
  destruct (Z.eq_dec (wlnot W x) 0) as [E0|E0].
  - exfalso. apply Hn. apply Z.bits_inj'. intros k Hk.
    assert (Z.testbit (wlnot W x) k = false) by (rewrite E0; apply Z.testbit_0_l).
    rewrite wlnot_testbit in H by lia. rewrite ones_testbit by lia.
    destruct (Z.ltb_spec k W).
    + destruct (Z.testbit x k); [reflexivity|discriminate].
    + apply (word_ok_testbit_high W x k); assumption || lia.
  - destruct (word_pos_ctz (wlnot W x) (wlnot_ok x Hx) E0) as (A & B & _).
    exists (ctz (wlnot W x)). split; [assumption|]. rewrite wlnot_testbit in B by lia.
    replace (ctz (wlnot W x) <? W) with true in B by (symmetry; apply Z.ltb_lt; lia).
    destruct (Z.testbit x (ctz (wlnot W x))); [discriminate|reflexivity].
Qed.

(* ------------------------------------------------------------------ iterator states *)
(* `pos`: every position below pos has been dealt with; the word holds the free bits of the current word from pos on *)
Definition normal (it : riter) (pos : Z) : Prop :=
  ri_end it = E /\ 0 <= ri_ptr it /\ ri_idx it = W * ri_ptr it /\ ri_idx it < E /\
  ri_idx it <= pos <= ri_idx it + W /\ word_ok W (ri_word it) /\
  forall k, 0 <= k < W -> Z.testbit (ri_word it) k = (pos <=? ri_idx it + k) && F (ri_idx it + k).

(* the next call of next_range returns false at once *)
Definition terminal (it : riter) : Prop := ri_end it = E /\ ri_word it = 0 /\ E <= ri_idx it + W.

Definition stateok (it : riter) (pos : Z) : Prop := normal it pos \/ (terminal it /\ E <= pos).

Lemma normal_ptr_lt it pos : normal it pos -> ri_ptr it < zlen ws.
Proof. intros (A & B & C & D & _). nia. Qed.

(* a free run that starts below E ends at or before E *)
Lemma free_run_le_E s t : s < E -> s < t -> t <= Eup -> (forall j, s <= j < t -> F j = true) -> t <= E.
Proof.
  intros Hs Hst Ht Hf. destruct (Z.le_gt_cases t E); [assumption|exfalso].
  pose proof (HP E ltac:(lia)) as X. rewrite (Hf E) in X by lia. discriminate.
Qed.

Ltac ri_simpl := cbn [ri_ptr ri_idx ri_end ri_word] in *.

Lemma normal_zero_word it pos : normal it pos -> ri_word it = 0 -> forall j, pos <= j < ri_idx it + W -> F j = false.
Proof.
  intros (A & B & C & D & Hp & Hw & Hb) H0 j Hj.
  specialize (Hb (j - ri_idx it) ltac:(lia)). rewrite H0, Z.testbit_0_l in Hb.
  replace (ri_idx it + (j - ri_idx it)) with j in Hb by lia.
  destruct (Z.leb_spec pos j); [|lia]. cbn in Hb. symmetry. exact Hb.
Qed.

Lemma normal_fresh p : 0 <= p -> W * p < E -> normal (mkri p (W * p) E (xw p)) (W * p).
Proof.
  intros Hp Hlt. unfold normal. ri_simpl. splits; try lia; try reflexivity; try apply xw_ok.
  intros k Hk. rewrite xw_testbit by lia. replace (k <? W) with true by (symmetry; apply Z.ltb_lt; lia).
  replace (W * p <=? W * p + k) with true by (symmetry; apply Z.leb_le; lia). reflexivity.
Qed.

Lemma skip_spec : forall fuel it pos,
  stateok it pos -> E - ri_idx it <= W * Z.of_nat fuel ->
  match ri_skip fuel W bb ws it with
  | None => forall j, pos <= j < E -> F j = false
  | Some it1 => exists pos1, normal it1 pos1 /\ pos <= pos1 /\ ri_word it1 <> 0 /\ forall j, pos <= j < pos1 -> F j = false
  end.
Proof.
  induction fuel as [|f IH]; intros it pos Hs Hf; cbn [ri_skip].
  - destruct Hs as [(A & B & C & D & _)|[_ Hp]]; [lia|]. intros j Hj. lia.
  - destruct (Z.eqb_spec (ri_word it) 0) as [E0|E0].
    + assert (He : ri_end it = E) by (destruct Hs as [(A & _)|[(A & _) _]]; exact A).
      rewrite He. destruct (Z.geb_spec (ri_idx it + W) E) as [Hge|Hlt].
      * destruct Hs as [N|[_ Hp]]; [|intros j Hj; lia].
        intros j Hj. apply (normal_zero_word it pos N E0). lia.
      * destruct Hs as [N|[(_ & _ & T) _]]; [|lia].
        pose proof N as (A & B & C & D & Hp & Hw & Hb).
        replace (ri_idx it + W) with (W * (ri_ptr it + 1)) in * by lia.
        pose proof (normal_fresh (ri_ptr it + 1) ltac:(lia) Hlt) as N'.
        change (Z.lxor (nthw ws (ri_ptr it + 1)) (xor_mask W bb)) with (xw (ri_ptr it + 1)).
        specialize (IH _ _ (or_introl N') ltac:(ri_simpl; rewrite Nat2Z.inj_succ in Hf; lia)).
        destruct (ri_skip f W bb ws _) as [it1|].
        -- destruct IH as (pos1 & N1 & P1 & W1 & F1). exists pos1. splits; try assumption; try lia.
           intros j Hj. destruct (Z.lt_ge_cases j (W * (ri_ptr it + 1))); [apply (normal_zero_word it pos N E0); lia|apply F1; lia].
        -- intros j Hj. destruct (Z.lt_ge_cases j (W * (ri_ptr it + 1))); [apply (normal_zero_word it pos N E0); lia|apply IH; lia].
    + destruct Hs as [N|[(_ & T & _) _]]; [|contradiction].
      exists pos. splits; try assumption; try lia.
Qed.

Hypothesis Hsmall : W * zlen ws < 2 ^ 64.

Lemma wlnot_nonzero x : word_ok W x -> x <> Z.ones W -> wlnot W x <> 0.
Proof.
  intros Hx Hn E0. apply Hn. apply Z.bits_inj'. intros k Hk.
  assert (H : Z.testbit (wlnot W x) k = false) by (rewrite E0; apply Z.testbit_0_l).
  rewrite wlnot_testbit in H by lia. rewrite ones_testbit by lia.
  destruct (Z.ltb_spec k W).
  - destruct (Z.testbit x k); [reflexivity|discriminate].
  - apply (word_ok_testbit_high W x k); assumption || lia.
Qed.

Lemma extend_spec : forall fuel it rstart rend hint,
  ri_end it = E -> 0 <= ri_ptr it -> ri_idx it = W * ri_ptr it -> ri_idx it < E -> ri_word it = 0 ->
  rend = ri_idx it + W -> rend <= E -> 0 <= rstart < rend -> (forall j, rstart <= j < rend -> F j = true) ->
  E - ri_idx it <= W * Z.of_nat fuel ->
  let r := ri_extend fuel W bb ws it rstart rend hint in
  rend <= snd r <= E /\ (forall j, rstart <= j < snd r -> F j = true) /\
  (hint <= snd r - rstart \/ snd r = E \/ F (snd r) = false) /\ stateok (fst r) (snd r).
Proof.
  induction fuel as [|f IH]; intros it rstart rend hint He Hp Hi Hlt Hw Hr HrE Hrs Hfree Hf; [cbn in Hf; lia|].
  cbn [ri_extend]. rewrite Z.mod_small by lia.
  destruct (Z.ltb_spec (rend - rstart) hint) as [Hh|Hh].
  - rewrite He. destruct (Z.geb_spec (ri_idx it + W) E) as [Hge|Hlt2]; cbn zeta.
    + cbn [fst snd]. assert (rend = E) by lia. splits; try lia; try assumption.
      right. split; [|lia]. unfold terminal. ri_simpl. splits; try assumption; try reflexivity; lia.
    + change (Z.lxor (nthw ws (ri_ptr it + 1)) (xor_mask W bb)) with (xw (ri_ptr it + 1)).
      set (p' := ri_ptr it + 1). set (idx' := ri_idx it + W).
      assert (Hidx' : idx' = W * p') by (unfold idx', p'; lia).
      pose proof (xw_ok p') as Hxok.
      assert (Hup : idx' + W <= Eup) by (rewrite Hidx'; apply aligned_word_le_Eup; lia).
      destruct (Z.eqb_spec (xw p') (Z.ones W)) as [Eo|Eo]; cbn [negb].
      * (* the whole next word is free *)
        assert (Hall : forall k, 0 <= k < W -> F (idx' + k) = true).
        { intros k Hk. pose proof (xw_testbit p' k ltac:(unfold p'; lia) ltac:(lia)) as X. rewrite Eo, ones_testbit in X by lia.
          replace (k <? W) with true in X by (symmetry; apply Z.ltb_lt; lia). rewrite Hidx'. cbn in X. symmetry. exact X. }
        assert (Hfree' : forall j, rstart <= j < idx' + W -> F j = true).
        { intros j Hj. destruct (Z.lt_ge_cases j rend); [apply Hfree; lia|].
          replace j with (idx' + (j - idx')) by lia. apply Hall. unfold idx' in *. lia. }
        assert (HleE : idx' + W <= E) by (apply (free_run_le_E rstart); try lia; assumption).
        rewrite Z.min_l by lia.
        specialize (IH (mkri p' idx' E 0) rstart (idx' + W) hint eq_refl ltac:(cbn; unfold p'; lia) Hidx' ltac:(cbn; unfold idx'; lia) eq_refl eq_refl
                       HleE ltac:(lia) Hfree' ltac:(cbn [ri_idx]; rewrite Nat2Z.inj_succ in Hf; unfold idx'; lia)).
        cbn zeta in IH. destruct IH as (I1 & I2 & I3 & I4). splits; try assumption; lia.
      * (* a used bit at position j of the next word ends the run *)
        pose proof (wlnot_nonzero (xw p') Hxok Eo) as Hnz.
        destruct (word_pos_ctz (wlnot W (xw p')) (wlnot_ok _ Hxok) Hnz) as (J1 & J2 & J3).
        set (j := ctz (wlnot W (xw p'))) in *.
        assert (Hused : F (idx' + j) = false).
        { rewrite wlnot_testbit in J2 by lia. replace (j <? W) with true in J2 by (symmetry; apply Z.ltb_lt; lia).
          rewrite xw_testbit in J2 by (unfold p'; lia). replace (j <? W) with true in J2 by (symmetry; apply Z.ltb_lt; lia).
          rewrite Hidx'. destruct (F (W * p' + j)); [discriminate|reflexivity]. }
        assert (Hlowfree : forall k, 0 <= k < j -> F (idx' + k) = true).
        { intros k Hk. specialize (J3 k Hk). rewrite wlnot_testbit in J3 by lia.
          replace (k <? W) with true in J3 by (symmetry; apply Z.ltb_lt; lia).
          rewrite xw_testbit in J3 by (unfold p'; lia). replace (k <? W) with true in J3 by (symmetry; apply Z.ltb_lt; lia).
          rewrite Hidx'. destruct (F (W * p' + k)); [reflexivity|discriminate]. }
        assert (Hfree' : forall i, rstart <= i < idx' + j -> F i = true).
        { intros i Hi'. destruct (Z.lt_ge_cases i rend); [apply Hfree; lia|].
          replace i with (idx' + (i - idx')) by lia. apply Hlowfree. unfold idx' in *. lia. }
        assert (HleE : idx' + j <= E) by (apply (free_run_le_E rstart); try lia; assumption).
        cbn [fst snd]. rewrite Z.min_l by lia.
        destruct (clear_low_spec (xw p') j Hxok ltac:(lia)) as [C1 C2].
        { intros k Hk Hk2. rewrite xw_testbit by (unfold p'; lia). replace (k <? W) with true by (symmetry; apply Z.ltb_lt; lia).
          rewrite <- Hidx'. rewrite Hlowfree by lia. reflexivity. }
        splits; try (unfold idx' in *; lia); try assumption.
        -- right. right. assumption.
        -- left. unfold normal. ri_simpl. splits; try (unfold p', idx' in *; lia); try assumption; try reflexivity.
           intros k Hk. rewrite C2 by lia. rewrite xw_testbit by (unfold p'; lia).
           replace (k <? W) with true by (symmetry; apply Z.ltb_lt; lia). rewrite <- Hidx'.
           destruct (Z.leb_spec j k), (Z.leb_spec (idx' + j) (idx' + k)); try lia; reflexivity.
  - cbn [fst snd]. splits; try lia; try assumption.
    left. unfold normal. splits; try lia; try assumption.
    + rewrite Hw. unfold word_ok. pose proof (Z.pow_pos_nonneg 2 W ltac:(lia) ltac:(lia)). lia.
    + intros k Hk. rewrite Hw, Z.testbit_0_l. destruct (Z.leb_spec rend (ri_idx it + k)); [lia|reflexivity].
Qed.

Lemma stateok_fuel it pos : stateok it pos -> E - ri_idx it <= W * Z.of_nat (S (length ws)).
Proof.
  intros [(A & B & C & D & _)|[(A & B & C) _]]; rewrite Nat2Z.inj_succ; unfold zlen in HE; nia.
Qed.

Lemma next_spec it pos hint : stateok it pos ->
  match ri_next W bb ws it hint with
  | None => forall j, pos <= j < E -> F j = false
  | Some (s, e, it') =>
    pos <= s /\ s < e /\ e <= E /\ (forall j, pos <= j < s -> F j = false) /\ (forall j, s <= j < e -> F j = true) /\
    (hint <= e - s \/ e = E \/ F e = false) /\ stateok it' e
  end.
Proof.
  intros Hs. unfold ri_next.
  pose proof (skip_spec (S (length ws)) it pos Hs (stateok_fuel it pos Hs)) as SK.
  destruct (ri_skip (S (length ws)) W bb ws it) as [it1|]; [|exact SK].
  destruct SK as (pos1 & N1 & Hpp & Hnz & Hnf).
  pose proof N1 as (A & B & C & D & Hp & Hw & Hb).
  destruct (word_pos_ctz (ri_word it1) Hw Hnz) as (I1 & I2 & I3).
  set (i := ctz (ri_word it1)) in *. set (idx := ri_idx it1) in *.
  assert (Hup : idx + W <= Eup) by (rewrite C; apply aligned_word_le_Eup; lia).
  assert (Hsi : pos1 <= idx + i /\ F (idx + i) = true).
  { rewrite (Hb i I1) in I2. apply andb_true_iff in I2. destruct I2 as [X Y]. apply Z.leb_le in X. split; assumption. }
  destruct Hsi as [Hs1 Hs2].
  assert (HsE : idx + i < E).
  { destruct (Z.lt_ge_cases (idx + i) E); [assumption|]. rewrite HP in Hs2 by lia. discriminate. }
  assert (Hbefore : forall j, pos <= j < idx + i -> F j = false).
  { intros j Hj. destruct (Z.lt_ge_cases j pos1); [apply Hnf; lia|].
    specialize (I3 (j - idx) ltac:(unfold idx in *; lia)). rewrite Hb in I3 by (unfold idx in *; lia).
    replace (idx + (j - idx)) with j in I3 by lia.
    destruct (Z.leb_spec pos1 j); [|lia]. exact I3. }
  destruct (flip_spec (ri_word it1) i Hw ltac:(lia) I3) as [Hbw Hbwb]. cbn zeta in Hbw, Hbwb.
  set (bw := wlnot W (Z.lxor (ri_word it1) (wlnot W (shl_ones W i)))) in *.
  assert (Hword_ge : forall k, i <= k < W -> Z.testbit (ri_word it1) k = F (idx + k)).
  { intros k Hk. rewrite Hb by lia. fold idx. replace (pos1 <=? idx + k) with true by (symmetry; apply Z.leb_le; lia). reflexivity. }
  destruct (Z.eqb_spec bw 0) as [E0|E0].
  - (* the run reaches the end of the word *)
    assert (Hall : forall k, i <= k < W -> F (idx + k) = true).
    { intros k Hk. rewrite <- Hword_ge by lia.
      assert (X : Z.testbit bw k = false) by (rewrite E0; apply Z.testbit_0_l). rewrite Hbwb in X by lia.
      replace (i <=? k) with true in X by (symmetry; apply Z.leb_le; lia). cbn in X. apply negb_false_iff. exact X. }
    assert (Hfree0 : forall j, idx + i <= j < idx + W -> F j = true).
    { intros j Hj. replace j with (idx + (j - idx)) by lia. apply Hall. lia. }
    assert (HleE : idx + W <= E) by (apply (free_run_le_E (idx + i)); try lia; assumption).
    rewrite A. rewrite Z.min_l by (fold idx; lia).
    pose proof (extend_spec (S (length ws)) (mkri (ri_ptr it1) (ri_idx it1) E 0) (idx + i) (idx + W) hint
                  eq_refl B C D eq_refl eq_refl HleE ltac:(unfold idx in *; lia) Hfree0
                  ltac:(cbn [ri_idx]; rewrite Nat2Z.inj_succ; unfold zlen in HE; unfold idx in *; nia)) as EX.
    cbn zeta in EX. fold idx in EX |- *.
    destruct (ri_extend (S (length ws)) W bb ws _ (idx + i) (idx + W) hint) as [it2 rend2]. cbn [fst snd] in EX.
    destruct EX as (X1 & X2 & X3 & X4). splits; try lia; try assumption.
  - destruct (word_pos_ctz bw Hbw E0) as (J1 & J2 & J3). set (j := ctz bw) in *.
    rewrite Hbwb in J2 by lia. apply andb_true_iff in J2. destruct J2 as [Jij Jw]. apply Z.leb_le in Jij.
    apply negb_true_iff in Jw.
    assert (Hij : i < j) by (destruct (Z.eq_dec i j) as [Eij|]; [rewrite <- Eij in Jw; congruence|lia]).
    assert (Hused : F (idx + j) = false) by (rewrite <- Hword_ge by lia; exact Jw).
    assert (Hfree0 : forall q, idx + i <= q < idx + j -> F q = true).
    { intros q Hq. replace q with (idx + (q - idx)) by lia. rewrite <- Hword_ge by lia.
      specialize (J3 (q - idx) ltac:(lia)). rewrite Hbwb in J3 by lia.
      replace (i <=? q - idx) with true in J3 by (symmetry; apply Z.leb_le; lia). cbn in J3. apply negb_false_iff. exact J3. }
    assert (HleE : idx + j <= E) by (apply (free_run_le_E (idx + i)); try lia; assumption).
    rewrite A. fold idx. rewrite Z.min_l by lia.
    destruct (flip_spec bw j Hbw ltac:(lia) J3) as [Hnw Hnwb]. cbn zeta in Hnw, Hnwb.
    splits; try lia; try assumption.
    + right. right. assumption.
    + left. unfold normal. ri_simpl. fold idx. splits; try lia; try assumption; try reflexivity.
      intros k Hk. rewrite Hnwb by lia. rewrite Hbwb by lia.
      destruct (Z.leb_spec j k), (Z.leb_spec (idx + j) (idx + k)); try lia; cbn; try reflexivity.
      replace (i <=? k) with true by (symmetry; apply Z.leb_le; lia). cbn. rewrite negb_involutive. apply Hword_ge. lia.
Qed.

(* ------------------------------------------------------------------ init and the equivalence with the bit-level scan *)
Lemma land_word_ok a b : word_ok W a -> word_ok W b -> word_ok W (Z.land a b).
Proof.
  intros Ha Hb. apply word_ok_of_bits; [lia|apply Z.land_nonneg; left; unfold word_ok in Ha; lia|].
  intros j Hj. rewrite Z.land_spec, (word_ok_testbit_high W a j) by (assumption || lia). reflexivity.
Qed.

Lemma init_spec start : 0 <= start <= E -> stateok (ri_init W bb ws start E) start.
Proof.
  intros Hst. unfold ri_init.
  pose proof (Z.div_mod start W ltac:(lia)) as DM. pose proof (Z.mod_pos_bound start W HW) as MB.
  set (p := start / W) in *. assert (Hp0 : 0 <= p) by (unfold p; apply Z.div_pos; lia).
  replace (p * W / W) with p by (symmetry; apply Z.div_mul; lia).
  destruct (Z.ltb_spec (p * W) E) as [Hlt|Hge].
  - left. unfold normal. ri_simpl. splits; try lia; try reflexivity.
    + apply land_word_ok; [apply (xw_ok p)|apply shl_ones_ok].
    + intros k Hk. change (Z.lxor (nthw ws p) (xor_mask W bb)) with (xw p).
      rewrite Z.land_spec, xw_testbit, shl_ones_testbit by lia.
      replace (k <? W) with true by (symmetry; apply Z.ltb_lt; lia). replace (W * p + k) with (p * W + k) by lia.
      destruct (Z.leb_spec (start mod W) k), (Z.leb_spec start (p * W + k)); try lia; cbn;
        destruct (F (p * W + k)); reflexivity.
  - right. split; [|lia]. unfold terminal. ri_simpl. splits; try reflexivity; lia.
Qed.


(* ------------------------------------------------------------------ all ranges *)
Lemma ri_all_spec hint : forall fuel it pos,
  stateok it pos -> 0 <= pos <= E -> E - pos < Z.of_nat fuel ->
  (forall s e, In (s, e) (ri_all fuel W bb ws it hint) -> pos <= s /\ s < e /\ e <= E /\ forall j, s <= j < e -> F j = true) /\
  (forall j, pos <= j < E -> F j = true -> exists s e, In (s, e) (ri_all fuel W bb ws it hint) /\ s <= j < e).
Proof.
  induction fuel as [|f IH]; intros it pos Hs Hpos Hf; [cbn in Hf; lia|].
  cbn [ri_all]. pose proof (next_spec it pos hint Hs) as NS.
  destruct (ri_next W bb ws it hint) as [[[s e] it']|].
  - destruct NS as (N1 & N2 & N3 & N4 & N5 & N6 & N7).
    destruct (IH it' e N7 ltac:(lia) ltac:(lia)) as [I1 I2].
    split.
    + intros s0 e0 [H|H].
      * inversion H; subst. splits; try lia. assumption.
      * destruct (I1 s0 e0 H) as (A & B & C & D). splits; try lia. assumption.
    + intros j Hj HF. destruct (Z.lt_ge_cases j s) as [Hlt|Hge].
      * rewrite N4 in HF by lia. discriminate.
      * destruct (Z.lt_ge_cases j e).
        -- exists s, e. split; [left; reflexivity|lia].
        -- destruct (I2 j ltac:(lia) HF) as (s0 & e0 & Hin & Hr). exists s0, e0. split; [right; assumption|assumption].
  - split; [intros s e []|]. intros j Hj HF. rewrite NS in HF by lia. discriminate.
Qed.

Theorem ranges_cover start hint : 0 <= start <= E ->
  (forall s e, In (s, e) (ranges W bb ws start E hint) -> start <= s /\ s < e /\ e <= E /\ forall j, s <= j < e -> F j = true) /\
  (forall j, start <= j < E -> F j = true -> exists s e, In (s, e) (ranges W bb ws start E hint) /\ s <= j < e).
Proof.
  intros Hst. unfold ranges. pose proof (zlen_nonneg ws).
  apply ri_all_spec; [apply init_spec; assumption|assumption|].
  rewrite Nat2Z.inj_succ, Z2Nat.id by nia. lia.
Qed.

End Iter.

(* ------------------------------------------------------------------ JitAllocatorImpl_wipeOutBlock: BitVectorRangeIterator<BitWord, 1>
   over the whole used bit vector of the kept block (init(data, bit_word_count): start 0, end = all words, default hint):
   the ranges it fills are exactly the used granules *)
Theorem wipe_ranges_exact W ws u hint :
  0 < W -> words_ok W ws -> W * zlen ws < 2 ^ 64 -> repr W ws u ->
  let rs := ranges W true ws 0 (W * zlen ws) hint in
  (forall s e, In (s, e) rs -> 0 <= s /\ s < e /\ e <= W * zlen ws /\ forall j, s <= j < e -> Z.testbit u j = true) /\
  (forall j, 0 <= j < W * zlen ws -> Z.testbit u j = true -> exists s e, In (s, e) rs /\ s <= j < e).
Proof.
  intros HW Hok Hsmall Hrep rs. pose proof (zlen_nonneg ws) as Hz.
  assert (HE : 0 <= W * zlen ws <= W * zlen ws) by nia.
  assert (HP : forall j, W * zlen ws <= j < Eup W (W * zlen ws) -> F W ws true j = false).
  { intros j Hj. exfalso. unfold Eup in Hj.
    replace ((W * zlen ws + W - 1) / W) with (zlen ws) in Hj; [lia|].
    apply (Z.div_unique_pos (W * zlen ws + W - 1) W (zlen ws) (W - 1)); lia. }
  destruct (ranges_cover W HW ws Hok (W * zlen ws) HE true HP Hsmall 0 hint ltac:(lia)) as [C1 C2]. fold rs in C1, C2.
  split.
  - intros s e Hin. destruct (C1 s e Hin) as (A & B & C & D). splits; try lia.
    intros j Hj. specialize (D j Hj). unfold F in D. rewrite (Hrep j ltac:(lia)) in D. destruct (Z.testbit u j); [reflexivity|discriminate].
  - intros j Hj Hu. apply C2; [lia|]. unfold F. rewrite (Hrep j Hj), Hu. reflexivity.
Qed.

(* ... which, for a block of a reachable allocator state, are the padding granule and the granules of its live spans: the soft
   reset of a kFillUnusedMemory allocator overwrites every byte that was handed out, and nothing the bit vector calls unused *)
From Verif Require Import Jit.JitBlockProofs Jit.JitProofs.

Theorem wipe_covers_live c st b W ws hint :
  cfg_ok c -> reach c st -> In b (blocks st) ->
  0 < W -> words_ok W ws -> W * zlen ws < 2 ^ 64 -> repr W ws (b_used b) -> b_area b = W * zlen ws ->
  let rs := ranges W true ws 0 (W * zlen ws) hint in
  (forall sp j, In sp (b_live b) -> in_span sp j -> exists s e, In (s, e) rs /\ s <= j < e) /\
  (b_pad b = 1 -> exists s e, In (s, e) rs /\ s <= 0 < e) /\
  (forall s e j, In (s, e) rs -> s <= j < e -> (j = 0 /\ b_pad b = 1) \/ covered (b_live b) j).
Proof.
  intros Hc R Hb HW Hok Hsmall Hrep Harea rs.
  destruct (bitvectors_exact c st Hc R b Hb) as [BU _].
  pose proof (reach_ginv c st Hc R) as [GB _ _ _ _ _]. rewrite Forall_forall in GB. destruct (GB b Hb) as ([S _] & _).
  destruct (wipe_ranges_exact W ws (b_used b) hint HW Hok Hsmall Hrep) as [C1 C2]. fold rs in C1, C2.
  splits.
  - intros sp j Hsp Hj. apply C2.
    + destruct (bs_spans b S sp Hsp) as (A1 & A2 & A3). pose proof (bs_pad b S). unfold in_span in Hj. lia.
    + apply BU. right. exists sp. split; assumption.
  - intros Hp. apply C2; [pose proof (bs_area b S); lia|]. apply BU. left. split; [reflexivity|assumption].
  - intros s e j Hin Hj. destruct (C1 s e Hin) as (_ & _ & _ & D). apply BU. apply D. assumption.
Qed.

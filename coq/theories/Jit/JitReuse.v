(* C09 — released memory is reusable, stated directly: after a release that keeps the block, a request of the same pool
   that fits into the released span never creates a new block. *)
From Coq Require Import ZArith List Bool Lia.
From Verif Require Import Jit.JitModel Jit.JitBits Jit.JitBlockProofs Jit.JitProofs Jit.JitFill.
Import ListNotations.
Local Open Scope Z_scope.

Theorem release_then_alloc_reuses c st id off b s n size st2 id2 off2 len2 b1 :
  cfg_ok c -> reach c st -> find_block id (blocks st) = Some b ->
  s = off / pool_gran c (b_pool b) -> In (s, n) (b_live b) ->
  find_block id (blocks (fst (release c st id off))) = Some b1 ->
  0 <= size -> size + c_gran c <= two64 ->
  alloc c (fst (release c st id off)) size = (st2, RAlloc Ok id2 off2 len2) ->
  size_to_pool c len2 = b_pool b -> len2 / pool_gran c (b_pool b) <= n ->
  nextid st2 = nextid (fst (release c st id off)).
Proof.
  intros Hc R Ef Hs Hin Ef1 Hs0 Hs1 HA Hpool Hfit.
  assert (V : valid_op c st (ORelease id off)).
  { cbn. intros b' Hb'. rewrite Ef in Hb'. inversion Hb'; subst b'. exists n. rewrite <- Hs. assumption. }
  pose proof (reach_step c st (ORelease id off) R V) as R1. cbn [step] in R1.
  destruct (release_frame c st id off b s n Hc R Ef Hs Hin) as [_ FR].
  set (st1 := fst (release c st id off)) in *.
  pose proof (reach_ginv c st Hc R) as G. pose proof (reach_ginv c st1 Hc R1) as G1.
  destruct (find_block_in _ _ _ Ef) as [Hb Hbid]. destruct (find_block_in _ _ _ Ef1) as [Hb1 Hb1id].
  (* the surviving block has the geometry of b *)
  assert (Hgeom : same_geom b b1).
  { destruct (step_blocks c st (ORelease id off) Hc R V b1 Hb1) as [[b0 [Hb0 Hg0]]|[Hnew _]].
    - pose proof Hg0 as (g1 & _). assert (b0 = b) by (apply (nodup_ids_inj (blocks st)); [apply (g_ids c st G)|assumption|assumption|congruence]).
      subst b0. exact Hg0.
    - exfalso. pose proof (g_blocks c st G) as GB. rewrite Forall_forall in GB. destruct (GB b Hb) as (_ & _ & Hlt). lia. }
  destruct Hgeom as (g1 & g2 & g3 & g4 & g5).
  destruct (Z.eq_dec (nextid st2) (nextid st1)) as [E|Hne]; [assumption|exfalso].
  destruct (alloc_result c st1 size st2 id2 off2 len2 Hc R1 Hs0 Hs1 HA) as (L1 & L2 & (b2 & Hb2 & _ & Hp2 & _ & _ & _ & NR)).
  specialize (NR Hne b1 Hb1 ltac:(congruence)). rewrite Hp2, Hpool in NR.
  set (m := len2 / pool_gran c (b_pool b)) in *.
  pose proof (g_blocks c st G) as GB. rewrite Forall_forall in GB. destruct (GB b Hb) as ([S _] & _).
  destruct (bs_spans b S _ Hin) as (A1 & A2 & A3). cbn [fst snd] in *. pose proof (bs_pad b S) as Hpad.
  apply (NR s ltac:(lia) ltac:(lia)).
  intros i Hi. destruct (Z.testbit (b_used b1) i) eqn:Eu; [exfalso|reflexivity].
  destruct (bitvectors_exact c st1 Hc R1 b1 Hb1) as [BU _]. apply BU in Eu. destruct Eu as [[-> Hp]|[sp [Hsp Hc']]].
  - lia.
  - assert (L : In (id, sp) (all_live (blocks st1))) by (apply in_all_live; exists b1; repeat split; assumption).
    apply FR in L. destruct L as [L Hnot]. apply in_all_live in L. destruct L as [b0 [Hb0 [Hid0 Hsp0]]].
    assert (b0 = b) by (apply (nodup_ids_inj (blocks st)); [apply (g_ids c st G)|assumption|assumption|congruence]). subst b0.
    apply Hnot. f_equal. apply (bs_disj b S sp (s, n) i); try assumption. unfold in_span; cbn; lia.
Qed.

(* the same for shrunk-away memory: after a shrink to m granules, a request of the same pool that fits into the n - m
   granules given back never creates a new block *)
Theorem shrink_then_alloc_reuses c st id off ns b s n size st2 id2 off2 len2 :
  cfg_ok c -> reach c st -> find_block id (blocks st) = Some b ->
  s = off / pool_gran c (b_pool b) -> In (s, n) (b_live b) -> 1 <= ns ->
  let g := pool_gran c (b_pool b) in
  let m := (ns + g - 1) / g in
  m < n ->
  0 <= size -> size + c_gran c <= two64 ->
  alloc c (fst (shrink c st id off ns)) size = (st2, RAlloc Ok id2 off2 len2) ->
  size_to_pool c len2 = b_pool b -> len2 / g <= n - m ->
  nextid st2 = nextid (fst (shrink c st id off ns)).
Proof.
  intros Hc R Ef Hs Hin Hns g m Hmn Hs0 Hs1 HA Hpool Hfit.
  assert (V : valid_op c st (OShrink id off ns)).
  { cbn. split; [|lia]. intros b' Hb'. rewrite Ef in Hb'. inversion Hb'; subst b'. exists n. rewrite <- Hs. assumption. }
  pose proof (reach_step c st (OShrink id off ns) R V) as R1. cbn [step] in R1.
  destruct (shrink_frame c st id off ns b s n Hc R Ef Hs Hin Hns) as (_ & _ & F3). fold g in F3. fold m in F3.
  destruct (F3 Hmn) as [_ FR].
  set (st1 := fst (shrink c st id off ns)) in *.
  pose proof (reach_ginv c st Hc R) as G. pose proof (reach_ginv c st1 Hc R1) as G1.
  destruct (find_block_in _ _ _ Ef) as [Hb Hbid].
  pose proof (g_blocks c st G) as GB. rewrite Forall_forall in GB. destruct (GB b Hb) as ([S _] & Pb & Hidlt).
  destruct (bs_spans b S _ Hin) as (A1 & A2 & A3). cbn [fst snd] in *. pose proof (bs_pad b S) as Hpad.
  pose proof (pool_gran_pos c (b_pool b) (co_gran c Hc) ltac:(lia)) as Hgp. fold g in Hgp.
  assert (Hm1 : 1 <= m) by (apply ceil_ge1; lia).
  (* the block is still there, with the same geometry *)
  assert (L0 : In (id, (s, m)) (all_live (blocks st1))) by (apply FR; left; reflexivity).
  apply in_all_live in L0. destruct L0 as [b1 [Hb1 [Hb1id Hsm]]].
  assert (Hgeom : same_geom b b1).
  { destruct (step_blocks c st (OShrink id off ns) Hc R V b1 Hb1) as [[b0 [Hb0 Hg0]]|[Hnew _]].
    - pose proof Hg0 as (g1 & _). assert (b0 = b) by (apply (nodup_ids_inj (blocks st)); [apply (g_ids c st G)|assumption|assumption|congruence]).
      subst b0. exact Hg0.
    - exfalso. lia. }
  destruct Hgeom as (g1 & g2 & g3 & g4 & g5).
  destruct (Z.eq_dec (nextid st2) (nextid st1)) as [E|Hne]; [assumption|exfalso].
  destruct (alloc_result c st1 size st2 id2 off2 len2 Hc R1 Hs0 Hs1 HA) as (L1 & L2 & (b2 & Hb2 & _ & Hp2 & _ & _ & _ & NR)).
  specialize (NR Hne b1 Hb1 ltac:(congruence)). rewrite Hp2, Hpool in NR. fold g in NR.
  set (q := len2 / g) in *.
  apply (NR (s + m) ltac:(lia) ltac:(lia)).
  intros i Hi. destruct (Z.testbit (b_used b1) i) eqn:Eu; [exfalso|reflexivity].
  destruct (bitvectors_exact c st1 Hc R1 b1 Hb1) as [BU _]. apply BU in Eu. destruct Eu as [[-> Hp]|[sp [Hsp Hc']]].
  - lia.
  - assert (L : In (id, sp) (all_live (blocks st1))) by (apply in_all_live; exists b1; repeat split; assumption).
    apply FR in L. destruct L as [L|[L Hnot]].
    + inversion L; subst sp. unfold in_span in Hc'. cbn in Hc'. lia.
    + apply in_all_live in L. destruct L as [b0 [Hb0 [Hid0 Hsp0]]].
      assert (b0 = b) by (apply (nodup_ids_inj (blocks st)); [apply (g_ids c st G)|assumption|assumption|congruence]). subst b0.
      apply Hnot. f_equal. apply (bs_disj b S sp (s, n) i); try assumption. unfold in_span; cbn; lia.
Qed.

(* after everything has been released: nothing is accounted, only padding granules count as used, and at most one block per
   pool (none under kImmediateRelease) is still there *)
Theorem all_released_accounting c st : cfg_ok c -> reach c st -> all_live (blocks st) = [] ->
  s_allocs (statistics c st) = 0 /\
  s_used (statistics c st) = fold_right (fun b a => b_pad b * pool_gran c (b_pool b) + a) 0 (blocks st) /\
  (forall p, 0 <= p < c_pools c -> sump onef p (blocks st) <= 1 /\ (c_imm c = true -> sump onef p (blocks st) = 0)).
Proof.
  intros Hc R Hnil.
  assert (Hlive : forall b, In b (blocks st) -> b_live b = []).
  { intros b Hb. destruct (b_live b) as [|sp r] eqn:El; [reflexivity|exfalso].
    assert (In (b_id b, sp) (all_live (blocks st))) by (apply in_all_live; exists b; repeat split; [assumption|rewrite El; left; reflexivity]).
    rewrite Hnil in H. destruct H. }
  destruct (stats_exact c st Hc R) as (S1 & S2 & _).
  splits.
  - rewrite S1. apply total_live_nil. assumption.
  - rewrite S2. clear -Hlive. induction (blocks st) as [|b r IH]; cbn [fold_right]; [reflexivity|].
    rewrite (Hlive b (or_introl eq_refl)). cbn [sum_len]. rewrite IH by (intros x Hx; apply Hlive; right; assumption). lia.
  - intros p Hp. destruct (empty_block_policy c st Hc R p Hp) as (E1 & E2 & _).
    assert (Heq : sump nolivef p (blocks st) = sump onef p (blocks st)).
    { clear -Hlive. induction (blocks st) as [|b r IH]; cbn [sump]; [reflexivity|].
      rewrite IH by (intros x Hx; apply Hlive; right; assumption). unfold nolivef, onef. rewrite (Hlive b (or_introl eq_refl)). reflexivity. }
    rewrite <- Heq. split; assumption.
Qed.

(* C09 round 7 — size hypotheses discharged: the frame / freshness / byte-frame / judge-acceptance statements about a successful
   alloc hold for EVERY integer size (negative, huge, wrapping at 2^64) when the granularity divides 2^64 (every power of two);
   and the step-level reachability of exact histories lifted to sequences. *)
From Coq Require Import ZArith List Bool Lia Znumtheory.
Import ListNotations.
From Verif Require Import Jit.JitModel Jit.JitBits Jit.JitBlockProofs Jit.JitProofs Jit.JitBytes Jit.JitFill Jit.JitSpec Jit.JitSpecProofs
  Jit.JitRuntimeProofs Jit.JitComplete Jit.JitRefine.
Local Open Scope Z_scope.

Lemma alloc_ok_rounded c st size st' id off len :
  cfg_ok c -> (c_gran c | two64) -> reach c st -> alloc c st size = (st', RAlloc Ok id off len) ->
  len = rounded c size /\ 1 <= rounded c size /\ rounded c size + c_gran c <= two64 /\
  alloc c st (rounded c size) = (st', RAlloc Ok id off len).
Proof.
  intros Hc Hd R HA. pose proof (co_gran c Hc) as Hg.
  destruct (alloc_result_any_size c st size st' id off len Hc Hd R HA) as (El & Hr & Hmod & _).
  assert (Hle : c_gran c <= len).
  { pose proof (Z.div_mod len (c_gran c) ltac:(lia)) as D. rewrite Hmod in D.
    assert (1 <= len / c_gran c) by (destruct (Z.le_gt_cases 1 (len / c_gran c)); [assumption|nia]). nia. }
  splits; try assumption; try lia.
  - unfold two64. lia.
  - rewrite <- (alloc_rounded c st size Hg Hd). assumption.
Qed.

Theorem alloc_frame_any_size c st size st' id off len :
  cfg_ok c -> (c_gran c | two64) -> reach c st -> alloc c st size = (st', RAlloc Ok id off len) ->
  let g := pool_gran c (size_to_pool c len) in
  (forall x, In x (all_live (blocks st')) <-> x = (id, (off / g, len / g)) \/ In x (all_live (blocks st))) /\
  ~ In (id, (off / g, len / g)) (all_live (blocks st)).
Proof.
  intros Hc Hd R HA g. destruct (alloc_ok_rounded c st size st' id off len Hc Hd R HA) as (_ & H1 & H2 & HA').
  split.
  - apply (alloc_frame c st (rounded c size) st' id off len Hc R ltac:(lia) H2 HA').
  - apply (alloc_fresh c st (rounded c size) st' id off len Hc R ltac:(lia) H2 HA').
Qed.

Theorem alloc_bytes_any_size c st size st' id off len :
  cfg_ok_bytes c -> (c_gran c | two64) -> reach c st -> alloc c st size = (st', RAlloc Ok id off len) ->
  (forall x, In x (live_bytes c (blocks st')) <-> x = (id, (off, len)) \/ In x (live_bytes c (blocks st))) /\
  exists b, In b (blocks st') /\ b_id b = id /\
    alloc_ok (c_gran c) (c_pools c) (cpad c) (live_bytes c (blocks st)) (rounded c size) id off len (b_bytes b) (b_pool b) = true.
Proof.
  intros HB Hd R HA. pose proof (cb_ok c HB) as Hc.
  destruct (alloc_ok_rounded c st size st' id off len Hc Hd R HA) as (_ & H1 & H2 & HA').
  split.
  - apply (model_alloc_bytes_frame c st (rounded c size) st' id off len HB R H1 H2 HA').
  - destruct (model_alloc_accepted c st (rounded c size) st' id off len HB R H1 H2 HA') as (b & Hb & Hid & Hok).
    exists b. splits; try assumption.
    assert (R' : reach c st').
    { replace st' with (fst (step c st (OAlloc size))) by (cbn [step]; rewrite HA; reflexivity). apply reach_step; [assumption|exact I]. }
    rewrite <- (reach_pad c st' Hc R' b Hb). assumption.
Qed.

(* sequence level: an exact history stays inside reach, so every state-level theorem applies to its final state *)
Lemma exact_run_reach c : cfg_ok_bytes c -> forall ops st, reach c st -> exact_run c st ops -> reach c (run c st ops).
Proof.
  intros HB. induction ops as [|o r IH]; intros st R E; [assumption|].
  destruct E as [X E']. cbn [run]. apply IH; [|assumption].
  apply reach_step; [assumption|apply exact_valid; assumption].
Qed.

(* the newest allocation never overlaps, in bytes, anything handed out earlier and still live — over whole histories *)
Theorem history_alloc_disjoint c ops size : cfg_ok_bytes c -> (c_gran c | two64) -> exact_run c (init_state c) ops ->
  forall st' id off len, alloc c (run c (init_state c) ops) size = (st', RAlloc Ok id off len) ->
  1 <= len /\ forall y, In y (live_bytes c (blocks (run c (init_state c) ops))) -> disjoint_spans (id, (off, len)) y.
Proof.
  intros HB Hd E st' id off len HA.
  pose proof (exact_run_reach c HB ops _ (reach_init c) E) as R.
  destruct (alloc_bytes_any_size c _ size st' id off len HB Hd R HA) as (_ & b & _ & _ & Hok).
  pose proof (co_gran c (cb_ok c HB)) as Hg.
  destruct (alloc_ok_sound _ _ _ _ _ _ _ _ _ _ Hg Hok) as (H1 & _ & _ & _ & _ & _ & _ & Hdis).
  split; [lia|assumption].
Qed.

(* C09 — lookup of a block by address (ArenaTree<JitAllocatorBlock>::get with the block's range comparators
   `rx + size <= key` / `rx > key`): over ANY binary search tree whose in-order ranges are increasing and disjoint — the
   shape (red-black balance) is irrelevant — the lookup returns the block whose mapping contains the address, and nothing
   for an address outside every mapping.  `range_get` is the same descent over C18's heap representation of the tree
   (Containers/TreeModel.v: child / key), related to the inductive tree by `to_bst`; its in-order is C18's `inorder`. *)
From Coq Require Import ZArith List Bool Lia.
From Verif Require Import Containers.TreeModel.
Import ListNotations.
Local Open Scope Z_scope.

Inductive bst := BL | BN (l : bst) (base size id : Z) (r : bst).
Definition ent := (Z * Z * Z)%type.     (* base, size, id *)
Definition e_base (e : ent) := fst (fst e).
Definition e_size (e : ent) := snd (fst e).
Definition e_id (e : ent) := snd e.
Definition contains (e : ent) (ptr : Z) : Prop := e_base e <= ptr < e_base e + e_size e.

Fixpoint elems (t : bst) : list ent :=
  match t with BL => [] | BN l b s i r => elems l ++ (b, s, i) :: elems r end.

Fixpoint lookup (t : bst) (ptr : Z) : option Z :=
  match t with
  | BL => None
  | BN l b s i r => if b + s <=? ptr then lookup r ptr else if ptr <? b then lookup l ptr else Some i
  end.

(* increasing, pairwise disjoint ranges *)
Fixpoint ordered (l : list ent) : Prop :=
  match l with
  | [] => True
  | e :: r => (forall x, In x r -> e_base e + e_size e <= e_base x) /\ ordered r
  end.

Lemma ordered_app l1 e l2 : ordered (l1 ++ e :: l2) ->
  ordered l1 /\ ordered l2 /\ (forall x, In x l1 -> e_base x + e_size x <= e_base e) /\
  (forall x, In x l2 -> e_base e + e_size e <= e_base x).
Proof.
  induction l1 as [|a r IH]; cbn [app ordered].
  - intros [H1 H2]. repeat split; try assumption. intros x [].
  - intros [H1 H2]. destruct (IH H2) as (A & B & C & D). repeat split; try assumption.
    + intros x Hx. apply H1. apply in_or_app. left. assumption.
    + intros x [<-|Hx]; [apply H1; apply in_or_app; right; left; reflexivity|apply C; assumption].
Qed.

Theorem lookup_sound t ptr : ordered (elems t) -> (forall x, In x (elems t) -> 0 <= e_size x) ->
  match lookup t ptr with
  | Some i => exists e, In e (elems t) /\ e_id e = i /\ contains e ptr
  | None => forall e, In e (elems t) -> ~ contains e ptr
  end.
Proof.
  induction t as [|l IHl b s i r IHr]; cbn [elems lookup]; intros Ho Hpos.
  - intros e [].
  - destruct (ordered_app _ _ _ Ho) as (Ol & Or & Hl & Hr).
    assert (Hs0 : 0 <= s) by (apply (Hpos (b, s, i)); apply in_or_app; right; left; reflexivity).
    assert (Hposl : forall x, In x (elems l) -> 0 <= e_size x) by (intros x Hx; apply Hpos; apply in_or_app; left; assumption).
    assert (Hposr : forall x, In x (elems r) -> 0 <= e_size x) by (intros x Hx; apply Hpos; apply in_or_app; right; right; assumption).
    destruct (Z.leb_spec (b + s) ptr) as [H1|H1].
    + specialize (IHr Or Hposr). destruct (lookup r ptr) as [j|].
      * destruct IHr as (e & He & Hi & Hc). exists e. split; [apply in_or_app; right; right; assumption|split; assumption].
      * intros e He Hc. apply in_app_or in He. destruct He as [He|[<-|He]].
        -- specialize (Hl e He). specialize (Hposl e He). unfold contains, e_base, e_size in *. cbn in *. lia.
        -- unfold contains, e_base, e_size in Hc. cbn in Hc. lia.
        -- apply (IHr e He Hc).
    + destruct (Z.ltb_spec ptr b) as [H2|H2].
      * specialize (IHl Ol Hposl). destruct (lookup l ptr) as [j|].
        -- destruct IHl as (e & He & Hi & Hc). exists e. split; [apply in_or_app; left; assumption|split; assumption].
        -- intros e He Hc. apply in_app_or in He. destruct He as [He|[<-|He]].
           ++ apply (IHl e He Hc).
           ++ unfold contains, e_base, e_size in Hc. cbn in Hc. lia.
           ++ specialize (Hr e He). unfold contains, e_base, e_size in *. cbn in *. lia.
      * exists (b, s, i). split; [apply in_or_app; right; left; reflexivity|]. split; [reflexivity|].
        unfold contains, e_base, e_size. cbn. lia.
Qed.

(* two ordered entries that contain the same address are the same entry *)
Lemma ordered_unique l e1 e2 ptr : ordered l -> In e1 l -> In e2 l -> contains e1 ptr -> contains e2 ptr -> e1 = e2.
Proof.
  induction l as [|a r IH]; [intros _ []|]. cbn [ordered]. intros [H1 H2] [<-|A1] [<-|A2] C1 C2.
  - reflexivity.
  - specialize (H1 e2 A2). unfold contains in *. lia.
  - specialize (H1 e1 A1). unfold contains in *. lia.
  - apply IH; assumption.
Qed.

(* the complete statement: the lookup answers exactly "which entry contains the address" *)
Theorem lookup_correct t ptr e : ordered (elems t) -> (forall x, In x (elems t) -> 0 <= e_size x) ->
  In e (elems t) -> contains e ptr -> lookup t ptr = Some (e_id e).
Proof.
  intros Ho Hpos He Hc. pose proof (lookup_sound t ptr Ho Hpos) as S. destruct (lookup t ptr) as [i|].
  - destruct S as (e' & He' & Hi & Hc'). rewrite (ordered_unique _ e e' ptr Ho He He' Hc Hc'). rewrite Hi. reflexivity.
  - exfalso. apply (S e He). assumption.
Qed.

Theorem lookup_foreign t ptr : ordered (elems t) -> (forall x, In x (elems t) -> 0 <= e_size x) ->
  (forall e, In e (elems t) -> ~ contains e ptr) -> lookup t ptr = None.
Proof.
  intros Ho Hpos Hn. pose proof (lookup_sound t ptr Ho Hpos) as S. destruct (lookup t ptr) as [i|]; [|reflexivity].
  destruct S as (e & He & _ & Hc). exfalso. apply (Hn e He Hc).
Qed.

(* ------------------------------------------------------------------ the same descent over C18's heap representation *)
Fixpoint range_get (fuel : nat) (h : ptrie) (size_of : Z -> Z) (n ptr : Z) : Z :=
  match fuel with
  | O => 0
  | S f => if n =? 0 then 0
           else if key h n + size_of n <=? ptr then range_get f h size_of (child h n true) ptr
           else if ptr <? key h n then range_get f h size_of (child h n false) ptr
           else n
  end.

Fixpoint to_bst (fuel : nat) (h : ptrie) (size_of : Z -> Z) (n : Z) : bst :=
  match fuel with
  | O => BL
  | S f => if n =? 0 then BL
           else BN (to_bst f h size_of (child h n false)) (key h n) (size_of n) n (to_bst f h size_of (child h n true))
  end.

Lemma range_get_to_bst : forall fuel h size_of n ptr,
  range_get fuel h size_of n ptr = match lookup (to_bst fuel h size_of n) ptr with Some i => i | None => 0 end.
Proof.
  induction fuel as [|f IH]; intros; cbn [range_get to_bst lookup]; [reflexivity|].
  destruct (n =? 0); [reflexivity|]. cbn [lookup].
  destruct (key h n + size_of n <=? ptr); [apply IH|]. destruct (ptr <? key h n); [apply IH|reflexivity].
Qed.

Lemma elems_to_bst : forall fuel h size_of n,
  elems (to_bst fuel h size_of n) = map (fun x => (fst (fst x), size_of (snd (fst x)), snd (fst x))) (inorder fuel h n).
Proof.
  induction fuel as [|f IH]; intros; cbn [to_bst inorder elems map]; [reflexivity|].
  destruct (n =? 0); [reflexivity|]. cbn [elems]. rewrite map_app. cbn [map fst snd]. rewrite !IH. reflexivity.
Qed.

(* ------------------------------------------------------------------ the allocator: `find_block` of the model is the tree lookup.
   `base` is the address oracle (block id -> rx base of its mapping); the tree holds exactly the blocks, ordered by base
   with disjoint mappings (what distinct live mmap regions are). *)
From Verif Require Import Jit.JitModel Jit.JitBlockProofs Jit.JitProofs Jit.JitBytes Jit.JitFill.

Definition block_ent (base : Z -> Z) (b : block) : ent := (base (b_id b), b_bytes b, b_id b).

Theorem tree_lookup_is_find_block c st base t :
  cfg_ok_bytes c -> reach c st ->
  (forall e, In e (elems t) <-> exists b, In b (blocks st) /\ e = block_ent base b) ->
  ordered (elems t) ->
  (forall b off, In b (blocks st) -> 0 <= off < b_bytes b ->
     lookup t (base (b_id b) + off) = Some (b_id b) /\ find_block (b_id b) (blocks st) = Some b) /\
  (forall ptr, (forall b, In b (blocks st) -> ~ (base (b_id b) <= ptr < base (b_id b) + b_bytes b)) ->
     lookup t ptr = None).
Proof.
  intros Hc R Hel Ho. pose proof (reach_ginv c st (cb_ok c Hc) R) as G.
  pose proof (reach_bytes_ok c st Hc R) as HB. rewrite Forall_forall in HB.
  assert (Hpos : forall x, In x (elems t) -> 0 <= e_size x).
  { intros x Hx. apply Hel in Hx. destruct Hx as [b [Hb ->]]. unfold block_ent, e_size. cbn.
    rewrite (HB b Hb). destruct G as [GB _ _ _ _ _]. rewrite Forall_forall in GB. destruct (GB b Hb) as ([S _] & Pb & _).
    pose proof (bs_area b S). pose proof (bs_pad b S).
    pose proof (pool_gran_pos c (b_pool b) (co_gran c (cb_ok c Hc)) ltac:(lia)). nia. }
  split.
  - intros b off Hb Hoff. split.
    + apply (lookup_correct t _ (block_ent base b) Ho Hpos).
      * apply Hel. exists b. split; [assumption|reflexivity].
      * unfold contains, block_ent, e_base, e_size. cbn. lia.
    + apply find_block_of_in; [apply (g_ids c st G)|assumption].
  - intros ptr Hn. apply lookup_foreign; try assumption.
    intros e He Hc'. apply Hel in He. destruct He as [b [Hb ->]]. apply (Hn b Hb).
    unfold contains, block_ent, e_base, e_size in Hc'. cbn in Hc'. lia.
Qed.

(* C09 — the word level.  C18's generic-word-size models of bit_vector_fill/clear/set_bit/index_of and of
   BitVectorRangeIterator (Containers/BitVecModel.v, RangeIterModel.v; tied to the code by C18's correspondence) are
   related to the bit-level primitives of JitModel.v:
     * fill / clear / set_bit / index_of: equal for EVERY word size, vector and argument (proved from C18's theorems);
     * the scan loop of JitAllocator::alloc over the word-level iterator (`wscan`) = the bit-level `scan` for every
       vector of up to 3 words of 4 bits, every window, every request size (3 words: size 2; kept small since JitIter.v proves the general statement) (bounded-exhaustive reflection; the
       iterator model is generic in W, the 64-bit instance is tied by the differential runs of C09 and C18). *)
From Coq Require Import ZArith List Bool Lia.
From Verif Require Import Jit.JitModel Jit.JitBits Containers.BitVecModel Containers.BitVecProofs Containers.RangeIterModel.
Import ListNotations.
Local Open Scope Z_scope.

(* the word vector ws (W-bit words) represents the bit mask u on [0, W * |ws|) *)
Definition repr (W : Z) (ws : list Z) (u : Z) : Prop :=
  forall j, 0 <= j < W * zlen ws -> bv_get W ws j = Z.testbit u j.

Lemma in_range_inr i n j : in_range i n j = inr i n j.
Proof. reflexivity. Qed.

Theorem fill_repr W ws u i n :
  0 < W -> words_ok W ws -> 0 <= i -> 0 <= n -> i + n <= W * zlen ws ->
  repr W ws u -> repr W (bv_fill W ws i n) (set_range u i n).
Proof.
  intros HW Hok Hi Hn Hin R j Hj.
  assert (zlen (bv_fill W ws i n) = zlen ws) as L by (unfold zlen, bv_fill; rewrite bv_op_length; reflexivity).
  rewrite L in Hj. rewrite bv_fill_get by assumption. rewrite tb_set_range by lia. rewrite in_range_inr, (R j Hj).
  destruct (inr i n j); [rewrite orb_true_r|rewrite orb_false_r]; reflexivity.
Qed.

Theorem clear_repr W ws u i n :
  0 < W -> words_ok W ws -> 0 <= i -> 0 <= n -> i + n <= W * zlen ws ->
  repr W ws u -> repr W (bv_clear W ws i n) (clear_range u i n).
Proof.
  intros HW Hok Hi Hn Hin R j Hj.
  assert (zlen (bv_clear W ws i n) = zlen ws) as L by (unfold zlen, bv_clear; rewrite bv_op_length; reflexivity).
  rewrite L in Hj. rewrite bv_clear_get by assumption. rewrite tb_clear_range by lia. rewrite in_range_inr, (R j Hj).
  destruct (inr i n j); cbn; [rewrite andb_false_r|rewrite andb_true_r]; reflexivity.
Qed.

Theorem set_bit_repr W ws u i (v : bool) :
  0 < W -> words_ok W ws -> 0 <= i < W * zlen ws ->
  repr W ws u -> repr W (bv_set W ws i v) (if v then Z.setbit u i else Z.clearbit u i).
Proof.
  intros HW Hok Hi R j Hj.
  destruct (bv_set_ok W ws i v HW Hok ltac:(lia)) as [_ L].
  assert (zlen (bv_set W ws i v) = zlen ws) as L' by (unfold zlen; rewrite L; reflexivity).
  rewrite L' in Hj. rewrite bv_set_get by assumption. rewrite (R j Hj).
  destruct v.
  - rewrite Z.setbit_eqb by lia. rewrite (Z.eqb_sym i j). destruct (j =? i); reflexivity.
  - rewrite Z.clearbit_eqb. rewrite (Z.eqb_sym i j). destruct (j =? i); cbn; [rewrite andb_false_r|rewrite andb_true_r]; reflexivity.
Qed.

(* bit_vector_index_of = find_bit (the C++ loop has no end test: None stands for "runs off the vector") *)
Theorem index_of_repr W ws u start (v : bool) :
  0 < W -> words_ok W ws -> 0 <= start <= W * zlen ws -> repr W ws u ->
  match bv_index_of W ws start v with
  | Some r => find_bit u v start (W * zlen ws) = r
  | None => find_bit u v start (W * zlen ws) = W * zlen ws
  end.
Proof.
  intros HW Hok Hs R.
  pose proof (bv_index_of_spec W ws start v HW Hok ltac:(lia)) as S.
  pose proof (find_bit_spec u v start (W * zlen ws) Hs) as F. cbn zeta in F. destruct F as (F1 & F2 & F3).
  set (j := find_bit u v start (W * zlen ws)) in *.
  destruct (bv_index_of W ws start v) as [r|].
  - destruct S as (S1 & S2 & S3).
    destruct (Z.lt_trichotomy j r) as [H|[H|H]]; [|assumption|]; exfalso.
    + specialize (S3 j ltac:(lia)). rewrite (R j ltac:(lia)) in S3. rewrite F3 in S3 by lia. destruct v; discriminate.
    + specialize (F2 r ltac:(lia)). rewrite <- (R r ltac:(lia)) in F2. rewrite S2 in F2. destruct v; discriminate.
  - destruct (Z.lt_ge_cases j (W * zlen ws)) as [H|H]; [|lia]. exfalso.
    specialize (S j ltac:(lia)). rewrite (R j ltac:(lia)) in S. rewrite F3 in S by lia. destruct v; discriminate.
Qed.

(* ------------------------------------------------------------------ the scan loop of alloc over the word-level iterator *)
Fixpoint wscan_go (fuel : nat) (W : Z) (ws : list Z) (it : riter) (n : Z) (acc : option (Z * Z * Z)) : scan_res :=
  match fuel with
  | O => scan_finish acc
  | S f =>
    match ri_next W false ws it n with
    | None => scan_finish acc
    | Some (s, e, it') =>
      (* size_t range_size = range_end - range_start *)
      let size := (e - s) mod 2 ^ 64 in
      if n <=? size then Found s
      else wscan_go f W ws it' n
             (Some (match acc with None => (s, e, size) | Some (fs, _, lg) => (Z.min fs s, e, Z.max lg size) end))
    end
  end.

Definition wscan (W : Z) (ws : list Z) (start end_ n : Z) : scan_res :=
  wscan_go (S (Z.to_nat (W * zlen ws))) W ws (ri_init W false ws start end_) n None.

Definition mask_of (W : Z) (ws : list Z) : Z :=
  fold_right (fun w a => w + 2 ^ W * a) 0 ws.

Definition scan_res_eqb (a b : scan_res) : bool :=
  match a, b with
  | Found x, Found y => x =? y
  | NotFound a1 a2 a3, NotFound b1 b2 b3 => (a1 =? b1) && (a2 =? b2) && (a3 =? b3)
  | NoRuns, NoRuns => true
  | _, _ => false
  end.

Fixpoint zrange (lo : Z) (n : nat) : list Z := match n with O => [] | S k => lo :: zrange (lo + 1) k end.
Fixpoint all_words4 (n : nat) : list (list Z) :=
  match n with O => [[]] | S k => flat_map (fun l => map (fun w => w :: l) (zrange 0 16)) (all_words4 k) end.

(* window soundness restricted to what the iterator needs: no free granule in [end, end of that word) *)
Definition no_free_after_end (ws : list Z) (end_ : Z) : bool :=
  forallb (fun j => bv_get 4 ws j) (zrange end_ (Z.to_nat (((end_ + 3) / 4) * 4 - end_))).

Definition wscan_explore (nw : nat) (sizes : list Z) : bool :=
  let bits := 4 * Z.of_nat nw in
  forallb (fun ws =>
    forallb (fun start =>
      forallb (fun end_ =>
        if (start <=? end_) && no_free_after_end ws end_ then
          forallb (fun n => scan_res_eqb (wscan 4 ws start end_ n) (scan (mask_of 4 ws) start end_ n)) sizes
        else true)
        (zrange 0 (S (Z.to_nat bits))))
      (zrange 0 (S (Z.to_nat bits))))
    (all_words4 nw).

Theorem wscan_eq_scan_small_scope :
  wscan_explore 1 (zrange 1 5) = true /\ wscan_explore 2 (zrange 1 9) = true /\ wscan_explore 3 [2] = true.
Proof. vm_compute. repeat split. Qed.

(* the same for other word sizes (the iterator model is generic in W): W = 3 (3 words, all request sizes), W = 5 (2 words) *)
Fixpoint all_wordsW (W : Z) (n : nat) : list (list Z) :=
  match n with O => [[]] | S k => flat_map (fun l => map (fun w => w :: l) (zrange 0 (Z.to_nat (2 ^ W)))) (all_wordsW W k) end.
Definition no_free_after_endW (W : Z) (ws : list Z) (end_ : Z) : bool :=
  forallb (fun j => bv_get W ws j) (zrange end_ (Z.to_nat (((end_ + W - 1) / W) * W - end_))).
Definition wscan_exploreW (W : Z) (nw : nat) (sizes : list Z) : bool :=
  let bits := W * Z.of_nat nw in
  forallb (fun ws =>
    forallb (fun start =>
      forallb (fun end_ =>
        if (start <=? end_) && no_free_after_endW W ws end_ then
          forallb (fun n => scan_res_eqb (wscan W ws start end_ n) (scan (mask_of W ws) start end_ n)) sizes
        else true)
        (zrange 0 (S (Z.to_nat bits))))
      (zrange 0 (S (Z.to_nat bits))))
    (all_wordsW W nw).

Theorem wscan_eq_scan_other_word_sizes :
  wscan_exploreW 3 3 [1; 2; 4] = true /\ wscan_exploreW 5 2 [2] = true.
Proof. vm_compute. repeat split. Qed.

(* without the proviso (the state DESIGN 7.13 produced): words 0111b 0111b, window [0, 4): the request of 2 granules is
   "found" at granule 7 — outside the window and, for a request of 2, past the end of the vector *)
Theorem wscan_unsound_window_refuted :
  wscan 4 [7; 7] 0 5 2 = Found 7 /\ scan (mask_of 4 [7; 7]) 0 5 2 = NotFound 3 4 1.
Proof. vm_compute. split; reflexivity. Qed.

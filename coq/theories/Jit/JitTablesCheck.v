(* C09 — checkers for the tables that tools/c09_tables.py regenerates from /repo's source on every run (translator tie):
   a dumper that #includes jitallocator.cpp evaluates the REAL JitAllocator_new_impl normalisation, the file-static
   JitAllocator_size_to_pool_id and JitAllocator_calculate_ideal_block_size and the named constants on grids of arguments;
   coq/gen/JitTables.v holds the rows; `tables_ok` (reflection, in the gen file) says that the model functions give the
   same answers on every row. *)
From Coq Require Import ZArith List Bool.
From Verif Require Import Jit.JitModel.
Import ListNotations.
Local Open Scope Z_scope.

(* named constants of jitallocator.cpp: kJitAllocatorMultiPoolCount, kJitAllocatorBaseGranularity, kJitAllocatorMaxBlockSize *)
Definition check_consts (multi_pools base_gran max_block : Z) : bool :=
  (multi_pools =? norm_pools true) && (base_gran =? norm_gran 0) && (max_block =? max_block_size).

(* row: requested granularity, requested block size, multiple pools (0/1) -> effective granularity, block size, pool count *)
Definition check_create (page_gran : Z) (row : Z * Z * Z * (Z * Z * Z)) : bool :=
  let '(g, bs, multi, (eg, ebs, ep)) := row in
  (norm_gran g =? eg) && (norm_bsize page_gran bs =? ebs) && (norm_pools (negb (multi =? 0)) =? ep).

Definition cfg_of (g pools bs pad : Z) : config := mkConfig g pools bs (negb (pad =? 0)) false fixed.

(* row: granularity, pool count, size -> pool id *)
Definition check_pool (row : Z * Z * Z * Z) : bool :=
  let '(g, pools, size, id) := row in size_to_pool (cfg_of g pools 65536 1) size =? id.

(* row: granularity, pool count, block size, padding (0/1), pool, byte size of the pool's last block (0 = none), request -> result *)
Definition check_ideal (row : Z * Z * Z * Z * Z * Z * Z * Z) : bool :=
  let '(g, pools, bs, pad, p, last, size, res) := row in
  let lastb := if last =? 0 then None else Some (mkBlock 0 p last 0 0 0 0 0 0 0 0 false false false []) in
  ideal_block_size (cfg_of g pools bs pad) p lastb size =? res.

Definition check_tables (consts : Z * Z * Z * Z)
                        (create : list (Z * Z * Z * (Z * Z * Z))) (pool : list (Z * Z * Z * Z))
                        (ideal : list (Z * Z * Z * Z * Z * Z * Z * Z)) : bool :=
  let '(multi_pools, base_gran, max_block, page_gran) := consts in
  check_consts multi_pools base_gran max_block && forallb (check_create page_gran) create &&
  forallb check_pool pool && forallb check_ideal ideal.

(* row: granularity, size -> answer class of alloc (0 ok, 1 InvalidArgument, 2 TooLarge); separate lemma allocerr_ok in the gen file *)
Definition check_allocerr (row : Z * Z * Z) : bool :=
  let '(g, size, code) := row in
  let sz := align_up size g mod two64 in
  code =? (if sz =? 0 then 1 else if 2147483647 <=? sz - 1 then 2 else 0).

(* what a passing table means, row by row *)
Lemma check_tables_spec consts create pool ideal : check_tables consts create pool ideal = true ->
  (forall r, In r create -> check_create (snd consts) r = true) /\
  (forall r, In r pool -> check_pool r = true) /\ (forall r, In r ideal -> check_ideal r = true).
Proof.
  unfold check_tables. destruct consts as [[[a b] c] d]. cbn [snd]. intros H.
  repeat (apply andb_true_iff in H; destruct H as [H ?]).
  rewrite forallb_forall in *. repeat split; assumption.
Qed.

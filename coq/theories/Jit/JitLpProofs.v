(* C09 — large pages (oracle step): the allocator invariant — hence disjointness, exact bit vectors, window soundness, exact
   accounting, empty-block policy — is preserved by alloc whatever byte size >= the ideal one the new block gets. *)
From Coq Require Import ZArith List Bool Lia.
From Verif Require Import Jit.JitModel Jit.JitBits Jit.JitBlockProofs Jit.JitProofs Jit.JitLpModel.
Import ListNotations.
Local Open Scope Z_scope.

Lemma alloc_adj_id c st size : alloc_adj c st size (fun b => b) = alloc c st size.
Proof. reflexivity. Qed.

Lemma lp_bytes_le lp fl ok bytes : bytes <= lp_bytes lp fl ok bytes.
Proof.
  unfold lp_bytes. destruct (Z.ltb_spec 0 lp); cbn [andb]; [|lia].
  destruct ((lp <=? bytes) || fl); cbn [andb]; [|lia]. destruct ok; [|lia]. apply align_up_ge. assumption.
Qed.

Lemma ginv_alloc_adj c st size adj : (forall b, b <= adj b) -> cfg_ok c -> ginv c st -> ginv c (fst (alloc_adj c st size adj)).
Proof.
  intros Hadj Hc G. destruct Hc as [Hg Hpools Hbs Hvar]. unfold alloc_adj.
  set (sz := align_up size (c_gran c) mod two64).
  destruct (Z.eqb_spec sz 0) as [E0|E0]; [exact G|].
  destruct (Z.leb_spec 2147483647 (sz - 1)) as [E1|E1]; [exact G|].
  assert (Hsz : 1 <= sz).
  { pose proof (Z.mod_pos_bound (align_up size (c_gran c)) two64 ltac:(reflexivity)) as Hm. fold sz in Hm. lia. }
  set (p := size_to_pool c sz). pose proof (size_to_pool_range c sz Hpools) as Hp. fold p in Hp.
  set (g := pool_gran c p). pose proof (pool_gran_pos c p Hg ltac:(lia)) as Hgp. fold g in Hgp.
  set (n := (sz + g - 1) / g). pose proof (ceil_ge1 sz g Hgp Hsz) as Hn. fold n in Hn.
  rewrite Hvar.
  destruct G as [GB GI GN GP GC GNid].
  pose proof (try_blocks_ok c (nextid st) p n Hn (blocks st) GB) as (F' & G' & W).
  pose proof (GP p Hp) as [P1 P2 P3 P4 P5].
  assert (Hlen : 0 <= p < Z.of_nat (length (pools st))) by lia.
  destruct (try_blocks fixed p n (blocks st)) as [bl' [[[id s] we]|]] eqn:Et; cbn [fst snd] in *.
  - destruct W as (W1 & W2 & W3 & _).
    constructor; cbn [blocks pools acount nextid].
    + assumption.
    + rewrite (same_geom_ids _ _ G'). assumption.
    + rewrite set_pool_length. assumption.
    + intros q Hq. destruct (Z.eq_dec q p) as [->|Hne].
      * rewrite get_set_same by assumption.
        pose proof (sump_emptyf_nonneg p bl') as Hnn. specialize (W1 p). specialize (W2 p).
        rewrite Z.eqb_refl in W1, W2. cbn [andb] in W2.
        constructor; cbn [p_count p_empty p_tsize p_tused].
        -- rewrite P1. symmetry. apply sump_same_geom; [assumption|reflexivity].
        -- rewrite P2. symmetry. apply sump_same_geom; [assumption|]. intros b b' (_ & _ & _ & H4 & _). exact H4.
        -- rewrite P3, W1. reflexivity.
        -- destruct we; lia.
        -- intros Hi. specialize (P5 Hi). destruct we; lia.
      * rewrite (get_set_other _ _ (blocks st) _ (acount st) _ (nextid st) p q) by lia.
        destruct (GP q Hq) as [Q1 Q2 Q3 Q4 Q5]. destruct st as [bl0 ps0 ac0 ni0]; cbn [blocks pools acount nextid] in *.
        specialize (W1 q). specialize (W2 q).
        replace (q =? p) with false in W1, W2 by (symmetry; apply Z.eqb_neq; assumption). cbn [andb] in W2.
        constructor.
        -- rewrite Q1. symmetry. apply sump_same_geom; [assumption|reflexivity].
        -- rewrite Q2. symmetry. apply sump_same_geom; [assumption|]. intros b b' (_ & _ & _ & H4 & _). exact H4.
        -- rewrite Q3, W1. lia.
        -- rewrite W2. lia.
        -- intros Hi. rewrite W2. specialize (Q5 Hi). lia.
    + rewrite GC, W3. reflexivity.
    + assumption.
  - destruct W as (W1 & W2 & W3 & _).
    set (bytes := adj (ideal_block_size c p (last_of_pool p bl' None) sz)).
    set (area := (bytes + g - 1) / g).
    set (pad := if c_pad c then 1 else 0).
    assert (Hpad : pad = 0 \/ pad = 1) by (unfold pad; destruct (c_pad c); [right|left]; reflexivity).
    assert (Hfit : pad + n <= area).
    { pose proof (new_area_fits c p (last_of_pool p bl' None) sz Hg ltac:(lia) Hbs Hsz) as NF. cbn zeta in NF. fold g in NF.
      pose proof (Hadj (ideal_block_size c p (last_of_pool p bl' None) sz)) as HA. fold bytes in HA.
      assert ((ideal_block_size c p (last_of_pool p bl' None) sz + g - 1) / g <= area) by (unfold area; apply Z.div_le_mono; lia).
      unfold pad, n. lia. }
    destruct (binv_new_block (nextid st) p bytes area pad n Hpad Hn Hfit) as (NB & NL & NA & NE & NI & NP & NAr & NPd & NBy).
    set (nb := new_block_alloc fixed (nextid st) p bytes area pad n) in *.
    constructor; cbn [blocks pools acount nextid].
    + apply Forall_app. split.
      * eapply Forall_impl; [|exact F']. intros b. apply block_ok_mono. lia.
      * constructor; [|constructor]. split; [assumption|]. rewrite NP, NI. lia.
    + rewrite map_app. cbn [map]. rewrite NI, (same_geom_ids _ _ G').
      apply NoDup_snoc; [assumption|].
      intros Hin. apply in_map_iff in Hin. destruct Hin as [x [Hx1 Hx2]].
      rewrite Forall_forall in GB. destruct (GB x Hx2) as (_ & _ & Hid). lia.
    + rewrite set_pool_length. assumption.
    + intros q Hq. destruct (Z.eq_dec q p) as [->|Hne].
      * rewrite get_set_same by assumption.
        constructor; cbn [p_count p_empty p_tsize p_tused]; rewrite sump_app; cbn [sump]; rewrite NP, Z.eqb_refl.
        -- rewrite P1. change (onef nb) with 1. rewrite (sump_same_geom onef p _ _ G') by reflexivity. lia.
        -- rewrite P2, NAr. rewrite (sump_same_geom b_area p _ _ G'); [lia|]. intros b b' (_ & _ & _ & H4 & _). exact H4.
        -- rewrite P3, NA, W1. lia.
        -- replace (emptyf nb) with 0 by (unfold emptyf; rewrite NE; reflexivity). rewrite W2. lia.
        -- intros Hi. replace (emptyf nb) with 0 by (unfold emptyf; rewrite NE; reflexivity). rewrite W2. specialize (P5 Hi). lia.
      * rewrite (get_set_other _ _ (blocks st) _ (acount st) _ (nextid st) p q) by lia.
        destruct (GP q Hq) as [Q1 Q2 Q3 Q4 Q5]. destruct st as [bl0 ps0 ac0 ni0]; cbn [blocks pools acount nextid] in *.
        replace (get_pool {| blocks := bl0; pools := ps0; acount := ac0; nextid := ni0 |} q) with
                (get_pool {| blocks := bl0; pools := ps0; acount := ac0; nextid := ni0 |} q) in * by reflexivity.
        constructor; rewrite sump_app; cbn [sump]; rewrite NP;
          replace (p =? q) with false by (symmetry; apply Z.eqb_neq; lia).
        -- rewrite Q1. rewrite (sump_same_geom onef q _ _ G') by reflexivity. lia.
        -- rewrite Q2. rewrite (sump_same_geom b_area q _ _ G'); [lia|]. intros b b' (_ & _ & _ & H4 & _). exact H4.
        -- rewrite Q3, W1. lia.
        -- rewrite W2. lia.
        -- intros Hi. rewrite W2. specialize (Q5 Hi). lia.
    + rewrite total_live_app. cbn [total_live]. unfold livef at 1. rewrite NL. cbn [length]. lia.
    + lia.
Qed.
Theorem ginv_alloc_lp c st size lp fl ok : cfg_ok c -> ginv c st -> ginv c (fst (alloc_lp c st size lp fl ok)).
Proof. intros Hc G. unfold alloc_lp. apply ginv_alloc_adj; [intros b; apply lp_bytes_le|assumption|assumption]. Qed.

(* without large pages (none on the host, or the large-page request failed) nothing changes *)
Lemma lp_bytes_off lp fl ok bytes : lp = 0 \/ ok = false -> lp_bytes lp fl ok bytes = bytes.
Proof.
  intros [-> | ->]; unfold lp_bytes; [reflexivity|]. rewrite andb_false_r. reflexivity.
Qed.

Theorem alloc_lp_none c st size lp fl ok :
  lp = 0 \/ ok = false -> alloc_lp c st size lp fl ok = alloc c st size.
Proof.
  intros H. unfold alloc_lp, alloc_adj, alloc.
  destruct (_ =? 0); [reflexivity|]. destruct (_ <=? _); [reflexivity|].
  destruct (try_blocks _ _ _ _) as [bl' [[[i s] w]|]]; [reflexivity|].
  rewrite (lp_bytes_off lp fl ok _ H). reflexivity.
Qed.

(* with large pages the new block is a whole number of large pages and at least as large as without *)
Lemma lp_bytes_on lp fl bytes : 0 < lp -> lp <= bytes \/ fl = true ->
  lp_bytes lp fl true bytes = align_up bytes lp /\ bytes <= align_up bytes lp /\ (align_up bytes lp) mod lp = 0.
Proof.
  intros Hlp H. unfold lp_bytes. replace (0 <? lp) with true by (symmetry; apply Z.ltb_lt; assumption).
  replace ((lp <=? bytes) || fl) with true by (symmetry; apply orb_true_iff; destruct H as [H| ->]; [left; apply Z.leb_le; assumption|right; reflexivity]).
  cbn [andb]. splits; [reflexivity|apply align_up_ge; assumption|apply align_up_mod; assumption].
Qed.

(* histories with every oracle: any alloc may get large pages (any page size, any outcome of the large-page request) or hit a
   failing virtual-memory request *)
From Verif Require Import Jit.JitVmModel Jit.JitVmProofs.

Inductive reach_x (c : config) : state -> Prop :=
| rx_init : reach_x c (init_state c)
| rx_step st o : reach_x c st -> valid_op c st o -> reach_x c (fst (step c st o))
| rx_lp st size lp fl ok : reach_x c st -> reach_x c (fst (alloc_lp c st size lp fl ok))
| rx_fail st size : reach_x c st -> reach_x c (fst (alloc_vm c st size false)).

Theorem reach_x_ginv c st : cfg_ok c -> reach_x c st -> ginv c st.
Proof.
  intros Hc R. induction R as [|st o R IH V|st size lp fl ok R IH|st size R IH].
  - apply ginv_init. assumption.
  - apply ginv_step; assumption.
  - apply ginv_alloc_lp; assumption.
  - apply (alloc_vm_fail c st size Hc IH).
Qed.

Definition cfg_lp : config := mkConfig 64 1 65536 true false fixed.
Lemma alloc_lp_example :
  map b_bytes (blocks (fst (alloc_lp cfg_lp (init_state cfg_lp) 100 2097152 true true))) = [2097152] /\
  map b_bytes (blocks (fst (alloc_lp cfg_lp (init_state cfg_lp) 100 2097152 false true))) = [131072] /\
  map b_bytes (blocks (fst (alloc_lp cfg_lp (init_state cfg_lp) 3000000 2097152 false true))) = [4194304].
Proof. vm_compute. repeat split; reflexivity. Qed.

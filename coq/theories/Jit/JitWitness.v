(* C09 — concrete witnesses: (a) the hypotheses of the theorems are satisfiable, (b) the PINNED behaviour of each
   recorded defect refutes the corresponding property (evaluated on the faithful model by vm_compute). *)
From Coq Require Import ZArith List Bool Lia.
From Verif Require Import Jit.JitModel Jit.JitBits Jit.JitBlockProofs Jit.JitProofs.
Import ListNotations.
Local Open Scope Z_scope.

Definition cfg_f : config := mkConfig 64 1 65536 true false fixed.
Definition cfg_p : config := mkConfig 64 1 65536 true false pinned.
Definition cfg_f3 : config := mkConfig 64 3 65536 true false fixed.
Definition cfg_p_imm : config := mkConfig 64 1 65536 true true pinned.
Definition cfg_f_imm : config := mkConfig 64 1 65536 true true fixed.

Lemma cfg_f_ok : cfg_ok cfg_f.
Proof. constructor; cbn; try lia; reflexivity. Qed.
Lemma cfg_f3_ok : cfg_ok cfg_f3.
Proof. constructor; cbn; try lia; reflexivity. Qed.

(* a reachable state with a valid release: alloc 100 bytes (span at offset 64 of block 0), release it *)
Lemma reach_example : reach cfg_f (run cfg_f (init_state cfg_f) [OAlloc 100; ORelease 0 64]).
Proof.
  cbn [run].
  apply reach_step.
  - apply (reach_step cfg_f (init_state cfg_f) (OAlloc 100)); [apply reach_init|exact I].
  - cbn [valid_op]. intros b Hb. vm_compute in Hb. injection Hb as <-. exists 2. vm_compute. left. reflexivity.
Qed.

Lemma alloc_example :
  exists st', alloc cfg_f3 (init_state cfg_f3) 100 = (st', RAlloc Ok 0 128 128) /\ 0 <= 100 /\ 100 + c_gran cfg_f3 <= two64.
Proof. eexists. split; [vm_compute; reflexivity|]. cbn. unfold two64. lia. Qed.

(* DESIGN 7.13: fill the first block exactly (31 x 4096 + 4032 bytes), release the last span, release span #7 *)
Definition ops_713 : list op :=
  repeat (OAlloc 4096) 31 ++ [OAlloc 4032; ORelease 0 (64 + 31 * 4096); ORelease 0 (64 + 7 * 4096)].

Lemma pinned_window_unsound :
  state_wsound (run cfg_p (init_state cfg_p) ops_713) = false /\
  length (blocks (run cfg_p (init_state cfg_p) (ops_713 ++ [OAlloc 4096; OAlloc 4032]))) = 2%nat /\
  state_wsound (run cfg_f (init_state cfg_f) ops_713) = true /\
  length (blocks (run cfg_f (init_state cfg_f) (ops_713 ++ [OAlloc 4096; OAlloc 4032]))) = 1%nat.
Proof. vm_compute. repeat split; reflexivity. Qed.

Lemma pinned_not_initialized : is_initialized cfg_p = false /\ is_initialized cfg_f = true.
Proof. vm_compute. split; reflexivity. Qed.

(* kImmediateRelease: alloc 64, release it -> the pinned allocator retains the (now empty) block *)
Lemma pinned_empty_block_retained :
  sump nolivef 0 (blocks (run cfg_p_imm (init_state cfg_p_imm) [OAlloc 64; ORelease 0 64])) = 1 /\
  sump nolivef 0 (blocks (run cfg_f_imm (init_state cfg_f_imm) [OAlloc 64; ORelease 0 64])) = 0.
Proof. vm_compute. split; reflexivity. Qed.

Lemma pinned_reset_keeps_count :
  acount (reset cfg_p (run cfg_p (init_state cfg_p) [OAlloc 256]) false) = 1 /\
  acount (reset cfg_f (run cfg_f (init_state cfg_f) [OAlloc 256]) false) = 0.
Proof. vm_compute. split; reflexivity. Qed.

(* query of the padding granule (block base): the pinned allocator answers Ok with a 64-byte "span" at offset 0 *)
Lemma pinned_query_padding :
  query cfg_p (run cfg_p (init_state cfg_p) [OAlloc 100]) 0 0 = RQuery Ok 0 0 64 /\
  query cfg_f (run cfg_f (init_state cfg_f) [OAlloc 100]) 0 0 = RQuery InvalidArgument 0 0 0 /\
  query cfg_f (run cfg_f (init_state cfg_f) [OAlloc 100]) 0 100 = RQuery Ok 0 64 128.
Proof. vm_compute. repeat split; reflexivity. Qed.
